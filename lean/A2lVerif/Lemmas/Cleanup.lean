import A2lVerif.Model.Cleanup
/-! Lemmas about the cleanup model (`Model/Cleanup.lean`): building blocks, the work-queue loop, the unit closure. -/
namespace A2l.Cl

/-- identity of a module child -/
def key (n : Node) : String × String := (n.tag, n.name)

/-- restriction of a module to the children whose keyword satisfies `q` -/
def only (q : String → Bool) (m : Module) : Module := m.filter fun n => q n.tag

/-! ### namesOf / targetsOf -/

theorem mem_namesOf {tags : List String} {m : Module} {x : String} :
    x ∈ namesOf tags m ↔ ∃ n ∈ m, n.tag ∈ tags ∧ n.name = x := by
  simp [namesOf, List.mem_map, List.mem_filter, and_assoc]

theorem mem_targetsOf {sel : Sel} {m : Module} {x : String} :
    x ∈ targetsOf sel m ↔ ∃ n ∈ m, ∃ r ∈ n.refs, (n.tag, r.site) ∈ sel ∧ r.target = x := by
  simp [targetsOf, List.mem_flatMap, List.mem_map, List.mem_filter, and_assoc]

theorem namesOf_only (tags : List String) (q : String → Bool) (m : Module) (h : ∀ t ∈ tags, q t = true) :
    namesOf tags (only q m) = namesOf tags m := by
  unfold namesOf only
  rw [List.filter_filter]
  congr 1
  apply List.filter_congr
  intro n _
  by_cases ht : tags.contains n.tag = true
  · rw [ht, h n.tag (List.contains_iff_mem.1 ht)]; rfl
  · simp only [Bool.not_eq_true] at ht; rw [ht]; rfl

theorem targetsOf_nil (sel : Sel) : targetsOf sel [] = [] := rfl
theorem targetsOf_cons (sel : Sel) (n : Node) (m : Module) :
    targetsOf sel (n :: m) = ((n.refs.filter fun r => sel.contains (n.tag, r.site)).map (·.target)) ++ targetsOf sel m := by
  simp only [targetsOf, List.flatMap_cons]

theorem targetsOf_only (sel : Sel) (q : String → Bool) (m : Module) (h : ∀ p ∈ sel, q p.1 = true) :
    targetsOf sel (only q m) = targetsOf sel m := by
  unfold only
  induction m with
  | nil => rfl
  | cons n m ih =>
    rw [List.filter_cons]
    split
    · rw [targetsOf_cons, targetsOf_cons, ih]
    · rename_i hq
      have : (n.refs.filter fun r => sel.contains (n.tag, r.site)) = [] := by
        rw [List.filter_eq_nil_iff]
        intro r _ hc
        exact hq (h _ (List.contains_iff_mem.1 hc))
      rw [targetsOf_cons, this, ih]; rfl

theorem namesOf_eq_of_only {tags : List String} (q : String → Bool) {m m' : Module} (h : ∀ t ∈ tags, q t = true)
    (e : only q m' = only q m) : namesOf tags m' = namesOf tags m := by
  rw [← namesOf_only tags q m h, ← namesOf_only tags q m' h, e]

theorem targetsOf_eq_of_only {sel : Sel} (q : String → Bool) {m m' : Module} (h : ∀ p ∈ sel, q p.1 = true)
    (e : only q m' = only q m) : targetsOf sel m' = targetsOf sel m := by
  rw [← targetsOf_only sel q m h, ← targetsOf_only sel q m' h, e]

theorem only_only (q q' : String → Bool) (m : Module) : only q (only q' m) = only (fun t => q t && q' t) m := by
  simp only [only, List.filter_filter]

theorem only_eq_weaken {q q' : String → Bool} {m m' : Module} (h : ∀ t, q' t = true → q t = true)
    (e : only q m' = only q m) : only q' m' = only q' m := by
  have : ∀ m, only q' m = only q' (only q m) := by
    intro m
    rw [only_only]
    unfold only
    apply List.filter_congr
    intro n _
    show q' n.tag = (q' n.tag && q n.tag)
    cases hq : q' n.tag
    · rfl
    · rw [h _ hq]; rfl
  rw [this m, this m', e]

/-! ### dropRefs -/

def dropIn (sel : Sel) (keep : String → Bool) (n : Node) : Node :=
  { n with refs := n.refs.filter fun r => !sel.contains (n.tag, r.site) || keep r.target }

theorem dropRefs_eq_map (sel : Sel) (keep : String → Bool) (m : Module) :
    dropRefs sel keep m = m.map (dropIn sel keep) := rfl

@[simp] theorem dropIn_tag (sel : Sel) (keep : String → Bool) (n : Node) : (dropIn sel keep n).tag = n.tag := rfl
@[simp] theorem dropIn_name (sel : Sel) (keep : String → Bool) (n : Node) : (dropIn sel keep n).name = n.name := rfl

theorem map_key_dropRefs (sel : Sel) (keep : String → Bool) (m : Module) :
    (dropRefs sel keep m).map key = m.map key := by
  rw [dropRefs_eq_map, List.map_map]; rfl

theorem only_dropRefs (q : String → Bool) (sel : Sel) (keep : String → Bool) (m : Module) :
    only q (dropRefs sel keep m) = dropRefs sel keep (only q m) := by
  simp only [only, dropRefs_eq_map, List.filter_map]; rfl

theorem dropIn_eq_self {sel : Sel} {keep : String → Bool} {n : Node}
    (h : ∀ r ∈ n.refs, (n.tag, r.site) ∈ sel → keep r.target = true) : dropIn sel keep n = n := by
  unfold dropIn
  have : (n.refs.filter fun r => !sel.contains (n.tag, r.site) || keep r.target) = n.refs := by
    rw [List.filter_eq_self]
    intro r hr
    cases hc : sel.contains (n.tag, r.site)
    · rfl
    · rw [h r hr (List.contains_iff_mem.1 hc)]; rfl
  rw [this]

theorem dropRefs_eq_self {sel : Sel} {keep : String → Bool} {m : Module}
    (h : ∀ n ∈ m, ∀ r ∈ n.refs, (n.tag, r.site) ∈ sel → keep r.target = true) : dropRefs sel keep m = m := by
  rw [dropRefs_eq_map]
  conv => rhs; rw [← List.map_id m]
  apply List.map_congr_left
  intro n hn
  exact dropIn_eq_self (h n hn)

theorem only_dropRefs_untouched (q : String → Bool) {sel : Sel} (keep : String → Bool) (m : Module)
    (h : ∀ p ∈ sel, q p.1 = false) : only q (dropRefs sel keep m) = only q m := by
  rw [only_dropRefs]
  apply dropRefs_eq_self
  intro n hn r _ hs
  have : q n.tag = true := by simpa [only] using (List.mem_filter.1 hn).2
  rw [h _ hs] at this
  cases this

theorem mem_dropRefs {sel : Sel} {keep : String → Bool} {m : Module} {n' : Node} :
    n' ∈ dropRefs sel keep m ↔ ∃ n ∈ m, n' = dropIn sel keep n := by
  rw [dropRefs_eq_map, List.mem_map]
  constructor
  · rintro ⟨n, hn, rfl⟩; exact ⟨n, hn, rfl⟩
  · rintro ⟨n, hn, rfl⟩; exact ⟨n, hn, rfl⟩

theorem mem_dropIn_refs {sel : Sel} {keep : String → Bool} {n : Node} {r : Ref} :
    r ∈ (dropIn sel keep n).refs ↔ r ∈ n.refs ∧ ((n.tag, r.site) ∈ sel → keep r.target = true) := by
  unfold dropIn
  simp only [List.mem_filter, Bool.or_eq_true, Bool.not_eq_true']
  constructor
  · rintro ⟨hr, h⟩
    refine ⟨hr, fun hs => ?_⟩
    rcases h with h | h
    · rw [List.contains_iff_mem.2 hs] at h; cases h
    · exact h
  · rintro ⟨hr, h⟩
    refine ⟨hr, ?_⟩
    cases hc : sel.contains (n.tag, r.site)
    · exact Or.inl rfl
    · exact Or.inr (h (List.contains_iff_mem.1 hc))

/-! ### retainNodes -/

theorem retainNodes_sublist (tags : List String) (keep : String → Bool) (m : Module) :
    (retainNodes tags keep m).Sublist m := List.filter_sublist

theorem mem_retainNodes {tags : List String} {keep : String → Bool} {m : Module} {n : Node} :
    n ∈ retainNodes tags keep m ↔ n ∈ m ∧ (n.tag ∈ tags → keep n.name = true) := by
  unfold retainNodes
  simp only [List.mem_filter, Bool.or_eq_true, Bool.not_eq_true']
  constructor
  · rintro ⟨hn, h⟩
    refine ⟨hn, fun ht => ?_⟩
    rcases h with h | h
    · rw [List.contains_iff_mem.2 ht] at h; cases h
    · exact h
  · rintro ⟨hn, h⟩
    refine ⟨hn, ?_⟩
    cases hc : tags.contains n.tag
    · exact Or.inl rfl
    · exact Or.inr (h (List.contains_iff_mem.1 hc))

theorem retainNodes_eq_self {tags : List String} {keep : String → Bool} {m : Module}
    (h : ∀ n ∈ m, n.tag ∈ tags → keep n.name = true) : retainNodes tags keep m = m := by
  unfold retainNodes
  rw [List.filter_eq_self]
  intro n hn
  cases hc : tags.contains n.tag
  · rfl
  · rw [h n hn (List.contains_iff_mem.1 hc)]; rfl

theorem only_retainNodes_untouched (q : String → Bool) {tags : List String} (keep : String → Bool) (m : Module)
    (h : ∀ t ∈ tags, q t = false) : only q (retainNodes tags keep m) = only q m := by
  unfold only retainNodes
  rw [List.filter_filter]
  apply List.filter_congr
  intro n _
  cases hq : q n.tag
  · rfl
  · cases hc : tags.contains n.tag
    · rfl
    · rw [h _ (List.contains_iff_mem.1 hc)] at hq; cases hq

/-! ### the work-queue loop: indices -/

theorem mem_idxsOf {c : WL} {m : Module} {name : String} {j : Nat} :
    j ∈ idxsOf c m name ↔ ∃ n, m[j]? = some n ∧ n.tag = c.tag ∧ n.name = name := by
  unfold idxsOf
  simp only [List.mem_map, List.mem_filter, List.mem_zipIdx_iff_getElem?, Bool.and_eq_true, beq_iff_eq]
  constructor
  · rintro ⟨⟨n, i⟩, ⟨h1, h2⟩, rfl⟩; exact ⟨n, h1, h2⟩
  · rintro ⟨n, h1, h2⟩; exact ⟨⟨n, j⟩, ⟨h1, h2⟩, rfl⟩

theorem indexOf_mem {c : WL} {m : Module} {name : String} {j : Nat} (h : indexOf c m name = some j) :
    j ∈ idxsOf c m name := by
  unfold indexOf at h
  split at h
  · exact List.mem_of_getLast? h
  · exact List.mem_of_head? h

theorem indexOf_some {c : WL} {m : Module} {name : String} {j : Nat} (h : indexOf c m name = some j) :
    ∃ n, m[j]? = some n ∧ n.tag = c.tag ∧ n.name = name := mem_idxsOf.1 (indexOf_mem h)

theorem indexOf_exists {c : WL} {m : Module} {name : String} {i : Nat} {n : Node}
    (h : m[i]? = some n) (ht : n.tag = c.tag) (hn : n.name = name) : ∃ j, indexOf c m name = some j := by
  have hi : i ∈ idxsOf c m name := mem_idxsOf.2 ⟨n, h, ht, hn⟩
  unfold indexOf
  split
  · cases hl : (idxsOf c m name).getLast? with
    | some j => exact ⟨j, rfl⟩
    | none => rw [List.getLast?_eq_none_iff.1 hl] at hi; cases hi
  · cases hl : (idxsOf c m name).head? with
    | some j => exact ⟨j, rfl⟩
    | none => rw [List.head?_eq_none_iff.1 hl] at hi; cases hi

theorem mem_userOf {c : WL} {init : Module} {d k : Nat} :
    k ∈ userOf c init d ↔ ∃ n, init[k]? = some n ∧ n.tag = c.tag ∧
      ∃ r ∈ n.refs, r.site = c.subSite ∧ indexOf c init r.target = some d := by
  unfold userOf
  simp only [List.mem_flatMap, List.mem_zipIdx_iff_getElem?]
  constructor
  · rintro ⟨⟨n, i⟩, h1, h2⟩
    split at h2
    · rename_i ht
      rw [List.mem_map] at h2
      obtain ⟨r, h2, rfl⟩ := h2
      simp only [List.mem_filter, Bool.and_eq_true, beq_iff_eq] at h2
      obtain ⟨hr, hs, hi⟩ := h2
      exact ⟨n, h1, by simpa using ht, r, hr, hs, hi⟩
    · cases h2
  · rintro ⟨n, h1, ht, r, hr, hs, hi⟩
    refine ⟨⟨n, k⟩, h1, ?_⟩
    simp only [ht, beq_self_eq_true, if_true]
    rw [List.mem_map]
    refine ⟨r, ?_, rfl⟩
    simp only [List.mem_filter, Bool.and_eq_true, beq_iff_eq]
    exact ⟨hr, hs, hi⟩

/-! ### the work-queue loop: removal of sub references -/

/-- the sub references to any of `names` removed from an item -/
def removeSubs (c : WL) (names : List String) (n : Node) : Node :=
  if n.tag == c.tag then
    { n with refs := n.refs.filter fun r => !(r.site == c.subSite && names.contains r.target) }
  else n

@[simp] theorem removeSubs_tag (c : WL) (names : List String) (n : Node) : (removeSubs c names n).tag = n.tag := by
  unfold removeSubs; split <;> rfl
@[simp] theorem removeSubs_name (c : WL) (names : List String) (n : Node) : (removeSubs c names n).name = n.name := by
  unfold removeSubs; split <;> rfl

theorem removeSubs_nil (c : WL) (n : Node) : removeSubs c [] n = n := by
  unfold removeSubs
  split
  · have : (n.refs.filter fun r => !(r.site == c.subSite && ([] : List String).contains r.target)) = n.refs := by
      rw [List.filter_eq_self]; intro r _; simp
    rw [this]
  · rfl

theorem removeSub_eq (c : WL) (nm : String) (n : Node) : removeSub c nm n = removeSubs c [nm] n := by
  unfold removeSub removeSubs
  split
  · congr 1
    apply List.filter_congr
    intro r _
    by_cases h : r.target = nm <;> simp [h]
  · rfl

theorem removeSubs_append (c : WL) (a b : List String) (n : Node) :
    removeSubs c (a ++ b) n = removeSubs c a (removeSubs c b n) := by
  unfold removeSubs
  by_cases ht : (n.tag == c.tag) = true
  · simp only [ht, if_true, List.filter_filter]
    congr 1
    apply List.filter_congr
    intro r _
    rw [List.contains_append]
    cases (r.site == c.subSite) <;> cases (a.contains r.target) <;> cases (b.contains r.target) <;> rfl
  · have hf : (n.tag == c.tag) = false := by simpa using ht
    simp [hf]

theorem mem_removeSubs_refs {c : WL} {names : List String} {n : Node} {r : Ref} :
    r ∈ (removeSubs c names n).refs ↔ r ∈ n.refs ∧ ¬(n.tag = c.tag ∧ r.site = c.subSite ∧ r.target ∈ names) := by
  unfold removeSubs
  by_cases ht : n.tag = c.tag
  · simp [ht, List.mem_filter]
    intro _
    by_cases hA : r.site = c.subSite <;> simp [hA]
  · simp [ht]

theorem removeSubs_refs_sublist (c : WL) (names : List String) (n : Node) :
    (removeSubs c names n).refs.Sublist n.refs := by
  unfold removeSubs
  split
  · exact List.filter_sublist
  · exact List.Sublist.refl _

theorem removeSubs_eq_self {c : WL} {names : List String} {n : Node}
    (h : ¬(n.tag = c.tag ∧ ∃ r ∈ n.refs, r.site = c.subSite ∧ r.target ∈ names)) : removeSubs c names n = n := by
  unfold removeSubs
  split
  · rename_i ht
    have : (n.refs.filter fun r => !(r.site == c.subSite && names.contains r.target)) = n.refs := by
      rw [List.filter_eq_self]
      intro r hr
      cases hs : (r.site == c.subSite && names.contains r.target)
      · rfl
      · exfalso
        simp only [Bool.and_eq_true, beq_iff_eq, List.contains_iff_mem] at hs
        exact h ⟨by simpa using ht, r, hr, hs.1, hs.2⟩
    rw [this]
  · rfl

theorem removeSubs_idem (c : WL) (names : List String) (n : Node) :
    removeSubs c names (removeSubs c names n) = removeSubs c names n := by
  apply removeSubs_eq_self
  rintro ⟨_, r, hr, hs, hn⟩
  rw [mem_removeSubs_refs] at hr
  exact hr.2 ⟨by simpa using ‹(removeSubs c names n).tag = c.tag›, hs, hn⟩

theorem queueable_removeSubs {c : WL} {used : List String} {names : List String} {n : Node}
    (h : queueable c used n = true) : queueable c used (removeSubs c names n) = true := by
  unfold queueable isEmpty at *
  simp only [Bool.and_eq_true, List.all_eq_true, removeSubs_tag, removeSubs_name] at *
  refine ⟨h.1, fun r hr => h.2 r (mem_removeSubs_refs.1 hr).1⟩

/-! ### the work-queue loop: one pop -/

theorem stepUser_fst (c : WL) (used : List String) (nm : String) (st : Module × List Nat) (k : Nat) :
    (stepUser c used nm st k).1 = st.1.modify k (removeSub c nm) := by
  unfold stepUser
  dsimp only
  split
  · split <;> rfl
  · rfl

theorem foldl_stepUser_fst (c : WL) (used : List String) (nm : String) (users : List Nat) (st : Module × List Nat) :
    (users.foldl (stepUser c used nm) st).1 = users.foldl (fun m k => m.modify k (removeSub c nm)) st.1 := by
  induction users generalizing st with
  | nil => rfl
  | cons k ks ih => rw [List.foldl_cons, List.foldl_cons, ih, stepUser_fst]

theorem getElem?_foldl_modify (f : Node → Node) (hf : ∀ x, f (f x) = f x) (users : List Nat) (m : Module) (i : Nat) :
    (users.foldl (fun m k => m.modify k f) m)[i]? = if i ∈ users then m[i]?.map f else m[i]? := by
  induction users generalizing m with
  | nil => simp
  | cons k ks ih =>
    rw [List.foldl_cons, ih, List.getElem?_modify]
    cases hm : m[i]? with
    | none => simp
    | some a =>
      by_cases hk : k = i
      · subst hk; simp [hf]
      · have hk' : ¬ i = k := fun h => hk h.symm
        simp [hk, hk']

theorem mem_foldl_stepUser_snd (c : WL) (used : List String) (nm : String) (m : Module) (users : List Nat)
    (st : Module × List Nat) (hm : ∀ i : Nat, st.1[i]?.map (removeSub c nm) = m[i]?.map (removeSub c nm)) (x : Nat) :
    x ∈ (users.foldl (stepUser c used nm) st).2 ↔
      x ∈ st.2 ∨ (x ∈ users ∧ ∃ n, m[x]? = some n ∧ queueable c used (removeSub c nm n) = true) := by
  have hf : ∀ y, removeSub c nm (removeSub c nm y) = removeSub c nm y := by
    intro y; rw [removeSub_eq, removeSub_eq, removeSubs_idem]
  induction users generalizing st with
  | nil => simp
  | cons k ks ih =>
    have hm' : ∀ i : Nat, (stepUser c used nm st k).1[i]?.map (removeSub c nm) = m[i]?.map (removeSub c nm) := by
      intro i
      rw [stepUser_fst, List.getElem?_modify, ← hm i]
      cases st.1[i]? with
      | none => rfl
      | some a =>
        by_cases hk : k = i
        · simp [hk, hf]
        · simp [hk]
    rw [List.foldl_cons]
    refine (ih _ hm').trans ?_
    have h2 : x ∈ (stepUser c used nm st k).2 ↔
        x ∈ st.2 ∨ (x = k ∧ ∃ n, m[x]? = some n ∧ queueable c used (removeSub c nm n) = true) := by
      have hk := hm k
      unfold stepUser
      dsimp only
      simp only [List.getElem?_modify, if_true]
      cases hs : st.1[k]? with
      | none =>
        rw [hs] at hk
        cases hmk : m[k]? with
        | none =>
          simp only [Option.map_eq_map, Option.map_none]
          constructor
          · exact Or.inl
          · rintro (h | ⟨rfl, n, hn, _⟩)
            · exact h
            · rw [hmk] at hn; cases hn
        | some b => rw [hmk] at hk; cases hk
      | some a =>
        rw [hs] at hk
        cases hmk : m[k]? with
        | none => rw [hmk] at hk; cases hk
        | some b =>
          rw [hmk] at hk
          simp only [Option.map_some, Option.some.injEq] at hk
          simp only [Option.map_eq_map, Option.map_some, hk]
          by_cases hq : queueable c used (removeSub c nm b) = true
          · simp only [hq, if_true, List.mem_cons]
            constructor
            · rintro (rfl | h)
              · exact Or.inr ⟨rfl, b, hmk, hq⟩
              · exact Or.inl h
            · rintro (h | ⟨rfl, _⟩)
              · exact Or.inr h
              · exact Or.inl rfl
          · simp only [hq]
            constructor
            · exact Or.inl
            · rintro (h | ⟨rfl, n, hn, hqn⟩)
              · exact h
              · rw [hmk] at hn; cases hn; exact absurd hqn hq
    rw [h2]
    simp only [List.mem_cons]
    constructor
    · rintro ((h | ⟨rfl, h⟩) | ⟨h1, h⟩)
      · exact Or.inl h
      · exact Or.inr ⟨Or.inl rfl, h⟩
      · exact Or.inr ⟨Or.inr h1, h⟩
    · rintro (h | ⟨rfl | h1, h⟩)
      · exact Or.inl (Or.inl h)
      · exact Or.inl (Or.inr ⟨rfl, h⟩)
      · exact Or.inr ⟨h1, h⟩

/-! ### the work-queue loop: invariant -/

/-- the names whose sub references have been removed: the names of the popped items that are the item their name
    resolves to -/
def rmNames (c : WL) (init : Module) (dels : List Nat) : List String :=
  dels.filterMap fun d => match init[d]? with
    | some n => if indexOf c init n.name = some d then some n.name else none
    | none => none

/-- invariant of `loop` between two pops -/
structure Inv (c : WL) (used : List String) (init : Module) (m : Module) (q dels : List Nat) : Prop where
  /-- the items are the initial ones minus the sub references to the popped names -/
  state : m = init.map (removeSubs c (rmNames c init dels))
  /-- whatever is queued or flagged is an unused empty item -/
  sound : ∀ d ∈ q ++ dels, ∃ n, m[d]? = some n ∧ queueable c used n = true
  /-- every unused empty item is queued or flagged -/
  complete : ∀ (i : Nat) (n : Node), m[i]? = some n → queueable c used n = true → i ∈ q ++ dels

theorem Inv.init (c : WL) (used : List String) (m : Module) : Inv c used m m (initQueue c used m) [] where
  state := by
    show m = m.map (removeSubs c [])
    conv => lhs; rw [← List.map_id m]
    apply List.map_congr_left
    intro n _
    rw [removeSubs_nil]; rfl
  sound := by
    intro d hd
    rw [List.append_nil] at hd
    unfold initQueue at hd
    simp only [List.mem_reverse, List.mem_map, List.mem_filter, List.mem_zipIdx_iff_getElem?] at hd
    obtain ⟨⟨n, i⟩, ⟨h1, h2⟩, rfl⟩ := hd
    exact ⟨n, h1, h2⟩
  complete := by
    intro i n h1 h2
    rw [List.append_nil]
    unfold initQueue
    simp only [List.mem_reverse, List.mem_map, List.mem_filter, List.mem_zipIdx_iff_getElem?]
    exact ⟨⟨n, i⟩, ⟨h1, h2⟩, rfl⟩

/-- an item that still has a sub reference to the name resolving to `d` is in `user_of[d]` -/
theorem Inv.isUser {c : WL} {used : List String} {init m : Module} {q dels : List Nat}
    (h : Inv c used init m q dels) {i d : Nat} {a : Node} {nm : String} (ha : m[i]? = some a)
    (hidx : indexOf c init nm = some d)
    (hr : a.tag = c.tag ∧ ∃ r ∈ a.refs, r.site = c.subSite ∧ r.target ∈ [nm]) : i ∈ userOf c init d := by
  obtain ⟨ht, r, hr, hs, hn⟩ := hr
  have hn : r.target = nm := by simpa using hn
  rw [h.state, List.getElem?_map] at ha
  cases hi : init[i]? with
  | none => rw [hi] at ha; cases ha
  | some ni =>
    rw [hi] at ha
    simp only [Option.map_some, Option.some.injEq] at ha
    subst ha
    rw [mem_userOf]
    refine ⟨ni, hi, by simpa using ht, r, (mem_removeSubs_refs.1 hr).1, hs, ?_⟩
    rw [hn]; exact hidx

theorem Inv.step {c : WL} {used : List String} {init m : Module} {d : Nat} {q dels : List Nat}
    (h : Inv c used init m (d :: q) dels) :
    let name := match m[d]? with
      | some n => n.name
      | none => ""
    let st := (userOf c init d).foldl (stepUser c used name) (m, q)
    Inv c used init st.1 st.2 (d :: dels) := by
  obtain ⟨nd, hnd, hqd⟩ := h.sound d (by simp)
  simp only [hnd]
  -- the initial item at d
  have hmd := hnd
  rw [h.state, List.getElem?_map] at hmd
  cases hi : init[d]? with
  | none => rw [hi] at hmd; cases hmd
  | some n0 =>
  rw [hi] at hmd
  simp only [Option.map_some, Option.some.injEq] at hmd
  have hname : n0.name = nd.name := by rw [← hmd, removeSubs_name]
  -- the names removed by this pop
  have hrm : rmNames c init (d :: dels) =
      (if indexOf c init nd.name = some d then [nd.name] else []) ++ rmNames c init dels := by
    unfold rmNames
    rw [List.filterMap_cons]
    simp only [hi, hname]
    by_cases hidx : indexOf c init nd.name = some d <;> simp [hidx]
  have hf : ∀ y, removeSub c nd.name (removeSub c nd.name y) = removeSub c nd.name y := by
    intro y; rw [removeSub_eq, removeSub_eq, removeSubs_idem]
  -- claim A: the items after the pop
  have hA : ((userOf c init d).foldl (stepUser c used nd.name) (m, q)).1 =
      m.map (removeSubs c (if indexOf c init nd.name = some d then [nd.name] else [])) := by
    rw [foldl_stepUser_fst]
    apply List.ext_getElem?
    intro i
    rw [getElem?_foldl_modify _ hf, List.getElem?_map]
    by_cases hidx : indexOf c init nd.name = some d
    · simp only [hidx, if_true]
      split
      · cases m[i]? <;> simp [removeSub_eq]
      · rename_i hni
        cases hmi : m[i]? with
        | none => rfl
        | some a =>
          simp only [Option.map_some, Option.some.injEq]
          symm
          apply removeSubs_eq_self
          intro hr
          exact hni (h.isUser hmi hidx hr)
    · have hu : userOf c init d = [] := by
        rw [List.eq_nil_iff_forall_not_mem]
        intro k hk
        obtain ⟨n, _, _, r, _, _, hri⟩ := mem_userOf.1 hk
        obtain ⟨n', hn', _, hn'n⟩ := indexOf_some hri
        rw [hi] at hn'
        cases hn'
        rw [hname] at hn'n
        rw [← hn'n] at hri
        exact hidx hri
      simp only [hu, hidx, if_false, List.not_mem_nil]
      cases m[i]? with
      | none => rfl
      | some a => simp [removeSubs_nil]
  -- claim B: the queue after the pop
  have hB := mem_foldl_stepUser_snd c used nd.name m (userOf c init d) (m, q) (fun _ => rfl)
  refine ⟨?_, ?_, ?_⟩
  · rw [hA, hrm, h.state, List.map_map]
    apply List.map_congr_left
    intro n _
    simp only [Function.comp]
    rw [removeSubs_append]
  · intro x hx
    rw [hA, List.getElem?_map]
    rw [List.mem_append, hB] at hx
    have old : ∀ y, y ∈ (d :: q) ++ dels → ∃ n,
        Option.map (removeSubs c (if indexOf c init nd.name = some d then [nd.name] else [])) m[y]? = some n ∧
          queueable c used n = true := by
      intro y hy
      obtain ⟨n, hn, hq⟩ := h.sound y hy
      exact ⟨_, by rw [hn]; rfl, queueable_removeSubs hq⟩
    rcases hx with (hx | ⟨hx, n, hn, hq⟩) | hx
    · exact old x (by simp [show x ∈ q from hx])
    · have hidx : indexOf c init nd.name = some d := by
        obtain ⟨_, _, _, r, _, _, hri⟩ := mem_userOf.1 hx
        obtain ⟨n', hn', _, hn'n⟩ := indexOf_some hri
        rw [hi] at hn'
        cases hn'
        rw [hname] at hn'n
        rw [← hn'n] at hri
        exact hri
      refine ⟨removeSub c nd.name n, ?_, hq⟩
      rw [hn]; simp [hidx, removeSub_eq]
    · apply old x
      simp only [List.mem_cons, List.mem_append] at hx ⊢
      rcases hx with rfl | hx
      · exact Or.inl (Or.inl rfl)
      · exact Or.inr hx
  · intro i n' hi' hq'
    rw [hA, List.getElem?_map] at hi'
    cases hmi : m[i]? with
    | none => rw [hmi] at hi'; cases hi'
    | some a =>
      rw [hmi] at hi'
      simp only [Option.map_some, Option.some.injEq] at hi'
      rw [List.mem_append, hB]
      by_cases hqa : queueable c used a = true
      · have := h.complete i a hmi hqa
        simp only [List.mem_cons, List.mem_append] at this ⊢
        rcases this with (rfl | hx) | hx
        · exact Or.inr (Or.inl rfl)
        · exact Or.inl (Or.inl hx)
        · exact Or.inr (Or.inr hx)
      · by_cases hidx : indexOf c init nd.name = some d
        · simp only [hidx, if_true] at hi'
          by_cases hr : a.tag = c.tag ∧ ∃ r ∈ a.refs, r.site = c.subSite ∧ r.target ∈ [nd.name]
          · refine Or.inl (Or.inr ⟨h.isUser hmi hidx hr, a, hmi, ?_⟩)
            rw [removeSub_eq, hi']; exact hq'
          · rw [removeSubs_eq_self hr] at hi'
            subst hi'
            exact absurd hq' hqa
        · simp only [hidx, if_false, removeSubs_nil] at hi'
          subst hi'
          exact absurd hq' hqa

theorem loop_inv (c : WL) (used : List String) (init : Module) (fuel : Nat) (m : Module) (q dels : List Nat)
    (h : Inv c used init m q dels) :
    ∃ q', Inv c used init (loop c used init fuel m q dels).1 q' (loop c used init fuel m q dels).2.1 ∧
      ((loop c used init fuel m q dels).2.2 = true → q' = []) := by
  induction fuel generalizing m q dels with
  | zero =>
    refine ⟨q, h, ?_⟩
    intro hq
    simpa [loop] using hq
  | succ fuel ih =>
    cases q with
    | nil => exact ⟨[], h, fun _ => rfl⟩
    | cons d q =>
      have := ih _ _ _ h.step
      exact this

/-! ### the work-queue loop: `dropIdx` and the whole pass -/

theorem mem_dropIdx {c : WL} {dels : List Nat} {m : Module} {n : Node} :
    n ∈ dropIdx c dels m ↔ ∃ i : Nat, m[i]? = some n ∧ ¬(n.tag = c.tag ∧ i ∈ dels) := by
  unfold dropIdx
  simp only [List.mem_map, List.mem_filter, List.mem_zipIdx_iff_getElem?, Bool.not_eq_true', Bool.and_eq_false_iff,
    beq_eq_false_iff_ne, ne_eq, List.contains_eq_mem, decide_eq_false_iff_not]
  constructor
  · rintro ⟨⟨n', i⟩, ⟨h1, h2⟩, rfl⟩
    exact ⟨i, h1, fun h => h2.elim (fun h3 => h3 h.1) (fun h3 => h3 h.2)⟩
  · rintro ⟨i, h1, h2⟩
    refine ⟨⟨n, i⟩, ⟨h1, ?_⟩, rfl⟩
    by_cases ht : n.tag = c.tag
    · exact Or.inr fun hi => h2 ⟨ht, hi⟩
    · exact Or.inl ht

theorem dropIdx_sublist (c : WL) (dels : List Nat) (m : Module) : (dropIdx c dels m).Sublist m := by
  unfold dropIdx
  conv => rhs; rw [← List.zipIdx_map_fst 0 m]
  exact List.filter_sublist.map _

theorem dropIdx_nil (c : WL) (m : Module) : dropIdx c [] m = m := by
  unfold dropIdx
  conv => rhs; rw [← List.zipIdx_map_fst 0 m]
  congr 1
  rw [List.filter_eq_self]
  intro p _
  simp

theorem only_dropIdx_untouched (q : String → Bool) (c : WL) (dels : List Nat) (m : Module) (h : q c.tag = false) :
    only q (dropIdx c dels m) = only q m := by
  unfold only dropIdx
  conv => rhs; rw [← List.zipIdx_map_fst 0 m]
  rw [List.filter_map, List.filter_map, List.filter_filter]
  congr 1
  apply List.filter_congr
  intro p _
  simp only [Function.comp]
  cases hq : q p.1.tag
  · rfl
  · have : (p.1.tag == c.tag) = false := by
      rw [beq_eq_false_iff_ne]
      intro he
      rw [he, h] at hq
      cases hq
    rw [this]; rfl

theorem loop_nil (c : WL) (used : List String) (init : Module) (fuel : Nat) (m : Module) :
    loop c used init fuel m [] [] = (m, [], true) := by
  cases fuel <;> rfl

theorem run_spec (c : WL) (s : Module) :
    ∃ q', Inv c (targetsOf c.usedSel s) s (runLoop c s).1 q' (runLoop c s).2.1 ∧
      ((runLoop c s).2.2 = true → q' = []) :=
  loop_inv c _ s (fuel s) s _ [] (Inv.init c _ s)

theorem only_map_removeSubs_untouched (q : String → Bool) (c : WL) (names : List String) (m : Module)
    (h : q c.tag = false) : only q (m.map (removeSubs c names)) = only q m := by
  unfold only
  rw [List.filter_map]
  have : ((fun n : Node => q n.tag) ∘ removeSubs c names) = fun n => q n.tag := by
    funext n; simp [Function.comp]
  rw [this]
  conv => rhs; rw [← List.map_id (List.filter (fun n => q n.tag) m)]
  apply List.map_congr_left
  intro n hn
  have hq : q n.tag = true := (List.mem_filter.1 hn).2
  apply removeSubs_eq_self
  rintro ⟨ht, _⟩
  rw [ht, h] at hq
  cases hq

theorem map_key_removeSubs (c : WL) (names : List String) (m : Module) :
    (m.map (removeSubs c names)).map key = m.map key := by
  rw [List.map_map]
  apply List.map_congr_left
  intro n _
  simp [key]

/-- the item keywords are not touched by a pass over another keyword -/
theorem only_deleteEmpty_untouched (q : String → Bool) (c : WL) (s : Module) (h : q c.tag = false) :
    only q (deleteEmpty c s) = only q s := by
  obtain ⟨q', hinv, _⟩ := run_spec c s
  unfold deleteEmpty
  simp only
  rw [only_dropIdx_untouched q c _ _ h, hinv.state, only_map_removeSubs_untouched q c _ _ h]

theorem map_key_deleteEmpty_sublist (c : WL) (s : Module) : ((deleteEmpty c s).map key).Sublist (s.map key) := by
  obtain ⟨q', hinv, _⟩ := run_spec c s
  unfold deleteEmpty
  simp only
  have h1 := (dropIdx_sublist c (runLoop c s).2.1 (runLoop c s).1).map key
  rw [hinv.state, map_key_removeSubs] at h1
  rw [hinv.state]
  exact h1

/-- every child after the pass is a child before the pass with some sub references removed -/
theorem mem_deleteEmpty {c : WL} {s : Module} {n' : Node} (h : n' ∈ deleteEmpty c s) :
    ∃ n ∈ s, ∃ names, n' = removeSubs c names n := by
  obtain ⟨q', hinv, _⟩ := run_spec c s
  unfold deleteEmpty at h
  simp only at h
  have := (dropIdx_sublist c _ _).subset h
  rw [hinv.state, List.mem_map] at this
  obtain ⟨n, hn, rfl⟩ := this
  exact ⟨n, hn, _, rfl⟩

/-- a pass without unused empty items changes nothing -/
theorem deleteEmpty_eq_self {c : WL} {s : Module}
    (h : ∀ n ∈ s, queueable c (targetsOf c.usedSel s) n = false) : deleteEmpty c s = s := by
  have hq : initQueue c (targetsOf c.usedSel s) s = [] := by
    unfold initQueue
    rw [List.reverse_eq_nil_iff, List.map_eq_nil_iff, List.filter_eq_nil_iff]
    intro p hp
    rw [h p.1 (List.mem_iff_getElem?.2 ⟨p.2, List.mem_zipIdx_iff_getElem?.1 hp⟩)]
    simp
  unfold deleteEmpty runLoop
  simp only [hq, loop_nil, dropIdx_nil]

/-- after a drained pass no unused empty item is left -/
theorem deleteEmpty_no_queueable {c : WL} {s : Module} (hd : drained c s = true) {n' : Node}
    (h : n' ∈ deleteEmpty c s) : queueable c (targetsOf c.usedSel s) n' = false := by
  obtain ⟨q', hinv, hq⟩ := run_spec c s
  have hq' : q' = [] := hq hd
  subst hq'
  unfold deleteEmpty at h
  simp only at h
  obtain ⟨i, hi, hnot⟩ := mem_dropIdx.1 h
  cases hqn : queueable c (targetsOf c.usedSel s) n'
  · rfl
  · exfalso
    have hmem := hinv.complete i n' hi hqn
    rw [List.nil_append] at hmem
    apply hnot
    refine ⟨?_, hmem⟩
    unfold queueable at hqn
    simp only [Bool.and_eq_true, beq_iff_eq] at hqn
    exact hqn.1.1

/-- **no new dangling reference** by the work-queue pass: a reference that is left in a child after the pass and
    whose target existed (among the keywords `T`) before the pass still has its target, provided that — if the
    items of the pass are among `T` — the reference sits in one of the fields the pass knows about. -/
theorem deleteEmpty_pres {c : WL} (hwf : ∀ p ∈ c.usedSel, p.1 ≠ c.tag) {s : Module} {T : List String}
    {n' : Node} {r : Ref} (h : n' ∈ deleteEmpty c s) (hr : r ∈ n'.refs)
    (hsite : c.tag ∈ T → (n'.tag, r.site) ∈ c.usedSel ∨ (n'.tag = c.tag ∧ r.site = c.subSite))
    (hres : r.target ∈ namesOf T s) : r.target ∈ namesOf T (deleteEmpty c s) := by
  obtain ⟨q', hinv, _⟩ := run_spec c s
  obtain ⟨n0, hn0, ht0, hname0⟩ := mem_namesOf.1 hres
  rw [mem_namesOf]
  by_cases hc : n0.tag = c.tag
  · -- the target is an item of the pass
    have hcT : c.tag ∈ T := hc ▸ ht0
    obtain ⟨i, hi'⟩ := mem_dropIdx.1 (show n' ∈ dropIdx c (runLoop c s).2.1 (runLoop c s).1 from h)
    obtain ⟨hi', -⟩ := hi'
    rw [hinv.state, List.getElem?_map] at hi'
    cases hsi : s[i]? with
    | none => rw [hsi] at hi'; cases hi'
    | some n =>
    rw [hsi] at hi'
    simp only [Option.map_some, Option.some.injEq] at hi'
    subst hi'
    have hn : n ∈ s := List.mem_iff_getElem?.2 ⟨i, hsi⟩
    rcases hsite hcT with hu | ⟨htag, hsub⟩
    · -- a reference from outside: the name is used, no item of that name is ever queued
      have hne : n.tag ≠ c.tag := by simpa using hwf _ hu
      have hself : removeSubs c (rmNames c s (runLoop c s).2.1) n = n :=
        removeSubs_eq_self (fun hh => hne hh.1)
      rw [hself] at hr hu
      have hused : r.target ∈ targetsOf c.usedSel s := mem_targetsOf.2 ⟨n, hn, r, hr, hu, rfl⟩
      obtain ⟨j, hj⟩ := List.mem_iff_getElem?.1 hn0
      refine ⟨removeSubs c (rmNames c s (runLoop c s).2.1) n0, ?_, by simpa using ht0, by simpa using hname0⟩
      show _ ∈ dropIdx c (runLoop c s).2.1 (runLoop c s).1
      rw [mem_dropIdx]
      refine ⟨j, by rw [hinv.state, List.getElem?_map, hj]; rfl, ?_⟩
      rintro ⟨_, hjd⟩
      obtain ⟨x, hx, hqx⟩ := hinv.sound j (List.mem_append_right _ hjd)
      rw [hinv.state, List.getElem?_map, hj] at hx
      simp only [Option.map_some, Option.some.injEq] at hx
      subst hx
      unfold queueable at hqx
      simp only [Bool.and_eq_true, Bool.not_eq_true', removeSubs_name] at hqx
      have : (targetsOf c.usedSel s).contains n0.name = true := by
        rw [List.contains_iff_mem, hname0]; exact hused
      rw [this] at hqx
      exact absurd hqx.1.2 (by simp)
    · -- a sub reference: it was not removed, so the item its name resolves to was not flagged
      obtain ⟨j0, hj0⟩ := List.mem_iff_getElem?.1 hn0
      obtain ⟨j, hj⟩ := indexOf_exists (c := c) hj0 hc hname0
      obtain ⟨nj, hnj, htj, hnamej⟩ := indexOf_some hj
      refine ⟨removeSubs c (rmNames c s (runLoop c s).2.1) nj, ?_, ?_, by simpa using hnamej⟩
      · show _ ∈ dropIdx c (runLoop c s).2.1 (runLoop c s).1
        rw [mem_dropIdx]
        refine ⟨j, by rw [hinv.state, List.getElem?_map, hnj]; rfl, ?_⟩
        rintro ⟨_, hjd⟩
        have hrm : r.target ∈ rmNames c s (runLoop c s).2.1 := by
          unfold rmNames
          rw [List.mem_filterMap]
          refine ⟨j, hjd, ?_⟩
          simp only [hnj, hnamej, hj, if_true]
        have := (mem_removeSubs_refs.1 hr).2
        apply this
        exact ⟨by simpa using htag, hsub, hrm⟩
      · rw [removeSubs_tag, htj]; exact hcT
  · -- the target is not an item of the pass: it is untouched
    obtain ⟨j, hj⟩ := List.mem_iff_getElem?.1 hn0
    refine ⟨removeSubs c (rmNames c s (runLoop c s).2.1) n0, ?_, by simpa using ht0, by simpa using hname0⟩
    show _ ∈ dropIdx c (runLoop c s).2.1 (runLoop c s).1
    rw [mem_dropIdx]
    refine ⟨j, by rw [hinv.state, List.getElem?_map, hj]; rfl, ?_⟩
    rintro ⟨htt, _⟩
    exact hc (by simpa using htt)

/-! ### the unit closure -/

/-- body of the inner loop: `changed |= used_units.insert(..)` -/
def insStep (st : List String × Bool) (r : Ref) : List String × Bool :=
  if st.1.contains r.target then st else (r.target :: st.1, true)

/-- body of `for unit in &module.unit` -/
def unitStep (st : List String × Bool) (n : Node) : List String × Bool :=
  if n.tag == "UNIT" && st.1.contains n.name then
    (n.refs.filter fun r => r.site == "RefUnit.unit").foldl insStep st
  else st

theorem unitRound_eq (m : Module) (used : List String) : unitRound m used = m.foldl unitStep (used, false) := rfl

theorem inner_mem (rs : List Ref) (st : List String × Bool) (t : String) :
    t ∈ (rs.foldl insStep st).1 ↔ t ∈ st.1 ∨ ∃ r ∈ rs, r.target = t := by
  induction rs generalizing st with
  | nil => simp
  | cons r rs ih =>
    obtain ⟨u, b⟩ := st
    rw [List.foldl_cons, ih]
    unfold insStep
    by_cases hc : u.contains r.target = true
    · rw [if_pos hc]
      constructor
      · rintro (h | ⟨r', hr', rfl⟩)
        · exact Or.inl h
        · exact Or.inr ⟨r', List.mem_cons_of_mem _ hr', rfl⟩
      · rintro (h | ⟨r', hr', rfl⟩)
        · exact Or.inl h
        · rcases List.mem_cons.1 hr' with rfl | hr'
          · exact Or.inl (List.contains_iff_mem.1 hc)
          · exact Or.inr ⟨r', hr', rfl⟩
    · rw [if_neg hc]
      constructor
      · rintro (h | ⟨r', hr', rfl⟩)
        · rcases List.mem_cons.1 h with rfl | h
          · exact Or.inr ⟨r, List.mem_cons_self, rfl⟩
          · exact Or.inl h
        · exact Or.inr ⟨r', List.mem_cons_of_mem _ hr', rfl⟩
      · rintro (h | ⟨r', hr', rfl⟩)
        · exact Or.inl (List.mem_cons_of_mem _ h)
        · rcases List.mem_cons.1 hr' with rfl | hr'
          · exact Or.inl List.mem_cons_self
          · exact Or.inr ⟨r', hr', rfl⟩

theorem inner_false (rs : List Ref) (st : List String × Bool) (h : (rs.foldl insStep st).2 = false) :
    rs.foldl insStep st = st := by
  induction rs generalizing st with
  | nil => rfl
  | cons r rs ih =>
    rw [List.foldl_cons] at h ⊢
    have h1 := ih _ h
    rw [h1] at h ⊢
    unfold insStep at h ⊢
    by_cases hc : st.1.contains r.target = true
    · simp only [hc, if_true]
    · simp only [hc] at h; cases h

theorem inner_true (rs : List Ref) (st : List String × Bool) (h : (rs.foldl insStep st).2 = true) :
    st.2 = true ∨ ∃ r ∈ rs, r.target ∉ st.1 := by
  induction rs generalizing st with
  | nil => exact Or.inl h
  | cons r rs ih =>
    rw [List.foldl_cons] at h
    rcases ih _ h with h1 | ⟨r', hr', hn⟩
    · unfold insStep at h1
      by_cases hc : st.1.contains r.target = true
      · simp only [hc, if_true] at h1; exact Or.inl h1
      · exact Or.inr ⟨r, List.mem_cons_self, fun hm => hc (List.contains_iff_mem.2 hm)⟩
    · refine Or.inr ⟨r', List.mem_cons_of_mem _ hr', fun hm => hn ?_⟩
      unfold insStep
      split
      · exact hm
      · exact List.mem_cons_of_mem _ hm

/-- the candidates: targets of the unit references of the UNITs -/
def unitTargets (ns : Module) : List String := targetsOf [("UNIT", "RefUnit.unit")] ns

theorem mem_unitTargets {ns : Module} {t : String} :
    t ∈ unitTargets ns ↔ ∃ n ∈ ns, n.tag = "UNIT" ∧ ∃ r ∈ n.refs, r.site = "RefUnit.unit" ∧ r.target = t := by
  unfold unitTargets
  rw [mem_targetsOf]
  constructor
  · rintro ⟨n, hn, r, hr, hs, rfl⟩
    simp only [List.mem_singleton, Prod.mk.injEq] at hs
    exact ⟨n, hn, hs.1, r, hr, hs.2, rfl⟩
  · rintro ⟨n, hn, ht, r, hr, hs, rfl⟩
    exact ⟨n, hn, r, hr, by simp [ht, hs], rfl⟩

theorem unitStep_mono (st : List String × Bool) (n : Node) {t : String} (h : t ∈ st.1) : t ∈ (unitStep st n).1 := by
  unfold unitStep
  split
  · rw [inner_mem]; exact Or.inl h
  · exact h

theorem outer_mono (ns : Module) (st : List String × Bool) {t : String} (h : t ∈ st.1) :
    t ∈ (ns.foldl unitStep st).1 := by
  induction ns generalizing st with
  | nil => exact h
  | cons n ns ih => rw [List.foldl_cons]; exact ih _ (unitStep_mono st n h)

/-- a round that reports "unchanged" changed nothing and found the set closed -/
theorem outer_false (ns : Module) (st : List String × Bool) (h : (ns.foldl unitStep st).2 = false) :
    ns.foldl unitStep st = st ∧
      ∀ n ∈ ns, n.tag = "UNIT" → n.name ∈ st.1 → ∀ r ∈ n.refs, r.site = "RefUnit.unit" → r.target ∈ st.1 := by
  induction ns generalizing st with
  | nil => exact ⟨rfl, fun _ hn => by cases hn⟩
  | cons n ns ih =>
    rw [List.foldl_cons] at h ⊢
    obtain ⟨h1, h2⟩ := ih _ h
    rw [h1] at h
    have h3 : unitStep st n = st := by
      unfold unitStep at h ⊢
      split
      · rename_i hc
        rw [if_pos hc] at h
        exact inner_false _ _ h
      · rfl
    rw [h1, h3]
    refine ⟨rfl, ?_⟩
    intro n' hn' ht hname r hr hs
    rw [h3] at h2
    rcases List.mem_cons.1 hn' with rfl | hn'
    · have hc : (n'.tag == "UNIT" && st.1.contains n'.name) = true := by
        simp [ht, hname]
      unfold unitStep at h3
      rw [if_pos hc] at h3
      have := (inner_mem (n'.refs.filter fun r => r.site == "RefUnit.unit") st r.target).2
        (Or.inr ⟨r, by simp [hr, hs], rfl⟩)
      rw [h3] at this
      exact this
    · exact h2 n' hn' ht hname r hr hs

/-- a round that reports "changed" inserted a new candidate -/
theorem outer_true (ns : Module) (st : List String × Bool) (h : (ns.foldl unitStep st).2 = true) :
    st.2 = true ∨ ∃ t ∈ unitTargets ns, t ∉ st.1 ∧ t ∈ (ns.foldl unitStep st).1 := by
  induction ns generalizing st with
  | nil => exact Or.inl h
  | cons n ns ih =>
    rw [List.foldl_cons] at h ⊢
    rcases ih _ h with h1 | ⟨t, ht, hn, hin⟩
    · unfold unitStep at h1
      split at h1
      · rename_i hc
        simp only [Bool.and_eq_true, beq_iff_eq] at hc
        rcases inner_true _ _ h1 with h2 | ⟨r, hr, hnot⟩
        · exact Or.inl h2
        · rw [List.mem_filter] at hr
          refine Or.inr ⟨r.target, ?_, hnot, ?_⟩
          · exact mem_unitTargets.2 ⟨n, List.mem_cons_self, hc.1, r, hr.1, by simpa using hr.2, rfl⟩
          · apply outer_mono
            unfold unitStep
            rw [if_pos (by simp [hc.1, List.contains_iff_mem.1 hc.2])]
            rw [inner_mem]
            exact Or.inr ⟨r, List.mem_filter.2 hr, rfl⟩
      · exact Or.inl h1
    · refine Or.inr ⟨t, ?_, fun hm => hn (unitStep_mono st n hm), hin⟩
      obtain ⟨n', hn', rest⟩ := mem_unitTargets.1 ht
      exact mem_unitTargets.2 ⟨n', List.mem_cons_of_mem _ hn', rest⟩

/-- reachability from the names in `used0` through unit references of UNITs -/
inductive UReach (m : Module) (used0 : List String) : String → Prop
  | base {t : String} : t ∈ used0 → UReach m used0 t
  | step {n : Node} {r : Ref} : n ∈ m → n.tag = "UNIT" → UReach m used0 n.name → r ∈ n.refs →
      r.site = "RefUnit.unit" → UReach m used0 r.target

theorem outer_sound (m : Module) (used0 : List String) (ns : Module) (hns : ∀ n ∈ ns, n ∈ m)
    (st : List String × Bool) (h : ∀ t ∈ st.1, UReach m used0 t) :
    ∀ t ∈ (ns.foldl unitStep st).1, UReach m used0 t := by
  induction ns generalizing st with
  | nil => exact h
  | cons n ns ih =>
    rw [List.foldl_cons]
    apply ih (fun n' hn' => hns n' (List.mem_cons_of_mem _ hn'))
    intro t ht
    unfold unitStep at ht
    split at ht
    · rename_i hc
      simp only [Bool.and_eq_true, beq_iff_eq, List.contains_iff_mem] at hc
      rcases (inner_mem _ _ _).1 ht with h1 | ⟨r, hr, rfl⟩
      · exact h t h1
      · rw [List.mem_filter] at hr
        exact UReach.step (hns n List.mem_cons_self) hc.1 (h _ hc.2) hr.1 (by simpa using hr.2)
    · exact h t ht

theorem unitClosure_sound (m : Module) (used0 : List String) (fuel : Nat) (used : List String)
    (h : ∀ t ∈ used, UReach m used0 t) : ∀ t ∈ unitClosure m fuel used, UReach m used0 t := by
  induction fuel generalizing used with
  | zero => exact h
  | succ fuel ih =>
    unfold unitClosure
    have hs := outer_sound m used0 m (fun _ hn => hn) (used, false) h
    rw [← unitRound_eq] at hs
    simp only
    split
    · exact ih _ hs
    · exact hs

theorem unitClosure_mono (m : Module) (fuel : Nat) (used : List String) {t : String} (h : t ∈ used) :
    t ∈ unitClosure m fuel used := by
  induction fuel generalizing used with
  | zero => exact h
  | succ fuel ih =>
    unfold unitClosure
    have hs : t ∈ (unitRound m used).1 := by rw [unitRound_eq]; exact outer_mono m (used, false) h
    simp only
    split
    · exact ih _ hs
    · exact hs

/-- the termination measure: candidates not yet in the set -/
def unitMeasure (m : Module) (used : List String) : Nat := ((unitTargets m).filter fun t => !used.contains t).length

theorem filter_length_lt {α : Type} (p p' : α → Bool) (l : List α) (himp : ∀ x, p' x = true → p x = true)
    (t : α) (ht : t ∈ l) (hp : p t = true) (hp' : p' t = false) : (l.filter p').length < (l.filter p).length := by
  induction l with
  | nil => cases ht
  | cons x xs ih =>
    have hle : (xs.filter p').length ≤ (xs.filter p).length := by
      clear ih ht
      induction xs with
      | nil => exact Nat.le_refl _
      | cons y ys ih2 =>
        simp only [List.filter_cons]
        cases hy' : p' y
        · cases p y
          · simpa using ih2
          · simp only [if_true, List.length_cons]; simp; omega
        · rw [himp y hy']; simpa using ih2
    rcases List.mem_cons.1 ht with rfl | ht
    · simp only [List.filter_cons, hp, hp', if_true, List.length_cons]
      simp; omega
    · have := ih ht
      simp only [List.filter_cons]
      cases hx' : p' x
      · cases p x
        · simpa using this
        · simp only [if_true, List.length_cons]; simp; omega
      · rw [himp x hx']; simpa using this

theorem unitRound_measure (m : Module) (used : List String) (h : (unitRound m used).2 = true) :
    unitMeasure m (unitRound m used).1 < unitMeasure m used := by
  rw [unitRound_eq] at h ⊢
  rcases outer_true m (used, false) h with h1 | ⟨t, ht, hn, hin⟩
  · cases h1
  · unfold unitMeasure
    apply filter_length_lt _ _ _ _ t ht
    · simpa using hn
    · simpa using hin
    · intro x hx
      simp only [Bool.not_eq_true', List.contains_eq_mem, decide_eq_false_iff_not] at hx ⊢
      exact fun hm => hx (outer_mono m (used, false) hm)

/-- closed under the unit references of the UNITs -/
def UClosed (m : Module) (used : List String) : Prop :=
  ∀ n ∈ m, n.tag = "UNIT" → n.name ∈ used → ∀ r ∈ n.refs, r.site = "RefUnit.unit" → r.target ∈ used

theorem unitClosure_closed (m : Module) (fuel : Nat) (used : List String) (h : unitMeasure m used < fuel) :
    UClosed m (unitClosure m fuel used) := by
  induction fuel generalizing used with
  | zero => omega
  | succ fuel ih =>
    unfold unitClosure
    simp only
    split
    · rename_i hc
      apply ih
      have := unitRound_measure m used hc
      omega
    · rename_i hc
      have hc : (unitRound m used).2 = false := by simpa using hc
      rw [unitRound_eq] at hc ⊢
      obtain ⟨h1, h2⟩ := outer_false m (used, false) hc
      rw [h1]
      exact h2

theorem length_targetsOf_le (sel : Sel) (m : Module) : (targetsOf sel m).length ≤ refCount m := by
  induction m with
  | nil => exact Nat.le_refl _
  | cons n m ih =>
    rw [targetsOf_cons]
    simp only [refCount, List.map_cons, List.sum_cons, List.length_append, List.length_map] at ih ⊢
    have := List.length_filter_le (fun r => sel.contains (n.tag, r.site)) n.refs
    omega

theorem unitMeasure_lt (m : Module) (used : List String) : unitMeasure m used < refCount m + 1 := by
  unfold unitMeasure unitTargets
  have h1 := List.length_filter_le (fun t => !used.contains t) (targetsOf [("UNIT", "RefUnit.unit")] m)
  have h2 := length_targetsOf_le [("UNIT", "RefUnit.unit")] m
  omega

/-- a closed set contains everything reachable from it -/
theorem UReach.mem_of_closed {m : Module} {used0 u : List String} (h0 : ∀ t ∈ used0, t ∈ u) (hc : UClosed m u)
    {t : String} (h : UReach m used0 t) : t ∈ u := by
  induction h with
  | base h => exact h0 _ h
  | step hn ht _ hr hs ih => exact hc _ hn ht ih _ hr hs

/-- **the closure computes reachability** -/
theorem mem_unitClosure (m : Module) (used0 : List String) (t : String) :
    t ∈ unitClosure m (refCount m + 1) used0 ↔ UReach m used0 t := by
  constructor
  · exact unitClosure_sound m used0 _ used0 (fun t h => UReach.base h) t
  · exact UReach.mem_of_closed (fun t h => unitClosure_mono m _ used0 h)
      (unitClosure_closed m _ used0 (unitMeasure_lt m used0))

/-! ### which keywords a pass touches -/

/-- keywords of the children that `cleanup` never deletes -/
def nh (t : String) : Bool := !helperTags.contains t

theorem only_cleanupGroups (q : String → Bool) (m : Module) (h : q "GROUP" = false) :
    only q (cleanupGroups m) = only q m := by
  unfold cleanupGroups removeInvalidObjectReferences
  rw [only_deleteEmpty_untouched q groupWL _ h, only_dropRefs_untouched q]
  intro p hp
  simp only [groupRefSel, List.mem_cons, List.not_mem_nil, or_false] at hp
  rcases hp with rfl | rfl <;> exact h

def functionTouch : List String := ["AXIS_PTS", "CHARACTERISTIC", "MEASUREMENT", "GROUP", "FUNCTION"]

theorem only_removeBrokenFuncRefs (q : String → Bool) (m : Module) (h : ∀ t ∈ functionTouch, q t = false) :
    only q (removeBrokenFuncRefs m) = only q m := by
  unfold removeBrokenFuncRefs
  rw [only_dropRefs_untouched q]
  intro p hp
  apply h
  simp only [funcRefSel, List.mem_cons, List.not_mem_nil, or_false] at hp
  rcases hp with rfl | rfl | rfl | rfl | rfl <;> simp [functionTouch]

theorem only_removeBrokenObjectRefs (q : String → Bool) (m : Module) (h : q "FUNCTION" = false) :
    only q (removeBrokenObjectRefs m) = only q m := by
  unfold removeBrokenObjectRefs
  rw [only_dropRefs_untouched q]
  intro p hp
  simp only [funcObjSel, List.mem_cons, List.not_mem_nil, or_false] at hp
  rcases hp with rfl | rfl | rfl | rfl | rfl <;> exact h

theorem only_cleanupFunctions (q : String → Bool) (m : Module) (h : ∀ t ∈ functionTouch, q t = false) :
    only q (cleanupFunctions m) = only q m := by
  have hF : q "FUNCTION" = false := h _ (by simp [functionTouch])
  unfold cleanupFunctions
  rw [only_deleteEmpty_untouched q functionWL _ hF, only_removeBrokenObjectRefs q _ hF,
    only_removeBrokenFuncRefs q _ h]

def convTouch : List String :=
  ["AXIS_PTS", "CHARACTERISTIC", "MEASUREMENT", "TYPEDEF_AXIS", "TYPEDEF_CHARACTERISTIC", "TYPEDEF_MEASUREMENT"]

theorem only_removeInvalidCompumethodRefs (q : String → Bool) (m : Module) (h : ∀ t ∈ convTouch, q t = false) :
    only q (removeInvalidCompumethodRefs m) = only q m := by
  unfold removeInvalidCompumethodRefs
  rw [only_dropRefs_untouched q]
  intro p hp
  apply h
  simp only [convRepairSel, List.mem_cons, List.not_mem_nil, or_false] at hp
  rcases hp with rfl | rfl | rfl | rfl | rfl | rfl | rfl | rfl <;> simp [convTouch]

theorem only_removeUnusedCompumethods (q : String → Bool) (m : Module) (h : q "COMPU_METHOD" = false) :
    only q (removeUnusedCompumethods m) = only q m := by
  unfold removeUnusedCompumethods
  rw [only_retainNodes_untouched q]
  intro t ht
  simp only [List.mem_cons, List.not_mem_nil, or_false] at ht
  rw [ht]; exact h

def subElemTouch : List String := ["COMPU_TAB", "COMPU_VTAB", "COMPU_VTAB_RANGE", "UNIT"]

theorem only_removeUnusedSubElements (q : String → Bool) (m : Module) (h : ∀ t ∈ subElemTouch, q t = false) :
    only q (removeUnusedSubElements m) = only q m := by
  unfold removeUnusedSubElements
  simp only
  rw [only_retainNodes_untouched q, only_retainNodes_untouched q]
  · intro t ht
    apply h
    simp only [tabTags, List.mem_cons, List.not_mem_nil, or_false] at ht
    rcases ht with rfl | rfl | rfl <;> simp [subElemTouch]
  · intro t ht
    simp only [List.mem_cons, List.not_mem_nil, or_false] at ht
    rw [ht]; exact h _ (by simp [subElemTouch])

theorem only_removeInvalidSubElementRefs (q : String → Bool) (m : Module) (h : q "COMPU_METHOD" = false) :
    only q (removeInvalidSubElementRefs m) = only q m := by
  unfold removeInvalidSubElementRefs
  simp only
  rw [only_dropRefs_untouched q, only_dropRefs_untouched q]
  · intro p hp
    simp only [List.mem_cons, List.not_mem_nil, or_false] at hp
    rw [hp]; exact h
  · intro p hp
    simp only [List.mem_cons, List.not_mem_nil, or_false] at hp
    rw [hp]; exact h

theorem only_cleanupRecordLayouts (q : String → Bool) (m : Module) (h : q "RECORD_LAYOUT" = false) :
    only q (cleanupRecordLayouts m) = only q m := by
  unfold cleanupRecordLayouts
  rw [only_retainNodes_untouched q]
  intro t ht
  simp only [List.mem_cons, List.not_mem_nil, or_false] at ht
  rw [ht]; exact h

/-! ### keys: nothing is added or reordered -/

theorem keys_cleanupGroups (m : Module) : ((cleanupGroups m).map key).Sublist (m.map key) := by
  unfold cleanupGroups removeInvalidObjectReferences
  have := map_key_deleteEmpty_sublist groupWL (dropRefs groupRefSel (fun t => (namesOf groupObjTags m).contains t) m)
  rwa [map_key_dropRefs] at this

theorem keys_cleanupFunctions (m : Module) : ((cleanupFunctions m).map key).Sublist (m.map key) := by
  unfold cleanupFunctions removeBrokenObjectRefs removeBrokenFuncRefs
  have := map_key_deleteEmpty_sublist functionWL (dropRefs funcObjSel
    (fun t => (namesOf objectTags (dropRefs funcRefSel (fun t => (namesOf ["FUNCTION"] m).contains t) m)).contains t)
    (dropRefs funcRefSel (fun t => (namesOf ["FUNCTION"] m).contains t) m))
  rwa [map_key_dropRefs, map_key_dropRefs] at this

theorem keys_cleanupCompuMethods (m : Module) : ((cleanupCompuMethods m).map key).Sublist (m.map key) := by
  unfold cleanupCompuMethods removeInvalidSubElementRefs removeUnusedSubElements removeUnusedCompumethods
    removeInvalidCompumethodRefs
  simp only
  rw [map_key_dropRefs, map_key_dropRefs]
  refine (((retainNodes_sublist _ _ _).map key).trans ((retainNodes_sublist _ _ _).map key)).trans ?_
  refine ((retainNodes_sublist _ _ _).map key).trans ?_
  rw [map_key_dropRefs]
  exact List.Sublist.refl _

theorem keys_cleanupRecordLayouts (m : Module) : ((cleanupRecordLayouts m).map key).Sublist (m.map key) :=
  (retainNodes_sublist _ _ _).map key

theorem keys_cleanup (m : Module) : ((cleanup m).map key).Sublist (m.map key) :=
  (keys_cleanupRecordLayouts _).trans ((keys_cleanupCompuMethods _).trans
    ((keys_cleanupFunctions _).trans (keys_cleanupGroups m)))

/-! ### the children that are never deleted: exact effect -/

/-- what `cleanup` does to a child that is not deletable: the function references (FUNCTION_LIST) to functions
    that do not exist are dropped, the conversions that do not exist are replaced by NO_COMPU_METHOD -/
def repair (m : Module) (n : Node) : Node :=
  dropIn convRepairSel (fun t => (namesOf ["COMPU_METHOD"] m).contains t)
    (dropIn funcRefSel (fun t => (namesOf ["FUNCTION"] m).contains t) n)

theorem only_nh_cleanup (m : Module) : only nh (cleanup m) = (only nh m).map (repair m) := by
  have hG : only nh (cleanupGroups m) = only nh m := only_cleanupGroups nh m (by decide)
  have hFn : namesOf ["FUNCTION"] (cleanupGroups m) = namesOf ["FUNCTION"] m :=
    namesOf_eq_of_only (fun t => t == "FUNCTION") (by decide) (only_cleanupGroups _ m (by decide))
  have hCn : namesOf ["COMPU_METHOD"] (cleanupFunctions (cleanupGroups m)) = namesOf ["COMPU_METHOD"] m :=
    namesOf_eq_of_only (fun t => t == "COMPU_METHOD") (by decide)
      ((only_cleanupFunctions _ _ (by decide)).trans (only_cleanupGroups _ m (by decide)))
  unfold cleanup
  rw [only_cleanupRecordLayouts nh _ (by decide)]
  unfold cleanupCompuMethods
  rw [only_removeInvalidSubElementRefs nh _ (by decide), only_removeUnusedSubElements nh _ (by decide),
    only_removeUnusedCompumethods nh _ (by decide)]
  unfold removeInvalidCompumethodRefs
  rw [only_dropRefs, hCn]
  unfold cleanupFunctions
  rw [only_deleteEmpty_untouched nh functionWL _ (by decide), only_removeBrokenObjectRefs nh _ (by decide)]
  unfold removeBrokenFuncRefs
  rw [only_dropRefs, hFn, hG, dropRefs_eq_map, dropRefs_eq_map, List.map_map]
  rfl

/-! ### tracing children back through the passes -/

/-- every child of `s'` comes from a child of `s` with the same keyword and name and no new reference -/
def Sub (s s' : Module) : Prop :=
  ∀ n' ∈ s', ∃ n ∈ s, n.tag = n'.tag ∧ n.name = n'.name ∧ ∀ r ∈ n'.refs, r ∈ n.refs

theorem Sub.refl (s : Module) : Sub s s := fun n hn => ⟨n, hn, rfl, rfl, fun _ h => h⟩

theorem Sub.trans {s s' s'' : Module} (h1 : Sub s s') (h2 : Sub s' s'') : Sub s s'' := by
  intro n'' hn''
  obtain ⟨n', hn', ht', hm', hr'⟩ := h2 n'' hn''
  obtain ⟨n, hn, ht, hm, hr⟩ := h1 n' hn'
  exact ⟨n, hn, ht.trans ht', hm.trans hm', fun r h => hr r (hr' r h)⟩

theorem sub_dropRefs (sel : Sel) (keep : String → Bool) (s : Module) : Sub s (dropRefs sel keep s) := by
  intro n' hn'
  obtain ⟨n, hn, rfl⟩ := mem_dropRefs.1 hn'
  exact ⟨n, hn, rfl, rfl, fun r h => (mem_dropIn_refs.1 h).1⟩

theorem sub_retainNodes (tags : List String) (keep : String → Bool) (s : Module) :
    Sub s (retainNodes tags keep s) := by
  intro n' hn'
  exact ⟨n', (mem_retainNodes.1 hn').1, rfl, rfl, fun _ h => h⟩

theorem sub_deleteEmpty (c : WL) (s : Module) : Sub s (deleteEmpty c s) := by
  intro n' hn'
  obtain ⟨n, hn, names, rfl⟩ := mem_deleteEmpty hn'
  exact ⟨n, hn, by simp, by simp, fun r h => (mem_removeSubs_refs.1 h).1⟩

theorem sub_cleanupGroups (m : Module) : Sub m (cleanupGroups m) :=
  (sub_dropRefs _ _ _).trans (sub_deleteEmpty _ _)

theorem sub_cleanupFunctions (m : Module) : Sub m (cleanupFunctions m) :=
  ((sub_dropRefs _ _ _).trans (sub_dropRefs _ _ _)).trans (sub_deleteEmpty _ _)

theorem sub_removeUnusedSubElements (m : Module) : Sub m (removeUnusedSubElements m) :=
  (sub_retainNodes _ _ _).trans (sub_retainNodes _ _ _)

theorem sub_removeInvalidSubElementRefs (m : Module) : Sub m (removeInvalidSubElementRefs m) :=
  (sub_dropRefs _ _ _).trans (sub_dropRefs _ _ _)

theorem sub_cleanupCompuMethods (m : Module) : Sub m (cleanupCompuMethods m) :=
  (((sub_dropRefs _ _ _).trans (sub_retainNodes _ _ _)).trans (sub_removeUnusedSubElements _)).trans
    (sub_removeInvalidSubElementRefs _)

theorem sub_cleanupRecordLayouts (m : Module) : Sub m (cleanupRecordLayouts m) := sub_retainNodes _ _ _

theorem sub_cleanup (m : Module) : Sub m (cleanup m) :=
  (((sub_cleanupGroups m).trans (sub_cleanupFunctions _)).trans (sub_cleanupCompuMethods _)).trans
    (sub_cleanupRecordLayouts _)

/-! ### no new dangling references, pass by pass -/

/-- the references sitting in fields that satisfy `ok` keep their target among the keywords `T` -/
def Pres (T : List String) (ok : String → String → Prop) (s s' : Module) : Prop :=
  ∀ n' ∈ s', ∀ r ∈ n'.refs, ok n'.tag r.site → r.target ∈ namesOf T s → r.target ∈ namesOf T s'

theorem Pres.trans {T : List String} {ok : String → String → Prop} {s s' s'' : Module}
    (h1 : Pres T ok s s') (hs : Sub s' s'') (h2 : Pres T ok s' s'') : Pres T ok s s'' := by
  intro n'' hn'' r hr hok hres
  obtain ⟨n', hn', ht', _, hr'⟩ := hs n'' hn''
  exact h2 n'' hn'' r hr hok (h1 n' hn' r (hr' r hr) (ht' ▸ hok) hres)

theorem namesOf_dropRefs (T : List String) (sel : Sel) (keep : String → Bool) (s : Module) :
    namesOf T (dropRefs sel keep s) = namesOf T s := by
  unfold namesOf
  rw [dropRefs_eq_map, List.filter_map, List.map_map]
  rfl

theorem pres_dropRefs (T : List String) (ok : String → String → Prop) (sel : Sel) (keep : String → Bool)
    (s : Module) : Pres T ok s (dropRefs sel keep s) := by
  intro n' _ r _ _ h
  rw [namesOf_dropRefs]; exact h

theorem pres_retain {T : List String} {ok : String → String → Prop} {tags : List String} {sel : Sel} (s : Module)
    (hok : ∀ tag site, ok tag site → (∃ t ∈ tags, t ∈ T) → (tag, site) ∈ sel) :
    Pres T ok s (retainNodes tags (fun t => (targetsOf sel s).contains t) s) := by
  intro n' hn' r hr hokr hres
  obtain ⟨n0, hn0, ht0, hname0⟩ := mem_namesOf.1 hres
  refine mem_namesOf.2 ⟨n0, mem_retainNodes.2 ⟨hn0, fun htags => ?_⟩, ht0, hname0⟩
  rw [List.contains_iff_mem, hname0]
  exact mem_targetsOf.2 ⟨n', (mem_retainNodes.1 hn').1, r, hr, hok _ _ hokr ⟨_, htags, ht0⟩, rfl⟩

theorem pres_deleteEmpty' {T : List String} {ok : String → String → Prop} {c : WL}
    (hwf : ∀ p ∈ c.usedSel, p.1 ≠ c.tag) (s : Module)
    (hok : ∀ tag site, ok tag site → c.tag ∈ T → (tag, site) ∈ c.usedSel ∨ (tag = c.tag ∧ site = c.subSite)) :
    Pres T ok s (deleteEmpty c s) := by
  intro n' hn' r hr hokr hres
  exact deleteEmpty_pres hwf hn' hr (hok _ _ hokr) hres

/-- the UNIT half of `remove_unused_sub_elements` -/
theorem pres_retainUnits {T : List String} {ok : String → String → Prop} (s : Module) (used0 : List String)
    (h0 : ∀ t ∈ targetsOf unitUseSel s, t ∈ used0)
    (hok : ∀ tag site, ok tag site → "UNIT" ∈ T →
      (tag, site) = ("COMPU_METHOD", "RefUnit.unit") ∨ (tag, site) = ("UNIT", "RefUnit.unit")) :
    Pres T ok s (retainNodes ["UNIT"] (fun t => (unitClosure s (refCount s + 1) used0).contains t) s) := by
  intro n' hn' r hr hokr hres
  obtain ⟨n0, hn0, ht0, hname0⟩ := mem_namesOf.1 hres
  refine mem_namesOf.2 ⟨n0, mem_retainNodes.2 ⟨hn0, fun htags => ?_⟩, ht0, hname0⟩
  have hU : n0.tag = "UNIT" := by simpa using htags
  rw [List.contains_iff_mem, hname0, mem_unitClosure]
  obtain ⟨hn's, hkeep⟩ := mem_retainNodes.1 hn'
  rcases hok _ _ hokr (hU ▸ ht0) with h | h
  · simp only [Prod.mk.injEq] at h
    exact UReach.base (h0 _ (mem_targetsOf.2 ⟨n', hn's, r, hr, by simp [unitUseSel, h.1, h.2], rfl⟩))
  · simp only [Prod.mk.injEq] at h
    have hk := hkeep (by simp [h.1])
    rw [List.contains_iff_mem, mem_unitClosure] at hk
    exact UReach.step hn's h.1 hk hr h.2

theorem targetsOf_retainNodes_untouched (sel : Sel) (tags : List String) (keep : String → Bool) (s : Module)
    (h : ∀ p ∈ sel, p.1 ∉ tags) : targetsOf sel (retainNodes tags keep s) = targetsOf sel s := by
  apply targetsOf_eq_of_only (fun t => !tags.contains t)
  · intro p hp
    simpa using h p hp
  · apply only_retainNodes_untouched
    intro t ht
    simp [ht]

theorem pres_removeUnusedSubElements {T : List String} {ok : String → String → Prop} (s : Module)
    (hokT : ∀ tag site, ok tag site → (∃ t ∈ tabTags, t ∈ T) → (tag, site) ∈ tabUseSel)
    (hokU : ∀ tag site, ok tag site → "UNIT" ∈ T →
      (tag, site) = ("COMPU_METHOD", "RefUnit.unit") ∨ (tag, site) = ("UNIT", "RefUnit.unit")) :
    Pres T ok s (removeUnusedSubElements s) := by
  unfold removeUnusedSubElements
  simp only
  refine Pres.trans (pres_retain s hokT) (sub_retainNodes _ _ _) (pres_retainUnits _ _ ?_ hokU)
  intro t ht
  rw [targetsOf_retainNodes_untouched] at ht
  · exact ht
  · intro p hp
    simp only [unitUseSel, List.mem_cons, List.not_mem_nil, or_false] at hp
    rw [hp]; decide

/-! ### no new dangling references: the whole cleanup, per name space -/

/-- the field targets the name space `ns` and sits where the grammar allows it -/
def okNs (ns : Ns) (tag site : String) : Prop := siteNs site = some ns ∧ siteOk tag site = true

theorem okNs_sel {ns : Ns} {tag site : String} {sel : Sel} (h : okNs ns tag site) (hs : refSel ns = some sel) :
    (tag, site) ∈ sel := by
  have := h.2
  unfold siteOk at this
  rw [h.1] at this
  simp only [hs] at this
  exact List.contains_iff_mem.1 this

theorem ns_of_group {ns : Ns} (h : "GROUP" ∈ ns.tags) : ns = .group := by
  cases ns <;> simp [Ns.tags] at h <;> rfl
theorem ns_of_function {ns : Ns} (h : "FUNCTION" ∈ ns.tags) : ns = .function := by
  cases ns <;> simp [Ns.tags] at h <;> rfl
theorem ns_of_compuMethod {ns : Ns} (h : "COMPU_METHOD" ∈ ns.tags) : ns = .compuMethod := by
  cases ns <;> simp [Ns.tags] at h <;> rfl
theorem ns_of_unit {ns : Ns} (h : "UNIT" ∈ ns.tags) : ns = .unit := by
  cases ns <;> simp [Ns.tags] at h <;> rfl
theorem ns_of_recordLayout {ns : Ns} (h : "RECORD_LAYOUT" ∈ ns.tags) : ns = .recordLayout := by
  cases ns <;> simp [Ns.tags] at h <;> rfl
theorem ns_of_tab {ns : Ns} (h : ∃ t ∈ tabTags, t ∈ ns.tags) : ns = .convTab := by
  obtain ⟨t, ht, h⟩ := h
  simp only [tabTags, List.mem_cons, List.not_mem_nil, or_false] at ht
  rcases ht with rfl | rfl | rfl <;> cases ns <;> simp [Ns.tags] at h <;> rfl

theorem pres_cleanupGroups (ns : Ns) (m : Module) : Pres ns.tags (okNs ns) m (cleanupGroups m) := by
  unfold cleanupGroups removeInvalidObjectReferences
  refine Pres.trans (pres_dropRefs _ _ _ _ _) (sub_deleteEmpty _ _) (pres_deleteEmpty' (by decide) _ ?_)
  intro tag site hok hT
  have := ns_of_group hT
  subst this
  have := okNs_sel hok rfl
  simp only [List.mem_cons, Prod.mk.injEq] at this
  rcases this with ⟨h1, h2⟩ | h
  · exact Or.inr ⟨h1, h2⟩
  · exact Or.inl h

theorem pres_cleanupFunctions (ns : Ns) (m : Module) : Pres ns.tags (okNs ns) m (cleanupFunctions m) := by
  unfold cleanupFunctions removeBrokenObjectRefs removeBrokenFuncRefs
  refine Pres.trans (Pres.trans (pres_dropRefs _ _ _ _ _) (sub_dropRefs _ _ _) (pres_dropRefs _ _ _ _ _))
    (sub_deleteEmpty _ _) (pres_deleteEmpty' (by decide) _ ?_)
  intro tag site hok hT
  have := ns_of_function hT
  subst this
  have := okNs_sel hok rfl
  simp only [funcRefSel, List.mem_cons, Prod.mk.injEq, List.not_mem_nil, or_false] at this
  rcases this with h | h | h | h | h
  · exact Or.inl (by simp [functionWL, h.1, h.2])
  · exact Or.inl (by simp [functionWL, h.1, h.2])
  · exact Or.inl (by simp [functionWL, h.1, h.2])
  · exact Or.inl (by simp [functionWL, h.1, h.2])
  · exact Or.inr h

theorem pres_removeUnusedCompumethods (ns : Ns) (m : Module) :
    Pres ns.tags (okNs ns) m (removeUnusedCompumethods m) := by
  unfold removeUnusedCompumethods
  apply pres_retain
  intro tag site hok hT
  have : ns = .compuMethod := by
    obtain ⟨t, ht, h⟩ := hT
    simp only [List.mem_cons, List.not_mem_nil, or_false] at ht
    subst ht
    exact ns_of_compuMethod h
  subst this
  exact okNs_sel hok rfl

theorem pres_cleanupCompuMethods (ns : Ns) (m : Module) : Pres ns.tags (okNs ns) m (cleanupCompuMethods m) := by
  unfold cleanupCompuMethods
  refine Pres.trans (Pres.trans (Pres.trans ?_ (sub_retainNodes _ _ _) (pres_removeUnusedCompumethods ns _))
    (sub_removeUnusedSubElements _) (pres_removeUnusedSubElements _ ?_ ?_)) (sub_removeInvalidSubElementRefs _) ?_
  · exact pres_dropRefs _ _ _ _ _
  · intro tag site hok hT
    have := ns_of_tab hT
    subst this
    exact okNs_sel hok rfl
  · intro tag site hok hT
    have := ns_of_unit hT
    subst this
    have := okNs_sel hok rfl
    simpa using this
  · unfold removeInvalidSubElementRefs
    exact Pres.trans (pres_dropRefs _ _ _ _ _) (sub_dropRefs _ _ _) (pres_dropRefs _ _ _ _ _)

theorem pres_cleanupRecordLayouts (ns : Ns) (m : Module) :
    Pres ns.tags (okNs ns) m (cleanupRecordLayouts m) := by
  unfold cleanupRecordLayouts
  apply pres_retain
  intro tag site hok hT
  have : ns = .recordLayout := by
    obtain ⟨t, ht, h⟩ := hT
    simp only [List.mem_cons, List.not_mem_nil, or_false] at ht
    subst ht
    exact ns_of_recordLayout h
  subst this
  exact okNs_sel hok rfl

theorem pres_cleanup (ns : Ns) (m : Module) : Pres ns.tags (okNs ns) m (cleanup m) := by
  unfold cleanup
  exact Pres.trans (Pres.trans (Pres.trans (pres_cleanupGroups ns m) (sub_cleanupFunctions _)
    (pres_cleanupFunctions ns _)) (sub_cleanupCompuMethods _) (pres_cleanupCompuMethods ns _))
    (sub_cleanupRecordLayouts _) (pres_cleanupRecordLayouts ns _)

/-! ### what remains is referenced (compu_methods.rs, record_layouts.rs) -/

theorem mem_of_only_eq {q : String → Bool} {s s' : Module} (e : only q s' = only q s) {n : Node} (hn : n ∈ s)
    (hq : q n.tag = true) : n ∈ s' := by
  have : n ∈ only q s := List.mem_filter.2 ⟨hn, hq⟩
  rw [← e] at this
  exact (List.mem_filter.1 this).1

theorem removeUnusedSubElements_eq (s : Module) :
    removeUnusedSubElements s =
      retainNodes ["UNIT"] (fun t => (unitClosure (retainNodes tabTags (fun t => (targetsOf tabUseSel s).contains t) s)
        (refCount (retainNodes tabTags (fun t => (targetsOf tabUseSel s).contains t) s) + 1)
        (targetsOf unitUseSel s)).contains t)
        (retainNodes tabTags (fun t => (targetsOf tabUseSel s).contains t) s) := rfl

theorem removeInvalidSubElementRefs_eq (t : Module) :
    removeInvalidSubElementRefs t =
      dropRefs [("COMPU_METHOD", "RefUnit.unit")] (fun x => (namesOf ["UNIT"] t).contains x)
        (dropRefs [("COMPU_METHOD", "CompuTabRef.conversion_table")] (fun x => (namesOf tabTags t).contains x) t) :=
  rfl

/-- the image of a child under `remove_invalid_sub_element_refs` -/
def fixSub (t : Module) (n : Node) : Node :=
  dropIn [("COMPU_METHOD", "RefUnit.unit")] (fun x => (namesOf ["UNIT"] t).contains x)
    (dropIn [("COMPU_METHOD", "CompuTabRef.conversion_table")] (fun x => (namesOf tabTags t).contains x) n)

theorem mem_removeInvalidSubElementRefs {t : Module} {n' : Node} :
    n' ∈ removeInvalidSubElementRefs t ↔ ∃ n ∈ t, n' = fixSub t n := by
  rw [removeInvalidSubElementRefs_eq, mem_dropRefs]
  constructor
  · rintro ⟨n1, hn1, rfl⟩
    obtain ⟨n, hn, rfl⟩ := mem_dropRefs.1 hn1
    exact ⟨n, hn, rfl⟩
  · rintro ⟨n, hn, rfl⟩
    exact ⟨_, mem_dropRefs.2 ⟨n, hn, rfl⟩, rfl⟩

theorem mem_fixSub_refs {t : Module} {n : Node} {r : Ref} :
    r ∈ (fixSub t n).refs ↔ r ∈ n.refs ∧
      (n.tag = "COMPU_METHOD" → r.site = "CompuTabRef.conversion_table" → r.target ∈ namesOf tabTags t) ∧
      (n.tag = "COMPU_METHOD" → r.site = "RefUnit.unit" → r.target ∈ namesOf ["UNIT"] t) := by
  unfold fixSub
  rw [mem_dropIn_refs, mem_dropIn_refs]
  simp only [dropIn_tag, List.mem_singleton, Prod.mk.injEq, List.contains_iff_mem, and_imp, and_assoc]

theorem fixSub_eq_self {t : Module} {n : Node} (h : n.tag ≠ "COMPU_METHOD") : fixSub t n = n := by
  unfold fixSub
  rw [dropIn_eq_self, dropIn_eq_self]
  · intro r _ hs
    simp only [List.mem_singleton, Prod.mk.injEq] at hs
    exact absurd hs.1 h
  · intro r _ hs
    simp only [dropIn_tag, List.mem_singleton, Prod.mk.injEq] at hs
    exact absurd hs.1 h

theorem UReach.mono_module {s s' : Module} {u u' : List String} (hm : ∀ n ∈ s, n.tag = "UNIT" → n ∈ s')
    (hu : ∀ t ∈ u, t ∈ u') {t : String} (h : UReach s u t) : UReach s' u' t := by
  induction h with
  | base h => exact UReach.base (hu _ h)
  | step hn ht _ hr hs ih => exact UReach.step (hm _ hn ht) ht ih hr hs

/-- a COMPU_METHOD that is left is used as a conversion by a child that is left -/
theorem cc_compuMethod {s : Module} {x : Node} (hx : x ∈ cleanupCompuMethods s) (ht : x.tag = "COMPU_METHOD") :
    x.name ∈ targetsOf convUseSel (cleanupCompuMethods s) := by
  unfold cleanupCompuMethods at hx ⊢
  obtain ⟨x0, hx0, rfl⟩ := mem_removeInvalidSubElementRefs.1 hx
  have hx2 : x0 ∈ removeUnusedCompumethods (removeInvalidCompumethodRefs s) :=
    (mem_retainNodes.1 (mem_retainNodes.1 hx0).1).1
  unfold removeUnusedCompumethods at hx2
  have hk := (mem_retainNodes.1 hx2).2 (by simpa [fixSub] using ht)
  rw [List.contains_iff_mem] at hk
  have e : only nh (removeInvalidSubElementRefs (removeUnusedSubElements (removeUnusedCompumethods
      (removeInvalidCompumethodRefs s)))) = only nh (removeInvalidCompumethodRefs s) := by
    rw [only_removeInvalidSubElementRefs nh _ (by decide), only_removeUnusedSubElements nh _ (by decide),
      only_removeUnusedCompumethods nh _ (by decide)]
  apply targetsOf_eq_of_only nh _ e ▸ hk
  intro p hp
  simp only [convUseSel, convRepairSel, List.cons_append, List.nil_append, List.mem_cons, List.not_mem_nil,
    or_false] at hp
  rcases hp with rfl | rfl | rfl | rfl | rfl | rfl | rfl | rfl | rfl <;> decide

/-- a conversion table that is left is referenced by a COMPU_METHOD that is left -/
theorem cc_tab {s : Module} {x : Node} (hx : x ∈ cleanupCompuMethods s) (ht : x.tag ∈ tabTags) :
    x.name ∈ targetsOf tabUseSel (cleanupCompuMethods s) := by
  unfold cleanupCompuMethods at hx ⊢
  generalize removeUnusedCompumethods (removeInvalidCompumethodRefs s) = t2 at hx ⊢
  obtain ⟨x0, hx0, rfl⟩ := mem_removeInvalidSubElementRefs.1 hx
  have ht0 : x0.tag ∈ tabTags := by simpa [fixSub] using ht
  rw [removeUnusedSubElements_eq] at hx0
  have hk := (mem_retainNodes.1 (mem_retainNodes.1 hx0).1).2 ht0
  rw [List.contains_iff_mem] at hk
  obtain ⟨n, hn, r, hr, hs, hrt⟩ := mem_targetsOf.1 hk
  have hCM : n.tag = "COMPU_METHOD" := by
    simp only [tabUseSel, List.mem_cons, Prod.mk.injEq, List.not_mem_nil, or_false] at hs
    rcases hs with h | h <;> exact h.1
  have hn3 : n ∈ removeUnusedSubElements t2 :=
    mem_of_only_eq (only_removeUnusedSubElements (fun t => t == "COMPU_METHOD") t2 (by decide)) hn (by simp [hCM])
  rw [← removeUnusedSubElements_eq] at hx0
  refine mem_targetsOf.2 ⟨fixSub _ n, mem_removeInvalidSubElementRefs.2 ⟨n, hn3, rfl⟩, r, ?_, by simpa [fixSub] using hs,
    by simpa [fixSub] using hrt⟩
  rw [mem_fixSub_refs]
  refine ⟨hr, fun _ _ => ?_, fun _ hsite => ?_⟩
  · rw [hrt]; exact mem_namesOf.2 ⟨x0, hx0, ht0, rfl⟩
  · exfalso
    simp only [tabUseSel, List.mem_cons, Prod.mk.injEq, List.not_mem_nil, or_false] at hs
    rw [hsite] at hs
    rcases hs with h | h <;> exact absurd h.2 (by decide)

/-- a UNIT that is left is reachable, through UNITs that are left, from a COMPU_METHOD that is left -/
theorem cc_unit {s : Module} {x : Node} (hx : x ∈ cleanupCompuMethods s) (ht : x.tag = "UNIT") :
    UReach (cleanupCompuMethods s) (targetsOf unitUseSel (cleanupCompuMethods s)) x.name := by
  unfold cleanupCompuMethods at hx ⊢
  generalize removeUnusedCompumethods (removeInvalidCompumethodRefs s) = t2 at hx ⊢
  obtain ⟨x0, hx0, rfl⟩ := mem_removeInvalidSubElementRefs.1 hx
  have ht0 : x0.tag = "UNIT" := by simpa [fixSub] using ht
  have hx0' := hx0
  rw [removeUnusedSubElements_eq] at hx0'
  obtain ⟨hx1, hk⟩ := mem_retainNodes.1 hx0'
  have hk := hk (by simp [ht0])
  rw [List.contains_iff_mem, mem_unitClosure] at hk
  -- the UNITs of the intermediate state that are reachable are left
  have keepU : ∀ u ∈ retainNodes tabTags (fun t => (targetsOf tabUseSel t2).contains t) t2, u.tag = "UNIT" →
      UReach (retainNodes tabTags (fun t => (targetsOf tabUseSel t2).contains t) t2) (targetsOf unitUseSel t2) u.name →
      u ∈ removeUnusedSubElements t2 := by
    intro u hu _ hreach
    rw [removeUnusedSubElements_eq]
    refine mem_retainNodes.2 ⟨hu, fun _ => ?_⟩
    rw [List.contains_iff_mem, mem_unitClosure]
    exact hreach
  have main : ∀ t, UReach (retainNodes tabTags (fun t => (targetsOf tabUseSel t2).contains t) t2)
      (targetsOf unitUseSel t2) t →
      t ∈ namesOf ["UNIT"] (retainNodes tabTags (fun t => (targetsOf tabUseSel t2).contains t) t2) →
      UReach (removeInvalidSubElementRefs (removeUnusedSubElements t2))
        (targetsOf unitUseSel (removeInvalidSubElementRefs (removeUnusedSubElements t2))) t := by
    intro t hreach
    induction hreach with
    | @base t h0 =>
      intro hname
      obtain ⟨u, hu, hut, huname⟩ := mem_namesOf.1 hname
      have hut : u.tag = "UNIT" := by simpa using hut
      have hu3 := keepU u hu hut (huname ▸ UReach.base h0)
      obtain ⟨n, hn, r, hr, hs, hrt⟩ := mem_targetsOf.1 h0
      simp only [unitUseSel, List.mem_singleton, Prod.mk.injEq] at hs
      have hn3 : n ∈ removeUnusedSubElements t2 :=
        mem_of_only_eq (only_removeUnusedSubElements (fun t => t == "COMPU_METHOD") t2 (by decide)) hn (by simp [hs.1])
      apply UReach.base
      refine mem_targetsOf.2 ⟨fixSub _ n, mem_removeInvalidSubElementRefs.2 ⟨n, hn3, rfl⟩, r, ?_,
        by simp [fixSub, unitUseSel, hs.1, hs.2], hrt⟩
      rw [mem_fixSub_refs]
      refine ⟨hr, fun _ hsite => ?_, fun _ _ => ?_⟩
      · rw [hs.2] at hsite; exact absurd hsite (by decide)
      · rw [hrt]; exact mem_namesOf.2 ⟨u, hu3, by simp [hut], huname⟩
    | @step u r hu hut hreach hr hs ih =>
      intro _
      have hu3 := keepU u hu hut hreach
      have hu4 : u ∈ removeInvalidSubElementRefs (removeUnusedSubElements t2) := by
        refine mem_removeInvalidSubElementRefs.2 ⟨u, hu3, ?_⟩
        rw [fixSub_eq_self]; rw [hut]; decide
      exact UReach.step hu4 hut (ih (mem_namesOf.2 ⟨u, hu, by simp [hut], rfl⟩)) hr hs
  have := main x0.name hk (mem_namesOf.2 ⟨x0, hx1, by simp [ht0], rfl⟩)
  simpa [fixSub] using this

/-- a RECORD_LAYOUT that is left is referenced by a child that is left -/
theorem rl_recordLayout {s : Module} {x : Node} (hx : x ∈ cleanupRecordLayouts s) (ht : x.tag = "RECORD_LAYOUT") :
    x.name ∈ targetsOf layoutUseSel (cleanupRecordLayouts s) := by
  unfold cleanupRecordLayouts at hx ⊢
  have hk := (mem_retainNodes.1 hx).2 (by simp [ht])
  rw [List.contains_iff_mem] at hk
  rw [targetsOf_retainNodes_untouched]
  · exact hk
  · intro p hp
    simp only [layoutUseSel, List.mem_cons, List.not_mem_nil, or_false] at hp
    rcases hp with rfl | rfl | rfl | rfl | rfl <;> decide

theorem targetsOf_cleanupRecordLayouts (sel : Sel) (s : Module) (h : ∀ p ∈ sel, p.1 ≠ "RECORD_LAYOUT") :
    targetsOf sel (cleanupRecordLayouts s) = targetsOf sel s := by
  unfold cleanupRecordLayouts
  apply targetsOf_retainNodes_untouched
  intro p hp
  simpa using h p hp

/-! ### idempotence: generic facts -/

theorem namesOf_map_key (T : List String) (f : Node → Node) (hf : ∀ n, key (f n) = key n) (m : Module) :
    namesOf T (m.map f) = namesOf T m := by
  unfold namesOf
  rw [List.filter_map, List.map_map]
  have h1 : ((fun n : Node => T.contains n.tag) ∘ f) = fun n => T.contains n.tag := by
    funext n
    have := hf n
    simp only [key, Prod.mk.injEq] at this
    simp [Function.comp, this.1]
  rw [h1]
  apply List.map_congr_left
  intro n _
  have := hf n
  simp only [key, Prod.mk.injEq] at this
  simp [Function.comp, this.2]

theorem namesOf_nh_cleanup (T : List String) (hT : ∀ t ∈ T, nh t = true) (m : Module) :
    namesOf T (cleanup m) = namesOf T m := by
  rw [← namesOf_only T nh (cleanup m) hT, only_nh_cleanup, namesOf_map_key T (repair m) (fun _ => rfl),
    namesOf_only T nh m hT]

theorem isEmpty_dropIn {c : WL} {sel : Sel} {keep : String → Bool} {n : Node}
    (h : ∀ r ∈ n.refs, (n.tag, r.site) ∈ sel → c.content.contains r.site = false) :
    isEmpty c (dropIn sel keep n) = isEmpty c n := by
  unfold isEmpty
  apply Bool.eq_iff_iff.2
  rw [List.all_eq_true, List.all_eq_true]
  constructor
  · intro h1 r hr
    by_cases hk : r ∈ (dropIn sel keep n).refs
    · exact h1 r hk
    · rw [mem_dropIn_refs] at hk
      have hs : (n.tag, r.site) ∈ sel := by
        apply Classical.byContradiction
        intro hns
        exact hk ⟨hr, fun hs => absurd hs hns⟩
      rw [h r hr hs]; rfl
  · intro h1 r hr
    exact h1 r (mem_dropIn_refs.1 hr).1

theorem targetsOf_dropRefs_disjoint (sel sel' : Sel) (keep : String → Bool) (s : Module)
    (h : ∀ p ∈ sel, p ∉ sel') : targetsOf sel (dropRefs sel' keep s) = targetsOf sel s := by
  induction s with
  | nil => rfl
  | cons n s ih =>
    rw [dropRefs_eq_map] at ih ⊢
    rw [List.map_cons, targetsOf_cons, targetsOf_cons, ih]
    congr 2
    unfold dropIn
    simp only [List.filter_filter]
    apply List.filter_congr
    intro r _
    cases hc : sel.contains (n.tag, r.site)
    · rfl
    · have : sel'.contains (n.tag, r.site) = false := by
        cases hc' : sel'.contains (n.tag, r.site)
        · rfl
        · exact absurd (List.contains_iff_mem.1 hc') (h _ (List.contains_iff_mem.1 hc))
      show ((true && (!sel'.contains (n.tag, r.site) || keep r.target)) = true)
      rw [this]; rfl

def compuTouch : List String :=
  ["AXIS_PTS", "CHARACTERISTIC", "MEASUREMENT", "TYPEDEF_AXIS", "TYPEDEF_CHARACTERISTIC", "TYPEDEF_MEASUREMENT",
   "COMPU_METHOD", "COMPU_TAB", "COMPU_VTAB", "COMPU_VTAB_RANGE", "UNIT"]

theorem only_cleanupCompuMethods (q : String → Bool) (m : Module) (h : ∀ t ∈ compuTouch, q t = false) :
    only q (cleanupCompuMethods m) = only q m := by
  unfold cleanupCompuMethods
  rw [only_removeInvalidSubElementRefs q _ (h _ (by simp [compuTouch])),
    only_removeUnusedSubElements q _ (fun t ht => h t (by
      simp only [subElemTouch, List.mem_cons, List.not_mem_nil, or_false] at ht
      rcases ht with rfl | rfl | rfl | rfl <;> simp [compuTouch])),
    only_removeUnusedCompumethods q _ (h _ (by simp [compuTouch])),
    only_removeInvalidCompumethodRefs q _ (fun t ht => h t (by
      simp only [convTouch, List.mem_cons, List.not_mem_nil, or_false] at ht
      rcases ht with rfl | rfl | rfl | rfl | rfl | rfl <;> simp [compuTouch]))]

theorem pres_of_names {T : List String} {ok : String → String → Prop} {s s' : Module}
    (h : namesOf T s' = namesOf T s) : Pres T ok s s' := by
  intro _ _ r _ _ hr
  rw [h]; exact hr

/-- the fields collected by `get_used_functions` are not touched by the compu-method pass -/
theorem targetsOf_functionUsed_cleanupCompuMethods (s : Module) :
    targetsOf functionWL.usedSel (cleanupCompuMethods s) = targetsOf functionWL.usedSel s := by
  have hsel : ∀ p ∈ functionWL.usedSel, p.2 = "FunctionList.name_list" ∧
      p.1 ∈ ["AXIS_PTS", "CHARACTERISTIC", "MEASUREMENT", "GROUP"] := by
    intro p hp
    simp only [functionWL, List.mem_cons, List.not_mem_nil, or_false] at hp
    rcases hp with rfl | rfl | rfl | rfl <;> simp
  unfold cleanupCompuMethods
  rw [removeInvalidSubElementRefs_eq, targetsOf_dropRefs_disjoint, targetsOf_dropRefs_disjoint,
    removeUnusedSubElements_eq, targetsOf_retainNodes_untouched, targetsOf_retainNodes_untouched]
  unfold removeUnusedCompumethods
  rw [targetsOf_retainNodes_untouched]
  unfold removeInvalidCompumethodRefs
  rw [targetsOf_dropRefs_disjoint]
  · intro p hp
    obtain ⟨h2, _⟩ := hsel p hp
    intro hc
    simp only [convRepairSel, List.mem_cons, List.not_mem_nil, or_false] at hc
    rcases hc with rfl | rfl | rfl | rfl | rfl | rfl | rfl | rfl <;> exact absurd h2 (by decide)
  · intro p hp
    obtain ⟨_, h1⟩ := hsel p hp
    simp only [List.mem_cons, List.not_mem_nil, or_false] at h1 ⊢
    rcases h1 with h | h | h | h <;> rw [h] <;> decide
  · intro p hp
    obtain ⟨_, h1⟩ := hsel p hp
    simp only [tabTags, List.mem_cons, List.not_mem_nil, or_false] at h1 ⊢
    rcases h1 with h | h | h | h <;> rw [h] <;> decide
  · intro p hp
    obtain ⟨_, h1⟩ := hsel p hp
    simp only [List.mem_cons, List.not_mem_nil, or_false] at h1 ⊢
    rcases h1 with h | h | h | h <;> rw [h] <;> decide
  · intro p hp
    obtain ⟨h2, _⟩ := hsel p hp
    intro hc
    simp only [List.mem_singleton] at hc
    rw [hc] at h2
    exact absurd h2 (by decide)
  · intro p hp
    obtain ⟨h2, _⟩ := hsel p hp
    intro hc
    simp only [List.mem_singleton] at hc
    rw [hc] at h2
    exact absurd h2 (by decide)

/-! ### idempotence: every pass is the identity on the result of `cleanup` -/

/-- the states between the four parts of `cleanup` -/
abbrev S1 (m : Module) : Module := cleanupGroups m
abbrev S2 (m : Module) : Module := cleanupFunctions (S1 m)
abbrev S3 (m : Module) : Module := cleanupCompuMethods (S2 m)

theorem cleanup_eq (m : Module) : cleanup m = cleanupRecordLayouts (S3 m) := rfl

theorem namesOf_removeInvalidSubElementRefs (T : List String) (t : Module) :
    namesOf T (removeInvalidSubElementRefs t) = namesOf T t := by
  rw [removeInvalidSubElementRefs_eq, namesOf_dropRefs, namesOf_dropRefs]

theorem namesOf_cleanupRecordLayouts (T : List String) (s : Module) (h : "RECORD_LAYOUT" ∉ T) :
    namesOf T (cleanupRecordLayouts s) = namesOf T s := by
  apply namesOf_eq_of_only (fun t => T.contains t) (fun t ht => by simpa using ht)
  apply only_cleanupRecordLayouts
  simpa using h

/-- every UNIT that is left is reachable from the REF_UNIT of a COMPU_METHOD that is left -/
theorem cleanup_unit_reachable (m : Module) (x : Node) (hx : x ∈ cleanup m) (ht : x.tag = "UNIT") :
    UReach (cleanup m) (targetsOf unitUseSel (cleanup m)) x.name := by
  unfold cleanup at hx ⊢
  have hx3 := (mem_retainNodes.1 hx).1
  rw [targetsOf_cleanupRecordLayouts _ _ (by decide)]
  refine UReach.mono_module ?_ (fun _ h => h) (cc_unit hx3 ht)
  intro n hn hnt
  exact mem_retainNodes.2 ⟨hn, fun h => by simp [hnt] at h⟩

theorem queueable_dropIn {c : WL} {used : List String} {sel : Sel} {keep : String → Bool} {n : Node}
    (h : ∀ r ∈ n.refs, (n.tag, r.site) ∈ sel → c.content.contains r.site = false) :
    queueable c used (dropIn sel keep n) = queueable c used n := by
  unfold queueable
  rw [isEmpty_dropIn h]
  rfl

theorem queueable_other_tag {c : WL} {used : List String} {n : Node} (h : n.tag ≠ c.tag) :
    queueable c used n = false := by
  unfold queueable
  have : (n.tag == c.tag) = false := by simpa using h
  rw [this]; rfl

theorem idem_removeInvalidObjectReferences (m : Module) :
    removeInvalidObjectReferences (cleanup m) = cleanup m := by
  have hsub : Sub (removeInvalidObjectReferences m) (cleanup m) :=
    (((sub_deleteEmpty groupWL _).trans (sub_cleanupFunctions _)).trans (sub_cleanupCompuMethods _)).trans
      (sub_cleanupRecordLayouts _)
  unfold removeInvalidObjectReferences at hsub ⊢
  apply dropRefs_eq_self
  intro n hn r hr hs
  show (namesOf groupObjTags (cleanup m)).contains r.target = true
  rw [namesOf_nh_cleanup _ (by decide)]
  obtain ⟨n1, hn1, ht1, _, hr1⟩ := hsub n hn
  obtain ⟨n0, _, rfl⟩ := mem_dropRefs.1 hn1
  exact (mem_dropIn_refs.1 (hr1 r hr)).2 (ht1 ▸ hs)

theorem cleanup_no_queueable_group (m : Module)
    (hd : drained groupWL (removeInvalidObjectReferences m) = true) :
    ∀ n ∈ cleanup m, queueable groupWL (targetsOf groupWL.usedSel (cleanup m)) n = false := by
  have hused : targetsOf groupWL.usedSel (cleanup m) =
      targetsOf groupWL.usedSel (removeInvalidObjectReferences m) := by
    apply targetsOf_eq_of_only (fun t => t == "USER_RIGHTS") (by decide)
    rw [cleanup_eq, only_cleanupRecordLayouts _ _ (by decide), only_cleanupCompuMethods _ _ (by decide),
      only_cleanupFunctions _ _ (by decide)]
    exact only_deleteEmpty_untouched _ groupWL _ (by decide)
  have hgrp : only (fun t => t == "GROUP") (cleanup m) =
      dropRefs funcRefSel (fun t => (namesOf ["FUNCTION"] (S1 m)).contains t) (only (fun t => t == "GROUP") (S1 m)) := by
    rw [cleanup_eq, only_cleanupRecordLayouts _ _ (by decide), only_cleanupCompuMethods _ _ (by decide)]
    show only _ (deleteEmpty functionWL (removeBrokenObjectRefs (removeBrokenFuncRefs (S1 m)))) = _
    rw [only_deleteEmpty_untouched _ functionWL _ (by decide), only_removeBrokenObjectRefs _ _ (by decide)]
    unfold removeBrokenFuncRefs
    rw [only_dropRefs]
  intro n hn
  rw [hused]
  by_cases hg : n.tag = "GROUP"
  · have hn' : n ∈ only (fun t => t == "GROUP") (cleanup m) := List.mem_filter.2 ⟨hn, by simp [hg]⟩
    rw [hgrp] at hn'
    obtain ⟨n1, hn1, rfl⟩ := mem_dropRefs.1 hn'
    have hn1' : n1 ∈ deleteEmpty groupWL (removeInvalidObjectReferences m) := (List.mem_filter.1 hn1).1
    rw [queueable_dropIn]
    · exact deleteEmpty_no_queueable hd hn1'
    · intro r _ hs
      simp only [funcRefSel, List.mem_cons, Prod.mk.injEq, List.not_mem_nil, or_false] at hs
      rcases hs with h | h | h | h | h <;> rw [h.2] <;> decide
  · exact queueable_other_tag hg

theorem idem_deleteEmptyGroups (m : Module) (hd : drained groupWL (removeInvalidObjectReferences m) = true) :
    deleteEmpty groupWL (cleanup m) = cleanup m :=
  deleteEmpty_eq_self (cleanup_no_queueable_group m hd)

theorem idem_removeBrokenFuncRefs (m : Module) : removeBrokenFuncRefs (cleanup m) = cleanup m := by
  have hsub : Sub (removeBrokenFuncRefs (S1 m)) (cleanup m) :=
    ((((sub_dropRefs _ _ _).trans (sub_deleteEmpty functionWL _)).trans (sub_cleanupCompuMethods _)).trans
      (sub_cleanupRecordLayouts _))
  have hpres : Pres ["FUNCTION"] (fun tag site => (tag, site) ∈ funcRefSel) (removeBrokenFuncRefs (S1 m))
      (cleanup m) := by
    refine Pres.trans (Pres.trans (Pres.trans (pres_dropRefs _ _ _ _ _) (sub_deleteEmpty functionWL _)
      (pres_deleteEmpty' (by decide) _ ?_)) (sub_cleanupCompuMethods _) (pres_of_names ?_))
      (sub_cleanupRecordLayouts _) (pres_of_names ?_)
    · intro tag site hok _
      simp only [funcRefSel, List.mem_cons, Prod.mk.injEq, List.not_mem_nil, or_false] at hok
      rcases hok with h | h | h | h | h
      · exact Or.inl (by simp [functionWL, h.1, h.2])
      · exact Or.inl (by simp [functionWL, h.1, h.2])
      · exact Or.inl (by simp [functionWL, h.1, h.2])
      · exact Or.inl (by simp [functionWL, h.1, h.2])
      · exact Or.inr h
    · exact namesOf_eq_of_only (fun t => t == "FUNCTION") (by decide) (only_cleanupCompuMethods _ _ (by decide))
    · exact namesOf_cleanupRecordLayouts _ _ (by decide)
  unfold removeBrokenFuncRefs at hsub hpres ⊢
  apply dropRefs_eq_self
  intro n hn r hr hs
  show (namesOf ["FUNCTION"] (cleanup m)).contains r.target = true
  rw [List.contains_iff_mem]
  apply hpres n hn r hr hs
  rw [namesOf_dropRefs]
  obtain ⟨n1, hn1, ht1, _, hr1⟩ := hsub n hn
  obtain ⟨n0, _, rfl⟩ := mem_dropRefs.1 hn1
  exact List.contains_iff_mem.1 ((mem_dropIn_refs.1 (hr1 r hr)).2 (ht1 ▸ hs))

theorem idem_removeBrokenObjectRefs (m : Module) : removeBrokenObjectRefs (cleanup m) = cleanup m := by
  have hsub : Sub (removeBrokenObjectRefs (removeBrokenFuncRefs (S1 m))) (cleanup m) :=
    (((sub_deleteEmpty functionWL _).trans (sub_cleanupCompuMethods _)).trans (sub_cleanupRecordLayouts _))
  have hnames : namesOf objectTags (removeBrokenFuncRefs (S1 m)) = namesOf objectTags m := by
    unfold removeBrokenFuncRefs
    rw [namesOf_dropRefs]
    exact namesOf_eq_of_only (fun t => objectTags.contains t) (fun t ht => by simpa using ht)
      (only_cleanupGroups _ m (by decide))
  unfold removeBrokenObjectRefs at hsub ⊢
  apply dropRefs_eq_self
  intro n hn r hr hs
  show (namesOf objectTags (cleanup m)).contains r.target = true
  rw [namesOf_nh_cleanup _ (by decide), ← hnames]
  obtain ⟨n1, hn1, ht1, _, hr1⟩ := hsub n hn
  obtain ⟨n0, _, rfl⟩ := mem_dropRefs.1 hn1
  exact (mem_dropIn_refs.1 (hr1 r hr)).2 (ht1 ▸ hs)

theorem cleanup_no_queueable_function (m : Module)
    (hd : drained functionWL (removeBrokenObjectRefs (removeBrokenFuncRefs (S1 m))) = true) :
    ∀ n ∈ cleanup m, queueable functionWL (targetsOf functionWL.usedSel (cleanup m)) n = false := by
  have hused : targetsOf functionWL.usedSel (cleanup m) =
      targetsOf functionWL.usedSel (removeBrokenObjectRefs (removeBrokenFuncRefs (S1 m))) := by
    rw [cleanup_eq, targetsOf_cleanupRecordLayouts _ _ (by decide), targetsOf_functionUsed_cleanupCompuMethods]
    exact targetsOf_eq_of_only (fun t => t != "FUNCTION") (by decide)
      (only_deleteEmpty_untouched _ functionWL _ (by decide))
  have hfun : only (fun t => t == "FUNCTION") (cleanup m) = only (fun t => t == "FUNCTION") (S2 m) := by
    rw [cleanup_eq, only_cleanupRecordLayouts _ _ (by decide), only_cleanupCompuMethods _ _ (by decide)]
  intro n hn
  rw [hused]
  by_cases hg : n.tag = "FUNCTION"
  · have hn' : n ∈ only (fun t => t == "FUNCTION") (cleanup m) := List.mem_filter.2 ⟨hn, by simp [hg]⟩
    rw [hfun] at hn'
    exact deleteEmpty_no_queueable hd (List.mem_filter.1 hn').1
  · exact queueable_other_tag hg

theorem idem_deleteEmptyFunctions (m : Module)
    (hd : drained functionWL (removeBrokenObjectRefs (removeBrokenFuncRefs (S1 m))) = true) :
    deleteEmpty functionWL (cleanup m) = cleanup m :=
  deleteEmpty_eq_self (cleanup_no_queueable_function m hd)

theorem idem_removeInvalidCompumethodRefs (m : Module) : removeInvalidCompumethodRefs (cleanup m) = cleanup m := by
  have hsub : Sub (removeInvalidCompumethodRefs (S2 m)) (cleanup m) :=
    ((((sub_retainNodes _ _ _).trans (sub_removeUnusedSubElements _)).trans
      (sub_removeInvalidSubElementRefs _)).trans (sub_cleanupRecordLayouts _))
  have hpres : Pres ["COMPU_METHOD"] (fun tag site => (tag, site) ∈ convRepairSel)
      (removeInvalidCompumethodRefs (S2 m)) (cleanup m) := by
    refine Pres.trans (Pres.trans (Pres.trans (pres_retain _ ?_) (sub_removeUnusedSubElements _) (pres_of_names ?_))
      (sub_removeInvalidSubElementRefs _) (pres_of_names ?_)) (sub_cleanupRecordLayouts _) (pres_of_names ?_)
    · intro tag site hok _
      exact List.mem_append_left _ hok
    · exact namesOf_eq_of_only (fun t => t == "COMPU_METHOD") (by decide)
        (only_removeUnusedSubElements _ _ (by decide))
    · exact namesOf_removeInvalidSubElementRefs _ _
    · exact namesOf_cleanupRecordLayouts _ _ (by decide)
  unfold removeInvalidCompumethodRefs at hsub hpres ⊢
  apply dropRefs_eq_self
  intro n hn r hr hs
  show (namesOf ["COMPU_METHOD"] (cleanup m)).contains r.target = true
  rw [List.contains_iff_mem]
  apply hpres n hn r hr hs
  rw [namesOf_dropRefs]
  obtain ⟨n1, hn1, ht1, _, hr1⟩ := hsub n hn
  obtain ⟨n0, _, rfl⟩ := mem_dropRefs.1 hn1
  exact List.contains_iff_mem.1 ((mem_dropIn_refs.1 (hr1 r hr)).2 (ht1 ▸ hs))

theorem idem_removeUnusedCompumethods (m : Module) : removeUnusedCompumethods (cleanup m) = cleanup m := by
  unfold removeUnusedCompumethods
  apply retainNodes_eq_self
  intro x hx ht
  rw [List.contains_iff_mem, cleanup_eq, targetsOf_cleanupRecordLayouts _ _ (by decide)]
  exact cc_compuMethod (mem_retainNodes.1 hx).1 (by simpa using ht)

theorem idem_removeUnusedSubElements (m : Module) : removeUnusedSubElements (cleanup m) = cleanup m := by
  have h1 : retainNodes tabTags (fun t => (targetsOf tabUseSel (cleanup m)).contains t) (cleanup m) = cleanup m := by
    apply retainNodes_eq_self
    intro x hx ht
    rw [List.contains_iff_mem, cleanup_eq, targetsOf_cleanupRecordLayouts _ _ (by decide)]
    exact cc_tab (mem_retainNodes.1 hx).1 ht
  rw [removeUnusedSubElements_eq, h1]
  apply retainNodes_eq_self
  intro x hx ht
  rw [List.contains_iff_mem, mem_unitClosure]
  exact cleanup_unit_reachable m x hx (by simpa using ht)

theorem idem_removeInvalidSubElementRefs (m : Module) : removeInvalidSubElementRefs (cleanup m) = cleanup m := by
  have key : ∀ n ∈ cleanup m, ∀ r ∈ n.refs, n.tag = "COMPU_METHOD" →
      (r.site = "CompuTabRef.conversion_table" → r.target ∈ namesOf tabTags (cleanup m)) ∧
      (r.site = "RefUnit.unit" → r.target ∈ namesOf ["UNIT"] (cleanup m)) := by
    intro n hn r hr ht
    obtain ⟨n3, hn3, ht3, _, hr3⟩ := sub_cleanupRecordLayouts (S3 m) n hn
    rw [cleanup_eq, namesOf_cleanupRecordLayouts _ _ (by decide), namesOf_cleanupRecordLayouts _ _ (by decide)]
    show _ ∧ _
    have hn3' : n3 ∈ removeInvalidSubElementRefs (removeUnusedSubElements (removeUnusedCompumethods
      (removeInvalidCompumethodRefs (S2 m)))) := hn3
    obtain ⟨n0, _, rfl⟩ := mem_removeInvalidSubElementRefs.1 hn3'
    have := mem_fixSub_refs.1 (hr3 r hr)
    have ht0 : n0.tag = "COMPU_METHOD" := by rw [← ht, ← ht3]; rfl
    show (_ → r.target ∈ namesOf tabTags (removeInvalidSubElementRefs _)) ∧
      (_ → r.target ∈ namesOf ["UNIT"] (removeInvalidSubElementRefs _))
    rw [namesOf_removeInvalidSubElementRefs, namesOf_removeInvalidSubElementRefs]
    exact ⟨this.2.1 ht0, this.2.2 ht0⟩
  have h1 : dropRefs [("COMPU_METHOD", "CompuTabRef.conversion_table")]
      (fun x => (namesOf tabTags (cleanup m)).contains x) (cleanup m) = cleanup m := by
    apply dropRefs_eq_self
    intro n hn r hr hs
    simp only [List.mem_singleton, Prod.mk.injEq] at hs
    exact List.contains_iff_mem.2 ((key n hn r hr hs.1).1 hs.2)
  rw [removeInvalidSubElementRefs_eq, h1]
  apply dropRefs_eq_self
  intro n hn r hr hs
  simp only [List.mem_singleton, Prod.mk.injEq] at hs
  exact List.contains_iff_mem.2 ((key n hn r hr hs.1).2 hs.2)

theorem idem_cleanupRecordLayouts (m : Module) : cleanupRecordLayouts (cleanup m) = cleanup m := by
  unfold cleanupRecordLayouts
  apply retainNodes_eq_self
  intro x hx ht
  rw [List.contains_iff_mem]
  exact rl_recordLayout hx (by simpa using ht)

theorem idem_cleanup (m : Module) (hd : queuesDrained m = true) : cleanup (cleanup m) = cleanup m := by
  unfold queuesDrained at hd
  rw [Bool.and_eq_true] at hd
  show cleanupRecordLayouts (removeInvalidSubElementRefs (removeUnusedSubElements (removeUnusedCompumethods
    (removeInvalidCompumethodRefs (deleteEmpty functionWL (removeBrokenObjectRefs (removeBrokenFuncRefs
      (deleteEmpty groupWL (removeInvalidObjectReferences (cleanup m))))))))))  = cleanup m
  rw [idem_removeInvalidObjectReferences, idem_deleteEmptyGroups m hd.1, idem_removeBrokenFuncRefs,
    idem_removeBrokenObjectRefs, idem_deleteEmptyFunctions m hd.2, idem_removeInvalidCompumethodRefs,
    idem_removeUnusedCompumethods, idem_removeUnusedSubElements, idem_removeInvalidSubElementRefs,
    idem_cleanupRecordLayouts]

theorem not_queueable {c : WL} {used : List String} {n : Node} (h : queueable c used n = false) (ht : n.tag = c.tag) :
    n.name ∈ used ∨ isEmpty c n = false := by
  unfold queueable at h
  have : (n.tag == c.tag) = true := by simpa using ht
  rw [this] at h
  cases hu : used.contains n.name
  · rw [hu] at h
    exact Or.inr (by simpa using h)
  · exact Or.inl (List.contains_iff_mem.1 hu)

end A2l.Cl
