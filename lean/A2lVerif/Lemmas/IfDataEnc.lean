import A2lVerif.Model.IfData
/-!
# IF_DATA, part I: the encoding at the hook boundary loses nothing

`Env.special` returns a `Val`; the IF_DATA model stores its `GenericIfData` (`Gen`) as `enc g` and the writer hook
decodes it again. `dec (enc g) = some g`: what the writer sees is what the parser produced.
-/
namespace A2l.IfData
open A2l.Tree

mutual
theorem dec_enc : ∀ g : Gen, dec (enc g) = some g
  | .none => by simp [enc, dec]
  | .int .. => by simp [enc, dec]
  | .float .. => by simp [enc, dec]
  | .double .. => by simp [enc, dec]
  | .str .. => by simp [enc, dec]
  | .enumItem .. => by simp [enc, dec]
  | .array items => by rw [enc, dec, decL_encL items]; rfl
  | .seq items => by rw [enc, dec, decL_encL items]; rfl
  | .taggedStruct items => by
    rw [enc, dec.eq_def]
    simp
    rw [decT_encT items]
  | .taggedUnion items => by
    rw [enc, dec.eq_def]
    simp
    rw [decT_encT items]
  | .struct line items => by
    rw [enc, dec.eq_def]
    simp
    rw [decL_encL items]
  | .block line items => by
    rw [enc, dec.eq_def]
    simp
    rw [decL_encL items]
theorem decL_encL : ∀ l : List Gen, decL (encL l) = some l
  | [] => by simp [encL, decL]
  | g :: rest => by rw [encL, decL, dec_enc g, decL_encL rest]
theorem decT_encT : ∀ l : List (TItem Gen), decT (encT l) = some l
  | [] => by simp [encT, decT]
  | it :: rest => by
    rw [encT, decT]
    dsimp only
    rw [dec_enc it.data, decT_encT rest]
    cases it with
    | mk line uid startOff endOff tag data isBlock => cases isBlock <;> rfl
end

/-- the two fields of an `IF_DATA` block value: `ifdata_items` and `ifdata_valid` -/
theorem decIfData_encIfData (items : Option Gen) (valid : Bool) : decIfData (encIfData items valid) = some (items, valid) := by
  cases items with
  | none => cases valid <;> rfl
  | some g =>
    unfold encIfData decIfData
    dsimp only
    rw [dec_enc g]
    cases valid <;> rfl

/-- the writer hook on the value that `IfData::parse` stored: `ifdata_items.write(indent - 1)` of the data itself -/
theorem specialWrite_ifdata (tyA2ml ty ty' indent : Nat) (info : Info) (g : Gen) (valid : Bool) (h : ty ≠ tyA2ml) :
    specialWrite tyA2ml ty indent (.block ty' info (encIfData (some g) valid) [] []) = write (indent - 1) g := by
  unfold specialWrite
  dsimp only
  rw [if_neg h, decIfData_encIfData]

end A2l.IfData
