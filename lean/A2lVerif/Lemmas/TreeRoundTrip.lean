import A2lVerif.Lemmas.RT.File
import A2lVerif.Lemmas.RT.Writer
import A2lVerif.Lemmas.RT.Layout
import A2lVerif.Lemmas.RT.LexToks
import A2lVerif.Lemmas.RT.EnvCongr
import A2lVerif.Lemmas.RT.LexVals
/-!
# helper lemmas for C01 (save / reload stability), parser / writer level

The development lives in `Lemmas/RT/`:

* `Defs`      written token streams (`WTok`, `mkToks`, `renderToks`), ordered trees (`OT`), what makes them readable (`OT.ok`)
* `Stream`    the cursor primitives (`get_line_offset` …) on a written token stream
* `Fields`, `Elems`, `SeqEnd`, `FieldsAll`   parameters: scalars, structs, arrays, sequences and where they end
* `Canon`     the ordered form of a value (`Canon`), written order (`InOrder`), equality up to layout (`LayoutEq`)
* `Lists`, `LoopInv`, `Loop`, `Node`, `File`   the tagged loop, `T::parse`, `parse_file` invert the writer
* `Writer`    `stringify` of a value in canonical relation to an ordered tree writes that tree's token stream
* `Layout`    two values in written order with the same ordered tree are `LayoutEq`
* `LexBytes`, `LexSegs`, `LexToks`, `LexVals`   the tokenizer reads the written text back (bytes → segments → tokens →
              conditions on the values); `EnvCongr`: writer and ordered form ignore the token array

This file composes them: a written file, tokenized into the written token stream, is read back as a value with the
same ordered form; its text is the same; if the original was in written order the two are equal up to layout.
-/
namespace A2l.Tree
open A2l.G A2l.Sc

/-- what `parse_version` needs of the first item: in strict mode it is the version keyword and carries the version the
    items were checked against; otherwise it is the version keyword or some other tag -/
def HeadOk (c : RCfg) : List OT → Prop
  | .node i tag blk ty so eo fields its :: _ =>
    if c.e.strict then
      ∃ major minor, IsVersionItem c (.node i tag blk ty so eo fields its) major minor ∧ versionOf major minor = some c.ver
    else
      (∃ major minor, IsVersionItem c (.node i tag blk ty so eo fields its) major minor) ∨
        c.lx.symOf tag ≠ c.e.known.tagAsap2Version
  | _ => False

/-- `items` can be written and read back: the hypotheses of `reload_written` about the ordered tree, bundled
    (`c.lx` = how the driver annotates tokens). None of them looks at `c.e.toks`. -/
structure Writable (c : RCfg) (rarms : List Arm) (items : List OT) : Prop where
  /-- the root type is a keyword without parameters whose tagged part is `rarms` (`A2lFile`) -/
  root : c.e.table.lookup c.e.known.tyA2lFile = some (.block false [] rarms true)
  /-- every item is well-formed (for the version found by `parse_version`; outside strict mode: for every version) -/
  ok : ∀ ver, (c.e.strict = true → ver = c.ver) → OT.okL { c with ver := ver } 0 rarms false items []
  mult : MultOk c.e.strict rarms items
  pos : PosSorted c.e.code items
  head : HeadOk c items

theorem toksL_ne_nil_of_head {c : RCfg} {items : List OT} (h : HeadOk c items) : OT.toksL 0 items ≠ [] := by
  cases items with
  | nil => exact absurd h (by simp [HeadOk])
  | cons o more =>
    cases o with
    | cmt _ _ => exact absurd h (by simp [HeadOk])
    | node i tag blk ty so eo fields its =>
      cases blk <;> simp [OT.toksL, OT.toks, headToks]

/-- **a written file is read back**: `parse_file` on the written token stream succeeds with a value whose ordered form
    is `items` again, and that stands in written order -/
theorem reload_written (c : RCfg) (rarms : List Arm) (items : List OT) (hw : Writable c rarms items)
    (hT : Toks c.e c.lx (OT.toksL 0 items)) (fuel : Nat) (hf : OT.needL 0 items + 20 ≤ fuel) (s0 : PState) (hp0 : s0.pos = 0) :
    ∃ info ch' cm' s', parseFile fuel c.e s0 = .ok (.block c.e.known.tyA2lFile info [] ch' cm') s' ∧
      info.startOff = 0 ∧ info.endOff = 0 ∧
      Canon c.e (.block c.e.known.tyA2lFile info [] ch' cm') items ∧
      InOrder c.e (.block c.e.known.tyA2lFile info [] ch' cm') items := by
  have hne := toksL_ne_nil_of_head hw.head
  have hhead := hw.head
  cases items with
  | nil => exact absurd hhead (by simp [HeadOk])
  | cons o more =>
    cases o with
    | cmt _ _ => exact absurd hhead (by simp [HeadOk])
    | node i tag blk ty so eo fields its =>
      simp only [HeadOk] at hhead
      cases hst : c.e.strict with
      | true =>
        rw [hst] at hhead
        simp only [if_true] at hhead
        obtain ⟨major, minor, hv, hver⟩ := hhead
        obtain ⟨info, ch', cm', s', h1, h2, h3, hc, ho⟩ := reparse_file_strict c hT hne rarms _ more major minor hv hver hw.root
          (hw.ok c.ver (fun _ => rfl)) hw.mult hw.pos rfl fuel hf s0 hp0
        exact ⟨info, ch', cm', s', h1, h2, h3, hc, ho⟩
      | false =>
        rw [hst] at hhead
        simp only [Bool.false_eq_true, if_false] at hhead
        obtain ⟨info, ch', cm', s', h1, h2, h3, hc, ho⟩ := reparse_file_nonstrict c hT hne hst rarms i tag blk ty so eo fields its
          more hhead hw.root (fun ver => hw.ok ver (fun h => by rw [hst] at h; cases h)) hw.mult hw.pos rfl fuel hf s0 hp0
        exact ⟨info, ch', cm', s', h1, h2, h3, hc, ho⟩

/-- the text of a root value in canonical relation to `items` is the text of the written token stream: the items with
    the offsets behind line comments bumped (`OT.fixL`) -/
theorem write_root (e : Env) (ty : Nat) (info : Info) (ch : List (List Val)) (cm : List Cmt) (items : List OT)
    (h : Canon e (.block ty info [] ch cm) items) :
    ∃ F0, ∀ F, F0 ≤ F → writeFile e (.block ty info [] ch cm) F = renderToks (OT.toksL 0 (OT.fixL false items)) := by
  obtain ⟨F0, h0⟩ := canon_text e h
  refine ⟨F0, fun F hF => ?_⟩
  have := h0 F hF 0
  simpa [writeFile, Val.fieldsN, fieldsToks] using this

/-- **save / reload stability at token level**: `items` = ordered form of `v`, `OT.fixL false items` = what the writer
    writes. If the written text is tokenized into that token stream (`hT`), the second load succeeds, the second
    write gives the same text, and — if `v` stood in written order and no offset had to be bumped — the reloaded value
    equals `v` up to layout bookkeeping -/
theorem save_reload_tokens (c : RCfg) (rarms : List Arm) (items : List OT)
    (hw : Writable c rarms (OT.fixL false items)) (hT : Toks c.e c.lx (OT.toksL 0 (OT.fixL false items)))
    (info : Info) (ch : List (List Val)) (cm : List Cmt)
    (hcan : Canon c.e (.block c.e.known.tyA2lFile info [] ch cm) items)
    (fuel : Nat) (hf : OT.needL 0 (OT.fixL false items) + 20 ≤ fuel) (s0 : PState) (hp0 : s0.pos = 0) :
    ∃ v' s', parseFile fuel c.e s0 = .ok v' s' ∧
      (∃ F0, ∀ F, F0 ≤ F →
        writeFile c.e v' F = writeFile c.e (.block c.e.known.tyA2lFile info [] ch cm) F ∧
        writeFile c.e v' F = renderToks (OT.toksL 0 (OT.fixL false items))) ∧
      (InOrder c.e (.block c.e.known.tyA2lFile info [] ch cm) items → OT.fixL false items = items →
        info.startOff = 0 → info.endOff = 0 → LayoutEq (.block c.e.known.tyA2lFile info [] ch cm) v') := by
  obtain ⟨info', ch', cm', s', h1, hso, heo, hc', ho'⟩ := reload_written c rarms _ hw hT fuel hf s0 hp0
  refine ⟨_, s', h1, ?_, ?_⟩
  · obtain ⟨F1, w1⟩ := write_root c.e _ info ch cm items hcan
    obtain ⟨F2, w2⟩ := write_root c.e _ info' ch' cm' _ hc'
    rw [fixL_idem] at w2
    exact ⟨max F1 F2, fun F hF => ⟨by rw [w2 F (by omega), w1 F (by omega)], w2 F (by omega)⟩⟩
  · intro ho hfix h1' h2'
    rw [hfix] at ho'
    exact layoutEq_of_inOrder c.e ho ho' ⟨rfl, by rw [h1', hso], by rw [h2', heo], rfl⟩

/-- **save / reload stability, text level**: `e0` = environment of the first load (its tokens are irrelevant), `v` a root
    value with ordered form `items`; `ws` = the token stream the writer emits, `b` = the UTF-8 bytes of the written text,
    `e1` = environment of the second load. If the stream is lexable and the ordered tree readable, then
    1. the writer's text is `renderToks ws` (for every sufficient writer fuel),
    2. the tokenizer model succeeds on `b` and the driver's conversion yields exactly the tokens of `e1`,
    3. the second load succeeds (for every sufficient parser fuel) with a value `v'` whose text is the same again,
       and that equals `v` up to layout bookkeeping if `v` stood in written order and no offset was bumped. -/
theorem save_reload_text (e0 : Env) (lx : LexEnv) (ver : Nat) (rarms : List Arm) (items : List OT)
    (info : Info) (ch : List (List Val)) (cm : List Cmt)
    (hcan : Canon e0 (.block e0.known.tyA2lFile info [] ch cm) items)
    (hlex : StreamLex none (OT.toksL 0 (OT.fixL false items)))
    (hw : Writable ⟨{ e0 with toks := (mkToks lx (OT.toksL 0 (OT.fixL false items))).toArray }, lx, ver⟩ rarms
      (OT.fixL false items)) :
    (∃ F0, ∀ F, F0 ≤ F →
      writeFile e0 (.block e0.known.tyA2lFile info [] ch cm) F = renderToks (OT.toksL 0 (OT.fixL false items))) ∧
    (∃ ts, Lex.tokenize (encL (renderToks (OT.toksL 0 (OT.fixL false items)))).toArray = .ok ts ∧
      (ts.map (convTok lx (encL (renderToks (OT.toksL 0 (OT.fixL false items)))).toArray)).toArray =
        (mkToks lx (OT.toksL 0 (OT.fixL false items))).toArray) ∧
    (∀ fuel, OT.needL 0 (OT.fixL false items) + 20 ≤ fuel →
      ∃ v' s', parseFile fuel { e0 with toks := (mkToks lx (OT.toksL 0 (OT.fixL false items))).toArray } {} = .ok v' s' ∧
        (∃ F0, ∀ F, F0 ≤ F →
          writeFile { e0 with toks := (mkToks lx (OT.toksL 0 (OT.fixL false items))).toArray } v' F =
            writeFile e0 (.block e0.known.tyA2lFile info [] ch cm) F) ∧
        (InOrder e0 (.block e0.known.tyA2lFile info [] ch cm) items → OT.fixL false items = items →
          info.startOff = 0 → info.endOff = 0 → LayoutEq (.block e0.known.tyA2lFile info [] ch cm) v')) := by
  have heq := EnvEq.setToks e0 (mkToks lx (OT.toksL 0 (OT.fixL false items))).toArray
  refine ⟨write_root e0 _ info ch cm items hcan, ?_, ?_⟩
  · obtain ⟨ts, h1, h2⟩ := lex_written lx _ hlex
    exact ⟨ts, h1, by rw [h2]⟩
  · intro fuel hf
    obtain ⟨v', s', h1, ⟨F0, h2⟩, h3⟩ := save_reload_tokens
      ⟨{ e0 with toks := (mkToks lx (OT.toksL 0 (OT.fixL false items))).toArray }, lx, ver⟩ rarms items hw rfl info ch cm
      (hcan.congr heq) fuel hf {} rfl
    refine ⟨v', s', h1, ⟨F0, fun F hF => ?_⟩, fun ho hfix hs he => h3 (ho.congr heq) hfix hs he⟩
    rw [(h2 F hF).1]
    exact (writeFile_congr heq _ F).symm

end A2l.Tree
