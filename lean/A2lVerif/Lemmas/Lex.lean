import A2lVerif.Model.Lex
/-! Lemmas about the tokenizer model (`A2lVerif/Model/Lex.lean`): bounds of the scanning loops,
    absence of panics, and the loop invariant of `tokenize_core`.  Core Lean only. -/

namespace A2l.Lex

/-! ### character classes -/

theorem isWs_ascii {c : UInt8} (h : isWs c = true) : c < 128 := by
  simp [isWs, UInt8.lt_iff_toNat_lt, ← UInt8.toNat_inj] at *; omega
theorem isIdentChar_ascii {c : UInt8} (h : isIdentChar c = true) : c < 128 ∧ c ≠ 32 := by
  simp [isIdentChar, isAlnum, isAlpha, isDigit, UInt8.le_iff_toNat_le, UInt8.lt_iff_toNat_lt,
    ← UInt8.toNat_inj] at *
  omega
theorem isPathChar_ascii {c : UInt8} (h : isPathChar c = true) : c < 128 ∧ c ≠ 32 := by
  simp [isPathChar, isIdentChar, isAlnum, isAlpha, isDigit, UInt8.le_iff_toNat_le, UInt8.lt_iff_toNat_lt,
    ← UInt8.toNat_inj] at *
  omega
theorem isNumChar_ascii {c : UInt8} (h : isNumChar c = true) : c < 128 ∧ c ≠ 32 := by
  simp [isNumChar, isHexDigit, isDigit, UInt8.le_iff_toNat_le, UInt8.lt_iff_toNat_lt, ← UInt8.toNat_inj] at *
  omega
theorem isAlpha_identChar {c : UInt8} (h : (isAlpha c || c == 95) = true) : isIdentChar c = true := by
  simp [isIdentChar, isAlnum] at *; rcases h with h | h <;> simp [h]
theorem minus_numChar {c : UInt8} (h : (c == 45 || isNumChar c) = true) : isNumChar c = true := by
  simp at h; rcases h with h | h
  · subst h; decide
  · exact h
theorem isIdentChar_pathChar {c : UInt8} (h : isIdentChar c = true) : isPathChar c = true := by
  simp [isPathChar, h]

/-! ### getElem? helpers -/

theorem getElem?_some_lt {b : Bytes} {i : Nat} {c : UInt8} (h : b[i]? = some c) : i < b.size := by
  have := Array.getElem?_eq_some_iff.mp h; exact this.1

theorem getElem?_of_lt {α} {b : Array α} {i : Nat} (h : i < b.size) : b[i]? = some b[i] :=
  Array.getElem?_eq_getElem h

/-! ### skipWhile -/

theorem skipWhile_le (b : Bytes) (p) (pos : Nat) (h : pos ≤ b.size) : skipWhile b p pos ≤ b.size := by
  fun_induction skipWhile b p pos <;> omega

theorem skipWhile_gt (b : Bytes) (p) (pos : Nat) (h : pos < b.size) (hp : p b[pos] = true) :
    pos < skipWhile b p pos := by
  rw [skipWhile]; simp [h, hp]
  have := skipWhile_ge b p (pos + 1); omega

/-- every byte passed over satisfies `p` -/
theorem skipWhile_all (b : Bytes) (p) (pos : Nat) :
    ∀ q, pos ≤ q → q < skipWhile b p pos → ∃ c, b[q]? = some c ∧ p c = true := by
  fun_induction skipWhile b p pos with
  | case1 pos h hp ih =>
    intro q hq hlt
    by_cases hqe : q = pos
    · subst hqe; exact ⟨_, getElem?_of_lt h, hp⟩
    · exact ih q (by omega) hlt
  | case2 => intro q h1 h2; omega
  | case3 => intro q h1 h2; omega

/-- the scan stops at the end of input or at a byte that does not satisfy `p` -/
theorem skipWhile_stop (b : Bytes) (p) (pos : Nat) (hle : pos ≤ b.size) :
    skipWhile b p pos = b.size ∨ ∃ c, b[skipWhile b p pos]? = some c ∧ p c = false := by
  fun_induction skipWhile b p pos with
  | case1 pos h hp ih => exact ih (by omega)
  | case2 pos h hp => right; exact ⟨_, getElem?_of_lt h, by simpa using hp⟩
  | case3 pos hn => left; omega

/-- the scan cannot pass a byte that does not satisfy `p` -/
theorem skipWhile_le_of_stop (b : Bytes) (p) (pos e : Nat) (hpe : pos ≤ e)
    (he : b.size ≤ e ∨ ∃ c, b[e]? = some c ∧ p c = false) : skipWhile b p pos ≤ e := by
  fun_induction skipWhile b p pos with
  | case1 pos h hp ih =>
    apply ih
    by_cases hq : pos = e
    · subst hq
      rcases he with he | ⟨c, hc, hpc⟩
      · omega
      · rw [getElem?_of_lt h] at hc; cases hc; simp [hp] at hpc
    · omega
  | case2 => exact hpe
  | case3 => exact hpe

/-- the last byte passed over satisfies `p` -/
theorem skipWhile_last (b : Bytes) (p) (pos : Nat) (h : pos < skipWhile b p pos) :
    ∃ c, b[skipWhile b p pos - 1]? = some c ∧ p c = true :=
  skipWhile_all b p pos _ (by omega) (by omega)

/-! ### slices -/

theorem slice_ok {b : Bytes} {a e : Nat} (h1 : a ≤ e) (h2 : e ≤ b.size) : ∃ s, slice b a e = .ok s := by
  simp [slice, h1, h2]

theorem countNewlines_ok {b : Bytes} {a e : Nat} (h1 : a ≤ e) (h2 : e ≤ b.size) :
    ∃ n, countNewlines b a e = .ok n := by
  simp [countNewlines, slice, h1, h2]

/-- number of newline bytes (10) in `b[a..e)`; total version of the model's `countNewlines` -/
def nlCount (b : Bytes) (a e : Nat) : Nat :=
  (b.extract a e).foldl (fun n c => n + (if c == 10 then 1 else 0)) 0

/-- the model's `count_newlines(&filebytes[a..e])` is `nlCount` whenever the slice is in range -/
theorem countNewlines_eq {b : Bytes} {a e : Nat} (h1 : a ≤ e) (h2 : e ≤ b.size) :
    countNewlines b a e = .ok (nlCount b a e) := by
  simp [countNewlines, slice, h1, h2, nlCount]

theorem nlCount_self (b : Bytes) (a : Nat) : nlCount b a a = 0 := by
  unfold nlCount; rw [Array.extract_empty_of_stop_le_start (Nat.le_refl _)]; rfl

theorem nlCount_succ (b : Bytes) (a e : Nat) (h1 : a ≤ e) (h2 : e < b.size) :
    nlCount b a (e + 1) = nlCount b a e + (if b[e] == 10 then 1 else 0) := by
  unfold nlCount
  rw [Array.extract_succ_right (by omega) h2, Array.foldl_push]

theorem nlCount_add (b : Bytes) (a m e : Nat) (h1 : a ≤ m) (h2 : m ≤ e) (h3 : e ≤ b.size) :
    nlCount b a e = nlCount b a m + nlCount b m e := by
  obtain ⟨k, rfl⟩ : ∃ k, e = m + k := ⟨e - m, by omega⟩
  induction k with
  | zero => simp [nlCount_self]
  | succ k ih =>
    have := ih (by omega) (by omega)
    rw [← Nat.add_assoc, nlCount_succ b a (m + k) (by omega) (by omega),
      nlCount_succ b m (m + k) (by omega) (by omega), this]
    omega

/-- a range without newline bytes -/
theorem nlCount_zero (b : Bytes) (a e : Nat) (h3 : e ≤ b.size)
    (h : ∀ q, a ≤ q → q < e → ∃ c, b[q]? = some c ∧ c ≠ 10) : nlCount b a e = 0 := by
  by_cases hae : a ≤ e
  · obtain ⟨k, rfl⟩ : ∃ k, e = a + k := ⟨e - a, by omega⟩
    induction k with
    | zero => simp [nlCount_self]
    | succ k ih =>
      have h0 := ih (by omega) (fun q h1 h2 => h q h1 (by omega)) (by omega)
      rw [← Nat.add_assoc, nlCount_succ b a (a + k) (by omega) (by omega), h0]
      obtain ⟨c, hc, hne⟩ := h (a + k) (by omega) (by omega)
      rw [getElem?_of_lt (by omega : a + k < b.size)] at hc
      cases hc
      simp [hne]
  · simp [nlCount, Array.extract_empty_of_stop_le_start (by omega : e ≤ a)]

theorem matchAt_len (b : Bytes) (pos : Nat) (pat : List UInt8) (hle : pos ≤ b.size)
    (h : matchAt b pos pat = true) : pos + pat.length ≤ b.size := by
  induction pat generalizing pos with
  | nil => simpa using hle
  | cons c cs ih =>
    simp [matchAt] at h
    have := ih (pos + 1) (by have := getElem?_some_lt h.1; omega) h.2
    simp; omega

/-! ### comments -/

theorem commentStart_spec (b : Bytes) (p : Nat) (hp : p ≤ b.size) :
    ∃ cs, commentStart b p = .ok cs ∧ cs ≤ p ∧ ∀ q, cs ≤ q → q < p → b[q]? = some 32 := by
  induction p with
  | zero => exact ⟨0, rfl, Nat.le_refl _, fun q h1 h2 => by omega⟩
  | succ p ih =>
    have hlt : p < b.size := by omega
    rw [commentStart, getElem?_of_lt hlt]
    by_cases hc : b[p] = 32
    · obtain ⟨cs, h1, h2, h3⟩ := ih (by omega)
      refine ⟨cs, by simp [hc, h1], by omega, ?_⟩
      intro q hq1 hq2
      by_cases hqp : q = p
      · subst hqp; rw [getElem?_of_lt hlt, hc]
      · exact h3 q hq1 (by omega)
    · exact ⟨p + 1, by simp [hc], Nat.le_refl _, fun q h1 h2 => by omega⟩

/-- a non-blank byte below `p` stops the backward scan -/
theorem commentStart_barrier {b : Bytes} {p cs q : Nat} {c : UInt8} (h : commentStart b p = .ok cs)
    (hp : p ≤ b.size) (hq : q < p) (hc : b[q]? = some c) (hne : c ≠ 32) : q < cs := by
  obtain ⟨cs', h1, _, h3⟩ := commentStart_spec b p hp
  rw [h] at h1; cases h1
  apply Nat.lt_of_not_le; intro hle
  have := h3 q hle hq
  rw [hc] at this; cases this; exact hne rfl

theorem commentLoop_spec (b : Bytes) (pos : Nat) (h1 : 1 ≤ pos) :
    ∃ p, commentLoop b pos = .ok p ∧ pos ≤ p ∧ (p < b.size → b[p]? = some 47) := by
  fun_induction commentLoop b pos with
  | case1 => omega
  | case2 pos hlt hne hnone =>
    have : pos - 1 < b.size := by omega
    simp at hnone; omega
  | case3 pos hlt hne prev hprev hc =>
    refine ⟨pos, rfl, Nat.le_refl _, fun _ => ?_⟩
    simp at hc; rw [getElem?_of_lt hlt, hc.2]
  | case4 pos hlt hne prev hprev hc ih =>
    obtain ⟨p, h2, h3, h4⟩ := ih (by omega)
    exact ⟨p, h2, by omega, h4⟩
  | case5 pos hn => exact ⟨pos, rfl, Nat.le_refl _, fun h => by omega⟩

theorem findBlockCommentEnd_spec (b : Bytes) (pos : Nat) :
    match findBlockCommentEnd b pos with
    | .panic => False
    | .err => True
    | .ok q => pos + 2 ≤ q ∧ q ≤ b.size ∧ b[q - 1]? = some 47 := by
  obtain ⟨p, h1, h2, h3⟩ := commentLoop_spec b (pos + 1) (by omega)
  simp only [findBlockCommentEnd, h1]
  by_cases hp : p ≥ b.size
  · simp [hp]
  · simp only [hp, if_false]
    refine ⟨by omega, by omega, ?_⟩
    simpa using h3 (by omega)

/-! ### strings -/

/-- postcondition of `stringLoop` started at `pos` with `end_found = ef` -/
structure StrPost (b : Bytes) (pos : Nat) (ef : Bool) (r : Nat × Bool × Bool) : Prop where
  ge : pos ≤ r.1
  le : pos ≤ b.size → r.1 ≤ b.size
  quote : r.2.2 = true → 1 ≤ r.1 ∧ b[r.1 - 1]? = some 34
  found : r.2.1 = true → 2 ≤ r.1 ∧ b[r.1 - 2]? = some 34
  prog : ef = false → r.2.1 = true → pos < r.1
  exit : r.2.1 = false → b.size ≤ r.1

theorem StrPost.lift {b : Bytes} {pos : Nat} {ef ef' : Bool} {r} (hlt : pos < b.size)
    (ih : StrPost b (pos + 1) ef' r) : StrPost b pos ef r :=
  ⟨by have := ih.ge; omega, fun _ => ih.le (by omega), ih.quote, ih.found,
    fun _ _ => by have := ih.ge; omega, ih.exit⟩

theorem stringLoop_spec (b : Bytes) (pos : Nat) (ef pq bk : Bool)
    (hq : pq = true → 1 ≤ pos ∧ b[pos - 1]? = some 34)
    (he : ef = true → 2 ≤ pos ∧ b[pos - 2]? = some 34) :
    StrPost b pos ef (stringLoop b pos ef pq bk) := by
  fun_induction stringLoop b pos ef pq bk with
  | case1 pos ef pq bk h hc ih =>
    exact .lift h.1 (ih (by intro _; simp at hc; simp [getElem?_of_lt h.1, hc]) (by intro h'; simp [h.2] at h'))
  | case2 pos ef bk h hc ih =>
    exact .lift h.1 (ih (by simp) (by intro _; simpa using hq rfl))
  | case3 pos ef pq h hc hpq hc2 ih =>
    exact .lift h.1 (ih (by simp) (by intro h'; simp [h.2] at h'))
  | case4 pos ef pq bk h hc hpq hc2 hbk ih =>
    exact .lift h.1 (ih (by simp) (by intro h'; simp [h.2] at h'))
  | case5 pos ef pq bk h hc hpq hc2 ih =>
    exact .lift h.1 (ih (by simp) (by intro h'; simp [h.2] at h'))
  | case6 pos ef pq bk h =>
    refine ⟨Nat.le_refl _, fun h => h, hq, he, fun h1 h2 => by simp [h1] at h2, ?_⟩
    intro h'; simp only at h'; simp [h'] at h; exact h

theorem findStringEnd_spec (b : Bytes) (pos : Nat) (hpos : pos ≤ b.size) :
    match findStringEnd b pos with
    | .panic => False
    | .err => True
    | .ok q => pos ≤ q ∧ q ≤ b.size ∧ 1 ≤ q ∧ b[q - 1]? = some 34 := by
  have := stringLoop_spec b pos false false false (by simp) (by simp)
  unfold findStringEnd
  generalize stringLoop b pos false false false = r at this
  obtain ⟨p, ef, pq⟩ := r
  simp only at this ⊢
  have hge := this.ge; have hle := this.le hpos
  have hquote := this.quote; have hfound := this.found; have hprog := this.prog; have hexit := this.exit
  simp only at hge hle hquote hfound hprog hexit
  by_cases h1 : p = b.size ∧ ef = false
  · rw [if_pos h1]
    cases pq with
    | false => simp
    | true =>
      have := hquote rfl
      simp only [if_true]
      exact ⟨hge, hle, this.1, this.2⟩
  · rw [if_neg h1]
    cases ef with
    | false =>
      have := hexit rfl
      exact absurd ⟨by omega, rfl⟩ h1
    | true =>
      have h2 := hfound rfl
      have h3 := hprog trivial rfl
      have hp0 : ¬ p = 0 := by omega
      rw [if_neg hp0]
      refine ⟨by omega, by omega, by omega, ?_⟩
      have : p - 1 - 1 = p - 2 := by omega
      rw [this]; exact h2.2

/-! ### handle_a2ml -/

theorem startsWith_ne_panic {b : Bytes} {pos : Nat} {pat} (h : pos ≤ b.size) : startsWith b pos pat ≠ .panic := by
  simp [startsWith, h]

theorem startsWith_true {b : Bytes} {pos : Nat} {pat} (h : startsWith b pos pat = .ok true) :
    matchAt b pos pat = true := by
  unfold startsWith at h; split at h
  · injection h
  · cases h

theorem a2mlBlockLoop_spec (b : Bytes) (pos : Nat) : ∃ q, a2mlBlockLoop b pos = .ok q ∧ pos ≤ q := by
  fun_induction a2mlBlockLoop b pos with
  | case1 x hx c0 c1 h1 h0 hc => exact ⟨x, rfl, Nat.le_refl _⟩
  | case2 x hx c0 c1 h1 h0 hc ih => obtain ⟨q, h2, h3⟩ := ih; exact ⟨q, h2, by omega⟩
  | case3 x hx hnone =>
    exact absurd (hnone b[x] b[x + 1] (getElem?_of_lt (by omega)) (getElem?_of_lt (by omega))) id
  | case4 x hx => exact ⟨x, rfl, Nat.le_refl _⟩

theorem a2mlLoop_spec (b : Bytes) (pos : Nat) (hle : pos ≤ b.size) :
    ∃ q, a2mlLoop b pos = .ok q ∧ pos ≤ q ∧ q ≤ b.size ∧ (q = b.size ∨ matchAt b q kwSlashEnd = true) := by
  fun_induction a2mlLoop b pos with
  | case1 x hx p1 h =>
    exact absurd h (startsWith_ne_panic (skipWhile_le b notSlash x hle))
  | case2 x hx p1 h ih =>
    have h1 := skipWhile_ge b notSlash x
    have h2 := matchAt_len b p1 _ (skipWhile_le b notSlash x hle) (startsWith_true h)
    simp only [kwSlashSlash, List.length_cons, List.length_nil] at h2
    have h3 := skipWhile_ge b notNewline (p1 + 2)
    obtain ⟨q, h4, h5, h6, h7⟩ := ih (skipWhile_le b notNewline (p1 + 2) (by omega))
    exact ⟨q, h4, by omega, h6, h7⟩
  | case3 x hx p1 h h' =>
    exact absurd h' (startsWith_ne_panic (skipWhile_le b notSlash x hle))
  | case4 x hx p1 h h' h0 => omega
  | case5 x hx p1 h h' h0 hp =>
    obtain ⟨q, h2, _⟩ := a2mlBlockLoop_spec b (p1 + 2)
    rw [h2] at hp; cases hp
  | case6 x hx p1 h h' h0 p2 hp2 ih =>
    have h1 := skipWhile_ge b notSlash x
    have h2 := a2mlBlockLoop_ge b _ _ hp2
    have : x ≤ (if _h : p2 + 2 > b.size then b.size else p2 + 2) ∧
        (if _h : p2 + 2 > b.size then b.size else p2 + 2) ≤ b.size := by split <;> omega
    obtain ⟨q, h4, h5, h6, h7⟩ := ih this.2
    exact ⟨q, h4, by omega, h6, h7⟩
  | case7 x hx p1 h h' h'' =>
    exact absurd h'' (startsWith_ne_panic (skipWhile_le b notSlash x hle))
  | case8 x hx p1 h h' h'' =>
    exact ⟨p1, rfl, skipWhile_ge b notSlash x, skipWhile_le b notSlash x hle, Or.inr (startsWith_true h'')⟩
  | case9 x hx p1 h h' h'' hp1 ih =>
    have h1 := skipWhile_ge b notSlash x
    obtain ⟨q, h4, h5, h6, h7⟩ := ih (by omega)
    exact ⟨q, h4, by omega, h6, h7⟩
  | case10 x hx p1 h h' h'' hp1 =>
    have h1 := skipWhile_ge b notSlash x
    have h2 := skipWhile_le b notSlash x hle
    exact ⟨p1, rfl, h1, h2, Or.inl (by omega)⟩
  | case11 x hx => exact ⟨x, rfl, Nat.le_refl _, hle, Or.inl (by omega)⟩

/-- all bytes in `[p, e)` are ASCII whitespace -/
def WsRange (b : Bytes) (p e : Nat) : Prop := ∀ r, p ≤ r → r < e → ∃ c, b[r]? = some c ∧ isWs c = true

/-- from `p` on there is only whitespace up to the end of input or up to `/end` -/
def Ahead (b : Bytes) (p : Nat) : Prop :=
  ∃ e, p ≤ e ∧ e ≤ b.size ∧ WsRange b p e ∧ (e = b.size ∨ matchAt b e kwSlashEnd = true)

theorem WsRange.extend {b : Bytes} {q p e : Nat} (h1 : WsRange b q p) (h2 : WsRange b p e) : WsRange b q e := by
  intro r hr1 hr2
  by_cases h : r < p
  · exact h1 r hr1 h
  · exact h2 r (by omega) hr2

theorem trimLoop_spec (b : Bytes) (startpos p : Nat) (h1 : startpos ≤ p) (h2 : p ≤ b.size) :
    ∃ q, trimLoop b startpos p = .ok q ∧ startpos ≤ q ∧ q ≤ p ∧ WsRange b q p := by
  fun_induction trimLoop b startpos p with
  | case1 x hx hnone => simp at hnone; omega
  | case2 x hx c hc hws ih =>
    obtain ⟨q, h3, h4, h5, h6⟩ := ih (by omega) (by omega)
    refine ⟨q, h3, h4, by omega, ?_⟩
    intro r hr1 hr2
    by_cases h : r < x - 1
    · exact h6 r hr1 h
    · have : r = x - 1 := by omega
      subst this
      simp at hws
      exact ⟨c, hc, hws.1.1⟩
  | case3 x hx c hc hws => exact ⟨x, rfl, by omega, Nat.le_refl _, fun r h1 h2 => by omega⟩
  | case4 x hx => exact ⟨x, rfl, by omega, Nat.le_refl _, fun r h1 h2 => by omega⟩

theorem trimNewline_spec (b : Bytes) (startpos p : Nat) (h1 : startpos ≤ p) (h2 : p ≤ b.size) :
    ∃ q, trimNewline b startpos p = .ok q ∧ startpos ≤ q ∧ q ≤ p ∧ WsRange b q p := by
  unfold trimNewline
  by_cases hp : p > startpos
  · rw [if_pos hp, getElem?_of_lt (by omega : p - 1 < b.size)]
    simp only
    have hcr : (b[p - 1] == 13 && b[p - 1] == 10) = false := by
      cases h : b[p - 1] == 13
      · rfl
      · simp at h; simp [h]
    rw [hcr]
    simp only [Bool.false_eq_true, if_false]
    by_cases hnl : b[p - 1] = 10
    · refine ⟨p - 1, by simp [hnl], by omega, by omega, ?_⟩
      intro r hr1 hr2
      have : r = p - 1 := by omega
      subst this
      exact ⟨_, getElem?_of_lt (by omega), by rw [hnl]; decide⟩
    · exact ⟨p, by simp [hnl], by omega, Nat.le_refl _, fun r h1 h2 => by omega⟩
  · rw [if_neg hp]
    exact ⟨p, rfl, h1, Nat.le_refl _, fun r h1 h2 => by omega⟩

theorem a2mlBody_spec (b : Bytes) (startpos : Nat) (h : startpos ≤ b.size) :
    ∃ q, a2mlBody b startpos = .ok q ∧ startpos ≤ q ∧ q ≤ b.size ∧ Ahead b q := by
  obtain ⟨p1, h1, h2, h3, h4⟩ := a2mlLoop_spec b startpos h
  obtain ⟨p2, h5, h6, h7, h8⟩ := trimLoop_spec b startpos p1 h2 h3
  obtain ⟨p3, h9, h10, h11, h12⟩ := trimNewline_spec b startpos p2 h6 (by omega)
  refine ⟨p3, by simp [a2mlBody, h1, h5, h9], h10, by omega, p1, by omega, h3, h12.extend h8, h4⟩

theorem handleA2ml_spec (b : Bytes) (bytepos line : Nat) (tokens : Array Token) (hpos : bytepos ≤ b.size)
    (hlast : ∀ t, tokens[tokens.size - 1]? = some t → t.startpos ≤ t.endpos ∧ t.endpos ≤ b.size) :
    ∃ bp' line' toks', handleA2ml b bytepos line tokens = .ok (bp', line', toks') ∧
      ((bp' = bytepos ∧ line' = line ∧ toks' = tokens) ∨
       (bytepos < bp' ∧ bp' ≤ b.size ∧ line ≤ line' ∧ Ahead b bp' ∧
        toks' = tokens.push { ttype := .string, startpos := bytepos, endpos := bp', line := line })) := by
  unfold handleA2ml
  simp only
  by_cases hsz : tokens.size ≥ 2
  · have hl := hlast _ (getElem?_of_lt (by omega : tokens.size - 1 < tokens.size))
    rw [if_pos hsz, getElem?_of_lt (by omega : tokens.size - 2 < tokens.size)]
    simp only
    split
    · rw [getElem?_of_lt (by omega : tokens.size - 1 < tokens.size)]
      simp only
      obtain ⟨tag, htag⟩ := slice_ok hl.1 hl.2
      rw [htag]
      simp only
      have hbody : ∃ q, (if tag == tagA2ml then a2mlBody b bytepos else Out.ok bytepos) = .ok q ∧
          bytepos ≤ q ∧ q ≤ b.size ∧ (bytepos < q → Ahead b q) := by
        split
        · obtain ⟨q, h1, h2, h3, h4⟩ := a2mlBody_spec b bytepos hpos
          exact ⟨q, h1, h2, h3, fun _ => h4⟩
        · exact ⟨bytepos, rfl, Nat.le_refl _, hpos, fun h => by omega⟩
      obtain ⟨q, h1, h2, h3, h4⟩ := hbody
      rw [h1]
      simp only
      by_cases hq : q > bytepos
      · rw [if_pos hq]
        obtain ⟨n, hn⟩ := countNewlines_ok h2 h3
        rw [hn]
        exact ⟨_, _, _, rfl, Or.inr ⟨hq, h3, by omega, h4 hq, rfl⟩⟩
      · rw [if_neg hq]
        have : q = bytepos := by omega
        subst this
        exact ⟨_, _, _, rfl, Or.inl ⟨rfl, rfl, rfl⟩⟩
    · exact ⟨_, _, _, rfl, Or.inl ⟨rfl, rfl, rfl⟩⟩
  · rw [if_neg hsz]; exact ⟨_, _, _, rfl, Or.inl ⟨rfl, rfl, rfl⟩⟩

/-! ### char boundaries -/

/-- `p` is a char boundary of the text: the end of input, or not a UTF-8 continuation byte -/
def Bnd (b : Bytes) (p : Nat) : Prop := p = b.size ∨ ∃ c, b[p]? = some c ∧ ¬ (0x80 ≤ c ∧ c < 0xC0)

/-- a continuation byte never follows an ASCII byte and is never the first byte (consequence of UTF-8 validity) -/
def Utf8Ok (b : Bytes) : Prop :=
  ∀ p (h : p < b.size), 0x80 ≤ b[p] ∧ b[p] < 0xC0 → 0 < p ∧ 0x80 ≤ b[p - 1]

theorem not_cont_of_ascii {c : UInt8} (h : c < 128) : ¬ (0x80 ≤ c ∧ c < 0xC0) := by
  simp [UInt8.le_iff_toNat_le, UInt8.lt_iff_toNat_lt] at *; omega

theorem Bnd.of_ascii {b : Bytes} {p : Nat} {c : UInt8} (h : b[p]? = some c) (hc : c < 128) : Bnd b p :=
  Or.inr ⟨c, h, not_cont_of_ascii hc⟩

theorem Bnd.after_ascii {b : Bytes} {p : Nat} {c : UInt8} (hu : Utf8Ok b) (hp : p ≤ b.size) (h1 : 1 ≤ p)
    (h : b[p - 1]? = some c) (hc : c < 128) : Bnd b p := by
  by_cases hps : p = b.size
  · exact Or.inl hps
  · have hlt : p < b.size := by omega
    refine Or.inr ⟨b[p], getElem?_of_lt hlt, fun hcont => ?_⟩
    have := (hu p hlt hcont).2
    rw [getElem?_of_lt (by omega : p - 1 < b.size)] at h
    cases h
    simp [UInt8.le_iff_toNat_le, UInt8.lt_iff_toNat_lt] at this hc; omega

/-- `str::is_char_boundary` -/
def IsCharBoundary (b : Bytes) (p : Nat) : Prop :=
  p ≤ b.size ∧ ∀ h : p < b.size, ¬ (0x80 ≤ b[p] ∧ b[p] < 0xC0)

theorem Bnd.isCharBoundary {b : Bytes} {p : Nat} (h : Bnd b p) : IsCharBoundary b p := by
  rcases h with h | ⟨c, hc, hcont⟩
  · exact ⟨by omega, fun h' => by omega⟩
  · have hlt := getElem?_some_lt hc
    refine ⟨by omega, fun h' => ?_⟩
    rw [getElem?_of_lt hlt] at hc; cases hc; exact hcont

/-! ### the loop invariant -/

/-- no comment that starts at or after `p` reaches back below `lo` -/
def OKFrom (b : Bytes) (lo p : Nat) : Prop :=
  ∀ p', p ≤ p' → b[p']? = some 47 → (b[p' + 1]? = some 42 ∨ b[p' + 1]? = some 47) →
    ∀ cs, commentStart b p' = .ok cs → lo ≤ cs

theorem OKFrom.mono {b : Bytes} {lo p p2 : Nat} (h : OKFrom b lo p) (hp : p ≤ p2) : OKFrom b lo p2 :=
  fun p' h1 h2 h3 cs h4 => h p' (by omega) h2 h3 cs h4

theorem OKFrom.of_barrier {b : Bytes} {lo p q : Nat} {c : UInt8} (hq : q < p) (hlo : lo ≤ q + 1)
    (hc : b[q]? = some c) (hne : c ≠ 32) : OKFrom b lo p := by
  intro p' h1 h2 h3 cs h4
  have := commentStart_barrier h4 (by have := getElem?_some_lt h2; omega) (by omega) hc hne
  omega

/-- the scan position is at the end of input or at a byte that is neither `/` nor a blank -/
theorem OKFrom.of_stop {b : Bytes} {lo p : Nat} (hlo : lo ≤ p)
    (h : p = b.size ∨ ∃ c, b[p]? = some c ∧ c ≠ 47 ∧ c ≠ 32) : OKFrom b lo p := by
  intro p' h1 h2 h3 cs h4
  have hp' := getElem?_some_lt h2
  rcases h with h | ⟨c, hc, hc1, hc2⟩
  · omega
  · by_cases hpp : p' = p
    · subst hpp; rw [hc] at h2; cases h2; exact absurd rfl hc1
    · have := commentStart_barrier h4 (by omega) (by omega : p < p') hc hc2
      omega

theorem OKFrom.of_ahead {b : Bytes} {lo p : Nat} (hlo : lo ≤ p) (h : Ahead b p) : OKFrom b lo p := by
  intro p' h1 h2 h3 cs h4
  have hp' := getElem?_some_lt h2
  obtain ⟨e, he1, he2, hws, hend⟩ := h
  by_cases hlt : p' < e
  · obtain ⟨c, hc, hcw⟩ := hws p' h1 hlt
    rw [hc] at h2; cases h2; exact absurd hcw (by decide)
  · rcases hend with hend | hend
    · omega
    · simp [matchAt, kwSlashEnd] at hend
      by_cases hpe : p' = e
      · subst hpe
        rw [hend.2.1] at h3; simp at h3
      · have := commentStart_barrier h4 (by omega) (by omega : e < p') hend.1 (by decide)
        omega

structure Inv (b : Bytes) (s : State) (hi : Nat) : Prop where
  pos_le : s.bytepos ≤ b.size
  line_pos : 1 ≤ s.line
  hi_le : hi ≤ s.bytepos
  toks : ∀ t ∈ s.tokens.toList, t.startpos < t.endpos ∧ t.endpos ≤ hi ∧ t.line ≤ s.line ∧ 1 ≤ t.line
  cl : ∀ t ∈ s.tokens.toList, t.ttype = .comment → t.line + nlCount b t.startpos t.endpos ≤ s.line
  clp : s.tokens.toList.Pairwise (fun a c => a.ttype = .comment → a.line + nlCount b a.startpos a.endpos ≤ c.line)
  lines : s.tokens.toList.Pairwise (fun a c => a.line ≤ c.line)
  disj : s.tokens.toList.Pairwise (fun a c => a.endpos ≤ c.startpos)
  safe : OKFrom b hi s.bytepos
  bnd : Utf8Ok b → ∀ t ∈ s.tokens.toList, Bnd b t.startpos ∧ Bnd b t.endpos

theorem Inv.move {b : Bytes} {s : State} {hi : Nat} (inv : Inv b s hi) (p' line' : Nat) (sep : Bool)
    (h1 : s.bytepos ≤ p') (h2 : p' ≤ b.size) (h3 : s.line ≤ line') :
    Inv b { tokens := s.tokens, bytepos := p', separated := sep, line := line' } hi where
  pos_le := h2
  line_pos := by have := inv.line_pos; simp only; omega
  hi_le := by have := inv.hi_le; simp only; omega
  toks := fun t ht => by have := inv.toks t ht; simp only; omega
  cl := fun t ht hc => by have := inv.cl t ht hc; simp only; omega
  clp := inv.clp
  lines := inv.lines
  disj := inv.disj
  safe := inv.safe.mono h1
  bnd := inv.bnd

theorem Inv.push {b : Bytes} {s : State} {hi : Nat} (inv : Inv b s hi) (tt : TokType) (st en ln p' line' : Nat)
    (sep : Bool) (h1 : hi ≤ st) (h2 : st < en) (h3 : en ≤ p') (h4 : p' ≤ b.size) (h5 : s.line ≤ ln)
    (h6 : ln ≤ line') (h7 : OKFrom b en p') (h8 : Utf8Ok b → Bnd b st ∧ Bnd b en)
    (h9 : tt = .comment → ln + nlCount b st en ≤ line') :
    Inv b { tokens := s.tokens.push { ttype := tt, startpos := st, endpos := en, line := ln },
            bytepos := p', separated := sep, line := line' } en where
  pos_le := h4
  line_pos := by have := inv.line_pos; simp only; omega
  hi_le := h3
  toks := by
    intro t ht
    simp only [Array.toList_push, List.mem_append, List.mem_singleton] at ht
    rcases ht with ht | ht
    · have := inv.toks t ht; simp only; omega
    · subst ht; have := inv.line_pos; simp only; omega
  cl := by
    intro t ht hc
    simp only [Array.toList_push, List.mem_append, List.mem_singleton] at ht
    rcases ht with ht | ht
    · have := inv.cl t ht hc; simp only; omega
    · subst ht; exact h9 hc
  clp := by
    simp only [Array.toList_push, List.pairwise_append]
    refine ⟨inv.clp, List.pairwise_singleton _ _, ?_⟩
    intro a ha c hc hcm
    simp only [List.mem_singleton] at hc; subst hc
    have := inv.cl a ha hcm; simp only; omega
  lines := by
    simp only [Array.toList_push, List.pairwise_append]
    refine ⟨inv.lines, List.pairwise_singleton _ _, ?_⟩
    intro a ha c hc
    simp only [List.mem_singleton] at hc; subst hc
    have := inv.toks a ha; simp only; omega
  disj := by
    simp only [Array.toList_push, List.pairwise_append]
    refine ⟨inv.disj, List.pairwise_singleton _ _, ?_⟩
    intro a ha c hc
    simp only [List.mem_singleton] at hc; subst hc
    have := inv.toks a ha; simp only; omega
  safe := h7
  bnd := by
    intro hu t ht
    simp only [Array.toList_push, List.mem_append, List.mem_singleton] at ht
    rcases ht with ht | ht
    · exact inv.bnd hu t ht
    · subst ht; exact h8 hu

/-- push a token whose first byte is ASCII and whose last byte is ASCII and not a blank; the scan position is
    the end of the token -/
theorem Inv.push_simple {b : Bytes} {s : State} {hi : Nat} (inv : Inv b s hi) (tt : TokType)
    (st en ln line' : Nat) (sep : Bool) (h1 : hi ≤ st) (h2 : st < en) (h4 : en ≤ b.size) (h5 : s.line ≤ ln)
    (h6 : ln ≤ line') (hfirst : ∃ c, b[st]? = some c ∧ c < 128)
    (hlast : ∃ c, b[en - 1]? = some c ∧ c < 128 ∧ c ≠ 32)
    (h9 : tt = .comment → ln + nlCount b st en ≤ line') :
    Inv b { tokens := s.tokens.push { ttype := tt, startpos := st, endpos := en, line := ln },
            bytepos := en, separated := sep, line := line' } en := by
  obtain ⟨c0, hc0, hc0a⟩ := hfirst
  obtain ⟨c1, hc1, hc1a, hc1b⟩ := hlast
  exact inv.push tt st en ln en line' sep h1 h2 (Nat.le_refl _) h4 h5 h6
    (OKFrom.of_barrier (by omega : en - 1 < en) (by omega) hc1 hc1b)
    (fun hu => ⟨Bnd.of_ascii hc0 hc0a, Bnd.after_ascii hu h4 (by omega) hc1 hc1a⟩) h9

/-- what one iteration of the main loop guarantees -/
def Good (b : Bytes) (s : State) : StepRes → Prop
  | .cont s' => s.bytepos < s'.bytepos ∧ ∃ hi', Inv b s' hi'
  | .err _ l => 1 ≤ l
  | .panic => False

theorem invalidToken_good {b : Bytes} {s : State} {hi : Nat} (inv : Inv b s hi) :
    Good b s (invalidToken b s.bytepos s.line) := by
  unfold invalidToken
  simp only
  have hp := inv.pos_le
  obtain ⟨x, hx⟩ := slice_ok (b := b) (a := s.bytepos)
    (e := if s.bytepos + 10 < b.size then s.bytepos + 10 else b.size) (by split <;> omega) (by split <;> omega)
  rw [hx]; exact inv.line_pos

theorem stepKeyword_good {b : Bytes} {s : State} {hi : Nat} (inv : Inv b s hi) (len : Nat) (tt : TokType)
    (hlen : 1 ≤ len) (hend : s.bytepos + 1 + len ≤ b.size) (hc : b[s.bytepos]? = some 47)
    (hlast : ∃ c, b[s.bytepos + len]? = some c ∧ c < 128 ∧ c ≠ 32) (htt : tt ≠ .comment) :
    Good b s (stepKeyword s s.bytepos (s.bytepos + 1) len tt) := by
  unfold stepKeyword
  split
  · exact inv.line_pos
  · refine ⟨by simp only; omega, _, inv.push_simple tt s.bytepos (s.bytepos + 1 + len) s.line s.line false
      inv.hi_le (by omega) hend (Nat.le_refl _) (Nat.le_refl _) ⟨47, hc, by decide⟩ ?_ (fun h => absurd h htt)⟩
    have : s.bytepos + 1 + len - 1 = s.bytepos + len := by omega
    rw [this]; exact hlast

theorem stepSlash_good {b : Bytes} {s : State} {hi : Nat} (inv : Inv b s hi)
    (hc : b[s.bytepos]? = some 47) (h1 : s.bytepos + 1 < b.size) : Good b s (stepSlash b s) := by
  unfold stepSlash
  simp only
  rw [getElem?_of_lt h1]
  simp only
  obtain ⟨cs, hcs, hcs1, hcs2⟩ := commentStart_spec b s.bytepos inv.pos_le
  have hfirst : ∃ c, b[cs]? = some c ∧ c < 128 := by
    by_cases h : cs = s.bytepos
    · rw [h]; exact ⟨47, hc, by decide⟩
    · exact ⟨32, hcs2 cs (Nat.le_refl _) (by omega), by decide⟩
  split
  · -- block comment
    rename_i hstar
    have hstar : b[s.bytepos + 1] = 42 := by simpa using hstar
    have hcs3 : hi ≤ cs := inv.safe s.bytepos (Nat.le_refl _) hc
      (Or.inl (by rw [getElem?_of_lt h1, hstar])) cs hcs
    have := findBlockCommentEnd_spec b (s.bytepos + 1 + 1)
    split
    · rename_i h; rw [h] at this; exact this
    · exact inv.line_pos
    · rename_i q h; rw [h] at this
      rw [hcs]
      simp only
      rw [countNewlines_eq (b := b) (a := s.bytepos) (e := q) (by omega) this.2.1]
      simp only
      have hnl : nlCount b cs q = nlCount b s.bytepos q := by
        rw [nlCount_add b cs s.bytepos q hcs1 (by omega) this.2.1,
          nlCount_zero b cs s.bytepos inv.pos_le (fun r h1 h2 => ⟨32, hcs2 r h1 h2, by decide⟩)]
        omega
      exact ⟨by simp only; omega, _, inv.push_simple .comment cs q s.line (s.line + nlCount b s.bytepos q) true hcs3
        (by omega) this.2.1 (Nat.le_refl _) (by omega) hfirst ⟨47, this.2.2, by decide, by decide⟩
        (fun _ => by rw [hnl]; exact Nat.le_refl _)⟩
  · split
    · -- line comment
      rename_i _ hsl
      have hsl : b[s.bytepos + 1] = 47 := by simpa using hsl
      have hcs3 : hi ≤ cs := inv.safe s.bytepos (Nat.le_refl _) hc
        (Or.inr (by rw [getElem?_of_lt h1, hsl])) cs hcs
      rw [hcs]
      simp only
      have hge := skipWhile_ge b notNewline (s.bytepos + 1)
      have hle := skipWhile_le b notNewline (s.bytepos + 1) (by omega)
      have hstop := skipWhile_stop b notNewline (s.bytepos + 1) (by omega)
      refine ⟨by simp only; omega, _, inv.push .comment cs _ s.line _ s.line true hcs3 (by omega) (Nat.le_refl _)
        hle (Nat.le_refl _) (Nat.le_refl _) (OKFrom.of_stop (Nat.le_refl _) ?_) ?_ ?_⟩
      rotate_left 2
      · intro _
        rw [nlCount_zero b cs _ hle]; exact Nat.le_refl _
        intro r hr1 hr2
        by_cases h : r < s.bytepos
        · exact ⟨32, hcs2 r hr1 h, by decide⟩
        · by_cases h' : r = s.bytepos
          · subst h'; exact ⟨47, hc, by decide⟩
          · obtain ⟨c, hc1, hc2⟩ := skipWhile_all b notNewline (s.bytepos + 1) r (by omega) hr2
            exact ⟨c, hc1, by simpa [notNewline] using hc2⟩
      · rcases hstop with h | ⟨c, h, hc'⟩
        · exact Or.inl h
        · have : c = 10 := by simpa [notNewline] using hc'
          subst this
          exact Or.inr ⟨10, h, by decide, by decide⟩
      · intro hu
        obtain ⟨c0, h0, h0a⟩ := hfirst
        refine ⟨Bnd.of_ascii h0 h0a, ?_⟩
        rcases hstop with h | ⟨c, h, hc'⟩
        · exact Or.inl h
        · have : c = 10 := by simpa [notNewline] using hc'
          subst this
          exact Bnd.of_ascii h (by decide)
    · -- keywords
      have hnp : ∀ pat, startsWith b (s.bytepos + 1) pat ≠ .panic := fun pat => startsWith_ne_panic (by omega)
      split
      · rename_i h; exact absurd h (hnp _)
      · rename_i h
        have hm := startsWith_true h
        have hl := matchAt_len b _ _ (by omega) hm
        simp [matchAt, kwBegin] at hm hl
        exact stepKeyword_good inv 5 .begin (by omega) (by omega) hc ⟨110, by simpa [Nat.add_assoc] using hm.2.2.2.2, by decide, by decide⟩ (by decide)
      · split
        · rename_i h; exact absurd h (hnp _)
        · rename_i h
          have hm := startsWith_true h
          have hl := matchAt_len b _ _ (by omega) hm
          simp [matchAt, kwEnd] at hm hl
          exact stepKeyword_good inv 3 .end_ (by omega) (by omega) hc ⟨100, by simpa [Nat.add_assoc] using hm.2.2, by decide, by decide⟩ (by decide)
        · split
          · rename_i h; exact absurd h (hnp _)
          · rename_i h
            have hm := startsWith_true h
            have hl := matchAt_len b _ _ (by omega) hm
            simp [matchAt, kwInclude] at hm hl
            exact stepKeyword_good inv 7 .include (by omega) (by omega) hc ⟨101, by simpa [Nat.add_assoc] using hm.2.2.2.2.2.2, by decide, by decide⟩ (by decide)
          · exact invalidToken_good inv

theorem stepString_good {b : Bytes} {s : State} {hi : Nat} (inv : Inv b s hi) (hlt : s.bytepos < b.size)
    (hc : b[s.bytepos]? = some 34) : Good b s (stepString b s) := by
  unfold stepString
  simp only
  split
  · exact inv.line_pos
  · have := findStringEnd_spec b (s.bytepos + 1) (by omega)
    split
    · rename_i h; rw [h] at this; exact this
    · exact inv.line_pos
    · rename_i q h; rw [h] at this
      obtain ⟨n, hn⟩ := countNewlines_ok (b := b) (a := s.bytepos) (e := q) (by omega) this.2.1
      rw [hn]
      simp only
      exact ⟨by simp only; omega, _, inv.push_simple .string s.bytepos q (s.line + n) (s.line + n) false
        inv.hi_le (by omega) this.2.1 (by omega) (Nat.le_refl _) ⟨34, hc, by decide⟩
        ⟨34, this.2.2.2, by decide, by decide⟩ nofun⟩

theorem stepPath_good {b : Bytes} {s : State} {hi : Nat} (inv : Inv b s hi) (hlt : s.bytepos < b.size)
    (hc : isIdentChar b[s.bytepos] = true) : Good b s (stepPath b s) := by
  unfold stepPath
  simp only
  split
  · exact inv.line_pos
  · have hgt := skipWhile_gt b isPathChar s.bytepos hlt (isIdentChar_pathChar hc)
    have hle := skipWhile_le b isPathChar s.bytepos inv.pos_le
    obtain ⟨c, hc1, hc2⟩ := skipWhile_last b isPathChar s.bytepos hgt
    exact ⟨hgt, _, inv.push_simple .identifier s.bytepos _ s.line s.line false
      inv.hi_le hgt hle (Nat.le_refl _) (Nat.le_refl _) ⟨_, getElem?_of_lt hlt, (isIdentChar_ascii hc).1⟩
      ⟨c, hc1, isPathChar_ascii hc2⟩ nofun⟩

theorem stepIdent_good {b : Bytes} {s : State} {hi : Nat} (inv : Inv b s hi) (hlt : s.bytepos < b.size)
    (hc : isIdentChar b[s.bytepos] = true) : Good b s (stepIdent b s) := by
  unfold stepIdent
  simp only
  split
  · exact inv.line_pos
  · have hgt := skipWhile_gt b isIdentChar s.bytepos hlt hc
    have hle := skipWhile_le b isIdentChar s.bytepos inv.pos_le
    obtain ⟨c, hc1, hc2⟩ := skipWhile_last b isIdentChar s.bytepos hgt
    have inv1 := inv.push_simple .identifier s.bytepos _ s.line s.line false
      inv.hi_le hgt hle (Nat.le_refl _) (Nat.le_refl _) ⟨_, getElem?_of_lt hlt, (isIdentChar_ascii hc).1⟩
      ⟨c, hc1, isIdentChar_ascii hc2⟩ nofun
    generalize hq : skipWhile b isIdentChar s.bytepos = q at *
    obtain ⟨bp', line', toks', h1, h2⟩ := handleA2ml_spec b q s.line
      (s.tokens.push { ttype := .identifier, startpos := s.bytepos, endpos := q, line := s.line }) hle
      (by intro t ht; simp at ht; subst ht; simp only; omega)
    rw [h1]
    simp only
    rcases h2 with ⟨h3, h4, h5⟩ | ⟨h3, h4, h5, h6, h7⟩
    · subst h3 h4 h5
      exact ⟨hgt, _, inv1.move _ _ _ (Nat.le_refl _) hle (Nat.le_refl _)⟩
    · subst h7
      refine ⟨by simp only; omega, _, inv1.push .string q bp' s.line bp' line' _ (Nat.le_refl _) h3 (Nat.le_refl _)
        h4 (Nat.le_refl _) h5 (OKFrom.of_ahead (Nat.le_refl _) h6) ?_ nofun⟩
      intro hu
      refine ⟨(inv1.bnd hu { ttype := .identifier, startpos := s.bytepos, endpos := q, line := s.line }
        (by simp)).2, ?_⟩
      obtain ⟨e, he1, he2, hws, hend⟩ := h6
      by_cases hbe : bp' < e
      · obtain ⟨c, hc, hcw⟩ := hws bp' (Nat.le_refl _) hbe
        exact Bnd.of_ascii hc (isWs_ascii hcw)
      · have : bp' = e := by omega
        subst this
        rcases hend with hend | hend
        · exact Or.inl hend
        · simp [matchAt, kwSlashEnd] at hend
          exact Bnd.of_ascii hend.1 (by decide)

theorem stepNumber_good {b : Bytes} {s : State} {hi : Nat} (inv : Inv b s hi) (hlt : s.bytepos < b.size)
    (hc : isNumChar b[s.bytepos] = true) : Good b s (stepNumber b s) := by
  unfold stepNumber
  simp only
  split
  · exact inv.line_pos
  · have hge := skipWhile_ge b isNumChar (s.bytepos + 1)
    have hle := skipWhile_le b isNumChar (s.bytepos + 1) (by omega)
    have hlast : ∃ c, b[skipWhile b isNumChar (s.bytepos + 1) - 1]? = some c ∧ isNumChar c = true := by
      by_cases h : s.bytepos + 1 < skipWhile b isNumChar (s.bytepos + 1)
      · exact skipWhile_last b isNumChar (s.bytepos + 1) h
      · have : skipWhile b isNumChar (s.bytepos + 1) - 1 = s.bytepos := by omega
        rw [this]; exact ⟨_, getElem?_of_lt hlt, hc⟩
    generalize skipWhile b isNumChar (s.bytepos + 1) = q at *
    have hfirst : ∃ c, b[s.bytepos]? = some c ∧ c < 128 := ⟨_, getElem?_of_lt hlt, (isNumChar_ascii hc).1⟩
    have hnum : Good b s (stepNumberTok b s q) := by
      unfold stepNumberTok
      simp only
      obtain ⟨number, hn⟩ := slice_ok (b := b) (a := s.bytepos) (e := q) (by omega) hle
      rw [hn]
      simp only
      split
      · exact inv.line_pos
      · obtain ⟨c, hc1, hc2⟩ := hlast
        exact ⟨by simp only; omega, _, inv.push_simple .number s.bytepos q s.line s.line false
          inv.hi_le (by omega) hle (Nat.le_refl _) (Nat.le_refl _) hfirst ⟨c, hc1, isNumChar_ascii hc2⟩ nofun⟩
    by_cases hq : q = b.size
    · rw [if_pos hq]; exact hnum
    · rw [if_neg hq]
      have hq' : q < b.size := by omega
      rw [getElem?_of_lt hq']
      simp only
      by_cases hid : isIdentChar b[q] = true
      · simp only [hid, Bool.not_true, dif_pos hq', if_true]
        have hgt := skipWhile_gt b isIdentChar q hq' hid
        have hle2 := skipWhile_le b isIdentChar q hle
        obtain ⟨c, hc1, hc2⟩ := skipWhile_last b isIdentChar q hgt
        exact ⟨by simp only; omega, _, inv.push_simple .identifier s.bytepos _ s.line s.line false
          inv.hi_le (by omega) hle2 (Nat.le_refl _) (Nat.le_refl _) hfirst ⟨c, hc1, isIdentChar_ascii hc2⟩ nofun⟩
      · have hid' : isIdentChar b[q] = false := by simpa using hid
        simp only [hid', Bool.not_false]
        exact hnum

theorem step_good {b : Bytes} {s : State} {hi : Nat} (inv : Inv b s hi) (hlt : s.bytepos < b.size) :
    Good b s (step b s) := by
  unfold step
  simp only
  rw [getElem?_of_lt hlt]
  simp only
  split
  · -- whitespace
    rename_i hws
    have hgt := skipWhile_gt b isWs s.bytepos hlt hws
    have hle := skipWhile_le b isWs s.bytepos inv.pos_le
    obtain ⟨n, hn⟩ := countNewlines_ok (b := b) (a := s.bytepos) (e := skipWhile b isWs s.bytepos) (by omega) hle
    rw [hn]
    exact ⟨hgt, _, inv.move _ _ _ (by omega) hle (by omega)⟩
  · split
    · rename_i _ h
      simp only [Bool.and_eq_true, beq_iff_eq, decide_eq_true_eq] at h
      exact stepSlash_good inv (by rw [getElem?_of_lt hlt, h.1]) h.2
    · split
      · rename_i _ _ h
        simp only [beq_iff_eq] at h
        exact stepString_good inv hlt (by rw [getElem?_of_lt hlt, h])
      · split
        · rename_i h
          exfalso
          split at h
          · cases h
          · rename_i hne
            cases hb : s.tokens.back? with
            | none => simp at hb; simp [hb] at hne
            | some t => simp [hb] at h
        · rename_i h
          split at h
          · cases h
          · cases hb : s.tokens.back? with
            | none => simp [hb] at h
            | some t =>
              simp [hb] at h
              exact stepPath_good inv hlt h.2
        · split
          · rename_i _ h
            exact stepIdent_good inv hlt (isAlpha_identChar h)
          · split
            · rename_i _ _ h
              exact stepNumber_good inv hlt (minus_numChar h)
            · exact invalidToken_good inv

/-- numeric code of a token type, as in the line protocol (`Driver/Lex.lean`) and in `Tree.PTok.ty` -/
def tokCode : TokType → Nat
  | .identifier => 0 | .begin => 1 | .end_ => 2 | .include => 3 | .string => 4 | .number => 5 | .comment => 6

theorem tokCode_eq_six {tt : TokType} : tokCode tt = 6 ↔ tt = .comment := by cases tt <;> simp [tokCode]

/-! ### the main loop -/

/-- postcondition of `tokenize_core` -/
def Post (b : Bytes) : Res → Prop
  | .ok ts =>
    (∀ t ∈ ts, t.startpos < t.endpos ∧ t.endpos ≤ b.size) ∧
    ts.Pairwise (fun a c => a.line ≤ c.line) ∧
    ts.Pairwise (fun a c => a.endpos ≤ c.startpos) ∧
    (Utf8Ok b → ∀ t ∈ ts, Bnd b t.startpos ∧ Bnd b t.endpos) ∧
    (∀ t ∈ ts, 1 ≤ t.line) ∧
    ts.Pairwise (fun a c => a.ttype = .comment → a.line + nlCount b a.startpos a.endpos ≤ c.line)
  | .err _ l => 1 ≤ l
  | .panic => False
  | .hang => False

theorem loop_post (b : Bytes) : ∀ (fuel : Nat) (s : State) (hi : Nat), Inv b s hi → b.size - s.bytepos < fuel →
    Post b (loop b fuel s) := by
  intro fuel
  induction fuel with
  | zero => intro s hi _ h; omega
  | succ fuel ih =>
    intro s hi inv hfuel
    unfold loop
    by_cases hlt : s.bytepos < b.size
    · rw [if_pos hlt]
      have hg := step_good inv hlt
      split
      · rename_i h; rw [h] at hg; exact hg
      · rename_i k l h; rw [h] at hg; exact hg
      · rename_i s' h; rw [h] at hg
        obtain ⟨hlt', hi', inv'⟩ := hg
        exact ih s' hi' inv' (by omega)
    · rw [if_neg hlt]
      refine ⟨fun t ht => ?_, inv.lines, inv.disj, inv.bnd, fun t ht => (inv.toks t ht).2.2.2, inv.clp⟩
      have := inv.toks t ht
      have := inv.hi_le
      have := inv.pos_le
      omega

theorem initState_inv (b : Bytes) : Inv b initState 0 where
  pos_le := Nat.zero_le _
  line_pos := Nat.le_refl _
  hi_le := Nat.le_refl _
  toks := fun t ht => by simp [initState] at ht
  cl := fun t ht => by simp [initState] at ht
  clp := by simp [initState]
  lines := by simp [initState]
  disj := by simp [initState]
  safe := fun _ _ _ _ _ _ => Nat.zero_le _
  bnd := fun _ t ht => by simp [initState] at ht

theorem tokenize_post (b : Bytes) : Post b (tokenize b) :=
  loop_post b (b.size + 1) initState 0 (initState_inv b) (by simp [initState])

end A2l.Lex
