import A2lVerif.Lemmas.Sort15Order
import A2lVerif.Lemmas.ListOrder
/-! C15 over several calls. After a call that places two or more new elements of one list these share a uid: the writer
    keeps them in list order (its sort is stable), and the next call re-sorts the list by (uid, line, name). This file
    proves that one call keeps the written order of ALL placed elements under the invariant that survives a call —
    elements of an object list that share a uid and a line stand in name order — and that the invariant does survive. -/
namespace A2l.Srt.L15
open List A2l.ListOrder

/-- elements of an object list that share a (non-zero) uid and a line stand in name order -/
def TieSortedList (es : List Elem) : Prop :=
  ∀ a b, [a, b] <+ es → a.uid ≠ 0 → a.uid = b.uid → a.line = b.line → a.name ≤ b.name

def TieSorted (m : RModule) : Prop := ∀ r ∈ m.sections, r.rule = .objectList → TieSortedList r.sec.elems

/-- the writer cannot tell the two apart by its key (uid, line, tag) -/
def Tie (a b : Elem) : Prop := writerLe a b = true ∧ writerLe b a = true

theorem tie_uid_line {a b : Elem} (ha : a.uid ≠ 0) (h : Tie a b) : a.uid = b.uid ∧ a.line = b.line := by
  obtain ⟨h1, h2⟩ := h
  rw [writerLe_eq, lexLe_iff] at h1 h2
  by_cases s1 : a.tag ≤ b.tag <;> by_cases s2 : b.tag ≤ a.tag <;>
    simp only [s1, s2, and_true, and_false, or_false] at h1 h2 <;> omega

theorem dblE_injective : ∀ a b : Elem, dblE a = dblE b → a = b := by
  intro a b h
  cases a; cases b
  simp only [dblE, Elem.mk.injEq] at h ⊢
  obtain ⟨h1, h2, h3, h4, h5⟩ := h
  exact ⟨h1, h2, by omega, h4, h5⟩

/-! ### what one section procedure does to the order of two placed elements -/

/-- `L'` holds the placed elements of `L`, doubled, and keeps tied placed pairs in their order -/
def PairsOK (L L' : List Elem) : Prop :=
  (∀ a, a ∈ L → placed a = true → dblE a ∈ L') ∧
  (∀ a b, [a, b] <+ L → placed a = true → placed b = true → Tie a b → [dblE a, dblE b] <+ L')

theorem pairsOK_of_filter_eq {es es' : List Elem} (h : es'.filter wasPlaced = (es.filter placed).map dblE) :
    PairsOK es es' := by
  constructor
  · intro a ha hp
    have : dblE a ∈ es'.filter wasPlaced := by
      rw [h]; exact List.mem_map.2 ⟨a, List.mem_filter.2 ⟨ha, hp⟩, rfl⟩
    exact (List.mem_filter.1 this).1
  · intro a b hab hpa hpb _
    have h1 : [a, b] <+ es.filter placed := by
      have := hab.filter placed
      simpa [hpa, hpb] using this
    have h2 : [dblE a, dblE b] <+ (es.filter placed).map dblE := h1.map dblE
    rw [← h] at h2
    exact h2.trans (List.filter_sublist)

theorem pairsOK_objectList {es es' : List Elem} (h : sortObjectlistNew es = .ok es') (hts : TieSortedList es) :
    PairsOK es es' := by
  have h' : renumber 0 (es.mergeSort newLe) = .ok es' := h
  have hf := renumber_placed _ _ _ h' (Or.inl rfl)
  obtain ⟨m1, m2⟩ := pairsOK_of_filter_eq hf
  constructor
  · intro a ha hp
    exact m1 a (List.mem_mergeSort.2 ha) hp
  · intro a b hab hpa hpb htie
    have hane : a.uid ≠ 0 := by simpa [placed] using hpa
    obtain ⟨hu, hl⟩ := tie_uid_line hane htie
    have hn := hts a b hab hane hu hl
    have hle : newLe a b = true := by
      rw [newLe_eq, lexLe_iff]
      right
      refine ⟨by omega, Or.inr ⟨hu, Or.inr ⟨hl, hn⟩⟩⟩
    have hs : [a, b] <+ es.mergeSort newLe :=
      List.pair_sublist_mergeSort newLe_trans newLe_total hle hab
    exact m2 a b hs hpa hpb htie

theorem pairsOK_append {L1 L1' L2 L2' : List Elem} (h1 : PairsOK L1 L1') (h2 : PairsOK L2 L2') :
    PairsOK (L1 ++ L2) (L1' ++ L2') := by
  constructor
  · intro a ha hp
    rcases List.mem_append.1 ha with ha | ha
    · exact List.mem_append_left _ (h1.1 a ha hp)
    · exact List.mem_append_right _ (h2.1 a ha hp)
  · intro a b hab hpa hpb htie
    obtain ⟨l1, l2, hl, hs1, hs2⟩ := List.sublist_append_iff.1 hab
    match l1, l2, hl with
    | [], l2, hl =>
      simp only [List.nil_append] at hl
      subst hl
      exact (h2.2 a b hs2 hpa hpb htie).trans (List.sublist_append_right _ _)
    | [x], l2, hl =>
      simp only [List.cons_append, List.nil_append, List.cons.injEq] at hl
      obtain ⟨rfl, hl⟩ := hl
      subst hl
      have ha' := h1.1 a (List.singleton_sublist.1 hs1) hpa
      have hb' := h2.1 b (List.singleton_sublist.1 hs2) hpb
      have : [dblE a] ++ [dblE b] <+ L1' ++ L2' :=
        List.Sublist.append (List.singleton_sublist.2 ha') (List.singleton_sublist.2 hb')
      simpa using this
    | [x, y], l2, hl =>
      simp only [List.cons_append, List.nil_append, List.cons.injEq] at hl
      obtain ⟨rfl, rfl, hl⟩ := hl
      exact (h1.2 a b hs1 hpa hpb htie).trans (List.sublist_append_left _ _)
    | x :: y :: z :: r, l2, hl =>
      simp at hl

theorem sniSections_pairsOK (rs : List RSection) : ∀ (next : Nat) (rs' : List RSection),
    sniSections next rs = .ok rs' → OddOrZero next →
    (∀ r ∈ rs, isSingle r.rule → r.sec.elems.length ≤ 1) →
    (∀ r ∈ rs, r.rule = .objectList → TieSortedList r.sec.elems) →
    PairsOK (rs.flatMap (·.sec.elems)) (rs'.flatMap (·.sec.elems)) := by
  induction rs with
  | nil =>
    intro _ _ h _ _ _
    simp [sniSections] at h; subst h
    exact ⟨fun a ha _ => by simp at ha, fun a b hab _ _ _ => by simp at hab⟩
  | cons r rs ih =>
    intro next rs' h hn hwf hts
    have hwf' : ∀ r' ∈ rs, isSingle r'.rule → r'.sec.elems.length ≤ 1 :=
      fun r' hr' => hwf r' (List.mem_cons_of_mem _ hr')
    have hts' : ∀ r' ∈ rs, r'.rule = .objectList → TieSortedList r'.sec.elems :=
      fun r' hr' => hts r' (List.mem_cons_of_mem _ hr')
    rw [sniSections] at h
    simp only [List.flatMap_cons]
    cases hrule : r.rule <;> simp only [hrule] at h
    · cases h1 : sortOptional r.sec.elems next with
      | panic => simp [h1] at h
      | ok p =>
        obtain ⟨es, n'⟩ := p
        simp only [h1] at h
        cases h2 : sniSections n' rs with
        | panic => simp [h2] at h
        | ok rs'' =>
          simp only [h2, Out.ok.injEq] at h
          subst h
          obtain ⟨e1, hn'⟩ := sortOptional_placed (hwf r List.mem_cons_self (Or.inl hrule)) h1 hn
          simp only [List.flatMap_cons]
          exact pairsOK_append (pairsOK_of_filter_eq e1) (ih _ _ h2 hn' hwf' hts')
    · cases h1 : sortKeepList r.sec.elems with
      | panic => simp [h1] at h
      | ok es =>
        simp only [h1] at h
        cases h2 : sniSections next rs with
        | panic => simp [h2] at h
        | ok rs'' =>
          simp only [h2, Out.ok.injEq] at h
          subst h
          simp only [List.flatMap_cons]
          exact pairsOK_append (pairsOK_of_filter_eq (sortKeepList_placed h1)) (ih _ _ h2 hn hwf' hts')
    · cases h1 : sortObjectlistNew r.sec.elems with
      | panic => simp [h1] at h
      | ok es =>
        simp only [h1] at h
        cases h2 : sniSections next rs with
        | panic => simp [h2] at h
        | ok rs'' =>
          simp only [h2, Out.ok.injEq] at h
          subst h
          simp only [List.flatMap_cons]
          exact pairsOK_append (pairsOK_objectList h1 (hts r List.mem_cons_self hrule)) (ih _ _ h2 hn hwf' hts')
    · cases h1 : sortOptional r.sec.elems 0 with
      | panic => simp [h1] at h
      | ok p =>
        obtain ⟨es, n'⟩ := p
        simp only [h1] at h
        cases h2 : sniSections next rs with
        | panic => simp [h2] at h
        | ok rs'' =>
          simp only [h2, Out.ok.injEq] at h
          subst h
          obtain ⟨e1, _⟩ := sortOptional_placed (hwf r List.mem_cons_self (Or.inr hrule)) h1 (Or.inl rfl)
          simp only [List.flatMap_cons]
          exact pairsOK_append (pairsOK_of_filter_eq e1) (ih _ _ h2 hn hwf' hts')

theorem sortNewItems_pairsOK {m m' : RModule} (h : sortNewItems m = .ok m')
    (hwf : ∀ r ∈ m.sections, isSingle r.rule → r.sec.elems.length ≤ 1) (hts : TieSorted m) :
    PairsOK m.toModule.all m'.toModule.all := by
  obtain ⟨h1, h2⟩ := sortNewItems_ok_iff h
  rw [all_eq, all_eq]
  exact pairsOK_append (sniSections_pairsOK _ _ _ h1 (Or.inr rfl) hwf hts)
    (pairsOK_of_filter_eq (doubleAll_placed _ _ h2))

/-- **one call keeps the written order of the placed elements**, ties included: for every module without duplicate
    elements whose object lists are tie-sorted -/
theorem writeOrder_placed_stable_ties {m m' : RModule} (h : sortNewItems m = .ok m')
    (hwf : ∀ r ∈ m.sections, isSingle r.rule → r.sec.elems.length ≤ 1)
    (hnd : m.toModule.all.Nodup) (hts : TieSorted m) :
    (writeOrder m'.toModule).filter wasPlaced = ((writeOrder m.toModule).filter placed).map dblE := by
  have hperm : ((writeOrder m'.toModule).filter wasPlaced).Perm (((writeOrder m.toModule).filter placed).map dblE) :=
    (((List.mergeSort_perm _ writerLe).filter wasPlaced).trans (sortNewItems_placed h hwf)).trans
      (((List.mergeSort_perm _ writerLe).filter placed).map dblE).symm
  have hWnd : (writeOrder m.toModule).Nodup := (List.mergeSort_perm _ writerLe).symm.nodup hnd
  have hBnd : (((writeOrder m.toModule).filter placed).map dblE).Nodup :=
    nodup_map_of_injective dblE_injective (hWnd.sublist List.filter_sublist)
  have hAnd : ((writeOrder m'.toModule).filter wasPlaced).Nodup := hperm.symm.nodup hBnd
  have hsortA : ((writeOrder m'.toModule).filter wasPlaced).Pairwise (fun a b => writerLe a b = true) :=
    (pairwise_mergeSort_writerLe _).filter _
  obtain ⟨_, pairs⟩ := sortNewItems_pairsOK h hwf hts
  apply eq_of_perm_of_pairs hperm hAnd
  intro x y hxy
  obtain ⟨l', hl', hmap⟩ := List.sublist_map_iff.1 hxy
  match l', hmap with
  | [a0, b0], hmap =>
    simp only [List.map_cons, List.map_nil, List.cons.injEq, and_true] at hmap
    obtain ⟨rfl, rfl⟩ := hmap
    have hab0 : [a0, b0] <+ writeOrder m.toModule := hl'.trans List.filter_sublist
    obtain ⟨ha0, hb0⟩ := mem_of_pair_sublist hl'
    have hpa : placed a0 = true := (List.mem_filter.1 ha0).2
    have hpb : placed b0 = true := (List.mem_filter.1 hb0).2
    have hle : writerLe a0 b0 = true :=
      List.pairwise_iff_forall_sublist.1 (pairwise_mergeSort_writerLe _) hab0
    have hne : a0 ≠ b0 := by
      intro heq
      subst heq
      have := hWnd.sublist hab0
      simp at this
    have hx : dblE a0 ∈ (writeOrder m'.toModule).filter wasPlaced := hperm.symm.subset (mem_of_pair_sublist hxy).1
    have hy : dblE b0 ∈ (writeOrder m'.toModule).filter wasPlaced := hperm.symm.subset (mem_of_pair_sublist hxy).2
    have hne' : dblE a0 ≠ dblE b0 := fun he => hne (dblE_injective _ _ he)
    by_cases hrev : writerLe b0 a0 = true
    · -- tie: the order comes from the list order, which the call keeps
      have hall : [a0, b0] <+ m.toModule.all := by
        rcases pair_or_swap (List.mem_mergeSort.1 (mem_of_pair_sublist hab0).1)
            (List.mem_mergeSort.1 (mem_of_pair_sublist hab0).2) hne with h1 | h1
        · exact h1
        · exfalso
          have : [b0, a0] <+ writeOrder m.toModule :=
            List.pair_sublist_mergeSort writerLe_trans writerLe_total hrev h1
          exact nodup_pair_not_swap hWnd hab0 this
      have h1 : [dblE a0, dblE b0] <+ m'.toModule.all := pairs a0 b0 hall hpa hpb ⟨hle, hrev⟩
      have h2 : [dblE a0, dblE b0] <+ writeOrder m'.toModule :=
        List.pair_sublist_mergeSort writerLe_trans writerLe_total (by rw [writerLe_dblE]; exact hle) h1
      have h3 := h2.filter wasPlaced
      have wa : wasPlaced (dblE a0) = true := (List.mem_filter.1 hx).2
      have wb : wasPlaced (dblE b0) = true := (List.mem_filter.1 hy).2
      simpa [wa, wb] using h3
    · -- strictly smaller: any sorted list has them in this order
      rcases pair_or_swap hx hy hne' with h1 | h1
      · exact h1
      · exfalso
        have := List.pairwise_iff_forall_sublist.1 hsortA h1
        rw [writerLe_dblE] at this
        exact hrev this
  | [], hmap => simp at hmap
  | [_], hmap => simp at hmap
  | _ :: _ :: _ :: _, hmap => simp at hmap

end A2l.Srt.L15
