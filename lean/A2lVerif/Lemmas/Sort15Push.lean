import A2lVerif.Lemmas.Sort15Ties
/-! C15: elements added without a position of their own (uid 0: `push` through the API, the elements `merge` moves
    over) do not disturb the written order of the placed elements, wherever in the lists they are added. -/
namespace A2l.Srt.L15
open List A2l.ListOrder

theorem sorted_placed_of_sublist (l l' : List Elem) (hsub : l <+ l')
    (hperm : (l'.filter placed).Perm (l.filter placed)) (hnd : l'.Nodup) :
    (l'.mergeSort writerLe).filter placed = (l.mergeSort writerLe).filter placed := by
  have hnd0 : l.Nodup := hnd.sublist hsub
  have hW : (l.mergeSort writerLe).Nodup := (List.mergeSort_perm _ writerLe).symm.nodup hnd0
  have hW' : (l'.mergeSort writerLe).Nodup := (List.mergeSort_perm _ writerLe).symm.nodup hnd
  have hp : ((l'.mergeSort writerLe).filter placed).Perm ((l.mergeSort writerLe).filter placed) :=
    (((List.mergeSort_perm _ writerLe).filter placed).trans hperm).trans ((List.mergeSort_perm _ writerLe).filter placed).symm
  have hsortA : ((l'.mergeSort writerLe).filter placed).Pairwise (fun a b => writerLe a b = true) :=
    (pairwise_mergeSort_writerLe _).filter _
  apply eq_of_perm_of_pairs hp (hW'.sublist List.filter_sublist)
  intro x y hxy
  have hxyW : [x, y] <+ l.mergeSort writerLe := hxy.trans List.filter_sublist
  have hle : writerLe x y = true := List.pairwise_iff_forall_sublist.1 (pairwise_mergeSort_writerLe _) hxyW
  have hne : x ≠ y := by
    intro h; subst h
    have := hW.sublist hxyW
    simp at this
  have hx : x ∈ (l'.mergeSort writerLe).filter placed := hp.symm.subset (mem_of_pair_sublist hxy).1
  have hy : y ∈ (l'.mergeSort writerLe).filter placed := hp.symm.subset (mem_of_pair_sublist hxy).2
  by_cases hrev : writerLe y x = true
  · have hall : [x, y] <+ l := by
      rcases pair_or_swap (List.mem_mergeSort.1 (mem_of_pair_sublist hxyW).1)
          (List.mem_mergeSort.1 (mem_of_pair_sublist hxyW).2) hne with h1 | h1
      · exact h1
      · exfalso
        exact nodup_pair_not_swap hW hxyW (List.pair_sublist_mergeSort writerLe_trans writerLe_total hrev h1)
    have h2 : [x, y] <+ l'.mergeSort writerLe :=
      List.pair_sublist_mergeSort writerLe_trans writerLe_total hle (hall.trans hsub)
    have h3 := h2.filter placed
    have px : placed x = true := (List.mem_filter.1 hx).2
    have py : placed y = true := (List.mem_filter.1 hy).2
    simpa [px, py] using h3
  · rcases pair_or_swap hx hy hne with h1 | h1
    · exact h1
    · exfalso
      exact hrev (List.pairwise_iff_forall_sublist.1 hsortA h1)

/-- **additions without a position do not disturb the placed elements**: if `m'` holds the elements of `m` in the same
    list order plus elements that are not placed (uid 0), the placed elements are written in the same order -/
theorem writeOrder_placed_of_additions (m m' : Module) (hsub : m.all <+ m'.all)
    (hperm : (m'.all.filter placed).Perm (m.all.filter placed)) (hnd : m'.all.Nodup) :
    (writeOrder m').filter placed = (writeOrder m).filter placed :=
  sorted_placed_of_sublist _ _ hsub hperm hnd

end A2l.Srt.L15

namespace A2l.Srt.L15
open List

/-- `list.push(e)` on the i-th list of the module -/
def pushSec : List RSection → Nat → Elem → List RSection
  | [], _, _ => []
  | r :: rs, 0, e => { r with sec := { r.sec with elems := r.sec.elems ++ [e] } } :: rs
  | r :: rs, i + 1, e => r :: pushSec rs i e

def pushNew (m : RModule) (i : Nat) (e : Elem) : RModule := { m with sections := pushSec m.sections i e }

theorem pushSec_sublist (rs : List RSection) (i : Nat) (e : Elem) :
    rs.flatMap (·.sec.elems) <+ (pushSec rs i e).flatMap (·.sec.elems) := by
  induction rs generalizing i with
  | nil => exact List.Sublist.refl _
  | cons r rs ih =>
    cases i with
    | zero =>
      simp only [pushSec, List.flatMap_cons]
      exact List.Sublist.append (List.sublist_append_left _ _) (List.Sublist.refl _)
    | succ i =>
      simp only [pushSec, List.flatMap_cons]
      exact List.Sublist.append (List.Sublist.refl _) (ih i)

theorem pushSec_placed (rs : List RSection) (i : Nat) (e : Elem) (he : e.uid = 0) :
    ((pushSec rs i e).flatMap (·.sec.elems)).filter placed = (rs.flatMap (·.sec.elems)).filter placed := by
  induction rs generalizing i with
  | nil => rfl
  | cons r rs ih =>
    cases i with
    | zero =>
      have hp : placed e = false := by simp [placed, he]
      simp [pushSec, List.flatMap_cons, List.filter_append, hp]
    | succ i =>
      simp only [pushSec, List.flatMap_cons, List.filter_append, ih i]

/-- **pushing a new element (uid 0) into any list of the module leaves the written order of the placed elements as it
    was** -/
theorem push_keeps_placed_order (m : RModule) (i : Nat) (e : Elem) (he : e.uid = 0)
    (hnd : (pushNew m i e).toModule.all.Nodup) :
    (writeOrder (pushNew m i e).toModule).filter placed = (writeOrder m.toModule).filter placed := by
  apply writeOrder_placed_of_additions
  · rw [all_eq, all_eq]
    exact List.Sublist.append (pushSec_sublist _ _ _) (List.Sublist.refl _)
  · rw [all_eq, all_eq, List.filter_append, List.filter_append]
    show ((pushSec m.sections i e).flatMap (·.sec.elems)).filter placed ++ _ ~ _
    rw [pushSec_placed _ _ _ he]
    exact List.Perm.refl _
  · exact hnd

end A2l.Srt.L15
