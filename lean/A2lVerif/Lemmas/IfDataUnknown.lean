import A2lVerif.Lemmas.IfDataVals
/-!
# IF_DATA, part C: the fallback for content that no definition describes

`balanced` is an independent reading of "matching /begin and /end": a scanner with an explicit stack of open tags.
The recursive-descent fallback (`parse_unknown_ifdata_start`, `parse_unknown_ifdata`, `parse_unknown_taggedstruct`)
accepts exactly the balanced content in which no more than `MAX_NESTING_DEPTH` blocks are open at the same time (given
that every Number token is a number and, in strict mode, every identifier is a valid identifier), and it keeps every
value. `scanV` is the same scanner with the limit built in: its three verdicts (`accept`, `reject`, `tooDeep`) are
exactly the three ways in which the fallback can end (a result, an error other than `NestingTooDeep`, `NestingTooDeep`);
whichever problem comes first in the token stream decides, in the scanner as in the parser.
-/
namespace A2l.IfData
open A2l.Tree A2l.Aml A2l.G A2l.Sc

variable {e : Env}

/-! ## definitions -/

inductive Mode where
  | normal      -- between items
  | beginTag    -- behind `/begin`: comments, then the tag
  | endTag      -- behind `/end` of an inner block: comments, then the tag that was opened last
  deriving DecidableEq

/-- the scanner: `st` is the stack of the tags of the open blocks; the content is accepted when the `/end` that closes
    the enclosing IF_DATA block is reached -/
def scan : Mode → List (List Char) → List PTok → Bool
  | _, _, [] => false
  | .normal, st, t :: rest =>
    if t.ty = 1 then scan .beginTag st rest
    else if t.ty = 2 then
      match st with
      | [] => true
      | _ :: _ => scan .endTag st rest
    else scan .normal st rest
  | .beginTag, st, t :: rest =>
    if t.ty = 6 then scan .beginTag st rest
    else if t.ty = 0 then scan .normal (t.text :: st) rest
    else false
  | .endTag, st, t :: rest =>
    if t.ty = 6 then scan .endTag st rest
    else if t.ty = 0 then
      match st with
      | tag :: st' => if t.text = tag then scan .normal st' rest else false
      | [] => false
    else false

/-- the tokens from position `p` on are a sequence of items (identifiers, strings, numbers, comments, and blocks
    `/begin TAG items /end TAG`) followed by a `/end` -/
def balanced (toks : Array PTok) (p : Nat) : Bool := scan .normal [] (toks.toList.drop p)

/-- the verdict of the scanner with a limit on the number of open blocks -/
inductive Verdict where
  | accept | reject | tooDeep
  deriving DecidableEq, Repr

/-- `scan` with a limit: the tag behind a `/begin` that would open block number `lim + 1` ends the scan with `tooDeep` -/
def scanV (lim : Nat) : Mode → List (List Char) → List PTok → Verdict
  | _, _, [] => .reject
  | .normal, st, t :: rest =>
    if t.ty = 1 then scanV lim .beginTag st rest
    else if t.ty = 2 then
      match st with
      | [] => .accept
      | _ :: _ => scanV lim .endTag st rest
    else scanV lim .normal st rest
  | .beginTag, st, t :: rest =>
    if t.ty = 6 then scanV lim .beginTag st rest
    else if t.ty = 0 then
      if lim ≤ st.length then .tooDeep else scanV lim .normal (t.text :: st) rest
    else .reject
  | .endTag, st, t :: rest =>
    if t.ty = 6 then scanV lim .endTag st rest
    else if t.ty = 0 then
      match st with
      | tag :: st' => if t.text = tag then scanV lim .normal st' rest else .reject
      | [] => .reject
    else .reject

/-- an independent reading of "not nested too deep": a counter of the open blocks that looks at the `/begin` and
    `/end` tokens only (no tags, no stack). `cur` blocks are open in front of the list; the walk ends at the `/end` that
    closes the content. No `/begin` is met while `lim` blocks are open. -/
def depthOk (lim : Nat) : Nat → List PTok → Bool
  | _, [] => true
  | cur, t :: rest =>
    if t.ty = 1 then decide (cur < lim) && depthOk lim (cur + 1) rest
    else if t.ty = 2 then
      match cur with
      | 0 => true
      | c + 1 => depthOk lim c rest
    else depthOk lim cur rest

/-- in the content that starts at position `p`, at most `MAX_NESTING_DEPTH` blocks are open at the same time -/
def nestingOk (toks : Array PTok) (p : Nat) : Bool := depthOk maxNestingDepth 0 (toks.toList.drop p)

/-- the verdict that corresponds to a parser error -/
def verdictOf (k : DK) : Verdict := if k = .nestingTooDeep then .tooDeep else .reject

/-- `get_integer::<i32>`, `::<i64>`, `::<u64>` or `get_double` reads the token -/
def NumOk (t : PTok) : Prop :=
  (parseInt (intTyOf 2) t.text).isSome ∨ (parseInt (intTyOf 3) t.text).isSome ∨ (parseInt (intTyOf 7) t.text).isSome ∨
  t.fl.isSome

instance (t : PTok) : Decidable (NumOk t) := by unfold NumOk; infer_instance

/-- `get_identifier` does not complain -/
def IdentOk (t : PTok) : Prop :=
  match t.text with
  | [] => True
  | c :: _ => ¬ (isAsciiDigit c || utf8Len t.text > 1024) = true

/-- the token kinds are the seven kinds of `A2lTokenType`; every Number token is a number; in strict mode every
    identifier is a valid identifier -/
def AtomsOk (e : Env) : Prop :=
  ∀ (i : Nat) (t : PTok), e.toks[i]? = some t →
    t.ty ≤ 6 ∧ (t.ty = 5 → NumOk t) ∧ (t.ty = 0 → e.strict = true → IdentOk t)

/-- the tokens consumed between `s` and `s'` do not change the state of the scanner when `n` blocks are open -/
def Neutral (e : Env) (n : Nat) (s s' : PState) : Prop :=
  ∀ st : List (List Char), st.length = n →
    scanV maxNestingDepth .normal st (e.toks.toList.drop s.pos) = scanV maxNestingDepth .normal st (e.toks.toList.drop s'.pos)

/-- with `n` blocks open, the scanner's verdict on the tokens from `s` on is `v`, whatever the open tags are -/
def Bad (e : Env) (n : Nat) (v : Verdict) (s : PState) : Prop :=
  ∀ st : List (List Char), st.length = n → scanV maxNestingDepth .normal st (e.toks.toList.drop s.pos) = v

/-! ## the scanner -/

theorem scan_nil (m : Mode) (st : List (List Char)) : scan m st [] = false := by cases m <;> rfl
theorem scan_normal (st : List (List Char)) (t : PTok) (rest : List PTok) :
    scan .normal st (t :: rest) =
      if t.ty = 1 then scan .beginTag st rest
      else if t.ty = 2 then (match st with | [] => true | _ :: _ => scan .endTag st rest)
      else scan .normal st rest := rfl
theorem scan_beginTag (st : List (List Char)) (t : PTok) (rest : List PTok) :
    scan .beginTag st (t :: rest) =
      if t.ty = 6 then scan .beginTag st rest
      else if t.ty = 0 then scan .normal (t.text :: st) rest
      else false := rfl
theorem scan_endTag (st : List (List Char)) (t : PTok) (rest : List PTok) :
    scan .endTag st (t :: rest) =
      if t.ty = 6 then scan .endTag st rest
      else if t.ty = 0 then (match st with | tag :: st' => if t.text = tag then scan .normal st' rest else false | [] => false)
      else false := rfl

theorem scanV_nil (lim : Nat) (m : Mode) (st : List (List Char)) : scanV lim m st [] = .reject := by cases m <;> rfl
theorem scanV_normal (lim : Nat) (st : List (List Char)) (t : PTok) (rest : List PTok) :
    scanV lim .normal st (t :: rest) =
      if t.ty = 1 then scanV lim .beginTag st rest
      else if t.ty = 2 then (match st with | [] => .accept | _ :: _ => scanV lim .endTag st rest)
      else scanV lim .normal st rest := rfl
theorem scanV_beginTag (lim : Nat) (st : List (List Char)) (t : PTok) (rest : List PTok) :
    scanV lim .beginTag st (t :: rest) =
      if t.ty = 6 then scanV lim .beginTag st rest
      else if t.ty = 0 then (if lim ≤ st.length then .tooDeep else scanV lim .normal (t.text :: st) rest)
      else .reject := rfl
theorem scanV_endTag (lim : Nat) (st : List (List Char)) (t : PTok) (rest : List PTok) :
    scanV lim .endTag st (t :: rest) =
      if t.ty = 6 then scanV lim .endTag st rest
      else if t.ty = 0 then
        (match st with | tag :: st' => if t.text = tag then scanV lim .normal st' rest else .reject | [] => .reject)
      else .reject := rfl

theorem depthOk_cons (lim cur : Nat) (t : PTok) (rest : List PTok) :
    depthOk lim cur (t :: rest) =
      if t.ty = 1 then decide (cur < lim) && depthOk lim (cur + 1) rest
      else if t.ty = 2 then (match cur with | 0 => true | c + 1 => depthOk lim c rest)
      else depthOk lim cur rest := rfl

theorem depthOk_skip (lim cur : Nat) {t : PTok} (rest : List PTok) (h1 : t.ty ≠ 1) (h2 : t.ty ≠ 2) :
    depthOk lim cur (t :: rest) = depthOk lim cur rest := by
  rw [depthOk_cons, if_neg h1, if_neg h2]

theorem drop_eq_cons {toks : Array PTok} {p : Nat} {t : PTok} (h : toks[p]? = some t) :
    toks.toList.drop p = t :: toks.toList.drop (p + 1) := by
  have hlt := lt_of_getElem?_some h
  rw [List.drop_eq_getElem_cons (by simpa using hlt)]
  congr 1
  rw [getElem?_pos toks p hlt] at h
  simpa using h

theorem drop_eq_nil {toks : Array PTok} {p : Nat} (h : toks[p]? = none) : toks.toList.drop p = [] := by
  apply List.drop_eq_nil_of_le
  rcases Nat.lt_or_ge p toks.size with h' | h'
  · rw [getElem?_pos toks p h'] at h; cases h
  · simpa using h'

theorem Neutral.refl {n : Nat} (s : PState) : Neutral e n s s := fun _ _ => rfl
theorem Neutral.trans {n : Nat} {s s1 s2 : PState} (h1 : Neutral e n s s1) (h2 : Neutral e n s1 s2) : Neutral e n s s2 :=
  fun st hst => (h1 st hst).trans (h2 st hst)
theorem Neutral.samePos {n : Nat} {s s1 s2 : PState} (h : Neutral e n s s1) (hp : s2.pos = s1.pos) : Neutral e n s s2 := by
  unfold Neutral at *; rw [hp]; exact h
theorem Neutral.fromPos {n : Nat} {s s0 s2 : PState} (h : Neutral e n s s2) (hp : s0.pos = s.pos) : Neutral e n s0 s2 := by
  unfold Neutral at *; rw [hp]; exact h
theorem Bad.of_neutral {n : Nat} {v : Verdict} {s s1 : PState} (h : Neutral e n s s1) (hb : Bad e n v s1) : Bad e n v s :=
  fun st hst => (h st hst).trans (hb st hst)
theorem Bad.fromPos {n : Nat} {v : Verdict} {s s0 : PState} (h : Bad e n v s) (hp : s0.pos = s.pos) : Bad e n v s0 := by
  unfold Bad at *; rw [hp]; exact h

/-- an item token (not `/begin`, not `/end`) is skipped in normal mode -/
theorem neutral_atom {n : Nat} {s : PState} {t : PTok} (ht : e.toks[s.pos]? = some t) (h1 : t.ty ≠ 1) (h2 : t.ty ≠ 2) :
    Neutral e n s (adv s t) := by
  intro st _
  show scanV _ .normal st (e.toks.toList.drop s.pos) = scanV _ .normal st (e.toks.toList.drop (s.pos + 1))
  rw [drop_eq_cons ht, scanV_normal, if_neg h1, if_neg h2]

theorem scan_comments (lim : Nat) (m : Mode) (st : List (List Char)) : ∀ (cs : List PTok) (l : List PTok),
    (∀ c ∈ cs, c.ty = 6) → scanV lim m st (cs ++ l) = scanV lim m st l
  | [], l, _ => rfl
  | c :: cs, l, h => by
    have hc : c.ty = 6 := h c (List.mem_cons_self ..)
    have ih := scan_comments lim m st cs l (fun x hx => h x (List.mem_cons_of_mem _ hx))
    cases m with
    | normal => rw [List.cons_append, scanV_normal, if_neg (by omega), if_neg (by omega)]; exact ih
    | beginTag => rw [List.cons_append, scanV_beginTag, if_pos hc]; exact ih
    | endTag => rw [List.cons_append, scanV_endTag, if_pos hc]; exact ih

/-! ### the scanner with the limit, the scanner without it, and the counter -/

/-- on balanced content the verdict is `accept` or `tooDeep`, and the counter says which -/
theorem scanV_of_scan (lim : Nat) : ∀ (l : List PTok) (m : Mode) (st : List (List Char)), scan m st l = true →
    scanV lim m st l =
      match m with
      | .normal => if depthOk lim st.length l = true then .accept else .tooDeep
      | .beginTag => if st.length < lim ∧ depthOk lim (st.length + 1) l = true then .accept else .tooDeep
      | .endTag => if depthOk lim (st.length - 1) l = true then .accept else .tooDeep
  | [], m, st, h => by rw [scan_nil] at h; cases h
  | t :: rest, .normal, st, h => by
    rw [scan_normal] at h
    rw [scanV_normal]
    dsimp only
    rw [depthOk_cons]
    by_cases h1 : t.ty = 1
    · rw [if_pos h1] at h
      rw [if_pos h1, if_pos h1, scanV_of_scan lim rest .beginTag st h]
      simp only [Bool.and_eq_true, decide_eq_true_eq]
    · rw [if_neg h1] at h
      rw [if_neg h1, if_neg h1]
      by_cases h2 : t.ty = 2
      · rw [if_pos h2] at h
        rw [if_pos h2, if_pos h2]
        cases st with
        | nil => rfl
        | cons tag st' =>
          dsimp only at h ⊢
          rw [scanV_of_scan lim rest .endTag _ h]
          rfl
      · rw [if_neg h2] at h
        rw [if_neg h2, if_neg h2, scanV_of_scan lim rest .normal st h]
  | t :: rest, .beginTag, st, h => by
    rw [scan_beginTag] at h
    rw [scanV_beginTag]
    dsimp only
    by_cases h6 : t.ty = 6
    · rw [if_pos h6] at h
      rw [if_pos h6, depthOk_skip lim _ rest (by omega) (by omega), scanV_of_scan lim rest .beginTag st h]
    · rw [if_neg h6] at h
      rw [if_neg h6]
      by_cases h0 : t.ty = 0
      · rw [if_pos h0] at h
        rw [if_pos h0, depthOk_skip lim _ rest (by omega) (by omega)]
        by_cases hl : lim ≤ st.length
        · rw [if_pos hl, if_neg (fun hc => absurd hc.1 (by omega))]
        · rw [if_neg hl, scanV_of_scan lim rest .normal _ h]
          dsimp only
          have : st.length < lim := by omega
          simp only [List.length_cons, this, true_and]
      · rw [if_neg h0] at h; cases h
  | t :: rest, .endTag, st, h => by
    rw [scan_endTag] at h
    rw [scanV_endTag]
    dsimp only
    by_cases h6 : t.ty = 6
    · rw [if_pos h6] at h
      rw [if_pos h6, depthOk_skip lim _ rest (by omega) (by omega), scanV_of_scan lim rest .endTag st h]
    · rw [if_neg h6] at h
      rw [if_neg h6]
      by_cases h0 : t.ty = 0
      · rw [if_pos h0] at h
        rw [if_pos h0, depthOk_skip lim _ rest (by omega) (by omega)]
        cases st with
        | nil => cases h
        | cons tag st' =>
          dsimp only at h ⊢
          by_cases htag : t.text = tag
          · rw [if_pos htag] at h
            rw [if_pos htag, scanV_of_scan lim rest .normal st' h]
            simp only [List.length_cons, Nat.add_sub_cancel]
          · rw [if_neg htag] at h; cases h
      · rw [if_neg h0] at h; cases h

/-- what the scanner with the limit accepts is balanced -/
theorem scan_of_scanV (lim : Nat) : ∀ (l : List PTok) (m : Mode) (st : List (List Char)),
    scanV lim m st l = .accept → scan m st l = true
  | [], m, st, h => by rw [scanV_nil] at h; cases h
  | t :: rest, .normal, st, h => by
    rw [scanV_normal] at h
    rw [scan_normal]
    by_cases h1 : t.ty = 1
    · rw [if_pos h1] at h ⊢; exact scan_of_scanV lim rest _ _ h
    · rw [if_neg h1] at h ⊢
      by_cases h2 : t.ty = 2
      · rw [if_pos h2] at h ⊢
        cases st with
        | nil => rfl
        | cons tag st' => exact scan_of_scanV lim rest _ _ h
      · rw [if_neg h2] at h ⊢; exact scan_of_scanV lim rest _ _ h
  | t :: rest, .beginTag, st, h => by
    rw [scanV_beginTag] at h
    rw [scan_beginTag]
    by_cases h6 : t.ty = 6
    · rw [if_pos h6] at h ⊢; exact scan_of_scanV lim rest _ _ h
    · rw [if_neg h6] at h ⊢
      by_cases h0 : t.ty = 0
      · rw [if_pos h0] at h ⊢
        by_cases hl : lim ≤ st.length
        · rw [if_pos hl] at h; cases h
        · rw [if_neg hl] at h; exact scan_of_scanV lim rest _ _ h
      · rw [if_neg h0] at h; cases h
  | t :: rest, .endTag, st, h => by
    rw [scanV_endTag] at h
    rw [scan_endTag]
    by_cases h6 : t.ty = 6
    · rw [if_pos h6] at h ⊢; exact scan_of_scanV lim rest _ _ h
    · rw [if_neg h6] at h ⊢
      by_cases h0 : t.ty = 0
      · rw [if_pos h0] at h ⊢
        cases st with
        | nil => cases h
        | cons tag st' =>
          dsimp only at h ⊢
          by_cases htag : t.text = tag
          · rw [if_pos htag] at h ⊢; exact scan_of_scanV lim rest _ _ h
          · rw [if_neg htag] at h; cases h
      · rw [if_neg h0] at h; cases h

/-- `accept` = balanced and not nested too deep -/
theorem scanV_accept_iff (lim : Nat) (st : List (List Char)) (l : List PTok) :
    scanV lim .normal st l = .accept ↔ scan .normal st l = true ∧ depthOk lim st.length l = true := by
  constructor
  · intro h
    have hs := scan_of_scanV lim l _ _ h
    refine ⟨hs, ?_⟩
    rw [scanV_of_scan lim l _ _ hs] at h
    dsimp only at h
    split at h
    · assumption
    · cases h
  · rintro ⟨hs, hd⟩
    rw [scanV_of_scan lim l _ _ hs]
    dsimp only
    rw [if_pos hd]

/-- `tooDeep` on balanced content = nested too deep -/
theorem scanV_tooDeep_of (lim : Nat) (st : List (List Char)) (l : List PTok) (hs : scan .normal st l = true)
    (hd : depthOk lim st.length l = false) : scanV lim .normal st l = .tooDeep := by
  rw [scanV_of_scan lim l _ _ hs]
  dsimp only
  rw [if_neg (by rw [hd]; exact Bool.false_ne_true)]

/-- what is not balanced is never accepted -/
theorem scanV_ne_accept_of (lim : Nat) (st : List (List Char)) (l : List PTok) (hs : scan .normal st l = false) :
    scanV lim .normal st l ≠ .accept := by
  intro h
  rw [scan_of_scanV lim l _ _ h] at hs
  cases hs

/-- the three ways `expect_token` can end: the token behind the comments has the expected type, the input ends
    behind the comments, or the token behind the comments has another type -/
inductive ExpectOutcome (e : Env) (ty : Nat) (s : PState) : PRes PTok → Prop where
  | ok (cs : List PTok) (t : PTok) (s' : PState) : (∀ c ∈ cs, c.ty = 6) → t.ty = ty →
      e.toks.toList.drop s.pos = cs ++ t :: e.toks.toList.drop s'.pos → s'.pos = s.pos + cs.length + 1 →
      s'.pos ≤ e.toks.size → ExpectOutcome e ty s (.ok t s')
  | eof (cs : List PTok) (d : Diag) (s' : PState) : (∀ c ∈ cs, c.ty = 6) → e.toks.toList.drop s.pos = cs →
      ExpectOutcome e ty s (.err d s')
  | other (cs : List PTok) (t : PTok) (rest : List PTok) (d : Diag) (s' : PState) : (∀ c ∈ cs, c.ty = 6) →
      t.ty ≠ 6 → t.ty ≠ ty → e.toks.toList.drop s.pos = cs ++ t :: rest → ExpectOutcome e ty s (.err d s')

theorem expectTokenAux_outcome (ctx : Ctx) (ty : Nat) : ∀ (fuel : Nat) (s : PState),
    e.toks.size - s.pos < fuel → ExpectOutcome e ty s (expectTokenAux ctx ty fuel e s)
  | 0, _, h => by omega
  | fuel + 1, s, h => by
    rw [expectTokenAux, bind_eq, getToken_eval]
    cases ht : e.toks[s.pos]? with
    | none => exact .eof [] _ _ (fun _ h => by cases h) (drop_eq_nil ht)
    | some t =>
      have hlt := lt_of_getElem?_some ht
      dsimp only
      split
      · rename_i h6
        have ih := expectTokenAux_outcome ctx ty fuel (adv s t) (by show _ - (s.pos + 1) < fuel; omega)
        show ExpectOutcome e ty s (expectTokenAux ctx ty fuel e (adv s t))
        generalize expectTokenAux ctx ty fuel e (adv s t) = r at ih ⊢
        have hd := drop_eq_cons ht
        cases ih with
        | ok cs t' s' hc hty hdrop hpos hsz =>
          refine .ok (t :: cs) t' s' ?_ hty ?_ ?_ hsz
          · intro c hc'; rcases List.mem_cons.1 hc' with rfl | h'; exact h6; exact hc c h'
          · rw [hd]; show t :: _ = t :: _; congr 1
          · have : (adv s t).pos = s.pos + 1 := rfl
            simp only [List.length_cons]; omega
        | eof cs d s' hc hdrop =>
          refine .eof (t :: cs) d s' ?_ ?_
          · intro c hc'; rcases List.mem_cons.1 hc' with rfl | h'; exact h6; exact hc c h'
          · rw [hd]; congr 1
        | other cs t' rest d s' hc h6' hne hdrop =>
          refine .other (t :: cs) t' rest d s' ?_ h6' hne ?_
          · intro c hc'; rcases List.mem_cons.1 hc' with rfl | h'; exact h6; exact hc c h'
          · rw [hd]; show t :: _ = t :: _; congr 1
      · rename_i h6
        split
        · rename_i hne
          exact .other [] t _ _ _ (fun _ h => by cases h) h6 hne (drop_eq_cons ht)
        · rename_i hne
          refine .ok [] t _ (fun _ h => by cases h) (by simpa using hne) (drop_eq_cons ht) rfl ?_
          show s.pos + 1 ≤ _; omega

theorem expectToken_outcome (ctx : Ctx) (ty : Nat) (s : PState) : ExpectOutcome e ty s (expectToken ctx ty e s) := by
  unfold expectToken
  simp only [getEnv_bind]
  exact expectTokenAux_outcome ctx ty _ s (by omega)

/-! ## case analysis on results -/

theorem spec_bind {α β} {P : PRes β → Prop} {m : PM α} {f : α → PM β} {s : PState}
    (hpanic : P .panic) (hfuel : P .fuel) (herr : ∀ d s1, m e s = .err d s1 → P (.err d s1))
    (hok : ∀ a s1, m e s = .ok a s1 → P (f a e s1)) : P ((m >>= f) e s) := by
  rw [bind_eq]
  cases h : m e s with
  | ok a s1 => exact hok a s1 h
  | err d s1 => exact herr d s1 h
  | panic => exact hpanic
  | fuel => exact hfuel

theorem spec_lineOffset {β} {P : PRes β → Prop} {f : Nat → PM β} {s : PState}
    (hpanic : P .panic) (h : ∀ n, P (f n e s)) : P ((getLineOffset >>= f) e s) := by
  rw [bind_eq]
  rcases getLineOffset_cases e s with h1 | ⟨n, h1⟩
  · rw [h1]; exact hpanic
  · rw [h1]; exact h n

theorem spec_attempt {α β} {P : PRes β → Prop} {m : PM α} {f : Except Diag α → PM β} {s : PState}
    (hpanic : P .panic) (hfuel : P .fuel) (herr : ∀ d s1, m e s = .err d s1 → P (f (.error d) e s1))
    (hok : ∀ a s1, m e s = .ok a s1 → P (f (.ok a) e s1)) : P ((attempt m >>= f) e s) := by
  rw [bind_eq]
  unfold attempt
  cases h : m e s with
  | ok a s1 => exact hok a s1 h
  | err d s1 => exact herr d s1 h
  | panic => exact hpanic
  | fuel => exact hfuel

/-! ## the atoms -/

theorem getIdentifier_at (ctx : Ctx) {s : PState} {t : PTok} (ht : e.toks[s.pos]? = some t) (h0 : t.ty = 0) :
    getIdentifier ctx e s = .panic ∨ (∃ s1, getIdentifier ctx e s = .ok t.text s1 ∧ s1.pos = s.pos + 1) ∨
    (∃ d s1, getIdentifier ctx e s = .err d s1 ∧ e.strict = true ∧ ¬ IdentOk t) := by
  unfold getIdentifier IdentOk
  rw [bind_eq, expectToken_eval ctx 0 s t ht (by omega), if_neg (by simp [h0])]
  dsimp only
  cases htext : t.text with
  | nil => exact .inl rfl
  | cons c tl =>
    dsimp only
    split
    · rename_i hbad
      rw [bind_eq]
      unfold errorOrLog
      simp only [getEnv_bind]
      by_cases hst : e.strict = true
      · rw [if_pos hst]
        exact .inr (.inr ⟨_, _, rfl, hst, fun h => h hbad⟩)
      · rw [if_neg hst]
        exact .inr (.inl ⟨_, rfl, rfl⟩)
    · exact .inr (.inl ⟨_, rfl, rfl⟩)

theorem getString_at (ctx : Ctx) {s : PState} {t : PTok} (ht : e.toks[s.pos]? = some t) (h4 : t.ty = 4) :
    ∃ r, getString ctx e s = .ok r (adv s t) := by
  unfold getString
  simp only [peekToken_bind]
  rw [ht]
  have hx := expectToken_eval ctx 4 s t ht (by omega)
  rw [if_neg (by simp [h4])] at hx
  obtain ⟨ty, text, line, fileid, sym, fl⟩ := t
  dsimp only at h4
  subst h4
  show ∃ r, (expectToken ctx 4 >>= fun t => match unescape (stripQuotes t.text) with
    | .ok s => pure s
    | .panic => Tree.panic) e s = _
  rw [bind_eq, hx]
  dsimp only
  obtain ⟨r, hr, _⟩ := unescape_okL (stripQuotes text)
  rw [hr]
  exact ⟨r, rfl⟩

/-! ## what the three functions of the fallback do -/

/-! `n` is the number of blocks that are open where the function starts (the length of the scanner's stack). -/

def UOk (e : Env) (f32 : List Char → Option (List Char)) (isB : Bool) (n : Nat) (acc : List Gen) (s : PState) (g : Gen)
    (s' : PState) : Prop :=
  ∃ new, g = .struct 0 (acc.reverse ++ new) ∧ Rel e f32 s s' (valuesL new) ∧ Neutral e n s s' ∧
    ∃ t, e.toks[s'.pos]? = some t ∧ (t.ty = 2 ∨ (isB = false ∧ t.ty = 1))

def USpec (e : Env) (f32 : List Char → Option (List Char)) (isB : Bool) (n : Nat) (acc : List Gen) (s : PState) :
    PRes Gen → Prop
  | .ok g s' => UOk e f32 isB n acc s g s'
  | .err d _ => Bad e n (verdictOf d.kind) s
  | .panic => True
  | .fuel => True

def TSSpec (e : Env) (f32 : List Char → Option (List Char)) (n : Nat) (s : PState) : PRes Gen → Prop
  | .ok g s' => ∃ items, g = .taggedStruct items ∧ Rel e f32 s s' (valuesT items) ∧ Neutral e n s s'
  | .err d _ => Bad e n (verdictOf d.kind) s
  | .panic => True
  | .fuel => True

def LSpec (e : Env) (f32 : List Char → Option (List Char)) (n : Nat) (acc : List (TItem Gen)) (s : PState) :
    PRes (List (TItem Gen)) → Prop
  | .ok items s' => ∃ new, items = acc.reverse ++ new ∧ Rel e f32 s s' (valuesT new) ∧ Neutral e n s s' ∧
      (∀ t, e.toks[s'.pos]? = some t → t.ty = 1 → Bad e n .reject s')
  | .err d _ => Bad e n (verdictOf d.kind) s
  | .panic => True
  | .fuel => True

/-- `parse_unknown_ifdata` at depth `dp ≤ MAX_NESTING_DEPTH`: inside a block (`isB`) `dp` blocks are open; the content of
    a keyword item (`isB = false`) contains no blocks, so there the number of open blocks does not matter.
    `parse_unknown_taggedstruct` at depth `dp` is entered at a `/begin` with `dp` blocks open. Its loop calls
    `parse_unknown_ifdata` with `dp + 1` for keyword items as well; when `dp = MAX_NESTING_DEPTH` that call fails although
    no block is opened, but the loop never gets there: its first item is a block, which fails first. -/
structure AllSpec (e : Env) (f32 : List Char → Option (List Char)) (fuel : Nat) : Prop where
  u : ∀ ctx isB dp n acc s, s.pos ≤ e.toks.size → dp ≤ maxNestingDepth → (isB = true → n = dp) →
    USpec e f32 isB n acc s (unknownIfdata fuel ctx isB dp acc e s)
  ts : ∀ ctx dp s, s.pos ≤ e.toks.size → dp ≤ maxNestingDepth → (∃ t, e.toks[s.pos]? = some t ∧ t.ty = 1) →
    TSSpec e f32 dp s (unknownTaggedstruct fuel ctx dp e s)
  l : ∀ ctx dp acc s, s.pos ≤ e.toks.size → (dp < maxNestingDepth ∨ ∃ t, e.toks[s.pos]? = some t ∧ t.ty = 1) →
    LSpec e f32 dp acc s (unknownTsLoop fuel ctx dp acc e s)

theorem allSpec_zero (f32 : List Char → Option (List Char)) : AllSpec e f32 0 := by
  constructor
  · intro ctx isB dp n acc s _ _ _; rw [unknownIfdata.eq_def]; trivial
  · intro ctx dp s _ _ _; rw [unknownTaggedstruct.eq_def]; trivial
  · intro ctx dp acc s _ _; rw [unknownTsLoop.eq_def]; trivial

/-- beyond the limit `parse_unknown_ifdata` fails at once, with `last_token_position` as the line and without touching
    the parser state -/
theorem unknownIfdata_deep (fuel : Nat) (ctx : Ctx) (isB : Bool) (dp : Nat) (acc : List Gen) (s : PState)
    (h : maxNestingDepth < dp) :
    unknownIfdata fuel ctx isB dp acc e s = .fuel ∨
    unknownIfdata fuel ctx isB dp acc e s = .err ⟨.nestingTooDeep, s.lastLine⟩ s := by
  cases fuel with
  | zero => left; rw [unknownIfdata.eq_def]; rfl
  | succ fuel =>
    right
    rw [unknownIfdata.eq_def]
    dsimp only
    rw [if_pos h]
    rfl

/-- one more element `x` read between `s` and `s1`, then the loop goes on from `s1` -/
theorem USpec.step {f32 : List Char → Option (List Char)} {isB : Bool} {n : Nat} {acc : List Gen} {s s1 : PState} {x : Gen}
    {r : PRes Gen} (hrel : Rel e f32 s s1 (values false x)) (hn : Neutral e n s s1)
    (h : USpec e f32 isB n (x :: acc) s1 r) : USpec e f32 isB n acc s r := by
  cases r with
  | ok g s' =>
    obtain ⟨new, hg, hr, hn', hstop⟩ := h
    refine ⟨x :: new, by simp [hg], ?_, hn.trans hn', hstop⟩
    rw [valuesL]
    exact hrel.trans hr
  | err d s' => exact Bad.of_neutral hn h
  | panic => trivial
  | fuel => trivial

/-- tokens were skipped between `s` and `s1` without producing an element -/
theorem USpec.skip {f32 : List Char → Option (List Char)} {isB : Bool} {n : Nat} {acc : List Gen} {s s1 : PState}
    {r : PRes Gen} (hrel : Rel e f32 s s1 []) (hn : Neutral e n s s1)
    (h : USpec e f32 isB n acc s1 r) : USpec e f32 isB n acc s r := by
  cases r with
  | ok g s' =>
    obtain ⟨new, hg, hr, hn', hstop⟩ := h
    exact ⟨new, hg, by simpa using hrel.trans hr, hn.trans hn', hstop⟩
  | err d s' => exact Bad.of_neutral hn h
  | panic => trivial
  | fuel => trivial

theorem rel_adv {f32 : List Char → Option (List Char)} {s : PState} {t : PTok} {w : WV}
    (ht : e.toks[s.pos]? = some t) (h6 : t.ty ≠ 6) (ha : agree e.strict f32 w t) : Rel e f32 s (adv s t) [w] := by
  have hlt := lt_of_getElem?_some ht
  refine ⟨Nat.le_succ _, hlt, ?_⟩
  show All2 _ _ (span e.toks s.pos (s.pos + 1))
  rw [span_step e.toks s.pos t ht, if_pos h6]
  exact All2.single ha

theorem rel_adv_comment {f32 : List Char → Option (List Char)} {s : PState} {t : PTok}
    (ht : e.toks[s.pos]? = some t) (h6 : t.ty = 6) : Rel e f32 s (adv s t) [] := by
  have hlt := lt_of_getElem?_some ht
  refine ⟨Nat.le_succ _, hlt, ?_⟩
  show All2 _ _ (span e.toks s.pos (s.pos + 1))
  rw [span_step e.toks s.pos t ht, if_neg (by simp [h6])]
  exact All2.nil

theorem bad_eof {n : Nat} {s : PState} (h : e.toks[s.pos]? = none) : Bad e n .reject s := by
  intro st _
  rw [drop_eq_nil h, scanV_nil]

/-- the Number cascade of `parse_unknown_ifdata` -/
theorem u_number_spec {f32 : List Char → Option (List Char)} {fuel : Nat} (ih : AllSpec e f32 fuel)
    {ctx : Ctx} {isB : Bool} {dp n : Nat} (hdp : dp ≤ maxNestingDepth) (hn : isB = true → n = dp)
    {acc : List Gen} {s : PState} {t : PTok}
    (ht : e.toks[s.pos]? = some t) (h5 : t.ty = 5)
    (K : Except Diag (Int × Bool) → PM Gen) (w : Nat)
    (hok : ∀ v hex, K (.ok (v, hex)) = (getLineOffset >>= fun off => unknownIfdata fuel ctx isB dp (.int w off v hex :: acc)))
    (herr : ∀ d, (parseInt (intTyOf w) t.text).isSome = false → USpec e f32 isB n acc s (K (.error d) e (adv s t))) :
    USpec e f32 isB n acc s ((attempt (getInteger ctx w) >>= K) e s) := by
  have hlt := lt_of_getElem?_some ht
  rw [bind_eq]
  unfold attempt
  rw [getInteger_eval ctx w s t ht h5]
  cases hp : parseInt (intTyOf w) t.text with
  | none => exact herr _ (by rw [hp]; rfl)
  | some r =>
    obtain ⟨v, hex⟩ := r
    dsimp only
    rw [hok]
    refine spec_lineOffset trivial ?_
    intro off
    refine USpec.step (x := .int w off v hex) (rel_adv ht (by omega) ⟨h5, hp⟩) (neutral_atom ht (by omega) (by omega)) ?_
    exact ih.u ctx isB dp n _ _ hlt hdp hn

theorem u_spec_step (f32 : List Char → Option (List Char)) (hat : AtomsOk e) {fuel : Nat} (ih : AllSpec e f32 fuel)
    (ctx : Ctx) (isB : Bool) (dp n : Nat) (acc : List Gen) (s : PState) (hs : s.pos ≤ e.toks.size)
    (hdp : dp ≤ maxNestingDepth) (hn : isB = true → n = dp) :
    USpec e f32 isB n acc s (unknownIfdata (fuel + 1) ctx isB dp acc e s) := by
  rw [unknownIfdata.eq_def]
  dsimp only
  rw [if_neg (by omega)]
  simp only [peekToken_bind]
  cases ht : e.toks[s.pos]? with
  | none => exact bad_eof ht
  | some t =>
    have hlt := lt_of_getElem?_some ht
    obtain ⟨hty, hnum, hid⟩ := hat _ _ ht
    dsimp only
    by_cases h0 : t.ty = 0
    · rw [if_pos h0]
      rcases getIdentifier_at ctx ht h0 with h | ⟨s1, h, hp⟩ | ⟨d, s1, h, hst, hbad⟩
      · rw [bind_eq, h]; trivial
      · rw [bind_eq, h]
        dsimp only
        refine spec_lineOffset trivial ?_
        intro off
        refine USpec.step (x := .enumItem off t.text) (getIdentifier_ok f32 h)
          ((neutral_atom ht (by omega) (by omega)).samePos (by rw [hp]; rfl)) ?_
        exact ih.u ctx isB dp n _ s1 (by omega) hdp hn
      · exact absurd (hid h0 hst) hbad
    rw [if_neg h0]
    by_cases h4 : t.ty = 4
    · rw [if_pos h4]
      obtain ⟨r, h⟩ := getString_at ctx ht h4
      rw [bind_eq, h]
      dsimp only
      refine spec_lineOffset trivial ?_
      intro off
      refine USpec.step (x := .str off r) (getString_ok f32 h) (neutral_atom ht (by omega) (by omega)) ?_
      exact ih.u ctx isB dp n _ _ hlt hdp hn
    rw [if_neg h4]
    by_cases h5 : t.ty = 5
    · rw [if_pos h5]
      have hback : ∀ (G : PM Gen), USpec e f32 isB n acc s (G e { s with lastLine := t.line }) →
          USpec e f32 isB n acc s ((undoGetToken >>= fun _ => G) e (adv s t)) := by
        intro G hG
        rw [undo_bind, if_neg (by show s.pos + 1 ≠ 0; omega), adv_back]
        exact hG
      refine u_number_spec ih hdp hn ht h5 _ 2 (fun _ _ => rfl) ?_
      intro _ hn2
      refine hback _ ?_
      refine u_number_spec (s := { s with lastLine := t.line }) ih hdp hn ht h5 _ 3 (fun _ _ => rfl) ?_
      intro _ hn3
      refine hback _ ?_
      refine u_number_spec (s := { s with lastLine := t.line }) ih hdp hn ht h5 _ 7 (fun _ _ => rfl) ?_
      intro _ hn7
      refine hback _ ?_
      rw [bind_eq, getDouble_eval ctx { s with lastLine := t.line } t ht h5]
      cases hfl : t.fl with
      | none =>
        exfalso
        rcases hnum h5 with h | h | h | h
        · rw [hn2] at h; cases h
        · rw [hn3] at h; cases h
        · rw [hn7] at h; cases h
        · rw [hfl] at h; cases h
      | some r =>
        dsimp only
        refine spec_lineOffset trivial ?_
        intro off
        refine USpec.step (s := s) (x := .double off r) (rel_adv ht (by omega) ⟨h5, hfl⟩)
          (neutral_atom ht (by omega) (by omega)) ?_
        exact ih.u ctx isB dp n _ _ hlt hdp hn
    rw [if_neg h5]
    by_cases h1 : t.ty = 1
    · rw [if_pos h1]
      split
      · rename_i hb
        obtain rfl := hn hb
        refine spec_bind trivial trivial ?_ ?_
        · intro d s1 h
          have := ih.ts ctx n s hs hdp ⟨t, ht, h1⟩
          rw [h] at this
          exact this
        · intro ts s1 h
          have := ih.ts ctx n s hs hdp ⟨t, ht, h1⟩
          rw [h] at this
          obtain ⟨items, rfl, hr, hn'⟩ := this
          refine USpec.step (x := .taggedStruct items) hr hn' ?_
          exact ih.u ctx isB n n _ s1 hr.2.1 hdp hn
      · rename_i hb
        exact ⟨[], by simp, Rel.refl f32 s hs, Neutral.refl s, t, ht, .inr ⟨by simpa using hb, h1⟩⟩
    rw [if_neg h1]
    by_cases h2 : t.ty = 2
    · rw [if_pos h2]
      exact ⟨[], by simp, Rel.refl f32 s hs, Neutral.refl s, t, ht, .inl h2⟩
    rw [if_neg h2]
    by_cases h3 : t.ty = 3
    · rw [if_pos h3]
      exact ih.u ctx isB dp n acc s hs hdp hn
    rw [if_neg h3]
    rw [bind_eq, getToken_eval, ht]
    dsimp only
    have h6 : t.ty = 6 := by omega
    refine USpec.skip (rel_adv_comment ht h6) (neutral_atom ht (by omega) (by omega)) ?_
    exact ih.u ctx isB dp n acc _ hlt hdp hn

/-- what `get_next_tag_or_comment` does, as far as the fallback is concerned -/
inductive NTOutcome (e : Env) (f32 : List Char → Option (List Char)) (s : PState) : PRes BlockContent → Prop where
  | panic : NTOutcome e f32 s .panic
  | comment (tok : PTok) (off : Nat) (s1 : PState) : e.toks[s.pos]? = some tok → tok.ty = 6 → s1.pos = s.pos + 1 →
      NTOutcome e f32 s (.ok (.comment tok off) s1)
  | block (tok : PTok) (off : Nat) (s1 : PState) : Rel e f32 s s1 [.begin_, .ident tok.text] →
      (∀ st : List (List Char), scanV maxNestingDepth .normal st (e.toks.toList.drop s.pos) =
        if maxNestingDepth ≤ st.length then .tooDeep
        else scanV maxNestingDepth .normal (tok.text :: st) (e.toks.toList.drop s1.pos)) →
      NTOutcome e f32 s (.ok (.block tok true off) s1)
  | kw (tok : PTok) (off : Nat) (s1 : PState) : Rel e f32 s s1 [.ident tok.text] → (∀ n, Neutral e n s s1) →
      (∀ t, e.toks[s.pos]? = some t → t.ty ≠ 1) → NTOutcome e f32 s (.ok (.block tok false off) s1)
  | none (s1 : PState) : s1.pos = s.pos → (∀ t, e.toks[s.pos]? = some t → t.ty ≠ 1) →
      NTOutcome e f32 s (.ok .none s1)
  | err (d : Diag) (s1 : PState) : s1.pos = s.pos → (∀ n, Bad e n .reject s) → NTOutcome e f32 s (.err d s1)

theorem getNextTagOrComment_outcome (f32 : List Char → Option (List Char)) (ctx : Ctx) (s : PState) :
    NTOutcome e f32 s (getNextTagOrComment ctx e s) := by
  unfold getNextTagOrComment
  simp only [getTokenpos_bind, peekToken_bind]
  generalize ho : e.toks[s.pos]? = o
  split
  · simp only [modifyState_bind]
    refine spec_lineOffset .panic ?_
    intro off
    exact .comment _ off _ ho rfl rfl
  · rename_i text line fileid sym fl
    generalize hbt : ({ ty := 1, text := text, line := line, fileid := fileid, sym := sym, fl := fl } : PTok) = bt at ho
    have hb1 : bt.ty = 1 := by rw [← hbt]
    rw [bind_eq, getToken_eval, ho]
    dsimp only
    have hd := drop_eq_cons ho
    have hlt := lt_of_getElem?_some ho
    refine spec_lineOffset .panic ?_
    intro off
    rw [bind_eq]
    unfold attempt
    generalize hr : expectToken ctx 0 e _ = r
    have hx : ExpectOutcome e 0 (adv s bt) r := by rw [← hr]; exact expectToken_outcome ctx 0 _
    cases hx with
    | ok cs tok s1 hc hty hdrop hpos hsz =>
      have r1 : Rel e f32 s (adv s bt) [.begin_] := rel_adv ho (by omega) hb1
      have hxx := expectToken_ok (s := adv s bt) (by decide) hr
      have r2 : Rel e f32 (adv s bt) s1 [.ident tok.text] := rel_single (w := .ident tok.text) hxx ⟨hty, rfl⟩
      refine .block tok off s1 (r1.trans r2) ?_
      intro st
      have hdrop' : e.toks.toList.drop (s.pos + 1) = cs ++ tok :: e.toks.toList.drop s1.pos := hdrop
      rw [hd, scanV_normal, if_pos hb1, hdrop', scan_comments _ _ _ _ _ hc, scanV_beginTag, if_neg (by omega), if_pos hty]
    | eof cs d s1 hc hdrop =>
      simp only [setTokenpos_bind]
      refine .err d _ rfl ?_
      intro n st _
      have hdrop' : e.toks.toList.drop (s.pos + 1) = cs := hdrop
      rw [hd, scanV_normal, if_pos hb1, hdrop']
      have := scan_comments maxNestingDepth .beginTag st cs [] hc
      rw [List.append_nil] at this
      rw [this, scanV_nil]
    | other cs t' rest d s1 hc h6 hne hdrop =>
      simp only [setTokenpos_bind]
      refine .err d _ rfl ?_
      intro n st _
      have hdrop' : e.toks.toList.drop (s.pos + 1) = cs ++ t' :: rest := hdrop
      rw [hd, scanV_normal, if_pos hb1, hdrop', scan_comments _ _ _ _ _ hc, scanV_beginTag, if_neg h6, if_neg hne]
  · rename_i hnc hnb
    rw [bind_eq]
    unfold attempt
    have hx := expectToken_outcome (e := e) ctx 0 s
    cases hr : expectToken ctx 0 e s with
    | ok tok s1 =>
      rw [hr] at hx
      dsimp only
      refine spec_lineOffset .panic ?_
      intro off
      cases hx with
      | ok cs _ _ hc hty hdrop hpos hsz =>
        have hxx := expectToken_ok (by decide) hr
        refine .kw tok off s1 (rel_single (w := .ident tok.text) hxx ⟨hty, rfl⟩) ?_ ?_
        · intro n st _
          rw [hdrop, scan_comments _ _ _ _ _ hc, scanV_normal, if_neg (by omega), if_neg (by omega)]
        · intro t ht h1
          rw [← ho] at hnb
          obtain ⟨ty, text, line, fileid, sym, fl⟩ := t
          dsimp only at h1
          subst h1
          exact hnb _ _ _ _ _ ht
    | err d s1 =>
      dsimp only
      refine spec_lineOffset .panic ?_
      intro off
      simp only [setTokenpos_bind]
      refine .none _ rfl ?_
      intro t ht h1
      rw [← ho] at hnb
      obtain ⟨ty, text, line, fileid, sym, fl⟩ := t
      dsimp only at h1
      subst h1
      exact hnb _ _ _ _ _ ht
    | panic => rw [hr] at hx; cases hx
    | fuel => rw [hr] at hx; cases hx

def SkipSpec (e : Env) (f32 : List Char → Option (List Char)) (s : PState) : PRes Unit → Prop
  | .ok _ s1 => Rel e f32 s s1 [] ∧ ∀ n, Neutral e n s s1
  | .err _ _ => False
  | .panic => False
  | .fuel => True

theorem skipComments_spec (f32 : List Char → Option (List Char)) (ctx : Ctx) : ∀ (fuel : Nat) (s : PState),
    s.pos ≤ e.toks.size → SkipSpec e f32 s (skipComments ctx fuel e s)
  | 0, _, _ => trivial
  | fuel + 1, s, hs => by
    rw [skipComments]
    simp only [peekToken_bind]
    cases ht : e.toks[s.pos]? with
    | none => exact ⟨Rel.refl f32 s hs, fun _ => Neutral.refl s⟩
    | some t =>
      dsimp only
      split
      · rename_i h6
        rw [bind_eq, getToken_eval, ht]
        dsimp only
        have hlt := lt_of_getElem?_some ht
        have ih := skipComments_spec f32 ctx fuel (adv s t) hlt
        show SkipSpec e f32 s (skipComments ctx fuel e (adv s t))
        generalize skipComments ctx fuel e (adv s t) = r at ih ⊢
        cases r with
        | ok u s1 =>
          have r1 := rel_adv_comment (f32 := f32) ht h6
          exact ⟨by simpa using r1.trans ih.1, fun n => (neutral_atom ht (by omega) (by omega)).trans (ih.2 n)⟩
        | err d s1 => exact ih
        | panic => exact ih
        | fuel => trivial
      · exact ⟨Rel.refl f32 s hs, fun _ => Neutral.refl s⟩

/-- no comment at the cursor: nothing happens -/
theorem skipComments_nop (ctx : Ctx) (fuel : Nat) {s : PState} {t : PTok} (ht : e.toks[s.pos]? = some t) (h6 : t.ty ≠ 6) :
    skipComments ctx (fuel + 1) e s = .ok () s := by
  rw [skipComments]
  simp only [peekToken_bind]
  rw [ht]
  dsimp only
  rw [if_neg h6]
  rfl

/-- the errors of `expect_token` -/
theorem expectTokenAux_err_kind (ctx : Ctx) (ty : Nat) : ∀ (fuel : Nat) (s : PState) (d : Diag) (s' : PState),
    expectTokenAux ctx ty fuel e s = .err d s' → d.kind = .unexpectedEOF ∨ d.kind = .unexpectedTokenType
  | 0, _, _, _, h => by rw [expectTokenAux] at h; cases h
  | fuel + 1, s, d, s', h => by
    rw [expectTokenAux, bind_eq, getToken_eval] at h
    cases ht : e.toks[s.pos]? with
    | none => rw [ht] at h; cases h; exact .inl rfl
    | some t =>
      rw [ht] at h
      dsimp only at h
      split at h
      · exact expectTokenAux_err_kind ctx ty fuel _ d s' h
      · split at h
        · cases h; exact .inr rfl
        · cases h

theorem expectToken_err_kind {ctx : Ctx} {ty : Nat} {s : PState} {d : Diag} {s' : PState}
    (h : expectToken ctx ty e s = .err d s') : d.kind ≠ .nestingTooDeep := by
  unfold expectToken at h
  simp only [getEnv_bind] at h
  rcases expectTokenAux_err_kind ctx ty _ s d s' h with h | h <;> rw [h] <;> decide

/-- the `/end TAG` of an inner block, as the scanner sees it -/
def EndSpec (e : Env) (tag : List Char) (s : PState) : PRes Nat → Prop
  | .ok _ s' => ∀ st, scanV maxNestingDepth .normal (tag :: st) (e.toks.toList.drop s.pos) =
      scanV maxNestingDepth .normal st (e.toks.toList.drop s'.pos)
  | .err d _ => d.kind ≠ .nestingTooDeep ∧
      ∀ st, scanV maxNestingDepth .normal (tag :: st) (e.toks.toList.drop s.pos) = .reject
  | .panic => True
  | .fuel => True

theorem endOfTagged_block_spec (newctx : Ctx) (tag : List Char) {s : PState} {t : PTok}
    (ht : e.toks[s.pos]? = some t) (h2 : t.ty = 2) : EndSpec e tag s (endOfTagged newctx tag true e s) := by
  unfold endOfTagged
  rw [if_pos rfl, bind_eq, expectToken_eval newctx 2 s t ht (by omega), if_neg (by simp [h2])]
  dsimp only
  have hd := drop_eq_cons ht
  refine spec_lineOffset trivial ?_
  intro off
  rw [bind_eq]
  generalize hr : expectToken newctx 0 e _ = r
  have hx : ExpectOutcome e 0 (adv s t) r := by rw [← hr]; exact expectToken_outcome newctx 0 _
  cases hx with
  | ok cs tok s1 hc hty hdrop hpos hsz =>
    dsimp only
    have hdrop' : e.toks.toList.drop (s.pos + 1) = cs ++ tok :: e.toks.toList.drop s1.pos := hdrop
    split
    · rename_i hne
      refine ⟨by simp, ?_⟩
      intro st
      rw [hd, scanV_normal, if_neg (by omega), if_pos h2]
      dsimp only
      rw [hdrop', scan_comments _ _ _ _ _ hc, scanV_endTag, if_neg (by omega), if_pos hty]
      dsimp only
      rw [if_neg hne]
    · rename_i heq
      intro st
      rw [hd, scanV_normal, if_neg (by omega), if_pos h2]
      dsimp only
      rw [hdrop', scan_comments _ _ _ _ _ hc, scanV_endTag, if_neg (by omega), if_pos hty]
      dsimp only
      rw [if_pos (by simpa using heq)]
  | eof cs d s1 hc hdrop =>
    refine ⟨expectToken_err_kind hr, ?_⟩
    intro st
    have hdrop' : e.toks.toList.drop (s.pos + 1) = cs := hdrop
    rw [hd, scanV_normal, if_neg (by omega), if_pos h2]
    dsimp only
    rw [hdrop']
    have := scan_comments maxNestingDepth .endTag (tag :: st) cs [] hc
    rw [List.append_nil] at this
    rw [this, scanV_nil]
  | other cs t' rest d s1 hc h6 hne hdrop =>
    refine ⟨expectToken_err_kind hr, ?_⟩
    intro st
    have hdrop' : e.toks.toList.drop (s.pos + 1) = cs ++ t' :: rest := hdrop
    rw [hd, scanV_normal, if_neg (by omega), if_pos h2]
    dsimp only
    rw [hdrop', scan_comments _ _ _ _ _ hc, scanV_endTag, if_neg h6, if_neg hne]

theorem LSpec.step {f32 : List Char → Option (List Char)} {n : Nat} {acc : List (TItem Gen)} {s s1 : PState}
    {it : TItem Gen}
    {r : PRes (List (TItem Gen))} (hrel : Rel e f32 s s1 (valuesT [it])) (hn : Neutral e n s s1)
    (h : LSpec e f32 n (it :: acc) s1 r) : LSpec e f32 n acc s r := by
  cases r with
  | ok items s' =>
    obtain ⟨new, hg, hr, hn', hstop⟩ := h
    refine ⟨it :: new, by simp [hg], ?_, hn.trans hn', hstop⟩
    rw [valuesT_cons]
    exact hrel.trans hr
  | err d s' => exact Bad.of_neutral hn h
  | panic => trivial
  | fuel => trivial

theorem LSpec.skip {f32 : List Char → Option (List Char)} {n : Nat} {acc : List (TItem Gen)} {s s1 : PState}
    {r : PRes (List (TItem Gen))} (hrel : Rel e f32 s s1 []) (hn : Neutral e n s s1)
    (h : LSpec e f32 n acc s1 r) : LSpec e f32 n acc s r := by
  cases r with
  | ok items s' =>
    obtain ⟨new, hg, hr, hn', hstop⟩ := h
    exact ⟨new, hg, by simpa using hrel.trans hr, hn.trans hn', hstop⟩
  | err d s' => exact Bad.of_neutral hn h
  | panic => trivial
  | fuel => trivial

theorem l_spec_step (f32 : List Char → Option (List Char)) {fuel : Nat}
    (ih : AllSpec e f32 fuel) (ctx : Ctx) (dp : Nat) (acc : List (TItem Gen)) (s : PState) (hs : s.pos ≤ e.toks.size)
    (hpre : dp < maxNestingDepth ∨ ∃ t, e.toks[s.pos]? = some t ∧ t.ty = 1) :
    LSpec e f32 dp acc s (unknownTsLoop (fuel + 1) ctx dp acc e s) := by
  rw [unknownTsLoop.eq_def]
  dsimp only
  have ho := getNextTagOrComment_outcome (e := e) f32 ctx s
  rw [bind_eq]
  unfold attempt
  generalize getNextTagOrComment ctx e s = r0 at ho
  cases ho with
  | panic => trivial
  | comment tok off s1 ht h6 hp =>
    have hlt := lt_of_getElem?_some ht
    have hdp : dp < maxNestingDepth := by
      rcases hpre with h | ⟨t, ht', h1⟩
      · exact h
      · rw [ht] at ht'; cases ht'; omega
    exact LSpec.skip ((rel_adv_comment ht h6).samePos (by rw [hp]; rfl))
      ((neutral_atom ht (by omega) (by omega)).samePos (by rw [hp]; rfl)) (ih.l ctx dp acc s1 (by omega) (.inl hdp))
  | block tok off s1 hrel hscan =>
    dsimp only
    simp only [getNextId_bind]
    by_cases hdp : dp + 1 ≤ maxNestingDepth
    · have hu := ih.u ⟨tok.text, tok.fileid, tok.line⟩ true (dp + 1) (dp + 1) [] { s1 with seqId := s1.seqId + 1 }
        hrel.2.1 hdp (fun _ => rfl)
      refine spec_bind trivial trivial ?_ ?_
      · intro d s2 h
        rw [h] at hu
        intro st hst
        rw [hscan, if_neg (by omega)]
        exact hu _ (by simp [hst])
      · intro result s2 h
        rw [h] at hu
        obtain ⟨new, hres, hr2, hn2, t2, ht2, hstop⟩ := hu
        have h22 : t2.ty = 2 := by
          rcases hstop with h | ⟨h, _⟩
          · exact h
          · cases h
        have hes := endOfTagged_block_spec ⟨tok.text, tok.fileid, tok.line⟩ tok.text ht2 h22
        refine spec_bind trivial trivial ?_ ?_
        · intro d s3 h3
          rw [h3] at hes
          intro st hst
          rw [hscan, if_neg (by omega), hn2 (tok.text :: st) (by simp [hst]), hes.2 st]
          unfold verdictOf
          rw [if_neg hes.1]
        · intro endOff s3 h3
          rw [h3] at hes
          have hr3 := endOfTagged_ok f32 h3 hr2.2.1
          rw [if_pos rfl] at hr3
          have hr2' : Rel e f32 s1 s2 (valuesL new) := hr2.fromPos rfl
          refine LSpec.step (it := ⟨tok.line, s1.seqId + 1, off, endOff, tok.text, result, true⟩) ?_ ?_
            (ih.l ctx dp _ s3 hr3.2.1 (.inl (by omega)))
          · have := (hrel.trans hr2').trans hr3
            subst hres
            simpa [valuesT, values] using this
          · intro st hst
            rw [hscan, if_neg (by omega), hn2 (tok.text :: st) (by simp [hst])]
            exact hes st
    · -- the item would be block number `MAX_NESTING_DEPTH + 1`
      rw [bind_eq]
      rcases unknownIfdata_deep (e := e) fuel ⟨tok.text, tok.fileid, tok.line⟩ true (dp + 1) []
        { s1 with seqId := s1.seqId + 1 } (by omega) with h | h
      · rw [h]; trivial
      · rw [h]
        intro st hst
        rw [hscan, if_pos (by omega)]
        rfl
  | kw tok off s1 hrel hn hnb =>
    dsimp only
    simp only [getNextId_bind]
    have hdp : dp < maxNestingDepth := by
      rcases hpre with h | ⟨t, ht', h1⟩
      · exact h
      · exact absurd h1 (hnb t ht')
    have hu := ih.u ⟨tok.text, tok.fileid, tok.line⟩ false (dp + 1) dp [] { s1 with seqId := s1.seqId + 1 } hrel.2.1
      (by omega) (fun h => by cases h)
    refine spec_bind trivial trivial ?_ ?_
    · intro d s2 h
      rw [h] at hu
      exact Bad.of_neutral (hn dp) hu
    · intro result s2 h
      rw [h] at hu
      obtain ⟨new, hres, hr2, hn2, _⟩ := hu
      have hr2' : Rel e f32 s1 s2 (valuesL new) := hr2.fromPos rfl
      have hn2' : Neutral e dp s1 s2 := hn2.fromPos rfl
      unfold endOfTagged
      rw [if_neg (by simp)]
      rw [pure_bind_eval]
      refine LSpec.step (it := ⟨tok.line, s1.seqId + 1, off, 0, tok.text, result, false⟩) ?_ ((hn dp).trans hn2')
        (ih.l ctx dp _ s2 hr2.2.1 (.inl hdp))
      have := hrel.trans hr2'
      subst hres
      simpa [valuesT, values] using this
  | none s1 hp hnb =>
    refine ⟨[], by simp, (Rel.refl f32 s hs).samePos hp, (Neutral.refl s).samePos hp, ?_⟩
    intro t ht h1
    rw [hp] at ht
    exact absurd h1 (hnb t ht)
  | err d s1 hp hbad =>
    refine ⟨[], by simp, (Rel.refl f32 s hs).samePos hp, (Neutral.refl s).samePos hp, ?_⟩
    intro t _ _
    exact (hbad dp).fromPos hp

theorem ts_spec_step (f32 : List Char → Option (List Char)) {fuel : Nat}
    (ih : AllSpec e f32 fuel) (ctx : Ctx) (dp : Nat) (s : PState) (hs : s.pos ≤ e.toks.size)
    (hb : ∃ t, e.toks[s.pos]? = some t ∧ t.ty = 1) :
    TSSpec e f32 dp s (unknownTaggedstruct (fuel + 1) ctx dp e s) := by
  rw [unknownTaggedstruct.eq_def]
  dsimp only
  simp only [getEnv_bind]
  obtain ⟨tb, htb, hb1⟩ := hb
  rw [bind_eq, skipComments_nop ctx _ htb (by omega)]
  dsimp only
  have hl := ih.l ctx dp [] s hs (.inr ⟨tb, htb, hb1⟩)
  refine spec_bind trivial trivial ?_ ?_
  · intro d s2 h2; rw [h2] at hl; exact hl
  · intro items s2 h2
    rw [h2] at hl
    obtain ⟨new, hitems, hr2, hn2, hstop⟩ := hl
    simp only [List.reverse_nil, List.nil_append] at hitems
    subst hitems
    simp only [peekToken_bind]
    cases ht : e.toks[s2.pos]? with
    | none => exact ⟨items, rfl, hr2, hn2⟩
    | some t =>
      dsimp only
      split
      · rename_i h1
        exact Bad.of_neutral hn2 (hstop t ht h1)
      · exact ⟨items, rfl, hr2, hn2⟩

theorem allSpec (f32 : List Char → Option (List Char)) (hat : AtomsOk e) :
    ∀ fuel, AllSpec e f32 fuel
  | 0 => allSpec_zero f32
  | fuel + 1 =>
    have ih := allSpec f32 hat fuel
    ⟨fun ctx isB dp n acc s hs hdp hn => u_spec_step f32 hat ih ctx isB dp n acc s hs hdp hn,
     fun ctx dp s hs _ hb => ts_spec_step f32 ih ctx dp s hs hb,
     fun ctx dp acc s hs hpre => l_spec_step f32 ih ctx dp acc s hs hpre⟩

/-- `parse_unknown_ifdata_start`: a result means `accept`, `NestingTooDeep` means `tooDeep`, any other error `reject` -/
def USSpec (e : Env) (f32 : List Char → Option (List Char)) (s : PState) : PRes Gen → Prop
  | .ok g s' => Rel e f32 s s' (values true g) ∧ Neutral e 0 s s' ∧ AtEnd e s'
  | .err d _ => Bad e 0 (verdictOf d.kind) s
  | .panic => True
  | .fuel => True

theorem USSpec.of_u {f32 : List Char → Option (List Char)} {s : PState} {r : PRes Gen}
    (h : USpec e f32 true 0 [] s r) : USSpec e f32 s r := by
  cases r with
  | ok g s' =>
    obtain ⟨new, hg, hr, hn, t, ht, hstop⟩ := h
    subst hg
    refine ⟨by simpa [values] using hr, hn, t, ht, ?_⟩
    rcases hstop with h | ⟨h, _⟩
    · exact h
    · cases h
  | err d s' => exact h
  | panic => trivial
  | fuel => trivial

theorem unknownStart_spec (f32 : List Char → Option (List Char)) (hat : AtomsOk e)
    (ctx : Ctx) (s : PState) (hs : s.pos ≤ e.toks.size) : USSpec e f32 s (unknownStart ctx e s) := by
  unfold unknownStart
  simp only [getEnv_bind, peekToken_bind]
  have hA := allSpec f32 hat (unknownFuel e.toks.size)
  have h0 : 0 ≤ maxNestingDepth := Nat.zero_le _
  cases ht : e.toks[s.pos]? with
  | none => exact USSpec.of_u (hA.u ctx true 0 0 [] s hs h0 (fun _ => rfl))
  | some t =>
    have hlt := lt_of_getElem?_some ht
    dsimp only
    split
    · rename_i h0'
      rw [bind_eq, getToken_eval, ht]
      dsimp only
      refine spec_lineOffset trivial ?_
      intro startOff
      simp only [getNextId_bind]
      have hu := hA.u ⟨t.text, t.fileid, t.line⟩ true 0 0 []
        { pos := s.pos + 1, lastLine := t.line, seqId := s.seqId + 1, log := s.log, ver := s.ver } hlt h0 (fun _ => rfl)
      refine spec_bind trivial trivial ?_ ?_
      · intro d s2 h
        rw [h] at hu
        exact Bad.of_neutral (neutral_atom ht (by omega) (by omega)) hu
      · intro result s2 h
        rw [h] at hu
        obtain ⟨new, hres, hr2, hn2, t2, ht2, hstop⟩ := hu
        have hr2' : Rel e f32 (adv s t) s2 (valuesL new) := hr2.fromPos rfl
        have hn2' : Neutral e 0 (adv s t) s2 := hn2.fromPos rfl
        have hpos : s.pos + 1 ≤ s2.pos := hr2'.1
        simp only [undo_bind]
        rw [if_neg (by omega)]
        refine spec_lineOffset trivial ?_
        intro endOff
        have hlt2 : s2.pos - 1 < e.toks.size := by have := hr2'.2.1; omega
        have hgt : getToken ctx e { s2 with pos := s2.pos - 1 } =
            .ok e.toks[s2.pos - 1] (adv { s2 with pos := s2.pos - 1 } e.toks[s2.pos - 1]) := by
          rw [getToken_eval]
          dsimp only
          rw [getElem?_pos e.toks (s2.pos - 1) hlt2]
          rfl
        rw [bind_eq]
        unfold attempt
        rw [hgt]
        dsimp only
        have r1 : Rel e f32 s (adv s t) [.ident t.text] := rel_adv ht (by omega) ⟨h0', rfl⟩
        refine ⟨?_, ?_, t2, ?_, ?_⟩
        · have := r1.trans hr2'
          subst hres
          have hp : s2.pos - 1 + 1 = s2.pos := by omega
          refine Rel.samePos ?_ (show _ = s2.pos from hp)
          simpa [values, valuesL, valuesT] using this
        · exact ((neutral_atom ht (by omega) (by omega)).trans hn2').samePos (show s2.pos - 1 + 1 = s2.pos by omega)
        · show e.toks[s2.pos - 1 + 1]? = some t2
          rw [show s2.pos - 1 + 1 = s2.pos by omega]; exact ht2
        · rcases hstop with h | ⟨h, _⟩
          · exact h
          · cases h
    · exact USSpec.of_u (hA.u ctx true 0 0 [] s hs h0 (fun _ => rfl))

end A2l.IfData
