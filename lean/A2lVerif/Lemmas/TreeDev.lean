import A2lVerif.Lemmas.TreeSkip
/-! helper lemmas for C04 (deviation classes) -/
namespace A2l.Tree
open A2l.G

/-! ## `expect_token` -/

theorem expectTokenAux_succ (ctx : Ctx) (ty fuel : Nat) :
    expectTokenAux ctx ty (fuel + 1) =
      (getToken ctx >>= fun t =>
        if t.ty = 6 then expectTokenAux ctx ty fuel
        else if t.ty ≠ ty then fail .unexpectedTokenType
        else pure t) := rfl

theorem expectToken_def (ctx : Ctx) (ty : Nat) (e : Env) (s : PState) :
    expectToken ctx ty e s = expectTokenAux ctx ty (e.toks.size + 1) e s := rfl

/-- the state after reading `t` -/
abbrev PState.step (s : PState) (t : PTok) : PState := { s with pos := s.pos + 1, lastLine := t.line }

/-- at the end of the token array: `UnexpectedEOF`, state unchanged -/
theorem expectToken_none (ctx : Ctx) (ty : Nat) (e : Env) (s : PState) (h : e.toks[s.pos]? = none) :
    expectToken ctx ty e s = .err ⟨.unexpectedEOF, s.lastLine⟩ s := by
  rw [expectToken_def, expectTokenAux_succ, bind_def, getToken_none ctx e s h]

/-- a non-comment token of another type: `UnexpectedTokenType` at the line of that token -/
theorem expectToken_mismatch (ctx : Ctx) (ty : Nat) (e : Env) (s : PState) (t : PTok)
    (h : e.toks[s.pos]? = some t) (hne : t.ty ≠ ty) (hnc : t.ty ≠ 6) :
    expectToken ctx ty e s = .err ⟨.unexpectedTokenType, t.line⟩ { s with pos := s.pos + 1, lastLine := t.line } := by
  rw [expectToken_def, expectTokenAux_succ, bind_def, getToken_some ctx e s t h]
  simp only [if_neg hnc, hne, ne_eq, not_false_eq_true, ↓reduceIte, fail]

/-- a token of the expected type -/
theorem expectToken_match (ctx : Ctx) (ty : Nat) (e : Env) (s : PState) (t : PTok)
    (h : e.toks[s.pos]? = some t) (hty : t.ty = ty) (hnc : ty ≠ 6) :
    expectToken ctx ty e s = .ok t { s with pos := s.pos + 1, lastLine := t.line } := by
  subst hty
  rw [expectToken_def, expectTokenAux_succ, bind_def, getToken_some ctx e s t h]
  simp only [if_neg hnc, ne_eq, not_true_eq_false, ↓reduceIte, pure_def]

/-! ## `get_identifier` and the generated enum parser -/

/-- a syntactically valid identifier is returned as it is, in both modes -/
theorem getIdentifier_valid (ctx : Ctx) (e : Env) (s : PState) (t : PTok)
    (h : e.toks[s.pos]? = some t) (hty : t.ty = 0)
    (hvalid : ∃ c cs, t.text = c :: cs ∧ isAsciiDigit c = false ∧ utf8Len t.text ≤ 1024) :
    getIdentifier ctx e s = .ok t.text { s with pos := s.pos + 1, lastLine := t.line } := by
  obtain ⟨c, cs, htext, hdig, hlen⟩ := hvalid
  have hlen' : ¬ (utf8Len (c :: cs) > 1024) := by rw [← htext]; omega
  simp only [getIdentifier, bind_def, expectToken_match ctx 0 e s t h hty (by decide), htext, hdig, hlen',
    Bool.false_eq_true, decide_false, Bool.or_self, ↓reduceIte, pure_def]

/-- the generated enum parser after a valid identifier: everything that remains is the table lookup and the
    version checks, in the state after the identifier -/
theorem parseEnum_valid (items : List EnumItem) (ctx : Ctx) (e : Env) (s : PState) (t : PTok)
    (h : e.toks[s.pos]? = some t) (hty : t.ty = 0)
    (hvalid : ∃ c cs, t.text = c :: cs ∧ isAsciiDigit c = false ∧ utf8Len t.text ≤ 1024) :
    parseEnum items ctx e s =
      (match lookupEnumItem items t.sym with
        | some it => (do
          if it.vlo ≠ 0 ∧ s.ver < it.vlo then errorOrLog .enumRefTooNew
          if it.vhi ≠ 0 ∧ s.ver > it.vhi then logWarning .enumRefDeprecated
          pure t.text : PM (List Char))
        | none => fail .invalidEnumValue) e { s with pos := s.pos + 1, lastLine := t.line } := by
  simp only [parseEnum, bind_def, getIdentifier_valid ctx e s t h hty hvalid, getEnv, getState,
    Nat.add_sub_cancel, h]
  rfl

/-! ## one turn of the tagged loop for a recognised tag -/

/-- what `parseTagged` does with a recognised tag once the block-form check has passed: version checks, the
    element's own parser, multiplicity, next turn -/
def taggedArmBody (fuel : Nat) (ctx : Ctx) (arms : List Arm) (parentIsBlock : Bool) (children : List (List Val))
    (comments : List Cmt) (tok : PTok) (off i : Nat) (arm : Arm) : PM (List (List Val) × List Cmt) := do
  let s ← getState
  if arm.vlo ≠ 0 ∧ s.ver < arm.vlo then errorOrLog .blockRefTooNew
  let s ← getState
  if arm.vhi ≠ 0 ∧ s.ver > arm.vhi then logWarning .blockRefDeprecated
  let v ← parseType fuel arm.ty ⟨tok.text, tok.fileid, tok.line⟩ off
  if arm.repeat_ then
    parseTagged fuel ctx arms parentIsBlock (setAt children i (· ++ [v])) comments
  else do
    let present := match children[i]? with | some (_ :: _) => true | _ => false
    if present then errorOrLog .invalidMultiplicityTooMany
    parseTagged fuel ctx arms parentIsBlock (setAt children i (fun _ => [v])) comments

/-- a recognised tag: block-form checks, then `taggedArmBody`, in the state after the tag -/
theorem parseTagged_arm (e : Env) (s s1 : PState) (ctx : Ctx) (arms : List Arm) (pib : Bool)
    (children : List (List Val)) (comments : List Cmt) (fuel : Nat) (tok : PTok) (isBlock : Bool) (off i : Nat) (arm : Arm)
    (hget : getNextTagOrComment ctx e s = .ok (.block tok isBlock off) s1)
    (hidx : arms.findIdx? (·.tag == tok.sym) = some i) (harm : arms[i]? = some arm) :
    parseTagged (fuel + 1) ctx arms pib children comments e s =
      (do
        if arm.block ∧ !isBlock then fail .incorrectBlockError
        if !arm.block ∧ isBlock then fail .incorrectKeywordError
        taggedArmBody fuel ctx arms pib children comments tok off i arm : PM _) e s1 := by
  rw [parseTagged, bind_def, hget]
  dsimp only
  rw [hidx]
  dsimp only
  rw [harm]
  rfl

/-- wrong block form: the hard error of the corresponding class, raised in the state after the tag -/
theorem parseTagged_arm_form (e : Env) (s s1 : PState) (ctx : Ctx) (arms : List Arm) (pib : Bool)
    (children : List (List Val)) (comments : List Cmt) (fuel : Nat) (tok : PTok) (isBlock : Bool) (off i : Nat) (arm : Arm)
    (hget : getNextTagOrComment ctx e s = .ok (.block tok isBlock off) s1)
    (hidx : arms.findIdx? (·.tag == tok.sym) = some i) (harm : arms[i]? = some arm) (hform : arm.block ≠ isBlock) :
    parseTagged (fuel + 1) ctx arms pib children comments e s =
      .err ⟨if arm.block then .incorrectBlockError else .incorrectKeywordError, s1.lastLine⟩ s1 := by
  rw [parseTagged_arm e s s1 ctx arms pib children comments fuel tok isBlock off i arm hget hidx harm]
  cases hb : arm.block <;> cases isBlock
  · exact absurd hb hform
  · rfl
  · rfl
  · exact absurd hb hform

/-- right block form: the turn continues with the version checks -/
theorem parseTagged_arm_ok (e : Env) (s s1 : PState) (ctx : Ctx) (arms : List Arm) (pib : Bool)
    (children : List (List Val)) (comments : List Cmt) (fuel : Nat) (tok : PTok) (isBlock : Bool) (off i : Nat) (arm : Arm)
    (hget : getNextTagOrComment ctx e s = .ok (.block tok isBlock off) s1)
    (hidx : arms.findIdx? (·.tag == tok.sym) = some i) (harm : arms[i]? = some arm) (hform : arm.block = isBlock) :
    parseTagged (fuel + 1) ctx arms pib children comments e s =
      taggedArmBody fuel ctx arms pib children comments tok off i arm e s1 := by
  rw [parseTagged_arm e s s1 ctx arms pib children comments fuel tok isBlock off i arm hget hidx harm]
  cases hb : arm.block <;> cases isBlock
  · rfl
  · exact absurd (hb.symm.trans hform) (by decide)
  · exact absurd (hb.symm.trans hform) (by decide)
  · rfl

/-- element newer than the file version, strict mode: `BlockRefTooNew` before anything else -/
theorem taggedArmBody_too_new_strict (e : Env) (hstrict : e.strict = true) (s1 : PState) (fuel : Nat) (ctx : Ctx)
    (arms : List Arm) (pib : Bool) (children : List (List Val)) (comments : List Cmt) (tok : PTok) (off i : Nat) (arm : Arm)
    (hver : arm.vlo ≠ 0 ∧ s1.ver < arm.vlo) :
    taggedArmBody fuel ctx arms pib children comments tok off i arm e s1 = .err ⟨.blockRefTooNew, s1.lastLine⟩ s1 := by
  rw [taggedArmBody, bind_def]
  simp only [getState]
  rw [if_pos hver, bind_def]
  simp only [errorOrLog, bind_def, getEnv, hstrict, ↓reduceIte, fail]

end A2l.Tree
