import A2lVerif.Lemmas.Sort15Push
import A2lVerif.Lemmas.Sort15Iter
/-! C15: histories that interleave `push` of new elements with `sort_new_items()` calls, in any order and number.
    The invariant `IterInv` survives every step when the caller pushes elements with fresh (tag, name, content) and
    without a position into lists (not into `Option` fields), and the written order of the elements that were placed
    at the start never changes. -/
namespace A2l.Srt.L15
open List A2l.ListOrder

inductive Op where
  | sni
  | push (i : Nat) (e : Elem)

def countSni : List Op → Nat
  | [] => 0
  | .sni :: ops => countSni ops + 1
  | .push _ _ :: ops => countSni ops

def runOps : List Op → RModule → Out RModule
  | [], m => .ok m
  | .sni :: ops, m =>
    match sortNewItems m with
    | .panic => .panic
    | .ok m1 => runOps ops m1
  | .push i e :: ops, m => runOps ops (pushNew m i e)

/-- what the caller of `push` respects: the new element has no position, its (tag, name, content) is not in the
    module yet, and it goes into a list (the `Option` fields are assigned, not pushed to) -/
def Admissible : List Op → RModule → Prop
  | [], _ => True
  | .sni :: ops, m => ∀ m1, sortNewItems m = .ok m1 → Admissible ops m1
  | .push i e :: ops, m =>
    e.uid = 0 ∧ e.key ∉ m.toModule.all.map Elem.key ∧ (∀ r, m.sections[i]? = some r → ¬ isSingle r.rule) ∧
      Admissible ops (pushNew m i e)

theorem pair_sublist_append_singleton {α} {a b e : α} : ∀ {l : List α}, [a, b] <+ l ++ [e] →
    [a, b] <+ l ∨ (b = e ∧ a ∈ l)
  | [], h => by
    have := h.length_le
    simp at this
  | x :: l, h => by
    rw [List.cons_append] at h
    rcases pair_sublist_cons_iff.1 h with h1 | ⟨hax, hb⟩
    · rcases pair_sublist_append_singleton h1 with h2 | ⟨hbe, ha⟩
      · exact .inl (pair_sublist_cons_iff.2 (.inl h2))
      · exact .inr ⟨hbe, List.mem_cons_of_mem _ ha⟩
    · rcases List.mem_append.1 hb with hb | hb
      · exact .inl (pair_sublist_cons_iff.2 (.inr ⟨hax, hb⟩))
      · exact .inr ⟨by simpa using hb, by rw [hax]; exact List.mem_cons_self⟩

/-- the elements after a push: the old ones plus the new one, or nothing happened (index out of range) -/
theorem pushSec_perm (rs : List RSection) (i : Nat) (e : Elem) :
    ((pushSec rs i e).flatMap (·.sec.elems)).Perm (rs.flatMap (·.sec.elems) ++ [e]) ∨ pushSec rs i e = rs := by
  induction rs generalizing i with
  | nil => exact .inr rfl
  | cons r rs ih =>
    cases i with
    | zero =>
      left
      simp only [pushSec, List.flatMap_cons]
      rw [List.append_assoc, List.append_assoc]
      exact List.Perm.append_left _ List.perm_append_comm
    | succ i =>
      rcases ih i with h | h
      · left
        simp only [pushSec, List.flatMap_cons, List.append_assoc]
        exact List.Perm.append_left _ h
      · right
        simp only [pushSec, h]

theorem pushNew_keys (m : RModule) (i : Nat) (e : Elem) (hk : (m.toModule.all.map Elem.key).Nodup)
    (hfresh : e.key ∉ m.toModule.all.map Elem.key) : ((pushNew m i e).toModule.all.map Elem.key).Nodup := by
  rw [all_eq] at hk hfresh ⊢
  rcases pushSec_perm m.sections i e with h | h
  · have hp : ((pushSec m.sections i e).flatMap (·.sec.elems) ++ m.comments).Perm
        (e :: (m.sections.flatMap (·.sec.elems) ++ m.comments)) := by
      refine (List.Perm.append_right _ h).trans ?_
      rw [List.append_assoc]
      refine (List.perm_append_comm_assoc _ _ _).trans ?_
      exact List.Perm.refl _
    have hp2 := hp.map Elem.key
    show (((pushSec m.sections i e).flatMap (·.sec.elems) ++ m.comments).map Elem.key).Nodup
    refine hp2.symm.nodup ?_
    rw [List.map_cons, List.nodup_cons]
    exact ⟨hfresh, hk⟩
  · show (((pushSec m.sections i e).flatMap (·.sec.elems) ++ m.comments).map Elem.key).Nodup
    rw [h]; exact hk

theorem pushSec_singles (rs : List RSection) (i : Nat) (e : Elem)
    (hs : ∀ r ∈ rs, isSingle r.rule → r.sec.elems.length ≤ 1) (hg : ∀ r, rs[i]? = some r → ¬ isSingle r.rule) :
    ∀ r ∈ pushSec rs i e, isSingle r.rule → r.sec.elems.length ≤ 1 := by
  induction rs generalizing i with
  | nil => intro r hr; cases hr
  | cons r0 rs ih =>
    cases i with
    | zero =>
      intro r hr hsi
      simp only [pushSec, List.mem_cons] at hr
      rcases hr with rfl | hr
      · exact absurd hsi (hg r0 (by simp))
      · exact hs r (List.mem_cons_of_mem _ hr) hsi
    | succ i =>
      intro r hr hsi
      simp only [pushSec, List.mem_cons] at hr
      rcases hr with rfl | hr
      · exact hs r List.mem_cons_self hsi
      · exact ih i (fun r hr => hs r (List.mem_cons_of_mem _ hr)) (fun r h => hg r (by simpa using h)) r hr hsi

theorem tieSortedList_push (es : List Elem) (e : Elem) (he : e.uid = 0) (h : TieSortedList es) :
    TieSortedList (es ++ [e]) := by
  intro a b hab ha hu hl
  rcases pair_sublist_append_singleton hab with h1 | ⟨rfl, _⟩
  · exact h a b h1 ha hu hl
  · exact absurd (hu.trans he) ha

theorem pushSec_ties (rs : List RSection) (i : Nat) (e : Elem) (he : e.uid = 0)
    (ht : ∀ r ∈ rs, r.rule = .objectList → TieSortedList r.sec.elems) :
    ∀ r ∈ pushSec rs i e, r.rule = .objectList → TieSortedList r.sec.elems := by
  induction rs generalizing i with
  | nil => intro r hr; cases hr
  | cons r0 rs ih =>
    cases i with
    | zero =>
      intro r hr ho
      simp only [pushSec, List.mem_cons] at hr
      rcases hr with rfl | hr
      · exact tieSortedList_push _ _ he (ht r0 List.mem_cons_self ho)
      · exact ht r (List.mem_cons_of_mem _ hr) ho
    | succ i =>
      intro r hr ho
      simp only [pushSec, List.mem_cons] at hr
      rcases hr with rfl | hr
      · exact ht r List.mem_cons_self ho
      · exact ih i (fun r hr => ht r (List.mem_cons_of_mem _ hr)) r hr ho

/-- **the invariant survives an admissible push** -/
theorem iterInv_push (m : RModule) (i : Nat) (e : Elem) (hi : IterInv m) (he : e.uid = 0)
    (hfresh : e.key ∉ m.toModule.all.map Elem.key) (hg : ∀ r, m.sections[i]? = some r → ¬ isSingle r.rule) :
    IterInv (pushNew m i e) :=
  ⟨pushNew_keys m i e hi.keys hfresh, pushSec_singles _ _ _ hi.singles hg, pushSec_ties _ _ _ he hi.ties⟩

/-- the invariant holds at the end of every admissible history that returns -/
theorem iterInv_runOps : ∀ (ops : List Op) (m m' : RModule), runOps ops m = .ok m' → IterInv m → Admissible ops m →
    IterInv m'
  | [], m, m', h, hi, _ => by
    simp only [runOps, Out.ok.injEq] at h
    exact h ▸ hi
  | .sni :: ops, m, m', h, hi, ha => by
    rw [runOps] at h
    cases h1 : sortNewItems m with
    | panic => simp [h1] at h
    | ok m1 =>
      simp only [h1] at h
      exact iterInv_runOps ops m1 m' h (iterInv_step h1 hi) (ha m1 h1)
  | .push i e :: ops, m, m', h, hi, ha => by
    rw [runOps] at h
    obtain ⟨he, hf, hg, ha'⟩ := ha
    exact iterInv_runOps ops _ m' h (iterInv_push m i e hi he hf hg) ha'

/-- **any history of pushes and `sort_new_items()` calls that returns keeps the written order of the elements that
    were placed at the start** (their uids have grown by the factor 2^(number of calls)) -/
theorem runOps_placed_stable : ∀ (ops : List Op) (m m' : RModule), runOps ops m = .ok m' → IterInv m →
    Admissible ops m →
    (writeOrder m'.toModule).filter (placedK (countSni ops)) =
      ((writeOrder m.toModule).filter placed).map (dblK (countSni ops))
  | [], m, m', h, hi, _ => by
    simp only [runOps, Out.ok.injEq] at h
    subst h
    exact iterate_placed_stable 0 m m rfl hi
  | .sni :: ops, m, m', h, hi, ha => by
    rw [runOps] at h
    cases h1 : sortNewItems m with
    | panic => simp [h1] at h
    | ok m1 =>
      simp only [h1] at h
      have hi1 := iterInv_step h1 hi
      have hk := runOps_placed_stable ops m1 m' h hi1 (ha m1 h1)
      have hone := writeOrder_placed_stable_ties h1 hi.singles (nodup_of_map_nodup _ hi.keys) hi.ties
      simp only [countSni]
      generalize countSni ops = k at hk ⊢
      have hsplit : (writeOrder m'.toModule).filter (placedK (k + 1)) =
          ((writeOrder m'.toModule).filter (placedK k)).filter (placedK (k + 1)) := by
        rw [List.filter_filter]
        apply List.filter_congr
        intro e _
        by_cases hp : placedK (k + 1) e = true
        · simp [hp, placedK_succ_imp k e hp]
        · simp [hp]
      rw [hsplit, hk, List.filter_map]
      have hf : ((writeOrder m1.toModule).filter placed).filter (placedK (k + 1) ∘ dblK k) =
          (writeOrder m1.toModule).filter wasPlaced := by
        rw [List.filter_filter]
        apply List.filter_congr
        intro e _
        simp only [Function.comp, placedK_succ_dblK]
        by_cases hw : wasPlaced e = true
        · simp [hw, placed_of_wasPlaced e hw]
        · simp [hw]
      rw [hf, hone, List.map_map]
      apply List.map_congr_left
      intro e _
      exact dblK_succ k e
  | .push i e :: ops, m, m', h, hi, ha => by
    rw [runOps] at h
    obtain ⟨he, hf, hg, ha'⟩ := ha
    have hi1 := iterInv_push m i e hi he hf hg
    have hk := runOps_placed_stable ops _ m' h hi1 ha'
    simp only [countSni]
    rw [hk, push_keeps_placed_order m i e he (nodup_of_map_nodup _ hi1.keys)]

/-! ### a list without a placed element (known finding C15-end-group) -/

theorem renumber_all_new : ∀ (es : List Elem), (∀ e ∈ es, e.uid = 0) → renumber 0 es = .ok es
  | [], _ => rfl
  | e :: es, h => by
    have he : e.uid = 0 := h e List.mem_cons_self
    have ih := renumber_all_new es (fun x hx => h x (List.mem_cons_of_mem _ hx))
    rw [renumber]
    simp only [he, ne_eq, not_true_eq_false, ↓reduceIte, ih]
    congr 2
    cases e
    simp_all

/-- the elements of a list in which nothing is placed are only put into name order: they all stay new (uid 0) -/
theorem sortObjectlistNew_all_new (es : List Elem) (h : ∀ e ∈ es, e.uid = 0) :
    sortObjectlistNew es = .ok (es.mergeSort newLe) ∧ ∀ e ∈ es.mergeSort newLe, e.uid = 0 := by
  have h' : ∀ e ∈ es.mergeSort newLe, e.uid = 0 := fun e he => h e (List.mem_mergeSort.1 he)
  exact ⟨renumber_all_new _ h', h'⟩

/-- among elements that are not placed the writer goes by line, then tag: an element pushed through the API (line 0)
    of a kind with a smaller tag is written in front of an earlier one -/
theorem writerLe_unplaced (a b : Elem) (ha : a.uid = 0) (hb : b.uid = 0) :
    writerLe a b = (if a.line = b.line then decide (a.tag ≤ b.tag) else decide (a.line ≤ b.line)) := by
  simp [writerLe, ha, hb]

end A2l.Srt.L15
