import A2lVerif.Lemmas.TypedLoad
/-!
# Typed IF_DATA access, part C: every value that the typed load returns is well-typed (`TypedOk`)
-/
namespace A2l.Typed
open A2l.Aml A2l.IfData

/-! ## equations of `okItem` / `okFields` -/

theorem okItem_int (w : Nat) (v : TVal) (l : Loc) : okItem (.int w) v l =
    match v, l with
    | .int _, .int _ _ => true
    | _, _ => false := by cases v <;> cases l <;> rfl
theorem okItem_float (v : TVal) (l : Loc) : okItem .float v l =
    match v, l with
    | .float _, .off _ => true
    | _, _ => false := by cases v <;> cases l <;> rfl
theorem okItem_double (v : TVal) (l : Loc) : okItem .double v l =
    match v, l with
    | .double _, .off _ => true
    | _, _ => false := by cases v <;> cases l <;> rfl
theorem okItem_str (v : TVal) (l : Loc) : okItem .str v l =
    match v, l with
    | .str _, .off _ => true
    | _, _ => false := by cases v <;> cases l <;> rfl
theorem okItem_array (of : OTy) (dim : Nat) (v : TVal) (l : Loc) : okItem (.array of dim) v l =
    match v, l with
    | .array vs, .arr ls => vs.length == dim && all2 (okItem of) vs ls
    | _, _ => false := by cases v <;> cases l <;> rfl
theorem okItem_enum (names : List (List Char)) (v : TVal) (l : Loc) : okItem (.enum names) v l =
    match v, l with
    | .enum s, .off _ => names.contains s
    | _, _ => false := by cases v <;> cases l <;> rfl
theorem okItem_struct (items : List OTy) (v : TVal) (l : Loc) : okItem (.struct items) v l =
    match v, l with
    | .struct info fs, .off n =>
      n == info.line && info.uid == 0 && info.startOff == 0 && info.endOff == 0 && okFields items fs info.locs
    | _, _ => false := by cases v <;> cases l <;> rfl
theorem okItem_seq (of : OTy) (v : TVal) (l : Loc) : okItem (.seq of) v l =
    match v, l with
    | .seq vs, .seq ls => all2 (okItem of) vs ls
    | _, _ => false := by cases v <;> cases l <;> rfl

theorem okFields_nil (fs : List TVal) (locs : List Loc) : okFields [] fs locs = (fs.isEmpty && locs.isEmpty) := by rw [okFields]

theorem okFields_cons_tagged (u : Bool) (ms : List (OTag OTy)) (rest : List OTy) (fs : List TVal) (locs : List Loc) :
    okFields (.tagged u ms :: rest) fs locs = (okMembers ms fs && okFields rest (fs.drop ms.length) locs) := by rw [okFields]

theorem okFields_cons_item (t : OTy) (ht : isTagged t = false) (rest : List OTy) (fs : List TVal) (locs : List Loc) :
    okFields (t :: rest) fs locs =
      match fs, locs with
      | v :: fs', l :: locs' => okItem t v l && okFields rest fs' locs'
      | _, _ => false := by
  cases t <;> first | rfl | (simp [isTagged] at ht)

theorem okMembers_cons (m : OTag OTy) (rest : List (OTag OTy)) (fs : List TVal) : okMembers (m :: rest) fs =
    match fs with
    | f :: fs' => okMemberWith (okFields m.items) m.rep f && okMembers rest fs'
    | [] => false := by cases fs <;> rfl

/-! ## lists -/

theorem all2_of_loadArr {f : Gen → LRes (TVal × Loc)} {okf : TVal → Loc → Bool}
    (h : ∀ g r, f g = .ok r → okf r.1 r.2 = true) : ∀ (n : Nat) (l : List Gen) (rs : List (TVal × Loc)),
    loadArr f n l = .ok rs → rs.length = n ∧ all2 okf (rs.map (·.1)) (rs.map (·.2)) = true
  | 0, l, rs, hl => by
    rw [loadArr] at hl
    cases hl
    exact ⟨rfl, rfl⟩
  | n + 1, l, rs, hl => by
    rw [loadArr] at hl
    obtain ⟨b, hb, hl⟩ := LRes.bind_ok hl
    obtain ⟨bs, hbs, hl⟩ := LRes.bind_ok hl
    cases hl
    obtain ⟨h1, h2⟩ := all2_of_loadArr h n l.tail bs hbs
    refine ⟨by simp [h1], ?_⟩
    have hb' := h _ _ hb
    simp [all2, hb', h2]

theorem all2_of_mapL {f : Gen → LRes (TVal × Loc)} {okf : TVal → Loc → Bool}
    (h : ∀ g r, f g = .ok r → okf r.1 r.2 = true) : ∀ (l : List Gen) (rs : List (TVal × Loc)),
    mapL f l = .ok rs → all2 okf (rs.map (·.1)) (rs.map (·.2)) = true
  | [], rs, hl => by
    rw [mapL] at hl
    cases hl
    rfl
  | g :: rest, rs, hl => by
    rw [mapL] at hl
    obtain ⟨b, hb, hl⟩ := LRes.bind_ok hl
    obtain ⟨bs, hbs, hl⟩ := LRes.bind_ok hl
    cases hl
    have h2 := all2_of_mapL h rest bs hbs
    have hb' := h _ _ hb
    simp [all2, hb', h2]

theorem all_of_mapL {α : Type} {f : α → LRes TVal} {okb : TVal → Bool} (h : ∀ x v, f x = .ok v → okb v = true) :
    ∀ (l : List α) (vs : List TVal), mapL f l = .ok vs → vs.all okb = true
  | [], vs, hl => by
    rw [mapL] at hl
    cases hl
    rfl
  | x :: rest, vs, hl => by
    rw [mapL] at hl
    obtain ⟨b, hb, hl⟩ := LRes.bind_ok hl
    obtain ⟨bs, hbs, hl⟩ := LRes.bind_ok hl
    cases hl
    have hb' := h _ _ hb
    have hr := all_of_mapL h rest bs hbs
    simp [hb', hr]

/-! ## blocks and members -/

theorem okBlockWith_of_load {lf : List Gen → LRes (List TVal × List Loc)} {okf : List TVal → List Loc → Bool}
    (h : ∀ gs fs locs, lf gs = .ok (fs, locs) → okf fs locs = true) {g : Gen} {u so eo : Nat} {v : TVal}
    (hl : loadBlockWith lf g u so eo = .ok v) : okBlockWith okf v = true := by
  unfold loadBlockWith at hl
  cases g with
  | block line gs =>
    dsimp only at hl
    obtain ⟨r, hr, hl⟩ := LRes.bind_ok hl
    cases hl
    exact h gs r.1 r.2 hr
  | _ => cases hl

theorem okMemberWith_of_load {lf : List Gen → LRes (List TVal × List Loc)} {okf : List TVal → List Loc → Bool}
    (h : ∀ gs fs locs, lf gs = .ok (fs, locs) → okf fs locs = true) {tag : List Char} {rep : Bool} {items : List (TItem Gen)}
    {v : TVal} (hl : loadMember lf tag rep items = .ok v) : okMemberWith okf rep v = true := by
  unfold loadMember at hl
  split at hl
  · rename_i hrep
    obtain ⟨vs, hvs, hl⟩ := LRes.bind_ok hl
    cases hl
    have := all_of_mapL (okb := okBlockWith okf) (fun (x : TItem Gen) v hx => okBlockWith_of_load h hx) _ _ hvs
    simp [okMemberWith, hrep, this]
  · rename_i hrep
    split at hl
    · split at hl
      · cases hl
      · obtain ⟨w, hw, hl⟩ := LRes.bind_ok hl
        cases hl
        simp [okMemberWith, hrep, okBlockWith_of_load h hw]
    · cases hl
      simp [okMemberWith, hrep]

/-! ## the theorem -/

theorem load_ok :
    (∀ t g v l, loadItem t g = .ok (v, l) → okItem t v l = true) ∧
    (∀ ts gs fs locs, loadFields ts gs = .ok (fs, locs) → okFields ts fs locs = true) ∧
    (∀ ms g vs, loadMembers ms g = .ok vs → vs.length = ms.length ∧ ∀ extra, okMembers ms (vs ++ extra) = true) := by
  refine OTy.induct' (P := fun t => ∀ g v l, loadItem t g = .ok (v, l) → okItem t v l = true)
    (PL := fun ts => ∀ gs fs locs, loadFields ts gs = .ok (fs, locs) → okFields ts fs locs = true)
    (PM := fun ms => ∀ g vs, loadMembers ms g = .ok vs → vs.length = ms.length ∧ ∀ extra, okMembers ms (vs ++ extra) = true)
    ?_ ?_ ?_ ?_ ?_ ?_ ?_ ?_ ?_ ?_ ?_ ?_ ?_ ?_ ?_
  · intro g v l h; rw [loadItem_none] at h; cases h
  · intro w g v l h
    rw [loadItem_int] at h
    cases g with
    | int w' off i hex =>
      dsimp only at h
      split at h
      · cases h; rw [okItem_int]
      · cases h
    | _ => cases h
  · intro g v l h
    rw [loadItem_float] at h
    cases g <;> cases h
    rw [okItem_float]
  · intro g v l h
    rw [loadItem_double] at h
    cases g <;> cases h
    rw [okItem_double]
  · intro g v l h
    rw [loadItem_str] at h
    cases g <;> cases h
    rw [okItem_str]
  · intro of dim ih g v l h
    rw [loadItem_array] at h
    cases g <;> try (cases h)
    rename_i items
    obtain ⟨rs, hrs, h⟩ := LRes.bind_ok h
    cases h
    obtain ⟨h1, h2⟩ := all2_of_loadArr (okf := okItem of) (fun g r hr => ih g r.1 r.2 hr) dim items rs hrs
    rw [okItem_array]
    simp [h1, h2]
  · intro names g v l h
    rw [loadItem_enum] at h
    cases g with
    | enumItem off s =>
      dsimp only at h
      split at h
      · cases h; rw [okItem_enum]; assumption
      · cases h
    | _ => cases h
  · intro items ih g v l h
    rw [loadItem_struct] at h
    cases g <;> try (cases h)
    obtain ⟨r, hr, h⟩ := LRes.bind_ok h
    cases h
    rw [okItem_struct]
    simp [ih _ r.1 r.2 hr]
  · intro of ih g v l h
    rw [loadItem_seq] at h
    cases g <;> try (cases h)
    rename_i items
    obtain ⟨rs, hrs, h⟩ := LRes.bind_ok h
    cases h
    rw [okItem_seq]
    exact all2_of_mapL (okf := okItem of) (fun g r hr => ih g r.1 r.2 hr) items rs hrs
  · intro u ms _ g v l h; rw [loadItem_tagged] at h; cases h
  · intro gs fs locs h
    rw [loadFields] at h
    cases h
    rfl
  · intro u ms rest ihm ihr gs fs locs h
    rw [loadFields_cons_tagged] at h
    obtain ⟨vs, hvs, h⟩ := LRes.bind_ok h
    obtain ⟨r, hr, h⟩ := LRes.bind_ok h
    cases h
    obtain ⟨hlen, hok⟩ := ihm _ _ hvs
    rw [okFields_cons_tagged, hok, ← hlen, List.drop_left, ihr _ r.1 r.2 hr]
    rfl
  · intro t rest ht iht ihr gs fs locs h
    rw [loadFields_cons_item t ht] at h
    obtain ⟨x, hx, h⟩ := LRes.bind_ok h
    obtain ⟨r, hr, h⟩ := LRes.bind_ok h
    cases h
    rw [okFields_cons_item t ht]
    simp [iht _ x.1 x.2 hx, ihr _ r.1 r.2 hr]
  · intro g vs h
    rw [loadMembers] at h
    cases h
    exact ⟨rfl, fun _ => by rw [okMembers]⟩
  · intro m rest ihm ihr g vs h
    rw [loadMembers] at h
    obtain ⟨items, _, h⟩ := LRes.bind_ok h
    obtain ⟨v, hv, h⟩ := LRes.bind_ok h
    obtain ⟨ws, hws, h⟩ := LRes.bind_ok h
    cases h
    obtain ⟨hlen, hok⟩ := ihr g ws hws
    refine ⟨by simp [hlen], fun extra => ?_⟩
    rw [List.cons_append, okMembers_cons]
    simp [okMemberWith_of_load (okf := okFields m.items) (fun gs fs locs hl => ihm gs fs locs hl) hv, hok]

/-- every value that the typed load returns is well-typed -/
theorem typedLoadAt_typedOk (S : Spec) (g : Gen) (u so eo : Nat) (v : TVal) (h : typedLoadAt S g u so eo = .ok v) :
    TypedOk S v :=
  okBlockWith_of_load (okf := okFields (rootItems S)) (fun gs fs locs hl => load_ok.2.1 _ gs fs locs hl) h

end A2l.Typed
