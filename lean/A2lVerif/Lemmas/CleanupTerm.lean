import A2lVerif.Lemmas.Cleanup
/-! Termination of the work-queue loop of the cleanup model: the fuel of `Model/Cleanup.lean` is never exhausted.

Idea: order the items by their *first* pop (`ord`, a ghost list). An item `k` is pushed from `d` only if `k` lists
the name of `d` as a sub item and is empty, i.e. after the first pop of `d`: the first pop of `k` comes after the
first pop of `d`. With the weight `B ^ (n - position in ord)` (`B` larger than any `user_of` list, `n` the number
of children) every pop replaces one weight by at most `B - 1` strictly smaller ones, so the total weight of the
queue decreases. -/
namespace A2l.Cl

/-- position of `x` in `l` (`l.length` if absent) -/
def pos : List Nat → Nat → Nat
  | [], _ => 0
  | y :: ys, x => if y = x then 0 else pos ys x + 1

theorem pos_le_length (l : List Nat) (x : Nat) : pos l x ≤ l.length := by
  induction l with
  | nil => exact Nat.le_refl _
  | cons y ys ih =>
    unfold pos
    split
    · exact Nat.zero_le _
    · simp only [List.length_cons]; omega

theorem pos_lt_of_mem {l : List Nat} {x : Nat} (h : x ∈ l) : pos l x < l.length := by
  induction l with
  | nil => cases h
  | cons y ys ih =>
    unfold pos
    split
    · simp
    · rename_i hne
      rcases List.mem_cons.1 h with rfl | h
      · exact absurd rfl hne
      · have := ih h
        simp only [List.length_cons]; omega

theorem pos_of_not_mem {l : List Nat} {x : Nat} (h : x ∉ l) : pos l x = l.length := by
  induction l with
  | nil => rfl
  | cons y ys ih =>
    unfold pos
    have hne : ¬ y = x := fun e => h (e ▸ List.mem_cons_self)
    rw [if_neg hne, ih (fun hm => h (List.mem_cons_of_mem _ hm))]
    rfl

theorem pos_append_of_mem {l : List Nat} (l' : List Nat) {x : Nat} (h : x ∈ l) : pos (l ++ l') x = pos l x := by
  induction l with
  | nil => cases h
  | cons y ys ih =>
    rw [List.cons_append]
    unfold pos
    split
    · rfl
    · rename_i hne
      rcases List.mem_cons.1 h with rfl | h
      · exact absurd rfl hne
      · rw [ih h]

theorem pos_append_of_not_mem {l : List Nat} (l' : List Nat) {x : Nat} (h : x ∉ l) :
    pos (l ++ l') x = l.length + pos l' x := by
  induction l with
  | nil => simp
  | cons y ys ih =>
    rw [List.cons_append]
    have hne : ¬ y = x := fun e => h (e ▸ List.mem_cons_self)
    show (if y = x then 0 else pos (ys ++ l') x + 1) = _
    rw [if_neg hne, ih (fun hm => h (List.mem_cons_of_mem _ hm))]
    simp only [List.length_cons]; omega

/-- appending never lowers a position -/
theorem pos_append_ge (l l' : List Nat) (x : Nat) : pos l x ≤ pos (l ++ l') x := by
  by_cases h : x ∈ l
  · rw [pos_append_of_mem l' h]; exact Nat.le_refl _
  · rw [pos_append_of_not_mem l' h, pos_of_not_mem h]; omega

/-! ### the ghost order of first pops -/

structure Ghost (c : WL) (init : Module) (dels ord : List Nat) : Prop where
  nodup : ord.Nodup
  mem : ∀ x, x ∈ ord ↔ x ∈ dels
  order : ∀ k ∈ ord, ∀ d, k ∈ userOf c init d → d ∈ ord ∧ pos ord d < pos ord k

theorem Ghost.init (c : WL) (init : Module) : Ghost c init [] [] where
  nodup := List.nodup_nil
  mem := fun _ => Iff.rfl
  order := fun _ h => by cases h

theorem mem_rmNames {c : WL} {init : Module} {dels : List Nat} {t : String} :
    t ∈ rmNames c init dels ↔ ∃ d ∈ dels, indexOf c init t = some d := by
  unfold rmNames
  rw [List.mem_filterMap]
  constructor
  · rintro ⟨d, hd, h⟩
    cases hi : init[d]? with
    | none => rw [hi] at h; cases h
    | some n =>
      rw [hi] at h
      simp only at h
      split at h
      · rename_i hidx
        cases h
        exact ⟨d, hd, hidx⟩
      · cases h
  · rintro ⟨d, hd, hidx⟩
    obtain ⟨n, hn, _, hname⟩ := indexOf_some hidx
    refine ⟨d, hd, ?_⟩
    rw [hn]
    simp only [hname, hidx, if_true]

/-- an empty item whose initial sub list names the item at `d`: `d` has been popped -/
theorem Inv.user_popped {c : WL} (hsub : c.subSite ∈ c.content) {used : List String} {init m : Module}
    {q dels : List Nat} (h : Inv c used init m q dels) {k d : Nat} {a : Node} (ha : m[k]? = some a)
    (hq : queueable c used a = true) (hu : k ∈ userOf c init d) : d ∈ dels := by
  obtain ⟨n, hn, ht, r, hr, hs, hidx⟩ := mem_userOf.1 hu
  rw [h.state, List.getElem?_map, hn] at ha
  simp only [Option.map_some, Option.some.injEq] at ha
  subst ha
  have hgone : r ∉ (removeSubs c (rmNames c init dels) n).refs := by
    intro hmem
    unfold queueable isEmpty at hq
    simp only [Bool.and_eq_true, List.all_eq_true] at hq
    have := hq.2 r hmem
    rw [hs, List.contains_iff_mem.2 hsub] at this
    cases this
  rw [mem_removeSubs_refs] at hgone
  have : r.target ∈ rmNames c init dels := by
    apply Classical.byContradiction
    intro hn'
    exact hgone ⟨hr, fun hh => hn' hh.2.2⟩
  obtain ⟨d', hd', hidx'⟩ := mem_rmNames.1 this
  rw [hidx] at hidx'
  cases hidx'
  exact hd'

/-! ### weights -/

/-- weight of a queue entry -/
def wt (B n : Nat) (ord : List Nat) (x : Nat) : Nat := B ^ (n - pos ord x)

/-- total weight of the queue -/
def potential (B n : Nat) (ord : List Nat) (q : List Nat) : Nat := (q.map (wt B n ord)).sum

theorem potential_cons (B n : Nat) (ord : List Nat) (x : Nat) (q : List Nat) :
    potential B n ord (x :: q) = wt B n ord x + potential B n ord q := by
  simp [potential]

theorem wt_anti {B n : Nat} (hB : 0 < B) {ord ord' : List Nat} {x : Nat} (h : pos ord x ≤ pos ord' x) :
    wt B n ord' x ≤ wt B n ord x := by
  unfold wt
  exact Nat.pow_le_pow_right hB (by omega)

theorem potential_anti {B n : Nat} (hB : 0 < B) {ord ord' : List Nat} (h : ∀ x, pos ord x ≤ pos ord' x)
    (q : List Nat) : potential B n ord' q ≤ potential B n ord q := by
  induction q with
  | nil => exact Nat.le_refl _
  | cons x q ih =>
    rw [potential_cons, potential_cons]
    have := wt_anti (n := n) hB (h x)
    omega

theorem stepUser_snd_cases (c : WL) (used : List String) (nm : String) (m : Module) (st : Module × List Nat)
    (hm : ∀ i : Nat, st.1[i]?.map (removeSub c nm) = m[i]?.map (removeSub c nm)) (k : Nat) :
    (stepUser c used nm st k).2 = st.2 ∨
      ((stepUser c used nm st k).2 = k :: st.2 ∧ ∃ n, m[k]? = some n ∧ queueable c used (removeSub c nm n) = true) := by
  have hk := hm k
  unfold stepUser
  dsimp only
  simp only [List.getElem?_modify, if_true]
  cases hs : st.1[k]? with
  | none => exact Or.inl rfl
  | some a =>
    rw [hs] at hk
    cases hmk : m[k]? with
    | none => rw [hmk] at hk; cases hk
    | some b =>
      rw [hmk] at hk
      simp only [Option.map_some, Option.some.injEq] at hk
      simp only [Option.map_eq_map, Option.map_some, hk]
      by_cases hq : queueable c used (removeSub c nm b) = true
      · simp only [hq, if_true]
        exact Or.inr ⟨trivial, b, rfl, hq⟩
      · simp only [hq]
        exact Or.inl rfl

/-- the weight pushed by one pop is at most `users.length * W` if every pushed index weighs at most `W` -/
theorem potential_foldl_stepUser (c : WL) (used : List String) (nm : String) (m : Module) (g : Nat → Nat) (W : Nat)
    (users : List Nat) (st : Module × List Nat)
    (hm : ∀ i : Nat, st.1[i]?.map (removeSub c nm) = m[i]?.map (removeSub c nm))
    (hW : ∀ k ∈ users, (∃ n, m[k]? = some n ∧ queueable c used (removeSub c nm n) = true) → g k ≤ W) :
    (((users.foldl (stepUser c used nm) st).2).map g).sum ≤ (st.2.map g).sum + users.length * W := by
  have hf : ∀ y, removeSub c nm (removeSub c nm y) = removeSub c nm y := by
    intro y; rw [removeSub_eq, removeSub_eq, removeSubs_idem]
  induction users generalizing st with
  | nil => simp
  | cons k ks ih =>
    have hm' : ∀ i : Nat, (stepUser c used nm st k).1[i]?.map (removeSub c nm) = m[i]?.map (removeSub c nm) := by
      intro i
      rw [stepUser_fst, List.getElem?_modify, ← hm i]
      cases st.1[i]? with
      | none => rfl
      | some a =>
        by_cases hk : k = i
        · simp [hk, hf]
        · simp [hk]
    rw [List.foldl_cons]
    have h1 := ih (stepUser c used nm st k) hm' (fun k' hk' => hW k' (List.mem_cons_of_mem _ hk'))
    have h2 : (((stepUser c used nm st k).2).map g).sum ≤ (st.2.map g).sum + W := by
      rcases stepUser_snd_cases c used nm m st hm k with h | ⟨h, hq⟩
      · rw [h]; omega
      · rw [h, List.map_cons, List.sum_cons]
        have := hW k List.mem_cons_self hq
        omega
    simp only [List.length_cons]
    rw [Nat.add_mul, Nat.one_mul]
    omega

theorem length_userOf_le (c : WL) (init : Module) (d : Nat) : (userOf c init d).length ≤ refCount init := by
  unfold userOf
  have gen : ∀ (l : Module) (i : Nat) (G : Node → List Ref),
      (∀ n, (G n).length ≤ n.refs.length) →
      ((l.zipIdx i).flatMap fun p => if p.1.tag == c.tag then (G p.1).map fun _ => p.2 else []).length ≤
        refCount l := by
    intro l
    induction l with
    | nil => intro i G _; simp [refCount]
    | cons n l ih =>
      intro i G hG
      rw [List.zipIdx_cons, List.flatMap_cons, List.length_append]
      have h1 := ih (i + 1) G hG
      have h2 : (if n.tag == c.tag then (G n).map fun _ => i else []).length ≤ n.refs.length := by
        split
        · rw [List.length_map]; exact hG n
        · exact Nat.zero_le _
      simp only [refCount, List.map_cons, List.sum_cons] at h1 ⊢
      omega
  exact gen init 0 (fun n => n.refs.filter fun r => r.site == c.subSite && indexOf c init r.target == some d)
    (fun n => List.length_filter_le _ _)

/-! ### one pop decreases the potential -/

theorem Inv.index_lt {c : WL} {used : List String} {init m : Module} {q dels : List Nat}
    (h : Inv c used init m q dels) {x : Nat} (hx : x ∈ q ++ dels) : x < init.length := by
  obtain ⟨n, hn, _⟩ := h.sound x hx
  have : x < m.length := by
    apply Classical.byContradiction
    intro hlt
    rw [List.getElem?_eq_none (by omega)] at hn
    cases hn
  rw [h.state, List.length_map] at this
  exact this

theorem ghost_step {c : WL} (hsub : c.subSite ∈ c.content) {used : List String} {init m : Module} {d : Nat}
    {q dels ord : List Nat} (hI : Inv c used init m (d :: q) dels) (hG : Ghost c init dels ord)
    (B : Nat) (hB : (userOf c init d).length + 1 ≤ B) :
    let name := match m[d]? with
      | some n => n.name
      | none => ""
    let st := (userOf c init d).foldl (stepUser c used name) (m, q)
    let ord' := if d ∈ ord then ord else ord ++ [d]
    Ghost c init (d :: dels) ord' ∧
      potential B init.length ord' st.2 + 1 ≤ potential B init.length ord (d :: q) := by
  intro name st ord'
  obtain ⟨nd, hnd, hqd⟩ := hI.sound d (by simp)
  -- the new ghost order
  have hG' : Ghost c init (d :: dels) ord' := by
    by_cases hd : d ∈ ord
    · have e : ord' = ord := if_pos hd
      rw [e]
      refine ⟨hG.nodup, fun x => ?_, hG.order⟩
      rw [hG.mem, List.mem_cons]
      constructor
      · exact Or.inr
      · rintro (rfl | h)
        · exact (hG.mem _).1 hd
        · exact h
    · have e : ord' = ord ++ [d] := if_neg hd
      rw [e]
      refine ⟨?_, fun x => ?_, ?_⟩
      · rw [List.nodup_append]
        refine ⟨hG.nodup, List.nodup_cons.2 ⟨List.not_mem_nil, List.nodup_nil⟩, ?_⟩
        intro a ha b hb
        rw [List.mem_singleton] at hb
        subst hb
        exact fun e => hd (e ▸ ha)
      · rw [List.mem_append, List.mem_singleton, hG.mem, List.mem_cons]
        constructor
        · rintro (h | h)
          · exact Or.inr h
          · exact Or.inl h
        · rintro (h | h)
          · exact Or.inr h
          · exact Or.inl h
      · intro k hk d0 hu
        rw [List.mem_append, List.mem_singleton] at hk
        rcases hk with hk | rfl
        · obtain ⟨h1, h2⟩ := hG.order k hk d0 hu
          refine ⟨List.mem_append_left _ h1, ?_⟩
          rw [pos_append_of_mem _ h1, pos_append_of_mem _ hk]
          exact h2
        · have hd0 : d0 ∈ dels := hI.user_popped hsub hnd hqd hu
          have hd0' : d0 ∈ ord := (hG.mem _).2 hd0
          refine ⟨List.mem_append_left _ hd0', ?_⟩
          rw [pos_append_of_mem _ hd0', pos_append_of_not_mem _ hd]
          have := pos_lt_of_mem hd0'
          omega
  refine ⟨hG', ?_⟩
  -- facts about positions
  have hdmem : d ∈ ord' := (hG'.mem d).2 List.mem_cons_self
  have hmono : ∀ x, pos ord x ≤ pos ord' x := by
    intro x
    by_cases hd : d ∈ ord
    · have e : ord' = ord := if_pos hd
      rw [e]; exact Nat.le_refl _
    · have e : ord' = ord ++ [d] := if_neg hd
      rw [e]; exact pos_append_ge _ _ _
  have hpd : pos ord' d = pos ord d := by
    by_cases hd : d ∈ ord
    · have e : ord' = ord := if_pos hd
      rw [e]
    · have e : ord' = ord ++ [d] := if_neg hd
      rw [e, pos_append_of_not_mem _ hd, pos_of_not_mem hd]
      simp [pos]
  have hlen : ord'.length ≤ init.length := by
    have hsubset : ord' ⊆ List.range init.length := by
      intro x hx
      rw [List.mem_range]
      have hx' : x ∈ d :: dels := (hG'.mem x).1 hx
      apply hI.index_lt (x := x)
      rw [List.mem_cons] at hx'
      rcases hx' with rfl | hx'
      · simp
      · exact List.mem_append_right _ hx'
    have := hG'.nodup.length_le_of_subset hsubset
    rwa [List.length_range] at this
  have hpdlt : pos ord' d < init.length := Nat.lt_of_lt_of_le (pos_lt_of_mem hdmem) hlen
  have hBpos : 0 < B := by omega
  -- the pushed indices are later in the order than d
  have hW : ∀ k ∈ userOf c init d,
      (∃ n, m[k]? = some n ∧ queueable c used (removeSub c name n) = true) →
        wt B init.length ord' k ≤ B ^ (init.length - pos ord' d - 1) := by
    intro k hk _
    have hlt : pos ord' d < pos ord' k := by
      by_cases hko : k ∈ ord'
      · exact (hG'.order k hko d hk).2
      · rw [pos_of_not_mem hko]; exact pos_lt_of_mem hdmem
    unfold wt
    exact Nat.pow_le_pow_right hBpos (by omega)
  have h1 := potential_foldl_stepUser c used name m (wt B init.length ord') _ (userOf c init d) (m, q)
    (fun _ => rfl) hW
  have h2 := potential_anti (n := init.length) hBpos hmono q
  rw [potential_cons]
  unfold potential at h1 h2 ⊢
  have h3 : wt B init.length ord d = B ^ (init.length - pos ord' d - 1) * B := by
    unfold wt
    rw [← hpd, ← Nat.pow_succ]
    congr 1
    omega
  have hWpos : 0 < B ^ (init.length - pos ord' d - 1) := Nat.pow_pos hBpos
  have h4 : (userOf c init d).length * B ^ (init.length - pos ord' d - 1) + B ^ (init.length - pos ord' d - 1) ≤
      B ^ (init.length - pos ord' d - 1) * B := by
    rw [Nat.mul_comm (B ^ _) B]
    have : ((userOf c init d).length + 1) * B ^ (init.length - pos ord' d - 1) ≤
        B * B ^ (init.length - pos ord' d - 1) := Nat.mul_le_mul_right _ hB
    rw [Nat.add_mul, Nat.one_mul] at this
    exact this
  have h1' : (List.map (wt B init.length ord') st.2).sum ≤
      (List.map (wt B init.length ord') q).sum +
        (userOf c init d).length * B ^ (init.length - pos ord' d - 1) := h1
  rw [h3]
  omega

/-- with more fuel than potential the queue is drained -/
theorem loop_drains {c : WL} (hsub : c.subSite ∈ c.content) (used : List String) (init : Module) (B : Nat)
    (hB : refCount init + 1 ≤ B) (fuel : Nat) (m : Module) (q dels ord : List Nat)
    (hI : Inv c used init m q dels) (hG : Ghost c init dels ord)
    (hfuel : potential B init.length ord q < fuel) : (loop c used init fuel m q dels).2.2 = true := by
  induction fuel generalizing m q dels ord with
  | zero => omega
  | succ fuel ih =>
    cases q with
    | nil => rfl
    | cons d q =>
      have hBd : (userOf c init d).length + 1 ≤ B := by
        have := length_userOf_le c init d
        omega
      obtain ⟨hG', hpot⟩ := ghost_step hsub hI hG B hBd
      exact ih _ _ _ _ hI.step hG' (Nat.lt_of_succ_le (Nat.le_trans hpot (Nat.le_of_lt_succ hfuel)))

theorem length_initQueue_le (c : WL) (used : List String) (m : Module) : (initQueue c used m).length ≤ m.length := by
  unfold initQueue
  rw [List.length_reverse, List.length_map]
  have := List.length_filter_le (fun p : Node × Nat => queueable c used p.1) m.zipIdx
  rw [List.length_zipIdx] at this
  exact this

theorem potential_nil_ord (B n : Nat) (q : List Nat) : potential B n [] q = q.length * B ^ n := by
  induction q with
  | nil => simp [potential]
  | cons x q ih =>
    rw [potential_cons, ih]
    simp only [wt, pos, List.length_cons, Nat.sub_zero]
    rw [Nat.add_mul, Nat.one_mul, Nat.add_comm]

/-- **the fuel of the model is never exhausted**: the work queue of a pass is always drained -/
theorem drained_true {c : WL} (hsub : c.subSite ∈ c.content) (m : Module) : drained c m = true := by
  unfold drained runLoop
  apply loop_drains hsub _ m (refCount m + 2) (by omega) _ m _ [] [] (Inv.init c _ m) (Ghost.init c m)
  rw [potential_nil_ord]
  unfold fuel
  have := length_initQueue_le c (targetsOf c.usedSel m) m
  have := Nat.mul_le_mul_right ((refCount m + 2) ^ m.length) this
  omega

theorem queuesDrained_true (m : Module) : queuesDrained m = true := by
  unfold queuesDrained
  rw [drained_true (by decide), drained_true (by decide)]
  rfl

end A2l.Cl
