import A2lVerif.Lemmas.A2ml
/-!
# the nesting limit of the A2ML definition parser (`MAX_NESTING_DEPTH`, `spec_depth`, `check_nesting`)

* every type that the parser functions return at `depth` has `depth + specDepth ≤ 100` (`all_depth`), for every
  fuel, every `TypeSet` (no hypothesis about the stored types: a reference is checked when it is used);
* every state of the top-level loop of `parse_a2ml` holds only types with `specDepth ≤ 100` (`Reached`,
  `reached_bounded`), and so does the result (`parseA2ml_depth`);
* `n` anonymous structs around `int` are accepted for `n ≤ 99` and rejected for `n ≥ 100`, on the token list
  (`parseToks_nest`) and on the text (`parseA2ml_nest`).
-/
namespace A2l.Aml

theorem checkNesting_iff (d i : Nat) : checkNesting d i = true ↔ d + i ≤ 100 := by
  unfold checkNesting maxNestingDepth
  exact decide_eq_true_iff

theorem checkNesting_false_iff (d i : Nat) : checkNesting d i = false ↔ 100 < d + i := by
  unfold checkNesting maxNestingDepth
  rw [decide_eq_false_iff_not]
  omega

/-! ## `specDepth` -/

theorem specDepth_none : specDepth .none = 0 := by rw [specDepth]
theorem specDepth_int (w : Nat) : specDepth (.int w) = 1 := by rw [specDepth]
theorem specDepth_float : specDepth .float = 1 := by rw [specDepth]
theorem specDepth_double : specDepth .double = 1 := by rw [specDepth]
theorem specDepth_enum (items : List (List Char × Option Int)) : specDepth (.enum items) = 1 := by rw [specDepth]
theorem specDepth_array (of : Spec) (dim : Nat) : specDepth (.array of dim) = specDepth of + 1 := by rw [specDepth]
theorem specDepth_seq (of : Spec) : specDepth (.seq of) = specDepth of + 1 := by rw [specDepth]
theorem specDepth_struct (items : List Spec) : specDepth (.struct items) = specDepthL items + 1 := by rw [specDepth]
theorem specDepth_taggedStruct (items : List (Tagged Spec)) : specDepth (.taggedStruct items) = specDepthT items + 1 := by
  rw [specDepth]
theorem specDepth_taggedUnion (items : List (Tagged Spec)) : specDepth (.taggedUnion items) = specDepthT items + 1 := by
  rw [specDepth]
theorem specDepthL_nil : specDepthL [] = 0 := by rw [specDepthL]
theorem specDepthL_cons (s : Spec) (rest : List Spec) : specDepthL (s :: rest) = max (specDepth s) (specDepthL rest) := by
  rw [specDepthL]
theorem specDepthT_nil : specDepthT [] = 0 := by rw [specDepthT]
theorem specDepthT_cons (t : Tagged Spec) (rest : List (Tagged Spec)) :
    specDepthT (t :: rest) = max (specDepth t.item) (specDepthT rest) := by
  rw [specDepthT]

/-- the maximum over the members is within `n` exactly when every member is -/
theorem specDepthL_le_iff (n : Nat) : ∀ (l : List Spec), specDepthL l ≤ n ↔ ∀ s ∈ l, specDepth s ≤ n
  | [] => by rw [specDepthL_nil]; exact ⟨fun _ _ h => (by cases h), fun _ => Nat.zero_le _⟩
  | s :: rest => by
    rw [specDepthL_cons, Nat.max_le, specDepthL_le_iff n rest]
    constructor
    · rintro ⟨h1, h2⟩ x hx
      rcases List.mem_cons.1 hx with rfl | hx
      · exact h1
      · exact h2 x hx
    · intro h
      exact ⟨h s (List.mem_cons_self ..), fun x hx => h x (List.mem_cons_of_mem _ hx)⟩

theorem specDepthT_le_iff (n : Nat) : ∀ (l : List (Tagged Spec)), specDepthT l ≤ n ↔ ∀ t ∈ l, specDepth t.item ≤ n
  | [] => by rw [specDepthT_nil]; exact ⟨fun _ _ h => (by cases h), fun _ => Nat.zero_le _⟩
  | t :: rest => by
    rw [specDepthT_cons, Nat.max_le, specDepthT_le_iff n rest]
    constructor
    · rintro ⟨h1, h2⟩ x hx
      rcases List.mem_cons.1 hx with rfl | hx
      · exact h1
      · exact h2 x hx
    · intro h
      exact ⟨h t (List.mem_cons_self ..), fun x hx => h x (List.mem_cons_of_mem _ hx)⟩

/-! ## the parser functions at `depth` return types of depth at most `100 - depth` -/

/-- a postcondition of a successful result -/
def DPost {α : Type} (r : R α) (Q : α → Prop) : Prop := ∀ a rest, r = .ok a rest → Q a

theorem DPost.err {α : Type} {Q : α → Prop} : DPost (R.err : R α) Q := fun _ _ h => by cases h
theorem DPost.fuel {α : Type} {Q : α → Prop} : DPost (R.fuel : R α) Q := fun _ _ h => by cases h
theorem DPost.ok {α : Type} {Q : α → Prop} {a : α} {rest : List ATok} (h : Q a) : DPost (R.ok a rest) Q :=
  fun _ _ h' => by cases h'; exact h

/-- the array loop: `levels` is the depth of `base`; every dimension is checked before it is added -/
theorem arrayDims_depth : ∀ (n : Nat) (d levels : Nat) (base : Spec) (toks : List ATok), toks.length ≤ n →
    levels = specDepth base → d + specDepth base ≤ 100 →
    DPost (arrayDims d levels base toks) (fun sp => d + specDepth sp ≤ 100)
  | 0, d, levels, base, toks, h, _, hb => by
    cases toks with
    | nil => unfold arrayDims; exact DPost.ok hb
    | cons _ _ => simp at h
  | n + 1, d, levels, base, toks, h, hl, hb => by
    unfold arrayDims
    split
    · split
      · rename_i hc
        have hc' := (checkNesting_iff _ _).1 hc
        split
        · split
          · rename_i rest''
            simp only [List.length_cons] at h
            refine arrayDims_depth n d (levels + 1) _ rest'' (by omega) (by rw [specDepth_array, hl]) ?_
            rw [specDepth_array, ← hl]
            omega
          · exact DPost.err
        · exact DPost.err
      · exact DPost.err
    · exact DPost.ok hb

theorem typeEnum_depth (types : TypeSet) (toks : List ATok) : DPost (typeEnum types toks) (fun r => specDepth r.2 = 1) := by
  unfold typeEnum
  dsimp only
  split
  · split
    · exact DPost.ok (specDepth_enum _)
    · exact DPost.err
    · exact DPost.fuel
  · split
    · split
      · exact DPost.ok (specDepth_enum _)
      · exact DPost.err
    · exact DPost.err

theorem tagClose_post (rep : Bool) (t : Tagged Spec) (rest : List ATok) (Q : Tagged Spec → Prop) (h : Q t) :
    DPost (tagClose rep t rest) Q := by
  unfold tagClose
  split
  · split
    · split
      · exact DPost.ok h
      · exact DPost.err
    · exact DPost.err
  · exact DPost.ok h

def DType (f : Nat) : Prop := ∀ types d tok toks, DPost (type_ f types d tok toks) (fun r => d + specDepth r.2 ≤ 100)
def DSLoop (f : Nat) : Prop := ∀ types d acc toks, (∀ s ∈ acc, d + specDepth s ≤ 100) →
  DPost (structLoop f types d acc toks) (fun items => ∀ s ∈ items, d + specDepth s ≤ 100)
def DTLoop (f : Nat) : Prop := ∀ types d ar acc toks, (∀ t ∈ acc, specDepth (Tagged.item t) ≤ 100 - d) →
  DPost (taggedLoop f types d ar acc toks) (fun items => ∀ t ∈ items, specDepth (Tagged.item t) ≤ 100 - d)
def DTMem (f : Nat) : Prop := ∀ types d ar toks,
  DPost (taggedMember f types d ar toks) (fun t => specDepth t.item ≤ 100 - d)
def DTDef (f : Nat) : Prop := ∀ types d toks, DPost (taggedDef f types d toks) (fun sp => d + specDepth sp ≤ 100)
def DMem (f : Nat) : Prop := ∀ types d toks, DPost (member f types d toks) (fun sp => d + specDepth sp ≤ 100)

theorem dmember_step (f : Nat) (ih : DType f) : DMem (f + 1) := by
  intro types d toks
  rw [member.eq_def]
  dsimp only
  split
  · exact DPost.err
  · rename_i tok rest
    have h1 := ih types d tok rest
    split
    · rename_i nm base rest1 heq
      exact arrayDims_depth rest1.length d _ base rest1 (Nat.le_refl _) rfl (h1 _ _ heq)
    · exact DPost.err
    · exact DPost.fuel

theorem dtaggedDef_step (f : Nat) (ih : DMem f) : DTDef (f + 1) := by
  intro types d toks
  rw [taggedDef.eq_def]
  dsimp only
  split
  · rename_i rest
    have h1 := ih types (d + 1) rest
    split
    · rename_i m rest1 heq
      split
      · split
        · exact DPost.ok (by rw [specDepth_seq]; have := h1 _ _ heq; omega)
        · exact DPost.err
      · exact DPost.err
    · exact DPost.err
    · exact DPost.fuel
  · exact ih types d toks

theorem dtaggedMember_step (f : Nat) (ih : DTDef f) : DTMem (f + 1) := by
  intro types d ar toks
  rw [taggedMember.eq_def]
  dsimp only
  split
  · exact DPost.err
  · split
    · exact DPost.err
    · split
      · exact DPost.err
      · split
        · rename_i tg
          split
          · rename_i item rest1 heq
            refine tagClose_post _ _ _ _ ?_
            dsimp only
            unfold tagInner at heq
            split at heq
            · cases heq; rw [specDepth_none]; exact Nat.zero_le _
            · cases heq; rw [specDepth_none]; exact Nat.zero_le _
            · have := ih types d _ _ _ heq
              omega
          · exact DPost.err
          · exact DPost.fuel
        · exact DPost.err

theorem insertTagged_depth {n : Nat} {m : Tagged Spec} {acc : List (Tagged Spec)} (hm : specDepth m.item ≤ n)
    (hacc : ∀ t ∈ acc, specDepth (Tagged.item t) ≤ n) : ∀ t ∈ insertTagged m acc, specDepth (Tagged.item t) ≤ n := by
  intro t ht
  unfold insertTagged at ht
  rcases List.mem_cons.1 ht with rfl | ht
  · exact hm
  · exact hacc t (List.mem_filter.1 ht).1

theorem dtaggedLoop_step (f : Nat) (ih1 : DTMem f) (ih2 : DTLoop f) : DTLoop (f + 1) := by
  intro types d ar acc toks hacc
  rw [taggedLoop.eq_def]
  dsimp only
  have h1 := ih1 types d ar toks
  split
  · rename_i m rest heq
    have hm := h1 _ _ heq
    split
    · split
      · exact DPost.ok (insertTagged_depth hm hacc)
      · exact ih2 types d ar (insertTagged m acc) _ (insertTagged_depth hm hacc)
    · exact DPost.err
  · exact DPost.err
  · exact DPost.fuel

theorem dstructLoop_step (f : Nat) (ih1 : DMem f) (ih2 : DSLoop f) : DSLoop (f + 1) := by
  intro types d acc toks hacc
  rw [structLoop.eq_def]
  dsimp only
  have h1 := ih1 types d toks
  split
  · rename_i m rest heq
    have hm := h1 _ _ heq
    have hma : ∀ s ∈ m :: acc, d + specDepth s ≤ 100 := by
      intro s hs
      rcases List.mem_cons.1 hs with rfl | hs
      · exact hm
      · exact hacc s hs
    split
    · split
      · exact DPost.ok (fun s hs => hma s (List.mem_reverse.1 hs))
      · exact ih2 types d (m :: acc) _ hma
    · exact DPost.err
  · exact DPost.err
  · exact DPost.fuel

theorem dtype_step (f : Nat) (ih1 : DSLoop f) (ih2 : DTLoop f) : DType (f + 1) := by
  intro types d tok toks
  rw [type_.eq_def]
  dsimp only
  split
  · rename_i hc
    have hd : d + 1 ≤ 100 := (checkNesting_iff _ _).1 hc
    split
    iterate 8 exact DPost.ok (by dsimp only; rw [specDepth_int]; exact hd)
    · exact DPost.ok (by dsimp only; rw [specDepth_float]; exact hd)
    · exact DPost.ok (by dsimp only; rw [specDepth_double]; exact hd)
    · intro a rest h
      rw [typeEnum_depth types toks a rest h]
      exact hd
    · generalize optionalName toks = nt
      obtain ⟨name, toks'⟩ := nt
      dsimp only
      split
      · rename_i rest
        have h1 := ih1 types (d + 1) [] rest (fun _ h => by cases h)
        split
        · rename_i items rest' heq
          refine DPost.ok ?_
          dsimp only
          rw [specDepth_struct]
          have : specDepthL items ≤ 99 - d :=
            (specDepthL_le_iff _ items).2 (fun s hs => by have := h1 _ _ heq s hs; omega)
          omega
        · exact DPost.err
        · exact DPost.fuel
      · split
        · split
          · split
            · rename_i hc2
              exact DPost.ok ((checkNesting_iff _ _).1 hc2)
            · exact DPost.err
          · exact DPost.err
        · exact DPost.err
    · generalize optionalName toks = nt
      obtain ⟨name, toks'⟩ := nt
      dsimp only
      split
      · rename_i rest
        have h1 := ih2 types (d + 1) true [] rest (fun _ h => by cases h)
        split
        · rename_i items rest' heq
          refine DPost.ok ?_
          dsimp only
          rw [specDepth_taggedStruct]
          have : specDepthT items ≤ 100 - (d + 1) := (specDepthT_le_iff _ items).2 (h1 _ _ heq)
          omega
        · exact DPost.err
        · exact DPost.fuel
      · split
        · split
          · split
            · rename_i hc2
              exact DPost.ok ((checkNesting_iff _ _).1 hc2)
            · exact DPost.err
          · exact DPost.err
        · exact DPost.err
    · generalize optionalName toks = nt
      obtain ⟨name, toks'⟩ := nt
      dsimp only
      split
      · rename_i rest
        have h1 := ih2 types (d + 1) false [] rest (fun _ h => by cases h)
        split
        · rename_i items rest' heq
          refine DPost.ok ?_
          dsimp only
          rw [specDepth_taggedUnion]
          have : specDepthT items ≤ 100 - (d + 1) := (specDepthT_le_iff _ items).2 (h1 _ _ heq)
          omega
        · exact DPost.err
        · exact DPost.fuel
      · split
        · split
          · split
            · rename_i hc2
              exact DPost.ok ((checkNesting_iff _ _).1 hc2)
            · exact DPost.err
          · exact DPost.err
        · exact DPost.err
    · exact DPost.err
  · exact DPost.err

/-- for every recursion budget -/
theorem all_depth : ∀ f, DType f ∧ DSLoop f ∧ DTLoop f ∧ DTMem f ∧ DTDef f ∧ DMem f
  | 0 => by
    refine ⟨?_, ?_, ?_, ?_, ?_, ?_⟩
    · intro types d tok toks; unfold type_; exact DPost.fuel
    · intro types d acc toks _; unfold structLoop; exact DPost.fuel
    · intro types d ar acc toks _; unfold taggedLoop; exact DPost.fuel
    · intro types d ar toks; unfold taggedMember; exact DPost.fuel
    · intro types d toks; unfold taggedDef; exact DPost.fuel
    · intro types d toks; unfold member; exact DPost.fuel
  | f + 1 =>
    have ⟨h1, h2, h3, h4, h5, h6⟩ := all_depth f
    ⟨dtype_step f h2 h3, dstructLoop_step f h6 h2, dtaggedLoop_step f h4 h3, dtaggedMember_step f h5,
     dtaggedDef_step f h6, dmember_step f h1⟩

/-! ## the top-level loop: everything that is stored is within the limit -/

/-- every entry of a map of named types is within the limit -/
def KVBounded (m : List (List Char × Spec)) : Prop := ∀ kv ∈ m, specDepth kv.2 ≤ 100

/-- every named type of a `TypeSet` is within the limit -/
def TypesBounded (types : TypeSet) : Prop :=
  KVBounded types.enums ∧ KVBounded types.structs ∧ KVBounded types.taggedstructs ∧ KVBounded types.taggedunions

def OptBounded (o : Option Spec) : Prop := ∀ s, o = some s → specDepth s ≤ 100

theorem kvBounded_nil : KVBounded [] := fun _ h => by cases h

theorem kvBounded_insert {m : List (List Char × Spec)} (hm : KVBounded m) (name : List Char) {typ : Spec}
    (ht : specDepth typ ≤ 100) : KVBounded (insertKV name typ m) := by
  intro kv hkv
  unfold insertKV at hkv
  rcases List.mem_cons.1 hkv with rfl | h
  · exact ht
  · exact hm kv (List.mem_filter.1 h).1

theorem typesBounded_empty : TypesBounded {} := ⟨kvBounded_nil, kvBounded_nil, kvBounded_nil, kvBounded_nil⟩

theorem declStep_bounded (fuel : Nat) (types : TypeSet) (ifdata : Option Spec) (tok : ATok) (rest : List ATok)
    (hw : TypesBounded types) (ho : OptBounded ifdata) :
    DPost (declStep fuel types ifdata tok rest) (fun r => TypesBounded r.1 ∧ OptBounded r.2) := by
  have hty : ∀ a r, type_ fuel types 0 tok rest = .ok a r → specDepth a.2 ≤ 100 := fun a r h => by
    have := (all_depth fuel).1 types 0 tok rest a r h
    omega
  unfold declStep
  split
  · split
    · rename_i tg rest1
      have h1 := (all_depth fuel).2.2.2.2.1 types 0 rest1
      split
      · rename_i blk rest2 heq
        refine DPost.ok ⟨hw, ?_⟩
        dsimp only
        split
        · intro s hs; cases hs; have := h1 _ _ heq; omega
        · exact ho
      · exact DPost.err
      · exact DPost.fuel
    · exact DPost.err
  · split
    · rename_i name typ rest1 heq
      exact DPost.ok ⟨⟨hw.1, hw.2.1, kvBounded_insert hw.2.2.1 name (hty _ _ heq), hw.2.2.2⟩, ho⟩
    · exact DPost.ok ⟨hw, ho⟩
    · exact DPost.err
    · exact DPost.fuel
  · split
    · rename_i name typ rest1 heq
      exact DPost.ok ⟨⟨hw.1, hw.2.1, hw.2.2.1, kvBounded_insert hw.2.2.2 name (hty _ _ heq)⟩, ho⟩
    · exact DPost.ok ⟨hw, ho⟩
    · exact DPost.err
    · exact DPost.fuel
  · split
    · rename_i name typ rest1 heq
      exact DPost.ok ⟨⟨kvBounded_insert hw.1 name (hty _ _ heq), hw.2.1, hw.2.2.1, hw.2.2.2⟩, ho⟩
    · exact DPost.ok ⟨hw, ho⟩
    · exact DPost.err
    · exact DPost.fuel
  · split
    · rename_i name typ rest1 heq
      exact DPost.ok ⟨⟨hw.1, kvBounded_insert hw.2.1 name (hty _ _ heq), hw.2.2.1, hw.2.2.2⟩, ho⟩
    · exact DPost.ok ⟨hw, ho⟩
    · exact DPost.err
    · exact DPost.fuel
  iterate 10
    · split
      · exact DPost.ok ⟨hw, ho⟩
      · exact DPost.err
      · exact DPost.fuel
  · exact DPost.err

/-- the states of the `while` loop of `parse_a2ml` on the token list `toks0`: the named types stored so far, the
    IF_DATA block found so far, the tokens left. One step = one declaration and the `;` behind it. -/
inductive Reached (fuel : Nat) (toks0 : List ATok) : TypeSet → Option Spec → List ATok → Prop where
  | start : Reached fuel toks0 {} none toks0
  | step {types : TypeSet} {ifdata : Option Spec} {tok : ATok} {rest : List ATok} {types' : TypeSet}
      {ifdata' : Option Spec} {rest2 : List ATok} :
      Reached fuel toks0 types ifdata (tok :: rest) →
      declStep fuel types ifdata tok rest = .ok (types', ifdata') (.semicolon :: rest2) →
      Reached fuel toks0 types' ifdata' rest2

/-- every named type and the IF_DATA block of every state of the loop are within the limit -/
theorem reached_bounded {fuel : Nat} {toks0 : List ATok} {types : TypeSet} {ifdata : Option Spec} {toks : List ATok}
    (h : Reached fuel toks0 types ifdata toks) : TypesBounded types ∧ OptBounded ifdata := by
  induction h with
  | start => exact ⟨typesBounded_empty, fun _ h => by cases h⟩
  | step _ hs ih => exact declStep_bounded fuel _ _ _ _ ih.1 ih.2 _ _ hs

/-- the loop returns the IF_DATA block of a state that it reaches -/
theorem declLoop_reached (fuel : Nat) (toks0 : List ATok) : ∀ (n : Nat) (types : TypeSet) (ifdata : Option Spec)
    (toks : List ATok) (S : Spec), Reached fuel toks0 types ifdata toks → declLoop fuel n types ifdata toks = .ok S →
    ∃ types', Reached fuel toks0 types' (some S) []
  | 0, _, _, _, _, _, h => by unfold declLoop at h; cases h
  | n + 1, types, ifdata, [], S, hr, h => by
    unfold declLoop at h
    cases ifdata with
    | none => cases h
    | some s0 => cases h; exact ⟨types, hr⟩
  | n + 1, types, ifdata, tok :: rest, S, hr, h => by
    unfold declLoop at h
    split at h
    · rename_i types' ifdata' rest1 heq
      split at h
      · exact declLoop_reached fuel toks0 n types' ifdata' _ S (.step hr heq) h
      · cases h
    · cases h
    · cases h

theorem parseToks_reached (toks : List ATok) (S : Spec) (h : parseToks toks = .ok S) :
    ∃ types, Reached (parseFuel toks.length) toks types (some S) [] :=
  declLoop_reached _ toks _ _ _ _ S .start h

theorem parseToks_depth (toks : List ATok) (S : Spec) (h : parseToks toks = .ok S) : specDepth S ≤ 100 := by
  obtain ⟨types, hr⟩ := parseToks_reached toks S h
  exact (reached_bounded hr).2 S rfl

theorem parseA2ml_depth (cs : List Char) (S : Spec) (h : parseA2ml cs = .ok S) : specDepth S ≤ 100 := by
  unfold parseA2ml at h
  split at h
  · exact parseToks_depth _ S h
  · cases h
  · cases h

/-! ## the height of the tree (what the IF_DATA interpreter recurses over) -/

mutual
/-- the height of a type tree, every node counted (`None` too): the number of nested activations of
    `parse_ifdata_item` (Model/IfData.lean `itemP`, structurally recursive over the tree) on this definition -/
def specHeight : Spec → Nat
  | .none => 1
  | .int _ => 1
  | .float => 1
  | .double => 1
  | .enum _ => 1
  | .array of _ => specHeight of + 1
  | .seq of => specHeight of + 1
  | .struct items => specHeightL items + 1
  | .taggedStruct items => specHeightT items + 1
  | .taggedUnion items => specHeightT items + 1
def specHeightL : List Spec → Nat
  | [] => 0
  | s :: rest => max (specHeight s) (specHeightL rest)
def specHeightT : List (Tagged Spec) → Nat
  | [] => 0
  | t :: rest => max (specHeight t.item) (specHeightT rest)
end

mutual
theorem specHeight_le : ∀ (sp : Spec), specHeight sp ≤ specDepth sp + 1
  | .none => by rw [specHeight, specDepth_none]; omega
  | .int _ => by rw [specHeight, specDepth_int]; omega
  | .float => by rw [specHeight, specDepth_float]; omega
  | .double => by rw [specHeight, specDepth_double]; omega
  | .enum _ => by rw [specHeight, specDepth_enum]; omega
  | .array of _ => by rw [specHeight, specDepth_array]; have := specHeight_le of; omega
  | .seq of => by rw [specHeight, specDepth_seq]; have := specHeight_le of; omega
  | .struct items => by rw [specHeight, specDepth_struct]; have := specHeightL_le items; omega
  | .taggedStruct items => by rw [specHeight, specDepth_taggedStruct]; have := specHeightT_le items; omega
  | .taggedUnion items => by rw [specHeight, specDepth_taggedUnion]; have := specHeightT_le items; omega
theorem specHeightL_le : ∀ (l : List Spec), specHeightL l ≤ specDepthL l + 1
  | [] => by rw [specHeightL]; omega
  | s :: rest => by
    rw [specHeightL, specDepthL_cons]
    have := specHeight_le s
    have := specHeightL_le rest
    omega
theorem specHeightT_le : ∀ (l : List (Tagged Spec)), specHeightT l ≤ specDepthT l + 1
  | [] => by rw [specHeightT]; omega
  | t :: rest => by
    rw [specHeightT, specDepthT_cons]
    have := specHeight_le t.item
    have := specHeightT_le rest
    omega
end

theorem parseA2ml_height (cs : List Char) (S : Spec) (h : parseA2ml cs = .ok S) : specHeight S ≤ 101 := by
  have := specHeight_le S
  have := parseA2ml_depth cs S h
  omega

/-! ## `n` anonymous structs around `int` -/

/-- `struct { struct { ... int; ... }; }` with `n` structs -/
def nestToks : Nat → List ATok
  | 0 => [.kint]
  | n + 1 => .kstruct :: .ocurly :: (nestToks n ++ [.semicolon, .ccurly])

def nestSpec : Nat → Spec
  | 0 => .int 1
  | n + 1 => .struct [nestSpec n]

/-- `block "IF_DATA" struct { ... };` -/
def nestDecl (n : Nat) : List ATok := .kblock :: .tag "IF_DATA".toList :: (nestToks n ++ [.semicolon])

theorem specDepth_nestSpec : ∀ n, specDepth (nestSpec n) = n + 1
  | 0 => by rw [nestSpec, specDepth_int]
  | n + 1 => by
    rw [nestSpec, specDepth_struct, specDepthL_cons, specDepthL_nil, specDepth_nestSpec n]
    omega

theorem length_nestToks : ∀ n, (nestToks n).length = 4 * n + 1
  | 0 => rfl
  | n + 1 => by
    simp only [nestToks, List.length_cons, List.length_append, length_nestToks n, List.length_nil]
    omega

theorem arrayDims_noSquare (d levels : Nat) (base : Spec) (toks : List ATok) (h : ∀ r, toks ≠ .osquare :: r) :
    arrayDims d levels base toks = .ok base toks := by
  unfold arrayDims
  split
  · rename_i rest; exact absurd rfl (h rest)
  · rfl

/-- `parse_aml_member` on `n` nested structs at `depth`, for every sufficient budget: accepted exactly when
    `depth + n + 1 ≤ 100` -/
theorem member_nest (types : TypeSet) : ∀ (n fuel d : Nat) (rest : List ATok), 3 * n + 2 ≤ fuel →
    (∀ r, rest ≠ .osquare :: r) →
    member fuel types d (nestToks n ++ rest) = if d + (n + 1) ≤ 100 then .ok (nestSpec n) rest else .err
  | 0, fuel, d, rest, hf, hr => by
    obtain ⟨f, rfl⟩ : ∃ f, fuel = f + 2 := ⟨fuel - 2, by omega⟩
    simp only [nestToks, List.cons_append, List.nil_append, member, type_]
    by_cases hc : d + 1 ≤ 100
    · rw [if_pos ((checkNesting_iff _ _).2 hc), if_pos hc]
      dsimp only
      rw [arrayDims_noSquare _ _ _ _ hr, nestSpec]
    · rw [if_neg (by rw [checkNesting_iff]; exact hc), if_neg hc]
  | n + 1, fuel, d, rest, hf, hr => by
    obtain ⟨f, rfl⟩ : ∃ f, fuel = f + 3 := ⟨fuel - 3, by omega⟩
    have ih := member_nest types n f (d + 1) (.semicolon :: .ccurly :: rest) (by omega) (fun r h => by cases h)
    have happ : nestToks (n + 1) ++ rest = .kstruct :: .ocurly :: (nestToks n ++ (.semicolon :: .ccurly :: rest)) := by
      simp [nestToks]
    rw [happ]
    simp only [member, type_, optionalName, structLoop, ih]
    by_cases hc : d + (n + 1 + 1) ≤ 100
    · rw [if_pos ((checkNesting_iff _ _).2 (by omega)), if_pos (by omega), if_pos hc]
      dsimp only
      rw [arrayDims_noSquare _ _ _ _ hr, nestSpec]
      rfl
    · rw [if_neg hc]
      by_cases hc1 : d + 1 ≤ 100
      · rw [if_pos ((checkNesting_iff _ _).2 hc1), if_neg (by omega)]
      · rw [if_neg (by rw [checkNesting_iff]; exact hc1)]

theorem nestToks_head (n : Nat) (rest : List ATok) : ∀ r, nestToks n ++ rest ≠ .oround :: r := by
  intro r h
  cases n <;> simp [nestToks] at h

/-- `parse_a2ml` on the token list of `block "IF_DATA" struct { struct { ... int; ... }; };` with `n` structs:
    accepted exactly when `n ≤ 99` -/
theorem parseToks_nest (n : Nat) : parseToks (nestDecl n) = if n + 1 ≤ 100 then .ok (nestSpec n) else .err := by
  have hlen : (nestDecl n).length = 4 * n + 4 := by
    simp only [nestDecl, List.length_cons, List.length_append, length_nestToks, List.length_nil]
  unfold parseToks
  rw [hlen]
  obtain ⟨f, hf, hfe⟩ : ∃ f, 3 * n + 2 ≤ f ∧ parseFuel (4 * n + 4) = f + 1 := ⟨parseFuel (4 * n + 4) - 1, by
    unfold parseFuel; omega, by unfold parseFuel; omega⟩
  rw [hfe, show 4 * n + 4 + 1 = (4 * n + 3) + 1 + 1 from rfl]
  have hm := member_nest {} n f 0 [.semicolon] hf (fun r h => by cases h)
  have htd : taggedDef (f + 1) {} 0 (nestToks n ++ [.semicolon]) = member f {} 0 (nestToks n ++ [.semicolon]) := by
    rw [taggedDef.eq_def]
    dsimp only
    split
    · rename_i rest heq; exact absurd heq (nestToks_head n _ rest)
    · rfl
  simp only [nestDecl, declLoop, declStep, htd, hm]
  by_cases hc : n + 1 ≤ 100
  · rw [if_pos (by omega), if_pos hc]
    simp only [declLoop]
    rfl
  · rw [if_neg (by omega), if_neg hc]

/-! ## `k` array dimensions behind `int` -/

/-- `[1][1]...[1]` with `k` dimensions -/
def dimToks : Nat → List ATok
  | 0 => []
  | k + 1 => .osquare :: .constant 1 :: .csquare :: dimToks k

def arrSpec (base : Spec) : Nat → Spec
  | 0 => base
  | k + 1 => arrSpec (.array base 1) k

/-- `block "IF_DATA" int[1][1]...[1];` -/
def dimDecl (k : Nat) : List ATok := .kblock :: .tag "IF_DATA".toList :: .kint :: (dimToks k ++ [.semicolon])

theorem length_dimToks : ∀ k, (dimToks k).length = 3 * k
  | 0 => rfl
  | k + 1 => by simp only [dimToks, List.length_cons, length_dimToks k]; omega

/-- the array loop on `k` dimensions: every dimension is one more level; the check of a dimension comes before its
    tokens are consumed, so the first dimension that is too deep is an error wherever it is -/
theorem arrayDims_dims : ∀ (k d levels : Nat) (base : Spec) (rest : List ATok), (∀ r, rest ≠ .osquare :: r) →
    d + levels ≤ 100 →
    arrayDims d levels base (dimToks k ++ rest) = if d + levels + k ≤ 100 then .ok (arrSpec base k) rest else .err
  | 0, d, levels, base, rest, hr, hl => by
    rw [dimToks, List.nil_append, arrayDims_noSquare _ _ _ _ hr, if_pos (by omega), arrSpec]
  | k + 1, d, levels, base, rest, hr, hl => by
    simp only [dimToks, List.cons_append, arrayDims]
    by_cases hc : d + (levels + 1) ≤ 100
    · rw [if_pos ((checkNesting_iff _ _).2 hc), arrayDims_dims k d (levels + 1) _ rest hr hc, arrSpec,
        show dimOf 1 = 1 from rfl]
      by_cases hk : d + levels + (k + 1) ≤ 100
      · rw [if_pos hk, if_pos (by omega)]
      · rw [if_neg hk, if_neg (by omega)]
    · rw [if_neg (by rw [checkNesting_iff]; exact hc), if_neg (by omega)]

/-- `parse_a2ml` on the token list of `block "IF_DATA" int[1]...[1];` with `k` dimensions: accepted exactly when
    `k ≤ 99` -/
theorem parseToks_dims (k : Nat) : parseToks (dimDecl k) = if k + 1 ≤ 100 then .ok (arrSpec (.int 1) k) else .err := by
  have hlen : (dimDecl k).length = 3 * k + 4 := by
    simp only [dimDecl, List.length_cons, List.length_append, length_dimToks, List.length_nil]
  unfold parseToks
  rw [hlen]
  obtain ⟨f, hfe⟩ : ∃ f, parseFuel (3 * k + 4) = f + 3 := ⟨parseFuel (3 * k + 4) - 3, by unfold parseFuel; omega⟩
  rw [hfe, show 3 * k + 4 + 1 = (3 * k + 3) + 1 + 1 from rfl]
  have ha := arrayDims_dims k 0 1 (.int 1) [.semicolon] (fun r h => by cases h) (by omega)
  have hc : checkNesting 0 1 = true := by decide
  simp only [dimDecl, declLoop, declStep, taggedDef, member, type_, hc, if_true, specDepth_int, ha]
  by_cases hk : k + 1 ≤ 100
  · rw [if_pos (by omega), if_pos hk]
    simp only [declLoop]
  · rw [if_neg (by omega), if_neg hk]

theorem specDepth_arrSpec : ∀ (k : Nat) (base : Spec), specDepth (arrSpec base k) = specDepth base + k
  | 0, base => by rw [arrSpec]; rfl
  | k + 1, base => by rw [arrSpec, specDepth_arrSpec k, specDepth_array]; omega

/-! ## ... and on the text: single steps of the tokenizer, then the nested structs -/

theorem startsWith_include_ne (c : Char) (r : List Char) (h : c ≠ '/') : startsWith "/include".toList (c :: r) = false := by
  unfold startsWith
  have : "/include".toList = '/' :: "include".toList := rfl
  rw [this]
  simp only [List.length_cons, List.take_succ_cons]
  simp [h]

theorem tokAux_ws (f : Nat) (c : Char) (r : List Char) (acc : List ATok) (h : isWs c = true) :
    tokAux (f + 1) (c :: r) acc = tokAux f r acc := by
  rw [tokAux, if_pos h]

theorem tokAux_single (f : Nat) (c : Char) (r : List Char) (acc : List ATok) (t : ATok) (h1 : isWs c = false)
    (h2 : c ≠ '/') (h3 : c ≠ '"') (h4 : single c = some t) : tokAux (f + 1) (c :: r) acc = tokAux f r (t :: acc) := by
  rw [tokAux]
  simp only [h1, h2, h3, h4, startsWith_include_ne c r h2, false_and, if_false, Bool.false_eq_true]

theorem spanWord_append : ∀ (w : List Char) (c0 : Char) (r : List Char), (∀ x ∈ w, isWord x = true) → isWord c0 = false →
    spanWord (w ++ c0 :: r) = (w, c0 :: r)
  | [], c0, r, _, h0 => by rw [List.nil_append, spanWord, if_neg (by rw [h0]; exact Bool.false_ne_true)]
  | x :: w, c0, r, hw, h0 => by
    rw [List.cons_append, spanWord, if_pos (hw x (List.mem_cons_self ..)),
      spanWord_append w c0 r (fun y hy => hw y (List.mem_cons_of_mem _ hy)) h0]

theorem tokAux_word (f : Nat) (c : Char) (w : List Char) (c0 : Char) (r : List Char) (acc : List ATok)
    (h1 : isWs c = false) (h2 : c ≠ '/') (h3 : c ≠ '"') (h4 : single c = none) (h5 : c.isDigit = false)
    (h6 : (c.isAlpha || c = '_') = true) (hw : ∀ x ∈ w, isWord x = true) (h0 : isWord c0 = false) :
    tokAux (f + 1) (c :: (w ++ c0 :: r)) acc = tokAux f (c0 :: r) (keyword (c :: w) :: acc) := by
  rw [tokAux]
  simp only [h1, h2, h3, h4, h5, h6, startsWith_include_ne c _ h2, false_and, if_false, Bool.false_eq_true, if_true,
    spanWord_append w c0 r hw h0]

theorem takeTag_append : ∀ (w r : List Char), (∀ x ∈ w, x ≠ '"') → takeTag (w ++ '"' :: r) = some (w, r)
  | [], r, _ => by rw [List.nil_append, takeTag, if_pos rfl]
  | x :: w, r, hw => by
    rw [List.cons_append, takeTag, if_neg (hw x (List.mem_cons_self ..)),
      takeTag_append w r (fun y hy => hw y (List.mem_cons_of_mem _ hy))]

theorem tokAux_tag (f : Nat) (w r : List Char) (acc : List ATok) (hw : ∀ x ∈ w, x ≠ '"') :
    tokAux (f + 1) ('"' :: (w ++ '"' :: r)) acc = tokAux f r (.tag w :: acc) := by
  rw [tokAux]
  have h1 : isWs '"' = false := by decide
  have h2 : '"' ≠ '/' := by decide
  simp only [h1, h2, startsWith_include_ne _ _ h2, false_and, if_false, Bool.false_eq_true, if_true, takeTag_append w r hw]

/-- the text of `nestToks n` -/
def nestText : Nat → List Char
  | 0 => ['i', 'n', 't']
  | n + 1 => ['s', 't', 'r', 'u', 'c', 't', ' ', '{', ' '] ++ nestText n ++ [';', ' ', '}']

/-- `block "IF_DATA" struct { struct { ... int; ... }; };` with `n` structs -/
def nestDeclText (n : Nat) : List Char := ['b', 'l', 'o', 'c', 'k', ' ', '\"', 'I', 'F', '_', 'D', 'A', 'T', 'A', '\"', ' '] ++ nestText n ++ [';']

theorem length_nestText : ∀ n, (nestText n).length = 12 * n + 3
  | 0 => rfl
  | n + 1 => by
    simp only [nestText, List.length_append, length_nestText n, List.length_cons, List.length_nil]
    omega

/-- the tokenizer on the text of `n` nested structs (followed by a `;`) -/
theorem tokAux_nest : ∀ (n f : Nat) (tail : List Char) (acc : List ATok),
    tokAux (f + (7 * n + 1)) (nestText n ++ ';' :: tail) acc = tokAux f (';' :: tail) ((nestToks n).reverse ++ acc)
  | 0, f, tail, acc => by
    exact tokAux_word f 'i' ['n', 't'] ';' tail acc (by decide) (by decide) (by decide) (by decide) (by decide)
      (by decide) (by decide) (by decide)
  | n + 1, f, tail, acc => by
    have h1 : nestText (n + 1) ++ ';' :: tail =
        's' :: (['t', 'r', 'u', 'c', 't'] ++ ' ' :: '{' :: ' ' :: (nestText n ++ ';' :: ' ' :: '}' :: ';' :: tail)) := by
      simp [nestText]
    rw [h1, show f + (7 * (n + 1) + 1) = (f + 3 + (7 * n + 1)) + 3 + 1 by omega,
      tokAux_word _ 's' ['t', 'r', 'u', 'c', 't'] ' ' _ acc (by decide) (by decide) (by decide) (by decide) (by decide)
        (by decide) (by decide) (by decide),
      tokAux_ws _ ' ' _ _ (by decide),
      tokAux_single _ '{' _ _ .ocurly (by decide) (by decide) (by decide) (by decide),
      tokAux_ws _ ' ' _ _ (by decide),
      tokAux_nest n (f + 3) _ _,
      tokAux_single _ ';' _ _ .semicolon (by decide) (by decide) (by decide) (by decide),
      tokAux_ws _ ' ' _ _ (by decide),
      tokAux_single _ '}' _ _ .ccurly (by decide) (by decide) (by decide) (by decide)]
    have hk : keyword ('s' :: ['t', 'r', 'u', 'c', 't']) = .kstruct := by decide
    rw [hk]
    simp [nestToks]

theorem tokenize_nest (n : Nat) : tokenize (nestDeclText n) = .ok (nestDecl n) := by
  unfold tokenize
  have hlen : (nestDeclText n).length + 1 = (5 * n + 14) + 1 + 1 + (7 * n + 1) + 1 + 1 + 1 + 1 := by
    simp only [nestDeclText, List.length_append, length_nestText, List.length_cons, List.length_nil]
    omega
  have h1 : nestDeclText n = 'b' :: (['l', 'o', 'c', 'k'] ++ ' ' :: '"' :: (['I', 'F', '_', 'D', 'A', 'T', 'A'] ++ '"' :: ' ' :: (nestText n ++ ';' :: []))) := by
    simp [nestDeclText]
  rw [hlen, h1,
    tokAux_word _ 'b' ['l', 'o', 'c', 'k'] ' ' _ [] (by decide) (by decide) (by decide) (by decide) (by decide)
      (by decide) (by decide) (by decide),
    tokAux_ws _ ' ' _ _ (by decide),
    tokAux_tag _ ['I', 'F', '_', 'D', 'A', 'T', 'A'] _ _ (by decide),
    tokAux_ws _ ' ' _ _ (by decide),
    tokAux_nest n _ _ _,
    tokAux_single _ ';' _ _ .semicolon (by decide) (by decide) (by decide) (by decide),
    tokAux]
  have hk : keyword ('b' :: ['l', 'o', 'c', 'k']) = .kblock := by decide
  rw [hk]
  simp [nestDecl]

/-- **`n` anonymous structs around `int`** (`block "IF_DATA" struct { struct { ... int; ... }; };`): `parse_a2ml`
    accepts the text exactly when `n ≤ 99` -/
theorem parseA2ml_nest (n : Nat) : parseA2ml (nestDeclText n) = if n + 1 ≤ 100 then .ok (nestSpec n) else .err := by
  unfold parseA2ml
  rw [tokenize_nest]
  exact parseToks_nest n

end A2l.Aml
