import A2lVerif.Model.Checker
/-! Lemmas about the structural checker model (`Model/Checker.lean`): no panic site is reachable. -/
namespace A2l.Chk

/-! ### generic -/

theorem forEachOut_ok {α} (f : α → Out (List Report)) (xs : List α) (h : ∀ x ∈ xs, ∃ r, f x = .ok r) :
    ∃ r, forEachOut f xs = .ok r := by
  induction xs with
  | nil => exact ⟨[], rfl⟩
  | cons x xs ih =>
    obtain ⟨r, hr⟩ := h x (List.mem_cons_self ..)
    obtain ⟨r', hr'⟩ := ih fun y hy => h y (List.mem_cons_of_mem _ hy)
    exact ⟨r ++ r', by simp [forEachOut, hr, hr']⟩

/-- `forEachOut` of total steps is the concatenation -/
theorem forEachOut_eq_flatMap {α} (f : α → Out (List Report)) (g : α → List Report) (xs : List α)
    (h : ∀ x ∈ xs, f x = .ok (g x)) : forEachOut f xs = .ok (xs.flatMap g) := by
  induction xs with
  | nil => rfl
  | cons x xs ih =>
    simp [forEachOut, h x (List.mem_cons_self ..), ih fun y hy => h y (List.mem_cons_of_mem _ hy)]

/-! ### `strip_prefix(..).unwrap()` behind `starts_with(..)` -/

/-- the value `check_axis_descr_refs` pushes for one `THIS.`-capable reference -/
def thisRefReports (idx : Nat) (parent target targetType : Name) (objects : List Name) (direct : Bool)
    (containing : List TypedefStructure) : List Report :=
  match (if !direct && !containing.isEmpty then stripPrefix? (s "THIS.") target else none) with
  | some comp =>
    if !isValidStructureComponent comp containing then [.xref (adSource idx) parent (s "STRUCTURE_COMPONENT") comp] else []
  | none => missing (adSource idx) parent targetType target objects

theorem checkThisRef_eq (idx : Nat) (parent target targetType : Name) (objects : List Name) (direct : Bool)
    (containing : List TypedefStructure) :
    checkThisRef idx parent target targetType objects direct containing =
      .ok (thisRefReports idx parent target targetType objects direct containing) := by
  unfold checkThisRef thisRefReports startsWith
  cases hd : direct <;> cases hc : containing.isEmpty <;> cases hs : stripPrefix? (s "THIS.") target <;> simp

def axisDescrRefsReports (idx : Nat) (parent : Name) (ad : AxisDescr) (objects : List Name) (direct : Bool)
    (containing : List TypedefStructure) : List Report :=
  (match ad.axisPtsRef with
   | none => []
   | some t => thisRefReports idx parent t (s "AXIS_PTS") objects direct containing) ++
  (match ad.curveAxisRef with
   | none => []
   | some t => thisRefReports idx parent t (s "CHARACTERISTIC") objects direct containing)

theorem checkAxisDescrRefs_eq (idx : Nat) (parent : Name) (ad : AxisDescr) (objects : List Name) (direct : Bool)
    (containing : List TypedefStructure) :
    checkAxisDescrRefs idx parent ad objects direct containing =
      .ok (axisDescrRefsReports idx parent ad objects direct containing) := by
  unfold checkAxisDescrRefs axisDescrRefsReports
  cases ad.axisPtsRef <;> cases ad.curveAxisRef <;> simp [checkThisRef_eq]

/-- the reports of the first loop of `check_characteristic_common` -/
def axisLoopReports (parent : Name) (m : Module) (objects : List Name) (direct : Bool)
    (containing : List TypedefStructure) : Nat → List AxisDescr → List Report
  | _, [] => []
  | idx, ad :: rest =>
    checkAxisDescr idx parent ad m objects ++ axisDescrRefsReports idx parent ad objects direct containing ++
      axisLoopReports parent m objects direct containing (idx + 1) rest

theorem axisLoop_eq (parent : Name) (m : Module) (objects : List Name) (direct : Bool)
    (containing : List TypedefStructure) (idx : Nat) (ads : List AxisDescr) :
    axisLoop parent m objects direct containing idx ads =
      .ok (axisLoopReports parent m objects direct containing idx ads) := by
  induction ads generalizing idx with
  | nil => rfl
  | cons ad rest ih => simp [axisLoop, axisLoopReports, checkAxisDescrRefs_eq, ih]

/-- the reports of `check_characteristic_common` -/
def characteristicCommonReports (kind : Name) (c : Characteristic) (m : Module) (objects : List Name) (direct : Bool)
    (containing : List TypedefStructure) : List Report :=
  missingUnless (s "NO_COMPU_METHOD") kind c.name (s "COMPU_METHOD") c.conversion m.compuMethodNames ++
    axisLoopReports c.name m objects direct containing 0 c.axisDescr ++
    (if c.axisDescr.length != expectedAxisCount c.ctype then
      [.content c.name kind (s "Expected " ++ idxText (expectedAxisCount c.ctype) ++ s " AXIS_DESCR for type " ++
        c.ctype ++ s ", found " ++ idxText c.axisDescr.length)] else []) ++
    (match m.getRecordLayout c.recordLayout with
     | some rl =>
       (match rl.fncValues with
        | some dt => limitReport .characteristic m c.conversion dt c.name kind c.lower c.upper
        | none => [.content c.name kind
            (s "Referenced RECORD_LAYOUT " ++ c.recordLayout ++ s " does not have FNC_VALUES.")]) ++
       stdAxisLoop kind c.name c.recordLayout m rl 0 c.axisDescr
     | none => [.xref kind c.name (s "RECORD_LAYOUT") c.recordLayout])

theorem checkCharacteristicCommon_eq (kind : Name) (c : Characteristic) (m : Module) (objects : List Name)
    (direct : Bool) (containing : List TypedefStructure) :
    checkCharacteristicCommon kind c m objects direct containing =
      .ok (characteristicCommonReports kind c m objects direct containing) := by
  simp only [checkCharacteristicCommon, characteristicCommonReports, axisLoop_eq]
  cases hrl : m.getRecordLayout c.recordLayout with
  | none => rfl
  | some rl => cases hf : rl.fncValues <;> rfl

def characteristicReports (c : Characteristic) (m : Module) (objects : List Name) : List Report :=
  characteristicCommonReports (s "CHARACTERISTIC") c m objects true [] ++
    optMissing (s "CHARACTERISTIC") c.name (s "MEASUREMENT") c.comparisonQuantity objects ++
    optList (s "DEPENDENT_CHARACTERISTIC") (s "CHARACTERISTIC") c.dependent objects ++
    optList (s "MAP_LIST") (s "CHARACTERISTIC") c.mapList objects ++
    optList (s "VIRTUAL_CHARACTERISTIC") (s "CHARACTERISTIC") c.virtualChar objects ++
    checkFunctionList m c.functionList ++
    checkRefMemorySegment m c.refMemorySegment

theorem checkCharacteristic_eq (c : Characteristic) (m : Module) (objects : List Name) :
    checkCharacteristic c m objects = .ok (characteristicReports c m objects) := by
  simp only [checkCharacteristic, characteristicReports, checkCharacteristicCommon_eq]

def typedefCharacteristicReports (t : Characteristic) (m : Module) (objects : List Name) : List Report :=
  characteristicCommonReports (s "TYPEDEF_CHARACTERISTIC") t m objects (m.instance_.any fun i => i.typeRef == t.name)
    (m.typedefStructure.filter fun ts => ts.components.any fun sc => sc.2 == t.name)

theorem checkTypedefCharacteristic_eq (t : Characteristic) (m : Module) (objects : List Name) :
    checkTypedefCharacteristic t m objects = .ok (typedefCharacteristicReports t m objects) := by
  simp [checkTypedefCharacteristic, typedefCharacteristicReports, checkCharacteristicCommon_eq]

/-! ### `check_group_structure`: every group is in the map, `parents[0]` exists when `len() == 1` -/

theorem GMap.get_cons (k' : Name) (v' : GroupInfo) (rest : GMap) (k : Name) :
    GMap.get ((k', v') :: rest) k = if k' == k then some v' else GMap.get rest k := by
  simp only [GMap.get, List.find?_cons]
  split <;> simp_all

theorem GMap.isSome_get_insert_self (gm : GMap) (k : Name) (v : GroupInfo) : ((gm.insert k v).get k).isSome := by
  induction gm with
  | nil => simp [GMap.insert, GMap.get_cons]
  | cons e rest ih =>
    obtain ⟨k', v'⟩ := e
    simp only [GMap.insert]
    split
    · simp [GMap.get_cons]
    · rename_i hne
      simp only [GMap.get_cons, hne]
      simpa using ih

theorem GMap.isSome_get_insert (gm : GMap) (k : Name) (v : GroupInfo) (k0 : Name) (h : (gm.get k0).isSome) :
    ((gm.insert k v).get k0).isSome := by
  induction gm with
  | nil => simp [GMap.get] at h
  | cons e rest ih =>
    obtain ⟨k', v'⟩ := e
    simp only [GMap.insert]
    split
    · rename_i heq
      have hk : k' = k := by simpa using heq
      subst hk
      rw [GMap.get_cons] at h ⊢
      split <;> simp_all
    · rw [GMap.get_cons] at h ⊢
      split
      · simp
      · rename_i hne
        simp only [hne] at h
        exact ih (by simpa using h)

theorem GMap.isSome_get_pushParent (gm gm' : GMap) (k p : Name) (h : gm.pushParent k p = some gm') (k0 : Name) :
    (gm'.get k0).isSome = (gm.get k0).isSome := by
  induction gm generalizing gm' with
  | nil => simp [GMap.pushParent] at h
  | cons e rest ih =>
    obtain ⟨k', v'⟩ := e
    simp only [GMap.pushParent] at h
    split at h
    · cases h
      simp only [GMap.get_cons]
      split <;> simp
    · cases hp : GMap.pushParent rest k p with
      | none => simp [hp] at h
      | some r =>
        simp only [hp, Option.map_some, Option.some.injEq] at h
        subst h
        simp only [GMap.get_cons]
        split
        · rfl
        · exact ih r hp

theorem groupInit_keys_aux (gs : List Group) (gm : GMap) :
    (∀ k, (gm.get k).isSome → ((gs.foldl (fun gm g => gm.insert g.name ⟨g.root, []⟩) gm).get k).isSome) ∧
    (∀ g ∈ gs, ((gs.foldl (fun gm g => gm.insert g.name ⟨g.root, []⟩) gm).get g.name).isSome) := by
  induction gs generalizing gm with
  | nil => simp
  | cons g rest ih =>
    simp only [List.foldl_cons]
    obtain ⟨ih1, ih2⟩ := ih (gm.insert g.name ⟨g.root, []⟩)
    refine ⟨fun k hk => ih1 k (GMap.isSome_get_insert gm _ _ k hk), fun g' hg' => ?_⟩
    rcases List.mem_cons.1 hg' with rfl | hg'
    · exact ih1 _ (GMap.isSome_get_insert_self gm _ _)
    · exact ih2 g' hg'

theorem groupInit_keys (gs : List Group) : ∀ g ∈ gs, ((groupInit gs).get g.name).isSome :=
  (groupInit_keys_aux gs []).2

theorem groupLinkOne_keys (parent : Name) (l : List Name) (gm : GMap) (k0 : Name) :
    ((groupLinkOne parent l gm).1.get k0).isSome = (gm.get k0).isSome := by
  induction l generalizing gm with
  | nil => rfl
  | cons sg rest ih =>
    simp only [groupLinkOne]
    cases hp : gm.pushParent sg parent with
    | some gm' =>
      simp only
      rw [ih gm', GMap.isSome_get_pushParent gm gm' sg parent hp]
    | none =>
      simp only
      exact ih gm

theorem groupLink_keys (gs : List Group) (gm : GMap) (k0 : Name) :
    ((groupLink gs gm).1.get k0).isSome = (gm.get k0).isSome := by
  induction gs generalizing gm with
  | nil => rfl
  | cons g rest ih =>
    simp only [groupLink]
    cases hsg : g.subGroup with
    | none => simp only; exact ih gm
    | some l =>
      simp only
      rw [ih, groupLinkOne_keys]

theorem groupJudge_ok (gm : GMap) (gs : List Group) (h : ∀ g ∈ gs, (gm.get g.name).isSome) :
    ∃ r, groupJudge gm gs = .ok r := by
  induction gs with
  | nil => exact ⟨[], rfl⟩
  | cons g rest ih =>
    obtain ⟨r', hr'⟩ := ih fun g' hg' => h g' (List.mem_cons_of_mem _ hg')
    have hg := h g (List.mem_cons_self ..)
    cases hgi : gm.get g.name with
    | none => simp [hgi] at hg
    | some gi =>
      simp only [groupJudge, hgi, hr']
      by_cases h1 : (gi.isRoot && decide (gi.parents.length > 1)) = true
      · simp [h1]
      · simp only [h1]
        by_cases h2 : (gi.isRoot && (gi.parents.length == 1)) = true
        · simp only [h2, if_true]
          have hl : gi.parents.length = 1 := by
            simp only [Bool.and_eq_true, beq_iff_eq] at h2
            exact h2.2
          cases hp : gi.parents with
          | nil => simp [hp] at hl
          | cons p ps => simp
        · simp only [h2, Bool.false_eq_true, if_false]
          by_cases h3 : (!gi.isRoot && decide (gi.parents.length > 1)) = true
          · simp [h3]
          · by_cases h4 : (!gi.isRoot && gi.parents.isEmpty) = true
            · simp [h3, h4]
            · simp [h3, h4]

theorem checkGroupStructure_ok (gs : List Group) : ∃ r, checkGroupStructure gs = .ok r := by
  unfold checkGroupStructure
  have h : ∀ g ∈ gs, (((groupLink gs (groupInit gs)).1).get g.name).isSome := by
    intro g hg
    rw [groupLink_keys]
    exact groupInit_keys gs g hg
  obtain ⟨r, hr⟩ := groupJudge_ok _ gs h
  cases hgl : groupLink gs (groupInit gs) with
  | mk gm rl =>
    rw [hgl] at hr
    simp only at hr
    exact ⟨rl ++ r, by simp [hr]⟩

/-! ### the whole checker -/

theorem checkModule_ok (m : Module) : ∃ r, checkModule m = .ok r := by
  unfold checkModule
  obtain ⟨rg, hrg⟩ := checkGroupStructure_ok m.group
  simp only [forEachOut_eq_flatMap _ _ _ (fun c _ => checkCharacteristic_eq c m m.objects),
    forEachOut_eq_flatMap _ _ _ (fun t _ => checkTypedefCharacteristic_eq t m m.objects), hrg]
  exact ⟨_, rfl⟩

theorem check_ok (ms : List Module) : ∃ r, check ms = .ok r :=
  forEachOut_ok _ _ fun m _ => checkModule_ok m

end A2l.Chk
