import A2lVerif.Lemmas.RT.Defs
/-! # C01: the ordered form of a value (`Canon`): the items of every block in the order in which the writer emits them -/
namespace A2l.Tree
open A2l.G A2l.Sc

/-! ## `apply_position_restrictions`, generically -/

def refillG {α} (isR : α → Bool) : List α → List α → List α
  | [], _ => []
  | g :: gs, sorted =>
    if isR g then
      match sorted with
      | x :: xs => x :: refillG isR gs xs
      | [] => g :: refillG isR gs []
    else g :: refillG isR gs sorted

def posLeG {α} (pos : α → Option Nat) (a b : α) : Bool := decide ((pos a).getD 0 ≤ (pos b).getD 0)

def applyPosG {α} (pos : α → Option Nat) (group : List α) : List α :=
  let restricted := group.filter (fun x => (pos x).isSome)
  if restricted.length > 1 then refillG (fun x => (pos x).isSome) group (restricted.mergeSort (posLeG pos)) else group

theorem refill_eq_refillG (g s : List TagInfo) : refill g s = refillG (fun x => x.pos.isSome) g s := by
  induction g generalizing s with
  | nil => rfl
  | cons a g ih =>
    simp only [refill, refillG]
    split
    · cases s <;> simp [ih]
    · simp [ih]

theorem applyPositionRestrictions_eq (g : List TagInfo) : applyPositionRestrictions g = applyPosG (·.pos) g := by
  unfold applyPositionRestrictions applyPosG
  simp only [refill_eq_refillG]
  rfl

theorem refillG_map {α β} (f : α → β) (p : α → Bool) (q : β → Bool) (h : ∀ a, q (f a) = p a) :
    ∀ (g s : List α), refillG q (g.map f) (s.map f) = (refillG p g s).map f
  | [], _ => rfl
  | a :: g, s => by
    simp only [List.map_cons, refillG, h]
    split
    · cases s with
      | nil => simpa using refillG_map f p q h g []
      | cons x xs => simpa using refillG_map f p q h g xs
    · simpa using refillG_map f p q h g s

theorem map_mergeSort' {α β} (f : α → β) (r : α → α → Bool) (q : β → β → Bool) (h : ∀ a b, q (f a) (f b) = r a b)
    (l : List α) : (l.map f).mergeSort q = (l.mergeSort r).map f := by
  rw [List.map_mergeSort]
  intro a _ b _
  exact (h a b).symm

theorem applyPosG_map {α β} (f : α → β) (pa : α → Option Nat) (pb : β → Option Nat) (h : ∀ a, pb (f a) = pa a)
    (l : List α) : applyPosG pb (l.map f) = (applyPosG pa l).map f := by
  unfold applyPosG
  have hf : (l.map f).filter (fun x => (pb x).isSome) = (l.filter (fun x => (pa x).isSome)).map f := by
    rw [List.filter_map]
    congr 1
    apply List.filter_congr
    intro a _
    simp [h]
  simp only [hf, List.length_map]
  split
  · rw [map_mergeSort' f (posLeG pa) (posLeG pb) (by intro a b; simp [posLeG, h])]
    exact refillG_map f _ _ (by intro a; simp [h]) _ _
  · rfl

/-! ## group entries -/

/-- an item of a tagged part together with its sort key -/
structure GE where
  uid : Nat
  line : Nat
  ot : OT

def OT.tagText : OT → List Char
  | .node _ tag _ _ _ _ _ _ => tag
  | .cmt _ _ => []

/-- the `TagInfo` of a group entry; `body` = text of an element's parameters and sub-elements -/
def GE.toTag (code : List CodeEntry) (body : OT → List Char) (g : GE) : TagInfo :=
  match g.ot with
  | .node _ tag blk ty so eo fields _ =>
    { isComment := false, tag := tag, uid := g.uid, line := g.line, startOff := so, endOff := eo, isBlock := blk,
      text := body g.ot, pos := posRestrict code ty fields, included := false }
  | .cmt text off =>
    { isComment := true, tag := [], uid := g.uid, line := g.line, startOff := off, endOff := 0, isBlock := false,
      text := text, pos := none, included := false }

def geLe (a b : GE) : Bool :=
  if a.uid = 0 ∧ b.uid ≠ 0 then false
  else if b.uid = 0 ∧ a.uid ≠ 0 then true
  else if a.uid = b.uid then
    if a.line = b.line then decide (String.ofList a.ot.tagText ≤ String.ofList b.ot.tagText) else decide (a.line ≤ b.line)
  else decide (a.uid ≤ b.uid)

theorem tagLe_toTag (code : List CodeEntry) (body : OT → List Char) (a b : GE) :
    tagLe (a.toTag code body) (b.toTag code body) = geLe a b := by
  unfold tagLe geLe GE.toTag OT.tagText
  cases a.ot <;> cases b.ot <;> rfl

theorem pos_toTag (code : List CodeEntry) (body : OT → List Char) (a : GE) :
    (a.toTag code body).pos = a.ot.pos code := by
  unfold GE.toTag OT.pos
  cases a.ot <;> rfl

/-- the writer's order: sort by key, then apply the position restrictions -/
def sortGE (code : List CodeEntry) (ges : List GE) : List GE :=
  applyPosG (fun g => g.ot.pos code) (ges.mergeSort geLe)

theorem sortGE_toTag (code : List CodeEntry) (body : OT → List Char) (ges : List GE) :
    applyPositionRestrictions ((ges.map (GE.toTag code body)).mergeSort tagLe) = (sortGE code ges).map (GE.toTag code body) := by
  rw [applyPositionRestrictions_eq, map_mergeSort' _ geLe tagLe (tagLe_toTag code body)]
  exact applyPosG_map _ _ _ (pos_toTag code body) _

/-! ## the ordered form -/

def cmtGE (cm : Cmt) : GE := ⟨cm.uid, cm.line, .cmt cm.text cm.startOff⟩

/-- the group entry of the child `c` of arm number `i`, `its` = the child's own items in written order -/
def childGE (symbols : Array String) (i : Nat) (a : Arm) (c : Val) (its : List OT) : List GE :=
  match c with
  | .block cty cinfo cfields _ _ =>
    [⟨cinfo.uid, cinfo.line,
      .node i (symText symbols a.tag) a.block cty cinfo.startOff cinfo.endOff (cfields.map normField) its⟩]
  | _ => []

def gesArm (symbols : Array String) (i : Nat) (a : Arm) : List Val → List (List OT) → List GE
  | c :: cs, its :: itss => childGE symbols i a c its ++ gesArm symbols i a cs itss
  | _, _ => []

def gesFrom (symbols : Array String) : Nat → List Arm → List (List Val) → List (List (List OT)) → List GE
  | i, a :: arms, cs :: children, s :: sub => gesArm symbols i a cs s ++ gesFrom symbols (i + 1) arms children sub
  | _, _, _, _ => []

def Val.isScalar : Val → Bool
  | .ident .. => true | .str .. => true | .int .. => true | .dbl .. => true | .enum .. => true
  | _ => false

/-- a scalar, or a struct of scalars -/
def ElemShape : Val → Prop
  | .block _ _ fields _ _ => ∀ f ∈ fields, Val.isScalar f = true
  | v => Val.isScalar v = true

/-- an element, or an array / sequence of elements -/
def FieldShape : Val → Prop
  | .arr vs => ∀ v ∈ vs, ElemShape v
  | .seq vs => ∀ v ∈ vs, ElemShape v
  | v => ElemShape v

def Val.isBlock : Val → Bool
  | .block .. => true
  | _ => false

/-- `Canon e v items`: `v` is a block / keyword of the grammar, all its children are, and `items` are its sub-elements
    and comments in the order in which `stringify` writes them (`sub` = the same for every child) -/
inductive Canon (e : Env) : Val → List OT → Prop
  | mk {ty : Nat} {info : Info} {fields : List Val} {children : List (List Val)} {comments : List Cmt}
      {isB : Bool} {its : List ItemTy} {arms : List Arm} {ht : Bool}
      (hl : e.table.lookup ty = some (.block isB its arms ht))
      (sub : List (List (List OT)))
      (hlen : ht = true → children.length = arms.length) (hsub : sub.length = children.length)
      (hsub2 : ∀ (i : Nat) (cs : List Val) (ss : List (List OT)), children[i]? = some cs → sub[i]? = some ss →
        ss.length = cs.length)
      (hch : ∀ (i j : Nat) (cs : List Val) (ss : List (List OT)) (c : Val) (o : List OT),
        children[i]? = some cs → sub[i]? = some ss → cs[j]? = some c → ss[j]? = some o → Canon e c o)
      (hblk : ∀ cs ∈ children, ∀ c ∈ cs, Val.isBlock c = true)
      (hcm : ∀ cm ∈ comments, cm.included = false)
      (hfs : ∀ f ∈ fields, FieldShape f) :
      Canon e (.block ty info fields children comments)
        (if ht then (sortGE e.code (gesFrom e.symbols 0 arms children sub ++ comments.map cmtGE)).map (·.ot) else [])

/-- does the text of a block's content — its parameters `fields`, then `items` as they are written — end inside a
    `//` comment, as the writer's `ends_in_line_comment` sees it? (Rendered at indent level 0: the indentation does not
    matter, `endsInLineComment_body` in Writer.lean.) -/
def OT.endsLC (fields : List Val) (items : List OT) : Bool :=
  endsInLineComment (renderToks (fieldsToks 0 fields ++ OT.toksL 0 items))

/-- the end offset the writer uses (after the second `fix:` commit): the `/end` of a block whose content ends in a line
    comment is written with offset 1 if its recorded offset is 0 (`endOffOf`); keywords have no `/end` -/
def OT.fixEo (blk : Bool) (eo : Nat) (fields : List Val) (items : List OT) : Nat :=
  if blk = true ∧ eo = 0 ∧ OT.endsLC fields items = true then 1 else eo

/-- the offsets the writer uses (after the `fix:` commits): inside every tagged part, an item with offset 0 directly
    behind a line comment gets offset 1 (`flag` = `after_line_comment`), and so does the `/end` of a block whose
    content ends in a line comment (`OT.fixEo`) -/
def OT.fixL : Bool → List OT → List OT
  | _, [] => []
  | alc, .cmt text off :: rest => .cmt text (bumpOff alc off) :: OT.fixL (isLineCommentText text) rest
  | alc, .node arm tag blk ty so eo fields items :: rest =>
    .node arm tag blk ty (bumpOff alc so) (OT.fixEo blk eo fields (OT.fixL false items)) fields (OT.fixL false items) ::
      OT.fixL false rest

def OT.itemsOf : OT → List OT
  | .node _ _ _ _ _ _ _ items => items
  | .cmt _ _ => []

/-- `InOrder e v items`: the per-arm lists of sub-elements of `v` and its comment list stand in the order in which
    they occur in `items` (recursively). True of everything the parser builds; violated by values whose
    position-restricted sub-elements of one arm are not in position order (they are regrouped on the first write). -/
inductive InOrder (e : Env) : Val → List OT → Prop
  | mk {ty : Nat} {info : Info} {fields : List Val} {children : List (List Val)} {comments : List Cmt}
      {isB : Bool} {its : List ItemTy} {arms : List Arm} {ht : Bool} {items : List OT}
      (hl : e.table.lookup ty = some (.block isB its arms ht))
      (sub : List (List (List OT)))
      (hlen : ht = true → children.length = arms.length) (hsub : sub.length = children.length)
      (hsub2 : ∀ (i : Nat) (cs : List Val) (ss : List (List OT)), children[i]? = some cs → sub[i]? = some ss →
        ss.length = cs.length)
      (harm : ht = true → ∀ (k : Nat) (a : Arm) (cs : List Val) (ss : List (List OT)), arms[k]? = some a →
        children[k]? = some cs → sub[k]? = some ss →
        (gesArm e.symbols k a cs ss).map (·.ot) = items.filter (OT.isArm k))
      (hcmo : ht = true → comments.map (fun cm => OT.cmt cm.text cm.startOff) = items.filter OT.isCmt)
      (hblk : ∀ cs ∈ children, ∀ c ∈ cs, Val.isBlock c = true)
      (hcm : ∀ cm ∈ comments, cm.included = false)
      (hnil : ht = false → children = [] ∧ comments = [])
      (hfid : info.fileid = 0)
      (hch : ∀ (i j : Nat) (cs : List Val) (ss : List (List OT)) (c : Val) (o : List OT),
        children[i]? = some cs → sub[i]? = some ss → cs[j]? = some c → ss[j]? = some o → InOrder e c o) :
      InOrder e (.block ty info fields children comments) items

/-- equality of two values up to the layout bookkeeping that is recomputed on reload: `Info.line`, `Info.uid`,
    `Cmt.line`, `Cmt.uid`, and the `Info` of struct values inside parameter lists (never written, compared via
    `normField`). Everything else — types, parameters, line offsets `startOff` / `endOff`, file ids, the per-arm
    lists of sub-elements in their order, the comments with their texts and offsets — is equal. -/
inductive LayoutEq : Val → Val → Prop
  | block {ty : Nat} {i i' : Info} {f f' : List Val} {ch ch' : List (List Val)} {cm cm' : List Cmt}
      (hso : i.startOff = i'.startOff) (heo : i.endOff = i'.endOff) (hfid : i.fileid = i'.fileid)
      (hf : f.map normField = f'.map normField)
      (hlen : ch.length = ch'.length)
      (hlen2 : ∀ (k : Nat) (cs cs' : List Val), ch[k]? = some cs → ch'[k]? = some cs' → cs.length = cs'.length)
      (hch : ∀ (k j : Nat) (cs cs' : List Val) (c c' : Val), ch[k]? = some cs → ch'[k]? = some cs' →
        cs[j]? = some c → cs'[j]? = some c' → LayoutEq c c')
      (hcm : cm.map (fun x => (x.text, x.startOff, x.included)) = cm'.map (fun x => (x.text, x.startOff, x.included))) :
      LayoutEq (.block ty i f ch cm) (.block ty i' f' ch' cm')

end A2l.Tree
