import A2lVerif.Lemmas.Lex
/-! # C01: the tokenizer on a text that is a sequence of (whitespace gap, token core) segments — byte level -/
namespace A2l.Lex

/-- number of newline bytes in a list -/
def nlB : List UInt8 → Nat
  | [] => 0
  | c :: cs => (if c == 10 then 1 else 0) + nlB cs

theorem nlB_append (a b : List UInt8) : nlB (a ++ b) = nlB a + nlB b := by
  induction a with
  | nil => simp [nlB]
  | cons c a ih => simp only [List.cons_append, nlB, ih]; omega

section
variable {b : Bytes} {pre m post : List UInt8} (hb : b = (pre ++ (m ++ post)).toArray)
include hb

theorem size_eq : b.size = pre.length + (m.length + post.length) := by
  subst hb; simp

theorem occ_get (i : Nat) (hi : i < m.length) : b[pre.length + i]? = some m[i] := by
  subst hb
  simp only [List.getElem?_toArray]
  rw [List.getElem?_append_right (by omega), Nat.add_sub_cancel_left, List.getElem?_append_left hi,
    List.getElem?_eq_getElem hi]

theorem occ_head {c : UInt8} {cs : List UInt8} (hm : m = c :: cs) : b[pre.length]? = some c := by
  have := occ_get hb 0 (by rw [hm]; simp)
  simpa [hm] using this

theorem occ_post (i : Nat) (hi : i < post.length) : b[pre.length + m.length + i]? = some post[i] := by
  subst hb
  simp only [List.getElem?_toArray]
  rw [List.getElem?_append_right (by omega), List.getElem?_append_right (by omega)]
  rw [show pre.length + m.length + i - pre.length - m.length = i by omega, List.getElem?_eq_getElem hi]

/-- the first byte behind `m`, if any -/
theorem occ_next : b[pre.length + m.length]? = post.head? := by
  cases post with
  | nil =>
    have := size_eq hb
    rw [getElem?_neg]; · rfl
    simp at this; omega
  | cons c cs =>
    have := occ_post hb 0 (by simp)
    simpa using this

/-- `skipWhile` over a run of bytes that all satisfy `p`, stopped by the next byte or the end of input -/
theorem skipWhile_run (p : UInt8 → Bool) (hall : ∀ c ∈ m, p c = true)
    (hstop : match post.head? with | none => True | some c => p c = false) :
    skipWhile b p pre.length = pre.length + m.length := by
  have hsz := size_eq hb
  apply Nat.le_antisymm
  · apply skipWhile_le_of_stop b p pre.length _ (by omega)
    cases hp : post.head? with
    | none =>
      left
      have : post = [] := by cases post <;> simp_all
      subst this; simp at hsz; omega
    | some c =>
      right
      rw [hp] at hstop
      exact ⟨c, by rw [occ_next hb, hp], hstop⟩
  · apply Nat.le_of_not_lt
    intro hlt
    rcases skipWhile_stop b p pre.length (by omega) with h | ⟨c, hc, hpc⟩
    · omega
    · have hge := skipWhile_ge b p pre.length
      have hi : skipWhile b p pre.length - pre.length < m.length := by omega
      have := occ_get hb (skipWhile b p pre.length - pre.length) hi
      rw [show pre.length + (skipWhile b p pre.length - pre.length) = skipWhile b p pre.length by omega, hc] at this
      have hm := hall _ (List.getElem_mem hi)
      rw [← Option.some.inj this] at hm
      rw [hm] at hpc; cases hpc

/-- newline count of a range that is the byte list `m` -/
theorem nlCount_occ : nlCount b pre.length (pre.length + m.length) = nlB m := by
  subst hb
  unfold nlCount
  rw [List.extract_toArray]
  simp only [List.foldl_toArray']
  have : (pre ++ (m ++ post)).extract pre.length (pre.length + m.length) = m := by
    simp [List.extract_eq_drop_take]
  rw [this]
  have gen : ∀ (l : List UInt8) (n : Nat), l.foldl (fun n c => n + (if c == 10 then 1 else 0)) n = n + nlB l := by
    intro l
    induction l with
    | nil => intro n; simp [nlB]
    | cons c l ih => intro n; simp only [List.foldl_cons, ih, nlB]; omega
  simpa using gen m 0

end

/-- the dispatch of one loop iteration when no `/include` token has been produced -/
theorem step_dispatch (b : Bytes) (s : State) (c : UInt8) (hc : b[s.bytepos]? = some c)
    (hninc : ∀ t, s.tokens.back? = some t → t.ttype ≠ .include) :
    step b s =
      if isWs c then
        (match countNewlines b s.bytepos (skipWhile b isWs s.bytepos) with
          | .panic => .panic
          | .ok n => .cont { s with bytepos := skipWhile b isWs s.bytepos, separated := true, line := s.line + n })
      else if c == 47 && s.bytepos + 1 < b.size then stepSlash b s
      else if c == 34 then stepString b s
      else if isAlpha c || c == 95 then stepIdent b s
      else if c == 45 || isNumChar c then stepNumber b s
      else invalidToken b s.bytepos s.line := by
  unfold step
  simp only [hc]
  by_cases he : s.tokens.isEmpty = true
  · simp only [he, if_true]
    rfl
  · cases hb : s.tokens.back? with
    | none => simp at hb; simp [hb] at he
    | some t =>
      have : decide (t.ttype = TokType.include) = false := by simpa using hninc t hb
      simp only [he, Bool.false_eq_true, if_false, this, Bool.false_and]
      rfl

theorem matchAt_of_occ (b : Bytes) : ∀ (pat : List UInt8) (pos : Nat),
    (∀ j (h : j < pat.length), b[pos + j]? = some pat[j]) → matchAt b pos pat = true
  | [], _, _ => rfl
  | c :: cs, pos, h => by
    have h0 := h 0 (by simp)
    simp only [Nat.add_zero, List.getElem_cons_zero] at h0
    simp only [matchAt, h0, beq_self_eq_true, Bool.true_and]
    apply matchAt_of_occ b cs (pos + 1)
    intro j hj
    have := h (j + 1) (by simp; omega)
    simpa [Nat.add_assoc, Nat.add_comm 1 j] using this

theorem get_of_get? {b : Bytes} {i : Nat} {c : UInt8} (h : b[i]? = some c) (hi : i < b.size) : b[i] = c := by
  rw [getElem?_of_lt hi] at h; exact Option.some.inj h

/-- the body of a written string literal (bytes): plain bytes other than quote, backslash and newline, or a backslash
    followed by one byte other than newline -/
inductive StrBody : List UInt8 → Prop
  | nil : StrBody []
  | plain (c : UInt8) (rest : List UInt8) (h : c ≠ 34 ∧ c ≠ 92 ∧ c ≠ 10) : StrBody rest → StrBody (c :: rest)
  | esc (x : UInt8) (rest : List UInt8) (h : x ≠ 10) : StrBody rest → StrBody (92 :: x :: rest)

theorem StrBody.nlB_zero {l : List UInt8} (h : StrBody l) : nlB l = 0 := by
  induction h with
  | nil => rfl
  | plain c rest hc _ ih => simp [nlB, hc.2.2, ih]
  | esc x rest hx _ ih => simp [nlB, hx, ih]

/-- `find_string_end`'s loop runs over the body of a string literal without leaving the "inside" state -/
theorem stringLoop_body (b : Bytes) {body : List UInt8} (hbody : StrBody body) :
    ∀ (pre post : List UInt8), b = (pre ++ (body ++ post)).toArray →
      stringLoop b pre.length false false false = stringLoop b (pre.length + body.length) false false false := by
  induction hbody with
  | nil => intro pre post _; rfl
  | plain c rest hc _ ih =>
    intro pre post hb
    have hsz := size_eq hb
    have hlt : pre.length < b.size := by simp at hsz; omega
    have h0 : b[pre.length] = c := get_of_get? (occ_head hb rfl) hlt
    have hb' : b = ((pre ++ [c]) ++ (rest ++ post)).toArray := by rw [hb]; simp
    rw [stringLoop, dif_pos ⟨hlt, rfl⟩, h0, if_neg (by simp [hc.1])]
    simp only [Bool.false_eq_true, if_false]
    rw [if_neg (by simp [hc.2.1])]
    have := ih (pre ++ [c]) post hb'
    simp only [List.length_append, List.length_cons, List.length_nil] at this
    rw [this]
    simp [Nat.add_assoc, Nat.add_comm 1]
  | esc x rest hx _ ih =>
    intro pre post hb
    have hsz := size_eq hb
    have hlt : pre.length < b.size := by simp at hsz; omega
    have hlt1 : pre.length + 1 < b.size := by simp at hsz; omega
    have h0 : b[pre.length] = 92 := get_of_get? (occ_head hb rfl) hlt
    have h1 : b[pre.length + 1] = x := get_of_get? (by have := occ_get hb 1 (by simp); simpa using this) hlt1
    have hb' : b = ((pre ++ [92, x]) ++ (rest ++ post)).toArray := by rw [hb]; simp
    rw [stringLoop, dif_pos ⟨hlt, rfl⟩, h0, if_neg (by decide)]
    simp only [Bool.false_eq_true, if_false]
    rw [if_pos (by decide), stringLoop, dif_pos ⟨hlt1, rfl⟩, h1]
    have := ih (pre ++ [92, x]) post hb'
    simp only [List.length_append, List.length_cons, List.length_nil] at this
    by_cases hx34 : x = 34
    · subst hx34
      rw [if_pos (by decide)]
      simp only [Bool.false_or, Bool.not_true]
      rw [show pre.length + 1 + 1 = pre.length + (0 + 1 + 1) by omega, this]
      simp [Nat.add_assoc]; congr 1; omega
    · rw [if_neg (by simp [hx34])]
      simp only [Bool.false_eq_true, if_false]
      by_cases hx92 : x = 92
      · subst hx92
        rw [if_pos (by decide)]
        simp only [if_true]
        rw [show pre.length + 1 + 1 = pre.length + (0 + 1 + 1) by omega, this]
        simp [Nat.add_assoc]; congr 1; omega
      · rw [if_neg (by simp [hx92])]
        rw [show pre.length + 1 + 1 = pre.length + (0 + 1 + 1) by omega, this]
        simp [Nat.add_assoc]; congr 1; omega

/-- `commentStart` runs back over blanks -/
theorem commentStart_blanks (b : Bytes) (p : Nat) : ∀ (k : Nat), (∀ i, i < k → b[p + i]? = some 32) →
    commentStart b (p + k) = commentStart b p
  | 0, _ => rfl
  | k + 1, h => by
    rw [← Nat.add_assoc, commentStart, h k (Nat.lt_succ_self k)]
    simp only [beq_self_eq_true, if_true]
    exact commentStart_blanks b p k (fun i hi => h i (by omega))

theorem commentStart_stop (b : Bytes) (p : Nat) (h : p = 0 ∨ ∃ c, b[p - 1]? = some c ∧ c ≠ 32) :
    commentStart b p = .ok p := by
  cases p with
  | zero => rfl
  | succ q =>
    rcases h with h | ⟨c, hc, hne⟩
    · cases h
    · simp only [Nat.add_sub_cancel] at hc
      rw [commentStart, hc]
      simp [hne]

/-- the bytes of a block comment: `/*`, then no `*/` before the final one -/
structure BlockCore (core : List UInt8) : Prop where
  len : 4 ≤ core.length
  h0 : core[0]? = some 47
  h1 : core[1]? = some 42
  hend : core[core.length - 2]? = some 42 ∧ core[core.length - 1]? = some 47
  hfirst : ∀ j, 3 ≤ j → j < core.length - 1 → ¬ (core[j - 1]? = some 42 ∧ core[j]? = some 47)

/-! ## one loop iteration per kind of segment -/

def NoInclude (s : State) : Prop := ∀ t, s.tokens.back? = some t → t.ttype ≠ .include

section
variable {b : Bytes} {pre m post : List UInt8} (hb : b = (pre ++ (m ++ post)).toArray)
include hb

/-- a whitespace gap -/
theorem step_ws (hne : m ≠ []) (hall : ∀ c ∈ m, isWs c = true)
    (hstop : match post.head? with | none => True | some c => isWs c = false)
    (s : State) (hp : s.bytepos = pre.length) (hni : NoInclude s) :
    step b s = .cont { s with bytepos := pre.length + m.length, separated := true, line := s.line + nlB m } := by
  obtain ⟨c, cs, hm⟩ := List.exists_cons_of_ne_nil hne
  have hc : b[s.bytepos]? = some c := by rw [hp]; exact occ_head hb hm
  have hsz := size_eq hb
  rw [step_dispatch b s c hc hni, if_pos (hall c (by rw [hm]; exact List.mem_cons_self)), hp,
    skipWhile_run hb isWs hall hstop, countNewlines_eq (by omega) (by omega), nlCount_occ hb]

theorem slice_occ : slice b pre.length (pre.length + m.length) = .ok m.toArray := by
  have hsz := size_eq hb
  unfold slice
  rw [if_pos ⟨by omega, by omega⟩]
  subst hb
  rw [List.extract_toArray]
  simp [List.extract_eq_drop_take]

/-- `handle_a2ml` does nothing behind an identifier that is not the tag of an A2ML block -/
theorem handleA2ml_noop (line : Nat) (tokens : Array Token) (tt : TokType) (tline : Nat)
    (hA : ∀ t2, tokens.back? = some t2 → t2.ttype = .begin → m ≠ tagA2ml.toList) :
    handleA2ml b (pre.length + m.length) line
        (tokens.push { ttype := tt, startpos := pre.length, endpos := pre.length + m.length, line := tline }) =
      .ok (pre.length + m.length, line,
        tokens.push { ttype := tt, startpos := pre.length, endpos := pre.length + m.length, line := tline }) := by
  unfold handleA2ml
  simp only [Array.size_push]
  by_cases hn : tokens.size + 1 ≥ 2
  · rw [if_pos hn]
    have h2 : (tokens.push { ttype := tt, startpos := pre.length, endpos := pre.length + m.length, line := tline })[tokens.size + 1 - 2]? =
        tokens.back? := by
      rw [Array.getElem?_push, if_neg (by omega), Array.back?_eq_getElem?]
      congr 1
    rw [h2]
    cases hbk : tokens.back? with
    | none => simp at hbk; subst hbk; simp at hn
    | some t2 =>
      simp only []
      by_cases hbeg : t2.ttype = .begin
      · rw [if_pos hbeg]
        have h1 : (tokens.push { ttype := tt, startpos := pre.length, endpos := pre.length + m.length, line := tline })[tokens.size + 1 - 1]? =
            some { ttype := tt, startpos := pre.length, endpos := pre.length + m.length, line := tline } := by simp
        rw [h1]
        simp only [slice_occ hb]
        have hne : (m.toArray == tagA2ml) = false := by
          have := hA t2 hbk hbeg
          simp only [beq_eq_false_iff_ne, ne_eq]
          intro h; apply this; rw [← h]
        simp [hne]
      · rw [if_neg hbeg]
  · rw [if_neg hn]

/-- an identifier -/
theorem step_ident (hne : m ≠ []) (hall : ∀ c ∈ m, isIdentChar c = true)
    (hfirst : ∀ c cs, m = c :: cs → (isAlpha c || c == 95) = true)
    (hstop : match post.head? with | none => True | some c => isIdentChar c = false)
    (s : State) (hp : s.bytepos = pre.length) (hsep : s.separated = true) (hni : NoInclude s)
    (hA : ∀ t2, s.tokens.back? = some t2 → t2.ttype = .begin → m ≠ tagA2ml.toList) :
    step b s = .cont ⟨s.tokens.push ⟨.identifier, pre.length, pre.length + m.length, s.line⟩,
      pre.length + m.length, false, s.line⟩ := by
  obtain ⟨c, cs, hm⟩ := List.exists_cons_of_ne_nil hne
  have hc : b[s.bytepos]? = some c := by rw [hp]; exact occ_head hb hm
  have hf := hfirst c cs hm
  have hcls : isWs c = false ∧ c ≠ 47 ∧ c ≠ 34 := by
    simp [isAlpha, isWs, UInt8.le_iff_toNat_le, ← UInt8.toNat_inj] at hf ⊢; omega
  rw [step_dispatch b s c hc hni, if_neg (by simp [hcls.1]), if_neg (by simp [hcls.2.1]), if_neg (by simp [hcls.2.2]),
    if_pos hf]
  unfold stepIdent
  simp only [hsep, Bool.true_eq_false, if_false, hp, skipWhile_run hb isIdentChar hall hstop]
  rw [handleA2ml_noop hb s.line s.tokens .identifier s.line hA]
  simp

/-- `/begin` -/
theorem step_begin (hm : m = 47 :: kwBegin) (s : State) (hp : s.bytepos = pre.length) (hsep : s.separated = true)
    (hni : NoInclude s) :
    step b s = .cont ⟨s.tokens.push ⟨.begin, pre.length, pre.length + 6, s.line⟩, pre.length + 6, false, s.line⟩ := by
  have hc : b[s.bytepos]? = some 47 := by rw [hp]; exact occ_head hb hm
  have hsz := size_eq hb
  have hlen : m.length = 6 := by rw [hm]; rfl
  have h1 : b[pre.length + 1]? = some 98 := by
    have := occ_get hb 1 (by omega); simpa [hm, kwBegin] using this
  have hst : startsWith b (pre.length + 1) kwBegin = .ok true := by
    unfold startsWith
    rw [if_pos (by omega)]
    congr 1
    apply matchAt_of_occ
    intro j hj
    have hj' : j < 5 := by simpa [kwBegin] using hj
    have := occ_get hb (j + 1) (by omega)
    rw [Nat.add_assoc, Nat.add_comm 1 j]
    simpa [hm] using this
  rw [step_dispatch b s 47 hc hni, if_neg (by decide), if_pos (by simp; omega)]
  unfold stepSlash
  simp only [hp, h1]
  rw [if_neg (by decide), if_neg (by decide)]
  simp only [hst, stepKeyword, hsep, Bool.true_eq_false, if_false]

/-- `/end` -/
theorem step_end (hm : m = 47 :: kwEnd) (s : State) (hp : s.bytepos = pre.length) (hsep : s.separated = true)
    (hni : NoInclude s) :
    step b s = .cont ⟨s.tokens.push ⟨.end_, pre.length, pre.length + 4, s.line⟩, pre.length + 4, false, s.line⟩ := by
  have hc : b[s.bytepos]? = some 47 := by rw [hp]; exact occ_head hb hm
  have hsz := size_eq hb
  have hlen : m.length = 4 := by rw [hm]; rfl
  have h1 : b[pre.length + 1]? = some 101 := by
    have := occ_get hb 1 (by omega); simpa [hm, kwEnd] using this
  have hst0 : startsWith b (pre.length + 1) kwBegin = .ok false := by
    unfold startsWith
    rw [if_pos (by omega)]
    simp [matchAt, kwBegin, h1]
  have hst : startsWith b (pre.length + 1) kwEnd = .ok true := by
    unfold startsWith
    rw [if_pos (by omega)]
    congr 1
    apply matchAt_of_occ
    intro j hj
    have hj' : j < 3 := by simpa [kwEnd] using hj
    have := occ_get hb (j + 1) (by omega)
    rw [Nat.add_assoc, Nat.add_comm 1 j]
    simpa [hm] using this
  rw [step_dispatch b s 47 hc hni, if_neg (by decide), if_pos (by simp; omega)]
  unfold stepSlash
  simp only [hp, h1]
  rw [if_neg (by decide), if_neg (by decide)]
  simp only [hst0, hst, stepKeyword, hsep, Bool.true_eq_false, if_false]

/-- a number -/
theorem step_number (c0 : UInt8) (rest : List UInt8) (hm : m = c0 :: rest)
    (hf1 : (isAlpha c0 || c0 == 95) = false) (hf2 : (c0 == 45 || isNumChar c0) = true)
    (hrest : ∀ c ∈ rest, isNumChar c = true)
    (hstop : match post.head? with | none => True | some c => isNumChar c = false ∧ isIdentChar c = false)
    (hnot : m ≠ [45] ∧ m ≠ [46] ∧ m ≠ [48, 120])
    (s : State) (hp : s.bytepos = pre.length) (hsep : s.separated = true) (hni : NoInclude s) :
    step b s = .cont ⟨s.tokens.push ⟨.number, pre.length, pre.length + m.length, s.line⟩,
      pre.length + m.length, false, s.line⟩ := by
  have hc : b[s.bytepos]? = some c0 := by rw [hp]; exact occ_head hb hm
  have hsz := size_eq hb
  have hcls : isWs c0 = false ∧ c0 ≠ 47 ∧ c0 ≠ 34 := by
    have := minus_numChar hf2
    simp [isNumChar, isHexDigit, isDigit, isWs, UInt8.le_iff_toNat_le, ← UInt8.toNat_inj] at this ⊢; omega
  have hb' : b = ((pre ++ [c0]) ++ (rest ++ post)).toArray := by rw [hb, hm]; simp
  have hskip : skipWhile b isNumChar (pre.length + 1) = pre.length + m.length := by
    have := skipWhile_run hb' isNumChar hrest (by
      cases hh : post.head? with
      | none => trivial
      | some c => rw [hh] at hstop; exact hstop.1)
    simp only [List.length_append, List.length_cons, List.length_nil] at this
    rw [hm, List.length_cons, this]; omega
  rw [step_dispatch b s c0 hc hni, if_neg (by simp [hcls.1]), if_neg (by simp [hcls.2.1]), if_neg (by simp [hcls.2.2]),
    if_neg (by simp [hf1]), if_pos hf2]
  unfold stepNumber
  simp only [hsep, Bool.true_eq_false, if_false, hp, hskip]
  have hgo : stepNumberTok b s (pre.length + m.length) = .cont ⟨s.tokens.push ⟨.number, pre.length, pre.length + m.length, s.line⟩,
      pre.length + m.length, false, s.line⟩ := by
    unfold stepNumberTok
    simp only [hp, slice_occ hb]
    have hne : (m.toArray == #[45] || m.toArray == #[46] || m.toArray == #[48, 120]) = false := by
      have e1 : (m.toArray == #[45]) = false := by
        simp only [beq_eq_false_iff_ne, ne_eq]; intro h; apply hnot.1; simpa using congrArg Array.toList h
      have e2 : (m.toArray == #[46]) = false := by
        simp only [beq_eq_false_iff_ne, ne_eq]; intro h; apply hnot.2.1; simpa using congrArg Array.toList h
      have e3 : (m.toArray == #[48, 120]) = false := by
        simp only [beq_eq_false_iff_ne, ne_eq]; intro h; apply hnot.2.2; simpa using congrArg Array.toList h
      simp [e1, e2, e3]
    rw [hne]
    rfl
  by_cases he : pre.length + m.length = b.size
  · rw [if_pos he]; exact hgo
  · rw [if_neg he, occ_next hb]
    cases hh : post.head? with
    | none =>
      have : post = [] := by cases post <;> simp_all
      subst this; simp at hsz; omega
    | some c =>
      rw [hh] at hstop
      simp only [hstop.2, Bool.not_false]
      exact hgo

/-- `find_string_end`'s loop on a written string literal -/
theorem stringLoop_lit (body : List UInt8) (hbody : StrBody body) (hm : m = 34 :: (body ++ [34]))
    (hstop : match post.head? with | none => True | some c => c ≠ 34) :
    stringLoop b (pre.length + 1) false false false =
      (if post = [] then (pre.length + m.length, false, true) else (pre.length + m.length + 1, true, false)) := by
  have hsz := size_eq hb
  have hlen : m.length = body.length + 2 := by rw [hm]; simp
  have hb' : b = ((pre ++ [34]) ++ (body ++ (34 :: post))).toArray := by rw [hb, hm]; simp
  have hb2 : b = ((pre ++ [34] ++ body) ++ ([34] ++ post)).toArray := by rw [hb, hm]; simp
  have h1 := stringLoop_body b hbody (pre ++ [34]) (34 :: post) hb'
  simp only [List.length_append, List.length_cons, List.length_nil, Nat.zero_add] at h1
  have hq : b[pre.length + 1 + body.length]? = some 34 := by
    have := occ_head hb2 (c := 34) (cs := []) rfl
    simp only [List.length_append, List.length_cons, List.length_nil] at this
    rw [show pre.length + 1 + body.length = pre.length + (0 + 1) + body.length by omega]; exact this
  have hqlt : pre.length + 1 + body.length < b.size := by omega
  rw [h1, stringLoop, dif_pos ⟨hqlt, rfl⟩, get_of_get? hq hqlt, if_pos (by decide)]
  simp only [Bool.or_self, Bool.not_false]
  cases post with
  | nil =>
    have hend : ¬ (pre.length + 1 + body.length + 1 < b.size ∧ false = false) := by simp at hsz ⊢; omega
    rw [stringLoop, dif_neg hend, if_pos rfl]
    congr 1; omega
  | cons c cs =>
    simp only [List.head?_cons] at hstop
    have hlt2 : pre.length + 1 + body.length + 1 < b.size := by simp at hsz; omega
    have hc : b[pre.length + 1 + body.length + 1]? = some c := by
      have := occ_next hb
      rw [hlen] at this
      rw [show pre.length + 1 + body.length + 1 = pre.length + (body.length + 2) by omega, this]; rfl
    have hend : ¬ (pre.length + 1 + body.length + 1 + 1 < b.size ∧ true = false) := by simp
    rw [stringLoop, dif_pos ⟨hlt2, rfl⟩, get_of_get? hc hlt2, if_neg (by simp [hstop]), if_pos rfl,
      stringLoop, dif_neg hend, if_neg (by simp)]
    congr 1; omega

/-- `find_string_end` on a written string literal: the position behind the closing quote -/
theorem findStringEnd_lit (body : List UInt8) (hbody : StrBody body) (hm : m = 34 :: (body ++ [34]))
    (hstop : match post.head? with | none => True | some c => c ≠ 34) :
    findStringEnd b (pre.length + 1) = .ok (pre.length + m.length) := by
  have hsz := size_eq hb
  unfold findStringEnd
  rw [stringLoop_lit hb body hbody hm hstop]
  by_cases hp : post = []
  · subst hp
    rw [if_pos rfl]
    simp only []
    have : pre.length + m.length = b.size := by simp at hsz; omega
    simp [this]
  · rw [if_neg hp]
    simp only []
    rw [if_neg (by simp), if_neg (by omega)]
    rfl

/-- a string literal -/
theorem step_string (body : List UInt8) (hbody : StrBody body) (hm : m = 34 :: (body ++ [34]))
    (hstop : match post.head? with | none => True | some c => c ≠ 34)
    (s : State) (hp : s.bytepos = pre.length) (hsep : s.separated = true) (hni : NoInclude s) :
    step b s = .cont ⟨s.tokens.push ⟨.string, pre.length, pre.length + m.length, s.line⟩,
      pre.length + m.length, false, s.line⟩ := by
  have hc : b[s.bytepos]? = some 34 := by rw [hp]; exact occ_head hb hm
  have hsz := size_eq hb
  have hnl : nlB m = 0 := by
    rw [hm]
    simp only [nlB, nlB_append, hbody.nlB_zero]
    decide
  rw [step_dispatch b s 34 hc hni, if_neg (by decide), if_neg (by simp), if_pos (by decide)]
  unfold stepString
  simp only [hsep, Bool.true_eq_false, if_false, hp, findStringEnd_lit hb body hbody hm hstop]
  rw [countNewlines_eq (by omega) (by omega), nlCount_occ hb, hnl]
  rfl

theorem occ_get? (i : Nat) (hi : i < m.length) : b[pre.length + i]? = m[i]? := by
  rw [occ_get hb i hi, List.getElem?_eq_getElem hi]

/-- the scan of `find_block_comment_end` runs to the last byte of the comment -/
theorem commentLoop_block (hcore : BlockCore m) : ∀ (d j : Nat), j + d = m.length - 1 → 3 ≤ j →
    commentLoop b (pre.length + j) = .ok (pre.length + m.length - 1)
  | 0, j, hj, h3 => by
    have hsz := size_eq hb
    have hl := hcore.len
    have hjm : j = m.length - 1 := by omega
    subst hjm
    have hlt : pre.length + (m.length - 1) < b.size := by omega
    have hprev : b[pre.length + (m.length - 1) - 1]? = some 42 := by
      rw [show pre.length + (m.length - 1) - 1 = pre.length + (m.length - 2) by omega, occ_get? hb _ (by omega)]
      exact hcore.hend.1
    have hcur : b[pre.length + (m.length - 1)] = 47 :=
      get_of_get? (by rw [occ_get? hb _ (by omega)]; exact hcore.hend.2) hlt
    rw [commentLoop, dif_pos hlt, if_neg (by omega), hprev]
    simp only [hcur]
    rw [if_pos (by decide)]
    congr 1; omega
  | d + 1, j, hj, h3 => by
    have hsz := size_eq hb
    have hl := hcore.len
    have hlt : pre.length + j < b.size := by omega
    have hjl : j < m.length - 1 := by omega
    obtain ⟨pv, hpv⟩ : ∃ pv, b[pre.length + j - 1]? = some pv := by
      rw [show pre.length + j - 1 = pre.length + (j - 1) by omega, occ_get hb (j - 1) (by omega)]; exact ⟨_, rfl⟩
    have hno : (pv == 42 && b[pre.length + j] == 47) = false := by
      have h1 := hcore.hfirst j h3 hjl
      have e1 : m[j - 1]? = some pv := by
        rw [← occ_get? hb (j - 1) (by omega), show pre.length + (j - 1) = pre.length + j - 1 by omega]; exact hpv
      have e2 : m[j]? = some b[pre.length + j] := by
        rw [← occ_get? hb j (by omega)]; exact getElem?_of_lt hlt
      rw [e1, e2] at h1
      cases hq : (pv == 42 && b[pre.length + j] == 47) with
      | false => rfl
      | true =>
        simp only [Bool.and_eq_true, beq_iff_eq] at hq
        exact absurd ⟨by rw [hq.1], by rw [hq.2]⟩ h1
    rw [commentLoop, dif_pos hlt, if_neg (by omega), hpv]
    simp only [hno, Bool.false_eq_true, if_false]
    exact commentLoop_block hcore d (j + 1) (by omega) (by omega)

end

/-- a block comment: `k` blanks in front of it belong to the token -/
theorem step_blockComment {b : Bytes} {pre0 core post : List UInt8} (k : Nat)
    (hb : b = ((pre0 ++ List.replicate k 32) ++ (core ++ post)).toArray) (hcore : BlockCore core)
    (hpre0 : pre0 = [] ∨ ∃ c, pre0.getLast? = some c ∧ c ≠ 32)
    (s : State) (hp : s.bytepos = pre0.length + k) (hni : NoInclude s) :
    step b s = .cont ⟨s.tokens.push ⟨.comment, pre0.length, pre0.length + k + core.length, s.line⟩,
      pre0.length + k + core.length, true, s.line + nlB core⟩ := by
  have hsz := size_eq hb
  have hl := hcore.len
  have hplen : (pre0 ++ List.replicate k 32).length = pre0.length + k := by simp
  have hc : b[s.bytepos]? = some 47 := by
    have := occ_get? hb 0 (by omega)
    rw [Nat.add_zero, hplen] at this
    rw [hp, this]; exact hcore.h0
  have h1 : b[pre0.length + k + 1]? = some 42 := by
    rw [← hplen, occ_get? hb 1 (by omega)]; exact hcore.h1
  have hfind : findBlockCommentEnd b (pre0.length + k + 1 + 1) = .ok (pre0.length + k + core.length) := by
    unfold findBlockCommentEnd
    have := commentLoop_block hb hcore (core.length - 1 - 3) 3 (by omega) (Nat.le_refl 3)
    rw [hplen] at this
    rw [show pre0.length + k + 1 + 1 + 1 = pre0.length + k + 3 by omega, this]
    simp only []
    rw [if_neg (by simp at hsz; omega)]
    congr 1; omega
  have hcs : commentStart b (pre0.length + k) = .ok pre0.length := by
    rw [commentStart_blanks b pre0.length k]
    · apply commentStart_stop
      rcases hpre0 with h | ⟨c, hc1, hc2⟩
      · left; rw [h]; rfl
      · right
        refine ⟨c, ?_, hc2⟩
        have hne : pre0 ≠ [] := by intro h; rw [h] at hc1; cases hc1
        subst hb
        simp only [List.getElem?_toArray]
        rw [List.getElem?_append_left (by simp; have := List.length_pos_iff.2 hne; omega),
          List.getElem?_append_left (by have := List.length_pos_iff.2 hne; omega), ← List.getLast?_eq_getElem?]
        exact hc1
    · intro i hi
      subst hb
      simp only [List.getElem?_toArray]
      rw [List.getElem?_append_left (by simp; omega), List.getElem?_append_right (by omega)]
      simp [hi]
  rw [step_dispatch b s 47 hc hni, if_neg (by decide), if_pos (by simp; rw [hp]; simp at hsz; omega)]
  unfold stepSlash
  simp only [hp, h1]
  rw [if_pos (by decide), hfind]
  simp only [hcs]
  have hnl : countNewlines b (pre0.length + k) (pre0.length + k + core.length) = .ok (nlB core) := by
    rw [countNewlines_eq (by omega) (by simp at hsz; omega), ← hplen, nlCount_occ hb]
  rw [hnl]

/-- `commentStart` behind `pre0` followed by `k` blanks -/
theorem commentStart_seg {b : Bytes} {pre0 rest : List UInt8} (k : Nat)
    (hb : b = ((pre0 ++ List.replicate k 32) ++ rest).toArray)
    (hpre0 : pre0 = [] ∨ ∃ c, pre0.getLast? = some c ∧ c ≠ 32) :
    commentStart b (pre0.length + k) = .ok pre0.length := by
  rw [commentStart_blanks b pre0.length k]
  · apply commentStart_stop
    rcases hpre0 with h | ⟨c, hc1, hc2⟩
    · left; rw [h]; rfl
    · right
      refine ⟨c, ?_, hc2⟩
      have hne : pre0 ≠ [] := by intro h; rw [h] at hc1; cases hc1
      subst hb
      simp only [List.getElem?_toArray]
      rw [List.getElem?_append_left (by simp; have := List.length_pos_iff.2 hne; omega),
        List.getElem?_append_left (by have := List.length_pos_iff.2 hne; omega), ← List.getLast?_eq_getElem?]
      exact hc1
  · intro i hi
    subst hb
    simp only [List.getElem?_toArray]
    rw [List.getElem?_append_left (by simp; omega), List.getElem?_append_right (by omega)]
    simp [hi]

/-- a line comment: `k` blanks in front of it belong to the token; it has to be followed by a line break or the end
    of the text -/
theorem step_lineComment {b : Bytes} {pre0 rest post : List UInt8} (k : Nat)
    (hb : b = ((pre0 ++ List.replicate k 32) ++ ((47 :: 47 :: rest) ++ post)).toArray)
    (hrest : ∀ c ∈ rest, c ≠ 10)
    (hstop : match post.head? with | none => True | some c => c = 10)
    (hpre0 : pre0 = [] ∨ ∃ c, pre0.getLast? = some c ∧ c ≠ 32)
    (s : State) (hp : s.bytepos = pre0.length + k) (hni : NoInclude s) :
    step b s = .cont ⟨s.tokens.push ⟨.comment, pre0.length, pre0.length + k + (rest.length + 2), s.line⟩,
      pre0.length + k + (rest.length + 2), true, s.line⟩ := by
  have hsz := size_eq hb
  have hplen : (pre0 ++ List.replicate k 32).length = pre0.length + k := by simp
  have hc : b[s.bytepos]? = some 47 := by
    have := occ_head hb (c := 47) (cs := 47 :: rest) rfl
    rw [hplen] at this
    rw [hp, this]
  have h1 : b[pre0.length + k + 1]? = some 47 := by
    have := occ_get hb 1 (by simp)
    rw [hplen] at this
    simpa using this
  have hcs := commentStart_seg k (rest := (47 :: 47 :: rest) ++ post) hb hpre0
  have hb' : b = ((pre0 ++ List.replicate k 32 ++ [47]) ++ ((47 :: rest) ++ post)).toArray := by rw [hb]; simp
  have hskip : skipWhile b notNewline (pre0.length + k + 1) = pre0.length + k + (rest.length + 2) := by
    have := skipWhile_run hb' notNewline (by
      intro c hc
      rcases List.mem_cons.1 hc with rfl | hc
      · decide
      · simp [notNewline, hrest c hc]) (by
      cases hh : post.head? with
      | none => trivial
      | some c => rw [hh] at hstop; subst hstop; decide)
    simp only [List.length_append, List.length_replicate, List.length_cons, List.length_nil] at this
    rw [show pre0.length + k + 1 = pre0.length + k + (0 + 1) by omega, this]; omega
  rw [step_dispatch b s 47 hc hni, if_neg (by decide), if_pos (by simp; rw [hp]; simp at hsz; omega)]
  unfold stepSlash
  simp only [hp, h1]
  rw [if_neg (by decide), if_pos (by decide)]
  simp only [hcs, hskip]

end A2l.Lex
