import A2lVerif.Lemmas.RT.Defs
/-! # C01: the parser's cursor primitives on a written token stream -/
namespace A2l.Tree
open A2l.G A2l.Sc

/-- line reached behind a token list -/
def endLine : Nat → List WTok → Nat
  | line, [] => line
  | line, w :: ws => endLine (line + w.off + w.nl) ws

theorem mkToksFrom_append (lx : LexEnv) (xs ys : List WTok) (line : Nat) :
    mkToksFrom lx line (xs ++ ys) = mkToksFrom lx line xs ++ mkToksFrom lx (endLine line xs) ys := by
  induction xs generalizing line with
  | nil => rfl
  | cons w ws ih => simp only [List.cons_append, mkToksFrom, endLine, ih]

theorem mkToksFrom_length (lx : LexEnv) (xs : List WTok) (line : Nat) : (mkToksFrom lx line xs).length = xs.length := by
  induction xs generalizing line with
  | nil => rfl
  | cons w ws ih => simp only [mkToksFrom, List.length_cons, ih]

theorem endLine_append (xs ys : List WTok) (line : Nat) : endLine line (xs ++ ys) = endLine (endLine line xs) ys := by
  induction xs generalizing line with
  | nil => rfl
  | cons w ws ih => simp only [List.cons_append, endLine, ih]

theorem endLine_ge (xs : List WTok) (line : Nat) : line ≤ endLine line xs := by
  induction xs generalizing line with
  | nil => exact Nat.le_refl _
  | cons w ws ih => have := ih (line + w.off + w.nl); simp only [endLine]; omega

/-- the token array of `e` is the written stream `all` -/
def Toks (e : Env) (lx : LexEnv) (all : List WTok) : Prop := e.toks = (mkToks lx all).toArray

theorem Toks.size {e : Env} {lx : LexEnv} {all : List WTok} (h : Toks e lx all) : e.toks.size = all.length := by
  rw [h]; simp [mkToks, mkToksFrom_length]

theorem Toks.at {e : Env} {lx : LexEnv} {all : List WTok} (h : Toks e lx all) {pre rest : List WTok} {w : WTok}
    (hs : all = pre ++ w :: rest) {n : Nat} (hn : n = pre.length) :
    e.toks[n]? = some (w.toPTok lx (endLine 1 pre + w.off)) := by
  subst hn
  rw [h, hs, mkToks, mkToksFrom_append]
  simp only [mkToksFrom, List.getElem?_toArray]
  rw [List.getElem?_append_right (by rw [mkToksFrom_length]; exact Nat.le_refl _)]
  simp [mkToksFrom_length]

theorem Toks.none {e : Env} {lx : LexEnv} {all : List WTok} (h : Toks e lx all) {n : Nat} (hn : all.length ≤ n) :
    e.toks[n]? = none := by
  rw [getElem?_neg]; rw [h.size]; omega

theorem WTok.toPTok_ty (lx : LexEnv) (w : WTok) (l : Nat) : (w.toPTok lx l).ty = w.ty := rfl
theorem WTok.toPTok_text (lx : LexEnv) (w : WTok) (l : Nat) : (w.toPTok lx l).text = w.text := rfl
theorem WTok.toPTok_line (lx : LexEnv) (w : WTok) (l : Nat) : (w.toPTok lx l).line = l := rfl
theorem WTok.toPTok_fileid (lx : LexEnv) (w : WTok) (l : Nat) : (w.toPTok lx l).fileid = 0 := rfl

/-- `get_line_offset` behind a token that is not the last one of the file: the line breaks in front of it -/
theorem lineOff {e : Env} {lx : LexEnv} {all : List WTok} (h : Toks e lx all) {pre rest : List WTok} {w : WTok}
    (hs : all = pre ++ w :: rest) (hr : rest ≠ []) (s : PState) (hp : s.pos = pre.length + 1) :
    getLineOffset e s = .ok w.off s := by
  have hsize : e.toks.size = pre.length + 1 + rest.length := by rw [h.size, hs]; simp; omega
  have hrl : 0 < rest.length := List.length_pos_iff.2 hr
  unfold getLineOffset
  simp only [getEnv_bind, getState_bind]
  rcases List.eq_nil_or_concat pre with hpre | ⟨pre', a, hpre⟩
  · subst hpre
    have h0 := h.at hs (n := 0) rfl
    rw [if_neg (by simp at hp; omega), h0]
    dsimp only
    have hl : (w.toPTok lx (endLine 1 [] + w.off)).line = 1 + w.off := rfl
    split
    · omega
    · show PRes.ok _ s = _
      rw [hl, show 1 + w.off - 1 = w.off by omega]
  · subst hpre
    simp only [List.length_append, List.length_cons, List.length_nil, List.concat_eq_append] at hp hsize hs
    rw [if_pos (by omega)]
    have hs' : all = pre' ++ a :: (w :: rest) := by rw [hs]; simp
    have h2 := h.at hs' (n := s.pos - 2) (by omega)
    have h1 := h.at hs (n := s.pos - 1) (by simp; omega)
    rw [h2, h1]
    dsimp only
    have hl1 : (w.toPTok lx (endLine 1 (pre' ++ [a]) + w.off)).line = endLine 1 pre' + a.off + a.nl + w.off := by
      rw [WTok.toPTok_line, endLine_append]; rfl
    have hl2 : (a.toPTok lx (endLine 1 pre' + a.off)).line = endLine 1 pre' + a.off := rfl
    have hty : (a.toPTok lx (endLine 1 pre' + a.off)).ty = a.ty := rfl
    have e1 : (if (a.toPTok lx (endLine 1 pre' + a.off)).ty = 6 then
        (a.toPTok lx (endLine 1 pre' + a.off)).line + countNewlines (a.toPTok lx (endLine 1 pre' + a.off)).text
        else (a.toPTok lx (endLine 1 pre' + a.off)).line) = endLine 1 pre' + a.off + a.nl := by
      rw [hl2, hty]; unfold WTok.nl; split <;> rfl
    rw [e1, if_pos (show (a.toPTok lx (endLine 1 pre' + a.off)).fileid =
      (w.toPTok lx (endLine 1 (pre' ++ [a]) + w.off)).fileid from rfl), hl1]
    split
    · omega
    · show PRes.ok _ s = _
      rw [show endLine 1 pre' + a.off + a.nl + w.off - (endLine 1 pre' + a.off + a.nl) = w.off by omega]

/-- `get_line_offset` never panics on a written stream -/
theorem lineOff_any {e : Env} {lx : LexEnv} {all : List WTok} (h : Toks e lx all) (hne : all ≠ []) (s : PState) :
    ∃ n, getLineOffset e s = .ok n s := by
  by_cases hc : s.pos > 1 ∧ s.pos < e.toks.size
  · have hsz := h.size
    have hlt : s.pos - 1 < all.length := by omega
    have hs : all = all.take (s.pos - 1) ++ all[s.pos - 1] :: all.drop (s.pos - 1 + 1) := by
      rw [← List.drop_eq_getElem_cons hlt, List.take_append_drop]
    have hr : all.drop (s.pos - 1 + 1) ≠ [] := by
      intro h0; have := congrArg List.length h0; simp at this; omega
    exact ⟨_, lineOff h hs hr s (by simp; omega)⟩
  · obtain ⟨w, rest, rfl⟩ := List.exists_cons_of_ne_nil hne
    have h0 := h.at (pre := []) (rest := rest) (w := w) rfl (n := 0) rfl
    unfold getLineOffset
    simp only [getEnv_bind, getState_bind]
    rw [if_neg hc, h0]
    dsimp only
    have hl : (w.toPTok lx (endLine 1 [] + w.off)).line = 1 + w.off := rfl
    split
    · omega
    · exact ⟨_, rfl⟩

end A2l.Tree
