import A2lVerif.Lemmas.RT.Canon
/-! # C01: the writer and the ordered form of a value do not look at the token array of the environment -/
namespace A2l.Tree
open A2l.G A2l.Sc

/-- two environments with the same grammar table, code table and symbol table -/
def EnvEq (e e' : Env) : Prop :=
  e.table = e'.table ∧ e.symbols = e'.symbols ∧ e.code = e'.code ∧ e.specialWrite = e'.specialWrite

theorem EnvEq.setToks (e : Env) (toks : Array PTok) : EnvEq e { e with toks := toks } := ⟨rfl, rfl, rfl, rfl⟩

structure WriterCongr (e e' : Env) (F : Nat) : Prop where
  item : ∀ indent v, writeItem F e indent v = writeItem F e' indent v
  items : ∀ indent vs, writeItems F e indent vs = writeItems F e' indent vs
  str : ∀ indent v, stringify F e indent v = stringify F e' indent v
  grp : ∀ indent arms children, groupOf F e indent arms children = groupOf F e' indent arms children
  arm : ∀ indent a cs, groupOfArm F e indent a cs = groupOfArm F e' indent a cs

theorem writer_congr {e e' : Env} (h : EnvEq e e') : ∀ F, WriterCongr e e' F
  | 0 => ⟨fun _ _ => rfl, fun _ _ => rfl, fun _ _ => rfl, fun _ _ _ => rfl, fun _ _ _ => rfl⟩
  | F + 1 => by
    have ih := writer_congr h F
    obtain ⟨ht, hs, hc, hw⟩ := h
    refine ⟨?_, ?_, ?_, ?_, ?_⟩
    · intro indent v
      cases v <;> simp only [writeItem, ih.items]
    · intro indent vs
      cases vs with
      | nil => rfl
      | cons v rest => simp only [writeItems, ih.item, ih.items]
    · intro indent v
      cases v <;> simp only [stringify]
      rw [← ht]
      split
      · simp only [ih.items, ih.grp]
      · rw [hw]
      · rfl
    · intro indent arms children
      cases arms with
      | nil => rfl
      | cons a arms' =>
        cases children with
        | nil => rfl
        | cons cs children' => simp only [groupOf, ih.arm, ih.grp]
    · intro indent a cs
      cases cs with
      | nil => rfl
      | cons c rest =>
        cases c <;> simp only [groupOfArm, ih.arm, ih.str, hs, hc]

/-- **the writer does not look at the tokens** -/
theorem writeFile_congr {e e' : Env} (h : EnvEq e e') (v : Val) (F : Nat) : writeFile e v F = writeFile e' v F :=
  (writer_congr h F).str 0 v

theorem Canon.congr {e e' : Env} (h : EnvEq e e') {v : Val} {items : List OT} (hc : Canon e v items) : Canon e' v items := by
  induction hc with
  | @mk ty info fields children comments isB its arms ht hl sub hlen hsub hsub2 hch hblk hcm hfs ih =>
    obtain ⟨h1, h2, h3, _⟩ := h
    have := Canon.mk (e := e') (info := info) (fields := fields) (comments := comments) (by rw [← h1]; exact hl) sub hlen hsub hsub2
      ih hblk hcm hfs
    rw [← h2, ← h3] at this
    exact this

theorem InOrder.congr {e e' : Env} (h : EnvEq e e') {v : Val} {items : List OT} (hc : InOrder e v items) : InOrder e' v items := by
  induction hc with
  | @mk ty info fields children comments isB its arms ht items hl sub hlen hsub hsub2 harm hcmo hblk hcm hnil hfid hch ih =>
    obtain ⟨h1, h2, h3, _⟩ := h
    exact InOrder.mk (by rw [← h1]; exact hl) sub hlen hsub hsub2 (by rw [← h2]; exact harm) hcmo hblk hcm hnil hfid ih

end A2l.Tree
