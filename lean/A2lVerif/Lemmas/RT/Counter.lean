import A2lVerif.Lemmas.TreeRoundTrip
/-! # C01: counterexamples that show which hypotheses of the stability theorem are needed (model level, small tables) -/
namespace A2l.Tree.Counter
open A2l.G

/-! ## the offset of the last token of a file (`get_line_offset` at the end of the token array)

`get_line_offset` only uses the previous token when `pos < tokens.len()`; behind the LAST token it returns the line
offset of the FIRST token of the file. A file that ends with a parameter of a keyword therefore gets a wrong offset for
that parameter whenever the first token moves (here: a comment in front of the first element is dropped by the first
write). With the shipped grammar the last token of an accepted file is always the tag behind `/end PROJECT`, whose
offset is not recorded. -/

/-- root keyword with one keyword arm `K <int>` -/
def qTbl : Table :=
  [⟨0, .block false [] [⟨0, 1, false, false, false, 0, 0⟩] true⟩, ⟨1, .block false [.int 5] [] false⟩,
   ⟨2, .block false [.int 5, .int 5] [] false⟩]
def qEnv (toks : Array PTok) : Env :=
  { toks := toks, strict := false, table := qTbl, known := ⟨0, 2, 9⟩, symbols := #["K"] }
/-- tokens of `/* c */⏎⏎K 1` -/
def qToks1 : Array PTok :=
  #[⟨6, "/* c */".toList, 1, 0, noSym, none⟩, ⟨0, ['K'], 3, 0, 0, none⟩, ⟨5, ['1'], 3, 0, noSym, none⟩]
/-- tokens of the text written from it, `⏎⏎K 1` -/
def qToks2 : Array PTok := #[⟨0, ['K'], 3, 0, 0, none⟩, ⟨5, ['1'], 3, 0, noSym, none⟩]
def qV1 : Val := .block 0 ⟨1, 1, 0, 0, 0⟩ [] [[.block 1 ⟨3, 2, 2, 0, 0⟩ [.int 1 false 0 5] [] []]] []
def qV2 : Val := .block 0 ⟨3, 1, 0, 0, 0⟩ [] [[.block 1 ⟨3, 2, 2, 0, 0⟩ [.int 1 false 2 5] [] []]] []

theorem q_text (toks : Array PTok) (v : Val) (off : Nat)
    (hv : v = .block 0 ⟨3, 1, 0, 0, 0⟩ [] [[.block 1 ⟨3, 2, 2, 0, 0⟩ [.int 1 false off 5] [] []]] []) :
    writeFile (qEnv toks) v 50 = '\n' :: '\n' :: 'K' :: (addWhitespace 1 off ++ ['1']) := by
  subst hv
  simp [writeFile, stringify, qEnv, qTbl, Table.lookup, writeItems, groupOf, groupOfArm, addGroup, addGroupGo,
    applyPositionRestrictions, posRestrict, codeLookup, symText, bumpOff, writeItem, intTyOf]
  simp [addWhitespace]
  decide

/-- **the text is not a fixpoint**: load, write (`⏎⏎K 1`), load, write (`⏎⏎K⏎⏎  1`) -/
theorem last_param_offset_unstable :
    (∃ s, runParseFile (qEnv qToks1) = .ok qV1 s) ∧ writeFile (qEnv qToks1) qV1 50 = "\n\nK 1".toList ∧
    (∃ s, runParseFile (qEnv qToks2) = .ok qV2 s) ∧ writeFile (qEnv qToks2) qV2 50 = "\n\nK\n\n  1".toList := by
  refine ⟨⟨_, rfl⟩, ?_, ⟨_, rfl⟩, ?_⟩
  · have : qV1 = .block 0 ⟨1, 1, 0, 0, 0⟩ [] [[.block 1 ⟨3, 2, 2, 0, 0⟩ [.int 1 false 0 5] [] []]] [] := rfl
    simp [writeFile, qV1, stringify, qEnv, qTbl, Table.lookup, writeItems, groupOf, groupOfArm, addGroup, addGroupGo,
      applyPositionRestrictions, posRestrict, codeLookup, symText, bumpOff, addWhitespace, writeItem, intTyOf]
    decide
  · rw [q_text qToks2 qV2 2 rfl]; decide

def qLx : LexEnv := ⟨fun t => if t = ['K'] then 0 else noSym, fun _ => none⟩
def qStream : List WTok := [⟨0, ['K'], 2, 0⟩, ⟨5, ['1'], 0, 1⟩]

/-- the token array `qToks2` of the second load is what the tokenizer model and the driver's conversion produce from
    the text `⏎⏎K 1` written by the first write -/
theorem q_tokens : renderToks qStream = "\n\nK 1".toList ∧
    ∃ ts, Lex.tokenize (encL (renderToks qStream)).toArray = .ok ts ∧
      (ts.map (convTok qLx (encL (renderToks qStream)).toArray)).toArray = qToks2 := by
  refine ⟨by decide, ?_⟩
  have hlex : StreamLex none qStream := by
    refine ⟨⟨'K', [], rfl, by decide, by decide⟩, (by intro _ h; obtain ⟨p, hp, _⟩ := h; exact absurd hp (by simp)),
      (by intro h; exact absurd h (by decide)), ?_⟩
    exact ⟨⟨'1', [], rfl, by decide, by decide, by decide, by decide, by decide, by decide, by decide⟩,
      (by intro h; exact absurd h (by decide)), (by intro h; exact absurd h (by decide)), trivial⟩
  obtain ⟨ts, h1, h2⟩ := lex_written qLx qStream hlex
  exact ⟨ts, h1, by rw [h2]; rfl⟩

/-! ## position-restricted elements of one arm that are not in position order (`reserved-order`)

The writer puts position-restricted items into position order; the per-arm list of the reloaded value then has another
order than the list that was written (text stable from the first write on, the model is not equal). -/

/-- root keyword with a repeating keyword arm `R <int>` whose parameter is its position (like `RESERVED`) -/
def rTbl : Table :=
  [⟨0, .block false [] [⟨0, 1, false, true, false, 0, 0⟩] true⟩, ⟨1, .block false [.int 5] [] false⟩,
   ⟨2, .block false [.int 5, .int 5] [] false⟩]
def rCode : List CodeEntry := [⟨1, .block [] 0 false [] [] 1⟩]
def rEnv (toks : Array PTok) : Env :=
  { toks := toks, strict := false, table := rTbl, code := rCode, known := ⟨0, 2, 9⟩, symbols := #["R"] }
/-- tokens of `R 2 R 1` -/
def rToks1 : Array PTok :=
  #[⟨0, ['R'], 1, 0, 0, none⟩, ⟨5, ['2'], 1, 0, noSym, none⟩, ⟨0, ['R'], 1, 0, 0, none⟩, ⟨5, ['1'], 1, 0, noSym, none⟩]
/-- tokens of the written text ` R 1 R 2` -/
def rToks2 : Array PTok :=
  #[⟨0, ['R'], 1, 0, 0, none⟩, ⟨5, ['1'], 1, 0, noSym, none⟩, ⟨0, ['R'], 1, 0, 0, none⟩, ⟨5, ['2'], 1, 0, noSym, none⟩]
def rItem (uid : Nat) (p : Int) : Val := .block 1 ⟨1, uid, 0, 0, 0⟩ [.int p false 0 5] [] []
def rV1 : Val := .block 0 ⟨1, 1, 0, 0, 0⟩ [] [[rItem 2 2, rItem 3 1]] []
def rV2 : Val := .block 0 ⟨1, 1, 0, 0, 0⟩ [] [[rItem 2 1, rItem 3 2]] []

def rTag (uid : Nat) (p : Nat) (text : List Char) : TagInfo :=
  { isComment := false, tag := ['R'], uid := uid, line := 1, startOff := 0, endOff := 0, isBlock := false, text := text,
    pos := some p, included := false }

theorem posSort_swap (a b : TagInfo) (h : posLe b a = true ∧ posLe a b = false) : [a, b].mergeSort posLe = [b, a] := by
  apply eq_of_perm_sorted (le := posLe) _ _ ((List.mergeSort_perm _ _).trans (List.Perm.swap b a []))
  · apply List.pairwise_mergeSort
    · intro x y z hxy hyz; simp only [posLe, decide_eq_true_eq] at *; omega
    · intro x y; simp only [posLe, Bool.or_eq_true, decide_eq_true_eq]; omega
  · simp [h.1, h.2]

theorem r_text (toks : Array PTok) : writeFile (rEnv toks) rV1 50 = " R 1 R 2".toList := by
  have hg : groupOf 49 (rEnv toks) 0 [⟨0, 1, false, true, false, 0, 0⟩] [[rItem 2 2, rItem 3 1]] =
      [rTag 2 2 " 2".toList, rTag 3 1 " 1".toList] := by
    simp [groupOf, groupOfArm, rItem, rTag, stringify, rEnv, rTbl, rCode, Table.lookup, writeItems, writeItem, posRestrict,
      codeLookup, symText, intTyOf, addWhitespace]
    decide
  have hsort : [rTag 2 2 " 2".toList, rTag 3 1 " 1".toList].mergeSort tagLe = [rTag 2 2 " 2".toList, rTag 3 1 " 1".toList] :=
    List.mergeSort_of_pairwise (by simp [rTag, tagLe])
  have hpos : applyPositionRestrictions [rTag 2 2 " 2".toList, rTag 3 1 " 1".toList] =
      [rTag 3 1 " 1".toList, rTag 2 2 " 2".toList] := by
    unfold applyPositionRestrictions
    simp only [rTag, List.filter, Option.isSome, List.length_cons, List.length_nil]
    rw [posSort_swap _ _ (by simp [posLe])]
    simp [refill]
  unfold writeFile rV1
  rw [stringify]
  simp only [rEnv, rTbl, Table.lookup, List.find?, beq_self_eq_true, Option.map_some, writeItems, List.nil_append, if_true,
    List.map_nil, List.append_nil]
  have hg' := hg
  simp only [rEnv, rTbl] at hg'
  rw [hg']
  unfold addGroup
  rw [hsort, hpos]
  simp [addGroupGo, rTag, bumpOff, addWhitespace]

/-- **the reloaded value is not equal to the written one up to layout**: the per-arm list comes back in position order -/
theorem reserved_order_model_differs :
    (∃ s, runParseFile (rEnv rToks1) = .ok rV1 s) ∧ writeFile (rEnv rToks1) rV1 50 = " R 1 R 2".toList ∧
    (∃ s, runParseFile (rEnv rToks2) = .ok rV2 s) ∧ ¬ LayoutEq rV1 rV2 := by
  refine ⟨⟨_, rfl⟩, r_text _, ⟨_, rfl⟩, ?_⟩
  intro h
  cases h with
  | block hso heo hfid hf hlen hlen2 hch hcm =>
    have := hch 0 0 _ _ _ _ rfl rfl rfl rfl
    cases this with
    | block _ _ _ hf' _ _ _ _ => simp [normField, normElem] at hf'

end A2l.Tree.Counter
