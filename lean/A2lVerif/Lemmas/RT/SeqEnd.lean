import A2lVerif.Lemmas.RT.Elems
/-! # C01: where a greedy sequence ends in a written token stream -/
namespace A2l.Tree
open A2l.G A2l.Sc

/-- `m` fails with an ordinary error (no panic, fuel left); ids may have been consumed, the version is unchanged -/
def Fails {α} (m : PM α) (e : Env) (s : PState) : Prop :=
  ∃ d s', m e s = .err d s' ∧ s.seqId ≤ s'.seqId ∧ s'.ver = s.ver

theorem Fails.bind {α β} {m : PM α} {f : α → PM β} {e : Env} {s : PState} (h : Fails m e s) : Fails (m >>= f) e s := by
  obtain ⟨d, s', h1, h2, h3⟩ := h
  exact ⟨d, s', by rw [bind_def, h1], h2, h3⟩

/-- failure behind a successful prefix -/
theorem Fails.after {α β} {m : PM α} {f : α → PM β} {e : Env} {s : PState} {a : α} {n : Nat}
    (h1 : Runs m e s a n) (h2 : ∀ s1, Adv s s1 n → Fails (f a) e s1) : Fails (m >>= f) e s := by
  obtain ⟨s1, e1, a1⟩ := h1
  obtain ⟨d, s2, e2, q1, q2⟩ := h2 s1 a1
  exact ⟨d, s2, by rw [bind_def, e1]; exact e2, Nat.le_trans a1.seq q1, by rw [q2, a1.ver]⟩

theorem Fails.env {β} {f : Env → PM β} {e : Env} {s : PState} (h : Fails (f e) e s) : Fails (getEnv >>= f) e s := h
theorem Fails.peek {β} {f : Option PTok → PM β} {e : Env} {s : PState} (h : Fails (f e.toks[s.pos]?) e s) :
    Fails (peekToken >>= f) e s := h

theorem nextNC_split : ∀ rest : List WTok, ∃ cs r, rest = cs ++ r ∧ (∀ w ∈ cs, w.ty = 6) ∧
    ((r = [] ∧ nextNC rest = none) ∨ ∃ t r', r = t :: r' ∧ t.ty ≠ 6 ∧ nextNC rest = some t)
  | [] => ⟨[], [], rfl, by simp, .inl ⟨rfl, rfl⟩⟩
  | w :: ws => by
    by_cases h6 : w.ty = 6
    · obtain ⟨cs, r, h1, h2, h3⟩ := nextNC_split ws
      refine ⟨w :: cs, r, by rw [h1]; rfl, ?_, ?_⟩
      · intro x hx; rcases List.mem_cons.1 hx with rfl | hx
        · exact h6
        · exact h2 x hx
      · simp only [nextNC, h6, if_true]; exact h3
    · exact ⟨[], w :: ws, rfl, by simp, .inr ⟨w, ws, rfl, h6, by simp [nextNC, h6]⟩⟩

section
variable {e : Env} {lx : LexEnv} {all : List WTok} (hT : Toks e lx all)
include hT

/-- `expect_token` skips comments and then finds a token of another kind, or the end of the file -/
theorem expectAux_fails (ctx : Ctx) (ty : Nat) (r : List WTok)
    (hr : r = [] ∨ ∃ t r', r = t :: r' ∧ t.ty ≠ 6 ∧ t.ty ≠ ty) :
    ∀ (cs pre : List WTok) (s : PState) (fuel : Nat), (∀ w ∈ cs, w.ty = 6) → all = pre ++ (cs ++ r) →
      s.pos = pre.length → cs.length + 1 ≤ fuel →
      ∃ d s', expectTokenAux ctx ty fuel e s = .err d s' ∧ s'.seqId = s.seqId ∧ s'.ver = s.ver
  | [], pre, s, fuel, _, hs, hp, hf => by
    obtain ⟨f, rfl⟩ : ∃ f, fuel = f + 1 := ⟨fuel - 1, by simp at hf; omega⟩
    rw [expectTokenAux_succ, bind_def]
    rcases hr with rfl | ⟨t, r', rfl, h6, hne⟩
    · rw [getToken_none ctx e s (hT.none (by rw [hs, hp]; simp))]
      exact ⟨_, _, rfl, rfl, rfl⟩
    · rw [getToken_some ctx e s _ (hT.at (by simpa using hs) hp)]
      dsimp only
      rw [if_neg (show ¬ (t.toPTok lx (endLine 1 pre + t.off)).ty = 6 from h6),
        if_pos (show (t.toPTok lx (endLine 1 pre + t.off)).ty ≠ ty from hne)]
      exact ⟨_, _, rfl, rfl, rfl⟩
  | w :: cs, pre, s, fuel, hc, hs, hp, hf => by
    obtain ⟨f, rfl⟩ : ∃ f, fuel = f + 1 := ⟨fuel - 1, by simp at hf; omega⟩
    rw [expectTokenAux_succ, bind_def, getToken_some ctx e s _ (hT.at (by simpa using hs) hp)]
    dsimp only
    rw [if_pos (show (w.toPTok lx (endLine 1 pre + w.off)).ty = 6 from hc w List.mem_cons_self)]
    obtain ⟨d, s', h1, h2, h3⟩ := expectAux_fails ctx ty r hr cs (pre ++ [w])
      { s with pos := s.pos + 1, lastLine := (w.toPTok lx (endLine 1 pre + w.off)).line } f
      (fun x hx => hc x (List.mem_cons_of_mem _ hx)) (by rw [hs]; simp) (by simp [hp]) (by simp at hf; omega)
    exact ⟨d, s', h1, h2, h3⟩

theorem expect_fails (ctx : Ctx) (ty : Nat) {pre rest : List WTok} (hs : all = pre ++ rest)
    (hn : match nextNC rest with | none => True | some t => t.ty ≠ ty) (s : PState) (hp : s.pos = pre.length) :
    Fails (expectToken ctx ty) e s := by
  obtain ⟨cs, r, h1, h2, h3⟩ := nextNC_split rest
  have hr : r = [] ∨ ∃ t r', r = t :: r' ∧ t.ty ≠ 6 ∧ t.ty ≠ ty := by
    rcases h3 with ⟨h3, _⟩ | ⟨t, r', h3, h4, h5⟩
    · exact .inl h3
    · rw [h5] at hn; exact .inr ⟨t, r', h3, h4, hn⟩
  have hsz : cs.length + 1 ≤ e.toks.size + 1 := by rw [hT.size, hs, h1]; simp; omega
  obtain ⟨d, s', q1, q2, q3⟩ := expectAux_fails hT ctx ty r hr cs pre s _ h2 (by rw [hs, h1]) hp hsz
  exact ⟨d, s', by rw [expectToken_def]; exact q1, by omega, q3⟩

/-- `expect_token` skips comments and then finds a token of the expected kind -/
theorem expectAux_skip (ctx : Ctx) (ty : Nat) (h6 : ty ≠ 6) (t : WTok) (r' : List WTok) (ht : t.ty = ty) :
    ∀ (cs pre : List WTok) (s : PState) (fuel : Nat), (∀ w ∈ cs, w.ty = 6) → all = pre ++ (cs ++ t :: r') →
      s.pos = pre.length → cs.length + 1 ≤ fuel →
      ∃ s', expectTokenAux ctx ty fuel e s = .ok (t.toPTok lx (endLine 1 (pre ++ cs) + t.off)) s' ∧
        s'.pos = s.pos + cs.length + 1 ∧ s'.seqId = s.seqId ∧ s'.ver = s.ver
  | [], pre, s, fuel, _, hs, hp, hf => by
    obtain ⟨f, rfl⟩ : ∃ f, fuel = f + 1 := ⟨fuel - 1, by simp at hf; omega⟩
    rw [expectTokenAux_succ, bind_def, getToken_some ctx e s _ (hT.at (by simpa using hs) hp)]
    dsimp only
    rw [if_neg (show ¬ (t.toPTok lx (endLine 1 pre + t.off)).ty = 6 from by rw [WTok.toPTok_ty, ht]; exact h6),
      if_neg (show ¬ (t.toPTok lx (endLine 1 pre + t.off)).ty ≠ ty from by rw [WTok.toPTok_ty, ht]; simp)]
    refine ⟨{ s with pos := s.pos + 1, lastLine := (t.toPTok lx (endLine 1 pre + t.off)).line }, ?_, by simp, rfl, rfl⟩
    simp only [List.append_nil]; rfl
  | w :: cs, pre, s, fuel, hc, hs, hp, hf => by
    obtain ⟨f, rfl⟩ : ∃ f, fuel = f + 1 := ⟨fuel - 1, by simp at hf; omega⟩
    rw [expectTokenAux_succ, bind_def, getToken_some ctx e s _ (hT.at (by simpa using hs) hp)]
    dsimp only
    rw [if_pos (show (w.toPTok lx (endLine 1 pre + w.off)).ty = 6 from hc w List.mem_cons_self)]
    obtain ⟨s', h1, h2, h3, h4⟩ := expectAux_skip ctx ty h6 t r' ht cs (pre ++ [w])
      { s with pos := s.pos + 1, lastLine := (w.toPTok lx (endLine 1 pre + w.off)).line } f
      (fun x hx => hc x (List.mem_cons_of_mem _ hx)) (by rw [hs]; simp) (by simp [hp]) (by simp at hf; omega)
    refine ⟨s', ?_, ?_, h3, h4⟩
    · rw [h1]; simp
    · rw [h2]; simp; omega

end

/-! ## a parameter parser in front of a token of the wrong kind -/

section
variable (c : RCfg) {all : List WTok} (hT : Toks c.e c.lx all)
include hT

/-- what `SeqStops` says when it is not the stop-tag case -/
def WrongKind (fty : Nat) (rest : List WTok) : Prop :=
  match nextNC rest with
  | none => True
  | some t => t.ty ≠ fty ∧ ¬ (fty = 4 ∧ t.ty = 0)

omit hT in
theorem WrongKind.expect {fty : Nat} {rest : List WTok} (h : WrongKind fty rest) :
    match nextNC rest with | none => True | some t => t.ty ≠ fty := by
  unfold WrongKind at h
  cases hn : nextNC rest with
  | none => trivial
  | some t => rw [hn] at h; exact h.1

omit hT in
/-- in front of a string parameter: the cursor does not stand on an identifier -/
theorem WrongKind.peek4 {rest : List WTok} (h : WrongKind 4 rest) : ∀ w r, rest = w :: r → w.ty ≠ 0 := by
  intro w r hr h0
  subst hr
  unfold WrongKind at h
  have hn : nextNC (w :: r) = some w := by simp [nextNC, h0]
  rw [hn] at h
  exact h.2 ⟨rfl, h0⟩

theorem getString_fails (ctx : Ctx) {pre rest : List WTok} (hs : all = pre ++ rest) (hw : WrongKind 4 rest)
    (s : PState) (hp : s.pos = pre.length) : Fails (getString ctx) c.e s := by
  unfold getString
  refine Fails.peek ?_
  cases rest with
  | nil =>
    rw [hT.none (by rw [hs, hp]; simp)]
    exact Fails.bind (expect_fails hT ctx 4 hs hw.expect s hp)
  | cons w r =>
    rw [hT.at hs hp]
    have h0 := hw.peek4 w r rfl
    unfold WTok.toPTok
    cases hty : w.ty with
    | zero => exact absurd hty h0
    | succ n => exact Fails.bind (expect_fails hT ctx 4 hs hw.expect s hp)

/-- a scalar parameter cannot start with the next token -/
theorem parseScalar_fails (ctx : Ctx) {it : ItemTy} (hty : ScalarTyOk c.e.table it) {pre rest : List WTok}
    (hs : all = pre ++ rest) (hw : WrongKind (firstTyS it) rest) (s : PState) (hp : s.pos = pre.length) (fuel : Nat) :
    Fails (parseItem (fuel + 1) ctx it) c.e s := by
  cases it <;> simp only [ScalarTyOk] at hty <;> rw [parseItem]
  case ident => exact Fails.bind (Fails.bind (expect_fails hT ctx 0 hs hw.expect s hp))
  case string => exact Fails.bind (getString_fails c hT ctx hs hw s hp)
  case strMax n => exact Fails.bind (Fails.bind (getString_fails c hT ctx hs hw s hp))
  case double => exact Fails.bind (Fails.bind (expect_fails hT ctx 5 hs hw.expect s hp))
  case float => exact Fails.bind (Fails.bind (expect_fails hT ctx 5 hs hw.expect s hp))
  case int w => exact Fails.bind (Fails.bind (expect_fails hT ctx 5 hs hw.expect s hp))
  case enumRef ty =>
    obtain ⟨items, hl⟩ := hty
    refine Fails.env ?_
    simp only [hl]
    exact Fails.bind (Fails.bind (Fails.bind (expect_fails hT ctx 0 hs hw.expect s hp)))

/-- an element (scalar or struct) cannot start with the next token -/
theorem parseElem_fails (ctx : Ctx) {it : ItemTy} (hty : ElemTyOk c.e.table it) {pre rest : List WTok}
    (hs : all = pre ++ rest) (hw : WrongKind (firstTy c.e.table it) rest) (s : PState) (hp : s.pos = pre.length)
    (fuel : Nat) : Fails (parseItem (fuel + 4) ctx it) c.e s := by
  by_cases hst : ∃ ty, it = .structRef ty
  · obtain ⟨ty, rfl⟩ := hst
    obtain ⟨it1, its, hl, hsc⟩ := hty
    simp only [firstTy, hl] at hw
    rw [parseItem, parseType]
    refine Fails.env ?_
    simp only [hl]
    refine Fails.after (Runs.nextId c.e s) (fun s1 a1 => Fails.bind ?_)
    rw [parseItems]
    exact Fails.bind (parseScalar_fails c hT ctx hsc hs hw s1 (by rw [a1.pos, hp]; rfl) fuel)
  · have h1 : ElemTyOk c.e.table it = ScalarTyOk c.e.table it := by
      cases it <;> first | rfl | exact absurd ⟨_, rfl⟩ hst
    have h2 : firstTy c.e.table it = firstTyS it := by
      cases it <;> first | rfl | exact absurd ⟨_, rfl⟩ hst
    rw [h1] at hty; rw [h2] at hw
    exact parseScalar_fails c hT ctx hty hs hw s hp (fuel + 3)

end
end A2l.Tree
