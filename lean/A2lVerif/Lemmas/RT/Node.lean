import A2lVerif.Lemmas.RT.Loop
import A2lVerif.Lemmas.RT.LoopInv
/-! # C01: a written element is read back (`reparse_body`, `reparse_items`) -/
namespace A2l.Tree
open A2l.G A2l.Sc

theorem setAt_congr {α} (l : List (List α)) (i : Nat) (f g : List α → List α) (h : ∀ x, l[i]? = some x → f x = g x) :
    setAt l i f = setAt l i g := by
  apply List.ext_getElem?
  intro j
  rw [setAt_getElem?, setAt_getElem?]
  cases hx : l[j]? with
  | none => rfl
  | some x =>
    by_cases hji : j = i
    · subst hji; simp [h x hx]
    · simp [hji]

/-- the multiplicity checks behind the tagged loop pass (or only log) -/
theorem multCheck_runs (e : Env) : ∀ (zs : List (Arm × List Val)) (s : PState),
    (∀ z ∈ zs, z.1.required = true → z.2.isEmpty = true → z.1.repeat_ = true ∧ e.strict = false) →
    Runs (zs.foldlM (fun (_ : Unit) (ac : Arm × List Val) =>
        if ac.1.required ∧ ac.2.isEmpty then
          (if ac.1.repeat_ then errorOrLog .invalidMultiplicityNotPresent else fail .invalidMultiplicityNotPresent)
        else (pure () : PM Unit)) ()) e s () 0
  | [], s, _ => Runs.pure () e s
  | z :: zs, s, h => by
    rw [List.foldlM_cons]
    refine Runs.bind' (n := 0) (k := 0) (a := ()) ?_ (fun s1 _ => multCheck_runs e zs s1
      (fun z' hz' => h z' (List.mem_cons_of_mem _ hz'))) rfl
    by_cases hc : z.1.required = true ∧ z.2.isEmpty = true
    · rw [if_pos hc]
      obtain ⟨hr, hs⟩ := h z List.mem_cons_self hc.1 hc.2
      rw [if_pos hr]
      exact Runs.errorOrLog _ e s hs
    · rw [if_neg hc]; exact Runs.pure () e s

theorem scalarOk_isScalar (c : RCfg) {it : ItemTy} {v : Val} (h : ScalarOk c it v) : Val.isScalar v = true := by
  cases it <;> cases v <;> simp only [ScalarOk] at h <;> rfl

theorem scalarsOk_isScalar (c : RCfg) : ∀ (its : List ItemTy) (vs : List Val), ScalarsOk c its vs →
    ∀ v ∈ vs, Val.isScalar v = true
  | [], [], _ => by simp
  | [], _ :: _, h => by simp [ScalarsOk] at h
  | _ :: _, [], h => by simp [ScalarsOk] at h
  | it :: its, v :: vs, h => by
    intro x hx
    rcases List.mem_cons.1 hx with rfl | hx
    · exact scalarOk_isScalar c h.1
    · exact scalarsOk_isScalar c its vs h.2 x hx

theorem elemOk_shape (c : RCfg) {it : ItemTy} {v : Val} (h : ElemOk c it v) : ElemShape v := by
  by_cases hst : ∃ ty, it = .structRef ty
  · obtain ⟨ty, rfl⟩ := hst
    cases v <;> simp only [ElemOk] at h
    case block ty' info fs ch cm =>
      obtain ⟨-, -, -, -, sits, -, -, hsc⟩ := h
      exact scalarsOk_isScalar c sits fs hsc
  · rw [ElemOk_scalar c (fun ty h' => hst ⟨ty, h'⟩)] at h
    have := scalarOk_isScalar c h
    cases v <;> simp [Val.isScalar] at this <;> exact rfl

theorem fieldOk_shape (c : RCfg) {it : ItemTy} {v : Val} {rest : List WTok} (h : FieldOk c it v rest) : FieldShape v := by
  cases it with
  | arr of n =>
    cases v <;> simp only [FieldOk] at h
    case arr vs => exact fun x hx => elemOk_shape c (h.2 x hx)
  | seq of stop =>
    cases v <;> simp only [FieldOk] at h
    case seq vs => exact fun x hx => elemOk_shape c (h.1 x hx)
  | ident => have := elemOk_shape c (it := .ident) h; cases v <;> first | exact this | (simp [ElemShape, Val.isScalar] at this)
  | string => have := elemOk_shape c (it := .string) h; cases v <;> first | exact this | (simp [ElemShape, Val.isScalar] at this)
  | double => have := elemOk_shape c (it := .double) h; cases v <;> first | exact this | (simp [ElemShape, Val.isScalar] at this)
  | float => have := elemOk_shape c (it := .float) h; cases v <;> first | exact this | (simp [ElemShape, Val.isScalar] at this)
  | int w => have := elemOk_shape c (it := .int w) h; cases v <;> first | exact this | (simp [ElemShape, Val.isScalar] at this)
  | strMax n => have := elemOk_shape c (it := .strMax n) h; cases v <;> first | exact this | (simp [ElemShape, Val.isScalar] at this)
  | enumRef ty => have := elemOk_shape c (it := .enumRef ty) h; cases v <;> first | exact this | (simp [ElemShape, Val.isScalar] at this)
  | structRef ty => have := elemOk_shape c (it := .structRef ty) h; cases v <;> first | exact this | (simp [ElemShape, Val.isScalar] at this)

theorem fieldsOk_shape (c : RCfg) (ind : Nat) : ∀ (its : List ItemTy) (fs : List Val) (rest : List WTok),
    FieldsOk c ind its fs rest → ∀ f ∈ fs, FieldShape f
  | [], [], _, _ => by simp
  | [], _ :: _, _, h => by simp [FieldsOk] at h
  | _ :: _, [], _, h => by simp [FieldsOk] at h
  | it :: its, v :: vs, rest, h => by
    intro x hx
    rcases List.mem_cons.1 hx with rfl | hx
    · exact fieldOk_shape c h.1
    · exact fieldsOk_shape c ind its vs rest h.2 x hx

theorem elemShape_normElem {v : Val} (h : ElemShape (normElem v)) : ElemShape v := by
  cases v <;> exact h

theorem fieldShape_of_normField {v : Val} (h : FieldShape (normField v)) : FieldShape v := by
  cases v with
  | arr vs => exact fun x hx => elemShape_normElem (h _ (List.mem_map_of_mem hx))
  | seq vs => exact fun x hx => elemShape_normElem (h _ (List.mem_map_of_mem hx))
  | block _ _ _ _ _ => exact h
  | ident _ _ => exact h
  | str _ _ => exact h
  | int _ _ _ _ => exact h
  | dbl _ _ => exact h
  | enum _ _ => exact h

theorem shape_of_norm {fs' fs : List Val} (hn : fs'.map normField = fs) (h : ∀ f ∈ fs, FieldShape f) :
    ∀ f ∈ fs', FieldShape f := by
  intro f hf
  exact fieldShape_of_normField (h _ (by rw [← hn]; exact List.mem_map_of_mem hf))

/-- the version checks in front of a sub-element's own parser only touch the log -/
theorem taggedArmBody_eval (e : Env) (s1 : PState) (fuel : Nat) (ctx : Ctx) (arms : List Arm) (pib : Bool)
    (ch : List (List Val)) (cm : List Cmt) (tok : PTok) (off i : Nat) (arm : Arm)
    (hver : arm.vlo ≠ 0 ∧ s1.ver < arm.vlo → e.strict = false) :
    ∃ s2, s2.pos = s1.pos ∧ s2.seqId = s1.seqId ∧ s2.ver = s1.ver ∧
      taggedArmBody fuel ctx arms pib ch cm tok off i arm e s1 =
        (parseType fuel arm.ty ⟨tok.text, tok.fileid, tok.line⟩ off >>= fun v =>
          if arm.repeat_ then
            parseTagged fuel ctx arms pib (setAt ch i (· ++ [v])) cm
          else do
            let present := match ch[i]? with | some (_ :: _) => true | _ => false
            if present then errorOrLog .invalidMultiplicityTooMany
            parseTagged fuel ctx arms pib (setAt ch i (fun _ => [v])) cm) e s2 := by
  unfold taggedArmBody
  simp only [getState_bind]
  by_cases h1 : arm.vlo ≠ 0 ∧ s1.ver < arm.vlo
  · have hs := hver h1
    have hE : errorOrLog .blockRefTooNew e s1 = .ok () { s1 with log := ⟨.blockRefTooNew, s1.lastLine⟩ :: s1.log } := by
      simp only [errorOrLog, getEnv_bind, hs]; rfl
    rw [if_pos h1, bind_def, hE]
    simp only [getState_bind]
    by_cases h2 : arm.vhi ≠ 0 ∧ s1.ver > arm.vhi
    · refine ⟨{ s1 with log := ⟨.blockRefDeprecated, s1.lastLine⟩ :: ⟨.blockRefTooNew, s1.lastLine⟩ :: s1.log }, rfl, rfl, rfl, ?_⟩
      rw [if_pos h2, bind_def, logWarning_eval]
      try rfl
    · exact ⟨{ s1 with log := ⟨.blockRefTooNew, s1.lastLine⟩ :: s1.log }, rfl, rfl, rfl, by rw [if_neg h2]; rfl⟩
  · rw [if_neg h1]
    simp only [getState_bind]
    by_cases h2 : arm.vhi ≠ 0 ∧ s1.ver > arm.vhi
    · refine ⟨{ s1 with log := ⟨.blockRefDeprecated, s1.lastLine⟩ :: s1.log }, rfl, rfl, rfl, ?_⟩
      rw [if_pos h2, bind_def, logWarning_eval]
      try rfl
    · exact ⟨s1, rfl, rfl, rfl, by rw [if_neg h2]; rfl⟩

/-- the multiplicity bookkeeping behind a sub-element when the arm was empty so far (or repeats) -/
theorem armTail_eval (e : Env) (s3 : PState) (fuel : Nat) (ctx : Ctx) (arms : List Arm) (pib : Bool)
    (ch : List (List Val)) (cm : List Cmt) (i : Nat) (arm : Arm) (v : Val)
    (hempty : arm.repeat_ = false → ∀ cs, ch[i]? = some cs → cs = []) :
    (if arm.repeat_ then
        parseTagged fuel ctx arms pib (setAt ch i (· ++ [v])) cm
      else do
        let present := match ch[i]? with | some (_ :: _) => true | _ => false
        if present then errorOrLog .invalidMultiplicityTooMany
        parseTagged fuel ctx arms pib (setAt ch i (fun _ => [v])) cm) e s3 =
      parseTagged fuel ctx arms pib (setAt ch i (· ++ [v])) cm e s3 := by
  cases hr : arm.repeat_ with
  | true => simp
  | false =>
    have hcs := hempty hr
    have hpres : (match ch[i]? with | some (_ :: _) => true | _ => false) = false := by
      cases hx : ch[i]? with
      | none => rfl
      | some cs => rw [hcs cs hx]
    have hset : setAt ch i (fun _ => [v]) = setAt ch i (· ++ [v]) :=
      setAt_congr ch i _ _ (fun x hx => by rw [hcs x hx]; rfl)
    simp only [Bool.false_eq_true, if_false, hpres, hset]

/-- `T::parse` behind the table lookup and `get_next_id` -/
def typeBody (fuel ty : Nat) (ctx : Ctx) (startOff : Nat) (isBlock : Bool) (items : List ItemTy) (arms : List Arm)
    (hasTagged : Bool) (uid : Nat) : PM Val := do
  let fields ← parseItems fuel ctx items
  let (children, comments) ←
    if hasTagged then parseTagged fuel ctx arms isBlock (arms.map fun _ => []) []
    else pure ([], [])
  let _ ← (arms.zip children).foldlM (fun (_ : Unit) (ac : Arm × List Val) =>
    if ac.1.required ∧ ac.2.isEmpty then
      (if ac.1.repeat_ then errorOrLog .invalidMultiplicityNotPresent else fail .invalidMultiplicityNotPresent)
    else pure ()) ()
  if isBlock then do
    let _ ← expectToken ctx 2
    let endOff ← getLineOffset
    let ident ← getIdentifier ctx
    if ident ≠ ctx.element then errorOrLog .incorrectEndTag
    pure (.block ty ⟨ctx.line, uid, startOff, endOff, ctx.fileid⟩ fields children comments)
  else
    pure (.block ty ⟨ctx.line, uid, startOff, 0, ctx.fileid⟩ fields children comments)

theorem parseType_block_unfold (fuel ty : Nat) (ctx : Ctx) (startOff : Nat) (e : Env) (s : PState) {isB : Bool}
    {items : List ItemTy} {arms : List Arm} {ht : Bool} (hl : e.table.lookup ty = some (.block isB items arms ht)) :
    parseType (fuel + 1) ty ctx startOff e s =
      typeBody fuel ty ctx startOff isB items arms ht (s.seqId + 1) e { s with seqId := s.seqId + 1 } := by
  rw [parseType]
  simp only [getEnv_bind, hl, getNextId_bind]
  rfl

mutual
/-- parser fuel that certainly suffices to read an element / a list of items back -/
def OT.need (ind : Nat) : OT → Nat
  | .node _ _ _ _ _ _ fields items => max (fieldsNeed (ind + 1) fields) (OT.needL (ind + 1) items) + 2
  | .cmt _ _ => 0
def OT.needL (ind : Nat) : List OT → Nat
  | [] => 1
  | x :: xs => max (x.need ind) (OT.needL ind xs) + 1
end

/-- the tagged loop reads the items `xs` (and stops in front of `tail`) -/
def ItemsGoal (c : RCfg) (all : List WTok) (ctx : Ctx) (ind : Nat) (arms : List Arm) (pib : Bool) (tail : List WTok)
    (xs : List OT) : Prop :=
  ∀ (P : List OT) (pre : List WTok) (s : PState) (ch : List (List Val)) (sub : List (List (List OT))) (cm : List Cmt)
    (R : List GE), OT.okL c ind arms pib xs tail → MultOk c.e.strict arms (P ++ xs) →
    LoopInv c arms P ch sub cm R s.seqId → all = pre ++ (OT.toksL ind xs ++ tail) → s.pos = pre.length → s.ver = c.ver →
    ∀ fuel, OT.needL ind xs ≤ fuel → ∃ ch' sub' cm' R' s',
      parseTagged fuel ctx arms pib ch cm c.e s = .ok (ch', cm'.reverse) s' ∧ Adv s s' (OT.toksL ind xs).length ∧
      LoopInv c arms (P ++ xs) ch' sub' cm' R' s'.seqId

/-- `T::parse` reads the parameters, sub-elements and end tag of the element `o` -/
def BodyGoal (c : RCfg) (all : List WTok) (ind : Nat) (parms : List Arm) (pib : Bool) : OT → Prop
  | .node arm tag blk ty so eo fields items =>
    ∀ (ctx : Ctx) (startOff : Nat) (pre rest : List WTok) (s : PState),
      OT.ok c ind parms pib (.node arm tag blk ty so eo fields items) rest →
      all = pre ++ ((OT.node arm tag blk ty so eo fields items).bodyToks ind ++ rest) → s.pos = pre.length →
      s.ver = c.ver → (blk = true → ctx.element = tag) → ctx.fileid = 0 →
      ∀ fuel, (OT.node arm tag blk ty so eo fields items).need ind ≤ fuel → ∃ fields' ch' cm' s',
        parseType fuel ty ctx startOff c.e s =
          .ok (.block ty ⟨ctx.line, s.seqId + 1, startOff, eo, 0⟩ fields' ch' cm') s' ∧
        Adv s s' ((OT.node arm tag blk ty so eo fields items).bodyToks ind).length ∧ s.seqId + 1 ≤ s'.seqId ∧
        fields'.map normField = fields ∧
        Canon c.e (.block ty ⟨ctx.line, s.seqId + 1, startOff, eo, 0⟩ fields' ch' cm') items ∧
        InOrder c.e (.block ty ⟨ctx.line, s.seqId + 1, startOff, eo, 0⟩ fields' ch' cm') items
  | .cmt _ _ => True

section
variable (c : RCfg) {all : List WTok} (hT : Toks c.e c.lx all) (hne : all ≠ [])
include hT hne

theorem items_nil (ctx : Ctx) (ind : Nat) (arms : List Arm) (pib : Bool) (tail : List WTok)
    (htail : tail = [] ∨ ∃ w r, tail = w :: r ∧ w.ty = 2) : ItemsGoal c all ctx ind arms pib tail [] := by
  intro P pre s ch sub cm R _ _ hinv hs hp _ fuel hf
  obtain ⟨f, rfl⟩ : ∃ f, fuel = f + 1 := ⟨fuel - 1, by simp only [OT.needL] at hf; omega⟩
  simp only [OT.toksL, List.nil_append] at hs
  obtain ⟨s', h1, a1⟩ := nextTag_none hT ctx hs hne htail s hp
  refine ⟨ch, sub, cm, R, s', ?_, a1, ?_⟩
  · rw [parseTagged, bind_def, h1]; rfl
  · rw [List.append_nil]; exact hinv.mono a1.seq

omit hne in
theorem items_cmt (ctx : Ctx) (hfid : ctx.fileid = 0) (ind : Nat) (arms : List Arm) (pib : Bool) (tail : List WTok)
    (hpt : pib = true → tail ≠ []) (text : List Char) (off : Nat) (xs : List OT)
    (ih : ItemsGoal c all ctx ind arms pib tail xs) :
    ItemsGoal c all ctx ind arms pib tail (.cmt text off :: xs) := by
  intro P pre s ch sub cm R hok hmult hinv hs hp hv fuel hf
  obtain ⟨hpib, hokr⟩ := hok
  simp only [OT.ok] at hpib
  simp only [OT.toksL, OT.toks, List.cons_append, List.nil_append] at hs
  have hr : OT.toksL ind xs ++ tail ≠ [] := by
    intro h; exact hpt hpib (List.append_eq_nil_iff.1 h).2
  obtain ⟨l, h1⟩ := nextTag_comment hT ctx hs hr s hp
  have hinv' := hinv.cmtStep text ctx.line off
  obtain ⟨f, rfl⟩ : ∃ f, fuel = f + 1 := ⟨fuel - 1, by simp only [OT.needL] at hf; omega⟩
  obtain ⟨ch', sub', cm', R', s', h2, a2, i2⟩ := ih (P ++ [.cmt text off]) (pre ++ [⟨6, text, off, ind⟩])
    { s with pos := s.pos + 1, seqId := s.seqId + 1 } ch sub _ _ hokr
    (by simpa using hmult) hinv' (by rw [hs]; simp) (by simp [hp]) hv f (by simp only [OT.needL] at hf; omega)
  refine ⟨ch', sub', cm', R', s', ?_, ?_, by simpa using i2⟩
  · rw [parseTagged, bind_def, h1]
    simp only [hpib, if_true, getNextId_bind, WTok.toPTok_text, hfid]
    rw [hpib] at h2
    exact h2
  · have := a2.pos; have := a2.seq; have := a2.ver
    simp only [OT.toksL, OT.toks, List.cons_append, List.nil_append, List.length_cons]
    exact ⟨by simp at *; omega, by simp at *; omega, by simpa using a2.ver⟩

omit hne in
/-- the head of a sub-element: `/begin TAG` or `TAG` -/
theorem nextTag_head (ctx : Ctx) (ind : Nat) (tag : List Char) (blk : Bool) (so : Nat) {pre rest : List WTok}
    (hs : all = pre ++ (headToks ind tag blk so ++ rest)) (hr : blk = false → rest ≠ []) (s : PState)
    (hp : s.pos = pre.length) :
    ∃ tok s1, getNextTagOrComment ctx c.e s = .ok (.block tok blk so) s1 ∧ Adv s s1 (headToks ind tag blk so).length ∧
      s1.seqId = s.seqId ∧ tok.text = tag ∧ tok.fileid = 0 ∧ tok.sym = c.lx.symOf tag := by
  cases blk with
  | true =>
    simp only [headToks, if_true, List.cons_append, List.nil_append] at hs ⊢
    obtain ⟨l, s1, h1, a1, q1⟩ := nextTag_begin hT ctx hs s hp
    exact ⟨_, s1, h1, a1, q1, rfl, rfl, rfl⟩
  | false =>
    simp only [headToks, Bool.false_eq_true, if_false, List.cons_append, List.nil_append] at hs ⊢
    obtain ⟨l, s1, h1, a1, q1⟩ := nextTag_keyword hT ctx hs (hr rfl) s hp
    exact ⟨_, s1, h1, a1, q1, rfl, rfl, rfl⟩

omit hne in
theorem items_node (ctx : Ctx) (ind : Nat) (arms : List Arm) (pib : Bool) (tail : List WTok)
    (i : Nat) (tag : List Char) (blk : Bool) (ty so eo : Nat) (fields : List Val) (its : List OT) (xs : List OT)
    (ihb : BodyGoal c all ind arms pib (.node i tag blk ty so eo fields its))
    (ih : ItemsGoal c all ctx ind arms pib tail xs) :
    ItemsGoal c all ctx ind arms pib tail (.node i tag blk ty so eo fields its :: xs) := by
  intro P pre s ch sub cm R hok hmult hinv hs hp hv fuel hf
  obtain ⟨f, rfl⟩ : ∃ f, fuel = f + 1 := ⟨fuel - 1, by simp only [OT.needL] at hf; omega⟩
  have hf1 : (OT.node i tag blk ty so eo fields its).need ind ≤ f := by simp only [OT.needL] at hf; omega
  have hf2 : OT.needL ind xs ≤ f := by simp only [OT.needL] at hf; omega
  obtain ⟨hokx, hokr⟩ := hok
  have hokx' := hokx
  simp only [OT.ok] at hokx'
  obtain ⟨a, cits, carms, cht, harm, hty, htag, hblk, hl, hver, hkw, hid, hidx, hnorm, -⟩ := hokx'
  -- the tokens
  have htoks : (OT.node i tag blk ty so eo fields its).toks ind =
      headToks ind tag blk so ++ (OT.node i tag blk ty so eo fields its).bodyToks ind := by
    simp only [OT.toks, OT.bodyToks]
  simp only [OT.toksL] at hs ⊢
  rw [htoks] at hs ⊢
  simp only [List.append_assoc] at hs
  have hrest : blk = false → (OT.node i tag blk ty so eo fields its).bodyToks ind ++ (OT.toksL ind xs ++ tail) ≠ [] := by
    intro hb h
    exact (hkw hb).2.1 (List.append_eq_nil_iff.1 h).2
  obtain ⟨tok, s1, h1, a1, q1, htext, hfid, hsym⟩ := nextTag_head c hT ctx ind tag blk so hs hrest s hp
  obtain ⟨s2, p2, q2, v2, h2⟩ := taggedArmBody_eval c.e s1 f ctx arms pib ch cm tok so i a
    (by rw [a1.ver, hv]; exact hver)
  -- the element itself
  obtain ⟨fields', ch1, cm1, s3, h3, a3, q3, hn3, hc3, ho3⟩ := ihb ⟨tok.text, tok.fileid, tok.line⟩ so
    (pre ++ headToks ind tag blk so) (OT.toksL ind xs ++ tail) s2
    hokx (by rw [hs]; simp) (by rw [p2, a1.pos, hp]; simp) (by rw [v2, a1.ver, hv]) (fun _ => htext) hfid f hf1
  -- multiplicity: a non-repeating arm is still empty
  have hempty : a.repeat_ = false → ∀ cs, ch[i]? = some cs → cs = [] := by
    intro hrep cs hcs
    have h1 := (hmult i a harm).1 hrep
    have h2 := hinv.cnt i cs hcs
    rw [List.filter_append, List.length_append, List.filter_cons] at h1
    simp only [OT.isArm, beq_self_eq_true, if_true, List.length_cons] at h1
    exact List.eq_nil_of_length_eq_zero (by omega)
  -- the invariant behind the element
  have hinv' := hinv.childStep (q' := s3.seqId) harm hc3 ho3 (by show s.seqId < s2.seqId + 1; omega)
    (by show s2.seqId + 1 ≤ s3.seqId; exact q3)
  rw [hn3, ← htag, ← hblk] at hinv'
  obtain ⟨ch', sub', cm', R', s', h4, a4, i4⟩ := ih (P ++ [.node i tag blk ty so eo fields its])
    (pre ++ (headToks ind tag blk so ++ (OT.node i tag blk ty so eo fields its).bodyToks ind)) s3 _ _ cm _ hokr
    (by simpa using hmult) hinv' (by rw [hs]; simp)
    (by rw [a3.pos, p2, a1.pos, hp]; simp; omega) (by rw [a3.ver, v2, a1.ver, hv]) f hf2
  refine ⟨ch', sub', cm', R', s', ?_, ?_, by simpa using i4⟩
  · rw [parseTagged_arm_ok c.e s s1 ctx arms pib ch cm f tok blk so i a h1 (by rw [hsym]; exact hidx) harm hblk.symm,
      h2, bind_def, hty, h3]
    simp only []
    rw [armTail_eval c.e s3 f ctx arms pib ch cm i a _ hempty]
    exact h4
  · refine ⟨?_, ?_, ?_⟩
    · rw [a4.pos, a3.pos, p2, a1.pos]; simp only [List.length_append]; omega
    · have := a4.seq; have := a3.seq; have := a1.seq; omega
    · rw [a4.ver, a3.ver, v2, a1.ver]

omit hne in
/-- `/end TAG` -/
theorem closing_runs (ctx : Ctx) (ind : Nat) (tag : List Char) (eo : Nat) {pre rest : List WTok}
    (hs : all = pre ++ (closeToks ind tag true eo ++ rest)) (hid : IdentOk c.e.strict tag) (hel : ctx.element = tag)
    (s : PState) (hp : s.pos = pre.length) (v : Nat → Val) :
    Runs (do
      let _ ← expectToken ctx 2
      let endOff ← getLineOffset
      let ident ← getIdentifier ctx
      if ident ≠ ctx.element then errorOrLog .incorrectEndTag
      pure (v endOff) : PM Val) c.e s (v eo) 2 := by
  simp only [closeToks, if_true, List.cons_append, List.nil_append] at hs
  have hs2 : all = (pre ++ [⟨2, endText, eo, ind⟩]) ++ (⟨0, tag, 0, ind⟩ : WTok) :: rest := by rw [hs]; simp
  refine Runs.bind' (Runs.expect hT hs ctx 2 rfl (by decide) s hp) (fun s1 a1 => ?_) (k := 1) rfl
  refine Runs.bind' (Runs.lineOff hT hs (List.cons_ne_nil _ _) s1 (by rw [a1.pos, hp])) (fun s2 a2 => ?_) (Nat.zero_add 1)
  refine Runs.bind' (Runs.getIdentifier hT hs2 ctx rfl hid s2 (by rw [a2.pos, a1.pos, hp]; simp)) (fun s3 a3 => ?_)
    (Nat.add_zero 1)
  rw [if_neg (by simp [hel])]
  exact Runs.pure _ _ _

omit hne in
theorem body_node (ind : Nat) (parms : List Arm) (pib : Bool) (arm : Nat) (tag : List Char) (blk : Bool)
    (ty so eo : Nat) (fields : List Val) (items : List OT)
    (ih : ∀ (ctx : Ctx) (carms : List Arm) (tail : List WTok), ctx.fileid = 0 →
      (∃ w r, tail = w :: r ∧ w.ty = 2) → ItemsGoal c all ctx (ind + 1) carms true tail items) :
    BodyGoal c all ind parms pib (.node arm tag blk ty so eo fields items) := by
  intro ctx startOff pre rest s hok hs hp hv hel hfid fuel hf
  obtain ⟨f, rfl⟩ : ∃ f, fuel = f + 1 := ⟨fuel - 1, by simp only [OT.need] at hf; omega⟩
  have hf1 : fieldsNeed (ind + 1) fields ≤ f := by simp only [OT.need] at hf; omega
  have hf2 : OT.needL (ind + 1) items ≤ f := by simp only [OT.need] at hf; omega
  simp only [OT.ok] at hok
  obtain ⟨a, cits, carms, cht, harm, hty, htag, hblk, hl, hver, hkw, hid, hidx, hnorm, hfields, hht, hokits, hmult, hps⟩ := hok
  simp only [OT.bodyToks, List.append_assoc] at hs ⊢
  have hrest1 : OT.toksL (ind + 1) items ++ (closeToks ind tag blk eo ++ rest) ≠ [] := by
    cases hb : blk with
    | true => simp [closeToks]
    | false => have := (hkw hb).2.1; simp [this]
  -- parameters
  obtain ⟨fields', ⟨s1, e1, a1⟩, hn1⟩ := parseFields c hT ctx (ind + 1) _ hrest1 cits fields pre
    { s with seqId := s.seqId + 1 } f hfields hs hp hv hf1
  suffices hmain : ∃ ch' cm', Runs (typeBody f ty ctx startOff blk cits carms cht (s.seqId + 1)) c.e
      { s with seqId := s.seqId + 1 } (.block ty ⟨ctx.line, s.seqId + 1, startOff, eo, 0⟩ fields' ch' cm')
      ((fieldsToks (ind + 1) fields).length + ((OT.toksL (ind + 1) items).length + (closeToks ind tag blk eo).length)) ∧
      Canon c.e (.block ty ⟨ctx.line, s.seqId + 1, startOff, eo, 0⟩ fields' ch' cm') items ∧
      InOrder c.e (.block ty ⟨ctx.line, s.seqId + 1, startOff, eo, 0⟩ fields' ch' cm') items by
    obtain ⟨ch', cm', ⟨s', h1, a'⟩, hc, ho⟩ := hmain
    exact ⟨fields', ch', cm', s', by rw [parseType_block_unfold f ty ctx startOff c.e s hl]; exact h1,
      ⟨by rw [a'.pos]; simp only [List.length_append], Nat.le_trans (Nat.le_succ _) a'.seq, a'.ver⟩, a'.seq, hn1, hc, ho⟩
  have hshape : ∀ f ∈ fields', FieldShape f := shape_of_norm hn1 (fieldsOk_shape c (ind + 1) cits fields _ hfields)
  have hs1 : all = (pre ++ fieldsToks (ind + 1) fields) ++
      (OT.toksL (ind + 1) items ++ (closeToks ind tag blk eo ++ rest)) := by rw [hs]; simp
  have hp1 : s1.pos = (pre ++ fieldsToks (ind + 1) fields).length := by
    rw [a1.pos]; simp only [List.length_append]; show s.pos + _ = _; omega
  have hv1 : s1.ver = c.ver := by rw [a1.ver]; exact hv
  cases cht with
  | false =>
    -- no tagged part
    have hitems := hht rfl
    subst hitems
    refine ⟨[], [], ?_, ?_, ?_⟩
    · unfold typeBody
      refine Runs.bindAt e1 a1 ?_ rfl
      simp only [Bool.false_eq_true, if_false]
      refine Runs.bind' (Runs.pure _ _ _) (fun s2 a2 => ?_) (Nat.zero_add _)
      simp only [List.zip_nil_right, List.foldlM_nil]
      refine Runs.bind' (Runs.pure _ _ _) (fun s3 a3 => ?_) (Nat.zero_add _)
      cases hb : blk with
      | false =>
        obtain ⟨heo, -⟩ := hkw hb
        subst heo
        simp only [Bool.false_eq_true, if_false, hfid, closeToks, OT.toksL, List.length_nil]
        exact Runs.pure _ _ _
      | true =>
        subst hb
        simp only [if_true, hfid, OT.toksL, List.length_nil, Nat.zero_add]
        have := closing_runs c hT ctx ind tag eo (pre := pre ++ fieldsToks (ind + 1) fields) (rest := rest)
          (by rw [hs]; simp [OT.toksL]) hid (hel rfl) s3 (by rw [a3.pos, a2.pos, hp1]; simp)
          (fun endOff => .block ty ⟨ctx.line, s.seqId + 1, startOff, endOff, 0⟩ fields' [] [])
        simpa [closeToks] using this
    · have := Canon.mk (e := c.e) (info := ⟨ctx.line, s.seqId + 1, startOff, eo, 0⟩) (fields := fields')
        (children := []) (comments := []) hl [] (by intro h; cases h) rfl (by simp) (by simp) (by simp) (by simp) hshape
      simpa using this
    · exact InOrder.mk (e := c.e) (info := ⟨ctx.line, s.seqId + 1, startOff, eo, 0⟩) (fields := fields')
        (children := []) (comments := []) (items := []) hl [] (by intro h; cases h) rfl (by simp)
        (by intro h; cases h) (by intro h; cases h) (by simp) (by simp) (fun _ => ⟨rfl, rfl⟩) rfl (by simp)
  | true =>
    have hb : blk = true := by
      cases hb : blk with
      | true => rfl
      | false => have := (hkw hb).2.2; cases this
    subst hb
    obtain ⟨ch', sub', cm', R', s2, h2, a2, inv2⟩ := ih ctx carms (closeToks ind tag true eo ++ rest) hfid
      ⟨⟨2, endText, eo, ind⟩, ⟨0, tag, 0, ind⟩ :: rest, by simp [closeToks], rfl⟩ [] (pre ++ fieldsToks (ind + 1) fields) s1 _ _ [] []
      hokits (by simpa using hmult) (LoopInv.init c carms s1.seqId) hs1 hp1 hv1 f hf2
    simp only [List.nil_append] at inv2
    refine ⟨ch', cm'.reverse, ?_, inv2.toCanon hl hps _ _ hshape, inv2.toInOrder hl _ rfl _⟩
    unfold typeBody
    refine Runs.bindAt e1 a1 ?_ rfl
    simp only [if_true]
    refine Runs.bindAt h2 a2 ?_ rfl
    simp only []
    have hm : ∀ z ∈ carms.zip ch', z.1.required = true → z.2.isEmpty = true → z.1.repeat_ = true ∧ c.e.strict = false := by
      intro z hz hreq hemp
      obtain ⟨j, hj⟩ := List.getElem?_of_mem hz
      rw [List.getElem?_zip_eq_some] at hj
      have hcnt := inv2.cnt j z.2 hj.2
      have h0 : z.2.length = 0 := by simpa using hemp
      exact (hmult j z.1 hj.1).2 hreq (by rw [← hcnt, h0])
    refine Runs.bind' (multCheck_runs c.e _ s2 hm) (fun s3 a3 => ?_) (Nat.zero_add _)
    simp only [if_true, hfid]
    have := closing_runs c hT ctx ind tag eo
      (pre := pre ++ fieldsToks (ind + 1) fields ++ OT.toksL (ind + 1) items) (rest := rest)
      (by rw [hs]; simp) hid (hel rfl) s3 (by rw [a3.pos, a2.pos, hp1]; simp; omega)
      (fun endOff => .block ty ⟨ctx.line, s.seqId + 1, startOff, endOff, 0⟩ fields' ch' cm'.reverse)
    simpa [closeToks] using this

mutual
/-- **an element of a written file is read back** -/
theorem reparse_body : ∀ (o : OT) (ind : Nat) (parms : List Arm) (pib : Bool), BodyGoal c all ind parms pib o
  | .node arm tag blk ty so eo fields items, ind, parms, pib =>
    body_node c hT ind parms pib arm tag blk ty so eo fields items (fun ctx carms tail hfid htail =>
      reparse_items items ctx (ind + 1) carms true tail hfid (.inr htail)
        (fun _ => by obtain ⟨w, r, h, _⟩ := htail; rw [h]; exact List.cons_ne_nil _ _))
  | .cmt _ _, _, _, _ => trivial
/-- **the items of a written tagged part are read back**, in order -/
theorem reparse_items : ∀ (xs : List OT) (ctx : Ctx) (ind : Nat) (arms : List Arm) (pib : Bool) (tail : List WTok),
    ctx.fileid = 0 → (tail = [] ∨ ∃ w r, tail = w :: r ∧ w.ty = 2) → (pib = true → tail ≠ []) →
    ItemsGoal c all ctx ind arms pib tail xs
  | [], ctx, ind, arms, pib, tail, _, htail, _ => items_nil c hT hne ctx ind arms pib tail htail
  | .cmt text off :: xs, ctx, ind, arms, pib, tail, hfid, htail, hpt =>
    items_cmt c hT ctx hfid ind arms pib tail hpt text off xs (reparse_items xs ctx ind arms pib tail hfid htail hpt)
  | .node i tag blk ty so eo fields its :: xs, ctx, ind, arms, pib, tail, hfid, htail, hpt =>
    items_node c hT ctx ind arms pib tail i tag blk ty so eo fields its xs
      (reparse_body (.node i tag blk ty so eo fields its) ind arms pib)
      (reparse_items xs ctx ind arms pib tail hfid htail hpt)
end

/-- **the root element** (a keyword without parameters whose tagged part runs to the end of the file) is read back -/
theorem root_parse (ty : Nat) (rarms : List Arm) (items : List OT)
    (hl : c.e.table.lookup ty = some (.block false [] rarms true))
    (hok : OT.okL c 0 rarms false items []) (hmult : MultOk c.e.strict rarms items) (hps : PosSorted c.e.code items)
    (hall : all = OT.toksL 0 items) (ctx : Ctx) (hfid : ctx.fileid = 0) (s : PState) (hp : s.pos = 0) (hv : s.ver = c.ver)
    (fuel : Nat) (hf : OT.needL 0 items + 2 ≤ fuel) :
    ∃ ch' cm' s', parseType fuel ty ctx 0 c.e s = .ok (.block ty ⟨ctx.line, s.seqId + 1, 0, 0, 0⟩ [] ch' cm') s' ∧
      s'.pos = all.length ∧ s'.ver = c.ver ∧ Canon c.e (.block ty ⟨ctx.line, s.seqId + 1, 0, 0, 0⟩ [] ch' cm') items ∧
      InOrder c.e (.block ty ⟨ctx.line, s.seqId + 1, 0, 0, 0⟩ [] ch' cm') items := by
  obtain ⟨f, rfl⟩ : ∃ f, fuel = f + 2 := ⟨fuel - 2, by omega⟩
  obtain ⟨ch', sub', cm', R', s2, h2, a2, inv2⟩ := reparse_items c hT hne items ctx 0 rarms false [] hfid (.inl rfl)
    (fun h => by cases h) [] [] { s with seqId := s.seqId + 1 } _ _ [] [] hok (by simpa using hmult)
    (LoopInv.init c rarms (s.seqId + 1)) (by rw [hall]; simp) hp hv (f + 1) (by omega)
  simp only [List.nil_append] at inv2
  have hm : ∀ z ∈ rarms.zip ch', z.1.required = true → z.2.isEmpty = true → z.1.repeat_ = true ∧ c.e.strict = false := by
    intro z hz hreq hemp
    obtain ⟨j, hj⟩ := List.getElem?_of_mem hz
    rw [List.getElem?_zip_eq_some] at hj
    have hcnt := inv2.cnt j z.2 hj.2
    have h0 : z.2.length = 0 := by simpa using hemp
    exact (hmult j z.1 hj.1).2 hreq (by rw [← hcnt, h0])
  have hr : Runs (typeBody (f + 1) ty ctx 0 false [] rarms true (s.seqId + 1)) c.e { s with seqId := s.seqId + 1 }
      (.block ty ⟨ctx.line, s.seqId + 1, 0, 0, 0⟩ [] ch' cm'.reverse) (OT.toksL 0 items).length := by
    unfold typeBody
    rw [parseItems]
    refine Runs.bindAt (s1 := { s with seqId := s.seqId + 1 }) rfl (Adv.refl _) ?_ (Nat.zero_add _)
    simp only [if_true]
    refine Runs.bindAt h2 a2 ?_ (Nat.add_zero _)
    simp only []
    refine Runs.bind' (k := 0) (multCheck_runs c.e _ s2 hm) (fun s3 a3 => ?_) rfl
    simp only [Bool.false_eq_true, if_false, hfid]
    exact Runs.pure _ _ _
  obtain ⟨s', h1, a'⟩ := hr
  refine ⟨ch', cm'.reverse, s', by rw [parseType_block_unfold (f + 1) ty ctx 0 c.e s hl]; exact h1, ?_, by rw [a'.ver]; exact hv,
    inv2.toCanon hl hps _ _ (by simp), inv2.toInOrder hl _ rfl _⟩
  rw [a'.pos, hall]; show s.pos + _ = _; omega

end

end A2l.Tree
