import A2lVerif.Lemmas.RT.Fields
/-! # C01: reading back structs, arrays and sequences of a written element -/
namespace A2l.Tree
open A2l.G A2l.Sc

theorem scalarToks_single (c : RCfg) {it : ItemTy} {v : Val} (h : ScalarOk c it v) (ind : Nat) :
    ∃ w, scalarToks ind v = [w] := by
  cases it <;> cases v <;> simp only [ScalarOk] at h <;> exact ⟨_, rfl⟩

theorem normElem_scalar (c : RCfg) {it : ItemTy} {v : Val} (h : ScalarOk c it v) : normElem v = v := by
  cases it <;> cases v <;> simp only [ScalarOk] at h <;> rfl

theorem elemToks_scalar (c : RCfg) {it : ItemTy} {v : Val} (h : ScalarOk c it v) (ind : Nat) :
    elemToks ind v = scalarToks ind v := by
  cases it <;> cases v <;> simp only [ScalarOk] at h <;> rfl

theorem scalars_len (c : RCfg) (ind : Nat) : ∀ (sits : List ItemTy) (fs : List Val), ScalarsOk c sits fs →
    (fs.flatMap (scalarToks ind)).length = fs.length
  | [], [], _ => rfl
  | [], _ :: _, h => by simp [ScalarsOk] at h
  | _ :: _, [], h => by simp [ScalarsOk] at h
  | it :: its, v :: vs, h => by
    obtain ⟨w, hw⟩ := scalarToks_single c h.1 ind
    have := scalars_len c ind its vs h.2
    simp only [List.flatMap_cons, hw, List.length_append, List.length_cons, List.length_nil, this]; omega

section
variable (c : RCfg) {all : List WTok} (hT : Toks c.e c.lx all)
include hT

/-- the fields of a struct -/
theorem parseScalars (ctx : Ctx) (ind : Nat) (rest : List WTok) (hr : rest ≠ []) :
    ∀ (sits : List ItemTy) (fs : List Val) (pre : List WTok) (s : PState) (fuel : Nat),
      ScalarsOk c sits fs → all = pre ++ (fs.flatMap (scalarToks ind) ++ rest) → s.pos = pre.length → s.ver = c.ver →
      fs.length + 1 ≤ fuel → Runs (parseItems fuel ctx sits) c.e s fs (fs.flatMap (scalarToks ind)).length
  | [], [], pre, s, fuel, _, _, _, _, hf => by
    obtain ⟨f, rfl⟩ : ∃ f, fuel = f + 1 := ⟨fuel - 1, by simp at hf; omega⟩
    rw [parseItems]; exact Runs.pure _ _ _
  | [], _ :: _, _, _, _, h, _, _, _, _ => by simp [ScalarsOk] at h
  | _ :: _, [], _, _, _, h, _, _, _, _ => by simp [ScalarsOk] at h
  | it :: its, v :: vs, pre, s, fuel, hok, hs, hp, hv, hf => by
    obtain ⟨f, rfl⟩ : ∃ f, fuel = f + 2 := ⟨fuel - 2, by simp at hf; omega⟩
    obtain ⟨hok1, hok2⟩ := hok
    obtain ⟨w, hw⟩ := scalarToks_single c hok1 ind
    rw [parseItems]
    simp only [List.flatMap_cons, List.append_assoc] at hs
    have hr' : vs.flatMap (scalarToks ind) ++ rest ≠ [] := by simp [hr]
    refine Runs.bind' (parseScalar c hT hs hr' hok1 ctx s hp hv f) (fun s1 a1 => ?_) (k := (vs.flatMap (scalarToks ind)).length)
      (by simp [hw]; omega)
    have hs' : all = (pre ++ [w]) ++ (vs.flatMap (scalarToks ind) ++ rest) := by rw [hs, hw]; simp
    refine Runs.bind' (parseScalars ctx ind rest hr its vs (pre ++ [w]) s1 (f + 1) hok2 hs' (by rw [a1.pos, hp]; simp)
      (by rw [a1.ver, hv]) (by simp at hf ⊢; omega)) (fun s2 _ => Runs.pure _ _ _) rfl

omit hT in
theorem ElemOk_scalar {it : ItemTy} {v : Val} (h : ∀ ty, it ≠ .structRef ty) : ElemOk c it v = ScalarOk c it v := by
  cases it <;> first | rfl | exact absurd rfl (h _)

omit hT in
theorem Runs.nextId (e : Env) (s : PState) : Runs getNextId e s (s.seqId + 1) 0 :=
  ⟨{ s with seqId := s.seqId + 1 }, rfl, rfl, Nat.le_succ _, rfl⟩

/-- an element of an array or sequence: a scalar, or a struct of scalars -/
theorem parseElem (ctx : Ctx) (ind : Nat) (rest : List WTok) (hr : rest ≠ []) {it : ItemTy} {v : Val}
    (hok : ElemOk c it v) (pre : List WTok) (s : PState) (fuel : Nat)
    (hs : all = pre ++ (elemToks ind v ++ rest)) (hp : s.pos = pre.length) (hv : s.ver = c.ver)
    (hf : (elemToks ind v).length + 3 ≤ fuel) :
    ∃ v', Runs (parseItem fuel ctx it) c.e s v' (elemToks ind v).length ∧ normElem v' = v := by
  obtain ⟨f, rfl⟩ : ∃ f, fuel = f + 3 := ⟨fuel - 3, by omega⟩
  by_cases hst : ∃ ty, it = .structRef ty
  · obtain ⟨ty, rfl⟩ := hst
    cases v <;> simp only [ElemOk] at hok
    case block ty' info fs ch cm =>
    obtain ⟨rfl, rfl, rfl, rfl, sits, hl, hne, hsc⟩ := hok
    simp only [elemToks] at hs hf ⊢
    have hlen := scalars_len c ind sits fs hsc
    refine ⟨.block ty' ⟨ctx.line, s.seqId + 1, 0, 0, ctx.fileid⟩ fs [] [], ?_, rfl⟩
    rw [parseItem, parseType]
    refine Runs.env ?_
    simp only [hl]
    refine Runs.bind' (Runs.nextId c.e s) (fun s1 a1 => ?_) (Nat.zero_add _)
    refine Runs.bind' (parseScalars c hT ctx ind rest hr sits fs pre s1 (f + 1) hsc hs (by rw [a1.pos, hp]; rfl)
      (by rw [a1.ver, hv]) (by omega)) (fun s2 a2 => ?_) (Nat.add_zero _)
    simp only [Bool.false_eq_true, if_false]
    exact Runs.pure _ _ _
  · have hns : ∀ ty, it ≠ .structRef ty := fun ty h => hst ⟨ty, h⟩
    rw [ElemOk_scalar c hns] at hok
    obtain ⟨w, hw⟩ := scalarToks_single c hok ind
    rw [elemToks_scalar c hok] at hs ⊢
    refine ⟨v, ?_, normElem_scalar c hok⟩
    rw [hw]
    exact parseScalar c hT hs hr hok ctx s hp hv (f + 2)

end
end A2l.Tree
