import A2lVerif.Lemmas.RT.FieldsAll
import A2lVerif.Lemmas.RT.Canon
/-! # C01: one turn of the tagged loop on a written token stream -/
namespace A2l.Tree
open A2l.G A2l.Sc

section
variable {e : Env} {lx : LexEnv} {all : List WTok} (hT : Toks e lx all)
include hT

/-- a comment in front of the cursor -/
theorem nextTag_comment (ctx : Ctx) {pre rest : List WTok} {text : List Char} {off ind : Nat}
    (hs : all = pre ++ (⟨6, text, off, ind⟩ : WTok) :: rest) (hr : rest ≠ []) (s : PState) (hp : s.pos = pre.length) :
    ∃ l, getNextTagOrComment ctx e s = .ok (.comment ((⟨6, text, off, ind⟩ : WTok).toPTok lx l) off)
      { s with pos := s.pos + 1 } := by
  have hat := hT.at hs hp
  refine ⟨endLine 1 pre + off, ?_⟩
  unfold getNextTagOrComment
  simp only [getTokenpos_bind, peekToken_bind, hat, WTok.toPTok, modifyState_bind]
  rw [bind_def, lineOff hT hs hr { s with pos := s.pos + 1 } (by simp [hp])]
  rfl

/-- `/begin TAG` in front of the cursor -/
theorem nextTag_begin (ctx : Ctx) {pre rest : List WTok} {tag : List Char} {so ind : Nat}
    (hs : all = pre ++ (⟨1, beginText, so, ind⟩ : WTok) :: (⟨0, tag, 0, ind⟩ : WTok) :: rest)
    (s : PState) (hp : s.pos = pre.length) :
    ∃ l s', getNextTagOrComment ctx e s = .ok (.block ((⟨0, tag, 0, ind⟩ : WTok).toPTok lx l) true so) s' ∧
      Adv s s' 2 ∧ s'.seqId = s.seqId := by
  have hat := hT.at hs hp
  have hs2 : all = (pre ++ [⟨1, beginText, so, ind⟩]) ++ (⟨0, tag, 0, ind⟩ : WTok) :: rest := by rw [hs]; simp
  refine ⟨endLine 1 (pre ++ [⟨1, beginText, so, ind⟩]) + 0,
    { s with pos := s.pos + 1 + 1, lastLine := endLine 1 (pre ++ [⟨1, beginText, so, ind⟩]) + 0 }, ?_,
    ⟨rfl, Nat.le_refl _, rfl⟩, rfl⟩
  unfold getNextTagOrComment
  simp only [getTokenpos_bind, peekToken_bind, hat, WTok.toPTok]
  rw [bind_def, getToken_some ctx e s _ hat]
  simp only []
  rw [bind_def, lineOff hT hs (List.cons_ne_nil _ _) _ (by simp [hp])]
  simp only []
  rw [bind_def]
  unfold attempt
  rw [expectToken_match ctx 0 e _ _ (hT.at hs2 (by simp [hp])) rfl (by decide)]
  rfl

/-- a keyword tag in front of the cursor -/
theorem nextTag_keyword (ctx : Ctx) {pre rest : List WTok} {tag : List Char} {so ind : Nat}
    (hs : all = pre ++ (⟨0, tag, so, ind⟩ : WTok) :: rest) (hr : rest ≠ [])
    (s : PState) (hp : s.pos = pre.length) :
    ∃ l s', getNextTagOrComment ctx e s = .ok (.block ((⟨0, tag, so, ind⟩ : WTok).toPTok lx l) false so) s' ∧
      Adv s s' 1 ∧ s'.seqId = s.seqId := by
  have hat := hT.at hs hp
  refine ⟨endLine 1 pre + so, { s with pos := s.pos + 1, lastLine := endLine 1 pre + so }, ?_,
    ⟨rfl, Nat.le_refl _, rfl⟩, rfl⟩
  unfold getNextTagOrComment
  simp only [getTokenpos_bind, peekToken_bind, hat, WTok.toPTok]
  rw [bind_def]
  unfold attempt
  rw [expectToken_match ctx 0 e s _ hat rfl (by decide)]
  simp only []
  rw [bind_def, lineOff hT hs hr _ (by simp [hp])]
  rfl

/-- `/end` or the end of the file in front of the cursor: the loop is over, the cursor stays -/
theorem nextTag_none (ctx : Ctx) {pre tail : List WTok} (hs : all = pre ++ tail) (hne : all ≠ [])
    (ht : tail = [] ∨ ∃ w r, tail = w :: r ∧ w.ty = 2) (s : PState) (hp : s.pos = pre.length) :
    ∃ s', getNextTagOrComment ctx e s = .ok .none s' ∧ Adv s s' 0 := by
  have hf : Fails (expectToken ctx 0) e s := by
    apply expect_fails hT ctx 0 hs _ s hp
    rcases ht with rfl | ⟨w, r, rfl, hw⟩
    · trivial
    · simp [nextNC, hw]
  obtain ⟨d, s1, h1, q1, v1⟩ := hf
  obtain ⟨n, hn⟩ := lineOff_any hT hne s1
  refine ⟨{ s1 with pos := s.pos }, ?_, rfl, q1, v1⟩
  have key : (do
      let r ← attempt (expectToken ctx 0)
      let off ← getLineOffset
      match r with
      | .ok tok => pure (.block tok false off)
      | .error _ => do setTokenpos s.pos; pure .none : PM BlockContent) e s =
      .ok .none { s1 with pos := s.pos } := by
    rw [bind_def]
    unfold attempt
    rw [h1]
    simp only []
    rw [bind_def, hn]
    rfl
  unfold getNextTagOrComment
  simp only [getTokenpos_bind, peekToken_bind]
  rcases ht with rfl | ⟨w, r, rfl, hw⟩
  · rw [hT.none (by rw [hs, hp]; simp)]
    exact key
  · rw [hT.at hs hp]
    unfold WTok.toPTok
    rw [hw]
    exact key

end
end A2l.Tree
