import A2lVerif.Lemmas.RT.Stream
import A2lVerif.Props.Scalars
/-! # C01: reading back the parameters (fields) of a written element -/
namespace A2l.Tree
open A2l.G A2l.Sc

/-- the cursor moved by `n` tokens; ids were only consumed; the file version is unchanged -/
structure Adv (s s' : PState) (n : Nat) : Prop where
  pos : s'.pos = s.pos + n
  seq : s.seqId ≤ s'.seqId
  ver : s'.ver = s.ver

theorem Adv.refl (s : PState) : Adv s s 0 := ⟨rfl, Nat.le_refl _, rfl⟩
theorem Adv.trans {s s1 s2 : PState} {n k : Nat} (h1 : Adv s s1 n) (h2 : Adv s1 s2 k) : Adv s s2 (n + k) :=
  ⟨by rw [h2.pos, h1.pos]; omega, Nat.le_trans h1.seq h2.seq, by rw [h2.ver, h1.ver]⟩
theorem Adv.cast {s s' : PState} {n k : Nat} (h : Adv s s' n) (hk : n = k) : Adv s s' k := hk ▸ h

/-- `m` succeeds with value `a`, consuming `n` tokens -/
def Runs {α} (m : PM α) (e : Env) (s : PState) (a : α) (n : Nat) : Prop := ∃ s', m e s = .ok a s' ∧ Adv s s' n

theorem Runs.bind {α β} {m : PM α} {f : α → PM β} {e : Env} {s : PState} {a : α} {b : β} {n k : Nat}
    (h1 : Runs m e s a n) (h2 : ∀ s1, Adv s s1 n → Runs (f a) e s1 b k) : Runs (m >>= f) e s b (n + k) := by
  obtain ⟨s1, e1, a1⟩ := h1
  obtain ⟨s2, e2, a2⟩ := h2 s1 a1
  exact ⟨s2, by rw [bind_def, e1]; exact e2, a1.trans a2⟩

theorem Runs.bind' {α β} {m : PM α} {f : α → PM β} {e : Env} {s : PState} {a : α} {b : β} {n k t : Nat}
    (h1 : Runs m e s a n) (h2 : ∀ s1, Adv s s1 n → Runs (f a) e s1 b k) (ht : n + k = t) :
    Runs (m >>= f) e s b t := ht ▸ Runs.bind h1 h2

theorem Runs.pure {α} (a : α) (e : Env) (s : PState) : Runs (Pure.pure a : PM α) e s a 0 := ⟨s, rfl, Adv.refl s⟩

theorem Runs.cast {α} {m : PM α} {e : Env} {s : PState} {a : α} {n k : Nat} (h : Runs m e s a n) (hk : n = k) :
    Runs m e s a k := hk ▸ h

theorem Runs.peek {β} {f : Option PTok → PM β} {e : Env} {s : PState} {b : β} {n : Nat}
    (h : Runs (f e.toks[s.pos]?) e s b n) : Runs (peekToken >>= f) e s b n := h
theorem Runs.env {β} {f : Env → PM β} {e : Env} {s : PState} {b : β} {n : Nat}
    (h : Runs (f e) e s b n) : Runs (getEnv >>= f) e s b n := h
theorem Runs.state {β} {f : PState → PM β} {e : Env} {s : PState} {b : β} {n : Nat}
    (h : Runs (f s) e s b n) : Runs (getState >>= f) e s b n := h
theorem Runs.tokenpos {β} {f : Nat → PM β} {e : Env} {s : PState} {b : β} {n : Nat}
    (h : Runs (f s.pos) e s b n) : Runs (getTokenpos >>= f) e s b n := h

/-- a complaint that is an error only in strict mode -/
theorem Runs.errorOrLog (k : DK) (e : Env) (s : PState) (h : e.strict = false) : Runs (errorOrLog k) e s () 0 := by
  refine ⟨{ s with log := ⟨k, s.lastLine⟩ :: s.log }, ?_, rfl, Nat.le_refl _, rfl⟩
  simp only [A2l.Tree.errorOrLog, getEnv_bind, h]
  rfl

theorem Runs.logWarning (k : DK) (e : Env) (s : PState) : Runs (logWarning k) e s () 0 :=
  ⟨{ s with log := ⟨k, s.lastLine⟩ :: s.log }, rfl, rfl, Nat.le_refl _, rfl⟩

theorem Runs.condE {p : Prop} [Decidable p] (k : DK) (e : Env) (s : PState) (h : p → e.strict = false) :
    Runs (if p then A2l.Tree.errorOrLog k else Pure.pure ()) e s () 0 := by
  by_cases hp : p
  · rw [if_pos hp]; exact Runs.errorOrLog k e s (h hp)
  · rw [if_neg hp]; exact Runs.pure () e s

theorem Runs.condW {p : Prop} [Decidable p] (k : DK) (e : Env) (s : PState) :
    Runs (if p then A2l.Tree.logWarning k else Pure.pure ()) e s () 0 := by
  by_cases hp : p
  · rw [if_pos hp]; exact Runs.logWarning k e s
  · rw [if_neg hp]; exact Runs.pure () e s

/-- `if p { error_or_log(k) }; m` where `p` is harmless outside strict mode -/
theorem Runs.iteE {α} {p : Prop} [Decidable p] {k : DK} {m : PM α} {e : Env} {s : PState} {a : α} {n : Nat}
    (h : p → e.strict = false) (hm : ∀ s1, Adv s s1 0 → Runs m e s1 a n) :
    Runs (if p then (A2l.Tree.errorOrLog k >>= fun _ => m) else m) e s a n := by
  by_cases hp : p
  · rw [if_pos hp]
    exact (Runs.bind (Runs.errorOrLog k e s (h hp)) (fun s1 a1 => hm s1 a1)).cast (Nat.zero_add n)
  · rw [if_neg hp]; exact hm s (Adv.refl s)

theorem Runs.iteW {α} {p : Prop} [Decidable p] {k : DK} {m : PM α} {e : Env} {s : PState} {a : α} {n : Nat}
    (hm : ∀ s1, Adv s s1 0 → Runs m e s1 a n) :
    Runs (if p then (A2l.Tree.logWarning k >>= fun _ => m) else m) e s a n := by
  by_cases hp : p
  · rw [if_pos hp]
    exact (Runs.bind (Runs.logWarning k e s) (fun s1 a1 => hm s1 a1)).cast (Nat.zero_add n)
  · rw [if_neg hp]; exact hm s (Adv.refl s)

section
variable {e : Env} {lx : LexEnv} {all : List WTok} (hT : Toks e lx all)
include hT

theorem Runs.lineOff {pre rest : List WTok} {w : WTok} (hs : all = pre ++ w :: rest) (hr : rest ≠ []) (s : PState)
    (hp : s.pos = pre.length + 1) : Runs getLineOffset e s w.off 0 :=
  ⟨s, A2l.Tree.lineOff hT hs hr s hp, Adv.refl s⟩

/-- `expect_token` on a token of the expected kind -/
theorem Runs.expect {pre rest : List WTok} {w : WTok} (hs : all = pre ++ w :: rest) (ctx : Ctx) (ty : Nat)
    (hty : w.ty = ty) (h6 : ty ≠ 6) (s : PState) (hp : s.pos = pre.length) :
    Runs (expectToken ctx ty) e s (w.toPTok lx (endLine 1 pre + w.off)) 1 :=
  ⟨_, expectToken_match ctx ty e s _ (hT.at hs hp) hty h6, rfl, Nat.le_refl _, rfl⟩

theorem Runs.getIdentifier {pre rest : List WTok} {w : WTok} (hs : all = pre ++ w :: rest) (ctx : Ctx)
    (hty : w.ty = 0) (hid : IdentOk e.strict w.text) (s : PState) (hp : s.pos = pre.length) :
    Runs (getIdentifier ctx) e s w.text 1 := by
  obtain ⟨c, cs, htext, hv⟩ := hid
  unfold A2l.Tree.getIdentifier
  refine (Runs.bind (Runs.expect hT hs ctx 0 hty (by decide) s hp) ?_).cast (Nat.add_zero 1)
  intro s1 _
  simp only [WTok.toPTok_text, htext]
  refine Runs.iteE ?_ (fun s2 _ => Runs.pure _ e s2)
  intro hbad
  cases hst : e.strict with
  | false => rfl
  | true =>
    obtain ⟨h1, h2⟩ := hv hst
    rw [htext] at h2
    simp only [h1, Bool.false_or, decide_eq_true_eq] at hbad
    omega

theorem Runs.getString {pre rest : List WTok} {str : List Char} {off ind : Nat}
    (hs : all = pre ++ (⟨4, '"' :: (escape str ++ ['"']), off, ind⟩ : WTok) :: rest) (ctx : Ctx)
    (s : PState) (hp : s.pos = pre.length) :
    Runs (getString ctx) e s str 1 := by
  unfold A2l.Tree.getString
  have hat := hT.at hs hp
  refine Runs.peek ?_
  rw [hat]
  simp only [WTok.toPTok]
  refine (Runs.bind (Runs.expect hT hs ctx 4 rfl (by decide) s hp) ?_).cast (Nat.add_zero 1)
  intro s1 _
  have hq : stripQuotes ('"' :: (escape str ++ ['"'])) = escape str := by
    simp [stripQuotes]
  simp only [WTok.toPTok_text, hq, unescape_escape]
  exact Runs.pure _ _ _

end

/-- a one-token scalar followed by `get_line_offset` -/
theorem Runs.withOff {α} {e : Env} {lx : LexEnv} {all : List WTok} (hT : Toks e lx all) {pre rest : List WTok} {w : WTok}
    (hs : all = pre ++ w :: rest) (hr : rest ≠ []) {m : PM α} {a : α} {s : PState} (hp : s.pos = pre.length)
    (h1 : Runs m e s a 1) (g : α → Nat → Val) :
    Runs (m >>= fun v => getLineOffset >>= fun off => Pure.pure (g v off)) e s (g a w.off) 1 :=
  Runs.bind' h1 (fun s1 a1 => Runs.bind' (Runs.lineOff hT hs hr s1 (by rw [a1.pos, hp]))
    (fun s2 _ => Runs.pure _ _ _) rfl) rfl

/-- **a scalar parameter is read back as the same value** (text, notation flag and line offset) -/
theorem parseScalar (c : RCfg) {all : List WTok} (hT : Toks c.e c.lx all) {pre rest : List WTok} {it : ItemTy} {v : Val}
    {ind : Nat} (hs : all = pre ++ (scalarToks ind v ++ rest)) (hr : rest ≠ []) (hok : ScalarOk c it v) (ctx : Ctx)
    (s : PState) (hp : s.pos = pre.length) (hv : s.ver = c.ver) (fuel : Nat) :
    Runs (parseItem (fuel + 1) ctx it) c.e s v 1 := by
  cases it <;> cases v <;> simp only [ScalarOk] at hok <;> simp only [scalarToks, List.cons_append, List.nil_append] at hs
  case ident.ident str off =>
    rw [parseItem]
    exact Runs.withOff hT hs hr hp (Runs.getIdentifier hT hs ctx rfl hok s hp) (fun v o => .ident v o)
  case string.str str off =>
    rw [parseItem]
    exact Runs.withOff hT hs hr hp (Runs.getString hT hs ctx s hp) (fun v o => .str v o)
  case strMax.str n str off =>
    obtain ⟨rfl, hlen⟩ := hok
    rw [parseItem]
    refine Runs.bind' (a := str) (n := 1) (k := 0) ?_ (fun s2 _ => Runs.pure _ _ _) rfl
    unfold getStringMaxlen
    refine Runs.bind' (Runs.getString hT hs ctx s hp) (fun s1 a1 => ?_) (Nat.add_zero 1)
    refine Runs.iteE (fun hbad => ?_) (fun s2 _ => Runs.pure _ _ _)
    cases hst : c.e.strict with
    | false => rfl
    | true => have := hlen hst; omega
  case double.dbl str off =>
    rw [parseItem]
    refine Runs.withOff hT hs hr hp ?_ (fun v o => .dbl v o)
    unfold getDouble
    refine Runs.bind' (Runs.expect hT hs ctx 5 rfl (by decide) s hp) (fun s1 a1 => ?_) (Nat.add_zero 1)
    simp only [WTok.toPTok, if_true, hok]; exact Runs.pure _ _ _
  case float.dbl str off =>
    rw [parseItem]
    refine Runs.withOff hT hs hr hp ?_ (fun v o => .dbl v o)
    unfold getDouble
    refine Runs.bind' (Runs.expect hT hs ctx 5 rfl (by decide) s hp) (fun s1 a1 => ?_) (Nat.add_zero 1)
    simp only [WTok.toPTok, if_true, hok]; exact Runs.pure _ _ _
  case int.int w i hex off w' =>
    obtain ⟨rfl, hin⟩ := hok
    rw [parseItem]
    refine Runs.withOff hT hs hr hp (a := (i, hex)) ?_ (fun v o => .int v.1 v.2 o w')
    unfold getInteger
    refine Runs.bind' (Runs.expect hT hs ctx 5 rfl (by decide) s hp) (fun s1 a1 => ?_) (Nat.add_zero 1)
    simp only [WTok.toPTok, int_roundtrip _ _ _ hin]; exact Runs.pure _ _ _
  case enumRef.enum ty str off =>
    obtain ⟨items, it, hl, hid, hlk, hver⟩ := hok
    rw [parseItem]
    refine Runs.env ?_
    simp only [hl]
    refine Runs.withOff hT hs hr hp ?_ (fun v o => .enum v o)
    unfold parseEnum
    refine Runs.bind' (Runs.getIdentifier hT hs ctx rfl hid s hp) (fun s1 a1 => ?_) (Nat.add_zero 1)
    refine Runs.env (Runs.state ?_)
    have hat := hT.at hs (n := s1.pos - 1) (by rw [a1.pos, hp]; omega)
    simp only [hat, WTok.toPTok, if_true, hlk]
    refine Runs.iteE (fun hbad => hver ⟨hbad.1, ?_⟩) (fun s2 _ => Runs.iteW fun s3 _ => Runs.pure _ _ _)
    rw [← hv, ← a1.ver]; exact hbad.2

end A2l.Tree
