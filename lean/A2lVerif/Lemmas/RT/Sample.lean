import A2lVerif.Lemmas.TreeRoundTrip
/-! # C01: a concrete instance of the hypotheses (a root keyword, a version keyword, a block with an identifier, a
    string and an enum parameter, a comment and a repeating child keyword with a hex parameter) -/
namespace A2l.Tree.Sample
open A2l.G A2l.Sc A2l.Lex

def tbl : Table :=
  [⟨0, .block false [] [⟨0, 1, false, false, false, 0, 0⟩, ⟨1, 2, true, false, true, 0, 0⟩] true⟩,
   ⟨1, .block false [.int 5, .int 5] [] false⟩,
   ⟨2, .block true [.ident, .string, .enumRef 4] [⟨2, 3, false, true, false, 0, 0⟩] true⟩,
   ⟨3, .block false [.int 6] [] false⟩,
   ⟨4, .enum [⟨3, 0, 0⟩, ⟨4, 0, 0⟩]⟩]

def syms : Array String := #["V", "P", "C", "ON", "OFF"]

def symOf : List Char → Nat
  | ['V'] => 0 | ['P'] => 1 | ['C'] => 2 | ['O', 'N'] => 3 | ['O', 'F', 'F'] => 4 | _ => noSym

def lx : LexEnv := ⟨symOf, fun s => some s⟩

/-- environment of the first load (tokens irrelevant) -/
def e0 : Env := { toks := #[], strict := true, table := tbl, code := [], known := ⟨0, 1, 0⟩, symbols := syms }

def rarms : List Arm := [⟨0, 1, false, false, false, 0, 0⟩, ⟨1, 2, true, false, true, 0, 0⟩]
def parms : List Arm := [⟨2, 3, false, true, false, 0, 0⟩]

def cmtText : List Char := " /* c */".toList

def verFields : List Val := [.int 1 false 0 5, .int 71 false 0 5]
def projFields : List Val := [.ident ['p'] 0, .str ['h', 'i'] 0, .enum ['O', 'N'] 0]
def childFields : List Val := [.int 5 true 0 6]

def childV : Val := .block 3 ⟨4, 6, 1, 0, 0⟩ childFields [] []
def projV : Val := .block 2 ⟨2, 4, 1, 1, 0⟩ projFields [[childV]] [⟨cmtText, 2, 5, 1, false⟩]
def verV : Val := .block 1 ⟨1, 3, 0, 0, 0⟩ verFields [] []
/-- the loaded file: `V 1 71` / `/begin P p "hi" ON` / ` /* c */` / `C 0x5` / `/end P` -/
def fileV : Val := .block 0 ⟨1, 2, 0, 0, 0⟩ [] [[verV], [projV]] []

def childO : OT := .node 0 ['C'] false 3 1 0 childFields []
def projItems : List OT := [.cmt cmtText 1, childO]
def projO : OT := .node 1 ['P'] true 2 1 1 projFields projItems
def verO : OT := .node 0 ['V'] false 1 0 0 verFields []
def items : List OT := [verO, projO]

/-- a value without sub-elements -/
theorem canon_leaf (ty : Nat) (info : Info) (fields : List Val) (isB : Bool) (its : List ItemTy) (arms : List Arm)
    (hl : e0.table.lookup ty = some (.block isB its arms false)) (hfs : ∀ f ∈ fields, FieldShape f) :
    Canon e0 (.block ty info fields [] []) [] := by
  have := Canon.mk (e := e0) (info := info) (fields := fields) (children := []) (comments := []) hl []
    (by intro h; cases h) rfl (by simp) (by simp) (by simp) (by simp) hfs
  simpa using this

theorem inorder_leaf (ty : Nat) (info : Info) (hf : info.fileid = 0) (fields : List Val) (isB : Bool) (its : List ItemTy)
    (arms : List Arm) (hl : e0.table.lookup ty = some (.block isB its arms false)) :
    InOrder e0 (.block ty info fields [] []) [] :=
  InOrder.mk hl [] (by intro h; cases h) rfl (by simp) (by intro h; cases h) (by intro h; cases h) (by simp) (by simp)
    (fun _ => ⟨rfl, rfl⟩) hf (by simp)

theorem sortGE_sorted (ges : List GE) (h : ges.Pairwise (fun a b => geLe a b = true)) : sortGE [] ges = ges := by
  unfold sortGE
  rw [List.mergeSort_of_pairwise h]
  apply applyPosG_of_sorted
  have : ges.filter (fun x => (x.ot.pos []).isSome) = [] := by
    rw [List.filter_eq_nil_iff]
    intro g _
    cases g.ot <;> simp [OT.pos, posRestrict, codeLookup]
  rw [this]; exact List.Pairwise.nil

/-- the writer's order of a group whose entries have distinct positive uids: sorted by uid -/
theorem sortGE_perm (ges R : List GE) (hp : ges.Perm R) (hs : R.Pairwise (fun a b => a.uid < b.uid))
    (hpos : ∀ g ∈ R, 0 < g.uid) : sortGE [] ges = R := by
  unfold sortGE
  rw [mergeSort_of_perm_uid hp hs hpos]
  apply applyPosG_of_sorted
  have : R.filter (fun x => (x.ot.pos []).isSome) = [] := by
    rw [List.filter_eq_nil_iff]
    intro g _
    cases g.ot <;> simp [OT.pos, posRestrict, codeLookup]
  rw [this]; exact List.Pairwise.nil

theorem canon_child : Canon e0 childV [] :=
  canon_leaf 3 _ _ false [.int 6] [] rfl (by simp [childFields, FieldShape, ElemShape, Val.isScalar])

theorem canon_ver : Canon e0 verV [] :=
  canon_leaf 1 _ _ false [.int 5, .int 5] [] rfl (by simp [verFields, FieldShape, ElemShape, Val.isScalar])

theorem canon_proj : Canon e0 projV projItems := by
  have := Canon.mk (e := e0) (ty := 2) (info := ⟨2, 4, 1, 1, 0⟩) (fields := projFields) (children := [[childV]])
    (comments := [⟨cmtText, 2, 5, 1, false⟩]) (isB := true) (its := [.ident, .string, .enumRef 4]) (arms := parms) (ht := true)
    rfl [[[]]] (fun _ => rfl) rfl
    (by intro i cs ss h1 h2; cases i <;> simp at h1 h2; subst h1; subst h2; rfl)
    (by
      intro i j cs ss c o h1 h2 h3 h4
      cases i <;> simp at h1 h2
      subst h1; subst h2
      cases j <;> simp at h3 h4
      subst h3; subst h4
      exact canon_child)
    (by intro cs hcs c hc; simp at hcs; subst hcs; simp at hc; subst hc; rfl)
    (by intro cm hcm; simp at hcm; subst hcm; rfl)
    (by simp [projFields, FieldShape, ElemShape, Val.isScalar])
  simp only [if_true] at this
  rw [show e0.code = [] from rfl, sortGE_perm _ [⟨5, 2, .cmt cmtText 1⟩, ⟨6, 4, childO⟩]
    (by simp only [gesFrom, gesArm, childGE, childV, List.map_cons, List.map_nil, cmtGE, List.append_nil, parms]
        exact List.perm_append_comm)
    (by decide) (by decide)] at this
  exact this

theorem canon_file : Canon e0 fileV items := by
  have := Canon.mk (e := e0) (ty := 0) (info := ⟨1, 2, 0, 0, 0⟩) (fields := []) (children := [[verV], [projV]])
    (comments := []) (isB := false) (its := []) (arms := rarms) (ht := true)
    rfl [[[]], [projItems]] (fun _ => rfl) rfl
    (by
      intro i cs ss h1 h2
      match i with
      | 0 => simp at h1 h2; subst h1; subst h2; rfl
      | 1 => simp at h1 h2; subst h1; subst h2; rfl
      | n + 2 => simp at h1)
    (by
      intro i j cs ss c o h1 h2 h3 h4
      match i with
      | 0 =>
        simp at h1 h2; subst h1; subst h2
        cases j <;> simp at h3 h4
        subst h3; subst h4; exact canon_ver
      | 1 =>
        simp at h1 h2; subst h1; subst h2
        cases j <;> simp at h3 h4
        subst h3; subst h4; exact canon_proj
      | n + 2 => simp at h1)
    (by
      intro cs hcs c hc
      simp at hcs
      rcases hcs with rfl | rfl <;> (simp at hc; subst hc; rfl))
    (by simp) (by simp)
  simp only [if_true] at this
  rw [show e0.code = [] from rfl, sortGE_sorted _ (by
    simp only [gesFrom, gesArm, childGE, verV, projV, List.map_cons, List.map_nil, List.append_nil, rarms]
    decide)] at this
  exact this

theorem fix_items : OT.fixL false items = items := by
  simp [items, verO, projO, projItems, childO, OT.fixL, bumpOff, OT.fixEo]

/-- the written token stream -/
def stream : List WTok :=
  [⟨0, ['V'], 0, 0⟩, ⟨5, ['1'], 0, 1⟩, ⟨5, ['7', '1'], 0, 1⟩,
   ⟨1, beginText, 1, 0⟩, ⟨0, ['P'], 0, 0⟩, ⟨0, ['p'], 0, 1⟩, ⟨4, ['"', 'h', 'i', '"'], 0, 1⟩, ⟨0, ['O', 'N'], 0, 1⟩,
   ⟨6, cmtText, 1, 1⟩, ⟨0, ['C'], 1, 1⟩, ⟨5, ['0', 'x', '5'], 0, 2⟩,
   ⟨2, endText, 1, 0⟩, ⟨0, ['P'], 0, 0⟩]

theorem toksL_items : OT.toksL 0 items = stream := by
  simp [items, verO, projO, projItems, childO, OT.toksL, OT.toks, headToks, closeToks, fieldsToks, fieldToks, elemToks,
    scalarToks, verFields, projFields, childFields, stream]
  decide

/-- the written text -/
theorem text_items : renderToks stream =
    " V 1 71\n/begin P p \"hi\" ON\n /* c */\n  C 0x5\n/end P".toList := by
  decide

theorem identText_of (c : Char) (cs : List Char)
    (h1 : ∀ x ∈ c :: cs, IsAscii x ∧ isIdentChar (asciiB x) = true) (h2 : (isAlpha (asciiB c) || asciiB c == 95) = true) :
    IdentText (c :: cs) := ⟨c, cs, rfl, h1, h2⟩

theorem cmt_lex : CommentText cmtText := by
  unfold CommentText
  have hl : isLineCmt cmtText = false := by decide
  rw [if_neg (by simp [hl])]
  have hcore : encL (cmtRest cmtText) = [47, 42, 32, 99, 32, 42, 47] := by decide
  rw [hcore]
  refine ⟨by decide, by decide, by decide, by decide, ?_⟩
  intro j h1 h2
  have : j = 3 ∨ j = 4 ∨ j = 5 := by simp at h2; omega
  rcases this with rfl | rfl | rfl <;> decide

theorem lexable : StreamLex none (OT.toksL 0 (OT.fixL false items)) := by
  rw [fix_items, toksL_items]
  unfold stream
  refine ⟨identText_of 'V' [] (by decide) (by decide), (by intro _ h; obtain ⟨p, hp, _⟩ := h; exact absurd hp (by simp)), (by intro h; exact absurd h (by decide)), ?_⟩
  refine ⟨⟨'1', [], rfl, by decide, by decide, by decide, by decide, by decide, by decide, by decide⟩,
    (by intro h; exact absurd h (by decide)), (by intro h; exact absurd h (by decide)), ?_⟩
  refine ⟨⟨'7', ['1'], rfl, by decide, by decide, by decide, by decide, by decide, by decide, by decide⟩,
    (by intro h; exact absurd h (by decide)), (by intro h; exact absurd h (by decide)), ?_⟩
  refine ⟨rfl, (by intro h; exact absurd h (by decide)), (by intro h; exact absurd h (by decide)), ?_⟩
  refine ⟨identText_of 'P' [] (by decide) (by decide), (by intro _ _; decide), (by intro h; exact absurd h (by decide)), ?_⟩
  refine ⟨identText_of 'p' [] (by decide) (by decide), (by intro _ _; decide), (by intro h; exact absurd h (by decide)), ?_⟩
  refine ⟨⟨['h', 'i'], by decide⟩, (by intro h; exact absurd h (by decide)), (by intro h; exact absurd h (by decide)), ?_⟩
  refine ⟨identText_of 'O' ['N'] (by decide) (by decide), (by intro _ _; decide), (by intro h; exact absurd h (by decide)), ?_⟩
  refine ⟨cmt_lex, (by intro h; exact absurd h (by decide)), (by intro _ h; exact absurd h (by decide)), ?_⟩
  refine ⟨identText_of 'C' [] (by decide) (by decide), (by intro _ _; decide), (by intro h; exact absurd h (by decide)), ?_⟩
  refine ⟨⟨'0', ['x', '5'], rfl, by decide, by decide, by decide, by decide, by decide, by decide, by decide⟩,
    (by intro h; exact absurd h (by decide)), (by intro h; exact absurd h (by decide)), ?_⟩
  refine ⟨rfl, (by intro h; exact absurd h (by decide)), (by intro h; exact absurd h (by decide)), ?_⟩
  exact ⟨identText_of 'P' [] (by decide) (by decide), (by intro _ _; decide), (by intro h; exact absurd h (by decide)), trivial⟩

/-- environment of the second load -/
def e1 : Env := { e0 with toks := (mkToks lx (OT.toksL 0 (OT.fixL false items))).toArray }

def cfg (ver : Nat) : RCfg := ⟨e1, lx, ver⟩

theorem sym_C (ver : Nat) : ['C'] = symText (cfg ver).e.symbols 2 := by simp [symText, syms, cfg, e1, e0]
theorem sym_V (ver : Nat) : ['V'] = symText (cfg ver).e.symbols 0 := by simp [symText, syms, cfg, e1, e0]
theorem sym_P (ver : Nat) : ['P'] = symText (cfg ver).e.symbols 1 := by simp [symText, syms, cfg, e1, e0]

theorem ok_child (ver : Nat) (rest : List WTok) (hr : rest ≠ []) : OT.ok (cfg ver) 1 parms true childO rest := by
  unfold childO
  rw [OT.ok]
  refine ⟨⟨2, 3, false, true, false, 0, 0⟩, [.int 6], [], false, rfl, rfl, sym_C ver, rfl, rfl, ?_, fun _ => ⟨rfl, hr, rfl⟩,
    ⟨'C', [], rfl, (by intro _; decide)⟩, rfl, rfl, ?_, (fun _ => rfl), trivial, ?_, ?_⟩
  · intro h; exact absurd h.1 (by decide)
  · exact ⟨⟨rfl, by decide⟩, trivial⟩
  · intro j a ha
    cases j <;> simp at ha
  · simp [PosSorted]

theorem ok_ver (ver : Nat) (rest : List WTok) (hr : rest ≠ []) : OT.ok (cfg ver) 0 rarms false verO rest := by
  unfold verO
  rw [OT.ok]
  refine ⟨⟨0, 1, false, false, false, 0, 0⟩, [.int 5, .int 5], [], false, rfl, rfl, sym_V ver, rfl, rfl, ?_,
    fun _ => ⟨rfl, hr, rfl⟩, ⟨'V', [], rfl, (by intro _; decide)⟩, rfl, rfl, ?_, (fun _ => rfl), trivial, ?_, ?_⟩
  · intro h; exact absurd h.1 (by decide)
  · exact ⟨⟨rfl, by decide⟩, ⟨rfl, by decide⟩, trivial⟩
  · intro j a ha
    cases j <;> simp at ha
  · simp [PosSorted]

theorem ok_proj (ver : Nat) : OT.ok (cfg ver) 0 rarms false projO [] := by
  unfold projO
  rw [OT.ok]
  refine ⟨⟨1, 2, true, false, true, 0, 0⟩, [.ident, .string, .enumRef 4], parms, true, rfl, rfl, sym_P ver, rfl, rfl, ?_,
    (by intro h; exact absurd h (by decide)), ⟨'P', [], rfl, (by intro _; decide)⟩, rfl, rfl, ?_, (by intro h; exact absurd h (by decide)), ?_, ?_, ?_⟩
  · intro h; exact absurd h.1 (by decide)
  · refine ⟨⟨'p', [], rfl, (by intro _; decide)⟩, trivial, ?_, trivial⟩
    exact ⟨[⟨3, 0, 0⟩, ⟨4, 0, 0⟩], ⟨3, 0, 0⟩, rfl, ⟨'O', ['N'], rfl, (by intro _; decide)⟩, rfl,
      (by intro h; exact absurd rfl h.1)⟩
  · simp only [projItems, OT.okL, OT.ok, and_true, true_and]
    exact ok_child ver _ (by simp [closeToks])
  · intro j a ha
    match j with
    | 0 =>
      simp [parms] at ha; subst ha
      exact ⟨(by intro h; exact absurd h (by decide)), (by intro h; exact absurd h (by decide))⟩
    | n + 1 => simp [parms] at ha
  · simp [PosSorted, projItems, childO, OT.pos, posRestrict, codeLookup, e1, e0, cfg]

theorem writable : Writable (cfg 6) rarms (OT.fixL false items) := by
  rw [fix_items]
  refine ⟨rfl, ?_, ?_, ?_, ?_⟩
  · intro ver _
    simp only [items, OT.okL, and_true]
    exact ⟨ok_ver ver _ (by simp [OT.toksL, OT.toks, projO, headToks]), ok_proj ver⟩
  · intro j a ha
    match j with
    | 0 =>
      simp [rarms] at ha; subst ha
      exact ⟨(fun _ => by simp [items, verO, projO, OT.isArm]), (by intro h; exact absurd h (by decide))⟩
    | 1 =>
      simp [rarms] at ha; subst ha
      refine ⟨(fun _ => by simp [items, verO, projO, OT.isArm]), fun _ h => ?_⟩
      simp [items, verO, projO, OT.isArm] at h
    | n + 2 => simp [rarms] at ha
  · simp [PosSorted, items, verO, projO, OT.pos, posRestrict, codeLookup, e1, e0, cfg]
  · show HeadOk (cfg 6) (verO :: [projO])
    unfold verO
    simp only [HeadOk]
    have hst : (cfg 6).e.strict = true := rfl
    rw [if_pos hst]
    exact ⟨1, 71, ⟨0, ['V'], 0, false, 0, 5, false, 0, 5, rfl, rfl⟩, rfl⟩

theorem inorder_proj : InOrder e0 projV projItems := by
  refine InOrder.mk (e := e0) (ty := 2) (isB := true) (its := [.ident, .string, .enumRef 4]) (arms := parms) (ht := true)
    rfl [[[]]] (fun _ => rfl) rfl ?_ ?_ ?_ ?_ ?_ ?_ rfl ?_
  · intro i cs ss h1 h2; cases i <;> simp at h1 h2; subst h1; subst h2; rfl
  · intro _ k a cs ss ha hc hs
    cases k <;> simp [parms] at ha hc hs
    subst ha; subst hc; subst hs
    simp [gesArm, childGE, childV, projItems, childO, OT.isArm, symText, syms, e0, childFields, normField, normElem]
  · intro _; simp [projItems, childO, OT.isCmt, List.filter]
  · intro cs hcs c hc; simp at hcs; subst hcs; simp at hc; subst hc; rfl
  · intro cm hcm; simp at hcm; subst hcm; rfl
  · intro h; cases h
  · intro i j cs ss c o h1 h2 h3 h4
    cases i <;> simp at h1 h2
    subst h1; subst h2
    cases j <;> simp at h3 h4
    subst h3; subst h4
    exact inorder_leaf 3 _ rfl _ false [.int 6] [] rfl

theorem inorder_file : InOrder e0 fileV items := by
  refine InOrder.mk (e := e0) (ty := 0) (isB := false) (its := []) (arms := rarms) (ht := true)
    rfl [[[]], [projItems]] (fun _ => rfl) rfl ?_ ?_ ?_ ?_ ?_ ?_ rfl ?_
  · intro i cs ss h1 h2
    match i with
    | 0 => simp at h1 h2; subst h1; subst h2; rfl
    | 1 => simp at h1 h2; subst h1; subst h2; rfl
    | n + 2 => simp at h1
  · intro _ k a cs ss ha hc hs
    match k with
    | 0 =>
      simp [rarms] at ha hc hs; subst ha; subst hc; subst hs
      simp [gesArm, childGE, verV, items, verO, projO, OT.isArm, symText, syms, e0, verFields, normField, normElem]
    | 1 =>
      simp [rarms] at ha hc hs; subst ha; subst hc; subst hs
      simp [gesArm, childGE, projV, items, verO, projO, OT.isArm, symText, syms, e0, projFields, normField, normElem]
    | n + 2 => simp [rarms] at ha
  · intro _; simp [items, verO, projO, OT.isCmt, List.filter]
  · intro cs hcs c hc
    simp at hcs
    rcases hcs with rfl | rfl <;> (simp at hc; subst hc; rfl)
  · simp
  · intro h; cases h
  · intro i j cs ss c o h1 h2 h3 h4
    match i with
    | 0 =>
      simp at h1 h2; subst h1; subst h2
      cases j <;> simp at h3 h4
      subst h3; subst h4; exact inorder_leaf 1 _ rfl _ false [.int 5, .int 5] [] rfl
    | 1 =>
      simp at h1 h2; subst h1; subst h2
      cases j <;> simp at h3 h4
      subst h3; subst h4; exact inorder_proj
    | n + 2 => simp at h1

theorem identText1 (c : Char) (h1 : IsAscii c ∧ isIdentChar (asciiB c) = true)
    (h2 : (isAlpha (asciiB c) || asciiB c == 95) = true) : IdentText [c] :=
  ⟨c, [], rfl, by intro x hx; simp at hx; subst hx; exact h1, h2⟩

/-- a keyword without sub-elements -/
theorem lexW_kw (arm : Nat) (tag : List Char) (ty so : Nat) (fields : List Val) (htag : IdentText tag)
    (hf : ∀ f ∈ fields, FieldLex f) : OT.lexW (.node arm tag false ty so 0 fields []) := by
  rw [OT.lexW]
  exact ⟨htag, (by intro h; cases h), hf, (by rw [OT.lexWL]; trivial), (fun _ => rfl)⟩

theorem lexW_items : OT.lexWL items := by
  unfold items verO projO projItems childO
  rw [OT.lexWL, OT.lexWL, OT.lexWL]
  refine ⟨lexW_kw _ _ _ _ _ (identText1 'V' (by decide) (by decide)) ?_, ?_, trivial⟩
  · intro f hf; simp [verFields] at hf; rcases hf with rfl | rfl <;> trivial
  · rw [OT.lexW]
    refine ⟨identText1 'P' (by decide) (by decide), (by intro _; decide), ?_, ?_, (by intro h; cases h)⟩
    · intro f hf
      simp [projFields] at hf
      rcases hf with rfl | rfl | rfl
      · exact identText1 'p' (by decide) (by decide)
      · trivial
      · exact ⟨'O', ['N'], rfl, by decide, by decide⟩
    · rw [OT.lexWL, OT.lexWL, OT.lexWL]
      refine ⟨by rw [OT.lexW]; exact cmt_lex, lexW_kw _ _ _ _ _ (identText1 'C' (by decide) (by decide)) ?_, trivial⟩
      intro f hf; simp [childFields] at hf; subst hf; trivial

end A2l.Tree.Sample
