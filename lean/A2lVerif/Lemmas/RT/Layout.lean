import A2lVerif.Lemmas.RT.Lists
/-! # C01: two values with the same ordered form, both in written order, are equal up to layout bookkeeping -/
namespace A2l.Tree
open A2l.G A2l.Sc

/-- same type, same line offsets, same parameters (up to struct layout) -/
def Compat : Val → Val → Prop
  | .block ty i f _ _, .block ty' i' f' _ _ =>
    ty = ty' ∧ i.startOff = i'.startOff ∧ i.endOff = i'.endOff ∧ f.map normField = f'.map normField
  | _, _ => False

/-- equal entry lists of one arm: the children correspond one by one -/
theorem gesArm_eq (symbols : Array String) (k : Nat) (a : Arm) : ∀ (cs cs' : List Val) (ss ss' : List (List OT)),
    ss.length = cs.length → ss'.length = cs'.length → (∀ c ∈ cs, Val.isBlock c = true) → (∀ c ∈ cs', Val.isBlock c = true) →
    (gesArm symbols k a cs ss).map (·.ot) = (gesArm symbols k a cs' ss').map (·.ot) →
    cs.length = cs'.length ∧ ∀ (j : Nat) (c c' : Val) (o o' : List OT), cs[j]? = some c → cs'[j]? = some c' →
      ss[j]? = some o → ss'[j]? = some o' → o = o' ∧ Compat c c'
  | [], [], _, _, _, _, _, _, _ => ⟨rfl, by intro j c c' o o' h; simp at h⟩
  | [], c' :: cs', ss, [], _, h2, _, _, _ => by simp at h2
  | c :: cs, [], [], _, h1, _, _, _, _ => by simp at h1
  | [], c' :: cs', ss, o' :: ss', _, _, _, hb', h => by
    have := hb' c' List.mem_cons_self
    cases c' <;> simp [Val.isBlock] at this
    simp [gesArm, childGE] at h
  | c :: cs, [], o :: ss, ss', _, _, hb, _, h => by
    have := hb c List.mem_cons_self
    cases c <;> simp [Val.isBlock] at this
    simp [gesArm, childGE] at h
  | c :: cs, c' :: cs', [], _, h1, _, _, _, _ => by simp at h1
  | c :: cs, c' :: cs', _ :: _, [], _, h2, _, _, _ => by simp at h2
  | c :: cs, c' :: cs', o :: ss, o' :: ss', h1, h2, hb, hb', h => by
    have hc := hb c List.mem_cons_self
    have hc' := hb' c' List.mem_cons_self
    cases c with
    | block cty ci cf cch ccm =>
      cases c' with
      | block cty' ci' cf' cch' ccm' =>
        simp only [gesArm, childGE, List.cons_append, List.nil_append, List.map_cons, List.cons.injEq, OT.node.injEq,
          true_and] at h
        obtain ⟨⟨hty, hso, heo, hf, hits⟩, htl⟩ := h
        obtain ⟨hl, hrec⟩ := gesArm_eq symbols k a cs cs' ss ss' (by simpa using h1) (by simpa using h2)
          (fun x hx => hb x (List.mem_cons_of_mem _ hx)) (fun x hx => hb' x (List.mem_cons_of_mem _ hx)) htl
        refine ⟨by simp [hl], ?_⟩
        intro j x x' y y' hx hx' hy hy'
        cases j with
        | zero =>
          simp only [List.getElem?_cons_zero, Option.some.injEq] at hx hx' hy hy'
          subst hx; subst hx'; subst hy; subst hy'
          exact ⟨hits, hty, hso, heo, hf⟩
        | succ j => exact hrec j x x' y y' (by simpa using hx) (by simpa using hx') (by simpa using hy) (by simpa using hy')
      | ident _ _ => simp [Val.isBlock] at hc'
      | str _ _ => simp [Val.isBlock] at hc'
      | int _ _ _ _ => simp [Val.isBlock] at hc'
      | dbl _ _ => simp [Val.isBlock] at hc'
      | enum _ _ => simp [Val.isBlock] at hc'
      | arr _ => simp [Val.isBlock] at hc'
      | seq _ => simp [Val.isBlock] at hc'
    | ident _ _ => simp [Val.isBlock] at hc
    | str _ _ => simp [Val.isBlock] at hc
    | int _ _ _ _ => simp [Val.isBlock] at hc
    | dbl _ _ => simp [Val.isBlock] at hc
    | enum _ _ => simp [Val.isBlock] at hc
    | arr _ => simp [Val.isBlock] at hc
    | seq _ => simp [Val.isBlock] at hc

theorem cmts_layout : ∀ (cm cm' : List Cmt), (∀ x ∈ cm, x.included = false) → (∀ x ∈ cm', x.included = false) →
    cm.map (fun x => OT.cmt x.text x.startOff) = cm'.map (fun x => OT.cmt x.text x.startOff) →
    cm.map (fun x => (x.text, x.startOff, x.included)) = cm'.map (fun x => (x.text, x.startOff, x.included))
  | [], [], _, _, _ => rfl
  | [], _ :: _, _, _, h => by simp at h
  | _ :: _, [], _, _, h => by simp at h
  | x :: xs, y :: ys, h1, h2, h => by
    simp only [List.map_cons, List.cons.injEq, OT.cmt.injEq] at h ⊢
    obtain ⟨⟨ht1, ht2⟩, htl⟩ := h
    refine ⟨?_, cmts_layout xs ys (fun z hz => h1 z (List.mem_cons_of_mem _ hz))
      (fun z hz => h2 z (List.mem_cons_of_mem _ hz)) htl⟩
    rw [ht1, ht2, h1 x List.mem_cons_self, h2 y List.mem_cons_self]

/-- **two values in written order with the same items are equal up to layout bookkeeping** -/
theorem layoutEq_of_inOrder (e : Env) {v : Val} {items : List OT} (h : InOrder e v items) :
    ∀ {v' : Val}, InOrder e v' items → Compat v v' → LayoutEq v v' := by
  induction h with
  | @mk ty info fields children comments isB its arms ht items hl sub hlen hsub hsub2 harm hcmo hblk hcm hnil hfid hch ih =>
    intro v' h' hcompat
    cases h' with
    | @mk ty' info' fields' children' comments' isB' its' arms' ht' _ hl' sub' hlen' hsub' hsub2' harm' hcmo' hblk' hcm' hnil' hfid' hch' =>
      obtain ⟨rfl, hso, heo, hf⟩ := hcompat
      rw [hl] at hl'
      simp only [Option.some.injEq, TyDef.block.injEq] at hl'
      obtain ⟨rfl, rfl, rfl, rfl⟩ := hl'
      cases ht with
      | false =>
        obtain ⟨rfl, rfl⟩ := hnil rfl
        obtain ⟨rfl, rfl⟩ := hnil' rfl
        exact LayoutEq.block hso heo (by rw [hfid, hfid']) hf rfl (by simp) (by simp) rfl
      | true =>
        have hl1 := hlen rfl
        have hl2 := hlen' rfl
        have key : ∀ (k : Nat) (cs cs' : List Val), children[k]? = some cs → children'[k]? = some cs' →
            cs.length = cs'.length ∧ ∀ (j : Nat) (c c' : Val), cs[j]? = some c → cs'[j]? = some c' → LayoutEq c c' := by
          intro k cs cs' hk hk'
          have hklt : k < arms.length := by rw [← hl1]; exact (List.getElem?_eq_some_iff.1 hk).1
          obtain ⟨a, ha⟩ : ∃ a, arms[k]? = some a := ⟨arms[k], List.getElem?_eq_getElem hklt⟩
          obtain ⟨ss, hss⟩ : ∃ ss, sub[k]? = some ss := ⟨sub[k]'(by rw [hsub, hl1]; exact hklt), List.getElem?_eq_getElem _⟩
          obtain ⟨ss', hss'⟩ : ∃ ss', sub'[k]? = some ss' := ⟨sub'[k]'(by rw [hsub', hl2]; exact hklt), List.getElem?_eq_getElem _⟩
          have e1 := harm rfl k a cs ss ha hk hss
          have e2 := harm' rfl k a cs' ss' ha hk' hss'
          obtain ⟨hlen3, hpt⟩ := gesArm_eq e.symbols k a cs cs' ss ss' (hsub2 k cs ss hk hss) (hsub2' k cs' ss' hk' hss')
            (hblk cs (List.mem_of_getElem? hk)) (hblk' cs' (List.mem_of_getElem? hk')) (e1.trans e2.symm)
          refine ⟨hlen3, fun j c c' hc hc' => ?_⟩
          have hjl : j < cs.length := (List.getElem?_eq_some_iff.1 hc).1
          obtain ⟨o, ho⟩ : ∃ o, ss[j]? = some o := ⟨ss[j]'(by rw [hsub2 k cs ss hk hss]; exact hjl), List.getElem?_eq_getElem _⟩
          obtain ⟨o', ho'⟩ : ∃ o', ss'[j]? = some o' :=
            ⟨ss'[j]'(by rw [hsub2' k cs' ss' hk' hss', ← hlen3]; exact hjl), List.getElem?_eq_getElem _⟩
          obtain ⟨rfl, hcomp⟩ := hpt j c c' o o' hc hc' ho ho'
          exact ih k j cs ss c o hk hss hc ho (hch' k j cs' ss' c' o hk' hss' hc' ho') hcomp
        refine LayoutEq.block hso heo (by rw [hfid, hfid']) hf (by rw [hl1, hl2])
          (fun k cs cs' hk hk' => (key k cs cs' hk hk').1)
          (fun k j cs cs' c c' hk hk' hc hc' => (key k cs cs' hk hk').2 j c c' hc hc') ?_
        have e1 := hcmo rfl
        have e2 := hcmo' rfl
        have e3 : comments.map (fun cm => OT.cmt cm.text cm.startOff) = comments'.map (fun cm => OT.cmt cm.text cm.startOff) :=
          e1.trans e2.symm
        exact cmts_layout comments comments' hcm hcm' e3

end A2l.Tree
