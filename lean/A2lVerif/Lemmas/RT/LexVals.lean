import A2lVerif.Lemmas.RT.LexToks
import A2lVerif.Lemmas.RT.Canon
/-! # C01: lexability of the written token stream from conditions on the values (ordered tree level) -/
namespace A2l.Tree
open A2l.Lex A2l.Sc

/-! ## printed integers are number tokens -/

theorem mem_go (b : Nat) (digit : Nat → Char) (hb : 0 < b) (P : Char → Prop) (hd : ∀ d, d < b → P (digit d)) :
    ∀ (fuel n : Nat) (acc : List Char), (∀ c ∈ acc, P c) → ∀ c ∈ natToDigits.go b digit fuel n acc, P c := by
  intro fuel
  induction fuel with
  | zero => intro n acc h; rw [natToDigits.go]; exact h
  | succ fuel ih =>
    intro n acc h
    rw [natToDigits.go]
    split
    · rename_i hlt
      intro c hc
      rcases List.mem_cons.1 hc with rfl | hc
      · exact hd n hlt
      · exact h c hc
    · apply ih
      intro c hc
      rcases List.mem_cons.1 hc with rfl | hc
      · exact hd _ (Nat.mod_lt _ hb)
      · exact h c hc

theorem mem_natToDigits (b : Nat) (digit : Nat → Char) (hb : 2 ≤ b) (P : Char → Prop) (hd : ∀ d, d < b → P (digit d))
    (n : Nat) : ∀ c ∈ natToDigits b digit n, P c := by
  unfold natToDigits
  rw [if_neg (by omega)]
  exact mem_go b digit (by omega) P hd _ _ _ (by simp)

/-- a decimal digit / an upper-case hex digit: ASCII, a "number character", not a letter-or-underscore start … -/
def DigitLike (c : Char) : Prop := IsAscii c ∧ isNumChar (asciiB c) = true

theorem decDigit_like : ∀ d, d < 10 → DigitLike (Char.ofNat (48 + d)) ∧ (isAlpha (asciiB (Char.ofNat (48 + d))) || asciiB (Char.ofNat (48 + d)) == 95) = false := by
  have : ∀ d : Fin 10, DigitLike (Char.ofNat (48 + d.val)) ∧
      (isAlpha (asciiB (Char.ofNat (48 + d.val))) || asciiB (Char.ofNat (48 + d.val)) == 95) = false := by
    unfold DigitLike; decide
  intro d h; exact this ⟨d, h⟩

theorem hexDigit_like : ∀ d, d < 16 → DigitLike (hexDigitUpper d) := by
  have : ∀ d : Fin 16, DigitLike (hexDigitUpper d.val) := by unfold DigitLike; decide
  intro d h; exact this ⟨d, h⟩

theorem numText_of (c : Char) (cs : List Char) (hc : DigitLike c)
    (hf : (isAlpha (asciiB c) || asciiB c == 95) = false) (hcs : ∀ x ∈ cs, DigitLike x)
    (hne : c :: cs ≠ ['-'] ∧ c :: cs ≠ ['.'] ∧ c :: cs ≠ ['0', 'x']) : NumText (c :: cs) := by
  refine ⟨c, cs, rfl, ?_, hf, by simp [hc.2], fun x hx => (hcs x hx).2, hne.1, hne.2.1, hne.2.2⟩
  intro x hx
  rcases List.mem_cons.1 hx with rfl | hx
  · exact hc.1
  · exact (hcs x hx).1

/-- **every integer the writer prints is read back as one number token** -/
theorem numText_printInt (t : IntTy) (v : Int) (hex : Bool) : NumText (printInt t v hex) := by
  unfold printInt
  cases hex with
  | true =>
    simp only [if_true]
    have hd := mem_natToDigits 16 hexDigitUpper (by omega) DigitLike hexDigit_like
      (if v < 0 then (v + ((2 ^ t.bits : Nat) : Int)).toNat else v.toNat)
    have hne := natToDigits_ne_nil 16 hexDigitUpper (by omega)
      (if v < 0 then (v + ((2 ^ t.bits : Nat) : Int)).toNat else v.toNat)
    refine numText_of '0' _ (by unfold DigitLike; decide) (by decide) ?_ ⟨by simp, by simp, ?_⟩
    · intro x hx
      rcases List.mem_cons.1 hx with rfl | hx
      · unfold DigitLike; decide
      · exact hd x hx
    · intro h
      simp only [List.cons.injEq, true_and] at h
      exact hne h
  | false =>
    simp only [Bool.false_eq_true, if_false, showDec]
    split
    · have hd := mem_natToDigits 10 (fun d => Char.ofNat (48 + d)) (by omega) DigitLike (fun d h => (decDigit_like d h).1) v.natAbs
      have hne := natToDigits_ne_nil 10 (fun d => Char.ofNat (48 + d)) (by omega) v.natAbs
      refine numText_of '-' _ (by unfold DigitLike; decide) (by decide) hd ⟨?_, by simp, by simp⟩
      intro h
      simp only [List.cons.injEq, true_and] at h
      exact hne h
    · have hd := mem_natToDigits 10 (fun d => Char.ofNat (48 + d)) (by omega)
        (fun c => DigitLike c ∧ (isAlpha (asciiB c) || asciiB c == 95) = false ∧ c ≠ '-' ∧ c ≠ '.')
        (fun d h => by
          have : ∀ d : Fin 10, DigitLike (Char.ofNat (48 + d.val)) ∧
              (isAlpha (asciiB (Char.ofNat (48 + d.val))) || asciiB (Char.ofNat (48 + d.val)) == 95) = false ∧
              Char.ofNat (48 + d.val) ≠ '-' ∧ Char.ofNat (48 + d.val) ≠ '.' := by unfold DigitLike; decide
          exact this ⟨d, h⟩) v.toNat
      have hne := natToDigits_ne_nil 10 (fun d => Char.ofNat (48 + d)) (by omega) v.toNat
      obtain ⟨c, cs, hcs⟩ := List.exists_cons_of_ne_nil hne
      rw [hcs] at hd ⊢
      have h0 := hd c List.mem_cons_self
      refine numText_of c cs h0.1 h0.2.1 (fun x hx => (hd x (List.mem_cons_of_mem _ hx)).1) ⟨?_, ?_, ?_⟩
      · intro h; simp only [List.cons.injEq] at h; exact h0.2.2.1 h.1
      · intro h; simp only [List.cons.injEq] at h; exact h0.2.2.2 h.1
      · intro h
        simp only [List.cons.injEq] at h
        have := (hd 'x' (by rw [h.2]; simp)).2.1
        exact absurd this (by decide)

/-! ## streams with a known successor -/

/-- `StreamLex` for a part of a stream: `next` = the token that follows the part -/
def StreamLexN : Option WTok → List WTok → Option WTok → Prop
  | _, [], _ => True
  | prev, w :: rest, next =>
    TokLex w ∧
    (w.ty = 0 → (∃ p, prev = some p ∧ p.ty = 1) → w.text ≠ "A2ML".toList) ∧
    (w.ty = 6 → isLineCmt w.text = true → ∀ w', (rest.head? <|> next) = some w' → 1 ≤ w'.off) ∧
    StreamLexN (some w) rest next

theorem streamLex_of_N : ∀ (ws : List WTok) (prev : Option WTok), StreamLexN prev ws none → StreamLex prev ws
  | [], _, _ => trivial
  | w :: rest, prev, ⟨h1, h2, h3, h4⟩ =>
    ⟨h1, h2, fun h6 hl w' rest' hr => h3 h6 hl w' (by rw [hr]; rfl), streamLex_of_N rest (some w) h4⟩

theorem streamLexN_append : ∀ (a b : List WTok) (prev next : Option WTok),
    StreamLexN prev a (b.head? <|> next) → StreamLexN (a.getLast? <|> prev) b next → StreamLexN prev (a ++ b) next
  | [], b, prev, next, _, hb => by simpa using hb
  | w :: rest, b, prev, next, ⟨h1, h2, h3, h4⟩, hb => by
    refine ⟨h1, h2, ?_, ?_⟩
    · intro h6 hl w' hw'
      apply h3 h6 hl w'
      cases rest with
      | nil => simpa using hw'
      | cons r rs => simpa using hw'
    · apply streamLexN_append rest b (some w) next h4
      cases rest with
      | nil => simpa using hb
      | cons r rs =>
        have e1 : (w :: r :: rs).getLast? = some ((r :: rs).getLast (List.cons_ne_nil _ _)) := by
          rw [List.getLast?_cons_cons, List.getLast?_eq_getLast (List.cons_ne_nil r rs)]
        have e2 : (r :: rs).getLast? = some ((r :: rs).getLast (List.cons_ne_nil _ _)) :=
          List.getLast?_eq_getLast (List.cons_ne_nil r rs)
        rw [e1] at hb; rw [e2]; exact hb

/-- tokens that are neither comments nor `/begin`, behind a token that is not `/begin` -/
theorem streamLexN_plain : ∀ (ts : List WTok) (prev next : Option WTok), (∀ w ∈ ts, TokLex w ∧ w.ty ≠ 6 ∧ w.ty ≠ 1) →
    (∀ p, prev = some p → p.ty ≠ 1) → StreamLexN prev ts next
  | [], _, _, _, _ => trivial
  | w :: rest, prev, next, h, hp => by
    obtain ⟨hw, h6, h1⟩ := h w List.mem_cons_self
    refine ⟨hw, ?_, fun h => absurd h h6, streamLexN_plain rest (some w) next
      (fun x hx => h x (List.mem_cons_of_mem _ hx)) (fun p hp' => by cases hp'; exact h1)⟩
    intro _ ⟨p, hpp, hp1⟩
    exact absurd hp1 (hp p hpp)

/-! ## conditions on the values -/

/-- scalar parameters whose token is read back: identifiers and enum values are `IdentText`, float texts `NumText`
    (integers and strings always are) -/
def ScalarLex : Val → Prop
  | .ident s _ => IdentText s
  | .enum s _ => IdentText s
  | .dbl s _ => NumText s
  | _ => True

def ElemLex : Val → Prop
  | .block _ _ fields _ _ => ∀ f ∈ fields, ScalarLex f
  | v => ScalarLex v

def FieldLex : Val → Prop
  | .arr vs => ∀ v ∈ vs, ElemLex v
  | .seq vs => ∀ v ∈ vs, ElemLex v
  | v => ElemLex v

theorem scalarToks_lex (ind : Nat) (v : Val) (h : ScalarLex v) : ∀ w ∈ scalarToks ind v, TokLex w ∧ w.ty ≠ 6 ∧ w.ty ≠ 1 := by
  intro w hw
  cases v <;> simp only [scalarToks, List.mem_singleton, List.not_mem_nil] at hw
  case ident s off => subst hw; exact ⟨h, by simp, by simp⟩
  case enum s off => subst hw; exact ⟨h, by simp, by simp⟩
  case str s off => subst hw; exact ⟨⟨s, rfl⟩, by simp, by simp⟩
  case int i hex off wd => subst hw; exact ⟨numText_printInt _ _ _, by simp, by simp⟩
  case dbl s off => subst hw; exact ⟨h, by simp, by simp⟩

theorem elemToks_lex (ind : Nat) (v : Val) (h : ElemLex v) : ∀ w ∈ elemToks ind v, TokLex w ∧ w.ty ≠ 6 ∧ w.ty ≠ 1 := by
  intro w hw
  cases v with
  | block ty info fields ch cm =>
    simp only [elemToks, List.mem_flatMap] at hw
    obtain ⟨f, hf, hwf⟩ := hw
    exact scalarToks_lex ind f (h f hf) w hwf
  | ident s o => exact scalarToks_lex ind (.ident s o) h w hw
  | str s o => exact scalarToks_lex ind (.str s o) h w hw
  | int a b o wd => exact scalarToks_lex ind (.int a b o wd) h w hw
  | dbl s o => exact scalarToks_lex ind (.dbl s o) h w hw
  | enum s o => exact scalarToks_lex ind (.enum s o) h w hw
  | arr vs => exact scalarToks_lex ind (.arr vs) h w hw
  | seq vs => exact scalarToks_lex ind (.seq vs) h w hw

theorem fieldToks_lex (ind : Nat) (v : Val) (h : FieldLex v) : ∀ w ∈ fieldToks ind v, TokLex w ∧ w.ty ≠ 6 ∧ w.ty ≠ 1 := by
  intro w hw
  cases v with
  | arr vs =>
    simp only [fieldToks, List.mem_flatMap] at hw
    obtain ⟨x, hx, hwx⟩ := hw
    exact elemToks_lex ind x (h x hx) w hwx
  | seq vs =>
    simp only [fieldToks, List.mem_flatMap] at hw
    obtain ⟨x, hx, hwx⟩ := hw
    exact elemToks_lex ind x (h x hx) w hwx
  | block ty info fields ch cm => exact elemToks_lex ind (.block ty info fields ch cm) h w hw
  | ident s o => exact elemToks_lex ind (.ident s o) h w hw
  | str s o => exact elemToks_lex ind (.str s o) h w hw
  | int a b o wd => exact elemToks_lex ind (.int a b o wd) h w hw
  | dbl s o => exact elemToks_lex ind (.dbl s o) h w hw
  | enum s o => exact elemToks_lex ind (.enum s o) h w hw

theorem fieldsToks_lex (ind : Nat) (fs : List Val) (h : ∀ f ∈ fs, FieldLex f) :
    ∀ w ∈ fieldsToks ind fs, TokLex w ∧ w.ty ≠ 6 ∧ w.ty ≠ 1 := by
  intro w hw
  simp only [fieldsToks, List.mem_flatMap] at hw
  obtain ⟨f, hf, hwf⟩ := hw
  exact fieldToks_lex ind f (h f hf) w hwf

mutual
/-- lexability of the token stream of an ordered tree, as conditions on the tree: tags and identifier values are
    `IdentText`, the tag of a block is not `A2ML`, float texts are `NumText`, comments are `CommentText`, and a line
    comment is followed by a token with a line break in front of it (`next` = the token behind the tree) -/
def OT.lex (ind : Nat) : OT → Option WTok → Prop
  | .node _ tag blk _ _ eo fields items, next =>
    IdentText tag ∧ (blk = true → tag ≠ "A2ML".toList) ∧ (∀ f ∈ fields, FieldLex f) ∧
      OT.lexL (ind + 1) items (if blk then some ⟨2, endText, eo, ind⟩ else next)
  | .cmt text _, next => CommentText text ∧ (isLineCmt text = true → ∀ w', next = some w' → 1 ≤ w'.off)
def OT.lexL (ind : Nat) : List OT → Option WTok → Prop
  | [], _ => True
  | x :: xs, next => OT.lex ind x ((OT.toksL ind xs).head? <|> next) ∧ OT.lexL ind xs next
end

/-- the last token of the list, if any, is not `/begin` -/
def NoBeginLast (l : List WTok) : Prop := ∀ w, l.getLast? = some w → w.ty ≠ 1

theorem NoBeginLast.append {a b : List WTok} (hb : NoBeginLast b) (ha : b = [] → NoBeginLast a) : NoBeginLast (a ++ b) := by
  intro w hw
  by_cases hbn : b = []
  · subst hbn; simp at hw; exact ha rfl w hw
  · rw [List.getLast?_append, List.getLast?_eq_getLast hbn] at hw
    exact hb w (by rw [List.getLast?_eq_getLast hbn]; simpa using hw)

theorem noBeginLast_of_all {l : List WTok} (h : ∀ w ∈ l, w.ty ≠ 1) : NoBeginLast l := by
  intro w hw
  exact h w (List.mem_of_getLast? hw)

theorem fieldsToks_ty (ind : Nat) (fs : List Val) : ∀ w ∈ fieldsToks ind fs, w.ty ≠ 1 := by
  intro w hw
  simp only [fieldsToks, List.mem_flatMap] at hw
  obtain ⟨f, _, hwf⟩ := hw
  have sc : ∀ (v : Val), ∀ w ∈ scalarToks ind v, w.ty ≠ 1 := by
    intro v w hw
    cases v <;> simp only [scalarToks, List.mem_singleton, List.not_mem_nil] at hw <;> subst hw <;> simp
  have el : ∀ (v : Val), ∀ w ∈ elemToks ind v, w.ty ≠ 1 := by
    intro v w hw
    cases v with
    | block ty info fields ch cm =>
      simp only [elemToks, List.mem_flatMap] at hw
      obtain ⟨x, _, hx⟩ := hw; exact sc x w hx
    | ident s o => exact sc (.ident s o) w hw
    | str s o => exact sc (.str s o) w hw
    | int a b o wd => exact sc (.int a b o wd) w hw
    | dbl s o => exact sc (.dbl s o) w hw
    | enum s o => exact sc (.enum s o) w hw
    | arr vs => exact sc (.arr vs) w hw
    | seq vs => exact sc (.seq vs) w hw
  cases f with
  | arr vs => simp only [fieldToks, List.mem_flatMap] at hwf; obtain ⟨x, _, hx⟩ := hwf; exact el x w hx
  | seq vs => simp only [fieldToks, List.mem_flatMap] at hwf; obtain ⟨x, _, hx⟩ := hwf; exact el x w hx
  | block ty info fields ch cm => exact el (.block ty info fields ch cm) w hwf
  | ident s o => exact el (.ident s o) w hwf
  | str s o => exact el (.str s o) w hwf
  | int a b o wd => exact el (.int a b o wd) w hwf
  | dbl s o => exact el (.dbl s o) w hwf
  | enum s o => exact el (.enum s o) w hwf

mutual
theorem toks_noBeginLast : ∀ (o : OT) (ind : Nat), NoBeginLast (o.toks ind)
  | .cmt text off, ind => by
    simp only [OT.toks]; exact noBeginLast_of_all (by simp)
  | .node arm tag blk ty so eo fields items, ind => by
    simp only [OT.toks]
    cases blk with
    | true =>
      -- ends with `/end TAG`
      rw [← List.append_assoc, ← List.append_assoc]
      exact NoBeginLast.append (noBeginLast_of_all (by simp [closeToks])) (by simp [closeToks])
    | false =>
      simp only [closeToks, Bool.false_eq_true, if_false, List.append_nil]
      rw [← List.append_assoc]
      refine NoBeginLast.append (toksL_noBeginLast items (ind + 1)) (fun _ => ?_)
      refine NoBeginLast.append (noBeginLast_of_all (fieldsToks_ty _ _)) (fun _ => ?_)
      exact noBeginLast_of_all (by simp [headToks])
theorem toksL_noBeginLast : ∀ (xs : List OT) (ind : Nat), NoBeginLast (OT.toksL ind xs)
  | [], _ => by simp only [OT.toksL]; exact noBeginLast_of_all (by simp)
  | x :: xs, ind => by
    simp only [OT.toksL]
    exact NoBeginLast.append (toksL_noBeginLast xs ind) (fun _ => toks_noBeginLast x ind)
end

theorem prev_ok_of {a : List WTok} {prev : Option WTok} (ha : NoBeginLast a) (hp : ∀ p, prev = some p → p.ty ≠ 1) :
    ∀ p, (a.getLast? <|> prev) = some p → p.ty ≠ 1 := by
  intro p hpp
  cases hl : a.getLast? with
  | none => rw [hl] at hpp; exact hp p (by simpa using hpp)
  | some w => rw [hl] at hpp; simp at hpp; subst hpp; exact ha _ hl

mutual
/-- **the token stream of an ordered tree that satisfies the value-level conditions is lexable** -/
theorem lex_toks : ∀ (o : OT) (ind : Nat) (prev next : Option WTok), OT.lex ind o next →
    (∀ p, prev = some p → p.ty ≠ 1) → StreamLexN prev (o.toks ind) next
  | .cmt text off, ind, prev, next, h, _ => by
    simp only [OT.lex] at h
    simp only [OT.toks]
    exact ⟨h.1, (by intro h0; simp at h0), (fun _ hl w' hw' => h.2 hl w' (by simpa using hw')), trivial⟩
  | .node arm tag blk ty so eo fields items, ind, prev, next, h, hp => by
    simp only [OT.lex] at h
    obtain ⟨htag, hA, hf, hitems⟩ := h
    simp only [OT.toks]
    have hhead_last : NoBeginLast (headToks ind tag blk so) := by
      intro w hw
      cases blk <;> simp [headToks] at hw <;> subst hw <;> simp
    have hclose : ∀ w ∈ closeToks ind tag blk eo, TokLex w ∧ w.ty ≠ 6 ∧ w.ty ≠ 1 := by
      intro w hw
      cases blk with
      | false => simp [closeToks] at hw
      | true =>
        simp only [closeToks, if_true, List.mem_cons, List.not_mem_nil, or_false] at hw
        rcases hw with rfl | rfl
        · exact ⟨rfl, by simp, by simp⟩
        · exact ⟨htag, by simp, by simp⟩
    have hnext : (if blk = true then some (⟨2, endText, eo, ind⟩ : WTok) else next) =
        ((closeToks ind tag blk eo).head? <|> next) := by
      cases blk <;> simp [closeToks]
    rw [hnext] at hitems
    -- the head
    refine streamLexN_append _ _ prev next ?_ ?_
    · cases blk with
      | true =>
        simp only [headToks, if_true]
        refine ⟨rfl, (by intro h0; simp at h0), (by intro h0; simp at h0), htag, ?_, (by intro h0; simp at h0), trivial⟩
        intro _ _; exact hA rfl
      | false =>
        simp only [headToks, Bool.false_eq_true, if_false]
        refine ⟨htag, ?_, (by intro h0; simp at h0), trivial⟩
        intro _ ⟨p, hpp, hp1⟩; exact absurd hp1 (hp p hpp)
    · -- parameters, items, end tag
      have hp2 := prev_ok_of hhead_last hp
      refine streamLexN_append _ _ _ next (streamLexN_plain _ _ _ (fieldsToks_lex _ _ hf) hp2) ?_
      have hp3 := prev_ok_of (noBeginLast_of_all (fieldsToks_ty (ind + 1) fields)) hp2
      refine streamLexN_append _ _ _ next (lex_toksL items (ind + 1) _ _ hitems hp3) ?_
      exact streamLexN_plain _ _ _ hclose (prev_ok_of (toksL_noBeginLast items (ind + 1)) hp3)
theorem lex_toksL : ∀ (xs : List OT) (ind : Nat) (prev next : Option WTok), OT.lexL ind xs next →
    (∀ p, prev = some p → p.ty ≠ 1) → StreamLexN prev (OT.toksL ind xs) next
  | [], _, _, _, _, _ => by simp only [OT.toksL]; trivial
  | x :: xs, ind, prev, next, h, hp => by
    simp only [OT.lexL] at h
    simp only [OT.toksL]
    exact streamLexN_append _ _ prev next (lex_toks x ind prev _ h.1 hp)
      (lex_toksL xs ind _ next h.2 (prev_ok_of (toks_noBeginLast x ind) hp))
end

/-- the token stream of a tree that satisfies the value-level conditions is lexable -/
theorem streamLex_of_lexL (items : List OT) (h : OT.lexL 0 items none) : StreamLex none (OT.toksL 0 items) :=
  streamLex_of_N _ _ (lex_toksL items 0 none none h (fun _ hp => by cases hp))

/-! ## after the `fix:` commit a line comment is followed by a line break -/

theorem enc_head_slash {c : Char} {cs : List Char} (h : (encL (c :: cs)).head? = some 47) : c = '/' := by
  rw [encL_cons] at h
  by_cases ha : IsAscii c
  · rw [enc_ascii ha] at h
    simp only [List.cons_append, List.nil_append, List.head?_cons, Option.some.injEq] at h
    exact asciiB_inj ha (by decide) (by rw [h]; rfl)
  · have h128 := enc_nonascii ha
    cases hc : String.utf8EncodeChar c with
    | nil => exact absurd hc (by simp)
    | cons x xs =>
      rw [hc] at h h128
      simp only [List.cons_append, List.head?_cons, Option.some.injEq] at h
      have := h128 x List.mem_cons_self
      rw [h] at this; exact absurd this (by decide)

/-- a comment token's text behind its blanks starts with `/` -/
theorem commentText_rest {t : List Char} (h : CommentText t) : ∃ r, cmtRest t = '/' :: r := by
  have hh := commentText_core_head h
  cases hr : cmtRest t with
  | nil => rw [hr] at hh; simp [encL] at hh
  | cons c cs => rw [hr] at hh; exact ⟨cs, by rw [enc_head_slash hh]⟩

theorem dropWhile_ws_blanks (k : Nat) (r : List Char) :
    (List.replicate k ' ' ++ '/' :: r).dropWhile isRustWs = '/' :: r := by
  induction k with
  | zero => simp [List.dropWhile_cons, isRustWs]
  | succ k ih =>
    rw [List.replicate_succ, List.cons_append, List.dropWhile_cons, if_pos (by decide)]
    exact ih

/-- for comment tokens the writer's line-comment test agrees with the token's kind -/
theorem isLineCommentText_eq {t : List Char} (h : CommentText t) : isLineCommentText t = isLineCmt t := by
  obtain ⟨r, hr⟩ := commentText_rest h
  unfold isLineCommentText isLineCmt
  rw [hr]
  have : t.dropWhile isRustWs = '/' :: r := by
    conv => lhs; rw [cmt_split t, hr]
    exact dropWhile_ws_blanks _ r
  rw [this]
  rfl

def OT.offOf : OT → Nat
  | .node _ _ _ _ so _ _ _ => so
  | .cmt _ off => off

theorem toks_head_off : ∀ (o : OT) (ind : Nat), ∃ w rest, o.toks ind = w :: rest ∧ w.off = o.offOf
  | .cmt text off, ind => ⟨⟨6, text, off, ind⟩, [], by simp [OT.toks], rfl⟩
  | .node arm tag blk ty so eo fields items, ind => by
    cases blk
    · exact ⟨⟨0, tag, so, ind⟩, _, by simp only [OT.toks, headToks, Bool.false_eq_true, if_false, List.cons_append, List.nil_append]; rfl, rfl⟩
    · exact ⟨⟨1, beginText, so, ind⟩, _, by simp only [OT.toks, headToks, if_true, List.cons_append, List.nil_append]; rfl, rfl⟩

mutual
/-- value-level conditions BEFORE the offsets are bumped: as `OT.lex`, but nothing is asked of the offsets behind a line
    comment any more: inside a tagged part the writer bumps the start offset of the next item, and (second `fix:`
    commit, exact `ends_in_line_comment`) the end offset of the enclosing `/end` if the comment is the last item of its
    block (`fixEo_pos_of_last_cmt`). Only the last ROOT item must not be a line comment (`streamLex_of_lexW`). -/
def OT.lexW : OT → Prop
  | .node _ tag blk _ _ _ fields items =>
    IdentText tag ∧ (blk = true → tag ≠ "A2ML".toList) ∧ (∀ f ∈ fields, FieldLex f) ∧ OT.lexWL items ∧
      (blk = false → items = [])
  | .cmt text _ => CommentText text
def OT.lexWL : List OT → Prop
  | [] => True
  | x :: xs => OT.lexW x ∧ OT.lexWL xs
end

theorem bumpOff_true_pos (n : Nat) : 1 ≤ bumpOff true n := by
  unfold bumpOff
  by_cases h : n = 0
  · simp [h]
  · rw [if_neg (by simp [h])]; omega

theorem fixL_head_off (alc : Bool) : ∀ (x : OT) (xs : List OT), ∃ x' xs', OT.fixL alc (x :: xs) = x' :: xs' ∧
    x'.offOf = bumpOff alc x.offOf
  | .cmt text off, xs => ⟨.cmt text (bumpOff alc off), OT.fixL (isLineCommentText text) xs, by simp [OT.fixL], rfl⟩
  | .node arm tag blk ty so eo fields items, xs =>
    ⟨.node arm tag blk ty (bumpOff alc so) (OT.fixEo blk eo fields (OT.fixL false items)) fields (OT.fixL false items),
      OT.fixL false xs, by simp [OT.fixL], rfl⟩

/-- the end offset the writer uses is ≥ 1 if the recorded one is, or if the writer sees a line comment at the end -/
theorem fixEo_pos {blk : Bool} {eo : Nat} {fields : List Val} {items : List OT} (hb : blk = true)
    (h : 1 ≤ eo ∨ OT.endsLC fields items = true) : 1 ≤ OT.fixEo blk eo fields items := by
  unfold OT.fixEo
  split
  · exact Nat.le_refl 1
  · rename_i hn
    rcases h with h | h
    · exact h
    · by_cases h0 : eo = 0
      · exact absurd ⟨hb, h0, h⟩ hn
      · omega

theorem fixEo_of_pos {blk : Bool} {eo : Nat} {fields : List Val} {items : List OT} (h : 1 ≤ eo) :
    OT.fixEo blk eo fields items = eo := by
  unfold OT.fixEo
  rw [if_neg (by intro h'; omega)]

theorem fixEo_kw {eo : Nat} {fields : List Val} {items : List OT} : OT.fixEo false eo fields items = eo := by
  simp [OT.fixEo]

theorem toksL_append (ind : Nat) : ∀ (xs ys : List OT), OT.toksL ind (xs ++ ys) = OT.toksL ind xs ++ OT.toksL ind ys
  | [], _ => by simp [OT.toksL]
  | x :: xs, ys => by simp only [List.cons_append, OT.toksL, toksL_append ind xs ys, List.append_assoc]

theorem le_bumpOff (alc : Bool) (n : Nat) : n ≤ bumpOff alc n := by
  unfold bumpOff; split <;> omega

/-- the last item of the bumped list is the bumped last item -/
theorem fixL_getLast_cmt {text : List Char} {off : Nat} : ∀ (xs : List OT) (alc : Bool),
    xs.getLast? = some (.cmt text off) → ∃ off', (OT.fixL alc xs).getLast? = some (.cmt text off') ∧ off ≤ off'
  | [], _, h => by simp at h
  | [.cmt t o], alc, h => by
    simp only [List.getLast?_singleton, Option.some.injEq, OT.cmt.injEq] at h
    obtain ⟨rfl, rfl⟩ := h
    exact ⟨bumpOff alc o, by simp [OT.fixL], le_bumpOff alc o⟩
  | [.node _ _ _ _ _ _ _ _], _, h => by simp at h
  | .cmt t o :: y :: ys, alc, h => by
    rw [List.getLast?_cons_cons] at h
    obtain ⟨off', h1, h2⟩ := fixL_getLast_cmt (y :: ys) (isLineCommentText t) h
    obtain ⟨y', ys', hfix, -⟩ := fixL_head_off (isLineCommentText t) y ys
    refine ⟨off', ?_, h2⟩
    rw [OT.fixL, hfix, List.getLast?_cons_cons, ← hfix]; exact h1
  | .node arm tag blk ty so eo fields items :: y :: ys, alc, h => by
    rw [List.getLast?_cons_cons] at h
    obtain ⟨off', h1, h2⟩ := fixL_getLast_cmt (y :: ys) false h
    obtain ⟨y', ys', hfix, -⟩ := fixL_head_off false y ys
    refine ⟨off', ?_, h2⟩
    rw [OT.fixL, hfix, List.getLast?_cons_cons, ← hfix]; exact h1

theorem streamLex_of_N' : ∀ (ws : List WTok) (prev next : Option WTok), StreamLexN prev ws next → StreamLex prev ws
  | [], _, _, _ => trivial
  | w :: rest, prev, next, ⟨h1, h2, h3, h4⟩ =>
    ⟨h1, h2, fun h6 hl w' rest' hr => h3 h6 hl w' (by rw [hr]; rfl), streamLex_of_N' rest (some w) next h4⟩

/-- the kinds of parameter tokens: identifier, string, number -/
theorem fieldsToks_tys (ind : Nat) (fs : List Val) : ∀ w ∈ fieldsToks ind fs, w.ty = 0 ∨ w.ty = 4 ∨ w.ty = 5 := by
  intro w hw
  simp only [fieldsToks, List.mem_flatMap] at hw
  obtain ⟨f, _, hwf⟩ := hw
  have sc : ∀ (v : Val), ∀ w ∈ scalarToks ind v, w.ty = 0 ∨ w.ty = 4 ∨ w.ty = 5 := by
    intro v w hw
    cases v <;> simp only [scalarToks, List.mem_singleton, List.not_mem_nil] at hw <;> subst hw <;> simp
  have el : ∀ (v : Val), ∀ w ∈ elemToks ind v, w.ty = 0 ∨ w.ty = 4 ∨ w.ty = 5 := by
    intro v w hw
    cases v with
    | block ty info fields ch cm =>
      simp only [elemToks, List.mem_flatMap] at hw
      obtain ⟨x, _, hx⟩ := hw; exact sc x w hx
    | ident s o => exact sc (.ident s o) w hw
    | str s o => exact sc (.str s o) w hw
    | int a b o wd => exact sc (.int a b o wd) w hw
    | dbl s o => exact sc (.dbl s o) w hw
    | enum s o => exact sc (.enum s o) w hw
    | arr vs => exact sc (.arr vs) w hw
    | seq vs => exact sc (.seq vs) w hw
  cases f with
  | arr vs => simp only [fieldToks, List.mem_flatMap] at hwf; obtain ⟨x, _, hx⟩ := hwf; exact el x w hx
  | seq vs => simp only [fieldToks, List.mem_flatMap] at hwf; obtain ⟨x, _, hx⟩ := hwf; exact el x w hx
  | block ty info fields ch cm => exact el (.block ty info fields ch cm) w hwf
  | ident s o => exact el (.ident s o) w hwf
  | str s o => exact el (.str s o) w hwf
  | int a b o wd => exact el (.int a b o wd) w hwf
  | dbl s o => exact el (.dbl s o) w hwf
  | enum s o => exact el (.enum s o) w hwf

theorem isLC_of_ty {w : WTok} (h : w.ty ≠ 6) : w.isLC = false := by
  unfold WTok.isLC
  have : (w.ty == 6) = false := by simpa using h
  rw [this, Bool.false_and]

/-- is the last item a `//` comment? -/
def OT.lastLC (items : List OT) : Bool :=
  match items.getLast? with
  | some (.cmt text _) => isLineCmt text
  | _ => false

/-- the last token of an item that is not a comment is not a comment (a keyword has no items) -/
theorem node_last_tok (ind arm : Nat) (tag : List Char) (blk : Bool) (ty so eo : Nat) (fields : List Val) (items : List OT)
    (hkw : blk = false → items = []) :
    ∀ w, ((OT.node arm tag blk ty so eo fields items).toks ind).getLast? = some w → w.ty ≠ 6 := by
  intro w hw
  cases blk with
  | true =>
    simp only [OT.toks, closeToks, if_true] at hw
    rw [← List.append_assoc, ← List.append_assoc, List.getLast?_append] at hw
    simp at hw
    subst hw; simp
  | false =>
    rw [hkw rfl] at hw
    simp only [OT.toks, OT.toksL, closeToks, headToks, Bool.false_eq_true, if_false, List.append_nil] at hw
    have hm := List.mem_of_getLast? hw
    rcases List.mem_append.1 hm with h | h
    · simp only [List.mem_singleton] at h; subst h; simp
    · rcases fieldsToks_tys _ _ w h with h | h | h <;> omega

/-- **the last token of a block's content** is a `//` comment iff the last item is one -/
theorem body_last_isLC (fields : List Val) (items : List OT)
    (hkw : ∀ arm tag blk ty so eo f its, items.getLast? = some (.node arm tag blk ty so eo f its) → blk = false → its = []) :
    (match (fieldsToks 0 fields ++ OT.toksL 0 items).getLast? with | some w => w.isLC | none => false) =
      OT.lastLC items := by
  rcases List.eq_nil_or_concat items with rfl | ⟨init, x, rfl⟩
  · simp only [OT.toksL, List.append_nil, OT.lastLC, List.getLast?_nil]
    cases hl : (fieldsToks 0 fields).getLast? with
    | none => rfl
    | some w =>
      have := fieldsToks_tys 0 fields w (List.mem_of_getLast? hl)
      exact isLC_of_ty (by omega)
  · rw [List.concat_eq_append] at hkw ⊢
    have hne : x.toks 0 ≠ [] := by
      obtain ⟨w, rest, h, -⟩ := toks_head_off x 0
      rw [h]; exact List.cons_ne_nil _ _
    have hlast : (fieldsToks 0 fields ++ OT.toksL 0 (init ++ [x])).getLast? = (x.toks 0).getLast? := by
      rw [toksL_append, ← List.append_assoc]
      simp only [OT.toksL, List.append_nil]
      rw [List.getLast?_append, List.getLast?_eq_some_getLast hne]; rfl
    rw [hlast]
    cases x with
    | cmt text off =>
      simp [OT.toks, OT.lastLC, WTok.isLC]
    | node arm tag blk ty so eo f its =>
      have h1 : OT.lastLC (init ++ [OT.node arm tag blk ty so eo f its]) = false := by simp [OT.lastLC]
      rw [h1, List.getLast?_eq_some_getLast hne]
      exact isLC_of_ty (node_last_tok 0 arm tag blk ty so eo f its
        (hkw arm tag blk ty so eo f its (by simp)) _ (List.getLast?_eq_some_getLast hne))

/-- **`ends_in_line_comment` on the content of a block** whose items are lexable: true iff the last item is a `//`
    comment. (`next`: any token behind the content.) -/
theorem endsLC_of_lexL (fields : List Val) (items : List OT) (next : Option WTok) (hf : ∀ f ∈ fields, FieldLex f)
    (hl : OT.lexL 0 items next)
    (hkw : ∀ arm tag blk ty so eo f its, items.getLast? = some (.node arm tag blk ty so eo f its) → blk = false → its = []) :
    OT.endsLC fields items = OT.lastLC items := by
  have hp0 : ∀ p, (none : Option WTok) = some p → p.ty ≠ 1 := fun _ h => by cases h
  have h1 : StreamLexN none (fieldsToks 0 fields ++ OT.toksL 0 items) next :=
    streamLexN_append _ _ none next (streamLexN_plain _ _ _ (fieldsToks_lex 0 fields hf) hp0)
      (lex_toksL items 0 _ next hl (prev_ok_of (noBeginLast_of_all (fieldsToks_ty 0 fields)) hp0))
  unfold OT.endsLC
  rw [endsInLineComment_stream _ none (streamLex_of_N' _ _ _ h1)]
  exact body_last_isLC fields items hkw

theorem fixL_append : ∀ (xs ys : List OT) (alc : Bool), ∃ alc', OT.fixL alc (xs ++ ys) = OT.fixL alc xs ++ OT.fixL alc' ys
  | [], ys, alc => ⟨alc, by simp [OT.fixL]⟩
  | .cmt text off :: xs, ys, alc => by
    obtain ⟨alc', h⟩ := fixL_append xs ys (isLineCommentText text)
    exact ⟨alc', by simp only [List.cons_append, OT.fixL, h]⟩
  | .node arm tag blk ty so eo fields items :: xs, ys, alc => by
    obtain ⟨alc', h⟩ := fixL_append xs ys false
    exact ⟨alc', by simp only [List.cons_append, OT.fixL, h]⟩

/-- bumping offsets does not change what the last item is -/
theorem lastLC_fixL (items : List OT) (alc : Bool) : OT.lastLC (OT.fixL alc items) = OT.lastLC items := by
  rcases List.eq_nil_or_concat items with rfl | ⟨init, x, rfl⟩
  · simp [OT.fixL]
  · rw [List.concat_eq_append]
    obtain ⟨alc', h⟩ := fixL_append init [x] alc
    rw [h]
    cases x <;> simp [OT.fixL, OT.lastLC]

mutual
theorem lexW_items : ∀ (o : OT), o.lexW → ∀ (ind : Nat) (next : Option WTok),
    (∀ text off, o.itemsOf.getLast? = some (.cmt text off) → isLineCmt text = true → ∀ w', next = some w' → 1 ≤ w'.off) →
    OT.lexL ind (OT.fixL false o.itemsOf) next
  | .node _ _ _ _ _ _ _ items, h, ind, next, hl => by
    simp only [OT.lexW] at h
    exact lexW_list items h.2.2.2.1 ind false next hl
  | .cmt _ _, _, _, _, _ => by simp [OT.itemsOf, OT.fixL, OT.lexL]
/-- **after the `fix:` commit** the value-level conditions need no "line break behind a line comment" inside a tagged
    part: the bumped offsets provide it -/
theorem lexW_list : ∀ (xs : List OT), OT.lexWL xs → ∀ (ind : Nat) (alc : Bool) (next : Option WTok),
    (∀ text off, xs.getLast? = some (.cmt text off) → isLineCmt text = true → ∀ w', next = some w' → 1 ≤ w'.off) →
    OT.lexL ind (OT.fixL alc xs) next
  | [], _, _, _, _, _ => by simp [OT.fixL, OT.lexL]
  | .cmt text off :: xs, h, ind, alc, next, hl => by
    simp only [OT.lexWL, OT.lexW] at h
    simp only [OT.fixL, OT.lexL, OT.lex]
    refine ⟨⟨h.1, ?_⟩, lexW_list xs h.2 ind _ next ?_⟩
    · intro hline w' hw'
      cases xs with
      | nil =>
        simp only [OT.fixL, OT.toksL, List.head?_nil] at hw'
        exact hl text off rfl hline w' (by simpa using hw')
      | cons y ys =>
        obtain ⟨y', ys', hfix, hoff⟩ := fixL_head_off (isLineCommentText text) y ys
        obtain ⟨w, rest, htoks, hwoff⟩ := toks_head_off y' ind
        rw [hfix] at hw'
        simp only [OT.toksL, htoks, List.cons_append, List.head?_cons] at hw'
        have : w' = w := by simpa using hw'.symm
        subst this
        rw [hwoff, hoff, isLineCommentText_eq h.1, hline]
        exact bumpOff_true_pos _
    · intro t o hlast hline w' hw'
      cases xs with
      | nil => simp at hlast
      | cons y ys => exact hl t o (by rw [List.getLast?_cons_cons]; exact hlast) hline w' hw'
  | .node arm tag blk ty so eo fields items :: xs, h, ind, alc, next, hl => by
    simp only [OT.lexWL] at h
    have hnode := h.1
    simp only [OT.lexW] at hnode
    obtain ⟨htag, hA, hf, _, hkw⟩ := hnode
    simp only [OT.fixL, OT.lexL, OT.lex]
    refine ⟨⟨htag, hA, hf, ?_⟩, lexW_list xs h.2 ind false next ?_⟩
    · have := lexW_items (.node arm tag blk ty so eo fields items) h.1 (ind + 1)
        (if blk = true then some ⟨2, endText, OT.fixEo blk eo fields (OT.fixL false items), ind⟩
          else (OT.toksL ind (OT.fixL false xs)).head? <|> next) (by
          intro t o hlast hline w' hw'
          cases hb : blk with
          | true =>
            rw [hb] at hw'; simp only [if_true, Option.some.injEq] at hw'
            subst hw'
            -- the writer sees the comment at the end of the content: the `/end` gets a line break
            have hl0 := lexW_items (.node arm tag blk ty so eo fields items) h.1 0 (some ⟨2, endText, 1, 0⟩)
              (fun _ _ _ _ w' hw' => by cases hw'; exact Nat.le_refl 1)
            simp only [OT.itemsOf] at hl0 hlast
            obtain ⟨off', hlast', -⟩ := fixL_getLast_cmt items false hlast
            have he := endsLC_of_lexL fields _ _ hf hl0 (by
              intro a1 a2 a3 a4 a5 a6 a7 a8 hn
              rw [hlast'] at hn; cases hn)
            refine fixEo_pos rfl (Or.inr ?_)
            rw [he]; simp [OT.lastLC, hlast', hline]
          | false =>
            have := hkw hb
            simp only [OT.itemsOf] at hlast
            rw [this] at hlast; simp at hlast)
      exact this
    · intro t o hlast hline w' hw'
      cases xs with
      | nil => simp at hlast
      | cons y ys => exact hl t o (by rw [List.getLast?_cons_cons]; exact hlast) hline w' hw'
end

/-- value-level lexability of what the writer emits: for `OT.lexWL items` (and no line comment as last root item) the
    emitted stream `OT.toksL 0 (OT.fixL false items)` is lexable -/
theorem streamLex_of_lexW (items : List OT) (h : OT.lexWL items)
    (hlast : ∀ text off, items.getLast? = some (.cmt text off) → isLineCmt text = false) :
    StreamLex none (OT.toksL 0 (OT.fixL false items)) :=
  streamLex_of_lexL _ (lexW_list items h 0 false none (fun t o hl hline => by rw [hlast t o hl] at hline; cases hline))

/-- **`ends_in_line_comment` on the content of a block, as the writer writes it**: for lexable parameters and items it
    is true iff the last item is a `//` comment -/
theorem endsLC_fixL (fields : List Val) (items : List OT) (hf : ∀ f ∈ fields, FieldLex f) (hw : OT.lexWL items) :
    OT.endsLC fields (OT.fixL false items) = OT.lastLC items := by
  have hl := lexW_list items hw 0 false (some ⟨2, endText, 1, 0⟩)
    (fun _ _ _ _ w' hw' => by cases hw'; exact Nat.le_refl 1)
  rw [endsLC_of_lexL fields _ _ hf hl ?_, lastLC_fixL]
  -- a keyword at the end has no items
  intro arm tag blk ty so eo f its hn hb
  rcases List.eq_nil_or_concat items with rfl | ⟨init, x, rfl⟩
  · simp [OT.fixL] at hn
  · rw [List.concat_eq_append] at hn hw
    obtain ⟨alc', h⟩ := fixL_append init [x] false
    rw [h] at hn
    have hx : OT.lexW x := by
      have : ∀ (l : List OT), OT.lexWL (l ++ [x]) → OT.lexW x := by
        intro l
        induction l with
        | nil => intro h0; simp only [List.nil_append, OT.lexWL] at h0; exact h0.1
        | cons y l ih => intro h0; simp only [List.cons_append, OT.lexWL] at h0; exact ih h0.2
      exact this init hw
    cases x with
    | cmt t o => simp [OT.fixL] at hn
    | node a1 a2 a3 a4 a5 a6 a7 a8 =>
      simp only [OT.fixL, List.getLast?_append, List.getLast?_singleton, Option.some_or, Option.some.injEq,
        OT.node.injEq] at hn
      obtain ⟨-, -, rfl, -, -, -, -, rfl⟩ := hn
      simp only [OT.lexW] at hx
      rw [hx.2.2.2.2 hb]; simp [OT.fixL]

/-- **the `/end` behind a `//` comment**: if the last item of a block is a line comment, the writer's end offset is ≥ 1,
    whatever the recorded one is -/
theorem fixEo_pos_of_last_cmt (eo : Nat) (fields : List Val) (items : List OT) (hf : ∀ f ∈ fields, FieldLex f)
    (hw : OT.lexWL items) (h : OT.lastLC items = true) : 1 ≤ OT.fixEo true eo fields (OT.fixL false items) :=
  fixEo_pos rfl (Or.inr (by rw [endsLC_fixL fields items hf hw, h]))

/-- … and otherwise the recorded end offset is used -/
theorem fixEo_of_not_last_cmt (blk : Bool) (eo : Nat) (fields : List Val) (items : List OT) (hf : ∀ f ∈ fields, FieldLex f)
    (hw : OT.lexWL items) (h : OT.lastLC items = false) : OT.fixEo blk eo fields (OT.fixL false items) = eo := by
  unfold OT.fixEo
  rw [endsLC_fixL fields items hf hw, h]
  simp

end A2l.Tree
