import A2lVerif.Lemmas.RT.LexSegs
import A2lVerif.Lemmas.RT.Defs
/-! # C01: the tokenizer on the text of a written token stream (characters → bytes → segments) -/
namespace A2l.Tree
open A2l.Lex A2l.Sc

/-- UTF-8 bytes of a character list -/
def encL (cs : List Char) : List UInt8 := cs.flatMap String.utf8EncodeChar

theorem encL_append (a b : List Char) : encL (a ++ b) = encL a ++ encL b := by simp [encL]
theorem encL_nil : encL [] = [] := rfl
theorem encL_cons (c : Char) (cs : List Char) : encL (c :: cs) = String.utf8EncodeChar c ++ encL cs := by simp [encL]

def IsAscii (c : Char) : Prop := c.val ≤ 127
instance (c : Char) : Decidable (IsAscii c) := by unfold IsAscii; infer_instance

/-- the byte of an ASCII character -/
def asciiB (c : Char) : UInt8 := c.val.toUInt8

theorem enc_ascii {c : Char} (h : IsAscii c) : String.utf8EncodeChar c = [asciiB c] :=
  String.utf8EncodeChar_eq_singleton (Char.utf8Size_eq_one_iff.2 h)

theorem encL_ascii : ∀ (cs : List Char), (∀ c ∈ cs, IsAscii c) → encL cs = cs.map asciiB
  | [], _ => rfl
  | c :: cs, h => by
    rw [encL_cons, enc_ascii (h c List.mem_cons_self), encL_ascii cs (fun x hx => h x (List.mem_cons_of_mem _ hx))]
    rfl

theorem encL_replicate (k : Nat) (c : Char) (h : IsAscii c) : encL (List.replicate k c) = List.replicate k (asciiB c) := by
  rw [encL_ascii _ (fun x hx => by rw [List.eq_of_mem_replicate hx]; exact h)]
  simp

/-- every byte of a non-ASCII character is at least 128 -/
theorem enc_nonascii {c : Char} (h : ¬ IsAscii c) : ∀ x ∈ String.utf8EncodeChar c, 128 ≤ x := by
  have h1 : ¬ c.utf8Size = 1 := fun h' => h (Char.utf8Size_eq_one_iff.1 h')
  have hor : ∀ (a : UInt8), 128 ≤ a ||| 0x80 := by
    intro a
    rw [UInt8.le_iff_toNat_le, UInt8.toNat_or]
    exact Nat.le_trans (by decide) Nat.right_le_or
  have hor2 : ∀ (a : UInt8), 128 ≤ a ||| 0xc0 := by
    intro a
    rw [UInt8.le_iff_toNat_le, UInt8.toNat_or]
    exact Nat.le_trans (by decide) Nat.right_le_or
  have hor3 : ∀ (a : UInt8), 128 ≤ a ||| 0xe0 := by
    intro a
    rw [UInt8.le_iff_toNat_le, UInt8.toNat_or]
    exact Nat.le_trans (by decide) Nat.right_le_or
  have hor4 : ∀ (a : UInt8), 128 ≤ a ||| 0xf0 := by
    intro a
    rw [UInt8.le_iff_toNat_le, UInt8.toNat_or]
    exact Nat.le_trans (by decide) Nat.right_le_or
  rcases Char.utf8Size_eq c with h' | h' | h' | h'
  · exact absurd h' h1
  · rw [String.utf8EncodeChar_eq_cons_cons h']
    intro x hx; simp only [List.mem_cons, List.not_mem_nil, or_false] at hx
    rcases hx with rfl | rfl; exact hor2 _; exact hor _
  · rw [String.utf8EncodeChar_eq_cons_cons_cons h']
    intro x hx; simp only [List.mem_cons, List.not_mem_nil, or_false] at hx
    rcases hx with rfl | rfl | rfl; exact hor3 _; exact hor _; exact hor _
  · rw [String.utf8EncodeChar_eq_cons_cons_cons_cons h']
    intro x hx; simp only [List.mem_cons, List.not_mem_nil, or_false] at hx
    rcases hx with rfl | rfl | rfl | rfl; exact hor4 _; exact hor _; exact hor _; exact hor _

theorem StrBody.plain_append : ∀ (l rest : List UInt8), (∀ x ∈ l, x ≠ 34 ∧ x ≠ 92 ∧ x ≠ 10) → StrBody rest →
    StrBody (l ++ rest)
  | [], _, _, h => h
  | x :: l, rest, hl, h =>
    StrBody.plain x (l ++ rest) (hl x List.mem_cons_self)
      (StrBody.plain_append l rest (fun y hy => hl y (List.mem_cons_of_mem _ hy)) h)

/-- **the body of a written string literal** consists of plain bytes and escape pairs -/
theorem strBody_escape : ∀ (str : List Char), StrBody (encL (escape str))
  | [] => StrBody.nil
  | c :: cs => by
    have ih := strBody_escape cs
    have hcons : escape (c :: cs) = escChar c ++ escape cs := by simp [escape]
    rw [hcons, encL_append]
    by_cases h1 : c = '\''
    · subst h1; exact StrBody.esc 39 _ (by decide) ih
    by_cases h2 : c = '"'
    · subst h2; exact StrBody.esc 34 _ (by decide) ih
    by_cases h3 : c = '\\'
    · subst h3; exact StrBody.esc 92 _ (by decide) ih
    by_cases h4 : c = '\r'
    · subst h4; exact StrBody.esc 114 _ (by decide) ih
    by_cases h5 : c = '\n'
    · subst h5; exact StrBody.esc 110 _ (by decide) ih
    by_cases h6 : c = '\t'
    · subst h6; exact StrBody.esc 116 _ (by decide) ih
    have he : escChar c = [c] := by simp [escChar, h1, h2, h3, h4, h5, h6]
    rw [he]
    apply StrBody.plain_append _ _ _ ih
    by_cases ha : IsAscii c
    · rw [show encL [c] = [asciiB c] by rw [encL_cons, enc_ascii ha]; rfl]
      intro x hx
      simp only [List.mem_singleton] at hx
      subst hx
      have hv : c.val ≤ 127 := ha
      have e : ∀ (n : UInt32), c.val ≠ n → n ≤ 127 → asciiB c ≠ n.toUInt8 := by
        intro n hne hn heq
        apply hne
        unfold asciiB at heq
        have hv1 : c.val.toNat ≤ 127 := UInt32.le_iff_toNat_le.1 hv
        have hn1 : n.toNat ≤ 127 := UInt32.le_iff_toNat_le.1 hn
        have := congrArg UInt8.toNat heq
        simp only [UInt32.toNat_toUInt8] at this
        apply UInt32.toNat_inj.1
        have a1 : c.val.toNat % 256 = c.val.toNat := Nat.mod_eq_of_lt (by omega)
        have a2 : n.toNat % 256 = n.toNat := Nat.mod_eq_of_lt (by omega)
        omega
      have q : ∀ (d : Char), c ≠ d → c.val ≠ d.val := fun d hd hv' => hd (Char.ext hv')
      exact ⟨e 34 (q '"' h2) (by decide), e 92 (q '\\' h3) (by decide), e 10 (q '\n' h5) (by decide)⟩
    · intro x hx
      have := enc_nonascii ha x (by simpa [encL] using hx)
      refine ⟨?_, ?_, ?_⟩ <;> (intro h; subst h; exact absurd this (by decide))

/-! ## tokens the tokenizer reads back -/

/-- text of an identifier token: ASCII identifier characters, the first one a letter or `_` -/
def IdentText (t : List Char) : Prop :=
  ∃ c cs, t = c :: cs ∧ (∀ x ∈ t, IsAscii x ∧ isIdentChar (asciiB x) = true) ∧ (isAlpha (asciiB c) || asciiB c == 95) = true

/-- text of a number token: ASCII, starts with a digit, sign or dot, continues with "number characters" -/
def NumText (t : List Char) : Prop :=
  ∃ c cs, t = c :: cs ∧ (∀ x ∈ t, IsAscii x) ∧ (isAlpha (asciiB c) || asciiB c == 95) = false ∧
    (asciiB c == 45 || isNumChar (asciiB c)) = true ∧ (∀ x ∈ cs, isNumChar (asciiB x) = true) ∧
    t ≠ ['-'] ∧ t ≠ ['.'] ∧ t ≠ ['0', 'x']

/-- the part of a comment token behind its leading blanks -/
def cmtRest (t : List Char) : List Char := t.dropWhile (· = ' ')
def cmtBlanks (t : List Char) : Nat := (t.takeWhile (· = ' ')).length

def isLineCmt (t : List Char) : Bool :=
  match cmtRest t with
  | '/' :: '/' :: _ => true
  | _ => false

/-- text of a comment token: blanks, then `//` up to (not including) a line break, or `/* … */` -/
def CommentText (t : List Char) : Prop :=
  if isLineCmt t then ∃ r, cmtRest t = '/' :: '/' :: r ∧ ∀ c ∈ r, c ≠ '\n'
  else BlockCore (encL (cmtRest t))

/-- a written token that the tokenizer reads back as one token of the same kind and text -/
def TokLex (w : WTok) : Prop :=
  match w.ty with
  | 0 => IdentText w.text
  | 1 => w.text = beginText
  | 2 => w.text = endText
  | 4 => ∃ str, w.text = '"' :: (escape str ++ ['"'])
  | 5 => NumText w.text
  | 6 => CommentText w.text
  | _ => False

/-- the segment of a written token -/
def toSeg (w : WTok) : Seg :=
  if w.ty = 6 then
    ⟨List.replicate w.off 10, cmtBlanks w.text, encL (cmtRest w.text), if isLineCmt w.text then .line else .block⟩
  else
    ⟨encL (addWhitespace w.ind w.off), 0, encL w.text,
      match w.ty with
      | 0 => .ident | 1 => .kbegin | 2 => .kend | 4 => .str (encL (w.text.tail.dropLast)) | _ => .num⟩

theorem takeWhile_blank : ∀ (t : List Char), t.takeWhile (· = ' ') = List.replicate (cmtBlanks t) ' '
  | [] => rfl
  | c :: cs => by
    unfold cmtBlanks
    by_cases h : c = ' '
    · subst h
      have ih := takeWhile_blank cs
      unfold cmtBlanks at ih
      rw [List.takeWhile_cons_of_pos (by simp), List.length_cons, List.replicate_succ, ← ih]
    · rw [List.takeWhile_cons_of_neg (by simp [h])]; rfl

theorem cmt_split (t : List Char) : t = List.replicate (cmtBlanks t) ' ' ++ cmtRest t := by
  rw [← takeWhile_blank, cmtRest, List.takeWhile_append_dropWhile]

theorem asciiB_space : asciiB ' ' = 32 := by decide
theorem asciiB_nl : asciiB '\n' = 10 := by decide

/-- **the bytes of a written token are the bytes of its segment** -/
theorem toSeg_bytes (w : WTok) : (toSeg w).bytes = encL (renderTok w) := by
  unfold toSeg renderTok Seg.bytes
  by_cases h6 : w.ty = 6
  · simp only [h6, if_true]
    rw [encL_append, encL_replicate _ _ (by decide), asciiB_nl]
    conv => rhs; rw [cmt_split w.text, encL_append, encL_replicate _ _ (by decide), asciiB_space]
  · simp only [h6, if_false, encL_append, List.replicate_zero, List.nil_append]

theorem segsBytes_map (ws : List WTok) : segsBytes (ws.map toSeg) = encL (renderToks ws) := by
  induction ws with
  | nil => rfl
  | cons w ws ih => simp only [List.map_cons, segsBytes, toSeg_bytes, ih, renderToks, List.flatMap_cons, encL_append]

/-! ## white space -/

theorem ws_ascii (ind off : Nat) : ∀ c ∈ addWhitespace ind off, c = ' ' ∨ c = '\n' := by
  intro c hc
  unfold addWhitespace at hc
  split at hc
  · simp at hc; exact .inl hc
  · rcases List.mem_append.1 hc with h | h
    · exact .inr (List.eq_of_mem_replicate h)
    · exact .inl (mem_indentBlanks ind c h)

theorem encWs_mem (ind off : Nat) : ∀ x ∈ encL (addWhitespace ind off), x = 32 ∨ x = 10 := by
  rw [encL_ascii _ (fun c hc => by rcases ws_ascii ind off c hc with rfl | rfl <;> decide)]
  intro x hx
  obtain ⟨c, hc, rfl⟩ := List.mem_map.1 hx
  rcases ws_ascii ind off c hc with rfl | rfl
  · exact .inl asciiB_space
  · exact .inr asciiB_nl

theorem encWs_ne_nil (ind off : Nat) : encL (addWhitespace ind off) ≠ [] := by
  unfold addWhitespace
  split
  · simp [encL]
  · rename_i h
    obtain ⟨n, rfl⟩ : ∃ n, off = n + 1 := ⟨off - 1, by omega⟩
    simp [List.replicate_succ, encL]

theorem encWs_head (ind off : Nat) :
    (encL (addWhitespace ind off)).head? = some (if off = 0 then 32 else 10) := by
  unfold addWhitespace
  split
  · rfl
  · rename_i h
    obtain ⟨n, rfl⟩ : ∃ n, off = n + 1 := ⟨off - 1, by omega⟩
    simp only [List.replicate_succ, List.cons_append, encL_cons]
    rfl

theorem isWs_of_ws {x : UInt8} (h : x = 32 ∨ x = 10) : isWs x = true := by
  rcases h with rfl | rfl <;> decide

/-! ## the first byte of a written token -/

theorem blockCore_head? {core : List UInt8} (h : BlockCore core) : core.head? = some 47 := by
  obtain ⟨cs, rfl⟩ := A2l.Lex.blockCore_head h; rfl

theorem commentText_core_head {t : List Char} (h : CommentText t) : (encL (cmtRest t)).head? = some 47 := by
  unfold CommentText at h
  split at h
  · obtain ⟨r, hr, _⟩ := h
    rw [hr, encL_cons]; rfl
  · exact blockCore_head? h

/-- the first byte of a written token with the white space in front of it: a blank, a line break, or the `/` of a
    comment that directly follows its predecessor -/
theorem toSeg_head (w : WTok) (hw : TokLex w) :
    ∃ x, (toSeg w).bytes.head? = some x ∧ (x = 32 ∨ x = 10 ∨ x = 47) ∧ (1 ≤ w.off → x = 10) := by
  unfold toSeg Seg.bytes
  by_cases h6 : w.ty = 6
  · simp only [h6, if_true]
    have hc : CommentText w.text := by unfold TokLex at hw; rw [h6] at hw; exact hw
    have hh := commentText_core_head hc
    by_cases ho : w.off = 0
    · rw [ho]
      by_cases hk : cmtBlanks w.text = 0
      · rw [hk]
        exact ⟨47, by simpa using hh, .inr (.inr rfl), by omega⟩
      · obtain ⟨n, hn⟩ : ∃ n, cmtBlanks w.text = n + 1 := ⟨cmtBlanks w.text - 1, by omega⟩
        rw [hn]
        exact ⟨32, by simp [List.replicate_succ], .inl rfl, by omega⟩
    · obtain ⟨n, hn⟩ : ∃ n, w.off = n + 1 := ⟨w.off - 1, by omega⟩
      rw [hn]
      exact ⟨10, by simp [List.replicate_succ], .inr (.inl rfl), fun _ => rfl⟩
  · simp only [h6, if_false, List.replicate_zero, List.nil_append]
    have hne := encWs_ne_nil w.ind w.off
    have hh := encWs_head w.ind w.off
    refine ⟨if w.off = 0 then 32 else 10, ?_, ?_, ?_⟩
    · obtain ⟨a, as, hcons⟩ := List.exists_cons_of_ne_nil hne
      rw [hcons] at hh ⊢
      simpa using hh
    · split <;> simp
    · intro h; rw [if_neg (by omega)]

/-! ## a written token's segment is well-formed -/

theorem asciiB_inj {a b : Char} (ha : IsAscii a) (hb : IsAscii b) (h : asciiB a = asciiB b) : a = b := by
  apply Char.ext
  apply UInt32.toNat_inj.1
  have h1 : a.val.toNat ≤ 127 := UInt32.le_iff_toNat_le.1 ha
  have h2 : b.val.toNat ≤ 127 := UInt32.le_iff_toNat_le.1 hb
  have := congrArg UInt8.toNat h
  simp only [asciiB, UInt32.toNat_toUInt8] at this
  have a1 : a.val.toNat % 256 = a.val.toNat := Nat.mod_eq_of_lt (by omega)
  have a2 : b.val.toNat % 256 = b.val.toNat := Nat.mod_eq_of_lt (by omega)
  omega

theorem map_asciiB_inj : ∀ (l l' : List Char), (∀ c ∈ l, IsAscii c) → (∀ c ∈ l', IsAscii c) →
    l.map asciiB = l'.map asciiB → l = l'
  | [], [], _, _, _ => rfl
  | [], _ :: _, _, _, h => by simp at h
  | _ :: _, [], _, _, h => by simp at h
  | a :: l, b :: l', h1, h2, h => by
    simp only [List.map_cons, List.cons.injEq] at h
    rw [asciiB_inj (h1 a List.mem_cons_self) (h2 b List.mem_cons_self) h.1,
      map_asciiB_inj l l' (fun c hc => h1 c (List.mem_cons_of_mem _ hc)) (fun c hc => h2 c (List.mem_cons_of_mem _ hc)) h.2]

/-- a character list without line breaks has no byte 10 -/
theorem encL_no_nl : ∀ (r : List Char), (∀ c ∈ r, c ≠ '\n') → ∀ x ∈ encL r, x ≠ 10
  | [], _, x, hx => by simp [encL] at hx
  | c :: r, h, x, hx => by
    rw [encL_cons] at hx
    rcases List.mem_append.1 hx with hx | hx
    · by_cases ha : IsAscii c
      · rw [enc_ascii ha] at hx
        simp only [List.mem_singleton] at hx
        subst hx
        intro h10
        have : c = '\n' := asciiB_inj ha (by decide) (by rw [h10]; rfl)
        exact h c List.mem_cons_self this
      · have := enc_nonascii ha x hx
        intro h10; subst h10; exact absurd this (by decide)
    · exact encL_no_nl r (fun c hc => h c (List.mem_cons_of_mem _ hc)) x hx

theorem mem_replicate_10 {off : Nat} {c : UInt8} (h : c ∈ List.replicate off (10 : UInt8)) : c = 10 :=
  List.eq_of_mem_replicate h

/-- `P` holds of the byte, if there is one -/
def OptAll (next : Option UInt8) (P : UInt8 → Prop) : Prop :=
  match next with
  | none => True
  | some c => P c

theorem OptAll.mono {next : Option UInt8} {P Q : UInt8 → Prop} (h : OptAll next P) (hpq : ∀ x, P x → Q x) : OptAll next Q := by
  cases next with
  | none => trivial
  | some x => exact hpq x h

def Byte3 (x : UInt8) : Prop := x = 32 ∨ x = 10 ∨ x = 47

theorem byte3_ident (x : UInt8) (h : Byte3 x) : isIdentChar x = false := by rcases h with rfl | rfl | rfl <;> decide
theorem byte3_quote (x : UInt8) (h : Byte3 x) : x ≠ 34 := by rcases h with rfl | rfl | rfl <;> decide
theorem byte3_num (x : UInt8) (h : Byte3 x) : isNumChar x = false ∧ isIdentChar x = false := by
  rcases h with rfl | rfl | rfl <;> decide

theorem toSeg_ok (w : WTok) (hw : TokLex w) (pl : Option UInt8) (pt : Option TokType) (next : Option UInt8)
    (hnext : OptAll next Byte3)
    (hline : w.ty = 6 → isLineCmt w.text = true → OptAll next (· = 10))
    (hA : w.ty = 0 → pt = some .begin → w.text ≠ "A2ML".toList)
    (hpl : w.ty = 6 → w.off = 0 → pl ≠ some 32) :
    (toSeg w).ok pl pt next := by
  have hwsall : ∀ c ∈ encL (addWhitespace w.ind w.off), isWs c = true :=
    fun c hc => isWs_of_ws (encWs_mem w.ind w.off c hc)
  unfold TokLex at hw
  match hty : w.ty, hw with
  | 0, hw =>
    obtain ⟨c, cs, ht, hall, hfirst⟩ := hw
    have henc : encL w.text = w.text.map asciiB := encL_ascii _ (fun x hx => (hall x hx).1)
    have hseg : toSeg w = ⟨encL (addWhitespace w.ind w.off), 0, encL w.text, .ident⟩ := by unfold toSeg; rw [hty]; rfl
    rw [hseg]
    refine ⟨hwsall, by rw [henc, ht]; simp, rfl, encWs_ne_nil _ _, ?_, ?_, hnext.mono byte3_ident, ?_⟩
    · intro x hx
      rw [henc] at hx
      obtain ⟨ch, hch, rfl⟩ := List.mem_map.1 hx
      exact (hall ch hch).2
    · intro x xs hxs
      rw [henc, ht] at hxs
      simp only [List.map_cons, List.cons.injEq] at hxs
      rw [← hxs.1]; exact hfirst
    · intro hbeg heq
      apply hA hty hbeg
      exact map_asciiB_inj _ _ (fun x hx => (hall x hx).1) (by decide) (by rw [← henc]; exact heq)
  | 1, hw =>
    have hseg : toSeg w = ⟨encL (addWhitespace w.ind w.off), 0, encL w.text, .kbegin⟩ := by unfold toSeg; rw [hty]; rfl
    rw [hseg]
    exact ⟨hwsall, by rw [hw]; exact List.cons_ne_nil _ _, rfl, encWs_ne_nil _ _, by rw [hw]; rfl⟩
  | 2, hw =>
    have hseg : toSeg w = ⟨encL (addWhitespace w.ind w.off), 0, encL w.text, .kend⟩ := by unfold toSeg; rw [hty]; rfl
    rw [hseg]
    exact ⟨hwsall, by rw [hw]; exact List.cons_ne_nil _ _, rfl, encWs_ne_nil _ _, by rw [hw]; rfl⟩
  | 4, hw =>
    obtain ⟨str, ht⟩ := hw
    have hbody : w.text.tail.dropLast = escape str := by rw [ht]; simp
    have hseg : toSeg w = ⟨encL (addWhitespace w.ind w.off), 0, encL w.text, .str (encL (escape str))⟩ := by
      unfold toSeg; rw [hty, hbody]; rfl
    rw [hseg]
    refine ⟨hwsall, by rw [ht]; simp [encL], rfl, encWs_ne_nil _ _, strBody_escape str, ?_, hnext.mono byte3_quote⟩
    rw [ht, encL_cons, encL_append]
    rfl
  | 5, hw =>
    obtain ⟨c, cs, ht, hall, hf1, hf2, hrest, hne1, hne2, hne3⟩ := hw
    have henc : encL w.text = w.text.map asciiB := encL_ascii _ hall
    have hseg : toSeg w = ⟨encL (addWhitespace w.ind w.off), 0, encL w.text, .num⟩ := by unfold toSeg; rw [hty]; rfl
    rw [hseg]
    refine ⟨hwsall, by rw [henc, ht]; simp, rfl, encWs_ne_nil _ _,
      ⟨asciiB c, cs.map asciiB, by rw [henc, ht]; rfl, hf1, hf2, ?_⟩, hnext.mono byte3_num, ?_, ?_, ?_⟩
    · intro x hx
      obtain ⟨ch, hch, rfl⟩ := List.mem_map.1 hx
      exact hrest ch hch
    · intro heq; apply hne1
      exact map_asciiB_inj _ _ hall (by decide) (by rw [← henc]; exact heq)
    · intro heq; apply hne2
      exact map_asciiB_inj _ _ hall (by decide) (by rw [← henc]; exact heq)
    · intro heq; apply hne3
      exact map_asciiB_inj _ _ hall (by decide) (by rw [← henc]; exact heq)
  | 6, hw =>
    have hh := commentText_core_head hw
    have hcne : encL (cmtRest w.text) ≠ [] := by intro h; rw [h] at hh; cases hh
    have hnlws : ∀ c ∈ List.replicate w.off (10 : UInt8), isWs c = true := by
      intro c hc; rw [mem_replicate_10 hc]; decide
    have hnl32 : ∀ c ∈ List.replicate w.off (10 : UInt8), c ≠ 32 := by
      intro c hc; rw [mem_replicate_10 hc]; decide
    have hplc : List.replicate w.off (10 : UInt8) = [] → pl ≠ some 32 := by
      intro h; apply hpl hty
      cases hoff : w.off with
      | zero => rfl
      | succ n => rw [hoff] at h; simp [List.replicate_succ] at h
    unfold CommentText at hw
    by_cases hl : isLineCmt w.text = true
    · rw [if_pos hl] at hw
      obtain ⟨r, hr, hrn⟩ := hw
      have hseg : toSeg w = ⟨List.replicate w.off 10, cmtBlanks w.text, encL (cmtRest w.text), .line⟩ := by
        unfold toSeg; rw [hty, if_pos rfl, if_pos hl]
      rw [hseg]
      exact ⟨hnlws, hcne, ⟨encL r, by rw [hr, encL_cons, encL_cons]; rfl, encL_no_nl r hrn⟩, hnl32, hplc, hline hty hl⟩
    · rw [if_neg hl] at hw
      have hseg : toSeg w = ⟨List.replicate w.off 10, cmtBlanks w.text, encL (cmtRest w.text), .block⟩ := by
        unfold toSeg; rw [hty, if_pos rfl, if_neg hl]
      rw [hseg]
      exact ⟨hnlws, hcne, hw, hnl32, hplc⟩
  | 3, hw => exact hw.elim
  | n + 7, hw => exact hw.elim

/-! ## whole streams -/

/-- a written token stream that the tokenizer reads back token by token: every token is lexable, an identifier behind
    `/begin` is not `A2ML` (the tokenizer would take what follows as the text of an A2ML block), and a line comment is
    followed by a line break (it would swallow what follows on its line) -/
def StreamLex : Option WTok → List WTok → Prop
  | _, [] => True
  | prev, w :: rest =>
    TokLex w ∧
    (w.ty = 0 → (∃ p, prev = some p ∧ p.ty = 1) → w.text ≠ "A2ML".toList) ∧
    (w.ty = 6 → isLineCmt w.text = true → ∀ w' rest', rest = w' :: rest' → 1 ≤ w'.off) ∧
    StreamLex (some w) rest

theorem head?_append_of_ne_nil {α} (l l' : List α) (h : l ≠ []) : (l ++ l').head? = l.head? := by
  cases l with
  | nil => exact absurd rfl h
  | cons a as => rfl

theorem toSeg_core_ne {w : WTok} (hw : TokLex w) : (toSeg w).core ≠ [] :=
  (toSeg_ok w hw none none none trivial (fun _ _ => trivial) (fun _ h => by cases h) (fun _ _ => by simp)).2.1

theorem toSeg_bytes_ne {w : WTok} (hw : TokLex w) : (toSeg w).bytes ≠ [] := by
  unfold Seg.bytes
  have := toSeg_core_ne hw
  simp [this]

theorem getLast?_of_core {sg : Seg} (h : sg.core ≠ []) : sg.bytes.getLast? = sg.core.getLast? := by
  unfold Seg.bytes
  rw [List.getLast?_append, List.getLast?_append, List.getLast?_eq_getLast h]
  rfl

theorem last_map_asciiB {t : List Char} {P : UInt8 → Prop} (hne : t ≠ []) (h : ∀ x ∈ t, P (asciiB x)) :
    ∃ y, (t.map asciiB).getLast? = some y ∧ P y := by
  have hne' : t.map asciiB ≠ [] := by simpa using hne
  refine ⟨(t.map asciiB).getLast hne', List.getLast?_eq_getLast hne', ?_⟩
  have := List.getLast_mem hne'
  obtain ⟨c, hc, hcy⟩ := List.mem_map.1 this
  rw [← hcy]; exact h c hc

/-- the last byte of a written token is not a blank, unless it is a line comment -/
theorem toSeg_last (w : WTok) (hw : TokLex w) (hnl : ¬ (w.ty = 6 ∧ isLineCmt w.text = true)) :
    (toSeg w).bytes.getLast? ≠ some 32 := by
  rw [getLast?_of_core (toSeg_core_ne hw)]
  unfold TokLex at hw
  match hty : w.ty, hw with
  | 0, hw =>
    obtain ⟨c, cs, ht, hall, _⟩ := hw
    have hseg : (toSeg w).core = w.text.map asciiB := by
      unfold toSeg; rw [hty]; exact encL_ascii _ (fun x hx => (hall x hx).1)
    rw [hseg]
    obtain ⟨y, hy, hp⟩ := last_map_asciiB (P := fun y => isIdentChar y = true) (by rw [ht]; simp) (fun x hx => (hall x hx).2)
    rw [hy]; intro h; cases h; exact absurd hp (by decide)
  | 1, hw =>
    have hseg : (toSeg w).core = encL beginText := by unfold toSeg; rw [hty, hw]; rfl
    rw [hseg]; decide
  | 2, hw =>
    have hseg : (toSeg w).core = encL endText := by unfold toSeg; rw [hty, hw]; rfl
    rw [hseg]; decide
  | 4, hw =>
    obtain ⟨str, ht⟩ := hw
    have hseg : (toSeg w).core = 34 :: (encL (escape str) ++ [34]) := by
      unfold toSeg; rw [hty, ht]; simp only [show ¬ (4 : Nat) = 6 by decide, if_false, encL_cons, encL_append]; rfl
    rw [hseg, show (34 :: (encL (escape str) ++ [34]) : List UInt8) = (34 :: encL (escape str)) ++ [34] by simp,
      List.getLast?_append]
    simp
  | 5, hw =>
    obtain ⟨c, cs, ht, hall, hf1, hf2, hrest, _⟩ := hw
    have hseg : (toSeg w).core = w.text.map asciiB := by
      unfold toSeg; rw [hty]; exact encL_ascii _ hall
    rw [hseg]
    obtain ⟨y, hy, hp⟩ := last_map_asciiB (t := w.text) (P := fun y => isNumChar y = true) (by rw [ht]; simp) (by
      intro x hx
      rw [ht] at hx
      rcases List.mem_cons.1 hx with rfl | hx
      · exact A2l.Lex.minus_numChar hf2
      · exact hrest x hx)
    rw [hy]; intro h; cases h; exact absurd hp (by decide)
  | 6, hw =>
    have hl : isLineCmt w.text = false := by
      cases h : isLineCmt w.text with
      | false => rfl
      | true => exact absurd ⟨hty, h⟩ hnl
    unfold CommentText at hw
    rw [if_neg (by simp [hl])] at hw
    have hseg : (toSeg w).core = encL (cmtRest w.text) := by unfold toSeg; rw [hty]; rfl
    rw [hseg]
    have hlen := hw.len
    have hend := hw.hend.2
    rw [List.getLast?_eq_getElem?, hend]
    decide
  | 3, hw => exact hw.elim
  | n + 7, hw => exact hw.elim

theorem toSeg_begin (w : WTok) (hw : TokLex w) (h : (toSeg w).kind.tt = .begin) : w.ty = 1 := by
  unfold TokLex at hw
  unfold toSeg at h
  match hty : w.ty, hw with
  | 0, _ => rw [hty] at h; simp [SKind.tt] at h
  | 1, _ => rfl
  | 2, _ => rw [hty] at h; simp [SKind.tt] at h
  | 4, _ => rw [hty] at h; simp [SKind.tt] at h
  | 5, _ => rw [hty] at h; simp [SKind.tt] at h
  | 6, _ => rw [hty] at h; simp only [if_true] at h; split at h <;> simp [SKind.tt] at h
  | 3, hw => exact hw.elim
  | n + 7, hw => exact hw.elim

/-- **a lexable stream is a well-formed segment list** -/
theorem segsOk_of_streamLex : ∀ (ws : List WTok) (prev : Option WTok) (pl : Option UInt8) (pt : Option TokType),
    StreamLex prev ws → (pt = some .begin → ∃ p, prev = some p ∧ p.ty = 1) →
    (∀ w rest, ws = w :: rest → w.ty = 6 → w.off = 0 → pl ≠ some 32) →
    segsOk pl pt (ws.map toSeg)
  | [], _, _, _, _, _, _ => trivial
  | w :: rest, prev, pl, pt, ⟨hw, hA, hline, hrest⟩, hpt, hpl => by
    refine ⟨?_, ?_⟩
    · -- this token
      apply toSeg_ok w hw pl pt _ ?_ ?_ (fun h0 hb => hA h0 (hpt hb)) (fun h6 ho => hpl w rest rfl h6 ho)
      · cases rest with
        | nil => trivial
        | cons w' rest' =>
          obtain ⟨x, hx, hx3, _⟩ := toSeg_head w' hrest.1
          simp only [List.map_cons, segsBytes]
          rw [head?_append_of_ne_nil _ _ (toSeg_bytes_ne hrest.1), hx]
          exact hx3
      · intro h6 hl
        cases rest with
        | nil => trivial
        | cons w' rest' =>
          obtain ⟨x, hx, _, hx10⟩ := toSeg_head w' hrest.1
          simp only [List.map_cons, segsBytes]
          rw [head?_append_of_ne_nil _ _ (toSeg_bytes_ne hrest.1), hx]
          exact hx10 (hline h6 hl w' rest' rfl)
    · -- the rest
      apply segsOk_of_streamLex rest (some w) _ _ hrest
      · intro hb; exact ⟨w, rfl, toSeg_begin w hw (Option.some.inj hb)⟩
      · intro w' rest' hr h6 ho
        by_cases hl : w.ty = 6 ∧ isLineCmt w.text = true
        · have := hline hl.1 hl.2 w' rest' hr; omega
        · exact toSeg_last w hw hl

/-! ## the scanner of `ends_in_line_comment` on the text of a lexable stream

The writer's `ends_in_line_comment` (`lcScan`, Model/Tree.lean) is a second, much simpler tokenizer. On the text of a
lexable stream it agrees with the real one: behind every token it is outside of strings and comments again, except
behind a `//` comment, where it is inside the comment until the next line break. Proved on bytes (`lcScanB`), where the
shapes of the tokens are known (`Seg.ok`). -/

/-- the scanner on UTF-8 bytes -/
def lcScanB : LcState → List UInt8 → LcState
  | s, [] => s
  | .outside, c :: rest =>
    if c = 34 then lcScanB .inString rest
    else if c = 47 then
      match rest with
      | [] => .outside
      | d :: rest' =>
        if d = 47 then lcScanB .lineComment rest'
        else if d = 42 then lcScanB .blockComment rest'
        else lcScanB .outside (d :: rest')
    else lcScanB .outside rest
  | .inString, c :: rest =>
    if c = 92 then lcScanB .inStringEscaped rest
    else if c = 34 then lcScanB .outside rest
    else lcScanB .inString rest
  | .inStringEscaped, _ :: rest => lcScanB .inString rest
  | .lineComment, c :: rest => if c = 10 then lcScanB .outside rest else lcScanB .lineComment rest
  | .blockComment, c :: rest => if c = 42 then lcScanB .blockCommentStar rest else lcScanB .blockComment rest
  | .blockCommentStar, c :: rest =>
    if c = 47 then lcScanB .outside rest
    else if c = 42 then lcScanB .blockCommentStar rest
    else lcScanB .blockComment rest

theorem lcScanB_nil (s : LcState) : lcScanB s [] = s := by cases s <;> rfl

theorem lcScanB_outside_quote (r : List UInt8) : lcScanB .outside (34 :: r) = lcScanB .inString r := by
  rw [lcScanB.eq_def]; simp
theorem lcScanB_outside_other (c : UInt8) (r : List UInt8) (h1 : c ≠ 34) (h2 : c ≠ 47) :
    lcScanB .outside (c :: r) = lcScanB .outside r := by
  rw [lcScanB.eq_def]; simp only [h1, h2, if_false]
theorem lcScanB_outside_slash_nil : lcScanB .outside [47] = .outside := by
  rw [lcScanB.eq_def]; simp
theorem lcScanB_outside_slash_slash (r : List UInt8) : lcScanB .outside (47 :: 47 :: r) = lcScanB .lineComment r := by
  rw [lcScanB.eq_def]; simp
theorem lcScanB_outside_slash_star (r : List UInt8) : lcScanB .outside (47 :: 42 :: r) = lcScanB .blockComment r := by
  rw [lcScanB.eq_def]; simp
theorem lcScanB_outside_slash_other (d : UInt8) (r : List UInt8) (h1 : d ≠ 47) (h2 : d ≠ 42) :
    lcScanB .outside (47 :: d :: r) = lcScanB .outside (d :: r) := by
  rw [lcScanB.eq_def]; simp [h1, h2]
theorem lcScanB_inString (c : UInt8) (r : List UInt8) : lcScanB .inString (c :: r) =
    if c = 92 then lcScanB .inStringEscaped r else if c = 34 then lcScanB .outside r else lcScanB .inString r := by
  rw [lcScanB.eq_def]
theorem lcScanB_inStringEscaped (c : UInt8) (r : List UInt8) : lcScanB .inStringEscaped (c :: r) = lcScanB .inString r := by
  rw [lcScanB.eq_def]
theorem lcScanB_lineComment (c : UInt8) (r : List UInt8) : lcScanB .lineComment (c :: r) =
    if c = 10 then lcScanB .outside r else lcScanB .lineComment r := by
  rw [lcScanB.eq_def]
theorem lcScanB_blockComment (c : UInt8) (r : List UInt8) : lcScanB .blockComment (c :: r) =
    if c = 42 then lcScanB .blockCommentStar r else lcScanB .blockComment r := by
  rw [lcScanB.eq_def]
theorem lcScanB_blockCommentStar (c : UInt8) (r : List UInt8) : lcScanB .blockCommentStar (c :: r) =
    if c = 47 then lcScanB .outside r else if c = 42 then lcScanB .blockCommentStar r else lcScanB .blockComment r := by
  rw [lcScanB.eq_def]

theorem lcScanB_other (s : LcState) (c : UInt8) (r : List UInt8) (h1 : c ≠ 34) (h2 : c ≠ 47) (h3 : c ≠ 42) (h4 : c ≠ 92)
    (h5 : c ≠ 10) : lcScanB s (c :: r) = lcScanB s.other r := by
  cases s
  · exact lcScanB_outside_other c r h1 h2
  · rw [lcScanB_inString, if_neg h4, if_neg h1]; rfl
  · rw [lcScanB_inStringEscaped]; rfl
  · rw [lcScanB_lineComment, if_neg h5]; rfl
  · rw [lcScanB_blockComment, if_neg h3]; rfl
  · rw [lcScanB_blockCommentStar, if_neg h2, if_neg h3]; rfl

theorem LcState.other_idem (s : LcState) : s.other.other = s.other := by cases s <;> rfl

/-- the bytes of a character that is not ASCII mean nothing to the scanner -/
theorem lcScanB_high (s : LcState) (r : List UInt8) : ∀ (l : List UInt8), l ≠ [] → (∀ x ∈ l, 128 ≤ x) →
    lcScanB s (l ++ r) = lcScanB s.other r
  | [], h, _ => absurd rfl h
  | x :: l, _, h => by
    have hx : (128 : UInt8) ≤ x := h x List.mem_cons_self
    have ne : ∀ (n : UInt8), n < 128 → x ≠ n := by
      intro n hn hxn; subst hxn
      exact absurd (UInt8.lt_of_lt_of_le hn hx) (UInt8.lt_irrefl _)
    rw [List.cons_append, lcScanB_other s x _ (ne 34 (by decide)) (ne 47 (by decide)) (ne 42 (by decide))
      (ne 92 (by decide)) (ne 10 (by decide))]
    cases l with
    | nil => rfl
    | cons y l' =>
      rw [lcScanB_high s.other r (y :: l') (List.cons_ne_nil _ _) (fun z hz => h z (List.mem_cons_of_mem _ hz)),
        LcState.other_idem]

theorem asciiB_ne {c a : Char} (hc : IsAscii c) (ha : IsAscii a) (h : c ≠ a) : asciiB c ≠ asciiB a :=
  fun he => h (asciiB_inj hc ha he)

/-- the first byte of a character's encoding tells an ASCII character -/
theorem enc_head_ne (d a : Char) (ha : IsAscii a) (hd : d ≠ a) :
    ∃ x xs, String.utf8EncodeChar d = x :: xs ∧ x ≠ asciiB a := by
  by_cases hda : IsAscii d
  · exact ⟨asciiB d, [], enc_ascii hda, asciiB_ne hda ha hd⟩
  · have h128 := enc_nonascii hda
    cases hc : String.utf8EncodeChar d with
    | nil => exact absurd hc (by simp)
    | cons x xs =>
      refine ⟨x, xs, rfl, ?_⟩
      rw [hc] at h128
      have hx : (128 : UInt8) ≤ x := h128 x List.mem_cons_self
      intro he
      have hlt : asciiB a < 128 := by
        have h1 : a.val.toNat ≤ 127 := UInt32.le_iff_toNat_le.1 ha
        rw [UInt8.lt_iff_toNat_lt]
        simp only [asciiB, UInt32.toNat_toUInt8]
        have : a.val.toNat % 256 = a.val.toNat := Nat.mod_eq_of_lt (by omega)
        rw [this]; exact Nat.lt_of_le_of_lt h1 (by decide)
      rw [he] at hx
      exact absurd (UInt8.lt_of_lt_of_le hlt hx) (UInt8.lt_irrefl _)

/-- **the scanner on characters is the scanner on their UTF-8 bytes** -/
theorem lcScan_enc : ∀ (n : Nat) (t : List Char), t.length ≤ n → ∀ s, lcScan s t = lcScanB s (encL t)
  | _, [], _, s => by cases s <;> rfl
  | 0, _ :: _, hn, _ => by simp at hn
  | n + 1, c :: r, hn, s => by
    have hlen : r.length ≤ n := by simpa using hn
    have ih := lcScan_enc n r hlen
    by_cases hca : IsAscii c
    · rw [encL_cons, enc_ascii hca, List.singleton_append]
      have q : ∀ (a : Char), IsAscii a → c ≠ a → asciiB c ≠ asciiB a := fun a ha h => asciiB_ne hca ha h
      by_cases h1 : c = '"'
      · subst h1
        cases s with
        | outside => rw [lcScan_outside_quote, show asciiB '"' = 34 from by decide, lcScanB_outside_quote]; exact ih _
        | inString =>
          rw [lcScan_inString, if_neg (by decide), if_pos rfl, show asciiB '"' = 34 from by decide, lcScanB_inString,
            if_neg (by decide), if_pos rfl]; exact ih _
        | inStringEscaped => rw [lcScan_inStringEscaped, lcScanB_inStringEscaped]; exact ih _
        | lineComment =>
          rw [lcScan_lineComment, if_neg (by decide), show asciiB '"' = 34 from by decide, lcScanB_lineComment,
            if_neg (by decide)]; exact ih _
        | blockComment =>
          rw [lcScan_blockComment, if_neg (by decide), show asciiB '"' = 34 from by decide, lcScanB_blockComment,
            if_neg (by decide)]; exact ih _
        | blockCommentStar =>
          rw [lcScan_blockCommentStar, if_neg (by decide), if_neg (by decide), show asciiB '"' = 34 from by decide,
            lcScanB_blockCommentStar, if_neg (by decide), if_neg (by decide)]; exact ih _
      by_cases h2 : c = '/'
      · subst h2
        rw [show asciiB '/' = 47 from by decide]
        cases s with
        | outside =>
          cases r with
          | nil => rw [lcScan_outside_slash_nil]; simp only [encL_nil]; rw [lcScanB_outside_slash_nil]
          | cons d r' =>
            have hlen' : r'.length ≤ n := by simp at hlen; omega
            by_cases h3 : d = '/'
            · subst h3
              rw [lcScan_outside_slash_slash, encL_cons, enc_ascii (by decide), List.singleton_append,
                show asciiB '/' = 47 from by decide, lcScanB_outside_slash_slash]
              exact lcScan_enc n r' hlen' _
            by_cases h4 : d = '*'
            · subst h4
              rw [lcScan_outside_slash_star, encL_cons, enc_ascii (by decide), List.singleton_append,
                show asciiB '*' = 42 from by decide, lcScanB_outside_slash_star]
              exact lcScan_enc n r' hlen' _
            rw [lcScan_outside_slash_other _ _ h3 h4, ih]
            obtain ⟨x, xs, hx, hx47⟩ := enc_head_ne d '/' (by decide) h3
            obtain ⟨x', xs', hx', hx42⟩ := enc_head_ne d '*' (by decide) h4
            rw [hx] at hx'
            injection hx' with e1 e2
            subst e1 e2
            rw [encL_cons, hx, List.cons_append,
              lcScanB_outside_slash_other _ _ (by rw [show (47 : UInt8) = asciiB '/' from by decide]; exact hx47)
                (by rw [show (42 : UInt8) = asciiB '*' from by decide]; exact hx42)]
        | inString => rw [lcScan_inString, if_neg (by decide), if_neg (by decide), lcScanB_inString, if_neg (by decide),
            if_neg (by decide)]; exact ih _
        | inStringEscaped => rw [lcScan_inStringEscaped, lcScanB_inStringEscaped]; exact ih _
        | lineComment => rw [lcScan_lineComment, if_neg (by decide), lcScanB_lineComment, if_neg (by decide)]; exact ih _
        | blockComment => rw [lcScan_blockComment, if_neg (by decide), lcScanB_blockComment, if_neg (by decide)]; exact ih _
        | blockCommentStar => rw [lcScan_blockCommentStar, if_pos rfl, lcScanB_blockCommentStar, if_pos rfl]; exact ih _
      by_cases h3 : c = '*'
      · subst h3
        rw [show asciiB '*' = 42 from by decide]
        cases s with
        | outside => rw [lcScan_outside_other _ _ (by decide) (by decide), lcScanB_outside_other _ _ (by decide) (by decide)]
                     exact ih _
        | inString => rw [lcScan_inString, if_neg (by decide), if_neg (by decide), lcScanB_inString, if_neg (by decide),
            if_neg (by decide)]; exact ih _
        | inStringEscaped => rw [lcScan_inStringEscaped, lcScanB_inStringEscaped]; exact ih _
        | lineComment => rw [lcScan_lineComment, if_neg (by decide), lcScanB_lineComment, if_neg (by decide)]; exact ih _
        | blockComment => rw [lcScan_blockComment, if_pos rfl, lcScanB_blockComment, if_pos rfl]; exact ih _
        | blockCommentStar =>
          rw [lcScan_blockCommentStar, if_neg (by decide), if_pos rfl, lcScanB_blockCommentStar, if_neg (by decide),
            if_pos rfl]; exact ih _
      by_cases h4 : c = '\\'
      · subst h4
        rw [show asciiB '\\' = 92 from by decide]
        cases s with
        | outside => rw [lcScan_outside_other _ _ (by decide) (by decide), lcScanB_outside_other _ _ (by decide) (by decide)]
                     exact ih _
        | inString => rw [lcScan_inString, if_pos rfl, lcScanB_inString, if_pos rfl]; exact ih _
        | inStringEscaped => rw [lcScan_inStringEscaped, lcScanB_inStringEscaped]; exact ih _
        | lineComment => rw [lcScan_lineComment, if_neg (by decide), lcScanB_lineComment, if_neg (by decide)]; exact ih _
        | blockComment => rw [lcScan_blockComment, if_neg (by decide), lcScanB_blockComment, if_neg (by decide)]; exact ih _
        | blockCommentStar =>
          rw [lcScan_blockCommentStar, if_neg (by decide), if_neg (by decide), lcScanB_blockCommentStar,
            if_neg (by decide), if_neg (by decide)]; exact ih _
      by_cases h5 : c = '\n'
      · subst h5
        rw [show asciiB '\n' = 10 from by decide]
        cases s with
        | outside => rw [lcScan_outside_other _ _ (by decide) (by decide), lcScanB_outside_other _ _ (by decide) (by decide)]
                     exact ih _
        | inString => rw [lcScan_inString, if_neg (by decide), if_neg (by decide), lcScanB_inString, if_neg (by decide),
            if_neg (by decide)]; exact ih _
        | inStringEscaped => rw [lcScan_inStringEscaped, lcScanB_inStringEscaped]; exact ih _
        | lineComment => rw [lcScan_lineComment, if_pos rfl, lcScanB_lineComment, if_pos rfl]; exact ih _
        | blockComment => rw [lcScan_blockComment, if_neg (by decide), lcScanB_blockComment, if_neg (by decide)]; exact ih _
        | blockCommentStar =>
          rw [lcScan_blockCommentStar, if_neg (by decide), if_neg (by decide), lcScanB_blockCommentStar,
            if_neg (by decide), if_neg (by decide)]; exact ih _
      · rw [lcScan_other s c r h1 h2 h3 h4 h5, lcScanB_other s (asciiB c) _
          (by rw [show (34 : UInt8) = asciiB '"' from by decide]; exact q _ (by decide) h1)
          (by rw [show (47 : UInt8) = asciiB '/' from by decide]; exact q _ (by decide) h2)
          (by rw [show (42 : UInt8) = asciiB '*' from by decide]; exact q _ (by decide) h3)
          (by rw [show (92 : UInt8) = asciiB '\\' from by decide]; exact q _ (by decide) h4)
          (by rw [show (10 : UInt8) = asciiB '\n' from by decide]; exact q _ (by decide) h5)]
        exact ih _
    · have ne : ∀ (a : Char), IsAscii a → c ≠ a := fun a ha h => hca (h ▸ ha)
      rw [lcScan_other s c r (ne _ (by decide)) (ne _ (by decide)) (ne _ (by decide)) (ne _ (by decide)) (ne _ (by decide)),
        encL_cons, lcScanB_high s _ _ (by
          intro h0
          have := congrArg List.length h0
          simp [String.length_utf8EncodeChar] at this
          have := Char.utf8Size_pos c
          omega) (enc_nonascii hca)]
      exact ih _

/-! ### one segment -/

theorem lcScanB_ws (r : List UInt8) : ∀ (l : List UInt8), (∀ c ∈ l, isWs c = true) →
    lcScanB .outside (l ++ r) = lcScanB .outside r
  | [], _ => rfl
  | c :: l, h => by
    have hc := h c List.mem_cons_self
    rw [List.cons_append, lcScanB_outside_other c _ (by intro e; subst e; exact absurd hc (by decide))
      (by intro e; subst e; exact absurd hc (by decide))]
    exact lcScanB_ws r l (fun d hd => h d (List.mem_cons_of_mem _ hd))

theorem lcScanB_plain (r : List UInt8) : ∀ (l : List UInt8), (∀ c ∈ l, c ≠ 34 ∧ c ≠ 47) →
    lcScanB .outside (l ++ r) = lcScanB .outside r
  | [], _ => rfl
  | c :: l, h => by
    rw [List.cons_append, lcScanB_outside_other c _ (h c List.mem_cons_self).1 (h c List.mem_cons_self).2]
    exact lcScanB_plain r l (fun d hd => h d (List.mem_cons_of_mem _ hd))

theorem lcScanB_strBody (r : List UInt8) {body : List UInt8} (h : StrBody body) :
    lcScanB .inString (body ++ r) = lcScanB .inString r := by
  induction h with
  | nil => rfl
  | plain c rest hc _ ih => rw [List.cons_append, lcScanB_inString, if_neg hc.2.1, if_neg hc.1]; exact ih
  | esc x rest _ _ ih =>
    rw [List.cons_append, List.cons_append, lcScanB_inString, if_pos rfl, lcScanB_inStringEscaped]; exact ih

theorem lcScanB_lineRest (r : List UInt8) : ∀ (l : List UInt8), (∀ c ∈ l, c ≠ 10) →
    lcScanB .lineComment (l ++ r) = lcScanB .lineComment r
  | [], _ => rfl
  | c :: l, h => by
    rw [List.cons_append, lcScanB_lineComment, if_neg (h c List.mem_cons_self)]
    exact lcScanB_lineRest r l (fun d hd => h d (List.mem_cons_of_mem _ hd))

/-- the state inside a block comment in front of byte `j` -/
def blockSt (core : List UInt8) (j : Nat) : LcState :=
  if 3 ≤ j ∧ core[j - 1]? = some 42 then .blockCommentStar else .blockComment

/-- inside a block comment the scanner leaves it exactly at its end -/
theorem lcScanB_blockTail {core : List UInt8} (h : BlockCore core) (r : List UInt8) : ∀ (d j : Nat),
    j + d = core.length - 1 → 2 ≤ j → lcScanB (blockSt core j) (core.drop j ++ r) = lcScanB .outside r
  | 0, j, hj, h2 => by
    have hlen := h.len
    have hj' : j = core.length - 1 := by omega
    have hlt : j < core.length := by omega
    have hx : core[j] = 47 := by
      have := h.hend.2
      rw [← hj', List.getElem?_eq_getElem hlt] at this
      exact Option.some.inj this
    have hst : blockSt core j = .blockCommentStar := by
      unfold blockSt
      rw [if_pos ⟨by omega, by rw [hj']; exact (by have := h.hend.1; rwa [show core.length - 1 - 1 = core.length - 2 from by omega])⟩]
    rw [List.drop_eq_getElem_cons hlt, hx, hst, List.cons_append, lcScanB_blockCommentStar, if_pos rfl]
    have : List.drop (j + 1) core = [] := List.drop_eq_nil_of_le (by omega)
    rw [this]; rfl
  | d + 1, j, hj, h2 => by
    have hlen := h.len
    have hlt : j < core.length := by omega
    have ih := lcScanB_blockTail h r d (j + 1) (by omega) (by omega)
    rw [List.drop_eq_getElem_cons hlt, List.cons_append]
    have hget : core[j]? = some core[j] := List.getElem?_eq_getElem hlt
    by_cases hs : 3 ≤ j ∧ core[j - 1]? = some 42
    · have hst : blockSt core j = .blockCommentStar := by unfold blockSt; rw [if_pos hs]
      have hne : core[j] ≠ 47 := by
        intro he
        exact h.hfirst j hs.1 (by omega) ⟨hs.2, by rw [hget, he]⟩
      rw [hst, lcScanB_blockCommentStar, if_neg hne]
      by_cases hx : core[j] = 42
      · rw [if_pos hx]
        have : blockSt core (j + 1) = .blockCommentStar := by
          unfold blockSt; rw [if_pos ⟨by omega, by simp only [Nat.add_sub_cancel]; rw [hget, hx]⟩]
        rw [← this]; exact ih
      · rw [if_neg hx]
        have : blockSt core (j + 1) = .blockComment := by
          unfold blockSt
          rw [if_neg (by
            rintro ⟨-, h'⟩
            simp only [Nat.add_sub_cancel] at h'
            rw [hget] at h'
            exact hx (Option.some.inj h'))]
        rw [← this]; exact ih
    · have hst : blockSt core j = .blockComment := by unfold blockSt; rw [if_neg hs]
      rw [hst, lcScanB_blockComment]
      by_cases hx : core[j] = 42
      · rw [if_pos hx]
        have : blockSt core (j + 1) = .blockCommentStar := by
          unfold blockSt; rw [if_pos ⟨by omega, by simp only [Nat.add_sub_cancel]; rw [hget, hx]⟩]
        rw [← this]; exact ih
      · rw [if_neg hx]
        have : blockSt core (j + 1) = .blockComment := by
          unfold blockSt
          rw [if_neg (by
            rintro ⟨-, h'⟩
            simp only [Nat.add_sub_cancel] at h'
            rw [hget] at h'
            exact hx (Option.some.inj h'))]
        rw [← this]; exact ih

theorem lcScanB_blockCore {core : List UInt8} (h : BlockCore core) (r : List UInt8) :
    lcScanB .outside (core ++ r) = lcScanB .outside r := by
  have hlen := h.len
  have e0 : core[0] = 47 := by
    have := h.h0; rw [List.getElem?_eq_getElem (by omega)] at this; exact Option.some.inj this
  have e1 : core[1] = 42 := by
    have := h.h1; rw [List.getElem?_eq_getElem (by omega)] at this; exact Option.some.inj this
  have hd : core = 47 :: 42 :: core.drop 2 := by
    conv => lhs; rw [← List.drop_zero (l := core)]
    rw [List.drop_eq_getElem_cons (by omega : 0 < core.length), List.drop_eq_getElem_cons (by omega : 0 + 1 < core.length),
      e0, e1]
  have := lcScanB_blockTail h r (core.length - 1 - 2) 2 (by omega) (Nat.le_refl 2)
  have hst : blockSt core 2 = .blockComment := by unfold blockSt; rw [if_neg (by omega)]
  rw [hst] at this
  conv => lhs; rw [hd]
  rw [List.cons_append, List.cons_append, lcScanB_outside_slash_star]
  exact this

def _root_.A2l.Lex.Seg.isLine (sg : Seg) : Bool :=
  match sg.kind with
  | .line => true
  | _ => false

/-- **one segment**: behind a well-formed segment the scanner is outside of strings and comments, or — behind a line
    comment — inside that comment -/
theorem seg_scan {pl : Option UInt8} {pt : Option TokType} {sg : Seg} {next : Option UInt8} (h : sg.ok pl pt next)
    (r : List UInt8) :
    lcScanB .outside (sg.bytes ++ r) = lcScanB (if sg.isLine then .lineComment else .outside) r := by
  obtain ⟨hws, hne, hk⟩ := h
  unfold Seg.bytes
  rw [List.append_assoc, lcScanB_ws _ _ hws, List.append_assoc,
    lcScanB_ws _ _ (fun c hc => by rw [List.eq_of_mem_replicate hc]; decide)]
  unfold Seg.isLine
  cases hkind : sg.kind with
  | ident =>
    rw [hkind] at hk
    exact lcScanB_plain r _ (fun c hc =>
      ⟨by intro e; subst e; exact absurd (hk.2.2.1 _ hc) (by decide), by intro e; subst e; exact absurd (hk.2.2.1 _ hc) (by decide)⟩)
  | kbegin =>
    rw [hkind] at hk
    rw [hk.2.2, show (47 :: kwBegin) ++ r = 47 :: 98 :: ([101, 103, 105, 110] ++ r) from rfl,
      lcScanB_outside_slash_other _ _ (by decide) (by decide)]
    exact lcScanB_plain r [98, 101, 103, 105, 110] (by decide)
  | kend =>
    rw [hkind] at hk
    rw [hk.2.2, show (47 :: kwEnd) ++ r = 47 :: 101 :: ([110, 100] ++ r) from rfl,
      lcScanB_outside_slash_other _ _ (by decide) (by decide)]
    exact lcScanB_plain r [101, 110, 100] (by decide)
  | str body =>
    rw [hkind] at hk
    rw [hk.2.2.2.1, List.cons_append, lcScanB_outside_quote, List.append_assoc, lcScanB_strBody _ hk.2.2.1,
      List.singleton_append, lcScanB_inString, if_neg (by decide), if_pos rfl]
    rfl
  | num =>
    rw [hkind] at hk
    obtain ⟨c0, rest, hcore, -, hc0, hrest⟩ := hk.2.2.1
    rw [hcore]
    refine lcScanB_plain r _ (fun c hc => ?_)
    rcases List.mem_cons.1 hc with rfl | hc
    · exact ⟨by intro e; subst e; exact absurd hc0 (by decide), by intro e; subst e; exact absurd hc0 (by decide)⟩
    · exact ⟨by intro e; subst e; exact absurd (hrest _ hc) (by decide), by intro e; subst e; exact absurd (hrest _ hc) (by decide)⟩
  | block =>
    rw [hkind] at hk
    exact lcScanB_blockCore hk.1 r
  | line =>
    rw [hkind] at hk
    obtain ⟨rest, hcore, hrest⟩ := hk.1
    rw [hcore, List.cons_append, List.cons_append, lcScanB_outside_slash_slash]
    exact lcScanB_lineRest r rest hrest

theorem seg_bytes_ne {pl : Option UInt8} {pt : Option TokType} {sg : Seg} {next : Option UInt8} (h : sg.ok pl pt next) :
    sg.bytes ≠ [] := by
  unfold Seg.bytes
  intro h0
  have := (List.append_eq_nil_iff.1 (List.append_eq_nil_iff.1 h0).2).2
  exact h.2.1 this

/-- **a well-formed segment list**: behind it the scanner is inside a `//` comment iff the last segment is one -/
theorem segs_scan : ∀ (sgs : List Seg) (pl : Option UInt8) (pt : Option TokType), segsOk pl pt sgs →
    lcScanB .outside (segsBytes sgs) =
      (match sgs.getLast? with
        | some sg => if sg.isLine then .lineComment else .outside
        | none => .outside)
  | [], _, _, _ => rfl
  | [sg], pl, pt, h => by
    have := seg_scan h.1 []
    simpa [segsBytes, lcScanB_nil] using this
  | sg :: sg' :: rest, pl, pt, h => by
    have ih := segs_scan (sg' :: rest) _ _ h.2
    rw [List.getLast?_cons_cons, ← ih]
    show lcScanB .outside (sg.bytes ++ segsBytes (sg' :: rest)) = _
    rw [seg_scan h.1]
    cases hl : sg.isLine with
    | false => rfl
    | true =>
      simp only [if_true]
      -- the next segment starts with a line break
      have hk := h.1.2.2
      unfold Seg.isLine at hl
      cases hkind : sg.kind with
      | line =>
        rw [hkind] at hk
        have hnext := hk.2.2.2
        have hne : segsBytes (sg' :: rest) ≠ [] := by
          show sg'.bytes ++ segsBytes rest ≠ []
          intro h0
          exact seg_bytes_ne h.2.1 (List.append_eq_nil_iff.1 h0).1
        cases hb : segsBytes (sg' :: rest) with
        | nil => exact absurd hb hne
        | cons c tl =>
          rw [hb] at hnext
          simp only [List.head?_cons] at hnext
          subst hnext
          rw [lcScanB_lineComment, if_pos rfl, lcScanB_outside_other _ _ (by decide) (by decide)]
      | ident => rw [hkind] at hl; cases hl
      | kbegin => rw [hkind] at hl; cases hl
      | kend => rw [hkind] at hl; cases hl
      | str b => rw [hkind] at hl; cases hl
      | num => rw [hkind] at hl; cases hl
      | block => rw [hkind] at hl; cases hl

/-- is this token a `//` comment? -/
def WTok.isLC (w : WTok) : Bool := w.ty == 6 && isLineCmt w.text

theorem toSeg_isLine (w : WTok) : (toSeg w).isLine = w.isLC := by
  unfold toSeg Seg.isLine WTok.isLC
  by_cases h6 : w.ty = 6
  · simp only [h6, if_true, beq_self_eq_true, Bool.true_and]
    cases isLineCmt w.text <;> rfl
  · simp only [h6, if_false]
    have : (w.ty == 6) = false := by simpa using h6
    rw [this, Bool.false_and]
    generalize w.ty = n at h6
    match n, h6 with
    | 0, _ => rfl
    | 1, _ => rfl
    | 2, _ => rfl
    | 3, _ => rfl
    | 4, _ => rfl
    | 5, _ => rfl
    | 6, h => exact absurd rfl h
    | n + 7, _ => rfl

/-- **the scanner of `ends_in_line_comment` on the text of a lexable stream**: behind the text it is inside a `//`
    comment if the last token is one, and outside of strings and comments otherwise -/
theorem scan_stream (ws : List WTok) (prev : Option WTok) (h : StreamLex prev ws) :
    lcScan .outside (renderToks ws) =
      (match ws.getLast? with
        | some w => if w.isLC then .lineComment else .outside
        | none => .outside) := by
  have hs := segsOk_of_streamLex ws prev none none h (fun h0 => by cases h0) (fun _ _ _ _ _ h0 => by cases h0)
  rw [lcScan_enc _ _ (Nat.le_refl _), ← segsBytes_map, segs_scan _ _ _ hs, List.getLast?_map]
  cases ws.getLast? with
  | none => rfl
  | some w => simp only [Option.map_some, toSeg_isLine]

/-- `ends_in_line_comment` of the text of a lexable stream: is the last token a `//` comment? -/
theorem endsInLineComment_stream (ws : List WTok) (prev : Option WTok) (h : StreamLex prev ws) :
    endsInLineComment (renderToks ws) = (match ws.getLast? with | some w => w.isLC | none => false) := by
  unfold endsInLineComment
  rw [scan_stream ws prev h]
  cases ws.getLast? with
  | none => rfl
  | some w => simp only []; cases w.isLC <;> rfl

/-! ## from tokenizer tokens to parser tokens -/

/-- decode UTF-8 bytes (`String::from_utf8`; not-UTF-8 cannot occur for spans of a text that was a `String`) -/
def decodeL (l : List UInt8) : List Char :=
  match l.toByteArray.utf8Decode? with
  | some a => a.toList
  | none => []

theorem decodeL_encL (t : List Char) : decodeL (encL t) = t := by
  unfold decodeL
  have : (encL t).toByteArray = t.utf8Encode := rfl
  rw [this, List.utf8Decode?_utf8Encode]

/-- what the driver does with a tokenizer token: slice the text, decode it, intern identifiers, run numbers through
    the float codec -/
def convTok (lx : LexEnv) (b : Bytes) (t : Lex.Token) : PTok :=
  let text := decodeL (b.extract t.startpos t.endpos).toList
  let ty := tokCode t.ttype
  { ty := ty, text := text, line := t.line, fileid := 0,
    sym := if ty = 0 then lx.symOf text else noSym, fl := if ty = 5 then lx.flOf text else none }

theorem nlB_encL : ∀ (t : List Char), nlB (encL t) = countNewlines t
  | [] => rfl
  | c :: cs => by
    rw [encL_cons, nlB_append, countNewlines_cons, nlB_encL cs]
    congr 1
    by_cases ha : IsAscii c
    · rw [enc_ascii ha]
      by_cases hn : c = '\n'
      · subst hn; rfl
      · have : asciiB c ≠ 10 := fun h => hn (asciiB_inj ha (by decide) (by rw [h]; rfl))
        simp [nlB, this, hn]
    · have hn : c ≠ '\n' := by intro h; subst h; exact ha (by decide)
      have h128 := enc_nonascii ha
      have : ∀ l : List UInt8, (∀ x ∈ l, 128 ≤ x) → nlB l = 0 := by
        intro l
        induction l with
        | nil => intro _; rfl
        | cons x l ih =>
          intro h
          have hx : x ≠ 10 := by intro h10; subst h10; exact absurd (h 10 List.mem_cons_self) (by decide)
          simp [nlB, hx, ih (fun y hy => h y (List.mem_cons_of_mem _ hy))]
      rw [this _ h128]; simp [hn]

theorem countNewlines_ws (ind n : Nat) : countNewlines (addWhitespace ind n) = n := by
  unfold addWhitespace
  by_cases h : n = 0
  · subst h; simp only [if_true]; decide
  · simp only [h, if_false]
    rw [countNewlines_append, countNewlines_replicate_nl, countNewlines_blanks _ (mem_indentBlanks ind)]; rfl

theorem nlB_ws (ind off : Nat) : nlB (encL (addWhitespace ind off)) = off := by
  rw [nlB_encL, countNewlines_ws]

theorem countNewlines_zero_of : ∀ (t : List Char), (∀ c ∈ t, c ≠ '\n') → countNewlines t = 0
  | [], _ => rfl
  | c :: cs, h => by
    rw [countNewlines_cons, countNewlines_zero_of cs (fun x hx => h x (List.mem_cons_of_mem _ hx))]
    simp [h c List.mem_cons_self]

theorem escape_no_nl (str : List Char) : ∀ c ∈ escape str, c ≠ '\n' := by
  intro c hc
  simp only [escape, List.mem_flatMap] at hc
  obtain ⟨d, _, hd⟩ := hc
  unfold escChar at hd
  split at hd
  · simp at hd; rcases hd with rfl | rfl <;> decide
  split at hd
  · simp at hd; rcases hd with rfl | rfl <;> decide
  split at hd
  · simp at hd; rcases hd with rfl | rfl <;> decide
  split at hd
  · simp at hd; rcases hd with rfl | rfl <;> decide
  split at hd
  · simp at hd; rcases hd with rfl | rfl <;> decide
  split at hd
  · simp at hd; rcases hd with rfl | rfl <;> decide
  · rename_i h1 h2 h3 h4 h5 h6
    simp at hd; subst hd; exact h5

/-- kind, line breaks and text of the segment of a written token -/
theorem toSeg_facts (w : WTok) (hw : TokLex w) :
    tokCode (toSeg w).kind.tt = w.ty ∧ nlB (toSeg w).nl = w.off ∧ nlB (toSeg w).core = w.nl ∧
      List.replicate (toSeg w).k 32 ++ (toSeg w).core = encL w.text := by
  have plain : ∀ (kd : SKind), w.ty ≠ 6 → toSeg w = ⟨encL (addWhitespace w.ind w.off), 0, encL w.text, kd⟩ →
      tokCode kd.tt = w.ty → (∀ c ∈ w.text, c ≠ '\n') →
      tokCode (toSeg w).kind.tt = w.ty ∧ nlB (toSeg w).nl = w.off ∧ nlB (toSeg w).core = w.nl ∧
        List.replicate (toSeg w).k 32 ++ (toSeg w).core = encL w.text := by
    intro kd h6 hseg hk hnl
    rw [hseg]
    refine ⟨hk, nlB_ws _ _, ?_, by simp⟩
    simp only [WTok.nl, h6, if_false]
    rw [nlB_encL, countNewlines_zero_of _ hnl]
  unfold TokLex at hw
  match hty : w.ty, hw with
  | 0, hw =>
    obtain ⟨c, cs, ht, hall, _⟩ := hw
    rw [← hty]
    refine plain .ident (by omega) (by unfold toSeg; rw [hty]; rfl) (by rw [hty]; rfl) ?_
    intro x hx hn; subst hn
    exact absurd (hall _ hx).2 (by decide)
  | 1, hw =>
    rw [← hty]
    exact plain .kbegin (by omega) (by unfold toSeg; rw [hty]; rfl) (by rw [hty]; rfl) (by rw [hw]; decide)
  | 2, hw =>
    rw [← hty]
    exact plain .kend (by omega) (by unfold toSeg; rw [hty]; rfl) (by rw [hty]; rfl) (by rw [hw]; decide)
  | 4, hw =>
    obtain ⟨str, ht⟩ := hw
    rw [← hty]
    refine plain (.str (encL (w.text.tail.dropLast))) (by omega) (by unfold toSeg; rw [hty]; rfl) (by rw [hty]; rfl) ?_
    rw [ht]
    intro x hx
    simp only [List.mem_cons, List.mem_append, List.not_mem_nil, or_false] at hx
    rcases hx with rfl | hx | rfl
    · decide
    · exact escape_no_nl str x hx
    · decide
  | 5, hw =>
    obtain ⟨c, cs, ht, hall, hf1, hf2, hrest, _⟩ := hw
    rw [← hty]
    refine plain .num (by omega) (by unfold toSeg; rw [hty]; rfl) (by rw [hty]; rfl) ?_
    intro x hx hn; subst hn
    rw [ht] at hx
    rcases List.mem_cons.1 hx with h | h
    · rw [← h] at hf2; exact absurd hf2 (by decide)
    · exact absurd (hrest _ h) (by decide)
  | 6, hw =>
    have hseg : toSeg w = ⟨List.replicate w.off 10, cmtBlanks w.text, encL (cmtRest w.text),
        if isLineCmt w.text then .line else .block⟩ := by unfold toSeg; rw [hty]; rfl
    rw [hseg]
    refine ⟨by split <;> rfl, ?_, ?_, ?_⟩
    · have : ∀ n, nlB (List.replicate n (10 : UInt8)) = n := by
        intro n; induction n with
        | zero => rfl
        | succ n ih => simp [List.replicate_succ, nlB, ih]; omega
      exact this _
    · simp only [WTok.nl, hty, if_true]
      rw [nlB_encL]
      conv => rhs; rw [cmt_split w.text, countNewlines_append]
      rw [countNewlines_zero_of (List.replicate _ ' ') (by intro c hc; rw [List.eq_of_mem_replicate hc]; decide)]
      omega
    · conv => rhs; rw [cmt_split w.text, encL_append, encL_replicate _ _ (by decide), asciiB_space]
  | 3, hw => exact hw.elim
  | n + 7, hw => exact hw.elim

theorem extract_mid (pre m post : List UInt8) :
    ((pre ++ (m ++ post)).toArray.extract pre.length (pre.length + m.length)).toList = m := by
  rw [List.extract_toArray]
  simp [List.extract_eq_drop_take]

/-- the tokenizer tokens of a lexable stream, converted the way the driver does it, are the parser tokens `mkToks` -/
theorem conv_segs (lx : LexEnv) (b : Bytes) : ∀ (ws : List WTok) (done : List UInt8) (l : Nat),
    (∀ w ∈ ws, TokLex w) → b = (done ++ segsBytes (ws.map toSeg)).toArray →
    (segsTokens done.length l (ws.map toSeg)).map (convTok lx b) = mkToksFrom lx l ws
  | [], _, _, _, _ => rfl
  | w :: ws, done, l, hall, hb => by
    have hw := hall w List.mem_cons_self
    obtain ⟨hk, hnl, hcore, htext⟩ := toSeg_facts w hw
    simp only [List.map_cons, segsTokens, mkToksFrom]
    have hb' : b = ((done ++ (toSeg w).nl) ++ ((List.replicate (toSeg w).k 32 ++ (toSeg w).core) ++
        segsBytes (ws.map toSeg))).toArray := by
      rw [hb]; simp [segsBytes, Seg.bytes]
    have hext : (b.extract (done.length + (toSeg w).nl.length)
        (done.length + (toSeg w).nl.length + (toSeg w).k + (toSeg w).core.length)).toList = encL w.text := by
      have := extract_mid (done ++ (toSeg w).nl) (List.replicate (toSeg w).k 32 ++ (toSeg w).core) (segsBytes (ws.map toSeg))
      rw [← hb'] at this
      simp only [List.length_append, List.length_replicate] at this
      rw [Nat.add_assoc (done.length + (toSeg w).nl.length), this, htext]
    congr 1
    · simp only [convTok, hext, decodeL_encL, hk, hnl, WTok.toPTok]
    · have := conv_segs lx b ws (done ++ (toSeg w).bytes) (l + w.off + w.nl) (fun x hx => hall x (List.mem_cons_of_mem _ hx))
        (by rw [hb]; simp [segsBytes])
      rw [← this, hnl, hcore]
      simp [Seg.bytes_length, Nat.add_assoc]

/-- **the written text of a lexable token stream is tokenized into exactly that stream**: the tokenizer succeeds, and
    the driver's conversion of its tokens gives the parser tokens `mkToks lx ws` (kinds, texts, line numbers, interned
    symbols, float annotations) -/
theorem lex_written (lx : LexEnv) (ws : List WTok) (h : StreamLex none ws) :
    ∃ ts, Lex.tokenize (encL (renderToks ws)).toArray = .ok ts ∧
      ts.map (convTok lx (encL (renderToks ws)).toArray) = mkToks lx ws := by
  have hok : segsOk none none (ws.map toSeg) :=
    segsOk_of_streamLex ws none none none h (fun h => by cases h) (fun _ _ _ _ _ => by simp)
  have hall : ∀ w ∈ ws, TokLex w := by
    have gen : ∀ (ws : List WTok) (p : Option WTok), StreamLex p ws → ∀ w ∈ ws, TokLex w := by
      intro ws
      induction ws with
      | nil => intro _ _ w hw; cases hw
      | cons a as ih =>
        intro p hs w hw
        rcases List.mem_cons.1 hw with rfl | hw
        · exact hs.1
        · exact ih _ hs.2.2.2 w hw
    exact gen ws none h
  refine ⟨segsTokens 0 1 (ws.map toSeg), ?_, ?_⟩
  · rw [← segsBytes_map]; exact tokenize_segs _ hok
  · exact conv_segs lx _ ws [] 1 hall (by rw [segsBytes_map]; rfl)

end A2l.Tree
