import A2lVerif.Lemmas.TreeDev
import A2lVerif.Lemmas.TreeTotal
import A2lVerif.Lemmas.TreeWriter
/-! # C01 (save / reload stability): definitions

The written text of a value is described by an *ordered tree* `OT` (the items of every block in the order in which
the writer emits them: sorted by `tagLe`, position restrictions applied) and by its flat *token stream* `List WTok`
(kind, text, number of line breaks in front of it, indent level).  -/
namespace A2l.Tree
open A2l.G A2l.Sc

/-- a token as the writer emits it: kind (`PTok.ty`), text, line breaks in front of it, indent level used for the
    blanks behind those line breaks -/
structure WTok where
  ty : Nat
  text : List Char
  off : Nat
  ind : Nat
  deriving Repr, DecidableEq, Inhabited

/-- how the driver annotates tokens: identifier texts are interned (`sym`), number texts are run through the float
    codec (`fl`) -/
structure LexEnv where
  symOf : List Char → Nat
  flOf : List Char → Option (List Char)

def WTok.toPTok (lx : LexEnv) (w : WTok) (line : Nat) : PTok :=
  { ty := w.ty, text := w.text, line := line, fileid := 0,
    sym := if w.ty = 0 then lx.symOf w.text else noSym,
    fl := if w.ty = 5 then lx.flOf w.text else none }

/-- line breaks inside the token (only comments contain any in written text) -/
def WTok.nl (w : WTok) : Nat := if w.ty = 6 then countNewlines w.text else 0

/-- the parser tokens of a written token stream whose first token is preceded by `line - 1` complete lines -/
def mkToksFrom (lx : LexEnv) : Nat → List WTok → List PTok
  | _, [] => []
  | line, w :: ws => w.toPTok lx (line + w.off) :: mkToksFrom lx (line + w.off + w.nl) ws

def mkToks (lx : LexEnv) (ws : List WTok) : List PTok := mkToksFrom lx 1 ws

/-- the text of a token stream -/
def renderTok (w : WTok) : List Char :=
  (if w.ty = 6 then List.replicate w.off '\n' else addWhitespace w.ind w.off) ++ w.text

def renderToks (ws : List WTok) : List Char := ws.flatMap renderTok

/-! ## parameters (fields) -/

def scalarToks (ind : Nat) : Val → List WTok
  | .ident s off => [⟨0, s, off, ind⟩]
  | .enum s off => [⟨0, s, off, ind⟩]
  | .str s off => [⟨4, '"' :: (escape s ++ ['"']), off, ind⟩]
  | .int i hex off w => [⟨5, printInt (intTyOf w) i hex, off, ind⟩]
  | .dbl s off => [⟨5, s, off, ind⟩]
  | _ => []

def elemToks (ind : Nat) : Val → List WTok
  | .block _ _ fields _ _ => fields.flatMap (scalarToks ind)
  | v => scalarToks ind v

def fieldToks (ind : Nat) : Val → List WTok
  | .arr vs => vs.flatMap (elemToks ind)
  | .seq vs => vs.flatMap (elemToks ind)
  | v => elemToks ind v

def fieldsToks (ind : Nat) (fs : List Val) : List WTok := fs.flatMap (fieldToks ind)

/-- layout bookkeeping of a struct value inside a parameter list is not written: normalise it away -/
def normElem : Val → Val
  | .block ty _ fields _ _ => .block ty ⟨0, 0, 0, 0, 0⟩ fields [] []
  | v => v

def normField : Val → Val
  | .arr vs => .arr (vs.map normElem)
  | .seq vs => .seq (vs.map normElem)
  | v => normElem v

/-! ## ordered trees -/

/-- a block / keyword with its items in written order, or a comment. `arm` = index of the arm of the parent's
    tagged part, `tag` / `blk` = that arm's tag text and block flag, `so` / `eo` = line breaks in front of the
    (begin) tag and in front of `/end` -/
inductive OT where
  | node (arm : Nat) (tag : List Char) (blk : Bool) (ty so eo : Nat) (fields : List Val) (items : List OT)
  | cmt (text : List Char) (off : Nat)
  deriving Inhabited

def beginText : List Char := "/begin".toList
def endText : List Char := "/end".toList

def headToks (ind : Nat) (tag : List Char) (blk : Bool) (so : Nat) : List WTok :=
  if blk then [⟨1, beginText, so, ind⟩, ⟨0, tag, 0, ind⟩] else [⟨0, tag, so, ind⟩]

def closeToks (ind : Nat) (tag : List Char) (blk : Bool) (eo : Nat) : List WTok :=
  if blk then [⟨2, endText, eo, ind⟩, ⟨0, tag, 0, ind⟩] else []

mutual
def OT.toks (ind : Nat) : OT → List WTok
  | .node _ tag blk _ so eo fields items =>
    headToks ind tag blk so ++ (fieldsToks (ind + 1) fields ++ (OT.toksL (ind + 1) items ++ closeToks ind tag blk eo))
  | .cmt text off => [⟨6, text, off, ind⟩]
def OT.toksL (ind : Nat) : List OT → List WTok
  | [] => []
  | x :: xs => x.toks ind ++ OT.toksL ind xs
end

/-- the tokens that `T::parse` of the node's type consumes: everything behind the tag -/
def OT.bodyToks (ind : Nat) : OT → List WTok
  | .node _ tag blk _ _ eo fields items =>
    fieldsToks (ind + 1) fields ++ (OT.toksL (ind + 1) items ++ closeToks ind tag blk eo)
  | .cmt _ _ => []

/-- the first token that is not a comment -/
def nextNC : List WTok → Option WTok
  | [] => none
  | w :: ws => if w.ty = 6 then nextNC ws else some w

/-! ## what a written value has to satisfy so that it can be read back -/

/-- static parameters of the well-formedness predicates -/
structure RCfg where
  e : Env
  lx : LexEnv
  ver : Nat

/-- an identifier that `get_identifier` accepts without complaint in strict mode -/
def IdentOk (strict : Bool) (s : List Char) : Prop :=
  ∃ c cs, s = c :: cs ∧ (strict = true → isAsciiDigit c = false ∧ utf8Len s ≤ 1024)

def ScalarOk (c : RCfg) : ItemTy → Val → Prop
  | .ident, .ident s _ => IdentOk c.e.strict s
  | .string, .str _ _ => True
  | .strMax n, .str s off => off = 0 ∧ (c.e.strict = true → utf8Len s ≤ n)
  | .double, .dbl s _ => c.lx.flOf s = some s
  | .float, .dbl s _ => c.lx.flOf s = some s
  | .int w, .int v _ _ w' => w' = w ∧ (intTyOf w).inRange v
  | .enumRef ty, .enum s _ =>
    ∃ items it, c.e.table.lookup ty = some (.enum items) ∧ IdentOk c.e.strict s ∧
      lookupEnumItem items (c.lx.symOf s) = some it ∧ (it.vlo ≠ 0 ∧ c.ver < it.vlo → c.e.strict = false)
  | _, _ => False

def ScalarsOk (c : RCfg) : List ItemTy → List Val → Prop
  | [], [] => True
  | it :: its, v :: vs => ScalarOk c it v ∧ ScalarsOk c its vs
  | _, _ => False

/-- a scalar, or a struct of scalars (normalised layout, no tagged part) -/
def ElemOk (c : RCfg) : ItemTy → Val → Prop
  | .structRef ty, .block ty' info fs ch cm =>
    ty' = ty ∧ info = ⟨0, 0, 0, 0, 0⟩ ∧ ch = [] ∧ cm = [] ∧
      ∃ sits, c.e.table.lookup ty = some (.block false sits [] false) ∧ sits ≠ [] ∧ ScalarsOk c sits fs
  | .structRef _, _ => False
  | it, v => ScalarOk c it v

/-- types of scalar parameters (with resolvable enum reference) -/
def ScalarTyOk (tbl : Table) : ItemTy → Prop
  | .enumRef ty => ∃ items, tbl.lookup ty = some (.enum items)
  | .structRef _ => False
  | .arr _ _ => False
  | .seq _ _ => False
  | _ => True

/-- types of array / sequence elements: scalars and structs that start with a scalar -/
def ElemTyOk (tbl : Table) : ItemTy → Prop
  | .structRef ty => ∃ it its, tbl.lookup ty = some (.block false (it :: its) [] false) ∧ ScalarTyOk tbl it
  | it => ScalarTyOk tbl it

/-- kind of the first token of a scalar / of an element -/
def firstTyS : ItemTy → Nat
  | .ident => 0 | .enumRef _ => 0 | .string => 4 | .strMax _ => 4 | _ => 5

def firstTy (tbl : Table) : ItemTy → Nat
  | .structRef ty => (match tbl.lookup ty with
    | some (.block _ (it :: _) _ _) => firstTyS it
    | _ => 5)
  | it => firstTyS it

/-- the greedy sequence loop ends in front of the next token: it cannot start another element (or, for identifier
    sequences, it is one of the stop tags) -/
def SeqStops (c : RCfg) (of : ItemTy) (stop : List Nat) : Option WTok → Prop
  | none => True
  | some t =>
    (t.ty ≠ firstTy c.e.table of ∧ ¬ (firstTy c.e.table of = 4 ∧ t.ty = 0)) ∨
    (of = .ident ∧ t.ty = 0 ∧ t.text ≠ [] ∧ stop.contains (c.lx.symOf t.text) = true)

def elemStopFree (c : RCfg) (stop : List Nat) : Val → Prop
  | .ident s _ => stop.contains (c.lx.symOf s) = false
  | _ => True

def FieldOk (c : RCfg) : ItemTy → Val → List WTok → Prop
  | .arr of n, .arr vs, _ => vs.length = n ∧ (∀ v ∈ vs, ElemOk c of v)
  | .arr _ _, _, _ => False
  | .seq of stop, .seq vs, rest =>
    (∀ v ∈ vs, ElemOk c of v) ∧ ElemTyOk c.e.table of ∧ (stop ≠ [] → of = .ident) ∧
      (∀ v ∈ vs, elemStopFree c stop v) ∧ SeqStops c of stop (nextNC rest)
  | .seq _ _, _, _ => False
  | it, v, _ => ElemOk c it v

def FieldsOk (c : RCfg) (ind : Nat) : List ItemTy → List Val → List WTok → Prop
  | [], [], _ => True
  | it :: its, f :: fs, rest => FieldOk c it f (fieldsToks ind fs ++ rest) ∧ FieldsOk c ind its fs rest
  | _, _, _ => False

def OT.isArm (j : Nat) : OT → Bool
  | .node a _ _ _ _ _ _ _ => a == j
  | .cmt _ _ => false

def OT.isCmt : OT → Bool
  | .node .. => false
  | .cmt _ _ => true

def OT.pos (code : List CodeEntry) : OT → Option Nat
  | .node _ _ _ ty _ _ fields _ => posRestrict code ty fields
  | .cmt _ _ => none

/-- the position-restricted items stand in the order of their positions -/
def PosSorted (code : List CodeEntry) (items : List OT) : Prop :=
  (items.filter (fun o => (o.pos code).isSome)).Pairwise (fun a b => (a.pos code).getD 0 ≤ (b.pos code).getD 0)

/-- multiplicities of the arms of a tagged part -/
def MultOk (strict : Bool) (arms : List Arm) (items : List OT) : Prop :=
  ∀ j a, arms[j]? = some a →
    (a.repeat_ = false → (items.filter (OT.isArm j)).length ≤ 1) ∧
    (a.required = true → (items.filter (OT.isArm j)).length = 0 → a.repeat_ = true ∧ strict = false)

mutual
/-- `o` can be read back by the parser: `parms` / `pib` = arms of the parent and whether the parent is a block,
    `rest` = the tokens that follow `o` in the file -/
def OT.ok (c : RCfg) (ind : Nat) (parms : List Arm) (pib : Bool) : OT → List WTok → Prop
  | .node arm tag blk ty so eo fields items, rest =>
    ∃ a its arms ht, parms[arm]? = some a ∧ a.ty = ty ∧ tag = symText c.e.symbols a.tag ∧ blk = a.block ∧
      c.e.table.lookup ty = some (.block blk its arms ht) ∧
      (a.vlo ≠ 0 ∧ c.ver < a.vlo → c.e.strict = false) ∧
      (blk = false → eo = 0 ∧ rest ≠ [] ∧ ht = false) ∧
      IdentOk c.e.strict tag ∧ parms.findIdx? (·.tag == c.lx.symOf tag) = some arm ∧
      fields.map normField = fields ∧
      FieldsOk c (ind + 1) its fields (OT.toksL (ind + 1) items ++ (closeToks ind tag blk eo ++ rest)) ∧
      (ht = false → items = []) ∧
      OT.okL c (ind + 1) arms blk items (closeToks ind tag blk eo ++ rest) ∧
      MultOk c.e.strict arms items ∧ PosSorted c.e.code items
  | .cmt _ _, _ => pib = true
def OT.okL (c : RCfg) (ind : Nat) (parms : List Arm) (pib : Bool) : List OT → List WTok → Prop
  | [], _ => True
  | x :: xs, rest => OT.ok c ind parms pib x (OT.toksL ind xs ++ rest) ∧ OT.okL c ind parms pib xs rest
end

end A2l.Tree
