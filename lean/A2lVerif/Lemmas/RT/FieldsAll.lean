import A2lVerif.Lemmas.RT.SeqEnd
/-! # C01: reading back arrays, sequences and whole parameter lists -/
namespace A2l.Tree
open A2l.G A2l.Sc

theorem Runs.attempt_ok {α} {m : PM α} {e : Env} {s : PState} {a : α} {n : Nat} (h : Runs m e s a n) :
    Runs (attempt m) e s (.ok a) n := by
  obtain ⟨s', h1, h2⟩ := h
  exact ⟨s', by unfold attempt; rw [h1], h2⟩

theorem Fails.attempt {α} {m : PM α} {e : Env} {s : PState} (h : Fails m e s) :
    ∃ d s', attempt m e s = .ok (.error d) s' ∧ s.seqId ≤ s'.seqId ∧ s'.ver = s.ver := by
  obtain ⟨d, s', h1, h2, h3⟩ := h
  exact ⟨d, s', by unfold A2l.Tree.attempt; rw [h1], h2, h3⟩

/-- the stop test of the sequence loop -/
def isStopOf (stop : List Nat) (o : Option PTok) : Bool :=
  match stop, o with
  | [], _ => false
  | _, some t => stop.contains t.sym
  | _, none => false

/-- composition at the concrete intermediate state -/
theorem Runs.bindAt {α β} {m : PM α} {f : α → PM β} {e : Env} {s s1 : PState} {a : α} {b : β} {n k t : Nat}
    (h1 : m e s = .ok a s1) (a1 : Adv s s1 n) (h2 : Runs (f a) e s1 b k) (ht : n + k = t) :
    Runs (m >>= f) e s b t := by
  obtain ⟨s2, e2, a2⟩ := h2
  exact ⟨s2, by rw [bind_def, h1]; exact e2, (a1.trans a2).cast ht⟩

section
variable (c : RCfg) {all : List WTok} (hT : Toks c.e c.lx all)
include hT

/-- the elements of an array -/
theorem parseElemsArr (ctx : Ctx) (ind : Nat) (rest : List WTok) (hr : rest ≠ []) (of : ItemTy) :
    ∀ (vs : List Val) (pre : List WTok) (s : PState) (fuel : Nat), (∀ v ∈ vs, ElemOk c of v) →
      all = pre ++ (vs.flatMap (elemToks ind) ++ rest) → s.pos = pre.length → s.ver = c.ver →
      vs.length + (vs.flatMap (elemToks ind)).length + 4 ≤ fuel →
      ∃ vs', Runs (parseArr fuel ctx of vs.length) c.e s vs' (vs.flatMap (elemToks ind)).length ∧ vs'.map normElem = vs
  | [], pre, s, fuel, _, _, _, _, hf => by
    obtain ⟨f, rfl⟩ : ∃ f, fuel = f + 1 := ⟨fuel - 1, by omega⟩
    exact ⟨[], by rw [List.length_nil, parseArr]; exact Runs.pure _ _ _, rfl⟩
  | v :: vs, pre, s, fuel, hok, hs, hp, hv, hf => by
    obtain ⟨f, rfl⟩ : ∃ f, fuel = f + 1 := ⟨fuel - 1, by omega⟩
    simp only [List.flatMap_cons, List.length_append, List.length_cons, List.append_assoc] at hs hf ⊢
    have hr' : vs.flatMap (elemToks ind) ++ rest ≠ [] := by simp [hr]
    obtain ⟨v', hv1, hv2⟩ := parseElem c hT ctx ind _ hr' (hok v List.mem_cons_self) pre s f hs hp hv (by omega)
    obtain ⟨s1, e1, a1⟩ := hv1
    obtain ⟨vs', hvs1, hvs2⟩ := parseElemsArr ctx ind rest hr of vs (pre ++ elemToks ind v) s1 f
      (fun x hx => hok x (List.mem_cons_of_mem _ hx)) (by rw [hs]; simp) (by rw [a1.pos, hp]; simp)
      (by rw [a1.ver, hv]) (by omega)
    refine ⟨v' :: vs', ?_, by simp [hv2, hvs2]⟩
    rw [parseArr]
    exact Runs.bindAt e1 a1 (Runs.bind' hvs1 (fun s3 _ => Runs.pure _ _ _) rfl) rfl

/-- an identifier parser in front of (comments and) an identifier token: it fails (strict mode, malformed
    identifier) or reads that token -/
theorem parseIdent_next (ctx : Ctx) {pre cs r' : List WTok} {t : WTok} (hs : all = pre ++ (cs ++ t :: r'))
    (hc : ∀ w ∈ cs, w.ty = 6) (ht : t.ty = 0) (hne : t.text ≠ []) (s : PState) (hp : s.pos = pre.length) (fuel : Nat) :
    Fails (parseItem (fuel + 1) ctx .ident) c.e s ∨
    ∃ v s2, parseItem (fuel + 1) ctx .ident c.e s = .ok v s2 ∧ s2.pos = s.pos + cs.length + 1 ∧
      s.seqId ≤ s2.seqId ∧ s2.ver = s.ver := by
  have hsz : cs.length + 1 ≤ c.e.toks.size + 1 := by rw [hT.size, hs]; simp; omega
  obtain ⟨s1, h1, p1, q1, v1⟩ := expectAux_skip hT ctx 0 (by decide) t r' ht cs pre s _ hc hs hp hsz
  obtain ⟨ch, chs, htext⟩ := List.exists_cons_of_ne_nil hne
  have hall : all ≠ [] := by rw [hs]; simp
  rw [parseItem]
  unfold getIdentifier
  by_cases hbad : (isAsciiDigit ch || decide (utf8Len (ch :: chs) > 1024)) = true ∧ c.e.strict = true
  · left
    refine Fails.bind ⟨⟨.invalidIdentifier, s1.lastLine⟩, s1, ?_, by omega, v1⟩
    rw [bind_def, expectToken_def, h1]
    simp only [WTok.toPTok_text, htext, if_pos hbad.1]
    rw [bind_def]
    simp only [errorOrLog, getEnv_bind, hbad.2, if_true]
    rfl
  · right
    obtain ⟨n, hn⟩ := lineOff_any hT hall s1
    have hid : Runs ((if (isAsciiDigit ch || decide (utf8Len (ch :: chs) > 1024)) = true then
        (errorOrLog .invalidIdentifier >>= fun _ => (Pure.pure (ch :: chs) : PM (List Char)))
        else Pure.pure (ch :: chs))) c.e s1 (ch :: chs) 0 := by
      refine Runs.iteE (fun hb => ?_) (fun s2 _ => Runs.pure _ _ _)
      cases hst : c.e.strict with
      | false => rfl
      | true => exact absurd ⟨hb, hst⟩ hbad
    obtain ⟨s2, e2, a2⟩ := hid
    obtain ⟨n2, hn2⟩ := lineOff_any hT hall s2
    refine ⟨.ident (ch :: chs) n2, s2, ?_, by rw [a2.pos, p1], by have := a2.seq; omega, by rw [a2.ver, v1]⟩
    rw [bind_def, bind_def, expectToken_def, h1]
    simp only [WTok.toPTok_text, htext]
    rw [e2]
    simp only [bind_def, hn2]
    rfl

omit hT in
theorem SeqStops.cases {of : ItemTy} {stop : List Nat} {rest : List WTok} (h : SeqStops c of stop (nextNC rest)) :
    WrongKind (firstTy c.e.table of) rest ∨
    ∃ t, nextNC rest = some t ∧ of = .ident ∧ t.ty = 0 ∧ t.text ≠ [] ∧ stop.contains (c.lx.symOf t.text) = true := by
  unfold WrongKind
  cases hn : nextNC rest with
  | none => exact .inl trivial
  | some t =>
    rw [hn] at h
    rcases h with h | h
    · exact .inl h
    · exact .inr ⟨t, rfl, h⟩

/-- the greedy sequence loop ends in front of `rest` -/
theorem parseSeq_end (ctx : Ctx) (of : ItemTy) (stop : List Nat) (acc : List Val) (hty : ElemTyOk c.e.table of)
    {pre rest : List WTok} (hs : all = pre ++ rest) (hend : SeqStops c of stop (nextNC rest))
    (s : PState) (hp : s.pos = pre.length) (fuel : Nat) :
    Runs (parseSeq (fuel + 5) ctx of stop acc) c.e s acc.reverse 0 := by
  have fin : ∀ d s', A2l.Tree.attempt (parseItem (fuel + 4) ctx of) c.e s = .ok (.error d) s' → s.seqId ≤ s'.seqId →
      s'.ver = s.ver → Runs (parseSeq (fuel + 5) ctx of stop acc) c.e s acc.reverse 0 := by
    intro d s' h1 h2 h3
    refine ⟨{ s' with pos := s.pos }, ?_, rfl, h2, h3⟩
    rw [parseSeq]
    simp only [getTokenpos_bind]
    rw [bind_def, h1]
    rfl
  rcases hend.cases c with hw | ⟨t, hn, rfl, ht0, htne, hcont⟩
  · obtain ⟨d, s', h1, h2, h3⟩ := (parseElem_fails c hT ctx hty hs hw s hp fuel).attempt
    exact fin d s' h1 h2 h3
  · obtain ⟨cs, r, h1, h2, h3⟩ := nextNC_split rest
    rcases h3 with ⟨_, h3⟩ | ⟨t', r', rfl, _, h3⟩
    · rw [h3] at hn; cases hn
    · rw [h3] at hn; cases hn
      rcases parseIdent_next c hT ctx (by rw [hs, h1]) h2 ht0 htne s hp (fuel + 3) with hf | ⟨v, s2, e2, p2, q2, v2⟩
      · obtain ⟨d, s', h1, h2, h3⟩ := hf.attempt
        exact fin d s' h1 h2 h3
      · refine ⟨{ s2 with pos := s.pos }, ?_, rfl, q2, v2⟩
        have hat := hT.at (pre := pre ++ cs) (rest := r') (w := t) (by rw [hs, h1]; simp) (n := s2.pos - 1)
          (by rw [p2, hp]; simp)
        have hstop : stop ≠ [] := by intro h; subst h; simp at hcont
        obtain ⟨x, xs, rfl⟩ := List.exists_cons_of_ne_nil hstop
        rw [parseSeq]
        simp only [getTokenpos_bind]
        rw [bind_def]
        unfold A2l.Tree.attempt
        rw [e2]
        simp only [getEnv_bind, getState_bind, hat, WTok.toPTok, ht0, if_true, hcont]
        rfl

omit hT in
theorem elemOk_ident {v : Val} (h : ElemOk c .ident v) : ∃ str off, v = .ident str off := by
  cases v <;> simp only [ElemOk, ScalarOk] at h
  exact ⟨_, _, rfl⟩

/-- the elements of a sequence, and its end -/
theorem parseElemsSeq (ctx : Ctx) (ind : Nat) (rest : List WTok) (hr : rest ≠ []) (of : ItemTy) (stop : List Nat)
    (hty : ElemTyOk c.e.table of) (hstop : stop ≠ [] → of = .ident) (hend : SeqStops c of stop (nextNC rest)) :
    ∀ (vs acc : List Val) (pre : List WTok) (s : PState) (fuel : Nat), (∀ v ∈ vs, ElemOk c of v) →
      (∀ v ∈ vs, elemStopFree c stop v) →
      all = pre ++ (vs.flatMap (elemToks ind) ++ rest) → s.pos = pre.length → s.ver = c.ver →
      vs.length + (vs.flatMap (elemToks ind)).length + 6 ≤ fuel →
      ∃ vs', Runs (parseSeq fuel ctx of stop acc) c.e s (acc.reverse ++ vs') (vs.flatMap (elemToks ind)).length ∧
        vs'.map normElem = vs
  | [], acc, pre, s, fuel, _, _, hs, hp, _, hf => by
    obtain ⟨f, rfl⟩ : ∃ f, fuel = f + 5 := ⟨fuel - 5, by simp at hf; omega⟩
    refine ⟨[], ?_, rfl⟩
    simp only [List.flatMap_nil, List.nil_append, List.append_nil, List.length_nil] at hs ⊢
    exact parseSeq_end c hT ctx of stop acc hty hs hend s hp f
  | v :: vs, acc, pre, s, fuel, hok, hfree, hs, hp, hv, hf => by
    obtain ⟨f, rfl⟩ : ∃ f, fuel = f + 1 := ⟨fuel - 1, by omega⟩
    simp only [List.flatMap_cons, List.length_append, List.length_cons, List.append_assoc] at hs hf ⊢
    have hr' : vs.flatMap (elemToks ind) ++ rest ≠ [] := by simp [hr]
    obtain ⟨v', hv1, hv2⟩ := parseElem c hT ctx ind _ hr' (hok v List.mem_cons_self) pre s f hs hp hv (by omega)
    obtain ⟨s1, e1, a1⟩ := hv1
    obtain ⟨vs', hvs1, hvs2⟩ := parseElemsSeq ctx ind rest hr of stop hty hstop hend vs (v' :: acc) (pre ++ elemToks ind v) s1 f
      (fun x hx => hok x (List.mem_cons_of_mem _ hx)) (fun x hx => hfree x (List.mem_cons_of_mem _ hx))
      (by rw [hs]; simp) (by rw [a1.pos, hp]; simp) (by rw [a1.ver, hv]) (by omega)
    refine ⟨v' :: vs', ?_, by simp [hv2, hvs2]⟩
    obtain ⟨s3, e3, a3⟩ := hvs1
    refine ⟨s3, ?_, (a1.trans a3)⟩
    rw [parseSeq]
    simp only [getTokenpos_bind]
    rw [bind_def]
    unfold A2l.Tree.attempt
    rw [e1]
    simp only [getEnv_bind, getState_bind]
    have hnostop : isStopOf stop c.e.toks[s1.pos - 1]? = false := by
      cases hst : stop with
      | nil => rfl
      | cons x xs =>
        have hof := hstop (by rw [hst]; exact List.cons_ne_nil x xs)
        subst hof
        obtain ⟨str, off, rfl⟩ := elemOk_ident c (hok v List.mem_cons_self)
        have hat := hT.at (pre := pre) (w := ⟨0, str, off, ind⟩) hs (n := s1.pos - 1)
          (by rw [a1.pos, hp]; simp [elemToks, scalarToks])
        have := hfree _ List.mem_cons_self
        simp only [elemStopFree, hst] at this
        rw [hat]
        simpa [isStopOf, WTok.toPTok] using this
    show (if isStopOf stop c.e.toks[s1.pos - 1]? = true then _ else _ : PM (List Val)) c.e s1 = _
    rw [hnostop]
    simp only [Bool.false_eq_true, if_false]
    rw [e3]
    simp

/-- number of elements of an array / sequence value (fuel bookkeeping) -/
def vlen : Val → Nat
  | .arr vs => vs.length
  | .seq vs => vs.length
  | _ => 0

omit hT in
theorem normField_of_elem {it : ItemTy} {v v' : Val} (hok : ElemOk c it v) (h : normElem v' = v) : normField v' = v := by
  cases v' <;> first | exact h | (cases it <;> simp [normElem] at h <;> subst h <;> simp [ElemOk, ScalarOk] at hok)

omit hT in
theorem fieldToks_of_elem {it : ItemTy} {v : Val} (hok : ElemOk c it v) (ind : Nat) : fieldToks ind v = elemToks ind v := by
  cases v <;> first | rfl | (cases it <;> simp [ElemOk, ScalarOk] at hok)

/-- one parameter -/
theorem parseField (ctx : Ctx) (ind : Nat) (rest : List WTok) (hr : rest ≠ []) {it : ItemTy} {fv : Val}
    (hok : FieldOk c it fv rest) (pre : List WTok) (s : PState) (fuel : Nat)
    (hs : all = pre ++ (fieldToks ind fv ++ rest)) (hp : s.pos = pre.length) (hv : s.ver = c.ver)
    (hf : vlen fv + (fieldToks ind fv).length + 8 ≤ fuel) :
    ∃ v', Runs (parseItem fuel ctx it) c.e s v' (fieldToks ind fv).length ∧ normField v' = fv := by
  obtain ⟨f, rfl⟩ : ∃ f, fuel = f + 1 := ⟨fuel - 1, by omega⟩
  by_cases harr : ∃ of n, it = .arr of n
  · obtain ⟨of, n, rfl⟩ := harr
    cases fv <;> simp only [FieldOk] at hok
    case arr vs =>
    obtain ⟨rfl, hel⟩ := hok
    simp only [fieldToks, vlen] at hs hf ⊢
    obtain ⟨vs', h1, h2⟩ := parseElemsArr c hT ctx ind rest hr of vs pre s f hel hs hp hv (by omega)
    refine ⟨.arr vs', ?_, by simp [normField, h2]⟩
    rw [parseItem]
    exact Runs.bind' h1 (fun s1 _ => Runs.pure _ _ _) rfl
  by_cases hseq : ∃ of stop, it = .seq of stop
  · obtain ⟨of, stop, rfl⟩ := hseq
    cases fv <;> simp only [FieldOk] at hok
    case seq vs =>
    obtain ⟨hel, hty, hstop, hfree, hend⟩ := hok
    simp only [fieldToks, vlen] at hs hf ⊢
    obtain ⟨vs', h1, h2⟩ := parseElemsSeq c hT ctx ind rest hr of stop hty hstop hend vs [] pre s f hel hfree hs hp hv
      (by omega)
    refine ⟨.seq vs', ?_, by simp [normField, h2]⟩
    rw [parseItem]
    exact Runs.bind' h1 (fun s1 _ => Runs.pure _ _ _) rfl
  · have hel : ElemOk c it fv := by
      cases it <;> first | exact hok | exact absurd ⟨_, _, rfl⟩ harr | exact absurd ⟨_, _, rfl⟩ hseq
    rw [fieldToks_of_elem c hel] at hs hf ⊢
    obtain ⟨v', h1, h2⟩ := parseElem c hT ctx ind rest hr hel pre s (f + 1) hs hp hv (by omega)
    exact ⟨v', h1, normField_of_elem c hel h2⟩

omit hT in
/-- fuel that certainly suffices for a parameter list -/
def fieldsNeed (ind : Nat) (fs : List Val) : Nat := fs.length + (fs.map vlen).sum + (fieldsToks ind fs).length + 9

/-- the parameter list of an element -/
theorem parseFields (ctx : Ctx) (ind : Nat) (rest : List WTok) (hr : rest ≠ []) :
    ∀ (its : List ItemTy) (fs : List Val) (pre : List WTok) (s : PState) (fuel : Nat),
      FieldsOk c ind its fs rest → all = pre ++ (fieldsToks ind fs ++ rest) → s.pos = pre.length → s.ver = c.ver →
      fieldsNeed ind fs ≤ fuel →
      ∃ fs', Runs (parseItems fuel ctx its) c.e s fs' (fieldsToks ind fs).length ∧ fs'.map normField = fs
  | [], [], pre, s, fuel, _, _, _, _, hf => by
    obtain ⟨f, rfl⟩ : ∃ f, fuel = f + 1 := ⟨fuel - 1, by simp [fieldsNeed] at hf; omega⟩
    exact ⟨[], by rw [parseItems]; exact Runs.pure _ _ _, rfl⟩
  | [], _ :: _, _, _, _, h, _, _, _, _ => by simp [FieldsOk] at h
  | _ :: _, [], _, _, _, h, _, _, _, _ => by simp [FieldsOk] at h
  | it :: its, fv :: fs, pre, s, fuel, hok, hs, hp, hv, hf => by
    obtain ⟨f, rfl⟩ : ∃ f, fuel = f + 1 := ⟨fuel - 1, by simp [fieldsNeed] at hf; omega⟩
    obtain ⟨hok1, hok2⟩ := hok
    simp only [fieldsNeed, fieldsToks, List.flatMap_cons, List.length_append, List.length_cons, List.append_assoc,
      List.map_cons, List.sum_cons] at hs hf ⊢
    have hr' : fs.flatMap (fieldToks ind) ++ rest ≠ [] := by simp [hr]
    obtain ⟨v', ⟨s1, e1, a1⟩, hv2⟩ := parseField c hT ctx ind _ hr' hok1 pre s f hs hp hv (by omega)
    obtain ⟨fs', hfs1, hfs2⟩ := parseFields ctx ind rest hr its fs (pre ++ fieldToks ind fv) s1 f hok2
      (by rw [hs]; simp [fieldsToks]) (by rw [a1.pos, hp]; simp) (by rw [a1.ver, hv])
      (by simp only [fieldsNeed, fieldsToks]; omega)
    refine ⟨v' :: fs', ?_, by simp [hv2, hfs2]⟩
    rw [parseItems]
    exact Runs.bindAt e1 a1 (Runs.bind' hfs1 (fun s3 _ => Runs.pure _ _ _) rfl) rfl

end
end A2l.Tree
