import A2lVerif.Lemmas.RT.LexBytes
/-! # C01: the tokenizer on a sequence of segments (byte level) -/
namespace A2l.Lex

inductive SKind where
  | ident | kbegin | kend | str (body : List UInt8) | num | block | line
  deriving Repr

/-- one token of the text with the white space in front of it: `nl` = white space that does not belong to the token,
    `k` = blanks that do (comments only: the tokenizer moves the start of a comment back over the blanks in front of
    it), `core` = the bytes from the first non-blank byte on -/
structure Seg where
  nl : List UInt8
  k : Nat
  core : List UInt8
  kind : SKind

def SKind.tt : SKind → TokType
  | .ident => .identifier | .kbegin => .begin | .kend => .end_ | .str _ => .string | .num => .number
  | .block => .comment | .line => .comment

def SKind.isComment : SKind → Bool
  | .block => true | .line => true | _ => false

def Seg.bytes (sg : Seg) : List UInt8 := sg.nl ++ (List.replicate sg.k 32 ++ sg.core)

def segsBytes : List Seg → List UInt8
  | [] => []
  | sg :: rest => sg.bytes ++ segsBytes rest

/-- the tokens of a segment list that starts at byte `p`, line `l` -/
def segsTokens : Nat → Nat → List Seg → List Token
  | _, _, [] => []
  | p, l, sg :: rest =>
    ⟨sg.kind.tt, p + sg.nl.length, p + sg.nl.length + sg.k + sg.core.length, l + nlB sg.nl⟩ ::
      segsTokens (p + sg.nl.length + sg.k + sg.core.length) (l + nlB sg.nl + nlB sg.core) rest

/-- what the tokenizer needs of one segment; `pl` = the byte in front of the segment (if any), `pt` = kind of the token
    in front of it, `next` = the byte behind it -/
def Seg.ok (pl : Option UInt8) (pt : Option TokType) (sg : Seg) (next : Option UInt8) : Prop :=
  (∀ c ∈ sg.nl, isWs c = true) ∧ sg.core ≠ [] ∧
  (match sg.kind with
    | .ident =>
      sg.k = 0 ∧ sg.nl ≠ [] ∧ (∀ c ∈ sg.core, isIdentChar c = true) ∧
      (∀ c cs, sg.core = c :: cs → (isAlpha c || c == 95) = true) ∧
      (match next with | none => True | some c => isIdentChar c = false) ∧
      (pt = some .begin → sg.core ≠ tagA2ml.toList)
    | .kbegin => sg.k = 0 ∧ sg.nl ≠ [] ∧ sg.core = 47 :: kwBegin
    | .kend => sg.k = 0 ∧ sg.nl ≠ [] ∧ sg.core = 47 :: kwEnd
    | .str body =>
      sg.k = 0 ∧ sg.nl ≠ [] ∧ StrBody body ∧ sg.core = 34 :: (body ++ [34]) ∧
      (match next with | none => True | some c => c ≠ 34)
    | .num =>
      sg.k = 0 ∧ sg.nl ≠ [] ∧
      (∃ c0 rest, sg.core = c0 :: rest ∧ (isAlpha c0 || c0 == 95) = false ∧ (c0 == 45 || isNumChar c0) = true ∧
        ∀ c ∈ rest, isNumChar c = true) ∧
      (match next with | none => True | some c => isNumChar c = false ∧ isIdentChar c = false) ∧
      sg.core ≠ [45] ∧ sg.core ≠ [46] ∧ sg.core ≠ [48, 120]
    | .block =>
      BlockCore sg.core ∧ (∀ c ∈ sg.nl, c ≠ 32) ∧ (sg.nl = [] → pl ≠ some 32)
    | .line =>
      (∃ rest, sg.core = 47 :: 47 :: rest ∧ ∀ c ∈ rest, c ≠ 10) ∧ (∀ c ∈ sg.nl, c ≠ 32) ∧ (sg.nl = [] → pl ≠ some 32) ∧
      (match next with | none => True | some c => c = 10))

def segsOk : Option UInt8 → Option TokType → List Seg → Prop
  | _, _, [] => True
  | pl, pt, sg :: rest =>
    sg.ok pl pt ((segsBytes rest).head?) ∧ segsOk (sg.bytes.getLast?) (some sg.kind.tt) rest

theorem loop_step {b : Bytes} {s s' : State} (f : Nat) (hlt : s.bytepos < b.size) (h : step b s = .cont s') :
    loop b (f + 1) s = loop b f s' := by
  rw [loop, if_pos hlt, h]

theorem noInclude_push {s : State} (tok : Token) (h : tok.ttype ≠ .include) (bp : Nat) (sep : Bool) (ln : Nat) :
    NoInclude ⟨s.tokens.push tok, bp, sep, ln⟩ := by
  intro t ht
  simp at ht
  subst ht; exact h

theorem isWs_32 : isWs 32 = true := by decide

/-- the state behind a segment -/
def Seg.after (sg : Seg) (s : State) (p : Nat) : State :=
  ⟨s.tokens.push ⟨sg.kind.tt, p + sg.nl.length, p + sg.nl.length + sg.k + sg.core.length, s.line + nlB sg.nl⟩,
    p + sg.nl.length + sg.k + sg.core.length, sg.kind.isComment, s.line + nlB sg.nl + nlB sg.core⟩

/-- iterations of the main loop that a segment needs less than two -/
def Seg.slack (sg : Seg) : Nat := if sg.nl = [] ∧ sg.k = 0 then 1 else 0

theorem nlB_replicate32 (k : Nat) : nlB (List.replicate k 32) = 0 := by
  induction k with
  | zero => rfl
  | succ k ih => simp [List.replicate_succ, nlB, ih]

/-- the white space in front of a token is skipped in one iteration -/
theorem gap_run {b : Bytes} {done gap core post : List UInt8} (hb : b = (done ++ (gap ++ (core ++ post))).toArray)
    (hgap : gap ≠ []) (hws : ∀ c ∈ gap, isWs c = true) (c0 : UInt8) (cs : List UInt8) (hcore : core = c0 :: cs)
    (hc0 : isWs c0 = false) (s : State) (hp : s.bytepos = done.length) (hni : NoInclude s) (f : Nat) :
    loop b (f + 1) s = loop b f { s with bytepos := done.length + gap.length, separated := true, line := s.line + nlB gap } := by
  have hsz := size_eq hb
  apply loop_step f (by rw [hp]; have := List.length_pos_iff.2 hgap; omega)
  exact step_ws hb hgap hws (by simp [hcore, hc0]) s hp hni

/-- a non-comment segment: white space, then a token whose step is `hstep` -/
theorem seg_run_plain {b : Bytes} {done post : List UInt8} (sg : Seg)
    (hb : b = (done ++ (sg.bytes ++ post)).toArray) (hk : sg.k = 0) (hnl : sg.nl ≠ [])
    (hws : ∀ c ∈ sg.nl, isWs c = true) (c0 : UInt8) (cs : List UInt8) (hcore : sg.core = c0 :: cs) (hc0 : isWs c0 = false)
    (hnc : sg.kind.isComment = false) (hnlc : nlB sg.core = 0)
    (s : State) (hp : s.bytepos = done.length) (hni : NoInclude s) (f : Nat)
    (hstep : ∀ s1 : State, s1.bytepos = (done ++ sg.nl).length → s1.separated = true → s1.tokens = s.tokens →
      step b s1 = .cont ⟨s1.tokens.push ⟨sg.kind.tt, (done ++ sg.nl).length, (done ++ sg.nl).length + sg.core.length, s1.line⟩,
        (done ++ sg.nl).length + sg.core.length, false, s1.line⟩) :
    loop b (f + 2) s = loop b (f + sg.slack) (sg.after s done.length) := by
  have hb1 : b = (done ++ (sg.nl ++ (sg.core ++ post))).toArray := by rw [hb]; simp [Seg.bytes, hk]
  have hsz := size_eq hb1
  have hsl : sg.slack = 0 := by simp [Seg.slack, hnl]
  rw [gap_run hb1 hnl hws c0 cs hcore hc0 s hp hni (f + 1)]
  have hlt : done.length + sg.nl.length < b.size := by
    have : 0 < sg.core.length := by rw [hcore]; simp
    simp only [List.length_append] at hsz
    omega
  rw [loop_step (s := ⟨s.tokens, done.length + sg.nl.length, true, s.line + nlB sg.nl⟩) f hlt
    (hstep _ (by simp) rfl rfl), hsl]
  simp only [Seg.after, hk, hnc, hnlc, List.length_append, Nat.add_zero]

theorem blockCore_head {core : List UInt8} (h : BlockCore core) : ∃ cs, core = 47 :: cs := by
  cases core with
  | nil => have := h.len; simp at this
  | cons c cs =>
    have := h.h0
    simp only [List.getElem?_cons_zero, Option.some.injEq] at this
    exact ⟨cs, by rw [this]⟩

theorem last_ne32_of {done nl : List UInt8} (hnl32 : ∀ c ∈ nl, c ≠ 32) (hpl : nl = [] → done.getLast? ≠ some 32) :
    (done ++ nl) = [] ∨ ∃ c, (done ++ nl).getLast? = some c ∧ c ≠ 32 := by
  by_cases hn : nl = []
  · subst hn
    simp only [List.append_nil]
    cases hd : done.getLast? with
    | none => left; simpa using hd
    | some c => right; exact ⟨c, rfl, fun h => hpl rfl (by rw [hd, h])⟩
  · right
    have hne : done ++ nl ≠ [] := by simp [hn]
    refine ⟨(done ++ nl).getLast hne, List.getLast?_eq_getLast hne, ?_⟩
    rw [List.getLast_append_of_ne_nil _ hn]
    exact hnl32 _ (List.getLast_mem hn)

/-- a comment segment -/
theorem seg_run_comment {b : Bytes} {done post : List UInt8} (sg : Seg)
    (hb : b = (done ++ (sg.bytes ++ post)).toArray) (hws : ∀ c ∈ sg.nl, isWs c = true)
    (cs : List UInt8) (hcore : sg.core = 47 :: cs) (hc : sg.kind.isComment = true) (htt : sg.kind.tt = .comment)
    (s : State) (hp : s.bytepos = done.length) (hni : NoInclude s) (f : Nat)
    (hstep : ∀ s1 : State, s1.bytepos = (done ++ sg.nl).length + sg.k → s1.tokens = s.tokens →
      step b s1 = .cont ⟨s1.tokens.push ⟨.comment, (done ++ sg.nl).length, (done ++ sg.nl).length + sg.k + sg.core.length, s1.line⟩,
        (done ++ sg.nl).length + sg.k + sg.core.length, true, s1.line + nlB sg.core⟩) :
    loop b (f + 2) s = loop b (f + sg.slack) (sg.after s done.length) := by
  have hsz0 : b.size = done.length + (sg.nl.length + sg.k + sg.core.length + post.length) := by
    rw [hb]; simp [Seg.bytes]; omega
  have hcl : 0 < sg.core.length := by rw [hcore]; simp
  by_cases hg : sg.nl = [] ∧ sg.k = 0
  · have hsl : sg.slack = 1 := by simp [Seg.slack, hg]
    rw [hsl, loop_step (s' := sg.after s done.length) (f + 1) (by omega)]
    rw [hstep s (by rw [hp, hg.1, hg.2]; simp) rfl]
    simp [Seg.after, hg.1, hg.2, htt, hc, nlB]
  · have hsl : sg.slack = 0 := by simp [Seg.slack, hg]
    have hgap : sg.nl ++ List.replicate sg.k 32 ≠ [] := by
      intro h
      have := List.append_eq_nil_iff.1 h
      exact hg ⟨this.1, by simpa using this.2⟩
    have hb1 : b = (done ++ ((sg.nl ++ List.replicate sg.k 32) ++ (sg.core ++ post))).toArray := by
      rw [hb]; simp [Seg.bytes]
    rw [gap_run hb1 hgap (by
        intro c hc'
        rcases List.mem_append.1 hc' with h | h
        · exact hws c h
        · rw [List.eq_of_mem_replicate h]; exact isWs_32) 47 cs hcore (by decide) s hp hni (f + 1)]
    have hlt : done.length + (sg.nl ++ List.replicate sg.k 32).length < b.size := by simp; omega
    have hst := hstep ⟨s.tokens, done.length + (sg.nl ++ List.replicate sg.k 32).length, true,
        s.line + nlB (sg.nl ++ List.replicate sg.k 32)⟩ (by simp; omega) rfl
    rw [loop_step f hlt hst, hsl]
    simp [Seg.after, htt, hc, nlB_append, nlB_replicate32]

/-- **one segment**: at most two iterations of the main loop produce its token -/
theorem seg_run {b : Bytes} {done post : List UInt8} (sg : Seg) (pt : Option TokType)
    (hb : b = (done ++ (sg.bytes ++ post)).toArray) (hok : sg.ok done.getLast? pt post.head?)
    (s : State) (hp : s.bytepos = done.length) (hni : NoInclude s)
    (hpt : ∀ t2, s.tokens.back? = some t2 → pt = some t2.ttype) (f : Nat) :
    loop b (f + 2) s = loop b (f + sg.slack) (sg.after s done.length) := by
  obtain ⟨hws, hcne, hkind⟩ := hok
  have hb2 : b = ((done ++ sg.nl) ++ (sg.core ++ post)).toArray → True := fun _ => trivial
  cases hk : sg.kind with
  | ident =>
    rw [hk] at hkind
    obtain ⟨hk0, hnl, hall, hfirst, hstop, hA⟩ := hkind
    obtain ⟨c0, cs, hcore⟩ := List.exists_cons_of_ne_nil hcne
    have hf := hfirst c0 cs hcore
    have hc0 : isWs c0 = false := by
      simp [isAlpha, isWs, UInt8.le_iff_toNat_le, ← UInt8.toNat_inj] at hf ⊢; omega
    have hnlc : nlB sg.core = 0 := by
      have : ∀ l : List UInt8, (∀ c ∈ l, isIdentChar c = true) → nlB l = 0 := by
        intro l
        induction l with
        | nil => intro _; rfl
        | cons c l ih =>
          intro h
          have hc := h c List.mem_cons_self
          have : (c == 10) = false := by
            cases hq : (c == 10) with
            | false => rfl
            | true => rw [beq_iff_eq.1 hq] at hc; exact absurd hc (by decide)
          simp [nlB, this, ih (fun x hx => h x (List.mem_cons_of_mem _ hx))]
      exact this _ hall
    refine seg_run_plain sg hb hk0 hnl hws c0 cs hcore hc0 (by rw [hk]; rfl) hnlc s hp hni f ?_
    intro s1 hp1 hsep1 htok1
    have hb1 : b = ((done ++ sg.nl) ++ (sg.core ++ post)).toArray := by rw [hb]; simp [Seg.bytes, hk0]
    have := step_ident hb1 hcne hall hfirst hstop s1 hp1 hsep1
      (by intro t ht; rw [htok1] at ht; exact hni t ht)
      (by intro t2 ht2 hbeg; rw [htok1] at ht2; exact hA (by rw [hpt t2 ht2, hbeg]))
    rw [this, hk]; rfl
  | kbegin =>
    rw [hk] at hkind
    obtain ⟨hk0, hnl, hcore⟩ := hkind
    refine seg_run_plain sg hb hk0 hnl hws 47 kwBegin hcore (by decide) (by rw [hk]; rfl) (by rw [hcore]; decide) s hp hni f ?_
    intro s1 hp1 hsep1 htok1
    have hb1 : b = ((done ++ sg.nl) ++ (sg.core ++ post)).toArray := by rw [hb]; simp [Seg.bytes, hk0]
    have := step_begin hb1 hcore s1 hp1 hsep1 (by intro t ht; rw [htok1] at ht; exact hni t ht)
    rw [this, hk, hcore]; rfl
  | kend =>
    rw [hk] at hkind
    obtain ⟨hk0, hnl, hcore⟩ := hkind
    refine seg_run_plain sg hb hk0 hnl hws 47 kwEnd hcore (by decide) (by rw [hk]; rfl) (by rw [hcore]; decide) s hp hni f ?_
    intro s1 hp1 hsep1 htok1
    have hb1 : b = ((done ++ sg.nl) ++ (sg.core ++ post)).toArray := by rw [hb]; simp [Seg.bytes, hk0]
    have := step_end hb1 hcore s1 hp1 hsep1 (by intro t ht; rw [htok1] at ht; exact hni t ht)
    rw [this, hk, hcore]; rfl
  | str body =>
    rw [hk] at hkind
    obtain ⟨hk0, hnl, hbody, hcore, hstop⟩ := hkind
    have hnlc : nlB sg.core = 0 := by
      rw [hcore]; simp only [nlB, nlB_append, hbody.nlB_zero]; decide
    refine seg_run_plain sg hb hk0 hnl hws 34 (body ++ [34]) hcore (by decide) (by rw [hk]; rfl) hnlc s hp hni f ?_
    intro s1 hp1 hsep1 htok1
    have hb1 : b = ((done ++ sg.nl) ++ (sg.core ++ post)).toArray := by rw [hb]; simp [Seg.bytes, hk0]
    have := step_string hb1 body hbody hcore hstop s1 hp1 hsep1 (by intro t ht; rw [htok1] at ht; exact hni t ht)
    rw [this, hk]; rfl
  | num =>
    rw [hk] at hkind
    obtain ⟨hk0, hnl, ⟨c0, rest, hcore, hf1, hf2, hrest⟩, hstop, hnot⟩ := hkind
    have hnum0 := minus_numChar hf2
    have hc0 : isWs c0 = false := by
      simp [isNumChar, isHexDigit, isDigit, isWs, UInt8.le_iff_toNat_le, ← UInt8.toNat_inj] at hnum0 ⊢; omega
    have hnlc : nlB sg.core = 0 := by
      have : ∀ l : List UInt8, (∀ c ∈ l, isNumChar c = true) → nlB l = 0 := by
        intro l
        induction l with
        | nil => intro _; rfl
        | cons c l ih =>
          intro h
          have hc := h c List.mem_cons_self
          have : (c == 10) = false := by
            cases hq : (c == 10) with
            | false => rfl
            | true => rw [beq_iff_eq.1 hq] at hc; exact absurd hc (by decide)
          simp [nlB, this, ih (fun x hx => h x (List.mem_cons_of_mem _ hx))]
      rw [hcore]
      exact this _ (by intro c hc; rcases List.mem_cons.1 hc with rfl | hc; exact hnum0; exact hrest c hc)
    refine seg_run_plain sg hb hk0 hnl hws c0 rest hcore hc0 (by rw [hk]; rfl) hnlc s hp hni f ?_
    intro s1 hp1 hsep1 htok1
    have hb1 : b = ((done ++ sg.nl) ++ (sg.core ++ post)).toArray := by rw [hb]; simp [Seg.bytes, hk0]
    have := step_number hb1 c0 rest hcore hf1 hf2 hrest hstop hnot s1 hp1 hsep1
      (by intro t ht; rw [htok1] at ht; exact hni t ht)
    rw [this, hk]; rfl
  | block =>
    rw [hk] at hkind
    obtain ⟨hbc, hnl32, hpl⟩ := hkind
    obtain ⟨cs, hcore⟩ := blockCore_head hbc
    refine seg_run_comment sg hb hws cs hcore (by rw [hk]; rfl) (by rw [hk]; rfl) s hp hni f ?_
    intro s1 hp1 htok1
    have hb1 : b = (((done ++ sg.nl) ++ List.replicate sg.k 32) ++ (sg.core ++ post)).toArray := by
      rw [hb]; simp [Seg.bytes]
    exact step_blockComment sg.k hb1 hbc (last_ne32_of hnl32 hpl) s1 hp1
      (by intro t ht; rw [htok1] at ht; exact hni t ht)
  | line =>
    rw [hk] at hkind
    obtain ⟨⟨rest, hcore, hrest⟩, hnl32, hpl, hstop⟩ := hkind
    refine seg_run_comment sg hb hws (47 :: rest) hcore (by rw [hk]; rfl) (by rw [hk]; rfl) s hp hni f ?_
    intro s1 hp1 htok1
    have hb1 : b = (((done ++ sg.nl) ++ List.replicate sg.k 32) ++ ((47 :: 47 :: rest) ++ post)).toArray := by
      rw [hb]; simp [Seg.bytes, hcore]
    have hnlc : nlB sg.core = 0 := by
      have : ∀ l : List UInt8, (∀ c ∈ l, c ≠ 10) → nlB l = 0 := by
        intro l
        induction l with
        | nil => intro _; rfl
        | cons c l ih => intro h; simp [nlB, h c List.mem_cons_self, ih (fun x hx => h x (List.mem_cons_of_mem _ hx))]
      rw [hcore]
      exact this _ (by
        intro c hc
        rcases List.mem_cons.1 hc with rfl | hc; decide
        rcases List.mem_cons.1 hc with rfl | hc; decide
        exact hrest c hc)
    have := step_lineComment sg.k hb1 hrest hstop (last_ne32_of hnl32 hpl) s1 hp1
      (by intro t ht; rw [htok1] at ht; exact hni t ht)
    rw [hcore] at hnlc
    rw [this, hcore, hnlc]
    simp

theorem SKind.tt_ne_include (k : SKind) : k.tt ≠ .include := by cases k <;> simp [SKind.tt]

theorem Seg.bytes_length (sg : Seg) : sg.bytes.length = sg.nl.length + sg.k + sg.core.length := by
  simp [Seg.bytes]; omega

theorem Seg.ok_core_ne {pl pt next} {sg : Seg} (h : sg.ok pl pt next) : sg.core ≠ [] := h.2.1

/-- every well-formed segment has at least two bytes -/
theorem Seg.ok_two {pl pt next} {sg : Seg} (h : sg.ok pl pt next) : 2 ≤ sg.bytes.length := by
  obtain ⟨_, hc, hk⟩ := h
  have hcl : 0 < sg.core.length := List.length_pos_iff.2 hc
  rw [Seg.bytes_length]
  cases hkind : sg.kind <;> rw [hkind] at hk
  case ident => have := List.length_pos_iff.2 hk.2.1; omega
  case kbegin => have := List.length_pos_iff.2 hk.2.1; omega
  case kend => have := List.length_pos_iff.2 hk.2.1; omega
  case str => have := List.length_pos_iff.2 hk.2.1; omega
  case num => have := List.length_pos_iff.2 hk.2.1; omega
  case block => have := hk.1.len; omega
  case line => obtain ⟨⟨rest, hr, _⟩, _⟩ := hk; rw [hr]; simp; omega

theorem segsOk_length : ∀ (segs : List Seg) (pl : Option UInt8) (pt : Option TokType), segsOk pl pt segs →
    2 * segs.length ≤ (segsBytes segs).length
  | [], _, _, _ => by simp [segsBytes]
  | sg :: rest, pl, pt, h => by
    have h1 := Seg.ok_two h.1
    have h2 := segsOk_length rest _ _ h.2
    simp only [segsBytes, List.length_append, List.length_cons]; omega

/-- **the main loop on a well-formed segment list** -/
theorem segs_run (b : Bytes) : ∀ (segs : List Seg) (done : List UInt8) (pt : Option TokType) (s : State) (f : Nat),
    b = (done ++ segsBytes segs).toArray → segsOk done.getLast? pt segs → s.bytepos = done.length → NoInclude s →
    (∀ t2, s.tokens.back? = some t2 → pt = some t2.ttype) → 2 * segs.length + 1 ≤ f →
    loop b f s = .ok (s.tokens.toList ++ segsTokens done.length s.line segs)
  | [], done, pt, s, f, hb, _, hp, _, _, hf => by
    obtain ⟨f', rfl⟩ : ∃ f', f = f' + 1 := ⟨f - 1, by omega⟩
    have : ¬ s.bytepos < b.size := by rw [hb, hp]; simp [segsBytes]
    rw [loop, if_neg this]
    simp [segsTokens]
  | sg :: rest, done, pt, s, f, hb, hok, hp, hni, hpt, hf => by
    obtain ⟨f', rfl⟩ : ∃ f', f = f' + 2 := ⟨f - 2, by simp at hf; omega⟩
    have hb1 : b = (done ++ (sg.bytes ++ segsBytes rest)).toArray := by rw [hb]; rfl
    rw [seg_run sg pt hb1 hok.1 s hp hni hpt f']
    have hbne : sg.bytes ≠ [] := by
      intro h; have := Seg.ok_two hok.1; rw [h] at this; simp at this
    have hlast : (done ++ sg.bytes).getLast? = sg.bytes.getLast? := by
      rw [List.getLast?_append, List.getLast?_eq_getLast hbne]; rfl
    have := segs_run b rest (done ++ sg.bytes) (some sg.kind.tt) (sg.after s done.length) (f' + sg.slack)
      (by rw [hb]; simp [segsBytes]) (by rw [hlast]; exact hok.2)
      (by simp [Seg.after, Seg.bytes_length]; omega)
      (noInclude_push _ (SKind.tt_ne_include _) _ _ _)
      (by intro t2 ht2; simp [Seg.after] at ht2; rw [← ht2])
      (by simp at hf ⊢; omega)
    rw [this]
    simp [Seg.after, segsTokens, Seg.bytes_length, Nat.add_assoc]

/-- **the tokenizer on a well-formed segment list** -/
theorem tokenize_segs (segs : List Seg) (hok : segsOk none none segs) :
    tokenize (segsBytes segs).toArray = .ok (segsTokens 0 1 segs) := by
  have := segs_run (segsBytes segs).toArray segs [] none initState ((segsBytes segs).toArray.size + 1) (by simp) hok rfl
    (by intro t ht; simp [initState] at ht) (by intro t ht; simp [initState] at ht)
    (by have := segsOk_length segs _ _ hok; simp; omega)
  rw [tokenize, this]
  simp [initState]

end A2l.Lex
