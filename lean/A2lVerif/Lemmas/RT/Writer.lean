import A2lVerif.Lemmas.RT.Lists
/-! # C01: the text of a value in canonical relation to an ordered tree is the text of the tree's token stream -/
namespace A2l.Tree
open A2l.G A2l.Sc

/-- "for every sufficiently large writer fuel" -/
def Ev (P : Nat → Prop) : Prop := ∃ F0, ∀ F, F0 ≤ F → P F

theorem Ev.of_all {P : Nat → Prop} (h : ∀ F, P F) : Ev P := ⟨0, fun F _ => h F⟩
theorem Ev.and {P Q : Nat → Prop} (hp : Ev P) (hq : Ev Q) : Ev (fun F => P F ∧ Q F) := by
  obtain ⟨a, ha⟩ := hp; obtain ⟨b, hb⟩ := hq
  exact ⟨max a b, fun F hF => ⟨ha F (by omega), hb F (by omega)⟩⟩
theorem Ev.mono {P Q : Nat → Prop} (hp : Ev P) (h : ∀ F, P F → Q F) : Ev Q := by
  obtain ⟨a, ha⟩ := hp; exact ⟨a, fun F hF => h F (ha F hF)⟩
/-- one unfolding step of a fuel-indexed function -/
theorem Ev.succ {P Q : Nat → Prop} (hp : Ev P) (h : ∀ F, P F → Q (F + 1)) : Ev Q := by
  obtain ⟨a, ha⟩ := hp
  refine ⟨a + 1, fun F hF => ?_⟩
  obtain ⟨f, rfl⟩ : ∃ f, F = f + 1 := ⟨F - 1, by omega⟩
  exact h f (ha f (by omega))
theorem Ev.forall_mem {α} {P : α → Nat → Prop} : ∀ (l : List α), (∀ x ∈ l, Ev (P x)) → Ev (fun F => ∀ x ∈ l, P x F)
  | [], _ => Ev.of_all (fun _ x hx => by cases hx)
  | a :: l, h => by
    have h1 := h a List.mem_cons_self
    have h2 := Ev.forall_mem l (fun x hx => h x (List.mem_cons_of_mem _ hx))
    refine (h1.and h2).mono (fun F hF x hx => ?_)
    rcases List.mem_cons.1 hx with rfl | hx
    · exact hF.1
    · exact hF.2 x hx

/-! ## parameters -/

theorem renderToks_append (a b : List WTok) : renderToks (a ++ b) = renderToks a ++ renderToks b := by
  simp [renderToks]

theorem renderToks_nil : renderToks [] = [] := rfl

theorem writeItem_scalar (e : Env) (indent : Nat) {v : Val} (h : Val.isScalar v = true) (F : Nat) :
    writeItem (F + 1) e indent v = renderToks (scalarToks indent v) := by
  cases v <;> simp [Val.isScalar] at h <;> simp [writeItem, scalarToks, renderToks, renderTok]

theorem writeItems_scalars (e : Env) (indent : Nat) : ∀ (vs : List Val), (∀ v ∈ vs, Val.isScalar v = true) →
    ∀ F, vs.length + 1 ≤ F → writeItems F e indent vs = renderToks (vs.flatMap (scalarToks indent))
  | [], _, F, hF => by
    obtain ⟨f, rfl⟩ : ∃ f, F = f + 1 := ⟨F - 1, by simp at hF; omega⟩
    simp [writeItems, renderToks]
  | v :: vs, h, F, hF => by
    obtain ⟨f, rfl⟩ : ∃ f, F = f + 2 := ⟨F - 2, by simp at hF; omega⟩
    rw [writeItems, writeItem_scalar e indent (h v List.mem_cons_self),
      writeItems_scalars e indent vs (fun x hx => h x (List.mem_cons_of_mem _ hx)) (f + 1) (by simp at hF ⊢; omega)]
    simp [renderToks]

theorem writeItem_elem (e : Env) {v : Val} (h : ElemShape v) :
    Ev (fun F => ∀ indent, writeItem F e indent v = renderToks (elemToks indent v)) := by
  have sc : Val.isScalar v = true → Ev (fun F => ∀ indent, writeItem F e indent v = renderToks (elemToks indent v)) := by
    intro hs
    refine ⟨1, fun F hF indent => ?_⟩
    obtain ⟨f, rfl⟩ : ∃ f, F = f + 1 := ⟨F - 1, by omega⟩
    rw [writeItem_scalar e indent hs f]
    cases v <;> simp [Val.isScalar] at hs <;> rfl
  cases v with
  | block ty info fields ch cm =>
    refine ⟨fields.length + 2, fun F hF indent => ?_⟩
    obtain ⟨f, rfl⟩ : ∃ f, F = f + 1 := ⟨F - 1, by omega⟩
    rw [writeItem, writeItems_scalars e indent fields h f (by omega)]
    simp [elemToks]
  | arr vs => simp [ElemShape, Val.isScalar] at h
  | seq vs => simp [ElemShape, Val.isScalar] at h
  | ident s o => exact sc rfl
  | str s o => exact sc rfl
  | int a b o w => exact sc rfl
  | dbl s o => exact sc rfl
  | enum s o => exact sc rfl

/-- a list written with the per-element decreasing fuel of `writeItems` -/
theorem writeItems_ev (e : Env) (toks : Nat → Val → List WTok) : ∀ (vs : List Val),
    (∀ v ∈ vs, Ev (fun F => ∀ indent, writeItem F e indent v = renderToks (toks indent v))) →
    Ev (fun F => ∀ indent, writeItems F e indent vs = renderToks (vs.flatMap (toks indent)))
  | [], _ => ⟨1, fun F hF indent => by
      obtain ⟨f, rfl⟩ : ∃ f, F = f + 1 := ⟨F - 1, by omega⟩
      simp [writeItems, renderToks]⟩
  | v :: vs, h => by
    have h1 := h v List.mem_cons_self
    have h2 := writeItems_ev e toks vs (fun x hx => h x (List.mem_cons_of_mem _ hx))
    refine (h1.and h2).succ (fun F hF indent => ?_)
    rw [writeItems, hF.1 indent, hF.2 indent]
    simp [renderToks]

theorem writeItem_field (e : Env) {v : Val} (h : FieldShape v) :
    Ev (fun F => ∀ indent, writeItem F e indent v = renderToks (fieldToks indent v)) := by
  cases v with
  | arr vs =>
    refine (writeItems_ev e elemToks vs (fun x hx => writeItem_elem e (h x hx))).succ (fun F hF indent => ?_)
    rw [writeItem, hF indent]; rfl
  | seq vs =>
    refine (writeItems_ev e elemToks vs (fun x hx => writeItem_elem e (h x hx))).succ (fun F hF indent => ?_)
    rw [writeItem, hF indent]; rfl
  | block ty info fields ch cm => exact writeItem_elem e h
  | ident s o => exact writeItem_elem e h
  | str s o => exact writeItem_elem e h
  | int a b o w => exact writeItem_elem e h
  | dbl s o => exact writeItem_elem e h
  | enum s o => exact writeItem_elem e h

theorem writeItems_fields (e : Env) (fs : List Val) (h : ∀ f ∈ fs, FieldShape f) :
    Ev (fun F => ∀ indent, writeItems F e indent fs = renderToks (fieldsToks indent fs)) :=
  writeItems_ev e fieldToks fs (fun x hx => writeItem_field e (h x hx))

theorem fieldToks_normField (ind : Nat) (v : Val) : fieldToks ind (normField v) = fieldToks ind v := by
  have he : ∀ x, elemToks ind (normElem x) = elemToks ind x := by
    intro x; cases x <;> rfl
  cases v <;> simp [normField, fieldToks, he, List.flatMap_map] <;> rfl

theorem fieldsToks_normField (ind : Nat) (fs : List Val) : fieldsToks ind (fs.map normField) = fieldsToks ind fs := by
  simp [fieldsToks, List.flatMap_map, fieldToks_normField]

/-! ## the tagged part -/

/-- normalised parameters of a block value -/
def Val.fieldsN : Val → List Val
  | .block _ _ fields _ _ => fields.map normField
  | _ => []

/-- the text `stringify` produces for `c` is the text of its parameters followed by the text of the items `its` -/
def StrEq (e : Env) (c : Val) (its : List OT) (F : Nat) : Prop :=
  ∀ indent, stringify F e indent c = renderToks (fieldsToks indent c.fieldsN ++ OT.toksL indent (OT.fixL false its))

/-- text of the parameters and items of an element whose tag is written at indent level `ind` -/
def OT.bodyText (ind : Nat) : OT → List Char
  | .node _ _ _ _ _ _ fields items =>
    renderToks (fieldsToks (ind + 1) fields ++ OT.toksL (ind + 1) (OT.fixL false items))
  | .cmt text _ => text

theorem posRestrict_normField (code : List CodeEntry) (ty : Nat) (fields : List Val) :
    posRestrict code ty (fields.map normField) = posRestrict code ty fields := by
  unfold posRestrict
  cases codeLookup code ty with
  | none => rfl
  | some d =>
    cases d with
    | block a b c d e p =>
      simp only []
      split
      · rfl
      · split
        · cases fields with
          | nil => rfl
          | cons f fs => cases f <;> rfl
        · rfl
    | enum a b => rfl
    | other => rfl

theorem groupOfArm_ev (e : Env) (i : Nat) (arm : Arm) : ∀ (cs : List Val) (ss : List (List OT)), ss.length = cs.length →
    (∀ c ∈ cs, Val.isBlock c = true) →
    (∀ (j : Nat) (c : Val) (o : List OT), cs[j]? = some c → ss[j]? = some o → Ev (StrEq e c o)) →
    Ev (fun F => ∀ indent, groupOfArm F e indent arm cs =
      (gesArm e.symbols i arm cs ss).map (GE.toTag e.code (OT.bodyText indent)))
  | [], [], _, _, _ => ⟨1, fun F hF indent => by
      obtain ⟨f, rfl⟩ : ∃ f, F = f + 1 := ⟨F - 1, by omega⟩
      simp [groupOfArm, gesArm]⟩
  | [], _ :: _, h, _, _ => by simp at h
  | _ :: _, [], h, _, _ => by simp at h
  | c :: cs, o :: ss, hlen, hblk, hstr => by
    have h1 := hstr 0 c o rfl rfl
    have h2 := groupOfArm_ev e i arm cs ss (by simpa using hlen) (fun x hx => hblk x (List.mem_cons_of_mem _ hx))
      (fun j c' o' hc ho => hstr (j + 1) c' o' (by simpa using hc) (by simpa using ho))
    refine (h1.and h2).succ (fun F hF indent => ?_)
    have hb := hblk c List.mem_cons_self
    cases c with
    | block cty cinfo cfields cch ccm =>
      rw [groupOfArm, hF.2 indent, hF.1 (indent + 1)]
      simp [gesArm, childGE, GE.toTag, OT.bodyText, Val.fieldsN, posRestrict_normField]
    | ident _ _ => simp [Val.isBlock] at hb
    | str _ _ => simp [Val.isBlock] at hb
    | int _ _ _ _ => simp [Val.isBlock] at hb
    | dbl _ _ => simp [Val.isBlock] at hb
    | enum _ _ => simp [Val.isBlock] at hb
    | arr _ => simp [Val.isBlock] at hb
    | seq _ => simp [Val.isBlock] at hb

theorem groupOf_ev (e : Env) : ∀ (arms : List Arm) (k : Nat) (children : List (List Val)) (sub : List (List (List OT))),
    children.length = arms.length → sub.length = children.length →
    (∀ (i : Nat) (cs : List Val) (ss : List (List OT)), children[i]? = some cs → sub[i]? = some ss → ss.length = cs.length) →
    (∀ cs ∈ children, ∀ c ∈ cs, Val.isBlock c = true) →
    (∀ (i j : Nat) (cs : List Val) (ss : List (List OT)) (c : Val) (o : List OT),
      children[i]? = some cs → sub[i]? = some ss → cs[j]? = some c → ss[j]? = some o → Ev (StrEq e c o)) →
    Ev (fun F => ∀ indent, groupOf F e indent arms children =
      (gesFrom e.symbols k arms children sub).map (GE.toTag e.code (OT.bodyText indent)))
  | [], k, children, sub, h1, _, _, _, _ => ⟨1, fun F hF indent => by
      obtain ⟨f, rfl⟩ : ∃ f, F = f + 1 := ⟨F - 1, by omega⟩
      cases children <;> simp [groupOf, gesFrom]⟩
  | a :: arms, k, [], _, h1, _, _, _, _ => by simp at h1
  | a :: arms, k, _ :: _, [], _, h2, _, _, _ => by simp at h2
  | a :: arms, k, cs :: children, ss :: sub, h1, h2, hpar, hblk, hstr => by
    have e1 := groupOfArm_ev e k a cs ss (hpar 0 cs ss rfl rfl) (hblk cs List.mem_cons_self)
      (fun j c o hc ho => hstr 0 j cs ss c o rfl rfl hc ho)
    have e2 := groupOf_ev e arms (k + 1) children sub (by simpa using h1) (by simpa using h2)
      (fun i cs' ss' hc hs => hpar (i + 1) cs' ss' (by simpa using hc) (by simpa using hs))
      (fun cs' hcs' => hblk cs' (List.mem_cons_of_mem _ hcs'))
      (fun i j cs' ss' c o hc hs => hstr (i + 1) j cs' ss' c o (by simpa using hc) (by simpa using hs))
    refine (e1.and e2).succ (fun F hF indent => ?_)
    rw [groupOf, hF.1 indent, hF.2 indent]
    simp [gesFrom]

/-! ## the end offset: `ends_in_line_comment` does not depend on the indentation -/

/-- kind, text and line offset of a written token (everything but the indent level) -/
def okey (w : WTok) : Nat × List Char × Nat := (w.ty, w.text, w.off)

theorem renderTok_okey {w w' : WTok} (h : okey w = okey w') (h0 : w.ty = 6 ∨ w.off = 0) : renderTok w = renderTok w' := by
  obtain ⟨t, x, o, i⟩ := w
  obtain ⟨t', x', o', i'⟩ := w'
  simp only [okey, Prod.mk.injEq] at h
  obtain ⟨rfl, rfl, rfl⟩ := h
  simp only [renderTok]
  rcases h0 with h0 | h0
  · simp only at h0; simp [h0]
  · simp only at h0; subst h0; simp [addWhitespace]

/-- two token streams that differ in the indent levels only: the scanner of `ends_in_line_comment` ends in the same
    state on their texts (followed by any text, from any state) -/
theorem lcScan_okey : ∀ (n : Nat) (a b : List WTok), a.length = n → a.map okey = b.map okey →
    ∀ S s, lcScan s (renderToks a ++ S) = lcScan s (renderToks b ++ S)
  | 0, a, b, hn, hk, S, s => by
    have ha : a = [] := List.length_eq_zero_iff.1 hn
    subst ha
    have hb : b = [] := by simpa using hk.symm
    subst hb; rfl
  | n + 1, a, b, hn, hk, S, s => by
    rcases List.eq_nil_or_concat a with rfl | ⟨a', w, rfl⟩
    · simp at hn
    · rw [List.concat_eq_append] at hn hk ⊢
      rw [List.map_append] at hk
      obtain ⟨b', bw, rfl, hk1, hk2⟩ := List.map_eq_append_iff.1 hk.symm
      obtain ⟨w', rfl, hw⟩ : ∃ w', bw = [w'] ∧ okey w' = okey w := by
        cases bw with
        | nil => simp at hk2
        | cons w' bw =>
          cases bw with
          | nil => exact ⟨w', rfl, by simpa using hk2⟩
          | cons _ _ => simp at hk2
      have hlen : a'.length = n := by simpa using hn
      have ih := lcScan_okey n a' b' hlen hk1.symm
      simp only [renderToks_append, List.append_assoc]
      by_cases h0 : w.ty = 6 ∨ w.off = 0
      · have : renderToks [w'] = renderToks [w] := by
          simp only [renderToks, List.flatMap_cons, List.flatMap_nil, List.append_nil]
          exact (renderTok_okey hw.symm h0).symm
        rw [this]; exact ih _ s
      · have hty : w.ty ≠ 6 := fun h => h0 (Or.inl h)
        have hoff : w.off ≠ 0 := fun h => h0 (Or.inr h)
        have hk' := hw
        simp only [okey, Prod.mk.injEq] at hk'
        have hty' : w'.ty ≠ 6 := by rw [hk'.1]; exact hty
        rw [ih _ s]
        simp only [renderToks, List.flatMap_cons, List.flatMap_nil, List.append_nil, renderTok, if_neg hty, if_neg hty',
          List.append_assoc]
        rw [hk'.2.1, hk'.2.2]
        exact lcScan_ws_indent _ _ _ _ _ hoff s

theorem endsInLineComment_okey (a b : List WTok) (h : a.map okey = b.map okey) (S : List Char) :
    endsInLineComment (renderToks a ++ S) = endsInLineComment (renderToks b ++ S) := by
  unfold endsInLineComment
  rw [lcScan_okey _ a b rfl h S]

theorem scalarToks_okey (i j : Nat) (v : Val) : (scalarToks i v).map okey = (scalarToks j v).map okey := by
  cases v <;> rfl

theorem flatMap_okey {α} (f g : α → List WTok) (h : ∀ x, (f x).map okey = (g x).map okey) :
    ∀ (l : List α), (l.flatMap f).map okey = (l.flatMap g).map okey
  | [] => rfl
  | x :: l => by simp only [List.flatMap_cons, List.map_append, h x, flatMap_okey f g h l]

theorem elemToks_okey (i j : Nat) (v : Val) : (elemToks i v).map okey = (elemToks j v).map okey := by
  cases v with
  | block ty info fields ch cm => exact flatMap_okey _ _ (scalarToks_okey i j) fields
  | ident s o => rfl
  | str s o => rfl
  | int a b o w => rfl
  | dbl s o => rfl
  | enum s o => rfl
  | arr vs => rfl
  | seq vs => rfl

theorem fieldToks_okey (i j : Nat) (v : Val) : (fieldToks i v).map okey = (fieldToks j v).map okey := by
  cases v with
  | arr vs => exact flatMap_okey _ _ (elemToks_okey i j) vs
  | seq vs => exact flatMap_okey _ _ (elemToks_okey i j) vs
  | block ty info fields ch cm => exact elemToks_okey i j (.block ty info fields ch cm)
  | ident s o => rfl
  | str s o => rfl
  | int a b o w => rfl
  | dbl s o => rfl
  | enum s o => rfl

theorem fieldsToks_okey (i j : Nat) (fs : List Val) : (fieldsToks i fs).map okey = (fieldsToks j fs).map okey :=
  flatMap_okey _ _ (fieldToks_okey i j) fs

mutual
theorem toks_okey : ∀ (o : OT) (i j : Nat), (o.toks i).map okey = (o.toks j).map okey
  | .cmt _ _, _, _ => rfl
  | .node _ tag blk _ so eo fields items, i, j => by
    simp only [OT.toks, List.map_append, fieldsToks_okey (i + 1) (j + 1) fields, toksL_okey items (i + 1) (j + 1)]
    cases blk <;> rfl
theorem toksL_okey : ∀ (xs : List OT) (i j : Nat), (OT.toksL i xs).map okey = (OT.toksL j xs).map okey
  | [], _, _ => rfl
  | x :: xs, i, j => by
    simp only [OT.toksL, List.map_append, toks_okey x i j, toksL_okey xs i j]
end

/-- **the indentation does not matter**: what `ends_in_line_comment` says of the text of a block's content, written at
    any indent level, is `OT.endsLC` -/
theorem endsInLineComment_body (i : Nat) (fields : List Val) (items : List OT) :
    endsInLineComment (renderToks (fieldsToks i fields ++ OT.toksL i items)) = OT.endsLC fields items := by
  have := endsInLineComment_okey (fieldsToks i fields ++ OT.toksL i items) (fieldsToks 0 fields ++ OT.toksL 0 items)
    (by rw [List.map_append, List.map_append, fieldsToks_okey i 0, toksL_okey items i 0]) []
  simpa [OT.endsLC] using this

/-- the end offset the writer computes from the text is the one of the bumped tree -/
theorem endOffOf_body (i : Nat) (eo : Nat) (fields : List Val) (items : List OT) :
    endOffOf eo (renderToks (fieldsToks i fields ++ OT.toksL i items)) = OT.fixEo true eo fields items := by
  unfold endOffOf OT.fixEo
  rw [endsInLineComment_body]
  simp

/-- the loop of `add_group` over the entries `gs` writes the token stream of their items with bumped offsets -/
theorem addGroupGo_toTag (code : List CodeEntry) (indent : Nat) : ∀ (alc : Bool) (gs : List GE),
    addGroupGo indent alc (gs.map (GE.toTag code (OT.bodyText indent))) =
      renderToks (OT.toksL indent (OT.fixL alc (gs.map (·.ot))))
  | _, [] => by simp [addGroupGo, OT.fixL, OT.toksL, renderToks]
  | alc, ⟨uid, line, .cmt text off⟩ :: gs => by
    simp only [List.map_cons, GE.toTag, addGroupGo, if_true, Bool.false_eq_true, if_false, OT.fixL, OT.toksL, OT.toks,
      renderToks_append, addGroupGo_toTag code indent _ gs]
    simp [renderToks, renderTok]
  | alc, ⟨uid, line, .node arm tag blk ty so eo fields items⟩ :: gs => by
    simp only [List.map_cons, GE.toTag, addGroupGo, Bool.false_eq_true, if_false, OT.fixL, OT.toksL, OT.toks,
      renderToks_append, addGroupGo_toTag code indent false gs, OT.bodyText]
    cases blk
    · simp [headToks, closeToks, renderToks, renderTok]
    · have hb : "/begin ".toList = beginText ++ addWhitespace indent 0 := by simp [beginText, addWhitespace]
      have he : "/end ".toList = endText ++ addWhitespace indent 0 := by simp [endText, addWhitespace]
      simp only [if_true, hb, he, headToks, closeToks]
      rw [← renderToks_append, endOffOf_body (indent + 1), renderToks_append]
      simp [renderToks, renderTok]

theorem cmts_eq (code : List CodeEntry) (indent : Nat) (comments : List Cmt) (hcm : ∀ cm ∈ comments, cm.included = false) :
    comments.map (fun c => (⟨true, [], c.uid, c.line, c.startOff, 0, false, c.text, none, c.included⟩ : TagInfo)) =
      (comments.map cmtGE).map (GE.toTag code (OT.bodyText indent)) := by
  rw [List.map_map]
  apply List.map_congr_left
  intro cm hcm'
  simp [cmtGE, GE.toTag, hcm cm hcm']

/-- **the text of a value in canonical relation to `items`**: parameters, then the items in order -/
theorem canon_text (e : Env) {v : Val} {items : List OT} (h : Canon e v items) : Ev (StrEq e v items) := by
  induction h with
  | @mk ty info fields children comments isB its arms ht hl sub hlen hsub hsub2 hch hblk hcm hfs ih =>
    have eF := writeItems_fields e fields hfs
    cases ht with
    | false =>
      refine eF.succ (fun F hF indent => ?_)
      rw [stringify]
      simp only [hl, Bool.false_eq_true, if_false, hF indent, Val.fieldsN, fieldsToks_normField, OT.fixL, OT.toksL,
        List.append_nil]
    | true =>
      have hlen' := hlen rfl
      have eG := groupOf_ev e arms 0 children sub hlen' hsub hsub2 hblk ih
      refine (eF.and eG).succ (fun F hF indent => ?_)
      rw [stringify]
      simp only [hl, if_true, hF.1 indent, hF.2 indent]
      have hc := cmts_eq e.code indent comments hcm
      rw [hc, ← List.map_append]
      unfold addGroup
      rw [sortGE_toTag, addGroupGo_toTag]
      simp only [Val.fieldsN, fieldsToks_normField, renderToks_append]

theorem bumpOff_idem (alc : Bool) (n : Nat) : bumpOff alc (bumpOff alc n) = bumpOff alc n := by
  unfold bumpOff
  by_cases h : alc = true ∧ n = 0
  · simp [h]
  · rw [if_neg h, if_neg h]

theorem fixEo_idem (blk : Bool) (eo : Nat) (fields : List Val) (items : List OT) :
    OT.fixEo blk (OT.fixEo blk eo fields items) fields items = OT.fixEo blk eo fields items := by
  unfold OT.fixEo
  by_cases h : blk = true ∧ eo = 0 ∧ OT.endsLC fields items = true
  · simp [h]
  · rw [if_neg h, if_neg h]

mutual
theorem fix_idem_node : ∀ (o : OT), OT.fixL false (OT.fixL false o.itemsOf) = OT.fixL false o.itemsOf
  | .node _ _ _ _ _ _ _ items => fixL_idem items false
  | .cmt _ _ => by simp [OT.itemsOf, OT.fixL]
/-- **bumping the offsets behind line comments is idempotent**: the second write changes nothing -/
theorem fixL_idem : ∀ (l : List OT) (alc : Bool), OT.fixL alc (OT.fixL alc l) = OT.fixL alc l
  | [], _ => by simp [OT.fixL]
  | .cmt text off :: rest, alc => by
    simp only [OT.fixL, bumpOff_idem, fixL_idem rest]
  | .node arm tag blk ty so eo fields items :: rest, alc => by
    have h1 := fix_idem_node (.node arm tag blk ty so eo fields items)
    simp only [OT.itemsOf] at h1
    simp only [OT.fixL, bumpOff_idem, fixL_idem rest, h1, fixEo_idem]
end

end A2l.Tree
