import A2lVerif.Lemmas.RT.Node
/-! # C01: `parse_file` on a written token stream -/
namespace A2l.Tree
open A2l.G A2l.Sc

theorem normField_eq_int {v : Val} {a : Int} {b : Bool} {o w : Nat} (h : normField v = .int a b o w) : v = .int a b o w := by
  cases v <;> simp [normField, normElem] at h ⊢
  exact h

theorem FieldOk_int_indep (c c' : RCfg) {it : ItemTy} {v : Int} {h : Bool} {o w : Nat} {r r' : List WTok}
    (hf : FieldOk c it (.int v h o w) r) : FieldOk c' it (.int v h o w) r' := by
  cases it <;> simp [FieldOk, ElemOk, ScalarOk] at hf ⊢
  exact hf

/-- the context `parse_file` starts with -/
def rootCtx (e : Env) : Ctx := ⟨"A2L_FILE".toList, 0, match e.toks[0]? with | some t => t.line | none => 1⟩

theorem parseFile_unfold (fuel : Nat) (e : Env) (s : PState) :
    parseFile fuel e s = (do
      let ver ← parseVersion fuel (rootCtx e)
      modifyState fun s => { s with ver := ver }
      let file ← parseType fuel e.known.tyA2lFile (rootCtx e) 0
      match (← peekToken) with
      | some _ => errorOrLog .additionalTokensError
      | none => pure ()
      pure file : PM Val) e s := rfl

/-- the shape of the first item of a strict-mode file: `ASAP2_VERSION major minor` -/
def IsVersionItem (c : RCfg) (o : OT) (major minor : Int) : Prop :=
  ∃ vi vtag vso h1 o1 w1 h2 o2 w2,
    o = .node vi vtag false c.e.known.tyAsap2Version vso 0 [.int major h1 o1 w1, .int minor h2 o2 w2] [] ∧
    c.lx.symOf vtag = c.e.known.tagAsap2Version

section
variable (c : RCfg) {all : List WTok} (hT : Toks c.e c.lx all) (hne : all ≠ [])
include hT hne

/-- `parse_version` on a stream that starts with the version keyword -/
theorem parseVersion_strict (rarms : List Arm) (o : OT) (more : List OT) (major minor : Int)
    (hv : IsVersionItem c o major minor) (hok : OT.ok c 0 rarms false o (OT.toksL 0 more))
    (hall : all = OT.toksL 0 (o :: more)) (ver : Nat)
    (hver : versionOf major minor = some ver ∨ (versionOf major minor = none ∧ ver = 6 ∧ c.e.strict = false))
    (ctx : Ctx) (s : PState) (hp : s.pos = 0) (fuel : Nat) (hf : 20 ≤ fuel) :
    ∃ s', parseVersion fuel ctx c.e s = .ok ver s' ∧ s'.pos = 0 := by
  obtain ⟨vi, vtag, vso, h1, o1, w1, h2, o2, w2, rfl, hsym⟩ := hv
  obtain ⟨f, rfl⟩ : ∃ f, fuel = f + 1 := ⟨fuel - 1, by omega⟩
  simp only [OT.ok] at hok
  obtain ⟨a, cits, carms, cht, harm, hty, htag, hblk, hl, -, hkw, hid, hidx, hnorm, hfields, hht, -, -, -⟩ := hok
  obtain ⟨-, hrest, rfl⟩ := hkw trivial
  simp only [OT.toksL, OT.toks, headToks, closeToks, Bool.false_eq_true, if_false, fieldsToks, List.flatMap_cons,
    List.flatMap_nil, fieldToks, elemToks, scalarToks, List.append_nil, List.cons_append, List.nil_append] at hall hfields
  -- the two parameters are integers of the declared widths, whatever the version in the state
  let cS : RCfg := { c with ver := s.ver }
  have hf' : FieldsOk cS 1 cits [Val.int major h1 o1 w1, Val.int minor h2 o2 w2] (OT.toksL 0 more) := by
    match cits, hfields with
    | [it1, it2], hfields =>
      simp only [FieldsOk] at hfields ⊢
      exact ⟨FieldOk_int_indep c cS hfields.1, FieldOk_int_indep c cS hfields.2.1, trivial⟩
    | [], hfields => simp [FieldsOk] at hfields
    | [_], hfields => simp [FieldsOk] at hfields
    | _ :: _ :: _ :: _, hfields => simp [FieldsOk] at hfields
  have hT' : Toks cS.e cS.lx all := hT
  have hs1 : all = [⟨0, vtag, vso, 0⟩] ++ (fieldsToks 1 [Val.int major h1 o1 w1, Val.int minor h2 o2 w2] ++ OT.toksL 0 more) := by
    rw [hall]; rfl
  have hat0 := hT.at (pre := []) (by rw [hall]; rfl) (n := s.pos) (by rw [hp]; rfl)
  -- the keyword
  obtain ⟨s1, e1, a1⟩ := Runs.getIdentifier hT (pre := []) (by rw [hall]; rfl) ctx rfl hid s (by rw [hp]; rfl)
  -- its parameters
  obtain ⟨fields', ⟨s2, e2, a2⟩, hn2⟩ := parseFields cS hT' ⟨[], 0, endLine 1 [] + vso⟩ 1 (OT.toksL 0 more) hrest cits _
    [⟨0, vtag, vso, 0⟩] { s1 with seqId := s1.seqId + 1 } f hf' hs1 (by show s1.pos = 1; rw [a1.pos, hp]) (by show s1.ver = s.ver; exact a1.ver)
    (by simp [fieldsNeed, fieldsToks, fieldToks, elemToks, scalarToks, vlen]; omega)
  obtain ⟨x1, x2, rfl⟩ : ∃ x1 x2, fields' = [x1, x2] := by
    match fields', hn2 with
    | [x1, x2], _ => exact ⟨x1, x2, rfl⟩
    | [], h => simp at h
    | [_], h => simp at h
    | _ :: _ :: _ :: _, h => simp at h
  simp only [List.map_cons, List.map_nil, List.cons.injEq, and_true] at hn2
  have hx1 := normField_eq_int hn2.1
  have hx2 := normField_eq_int hn2.2
  subst hx1; subst hx2
  have hunf : parseVersion (f + 1) ctx c.e s =
      (match versionOf major minor with
        | some v => (pure v : PM Nat)
        | none => do errorOrLogNoLine .invalidVersion; pure 6) c.e { s2 with pos := 0 } := by
    have hat1 : c.e.toks[s1.pos - 1]? = c.e.toks[s.pos]? := by rw [a1.pos]; rfl
    unfold parseVersion
    simp only [getEnv_bind, peekToken_bind, hat0]
    rw [bind_def]
    unfold attempt
    rw [e1]
    simp only [getState_bind, hat1, hat0, WTok.toPTok, if_true, hsym, beq_self_eq_true]
    rw [bind_def, parseType_block_unfold f _ _ 0 c.e s1 hl]
    unfold typeBody
    rw [bind_def, e2]
    simp only [Bool.false_eq_true, if_false, pure_bind_eval, List.zip_nil_right, List.foldlM_nil, setTokenpos_bind,
      pure_def]
    rfl
  rw [hunf]
  rcases hver with hver | ⟨hver, rfl, hns⟩
  · rw [hver]; exact ⟨_, rfl, rfl⟩
  · rw [hver]
    refine ⟨{ s2 with pos := 0, log := ⟨.invalidVersion, 0⟩ :: s2.log }, ?_, rfl⟩
    have hE : ∀ s1 : PState, errorOrLogNoLine .invalidVersion c.e s1 =
        .ok () { s1 with log := ⟨.invalidVersion, 0⟩ :: s1.log } := by
      intro s1; simp only [errorOrLogNoLine, getEnv_bind, hns]; rfl
    simp only []
    rw [bind_def, hE]
    rfl

omit hne in
/-- `parse_version` outside strict mode, on a stream that does not start with the version tag: version 1.51 is
    assumed (and `MissingVersionInfo` logged) -/
theorem parseVersion_other (rarms : List Arm) (i : Nat) (tag : List Char) (blk : Bool) (ty so eo : Nat)
    (fields : List Val) (its : List OT) (more : List OT) (hns : c.e.strict = false)
    (hok : OT.ok c 0 rarms false (.node i tag blk ty so eo fields its) (OT.toksL 0 more))
    (hall : all = OT.toksL 0 (.node i tag blk ty so eo fields its :: more))
    (hnv : c.lx.symOf tag ≠ c.e.known.tagAsap2Version)
    (ctx : Ctx) (s : PState) (hp : s.pos = 0) (fuel : Nat) :
    ∃ s', parseVersion fuel ctx c.e s = .ok 2 s' ∧ s'.pos = 0 := by
  simp only [OT.ok] at hok
  obtain ⟨a, cits, carms, cht, -, -, -, -, -, -, -, hid, -⟩ := hok
  have hE : ∀ s1 : PState, errorOrLogNoLine .missingVersionInfo c.e s1 =
      .ok () { s1 with log := ⟨.missingVersionInfo, 0⟩ :: s1.log } := by
    intro s1; simp only [errorOrLogNoLine, getEnv_bind, hns]; rfl
  cases blk with
  | true =>
    have hs0 : all = [] ++ (⟨1, beginText, so, 0⟩ : WTok) :: (⟨0, tag, 0, 0⟩ :: (OT.bodyToks 0 (.node i tag true ty so eo fields its) ++ OT.toksL 0 more)) := by
      rw [hall]; simp [OT.toksL, OT.toks, OT.bodyToks, headToks]
    have hat0 := hT.at hs0 (n := s.pos) (by rw [hp]; rfl)
    have hf : Fails (getIdentifier ctx) c.e s := by
      unfold getIdentifier
      exact Fails.bind (expect_fails hT ctx 0 (pre := []) hs0 (by simp [nextNC]) s (by rw [hp]; rfl))
    obtain ⟨d, s1, h1, -, -⟩ := hf.attempt
    refine ⟨{ s1 with pos := 0, log := ⟨.missingVersionInfo, 0⟩ :: s1.log }, ?_, rfl⟩
    unfold parseVersion
    simp only [getEnv_bind, peekToken_bind, hat0]
    rw [bind_def, h1]
    simp only [getState_bind, Bool.false_eq_true, if_false, setTokenpos_bind]
    rw [bind_def, hE]
    rfl
  | false =>
    have hs0 : all = [] ++ (⟨0, tag, so, 0⟩ : WTok) :: (OT.bodyToks 0 (.node i tag false ty so eo fields its) ++ OT.toksL 0 more) := by
      rw [hall]; simp [OT.toksL, OT.toks, OT.bodyToks, headToks]
    have hat0 := hT.at hs0 (n := s.pos) (by rw [hp]; rfl)
    obtain ⟨s1, e1, a1⟩ := Runs.getIdentifier hT hs0 ctx rfl hid s (by rw [hp]; rfl)
    refine ⟨{ s1 with pos := 0, log := ⟨.missingVersionInfo, 0⟩ :: s1.log }, ?_, rfl⟩
    have hsym : (c.lx.symOf tag == c.e.known.tagAsap2Version) = false := by simpa using hnv
    unfold parseVersion
    simp only [getEnv_bind, peekToken_bind, hat0]
    rw [bind_def]
    have hat1 : c.e.toks[s1.pos - 1]? = c.e.toks[s.pos]? := by rw [a1.pos]; rfl
    unfold attempt
    rw [e1]
    simp only [getState_bind, hat1, hat0, WTok.toPTok, if_true, hsym, Bool.false_eq_true, if_false, setTokenpos_bind]
    rw [bind_def, hE]
    rfl

/-- the end of `parse_file` behind a version `ver` that satisfies the version conditions of the items -/
theorem parseFile_of_version (rarms : List Arm) (items : List OT)
    (hroot : c.e.table.lookup c.e.known.tyA2lFile = some (.block false [] rarms true))
    (hok : OT.okL c 0 rarms false items []) (hmult : MultOk c.e.strict rarms items) (hps : PosSorted c.e.code items)
    (hall : all = OT.toksL 0 items) (fuel : Nat) (hf : OT.needL 0 items + 2 ≤ fuel) (s0 : PState)
    (hpv : ∀ ctx, ∃ s1, parseVersion fuel ctx c.e s0 = .ok c.ver s1 ∧ s1.pos = 0) :
    ∃ info ch' cm' s', parseFile fuel c.e s0 = .ok (.block c.e.known.tyA2lFile info [] ch' cm') s' ∧
      info.startOff = 0 ∧ info.endOff = 0 ∧
      Canon c.e (.block c.e.known.tyA2lFile info [] ch' cm') items ∧
      InOrder c.e (.block c.e.known.tyA2lFile info [] ch' cm') items := by
  obtain ⟨s1, e1, p1⟩ := hpv (rootCtx c.e)
  obtain ⟨ch', cm', s2, e2, p2, v2, hc, ho⟩ := root_parse c hT hne c.e.known.tyA2lFile rarms items hroot hok hmult hps hall
    (rootCtx c.e) rfl { s1 with ver := c.ver } p1 rfl fuel hf
  refine ⟨_, ch', cm', s2, ?_, rfl, rfl, hc, ho⟩
  rw [parseFile_unfold, bind_def, e1]
  simp only [modifyState_bind]
  rw [bind_def, e2]
  simp only [peekToken_bind, hT.none (n := s2.pos) (by rw [p2]; exact Nat.le_refl _)]
  rfl

/-- **strict mode**: a file that starts with the version keyword is read back -/
theorem reparse_file_strict (rarms : List Arm) (o : OT) (more : List OT) (major minor : Int)
    (hv : IsVersionItem c o major minor) (hver : versionOf major minor = some c.ver)
    (hroot : c.e.table.lookup c.e.known.tyA2lFile = some (.block false [] rarms true))
    (hok : OT.okL c 0 rarms false (o :: more) []) (hmult : MultOk c.e.strict rarms (o :: more))
    (hps : PosSorted c.e.code (o :: more)) (hall : all = OT.toksL 0 (o :: more))
    (fuel : Nat) (hf : OT.needL 0 (o :: more) + 20 ≤ fuel) (s0 : PState) (hp0 : s0.pos = 0) :
    ∃ info ch' cm' s', parseFile fuel c.e s0 = .ok (.block c.e.known.tyA2lFile info [] ch' cm') s' ∧
      info.startOff = 0 ∧ info.endOff = 0 ∧
      Canon c.e (.block c.e.known.tyA2lFile info [] ch' cm') (o :: more) ∧
      InOrder c.e (.block c.e.known.tyA2lFile info [] ch' cm') (o :: more) := by
  apply parseFile_of_version c hT hne rarms (o :: more) hroot hok hmult hps hall fuel (by omega) s0
  intro ctx
  obtain ⟨s1, h1, p1⟩ := parseVersion_strict c hT hne rarms o more major minor hv
    (by simpa [OT.okL] using hok.1) hall c.ver (.inl hver) ctx s0 hp0 fuel (by omega)
  exact ⟨s1, h1, p1⟩

/-- **outside strict mode**: any written file is read back, whatever version `parse_version` comes up with -/
theorem reparse_file_nonstrict (hns : c.e.strict = false) (rarms : List Arm) (i : Nat) (tag : List Char) (blk : Bool)
    (ty so eo : Nat) (fields : List Val) (its : List OT) (more : List OT)
    (hhead : (∃ major minor, IsVersionItem c (.node i tag blk ty so eo fields its) major minor) ∨
      c.lx.symOf tag ≠ c.e.known.tagAsap2Version)
    (hroot : c.e.table.lookup c.e.known.tyA2lFile = some (.block false [] rarms true))
    (hok : ∀ ver, OT.okL { c with ver := ver } 0 rarms false (.node i tag blk ty so eo fields its :: more) [])
    (hmult : MultOk c.e.strict rarms (.node i tag blk ty so eo fields its :: more))
    (hps : PosSorted c.e.code (.node i tag blk ty so eo fields its :: more))
    (hall : all = OT.toksL 0 (.node i tag blk ty so eo fields its :: more))
    (fuel : Nat) (hf : OT.needL 0 (.node i tag blk ty so eo fields its :: more) + 20 ≤ fuel) (s0 : PState) (hp0 : s0.pos = 0) :
    ∃ info ch' cm' s', parseFile fuel c.e s0 = .ok (.block c.e.known.tyA2lFile info [] ch' cm') s' ∧
      info.startOff = 0 ∧ info.endOff = 0 ∧
      Canon c.e (.block c.e.known.tyA2lFile info [] ch' cm') (.node i tag blk ty so eo fields its :: more) ∧
      InOrder c.e (.block c.e.known.tyA2lFile info [] ch' cm') (.node i tag blk ty so eo fields its :: more) := by
  have key : ∃ ver, ∀ ctx, ∃ s1, parseVersion fuel ctx c.e s0 = .ok ver s1 ∧ s1.pos = 0 := by
    rcases hhead with ⟨major, minor, hv⟩ | hnv
    · cases hvo : versionOf major minor with
      | some v =>
        exact ⟨v, fun ctx => parseVersion_strict c hT hne rarms _ more major minor hv
          (by simpa [OT.okL] using (hok c.ver).1) hall v (.inl hvo) ctx s0 hp0 fuel (by omega)⟩
      | none =>
        exact ⟨6, fun ctx => parseVersion_strict c hT hne rarms _ more major minor hv
          (by simpa [OT.okL] using (hok c.ver).1) hall 6 (.inr ⟨hvo, rfl, hns⟩) ctx s0 hp0 fuel (by omega)⟩
    · exact ⟨2, fun ctx => parseVersion_other c hT rarms i tag blk ty so eo fields its more hns
        (by simpa [OT.okL] using (hok c.ver).1) hall hnv ctx s0 hp0 fuel⟩
  obtain ⟨ver, hpv⟩ := key
  exact parseFile_of_version { c with ver := ver } hT hne rarms _ hroot (hok ver) hmult hps hall fuel (by omega) s0 hpv

end
end A2l.Tree
