import A2lVerif.Lemmas.RT.Canon
/-! # C01: list lemmas (sorted permutations, position restrictions, `setAt`, group entries) -/
namespace A2l.Tree
open A2l.G A2l.Sc

/-- two permutations of each other, one sorted, the other strictly sorted, are equal -/
theorem eq_of_perm_sorted {α} {le : α → α → Bool} : ∀ (l₁ l₂ : List α), l₁.Perm l₂ → l₁.Pairwise (fun a b => le a b = true) →
    l₂.Pairwise (fun a b => le a b = true ∧ le b a = false) → l₁ = l₂
  | [], l₂, hp, _, _ => by simpa using hp.symm.eq_nil
  | a :: l₁, [], hp, _, _ => by simpa using hp.eq_nil
  | a :: l₁, b :: l₂, hp, h1, h2 => by
    by_cases hab : a = b
    · subst hab
      rw [eq_of_perm_sorted l₁ l₂ (List.Perm.cons_inv hp) h1.of_cons h2.of_cons]
    · exfalso
      have ha : a ∈ l₂ := by
        have : a ∈ b :: l₂ := hp.subset List.mem_cons_self
        rcases List.mem_cons.1 this with h | h
        · exact absurd h hab
        · exact h
      have hb : b ∈ l₁ := by
        have : b ∈ a :: l₁ := hp.symm.subset List.mem_cons_self
        rcases List.mem_cons.1 this with h | h
        · exact absurd h.symm hab
        · exact h
      have r1 := List.rel_of_pairwise_cons h1 hb
      have r2 := (List.rel_of_pairwise_cons h2 ha).2
      rw [r1] at r2; cases r2

theorem geLe_eq_tagLe (a b : GE) : geLe a b = tagLe (a.toTag [] (fun _ => [])) (b.toTag [] (fun _ => [])) :=
  (tagLe_toTag [] (fun _ => []) a b).symm

theorem geLe_trans (a b c : GE) (h1 : geLe a b = true) (h2 : geLe b c = true) : geLe a c = true := by
  rw [geLe_eq_tagLe] at *; exact tagLe_trans _ _ _ h1 h2

theorem geLe_total (a b : GE) : (geLe a b || geLe b a) = true := by
  rw [geLe_eq_tagLe, geLe_eq_tagLe]; exact tagLe_total _ _

theorem geLe_of_uid_lt {a b : GE} (ha : 0 < a.uid) (h : a.uid < b.uid) : geLe a b = true ∧ geLe b a = false := by
  unfold geLe
  constructor
  · rw [if_neg (by omega), if_neg (by omega), if_neg (by omega)]; simp; omega
  · rw [if_neg (by omega), if_neg (by omega), if_neg (by omega)]; simp; omega

/-- a permutation of a list that is strictly sorted by positive uids is put into that order by the writer's sort -/
theorem mergeSort_of_perm_uid {l R : List GE} (hp : l.Perm R) (hs : R.Pairwise (fun a b => a.uid < b.uid))
    (hpos : ∀ g ∈ R, 0 < g.uid) : l.mergeSort geLe = R := by
  apply eq_of_perm_sorted (le := geLe) _ _ ((List.mergeSort_perm l geLe).trans hp)
    (List.pairwise_mergeSort geLe_trans geLe_total l)
  exact hs.imp_of_mem (fun {a b} ha _ h => geLe_of_uid_lt (hpos a ha) h)

theorem refillG_self {α} (p : α → Bool) : ∀ l : List α, refillG p l (l.filter p) = l
  | [] => rfl
  | a :: l => by
    cases h : p a
    · simp only [refillG, h, List.filter_cons_of_neg, Bool.false_eq_true, not_false_eq_true, if_false, refillG_self p l]
    · simp only [refillG, h, List.filter_cons_of_pos, if_true, refillG_self p l]

/-- **position restrictions are idempotent**: a list whose restricted items already stand in position order is
    not changed -/
theorem applyPosG_of_sorted {α} (pos : α → Option Nat) (l : List α)
    (h : (l.filter (fun x => (pos x).isSome)).Pairwise (fun a b => (pos a).getD 0 ≤ (pos b).getD 0)) :
    applyPosG pos l = l := by
  unfold applyPosG
  simp only []
  split
  · rw [List.mergeSort_of_pairwise (le := posLeG pos) (h.imp (by intro a b hab; simpa [posLeG] using hab))]
    exact refillG_self _ l
  · rfl

/-! ## `setAt` -/

theorem setAt_length {α} (l : List (List α)) (i : Nat) (f : List α → List α) : (setAt l i f).length = l.length := by
  simp [setAt]

theorem setAt_getElem? {α} (l : List (List α)) (i j : Nat) (f : List α → List α) :
    (setAt l i f)[j]? = (l[j]?).map (fun x => if j = i then f x else x) := by
  simp [setAt, List.getElem?_mapIdx]

theorem mapIdx_id' {α} : ∀ (l : List α), List.mapIdx (fun _ x => x) l = l
  | [] => rfl
  | a :: l => by rw [List.mapIdx_cons]; simp only [List.cons.injEq, true_and]; exact mapIdx_id' l

theorem setAt_cons_zero {α} (x : List α) (l : List (List α)) (f : List α → List α) : setAt (x :: l) 0 f = f x :: l := by
  simp [setAt, List.mapIdx_cons, mapIdx_id']

theorem setAt_cons_succ {α} (x : List α) (l : List (List α)) (i : Nat) (f : List α → List α) :
    setAt (x :: l) (i + 1) f = x :: setAt l i f := by
  simp [setAt, List.mapIdx_cons]

/-! ## group entries of accumulated children -/

theorem gesArm_append (symbols : Array String) (k : Nat) (a : Arm) (c : Val) (its : List OT) :
    ∀ (cs : List Val) (ss : List (List OT)), ss.length = cs.length →
      gesArm symbols k a (cs ++ [c]) (ss ++ [its]) = gesArm symbols k a cs ss ++ childGE symbols k a c its
  | [], [], _ => by simp [gesArm]
  | [], _ :: _, h => by simp at h
  | _ :: _, [], h => by simp at h
  | x :: cs, y :: ss, h => by
    simp only [List.cons_append, gesArm, List.append_assoc]
    rw [gesArm_append symbols k a c its cs ss (by simpa using h)]

theorem gesFrom_setAt (symbols : Array String) (c : Val) (its : List OT) :
    ∀ (arms : List Arm) (k i : Nat) (ch : List (List Val)) (sub : List (List (List OT))) (a : Arm),
      arms[i]? = some a → ch.length = arms.length → sub.length = arms.length →
      (∀ cs ss, ch[i]? = some cs → sub[i]? = some ss → ss.length = cs.length) →
      (gesFrom symbols k arms (setAt ch i (· ++ [c])) (setAt sub i (· ++ [its]))).Perm
        (gesFrom symbols k arms ch sub ++ childGE symbols (k + i) a c its)
  | [], _, _, _, _, _, ha, _, _, _ => by simp at ha
  | a0 :: arms, k, i, [], _, _, _, h, _, _ => by simp at h
  | a0 :: arms, k, i, _ :: _, [], _, _, _, h, _ => by simp at h
  | a0 :: arms, k, 0, cs :: ch, ss :: sub, a, ha, _, _, hpar => by
    simp only [List.getElem?_cons_zero, Option.some.injEq] at ha
    subst ha
    rw [setAt_cons_zero, setAt_cons_zero]
    simp only [gesFrom, Nat.add_zero]
    rw [gesArm_append symbols k a0 c its cs ss (hpar cs ss rfl rfl)]
    simp only [List.append_assoc]
    exact List.Perm.append_left _ List.perm_append_comm
  | a0 :: arms, k, i + 1, cs :: ch, ss :: sub, a, ha, h1, h2, hpar => by
    rw [setAt_cons_succ, setAt_cons_succ]
    simp only [gesFrom, List.append_assoc]
    apply List.Perm.append_left
    have := gesFrom_setAt symbols c its arms (k + 1) i ch sub a (by simpa using ha) (by simpa using h1) (by simpa using h2)
      (fun cs' ss' h3 h4 => hpar cs' ss' (by simpa using h3) (by simpa using h4))
    rw [show k + 1 + i = k + (i + 1) by omega] at this
    exact this

theorem gesFrom_nil (symbols : Array String) : ∀ (arms : List Arm) (k : Nat),
    gesFrom symbols k arms (arms.map fun _ => []) (arms.map fun _ => []) = []
  | [], _ => rfl
  | a :: arms, k => by simp [gesFrom, gesArm, gesFrom_nil symbols arms (k + 1)]

end A2l.Tree
