import A2lVerif.Lemmas.TypedDefs
/-!
# Typed IF_DATA access, part B: induction over the output types; the typed load never panics
-/
namespace A2l.Typed
open A2l.Aml A2l.IfData

/-! ## induction over `OTy` (the recursor, with one motive per nested list type) -/

section induct
set_option linter.unusedSectionVars false
variable {P : OTy → Prop} {PL : List OTy → Prop} {PM : List (OTag OTy) → Prop}
  (hnone : P .none) (hint : ∀ w, P (.int w)) (hfloat : P .float) (hdouble : P .double) (hstr : P .str)
  (harray : ∀ of dim, P of → P (.array of dim)) (henum : ∀ names, P (.enum names))
  (hstruct : ∀ items, PL items → P (.struct items)) (hseq : ∀ of, P of → P (.seq of))
  (htagged : ∀ u ms, PM ms → P (.tagged u ms))
  (hnil : PL []) (hcons : ∀ t rest, P t → PL rest → PL (t :: rest))
  (hmnil : PM []) (hmcons : ∀ m rest, PL m.items → PM rest → PM (m :: rest))
include hnone hint hfloat hdouble hstr harray henum hstruct hseq htagged hnil hcons hmnil hmcons

mutual
theorem OTy.ind1 : ∀ t, P t
  | .none => hnone
  | .int w => hint w
  | .float => hfloat
  | .double => hdouble
  | .str => hstr
  | .array of dim => harray of dim (OTy.ind1 of)
  | .enum names => henum names
  | .struct items => hstruct items (OTy.indL items)
  | .seq of => hseq of (OTy.ind1 of)
  | .tagged u ms => htagged u ms (OTy.indM ms)
theorem OTy.indL : ∀ l, PL l
  | [] => hnil
  | t :: rest => hcons t rest (OTy.ind1 t) (OTy.indL rest)
theorem OTy.indM : ∀ ms, PM ms
  | [] => hmnil
  | m :: rest => hmcons m rest (OTy.indL m.items) (OTy.indM rest)
end

theorem OTy.induct : (∀ t, P t) ∧ (∀ l, PL l) ∧ (∀ ms, PM ms) :=
  ⟨OTy.ind1 hnone hint hfloat hdouble hstr harray henum hstruct hseq htagged hnil hcons hmnil hmcons,
   OTy.indL hnone hint hfloat hdouble hstr harray henum hstruct hseq htagged hnil hcons hmnil hmcons,
   OTy.indM hnone hint hfloat hdouble hstr harray henum hstruct hseq htagged hnil hcons hmnil hmcons⟩
end induct

/-- the form used below: a tagged struct / union at the head of an item list is a case of its own -/
theorem OTy.induct' {P : OTy → Prop} {PL : List OTy → Prop} {PM : List (OTag OTy) → Prop}
    (hnone : P .none) (hint : ∀ w, P (.int w)) (hfloat : P .float) (hdouble : P .double) (hstr : P .str)
    (harray : ∀ of dim, P of → P (.array of dim)) (henum : ∀ names, P (.enum names))
    (hstruct : ∀ items, PL items → P (.struct items)) (hseq : ∀ of, P of → P (.seq of))
    (htagged : ∀ u ms, PM ms → P (.tagged u ms))
    (hnil : PL [])
    (hconsT : ∀ u ms rest, PM ms → PL rest → PL (.tagged u ms :: rest))
    (hconsI : ∀ t rest, isTagged t = false → P t → PL rest → PL (t :: rest))
    (hmnil : PM []) (hmcons : ∀ m rest, PL m.items → PM rest → PM (m :: rest)) :
    (∀ t, P t) ∧ (∀ l, PL l) ∧ (∀ ms, PM ms) := by
  have := OTy.induct (P := fun t => P t ∧ ∀ u ms, t = .tagged u ms → PM ms) (PL := PL) (PM := PM)
    ⟨hnone, by intro _ _ h; cases h⟩ (fun w => ⟨hint w, by intro _ _ h; cases h⟩) ⟨hfloat, by intro _ _ h; cases h⟩
    ⟨hdouble, by intro _ _ h; cases h⟩ ⟨hstr, by intro _ _ h; cases h⟩
    (fun of dim ih => ⟨harray of dim ih.1, by intro _ _ h; cases h⟩) (fun names => ⟨henum names, by intro _ _ h; cases h⟩)
    (fun items ih => ⟨hstruct items ih, by intro _ _ h; cases h⟩) (fun of ih => ⟨hseq of ih.1, by intro _ _ h; cases h⟩)
    (fun u ms ih => ⟨htagged u ms ih, by intro _ _ h; cases h; exact ih⟩)
    hnil
    (fun t rest iht ihr => by
      cases t with
      | tagged u ms => exact hconsT u ms rest (iht.2 u ms rfl) ihr
      | _ => exact hconsI _ rest rfl iht.1 ihr)
    hmnil hmcons
  exact ⟨fun t => (this.1 t).1, this.2⟩

/-! ## `LRes` -/

theorem LRes.bind_def {α β : Type} (m : LRes α) (f : α → LRes β) :
    (m >>= f) = match m with | .ok a => f a | .err => .err | .panic => .panic := rfl

@[simp] theorem LRes.ok_bind {α β : Type} (a : α) (f : α → LRes β) : ((LRes.ok a : LRes α) >>= f) = f a := rfl
@[simp] theorem LRes.err_bind {α β : Type} (f : α → LRes β) : ((LRes.err : LRes α) >>= f) = .err := rfl
@[simp] theorem LRes.panic_bind {α β : Type} (f : α → LRes β) : ((LRes.panic : LRes α) >>= f) = .panic := rfl
@[simp] theorem LRes.pure_def {α : Type} (a : α) : (pure a : LRes α) = .ok a := rfl

theorem LRes.bind_ok {α β : Type} {m : LRes α} {f : α → LRes β} {b : β} (h : (m >>= f) = .ok b) :
    ∃ a, m = .ok a ∧ f a = .ok b := by
  cases m with
  | ok a => exact ⟨a, rfl, h⟩
  | err => cases h
  | panic => cases h

theorem LRes.bind_np {α β : Type} {m : LRes α} {f : α → LRes β} (hm : m ≠ .panic) (hf : ∀ a, f a ≠ .panic) :
    (m >>= f) ≠ .panic := by
  cases m with
  | ok a => exact hf a
  | err => intro h; cases h
  | panic => exact absurd rfl hm

theorem LRes.ok_np {α : Type} (a : α) : (LRes.ok a : LRes α) ≠ .panic := by intro h; cases h
theorem LRes.err_np {α : Type} : (LRes.err : LRes α) ≠ .panic := by intro h; cases h

/-! ## `mapL`, `loadArr` -/

theorem mapL_np {α β : Type} {f : α → LRes β} : ∀ (l : List α), (∀ x ∈ l, f x ≠ .panic) → mapL f l ≠ .panic
  | [], _ => by simp [mapL]
  | x :: rest, h => by
    rw [mapL]
    refine LRes.bind_np (h x (List.mem_cons_self ..)) (fun b => ?_)
    refine LRes.bind_np (mapL_np rest (fun y hy => h y (List.mem_cons_of_mem _ hy))) (fun bs => ?_)
    exact LRes.ok_np _

theorem loadArr_np {β : Type} {f : Gen → LRes β} (hf : ∀ g, f g ≠ .panic) : ∀ (n : Nat) (l : List Gen), loadArr f n l ≠ .panic
  | 0, _ => by simp [loadArr]
  | n + 1, l => by
    rw [loadArr]
    refine LRes.bind_np (hf _) (fun b => ?_)
    refine LRes.bind_np (loadArr_np hf n l.tail) (fun bs => ?_)
    exact LRes.ok_np _

/-! ## no panic -/

theorem hasTag_itemsOf (items : List (TItem Gen)) (tag : List Char) (h : hasTag items tag = true) : itemsOf items tag ≠ [] := by
  intro he
  unfold hasTag at h
  unfold itemsOf at he
  rw [List.any_eq_true] at h
  obtain ⟨x, hx, hp⟩ := h
  have : x ∈ items.filter (fun it => decide (it.tag = tag)) := List.mem_filter.2 ⟨hx, hp⟩
  rw [he] at this
  cases this

theorem loadBlockWith_np {lf : List Gen → LRes (List TVal × List Loc)} (h : ∀ gs, lf gs ≠ .panic) (g : Gen) (u so eo : Nat) :
    loadBlockWith lf g u so eo ≠ .panic := by
  unfold loadBlockWith
  cases g with
  | block line gs => exact LRes.bind_np (h gs) (fun r => LRes.ok_np _)
  | _ => exact LRes.err_np

theorem loadMember_np {lf : List Gen → LRes (List TVal × List Loc)} (h : ∀ gs, lf gs ≠ .panic) (tag : List Char) (rep : Bool)
    (items : List (TItem Gen)) : loadMember lf tag rep items ≠ .panic := by
  unfold loadMember
  split
  · exact LRes.bind_np (mapL_np _ (fun x _ => loadBlockWith_np h _ _ _ _)) (fun vs => LRes.ok_np _)
  · split
    · rename_i _ ht
      cases hi : itemsOf items tag with
      | nil => exact absurd hi (hasTag_itemsOf items tag ht)
      | cons it rest => exact LRes.bind_np (loadBlockWith_np h _ _ _ _) (fun v => LRes.ok_np _)
    · exact LRes.ok_np _

theorem loadFields_cons_tagged (u : Bool) (ms : List (OTag OTy)) (rest : List OTy) (gs : List Gen) :
    loadFields (.tagged u ms :: rest) gs =
      (loadMembers ms (gs.headD .none) >>= fun fs => loadFields rest gs.tail >>= fun r => pure (fs ++ r.1, r.2)) := by
  rw [loadFields]

theorem loadFields_cons_item (t : OTy) (ht : isTagged t = false) (rest : List OTy) (gs : List Gen) :
    loadFields (t :: rest) gs =
      (loadItem t (gs.headD .none) >>= fun x => loadFields rest gs.tail >>= fun r => pure (x.1 :: r.1, x.2 :: r.2)) := by
  cases t <;> first | rfl | (simp [isTagged] at ht)

theorem isTagged_iff (t : OTy) : isTagged t = true ↔ ∃ u ms, t = .tagged u ms := by
  cases t <;> simp [isTagged]

theorem tagItems_np (g : Gen) : tagItems g ≠ .panic := by
  cases g <;> simp [tagItems]

/-! ## the equations of `loadItem`, one per type -/

theorem loadItem_none (g : Gen) : loadItem .none g = .err := by rw [loadItem]
theorem loadItem_tagged (u : Bool) (ms : List (OTag OTy)) (g : Gen) : loadItem (.tagged u ms) g = .err := by rw [loadItem]
theorem loadItem_int (w : Nat) (g : Gen) : loadItem (.int w) g =
    match g with
    | .int w' off v hex => if w' = w then .ok (.int v, .int off hex) else .err
    | _ => .err := by cases g <;> rfl
theorem loadItem_float (g : Gen) : loadItem .float g =
    match g with
    | .float off txt => .ok (.float txt, .off off)
    | _ => .err := by cases g <;> rfl
theorem loadItem_double (g : Gen) : loadItem .double g =
    match g with
    | .double off txt => .ok (.double txt, .off off)
    | _ => .err := by cases g <;> rfl
theorem loadItem_str (g : Gen) : loadItem .str g =
    match g with
    | .str off s => .ok (.str s, .off off)
    | _ => .err := by cases g <;> rfl
theorem loadItem_array (of : OTy) (dim : Nat) (g : Gen) : loadItem (.array of dim) g =
    match g with
    | .array items => loadArr (loadItem of) dim items >>= fun rs => pure (.array (rs.map (·.1)), .arr (rs.map (·.2)))
    | _ => .err := by cases g <;> rfl
theorem loadItem_enum (names : List (List Char)) (g : Gen) : loadItem (.enum names) g =
    match g with
    | .enumItem off s => if names.contains s then .ok (.enum s, .off off) else .err
    | _ => .err := by cases g <;> rfl
theorem loadItem_struct (items : List OTy) (g : Gen) : loadItem (.struct items) g =
    match g with
    | .struct line gs => loadFields items gs >>= fun r => pure (.struct ⟨line, 0, 0, 0, r.2⟩ r.1, .off line)
    | _ => .err := by cases g <;> rfl
theorem loadItem_seq (of : OTy) (g : Gen) : loadItem (.seq of) g =
    match g with
    | .seq items => mapL (loadItem of) items >>= fun rs => pure (.seq (rs.map (·.1)), .seq (rs.map (·.2)))
    | _ => .err := by cases g <;> rfl

theorem load_np : (∀ t g, loadItem t g ≠ .panic) ∧ (∀ ts gs, loadFields ts gs ≠ .panic) ∧ (∀ ms g, loadMembers ms g ≠ .panic) := by
  refine OTy.induct' (P := fun t => ∀ g, loadItem t g ≠ .panic) (PL := fun ts => ∀ gs, loadFields ts gs ≠ .panic)
    (PM := fun ms => ∀ g, loadMembers ms g ≠ .panic) ?_ ?_ ?_ ?_ ?_ ?_ ?_ ?_ ?_ ?_ ?_ ?_ ?_ ?_ ?_
  · intro g; simp [loadItem_none]
  · intro w g; rw [loadItem_int]; cases g <;> simp; split <;> simp
  · intro g; rw [loadItem_float]; cases g <;> simp
  · intro g; rw [loadItem_double]; cases g <;> simp
  · intro g; rw [loadItem_str]; cases g <;> simp
  · intro of dim ih g
    rw [loadItem_array]
    cases g with
    | array items => exact LRes.bind_np (loadArr_np ih dim items) (fun rs => LRes.ok_np _)
    | _ => simp
  · intro names g; rw [loadItem_enum]; cases g <;> simp; split <;> simp
  · intro items ih g
    rw [loadItem_struct]
    cases g with
    | struct line gs => exact LRes.bind_np (ih gs) (fun r => LRes.ok_np _)
    | _ => simp
  · intro of ih g
    rw [loadItem_seq]
    cases g with
    | seq items => exact LRes.bind_np (mapL_np items (fun x _ => ih x)) (fun rs => LRes.ok_np _)
    | _ => simp
  · intro u ms _ g; simp [loadItem_tagged]
  · intro gs; simp [loadFields]
  · intro u ms rest ihm ihr gs
    rw [loadFields_cons_tagged]
    exact LRes.bind_np (ihm _) (fun x => LRes.bind_np (ihr _) (fun r => LRes.ok_np _))
  · intro t rest ht iht ihr gs
    rw [loadFields_cons_item t ht]
    exact LRes.bind_np (iht _) (fun x => LRes.bind_np (ihr _) (fun r => LRes.ok_np _))
  · intro g; simp [loadMembers]
  · intro m rest ihm ihr g
    rw [loadMembers]
    exact LRes.bind_np (tagItems_np g) (fun items => LRes.bind_np (loadMember_np ihm _ _ _)
      (fun v => LRes.bind_np (ihr g) (fun vs => LRes.ok_np _)))

theorem typedLoadAt_np (S : Spec) (g : Gen) (u so eo : Nat) : typedLoadAt S g u so eo ≠ .panic :=
  loadBlockWith_np (load_np.2.1 _) g u so eo

end A2l.Typed
