import A2lVerif.Model.Include
import A2lVerif.Props.C03Lex
/-!
# Lemmas for C16: `tokenize` (include resolution) of `src/tokenizer.rs`

* an extra invariant of `tokenize_core` (`lex_quoteOk`): the token directly behind an `Include` token, if it is a
  String or Identifier token whose first byte is `"`, spans at least two bytes.  The splice needs it for
  `&filetext[filename_start + 1 .. filename_end - 1]` (an A2ML block token may consist of a single `"`, but it
  always follows an Identifier token);
* the specification `walk` of the splice (plain recursion over the token list; the recursive call is an
  `Option`: `none` when the depth limit is reached) and the proof that the index arithmetic over
  `include_directives` implements it (`splice_eq_walk`, `tokenize_walk`);
* no panic, no hang, the error theorems (missing file, depth limit, propagation), the self-including file;
* the inline-expansion specifications `expand` / `expandI` (same depth budget) and the simulation `tokenize_sim`;
* the depth budget only matters for `IncludeFileError` (`tokenize_budget_mono`, `reachesMissing_mono`), and every
  `IncludeFileError` is that of a reachable missing file or of the depth limit (`includeFileError_cases`).
-/

namespace A2l.Lex

/-! ### an extra invariant of `tokenize_core`: the token behind `/include` -/

/-- second postcondition of `stringLoop`: how far the scan has moved when a quote / the end has been seen -/
theorem stringLoop_far (b : Bytes) (pos : Nat) (ef pq bk : Bool) :
    let r := stringLoop b pos ef pq bk
    pos ≤ r.1 ∧ (r.2.2 = true → pq = true ∨ pos < r.1) ∧
    (r.2.1 = true → ef = true ∨ (pq = true ∧ pos < r.1) ∨ pos + 1 < r.1) := by
  fun_induction stringLoop b pos ef pq bk with
  | case1 pos ef pq bk h hc ih =>
    refine ⟨by omega, fun h1 => ?_, fun h1 => ?_⟩
    · right; omega
    · rcases ih.2.2 h1 with h2 | h2 | h2
      · exact .inl h2
      · right; right; omega
      · right; right; omega
  | case2 pos ef bk h hc ih =>
    refine ⟨by omega, fun h1 => ?_, fun h1 => ?_⟩
    · right; rcases ih.2.1 h1 with h2 | h2
      · cases h2
      · omega
    · right; left; exact ⟨rfl, by omega⟩
  | case3 pos ef pq h hc hpq hc2 ih =>
    refine ⟨by omega, fun h1 => ?_, fun h1 => ?_⟩
    · right; rcases ih.2.1 h1 with h2 | h2
      · cases h2
      · omega
    · rcases ih.2.2 h1 with h2 | h2 | h2
      · exact .inl h2
      · cases h2.1
      · right; right; omega
  | case4 pos ef pq bk h hc hpq hc2 hbk ih =>
    refine ⟨by omega, fun h1 => ?_, fun h1 => ?_⟩
    · right; rcases ih.2.1 h1 with h2 | h2
      · cases h2
      · omega
    · rcases ih.2.2 h1 with h2 | h2 | h2
      · exact .inl h2
      · cases h2.1
      · right; right; omega
  | case5 pos ef pq bk h hc hpq hc2 ih =>
    refine ⟨by omega, fun h1 => ?_, fun h1 => ?_⟩
    · right; rcases ih.2.1 h1 with h2 | h2
      · cases h2
      · omega
    · rcases ih.2.2 h1 with h2 | h2 | h2
      · exact .inl h2
      · cases h2.1
      · right; right; omega
  | case6 pos ef pq bk h =>
    exact ⟨Nat.le_refl _, fun h1 => .inl h1, fun h1 => .inl h1⟩

/-- the closing quote found by `find_string_end` is not the opening one -/
theorem findStringEnd_far (b : Bytes) (pos q : Nat) (hpos : pos ≤ b.size) (h : findStringEnd b pos = .ok q) :
    pos < q := by
  have h1 := stringLoop_far b pos false false false
  have h2 := stringLoop_spec b pos false false false (by simp) (by simp)
  unfold findStringEnd at h
  generalize stringLoop b pos false false false = r at h h1 h2
  obtain ⟨p, ef, pq⟩ := r
  have hle := h2.le hpos
  have hexit := h2.exit
  simp only at h h1 hle hexit
  split at h
  · split at h
    · rename_i hpq
      cases h
      rcases h1.2.1 hpq with h3 | h3
      · cases h3
      · exact h3
    · cases h
  · rename_i hne
    split at h
    · cases h
    · cases h
      cases ef with
      | false => exact absurd ⟨by have := hexit rfl; omega, rfl⟩ hne
      | true =>
        rcases h1.2.2 rfl with h3 | h3 | h3
        · cases h3
        · cases h3.1
        · omega


/-- what the splice needs of the token behind `/include`: a name token that starts with `"` spans at least two bytes -/
def NameCond (b : Bytes) (t : Token) : Prop :=
  (t.ttype = .string ∨ t.ttype = .identifier) → b[t.startpos]? = some 34 → t.startpos + 2 ≤ t.endpos

/-- how one iteration changes the token vector -/
inductive Pushed (b : Bytes) (s : State) : Array Token → Prop
  | same : Pushed b s s.tokens
  | one (t : Token) : NameCond b t → Pushed b s (s.tokens.push t)
  | two (t u : Token) : NameCond b t → t.ttype ≠ .include → Pushed b s ((s.tokens.push t).push u)

def PushedRes (b : Bytes) (s : State) : StepRes → Prop
  | .cont s' => Pushed b s s'.tokens
  | _ => True

theorem nameCond_of_ne {b : Bytes} {t : Token} {c : UInt8} (h : b[t.startpos]? = some c) (hc : c ≠ 34) :
    NameCond b t := by
  intro _ h2; rw [h] at h2; cases h2; exact absurd rfl hc

theorem nameCond_of_type {b : Bytes} {t : Token} (h1 : t.ttype ≠ .string) (h2 : t.ttype ≠ .identifier) :
    NameCond b t := by
  intro h; rcases h with h | h <;> contradiction

theorem invalidToken_pushed (b : Bytes) (s : State) (p l : Nat) : PushedRes b s (invalidToken b p l) := by
  unfold invalidToken; simp only; split <;> trivial

theorem stepKeyword_pushed (b : Bytes) (s : State) (st bp len : Nat) (tt : TokType)
    (h1 : tt ≠ .string) (h2 : tt ≠ .identifier) : PushedRes b s (stepKeyword s st bp len tt) := by
  unfold stepKeyword
  split
  · trivial
  · exact .one _ (nameCond_of_type h1 h2)

theorem stepSlash_pushed (b : Bytes) (s : State) : PushedRes b s (stepSlash b s) := by
  unfold stepSlash
  simp only
  split
  · trivial
  · split
    · split
      · trivial
      · trivial
      · split
        · trivial
        · split
          · trivial
          · exact .one _ (nameCond_of_type (by simp) (by simp))
    · split
      · split
        · trivial
        · exact .one _ (nameCond_of_type (by simp) (by simp))
      · split
        · trivial
        · exact stepKeyword_pushed _ _ _ _ _ _ (by simp) (by simp)
        · split
          · trivial
          · exact stepKeyword_pushed _ _ _ _ _ _ (by simp) (by simp)
          · split
            · trivial
            · exact stepKeyword_pushed _ _ _ _ _ _ (by simp) (by simp)
            · exact invalidToken_pushed _ _ _ _

theorem stepString_pushed (b : Bytes) (s : State) (hlt : s.bytepos < b.size) : PushedRes b s (stepString b s) := by
  unfold stepString
  simp only
  split
  · trivial
  · split
    · trivial
    · trivial
    · rename_i q hq
      have := findStringEnd_far b _ q (by omega) hq
      split
      · trivial
      · refine .one _ ?_
        intro _ _; simp only; omega

theorem stepPath_pushed (b : Bytes) (s : State) (c : UInt8) (hc : b[s.bytepos]? = some c) (hne : c ≠ 34) :
    PushedRes b s (stepPath b s) := by
  unfold stepPath
  simp only
  split
  · trivial
  · exact .one _ (nameCond_of_ne (c := c) hc hne)

theorem handleA2ml_tokens (b : Bytes) (bp line : Nat) (toks : Array Token) (bp' line' : Nat) (toks' : Array Token)
    (h : handleA2ml b bp line toks = .ok (bp', line', toks')) : toks' = toks ∨ ∃ u, toks' = toks.push u := by
  unfold handleA2ml at h
  simp only at h
  split at h
  · split at h
    · cases h
    · split at h
      · split at h
        · cases h
        · split at h
          · cases h
          · split at h
            · cases h
            · split at h
              · split at h
                · cases h
                · cases h; exact .inr ⟨_, rfl⟩
              · cases h; exact .inl rfl
      · cases h; exact .inl rfl
  · cases h; exact .inl rfl

theorem stepIdent_pushed (b : Bytes) (s : State) (c : UInt8) (hc : b[s.bytepos]? = some c) (hne : c ≠ 34) :
    PushedRes b s (stepIdent b s) := by
  unfold stepIdent
  simp only
  split
  · trivial
  · split
    · trivial
    · rename_i bp' line' toks' h
      rcases handleA2ml_tokens _ _ _ _ _ _ _ h with h1 | ⟨u, h1⟩
      · subst h1; exact .one _ (nameCond_of_ne (c := c) hc hne)
      · subst h1; exact .two _ _ (nameCond_of_ne (c := c) hc hne) (by simp)

theorem stepNumber_pushed (b : Bytes) (s : State) (c : UInt8) (hc : b[s.bytepos]? = some c) (hne : c ≠ 34) :
    PushedRes b s (stepNumber b s) := by
  unfold stepNumber
  simp only
  split
  · trivial
  · split
    · trivial
    · unfold stepNumberTok
      simp only
      split
      · trivial
      · split
        · trivial
        · exact .one _ (nameCond_of_ne (c := c) hc hne)
    · split
      · split
        · exact .one _ (nameCond_of_ne (c := c) hc hne)
        · exact .same
      · exact .same

theorem step_pushed (b : Bytes) (s : State) (hlt : s.bytepos < b.size) : PushedRes b s (step b s) := by
  unfold step
  simp only
  rw [getElem?_of_lt hlt]
  simp only
  split
  · split
    · trivial
    · exact .same
  · split
    · exact stepSlash_pushed b s
    · split
      · exact stepString_pushed b s hlt
      · rename_i hq
        have hne : b[s.bytepos] ≠ 34 := by simpa using hq
        have hc := getElem?_of_lt hlt
        split
        · trivial
        · exact stepPath_pushed b s _ hc hne
        · split
          · exact stepIdent_pushed b s _ hc hne
          · split
            · exact stepNumber_pushed b s _ hc hne
            · exact invalidToken_pushed _ _ _ _


/-- every token that directly follows an `Include` token satisfies `NameCond` -/
def QuoteOkL (b : Bytes) (l : List Token) : Prop :=
  ∀ i a c, l[i]? = some a → l[i + 1]? = some c → a.ttype = .include → NameCond b c

theorem QuoteOkL.push {b : Bytes} {l : List Token} {t : Token} (h : QuoteOkL b l)
    (ht : NameCond b t ∨ ∀ a, l.getLast? = some a → a.ttype ≠ .include) : QuoteOkL b (l ++ [t]) := by
  intro i a c ha hc hinc
  by_cases hi : i + 1 < l.length
  · rw [List.getElem?_append_left (by omega)] at ha
    rw [List.getElem?_append_left hi] at hc
    exact h i a c ha hc hinc
  · by_cases hi2 : i + 1 = l.length
    · rw [List.getElem?_append_right (by omega)] at hc
      have : i + 1 - l.length = 0 := by omega
      rw [this] at hc
      simp only [List.getElem?_cons_zero, Option.some.injEq] at hc
      subst hc
      rcases ht with ht | ht
      · exact ht
      · rw [List.getElem?_append_left (by omega)] at ha
        have hl : l.getLast? = some a := by
          rw [List.getLast?_eq_getElem?]
          have : l.length - 1 = i := by omega
          rw [this]; exact ha
        exact absurd hinc (ht a hl)
    · have : (l ++ [t])[i + 1]? = none := by
        apply List.getElem?_eq_none; simp; omega
      rw [this] at hc; cases hc

theorem Pushed.quoteOk {b : Bytes} {s : State} {toks : Array Token} (h : Pushed b s toks)
    (hq : QuoteOkL b s.tokens.toList) : QuoteOkL b toks.toList := by
  cases h with
  | same => exact hq
  | one t ht => rw [Array.toList_push]; exact hq.push (.inl ht)
  | two t u ht hne =>
    rw [Array.toList_push, Array.toList_push]
    refine (hq.push (.inl ht)).push (.inr ?_)
    intro a ha; simp at ha; subst ha; exact hne

theorem loop_quoteOk (b : Bytes) : ∀ (fuel : Nat) (s : State) (ts : List Token), QuoteOkL b s.tokens.toList →
    loop b fuel s = .ok ts → QuoteOkL b ts := by
  intro fuel
  induction fuel with
  | zero => intro s ts _ h; simp [loop] at h
  | succ fuel ih =>
    intro s ts hq h
    unfold loop at h
    by_cases hlt : s.bytepos < b.size
    · rw [if_pos hlt] at h
      have hp := step_pushed b s hlt
      split at h
      · cases h
      · cases h
      · rename_i s' hs
        rw [hs] at hp
        exact ih s' ts (hp.quoteOk hq) h
    · rw [if_neg hlt] at h
      cases h; exact hq

/-- **the token behind `/include`**: if it is a String or Identifier token whose first byte is `"`, it spans at
    least two bytes (an A2ML block token, which may consist of a single `"`, always follows an Identifier) -/
theorem lex_quoteOk (b : Bytes) (ts : List Token) (h : tokenize b = .ok ts) : QuoteOkL b ts :=
  loop_quoteOk b _ initState ts (by intro i a c ha; simp [initState] at ha) h

end A2l.Lex

namespace A2l.Inc
open A2l.Lex (Bytes TokType)

/-! ### the specification of the splice: a walk over the token list -/

/-- String or Identifier -/
def isName (t : Tok) : Prop := t.ttype = .string ∨ t.ttype = .identifier
instance (t : Tok) : Decidable (isName t) := by unfold isName; infer_instance

/-- the text of the name token without the surrounding quotes -/
def nameAt (b : Bytes) (s e : Nat) : Path :=
  if b[s]? = some 34 ∧ b[e - 1]? = some 34 then (b.extract (s + 1) (e - 1)).toList else (b.extract s e).toList

def nameOf (b : Bytes) (t : Tok) : Path := nameAt b t.startpos t.endpos

/-- the file that the directive `/include nm` in file `filename` names -/
def resolve (fs : FS) (filename : Filename) (b : Bytes) (nm : Tok) : Filename :=
  { full := makeIncludeFilename fs (nameOf b nm) filename.full, display := nameOf b nm }

/-- the state after the included file has been tokenized to `r` -/
def St.add (st : St) (r : TokenResult) : St :=
  { tokens := st.tokens ++ r.tokens, filenames := st.filenames ++ r.filenames,
    filedatas := st.filedatas ++ r.filedata, nextFileid := st.nextFileid + r.filenames.length }

/-- copy tokens -/
def St.push (st : St) (l : List Tok) : St := { st with tokens := st.tokens ++ l }

/-- the splice as a plain walk over the token list: an `Include` token followed by a name token is replaced by the
    tokens of the named file, every other token is copied; `rec` tokenizes the included file, `rec = none`:
    the depth limit is reached and no file is loaded -/
def walk (rec : Option Rec) (fs : FS) (filename : Filename) (b : Bytes) : List Tok → St → R St
  | [], st => .ok st
  | t :: ts, st =>
    if t.ttype = .include then
      match ts with
      | [] => .err (.IncompleteIncludeError filename.display t.line)
      | nm :: ts' =>
        if isName nm then
          match rec with
          | none => .err (.IncludeFileError filename.display nm.line (nameOf b nm))
          | some f =>
            match load fs (resolve fs filename b nm).full with
            | some data =>
              match f (resolve fs filename b nm) st.nextFileid data with
              | .ok r => walk rec fs filename b ts' (st.add r)
              | .err e => .err e
              | .panic => .panic
              | .hang => .hang
            | none => .err (.IncludeFileError filename.display nm.line (nameOf b nm))
        else .err (.IncompleteIncludeError filename.display t.line)
    else walk rec fs filename b ts (st.push [t])

/-- the initial locals -/
def St.init (filename : Filename) (fileid : Nat) (b : Bytes) : St :=
  { tokens := [], filenames := [filename], filedatas := [b], nextFileid := fileid + 1 }

/-- `Ok(TokenResult { tokens, filenames, filedata })` -/
def finish : R St → Res
  | .ok st => .ok { tokens := st.tokens, filedata := st.filedatas, filenames := st.filenames }
  | .err e => .err e
  | .panic => .panic
  | .hang => .hang

/-! ### list facts -/

theorem walk_nil (rec : Option Rec) (fs : FS) (fn : Filename) (b : Bytes) (st : St) :
    walk rec fs fn b [] st = .ok st := by simp [walk]

theorem walk_cons_copy (rec : Option Rec) (fs : FS) (fn : Filename) (b : Bytes) (t : Tok)
    (ts : List Tok) (st : St) (h : t.ttype ≠ .include) :
    walk rec fs fn b (t :: ts) st = walk rec fs fn b ts (st.push [t]) := by
  rw [walk.eq_def]; simp only [if_neg h]

theorem walk_inc_nil (rec : Option Rec) (fs : FS) (fn : Filename) (b : Bytes) (t : Tok)
    (st : St) (h : t.ttype = .include) :
    walk rec fs fn b [t] st = .err (.IncompleteIncludeError fn.display t.line) := by
  rw [walk.eq_def]; simp only [if_pos h]

theorem walk_inc_notName (rec : Option Rec) (fs : FS) (fn : Filename) (b : Bytes) (t nm : Tok)
    (ts : List Tok) (st : St) (h : t.ttype = .include) (hn : ¬ isName nm) :
    walk rec fs fn b (t :: nm :: ts) st = .err (.IncompleteIncludeError fn.display t.line) := by
  rw [walk.eq_def]; simp only [if_pos h, if_neg hn]

theorem walk_inc_name (rec : Option Rec) (fs : FS) (fn : Filename) (b : Bytes) (t nm : Tok)
    (ts : List Tok) (st : St) (h : t.ttype = .include) (hn : isName nm) :
    walk rec fs fn b (t :: nm :: ts) st =
      match rec with
      | none => .err (.IncludeFileError fn.display nm.line (nameOf b nm))
      | some f =>
        match load fs (resolve fs fn b nm).full with
        | some data =>
          match f (resolve fs fn b nm) st.nextFileid data with
          | .ok r => walk rec fs fn b ts (st.add r)
          | .err e => .err e
          | .panic => .panic
          | .hang => .hang
        | none => .err (.IncludeFileError fn.display nm.line (nameOf b nm)) := by
  rw [walk.eq_def]; simp only [if_pos h, if_pos hn]

/-- the depth limit is reached: the directive is the error of a file that cannot be loaded -/
theorem walk_inc_limit (fs : FS) (fn : Filename) (b : Bytes) (t nm : Tok)
    (ts : List Tok) (st : St) (h : t.ttype = .include) (hn : isName nm) :
    walk none fs fn b (t :: nm :: ts) st = .err (.IncludeFileError fn.display nm.line (nameOf b nm)) := by
  rw [walk_inc_name _ _ _ _ _ _ _ _ h hn]

theorem walk_inc_some (f : Rec) (fs : FS) (fn : Filename) (b : Bytes) (t nm : Tok)
    (ts : List Tok) (st : St) (h : t.ttype = .include) (hn : isName nm) :
    walk (some f) fs fn b (t :: nm :: ts) st =
      match load fs (resolve fs fn b nm).full with
      | some data =>
        match f (resolve fs fn b nm) st.nextFileid data with
        | .ok r => walk (some f) fs fn b ts (st.add r)
        | .err e => .err e
        | .panic => .panic
        | .hang => .hang
      | none => .err (.IncludeFileError fn.display nm.line (nameOf b nm)) := by
  rw [walk_inc_name _ _ _ _ _ _ _ _ h hn]

theorem walk_noInc (rec : Option Rec) (fs : FS) (fn : Filename) (b : Bytes) :
    ∀ (seg l : List Tok) (st : St), (∀ t ∈ seg, t.ttype ≠ .include) →
      walk rec fs fn b (seg ++ l) st = walk rec fs fn b l (st.push seg) := by
  intro seg
  induction seg with
  | nil => intro l st _; simp [St.push]
  | cons t seg ih =>
    intro l st h
    have ht : t.ttype ≠ .include := h t (by simp)
    rw [List.cons_append, walk_cons_copy _ _ _ _ _ _ _ ht, ih l _ (fun t' ht' => h t' (by simp [ht']))]
    simp [St.push]

def notInc (t : Tok) : Bool := decide (t.ttype ≠ .include)

theorem includeDirectives_span : ∀ (l : List Tok) (o : Nat),
    includeDirectives l o = includeDirectives (l.dropWhile notInc) (o + (l.takeWhile notInc).length) := by
  intro l
  induction l with
  | nil => intro o; simp
  | cons t l ih =>
    intro o
    by_cases ht : t.ttype = .include
    · have : notInc t = false := by simp [notInc, ht]
      simp [this]
    · have : notInc t = true := by simp [notInc, ht]
      rw [includeDirectives, if_neg ht, ih]
      simp only [List.dropWhile_cons, List.takeWhile_cons, this, if_true, List.length_cons]
      congr 1; omega

/-- empty, or the first token is an `Include` token -/
def Starts (l : List Tok) : Prop := l = [] ∨ ∃ inc rest, l = inc :: rest ∧ inc.ttype = .include

theorem starts_dropWhile (l : List Tok) : Starts (l.dropWhile notInc) := by
  induction l with
  | nil => exact .inl rfl
  | cons t l ih =>
    by_cases ht : t.ttype = .include
    · have : notInc t = false := by simp [notInc, ht]
      rw [List.dropWhile_cons, this]; exact .inr ⟨t, l, rfl, ht⟩
    · have : notInc t = true := by simp [notInc, ht]
      rw [List.dropWhile_cons, this]; exact ih

theorem takeWhile_noInc (l : List Tok) : ∀ t ∈ l.takeWhile notInc, t.ttype ≠ .include := by
  induction l with
  | nil => intro t ht; simp at ht
  | cons a l ih =>
    intro t ht
    by_cases ha : a.ttype = .include
    · have : notInc a = false := by simp [notInc, ha]
      simp [this] at ht
    · have : notInc a = true := by simp [notInc, ha]
      simp only [List.takeWhile_cons, this, if_true, List.mem_cons] at ht
      rcases ht with ht | ht
      · subst ht; exact ha
      · exact ih t ht

theorem sliceL_mid {α : Type} (A seg C : List α) :
    sliceL (A ++ seg ++ C) A.length (A.length + seg.length) = .ok seg := by
  unfold sliceL
  rw [if_pos (by simp)]
  congr 1
  simp [List.take_append]


/-! ### the index-juggling implements the walk -/

/-- what the splice needs of the output of `tokenize_core` (see `wf_of_lex`) -/
structure WF (b : Bytes) (input : List Tok) : Prop where
  span : ∀ t ∈ input, t.startpos < t.endpos ∧ t.endpos ≤ b.size
  quote : ∀ i a c, input[i]? = some a → input[i + 1]? = some c → a.ttype = .include → isName c →
    b[c.startpos]? = some 34 → c.startpos + 2 ≤ c.endpos

theorem incName_eq (b : Bytes) (t : Tok) (hs : t.startpos < t.endpos) (he : t.endpos ≤ b.size)
    (hq : b[t.startpos]? = some 34 → t.startpos + 2 ≤ t.endpos) : incName b t = .ok (nameOf b t) := by
  have h0 : b[t.startpos]? = some b[t.startpos] := Lex.getElem?_of_lt (by omega)
  have h1 : b[t.endpos - 1]? = some b[t.endpos - 1] := Lex.getElem?_of_lt (by omega)
  unfold incName stripQuotes nameOf nameAt
  rw [h0]; simp only
  by_cases hc0 : b[t.startpos] = 34
  · have := hq (by rw [h0, hc0])
    rw [if_pos (by simp [hc0]), if_neg (by omega), h1]; simp only
    by_cases hc1 : b[t.endpos - 1] = 34
    · rw [if_pos (by simp [hc1])]
      simp only [Lex.slice]
      rw [if_pos ⟨by omega, by omega⟩, if_pos ⟨by rw [hc0], by rw [hc1]⟩]
    · rw [if_neg (by simp [hc1])]
      simp only [Lex.slice]
      rw [if_pos ⟨by omega, by omega⟩, if_neg (by simp [hc1])]
  · rw [if_neg (by simp [hc0])]
    simp only [Lex.slice]
    rw [if_pos ⟨by omega, by omega⟩, if_neg (by simp [hc0])]

/-- sequencing of outcomes -/
def R.andThen {α β : Type} (x : R α) (f : α → R β) : R β :=
  match x with
  | .ok a => f a
  | .err e => .err e
  | .panic => .panic
  | .hang => .hang

theorem loop_succ (rec : Option Rec) (fs : FS) (fn : Filename) (b : Bytes) (input : List Tok)
    (dirs : List Nat) (n idx : Nat) (st : St) :
    loop rec fs fn b input dirs (n + 1) idx st =
      (directive rec fs fn b input dirs idx st).andThen (loop rec fs fn b input dirs n (idx + 1)) := by
  rw [loop]; cases directive rec fs fn b input dirs idx st <;> rfl

/-- one iteration of the loop is one `/include` step of the walk -/
theorem directive_walk (rec : Option Rec) (fs : FS) (fn : Filename) (b : Bytes)
    (input : List Tok) (dirs : List Nat) (k : Nat) (st : St) (pre seg l' : List Tok) (inc : Tok)
    (hinput : input = pre ++ inc :: (seg ++ l')) (hinc : inc.ttype = .include)
    (hseg : ∀ t ∈ seg, t.ttype ≠ .include) (hl' : Starts l') (wf : WF b input)
    (hp : dirs[k]? = some pre.length) (hq : dirs[k + 1]? = some (pre.length + 1 + seg.length)) :
    walk rec fs fn b (inc :: (seg ++ l')) st =
      (directive rec fs fn b input dirs (k + 1) st).andThen (walk rec fs fn b l') := by
  have hslice : sliceL input (pre.length + 1) (pre.length + 1 + seg.length) = .ok seg := by
    have : input = (pre ++ [inc]) ++ seg ++ l' := by simp [hinput]
    rw [this]
    have h2 := sliceL_mid (pre ++ [inc]) seg l'
    simpa using h2
  have hincAt : input[pre.length]? = some inc := by simp [hinput]
  unfold directive
  rw [if_neg (by omega)]
  have : k + 1 - 1 = k := by omega
  rw [this, hp, hq]
  simp only
  rw [hslice]
  cases seg with
  | nil =>
    simp only [incomplete, hincAt, List.nil_append, R.andThen]
    rcases hl' with hl' | ⟨inc', r, hl', hinc'⟩
    · subst hl'; exact walk_inc_nil _ _ _ _ _ _ hinc
    · subst hl'
      exact walk_inc_notName _ _ _ _ _ _ _ _ hinc (by simp [isName, hinc'])
  | cons t0 seg' =>
    simp only
    by_cases hn : isName t0
    · have hmem : t0 ∈ input := by simp [hinput]
      have hnext : input[pre.length + 1]? = some t0 := by simp [hinput]
      have hname := incName_eq b t0 (wf.span t0 hmem).1 (wf.span t0 hmem).2
        (wf.quote _ _ _ hincAt hnext hinc hn)
      rw [if_pos (show t0.ttype = .string ∨ t0.ttype = .identifier from hn), hname, List.cons_append, walk_inc_name _ _ _ _ _ _ _ _ hinc hn]
      simp only [resolve]
      cases rec with
      | none => rfl
      | some f =>
      simp only
      cases load fs (makeIncludeFilename fs (nameOf b t0) fn.full) with
      | none => rfl
      | some data =>
        simp only
        cases f { full := makeIncludeFilename fs (nameOf b t0) fn.full, display := nameOf b t0 }
          st.nextFileid data with
        | ok r =>
          simp only [R.andThen]
          rw [walk_noInc _ _ _ _ _ _ _ (fun t ht => hseg t (by simp [ht]))]
          simp [St.add, St.push]
        | err e => rfl
        | panic => rfl
        | hang => rfl
    · rw [if_neg (show ¬ (t0.ttype = .string ∨ t0.ttype = .identifier) from hn)]
      simp only [incomplete, hincAt, List.cons_append, R.andThen]
      exact walk_inc_notName _ _ _ _ _ _ _ _ hinc hn


theorem includeDirectives_cons_inc (inc : Tok) (rest : List Tok) (o : Nat) (h : inc.ttype = .include) :
    includeDirectives (inc :: rest) o = o :: includeDirectives rest (o + 1) := by
  rw [includeDirectives, if_pos h]

/-- the loop from the `k`-th directive on is the walk over the rest of the input that starts at that directive -/
theorem loop_walk (rec : Option Rec) (fs : FS) (fn : Filename) (b : Bytes)
    (input : List Tok) (dirs : List Nat) (wf : WF b input) :
    ∀ (m k : Nat) (pre l : List Tok) (dpre : List Nat) (st : St),
      input = pre ++ l → Starts l → dpre.length = k →
      dirs = dpre ++ includeDirectives l pre.length ++ [input.length] →
      (includeDirectives l pre.length).length = m →
      loop rec fs fn b input dirs m (k + 1) st = walk rec fs fn b l st := by
  intro m
  induction m with
  | zero =>
    intro k pre l dpre st hinput hl hk hdirs hm
    rcases hl with hl | ⟨inc, rest, hl, hinc⟩
    · subst hl; simp [loop, walk_nil]
    · subst hl; rw [includeDirectives_cons_inc _ _ _ hinc] at hm; simp at hm
  | succ m ih =>
    intro k pre l dpre st hinput hl hk hdirs hm
    rcases hl with hl | ⟨inc, rest, hl, hinc⟩
    · subst hl; simp [includeDirectives] at hm
    · subst hl
      have hrest : rest = rest.takeWhile notInc ++ rest.dropWhile notInc := (List.takeWhile_append_dropWhile).symm
      generalize hseg : rest.takeWhile notInc = seg at hrest
      generalize hl' : rest.dropWhile notInc = l' at hrest
      have hsegNo : ∀ t ∈ seg, t.ttype ≠ .include := by rw [← hseg]; exact takeWhile_noInc rest
      have hstarts : Starts l' := by rw [← hl']; exact starts_dropWhile rest
      have hspan : includeDirectives rest (pre.length + 1) = includeDirectives l' (pre.length + 1 + seg.length) := by
        rw [includeDirectives_span, hseg, hl']
      rw [includeDirectives_cons_inc _ _ _ hinc, hspan] at hdirs hm
      have hlen : (pre ++ inc :: seg).length = pre.length + 1 + seg.length := by simp; omega
      have hinput' : input = pre ++ inc :: (seg ++ l') := by rw [hinput, hrest]
      have hp : dirs[k]? = some pre.length := by
        rw [hdirs, List.append_assoc, List.getElem?_append_right (by omega)]
        simp [hk]
      have hq : dirs[k + 1]? = some (pre.length + 1 + seg.length) := by
        rw [hdirs, List.append_assoc, List.getElem?_append_right (by omega)]
        have : k + 1 - dpre.length = 1 := by omega
        rw [this]
        rcases hstarts with h | ⟨inc', r, h, hinc'⟩
        · subst h
          have : input.length = pre.length + 1 + seg.length := by rw [hinput']; simp; omega
          simp [includeDirectives, this]
        · subst h
          simp [includeDirectives_cons_inc _ _ _ hinc']
      rw [loop_succ, hrest, directive_walk rec fs fn b input dirs k st pre seg l' inc hinput' hinc hsegNo hstarts wf hp hq]
      congr 1
      funext st'
      refine ih (k + 1) (pre ++ inc :: seg) l' (dpre ++ [pre.length]) st' ?_ hstarts (by simp [hk]) ?_ ?_
      · rw [hinput']; simp
      · rw [hdirs, hlen]; simp
      · rw [hlen]; simpa using hm

/-- **the index arithmetic of `tokenize` implements the walk** (for token lists as `tokenize_core` produces them) -/
theorem splice_eq_walk (rec : Option Rec) (fs : FS) (fn : Filename) (fid : Nat) (b : Bytes)
    (input : List Tok) (wf : WF b input) :
    splice rec fs fn fid b input = finish (walk rec fs fn b input (St.init fn fid b)) := by
  have hin : input = input.takeWhile notInc ++ input.dropWhile notInc := (List.takeWhile_append_dropWhile).symm
  have hspan := includeDirectives_span input 0
  generalize hseg : input.takeWhile notInc = seg at hin hspan
  generalize hl : input.dropWhile notInc = l at hin hspan
  have hsegNo : ∀ t ∈ seg, t.ttype ≠ .include := by rw [← hseg]; exact takeWhile_noInc input
  have hstarts : Starts l := by rw [← hl]; exact starts_dropWhile input
  have hwalk : walk rec fs fn b input (St.init fn fid b) = walk rec fs fn b l ((St.init fn fid b).push seg) := by
    conv => lhs; rw [hin]
    exact walk_noInc _ _ _ _ _ _ _ hsegNo
  rw [hwalk]
  unfold splice
  simp only
  rw [hspan]
  rcases hstarts with h | ⟨inc, rest, h, hinc⟩
  · subst h
    simp only [List.append_nil] at hin
    simp [includeDirectives, walk_nil, finish, St.push, St.init, hin]
  · have hslice : sliceL input 0 seg.length = .ok seg := by
      have := sliceL_mid [] seg l
      simpa [← hin] using this
    rw [h, includeDirectives_cons_inc _ _ _ hinc]
    simp only [List.isEmpty_cons, Bool.false_eq_true, if_false, List.getElem?_cons_zero, Nat.zero_add]
    rw [hslice]
    simp only
    have hloop := loop_walk rec fs fn b input
      (seg.length :: includeDirectives rest (seg.length + 1) ++ [input.length]) wf
      (includeDirectives rest (seg.length + 1)).length.succ 0 seg l []
      { tokens := seg, filenames := [fn], filedatas := [b], nextFileid := fid + 1 }
      hin (by rw [h]; exact .inr ⟨inc, rest, rfl, hinc⟩) rfl
      (by rw [h, includeDirectives_cons_inc _ _ _ hinc]; simp)
      (by rw [h, includeDirectives_cons_inc _ _ _ hinc]; simp)
    have hlen : (seg.length :: includeDirectives rest (seg.length + 1) ++ [input.length]).length - 1 =
        (includeDirectives rest (seg.length + 1)).length.succ := by simp
    rw [hlen, hloop, h]
    have hst : ({ tokens := seg, filenames := [fn], filedatas := [b], nextFileid := fid + 1 } : St) =
        (St.init fn fid b).push seg := by simp [St.init, St.push]
    rw [hst]
    cases walk rec fs fn b (inc :: rest) ((St.init fn fid b).push seg) <;> rfl


/-! ### `tokenize` in terms of the walk -/

theorem wf_of_lex (b : Bytes) (lt : List Lex.Token) (fid : Nat) (h : Lex.tokenize b = .ok lt) :
    WF b (lt.map (Tok.ofLex fid)) where
  span := by
    intro t ht
    obtain ⟨t0, ht0, rfl⟩ := List.mem_map.1 ht
    exact (Lex.lex_inv b lt h).1 t0 ht0
  quote := by
    intro i a c ha hc hinc hn hq
    rw [List.getElem?_map] at ha hc
    cases ha0 : lt[i]? with
    | none => rw [ha0] at ha; cases ha
    | some a0 =>
      cases hc0 : lt[i + 1]? with
      | none => rw [hc0] at hc; cases hc
      | some c0 =>
        rw [ha0] at ha; rw [hc0] at hc
        simp only [Option.map_some, Option.some.injEq] at ha hc
        subst ha; subst hc
        exact Lex.lex_quoteOk b lt h i a0 c0 ha0 hc0 hinc hn hq


/-- the recursive call that is available with the depth budget `n`: none at `0` (`depth = MAX_INCLUDE_DEPTH`) -/
def deeper (fs : FS) : Nat → Option Rec
  | 0 => none
  | n + 1 => some (tokenize fs n)

theorem tokenize_eq_with (fs : FS) (n : Nat) (fn : Filename) (fid : Nat) (b : Bytes) :
    tokenize fs n fn fid b = tokenizeWith (deeper fs n) fs fn fid b := by
  cases n <;> rfl

theorem tokenizeWith_walk (rec : Option Rec) (fs : FS) (fn : Filename) (fid : Nat) (b : Bytes) :
    tokenizeWith rec fs fn fid b =
      match Lex.tokenize b with
      | .err k l => .err (.Lex fn.display k l)
      | .panic => .panic
      | .hang => .hang
      | .ok lt => finish (walk rec fs fn b (lt.map (Tok.ofLex fid)) (St.init fn fid b)) := by
  rw [tokenizeWith]
  cases h : Lex.tokenize b with
  | ok lt => exact splice_eq_walk _ _ _ _ _ _ (wf_of_lex b lt fid h)
  | err k l => rfl
  | panic => rfl
  | hang => rfl

/-- **`tokenize` is `tokenize_core` followed by the walk** -/
theorem tokenize_walk (fs : FS) (n : Nat) (fn : Filename) (fid : Nat) (b : Bytes) :
    tokenize fs n fn fid b =
      match Lex.tokenize b with
      | .err k l => .err (.Lex fn.display k l)
      | .panic => .panic
      | .hang => .hang
      | .ok lt => finish (walk (deeper fs n) fs fn b (lt.map (Tok.ofLex fid)) (St.init fn fid b)) := by
  rw [tokenize_eq_with, tokenizeWith_walk]

theorem tokenize_of_lex (fs : FS) (n : Nat) (fn : Filename) (fid : Nat) (b : Bytes) (lt : List Lex.Token)
    (h : Lex.tokenize b = .ok lt) :
    tokenize fs n fn fid b =
      finish (walk (deeper fs n) fs fn b (lt.map (Tok.ofLex fid)) (St.init fn fid b)) := by
  rw [tokenize_walk, h]

/-! ### no panic, no hang -/

theorem walk_no_panic (rec : Option Rec) (fs : FS) (fn : Filename) (b : Bytes)
    (hrec : ∀ g, rec = some g → ∀ f i d, g f i d ≠ .panic) (l : List Tok) (st : St) :
    walk rec fs fn b l st ≠ .panic := by
  fun_induction walk rec fs fn b l st <;> simp_all

theorem walk_no_hang (rec : Option Rec) (fs : FS) (fn : Filename) (b : Bytes)
    (hrec : ∀ g, rec = some g → ∀ f i d, g f i d ≠ .hang) (l : List Tok) (st : St) :
    walk rec fs fn b l st ≠ .hang := by
  fun_induction walk rec fs fn b l st <;> simp_all

theorem finish_ne_panic {x : R St} (h : x ≠ .panic) : finish x ≠ .panic := by
  cases x <;> simp_all [finish]

theorem finish_ne_hang {x : R St} (h : x ≠ .hang) : finish x ≠ .hang := by
  cases x <;> simp_all [finish]

theorem tokenizeWith_no_panic (rec : Option Rec) (fs : FS)
    (hrec : ∀ g, rec = some g → ∀ f i d, g f i d ≠ .panic) (fn : Filename) (fid : Nat) (b : Bytes) :
    tokenizeWith rec fs fn fid b ≠ .panic := by
  rw [tokenizeWith_walk]
  cases h : Lex.tokenize b with
  | ok lt => exact finish_ne_panic (walk_no_panic _ _ _ _ hrec _ _)
  | err k l => simp
  | panic => exact absurd h (Lex.lex_no_panic b)
  | hang => simp

theorem tokenizeWith_no_hang (rec : Option Rec) (fs : FS)
    (hrec : ∀ g, rec = some g → ∀ f i d, g f i d ≠ .hang) (fn : Filename) (fid : Nat) (b : Bytes) :
    tokenizeWith rec fs fn fid b ≠ .hang := by
  rw [tokenizeWith_walk]
  cases h : Lex.tokenize b with
  | ok lt => exact finish_ne_hang (walk_no_hang _ _ _ _ hrec _ _)
  | err k l => simp
  | panic => simp
  | hang => exact absurd h (Lex.lex_no_hang b)

theorem tokenize_no_panic (fs : FS) : ∀ (n : Nat) (fn : Filename) (fid : Nat) (b : Bytes),
    tokenize fs n fn fid b ≠ .panic := by
  intro n
  induction n with
  | zero => intro fn fid b; exact tokenizeWith_no_panic none fs (by intro g hg; cases hg) fn fid b
  | succ n ih =>
    intro fn fid b
    exact tokenizeWith_no_panic (some (tokenize fs n)) fs (by intro g hg; cases hg; exact ih) fn fid b

theorem tokenize_no_hang (fs : FS) : ∀ (n : Nat) (fn : Filename) (fid : Nat) (b : Bytes),
    tokenize fs n fn fid b ≠ .hang := by
  intro n
  induction n with
  | zero => intro fn fid b; exact tokenizeWith_no_hang none fs (by intro g hg; cases hg) fn fid b
  | succ n ih =>
    intro fn fid b
    exact tokenizeWith_no_hang (some (tokenize fs n)) fs (by intro g hg; cases hg; exact ih) fn fid b

/-! ### errors -/

/-- a prefix that resolves can be walked first -/
theorem walk_append (rec : Option Rec) (fs : FS) (fn : Filename) (b : Bytes)
    (pre rest : List Tok) (st st1 : St) (h : walk rec fs fn b pre st = .ok st1) :
    walk rec fs fn b (pre ++ rest) st = walk rec fs fn b rest st1 := by
  fun_induction walk rec fs fn b pre st generalizing st1 with
  | case1 st => simp at h; subst h; rfl
  | case2 t st hinc => cases h
  | case3 t st hinc nm ts' hn hf => cases h
  | case4 t st hinc nm ts' hn f hf data hload r hrec ih =>
    subst hf
    rw [List.cons_append, List.cons_append, walk_inc_some _ _ _ _ _ _ _ _ hinc hn, hload]
    simp only [hrec]
    exact ih st1 h
  | case5 t st hinc nm ts' hn f hf data hload e hrec => cases h
  | case6 t st hinc nm ts' hn f hf data hload hrec => cases h
  | case7 t st hinc nm ts' hn f hf data hload hrec => cases h
  | case8 t st hinc nm ts' hn f hf hload => cases h
  | case9 t st hinc nm ts' hn => cases h
  | case10 t ts st hinc ih =>
    rw [List.cons_append, walk_cons_copy _ _ _ _ _ _ _ hinc]
    exact ih st1 h


theorem walk_all_copy (rec : Option Rec) (fs : FS) (fn : Filename) (b : Bytes)
    (pre : List Tok) (st : St) (h : ∀ t ∈ pre, t.ttype ≠ .include) :
    walk rec fs fn b pre st = .ok (st.push pre) := by
  have := walk_noInc rec fs fn b pre [] st h
  rw [List.append_nil, walk_nil] at this
  exact this

/-- the part of `tokenize` (depth budget `n`) in front of a directive has been spliced without an error -/
def Resolves (fs : FS) (n : Nat) (fn : Filename) (fid : Nat) (b : Bytes) (pre : List Lex.Token) (st1 : St) : Prop :=
  walk (deeper fs n) fs fn b (pre.map (Tok.ofLex fid)) (St.init fn fid b) = .ok st1

theorem resolves_of_noInc (fs : FS) (n : Nat) (fn : Filename) (fid : Nat) (b : Bytes) (pre : List Lex.Token)
    (h : ∀ t ∈ pre, t.ttype ≠ .include) :
    Resolves fs n fn fid b pre ((St.init fn fid b).push (pre.map (Tok.ofLex fid))) := by
  apply walk_all_copy
  intro t ht
  obtain ⟨t0, ht0, rfl⟩ := List.mem_map.1 ht
  exact h t0 ht0

/-- the file named by the directive `/include nm` in the file `fn` with content `b` -/
def target (fs : FS) (fn : Filename) (b : Bytes) (nm : Lex.Token) : Filename :=
  { full := makeIncludeFilename fs (nameAt b nm.startpos nm.endpos) fn.full, display := nameAt b nm.startpos nm.endpos }

theorem resolve_ofLex (fs : FS) (fn : Filename) (b : Bytes) (fid : Nat) (nm : Lex.Token) :
    resolve fs fn b (Tok.ofLex fid nm) = target fs fn b nm := rfl

theorem tokenize_at_directive (fs : FS) (n : Nat) (fn : Filename) (fid : Nat) (b : Bytes)
    (pre post : List Lex.Token) (inc : Lex.Token) (st1 : St)
    (hlex : Lex.tokenize b = .ok (pre ++ inc :: post)) (hpre : Resolves fs n fn fid b pre st1) :
    tokenize fs n fn fid b =
      finish (walk (deeper fs n) fs fn b ((inc :: post).map (Tok.ofLex fid)) st1) := by
  rw [tokenize_of_lex fs n fn fid b _ hlex, List.map_append, walk_append _ _ _ _ _ _ _ _ hpre]

/-- a directive whose file cannot be loaded: `IncludeFileError` naming the directive (all directives in front of
    it having been resolved); for every depth budget -/
theorem missing_include (fs : FS) (n : Nat) (fn : Filename) (fid : Nat) (b : Bytes)
    (pre post : List Lex.Token) (inc nm : Lex.Token) (st1 : St)
    (hlex : Lex.tokenize b = .ok (pre ++ inc :: nm :: post))
    (hinc : inc.ttype = .include) (hnm : nm.ttype = .string ∨ nm.ttype = .identifier)
    (hpre : Resolves fs n fn fid b pre st1)
    (hmiss : load fs (target fs fn b nm).full = none) :
    tokenize fs n fn fid b =
      .err (.IncludeFileError fn.display nm.line (nameAt b nm.startpos nm.endpos)) := by
  rw [tokenize_at_directive fs n fn fid b pre _ inc st1 hlex hpre]
  simp only [List.map_cons]
  rw [walk_inc_name _ _ _ _ _ _ _ _ (by exact hinc) (by exact hnm), resolve_ofLex, hmiss]
  cases deeper fs n <;> rfl

/-- a directive with a usable name at depth budget `0` (`depth = MAX_INCLUDE_DEPTH`): the same `IncludeFileError`,
    whether the file exists or not -/
theorem depth_limit (fs : FS) (fn : Filename) (fid : Nat) (b : Bytes)
    (pre post : List Lex.Token) (inc nm : Lex.Token) (st1 : St)
    (hlex : Lex.tokenize b = .ok (pre ++ inc :: nm :: post))
    (hinc : inc.ttype = .include) (hnm : nm.ttype = .string ∨ nm.ttype = .identifier)
    (hpre : Resolves fs 0 fn fid b pre st1) :
    tokenize fs 0 fn fid b =
      .err (.IncludeFileError fn.display nm.line (nameAt b nm.startpos nm.endpos)) := by
  rw [tokenize_at_directive fs 0 fn fid b pre _ inc st1 hlex hpre]
  simp only [List.map_cons, deeper]
  rw [walk_inc_limit _ _ _ _ _ _ _ (by exact hinc) (by exact hnm)]
  rfl

/-- at depth budget `0` a prefix resolves only if it contains no directive -/
theorem resolves_zero (fs : FS) (fn : Filename) (fid : Nat) (b : Bytes) (pre : List Lex.Token) (st1 : St)
    (h : Resolves fs 0 fn fid b pre st1) : ∀ t ∈ pre, t.ttype ≠ .include := by
  unfold Resolves at h
  simp only [deeper] at h
  generalize St.init fn fid b = st at h
  induction pre generalizing st with
  | nil => intro t ht; cases ht
  | cons a pre ih =>
    by_cases ha : a.ttype = .include
    · exfalso
      cases pre with
      | nil =>
        simp only [List.map_cons, List.map_nil] at h
        rw [walk_inc_nil _ _ _ _ _ _ (by exact ha)] at h; cases h
      | cons nm pre' =>
        simp only [List.map_cons] at h
        by_cases hn : isName (Tok.ofLex fid nm)
        · rw [walk_inc_limit _ _ _ _ _ _ _ (by exact ha) hn] at h; cases h
        · rw [walk_inc_notName _ _ _ _ _ _ _ _ (by exact ha) hn] at h; cases h
    · simp only [List.map_cons] at h
      rw [walk_cons_copy _ _ _ _ _ _ _ (by exact ha)] at h
      intro t ht
      rcases List.mem_cons.1 ht with ht | ht
      · subst ht; exact ha
      · exact ih _ h t ht

/-- an error inside an included file is the error of the including file (`?`) -/
theorem include_error_propagates (fs : FS) (n : Nat) (fn : Filename) (fid : Nat) (b : Bytes)
    (pre post : List Lex.Token) (inc nm : Lex.Token) (st1 : St) (data : Bytes) (e : Err)
    (hlex : Lex.tokenize b = .ok (pre ++ inc :: nm :: post))
    (hinc : inc.ttype = .include) (hnm : nm.ttype = .string ∨ nm.ttype = .identifier)
    (hpre : Resolves fs (n + 1) fn fid b pre st1)
    (hload : load fs (target fs fn b nm).full = some data)
    (herr : tokenize fs n (target fs fn b nm) st1.nextFileid data = .err e) :
    tokenize fs (n + 1) fn fid b = .err e := by
  rw [tokenize_at_directive fs (n + 1) fn fid b pre _ inc st1 hlex hpre]
  simp only [List.map_cons, deeper]
  rw [walk_inc_some _ _ _ _ _ _ _ _ (by exact hinc) (by exact hnm), resolve_ofLex, hload]
  simp only [herr]
  rfl

/-- a directive without a name -/
theorem incomplete_include (fs : FS) (n : Nat) (fn : Filename) (fid : Nat) (b : Bytes)
    (pre post : List Lex.Token) (inc : Lex.Token) (st1 : St)
    (hlex : Lex.tokenize b = .ok (pre ++ inc :: post))
    (hinc : inc.ttype = .include)
    (hpost : post = [] ∨ ∃ x rest, post = x :: rest ∧ ¬ (x.ttype = .string ∨ x.ttype = .identifier))
    (hpre : Resolves fs n fn fid b pre st1) :
    tokenize fs n fn fid b = .err (.IncompleteIncludeError fn.display inc.line) := by
  rw [tokenize_at_directive fs n fn fid b pre _ inc st1 hlex hpre]
  rcases hpost with h | ⟨x, rest, h, hx⟩
  · subst h
    simp only [List.map_cons, List.map_nil]
    rw [walk_inc_nil _ _ _ _ _ _ (by exact hinc)]; rfl
  · subst h
    simp only [List.map_cons]
    rw [walk_inc_notName _ _ _ _ _ _ _ _ (by exact hinc) (by exact hx)]; rfl

/-- a directive that can be reached through a chain of resolvable includes names a file that does not exist
    (`n`: depth budget of the file `fn`) -/
inductive ReachesMissing (fs : FS) : Nat → Filename → Nat → Bytes → Err → Prop
  | here (n : Nat) (fn : Filename) (fid : Nat) (b : Bytes) (pre post : List Lex.Token) (inc nm : Lex.Token) (st1 : St) :
      Lex.tokenize b = .ok (pre ++ inc :: nm :: post) →
      inc.ttype = .include → (nm.ttype = .string ∨ nm.ttype = .identifier) →
      Resolves fs n fn fid b pre st1 →
      load fs (target fs fn b nm).full = none →
      ReachesMissing fs n fn fid b (.IncludeFileError fn.display nm.line (nameAt b nm.startpos nm.endpos))
  | deeper (n : Nat) (fn : Filename) (fid : Nat) (b : Bytes) (pre post : List Lex.Token) (inc nm : Lex.Token) (st1 : St)
      (data : Bytes) (e : Err) :
      Lex.tokenize b = .ok (pre ++ inc :: nm :: post) →
      inc.ttype = .include → (nm.ttype = .string ∨ nm.ttype = .identifier) →
      Resolves fs (n + 1) fn fid b pre st1 →
      load fs (target fs fn b nm).full = some data →
      ReachesMissing fs n (target fs fn b nm) st1.nextFileid data e →
      ReachesMissing fs (n + 1) fn fid b e

theorem reachesMissing_err (fs : FS) (n : Nat) (fn : Filename) (fid : Nat) (b : Bytes) (e : Err)
    (h : ReachesMissing fs n fn fid b e) : tokenize fs n fn fid b = .err e := by
  induction h with
  | here n fn fid b pre post inc nm st1 hlex hinc hnm hpre hmiss =>
    exact missing_include fs n fn fid b pre post inc nm st1 hlex hinc hnm hpre hmiss
  | deeper n fn fid b pre post inc nm st1 data e hlex hinc hnm hpre hload _ ih =>
    exact include_error_propagates fs n fn fid b pre post inc nm st1 data e hlex hinc hnm hpre hload ih

theorem reachesMissing_is_includeFileError (fs : FS) (n : Nat) (fn : Filename) (fid : Nat) (b : Bytes) (e : Err)
    (h : ReachesMissing fs n fn fid b e) : ∃ f line incname, e = .IncludeFileError f line incname := by
  induction h with
  | here => exact ⟨_, _, _, rfl⟩
  | deeper _ _ _ _ _ _ _ _ _ _ _ _ _ _ _ _ _ ih => exact ih

/-- a chain of `n` nested resolvable includes below the file `fn` (depth budget `n`) ends at a directive with a usable
    name at depth budget `0`: the depth limit is reached -/
inductive ReachesLimit (fs : FS) : Nat → Filename → Nat → Bytes → Err → Prop
  | here (fn : Filename) (fid : Nat) (b : Bytes) (pre post : List Lex.Token) (inc nm : Lex.Token) (st1 : St) :
      Lex.tokenize b = .ok (pre ++ inc :: nm :: post) →
      inc.ttype = .include → (nm.ttype = .string ∨ nm.ttype = .identifier) →
      Resolves fs 0 fn fid b pre st1 →
      ReachesLimit fs 0 fn fid b (.IncludeFileError fn.display nm.line (nameAt b nm.startpos nm.endpos))
  | deeper (n : Nat) (fn : Filename) (fid : Nat) (b : Bytes) (pre post : List Lex.Token) (inc nm : Lex.Token) (st1 : St)
      (data : Bytes) (e : Err) :
      Lex.tokenize b = .ok (pre ++ inc :: nm :: post) →
      inc.ttype = .include → (nm.ttype = .string ∨ nm.ttype = .identifier) →
      Resolves fs (n + 1) fn fid b pre st1 →
      load fs (target fs fn b nm).full = some data →
      ReachesLimit fs n (target fs fn b nm) st1.nextFileid data e →
      ReachesLimit fs (n + 1) fn fid b e

theorem reachesLimit_err (fs : FS) (n : Nat) (fn : Filename) (fid : Nat) (b : Bytes) (e : Err)
    (h : ReachesLimit fs n fn fid b e) : tokenize fs n fn fid b = .err e := by
  induction h with
  | here fn fid b pre post inc nm st1 hlex hinc hnm hpre =>
    exact depth_limit fs fn fid b pre post inc nm st1 hlex hinc hnm hpre
  | deeper n fn fid b pre post inc nm st1 data e hlex hinc hnm hpre hload _ ih =>
    exact include_error_propagates fs n fn fid b pre post inc nm st1 data e hlex hinc hnm hpre hload ih

theorem reachesLimit_is_includeFileError (fs : FS) (n : Nat) (fn : Filename) (fid : Nat) (b : Bytes) (e : Err)
    (h : ReachesLimit fs n fn fid b e) : ∃ f line incname, e = .IncludeFileError f line incname := by
  induction h with
  | here => exact ⟨_, _, _, rfl⟩
  | deeper _ _ _ _ _ _ _ _ _ _ _ _ _ _ _ _ _ ih => exact ih


/-! ### a file that includes itself -/

/-- `main.a2l` -/
def mainName : Path := [109, 97, 105, 110, 46, 97, 50, 108]

/-- `/include "main.a2l"` -/
def selfInc : Bytes := #[47, 105, 110, 99, 108, 117, 100, 101, 32, 34, 109, 97, 105, 110, 46, 97, 50, 108, 34]

theorem selfInc_lex : Lex.tokenize selfInc = .ok
    [{ ttype := .include, startpos := 0, endpos := 8, line := 1 },
     { ttype := .string, startpos := 9, endpos := 19, line := 1 }] := by decide +kernel

theorem selfInc_name : nameAt selfInc 9 19 = mainName := by decide +kernel

theorem selfInc_target (fs : FS) (hfs : fs mainName = some selfInc) (fn : Filename) (hfn : fn.full = mainName) :
    target fs fn selfInc { ttype := .string, startpos := 9, endpos := 19, line := 1 } =
      { full := mainName, display := mainName } := by
  have hname : nameAt selfInc 9 19 = mainName := selfInc_name
  have hnorm : normalize mainName = mainName := by decide +kernel
  have habs : isAbsolute mainName = false := by decide +kernel
  have hpar : parent mainName = some [] := by decide +kernel
  simp only [target, hname, hfn, makeIncludeFilename, hnorm, habs, hpar, join, FS.exists]
  simp [hfs]

/-- the self-including file under the depth budget `n`: the error of the innermost level — the file reached after
    `n` nested directives, whose own directive is refused — handed up unchanged; that level's file name is the name
    written in the directive (`main.a2l`) unless it is the outermost level (`n = 0`) -/
theorem self_include_aux (fs : FS) (hfs : fs mainName = some selfInc) :
    ∀ (n : Nat) (fn : Filename) (fid : Nat), fn.full = mainName →
      tokenize fs n fn fid selfInc =
        .err (.IncludeFileError (if n = 0 then fn.display else mainName) 1 mainName) := by
  intro n
  induction n with
  | zero =>
    intro fn fid _
    rw [tokenize_of_lex fs 0 fn fid selfInc _ selfInc_lex]
    simp only [List.map_cons, List.map_nil, deeper]
    rw [walk_inc_limit _ _ _ _ _ _ _ rfl (.inl rfl)]
    simp only [finish, nameOf, Tok.ofLex, selfInc_name, if_true]
  | succ n ih =>
    intro fn fid hfn
    rw [tokenize_of_lex fs (n + 1) fn fid selfInc _ selfInc_lex]
    simp only [List.map_cons, List.map_nil, deeper]
    rw [walk_inc_some _ _ _ _ _ _ _ _ rfl (.inl rfl), resolve_ofLex, selfInc_target fs hfs fn hfn]
    have hload : load fs mainName = some selfInc := by
      have : stripBom selfInc = selfInc := by decide +kernel
      simp [load, hfs, this]
    rw [hload]
    simp only
    rw [ih { full := mainName, display := mainName } _ rfl]
    simp [finish]

theorem selfInc_load (fs : FS) (hfs : fs mainName = some selfInc) : load fs mainName = some selfInc := by
  have : stripBom selfInc = selfInc := by decide +kernel
  simp [load, hfs, this]

theorem resolves_nil (fs : FS) (n : Nat) (fn : Filename) (fid : Nat) (b : Bytes) :
    Resolves fs n fn fid b [] (St.init fn fid b) := by
  unfold Resolves; exact walk_nil _ _ _ _ _

/-- the error of the self-including file is that of the depth limit -/
theorem self_include_limit_aux (fs : FS) (hfs : fs mainName = some selfInc) :
    ∀ (n : Nat) (fn : Filename) (fid : Nat), fn.full = mainName →
      ReachesLimit fs n fn fid selfInc (.IncludeFileError (if n = 0 then fn.display else mainName) 1 mainName) := by
  intro n
  induction n with
  | zero =>
    intro fn fid _
    have := ReachesLimit.here (fs := fs) fn fid selfInc [] [] _ _ _ selfInc_lex rfl (.inl rfl)
      (resolves_nil fs 0 fn fid selfInc)
    rw [selfInc_name] at this
    simpa using this
  | succ n ih =>
    intro fn fid hfn
    have h1 : ReachesLimit fs n { full := mainName, display := mainName } (St.init fn fid selfInc).nextFileid selfInc
        (.IncludeFileError mainName 1 mainName) := by
      simpa using ih { full := mainName, display := mainName } (St.init fn fid selfInc).nextFileid rfl
    rw [← selfInc_target fs hfs fn hfn] at h1
    have := ReachesLimit.deeper (fs := fs) n fn fid selfInc [] [] _ _ _ selfInc _ selfInc_lex rfl (.inl rfl)
      (resolves_nil fs (n + 1) fn fid selfInc)
      (by rw [selfInc_target fs hfs fn hfn]; exact selfInc_load fs hfs) h1
    simpa using this

/-! ### the specification: inline expansion -/

/-- the path of the file named by the directive `/include nm` in the file `base` with content `b` -/
def targetPath (fs : FS) (base : Path) (b : Bytes) (nm : Lex.Token) : Path :=
  makeIncludeFilename fs (nameAt b nm.startpos nm.endpos) base

theorem target_full (fs : FS) (fn : Filename) (b : Bytes) (nm : Lex.Token) :
    (target fs fn b nm).full = targetPath fs fn.full b nm := rfl

/-- **the specification** on token lists: walk the list; `Include` followed by a String/Identifier token `nm` is
    replaced by the expansion (`rec`) of the file that `nm` names; every other token is copied as (kind, text).
    `rec = none`: the depth limit is reached.  Result `none`: a directive cannot be resolved -/
def expandToks (rec : Option (Path → Bytes → Option (List (TokType × Bytes)))) (fs : FS) (base : Path) (b : Bytes) :
    List Lex.Token → Option (List (TokType × Bytes))
  | [] => some []
  | t :: ts =>
    if t.ttype = .include then
      match ts with
      | [] => none
      | nm :: ts' =>
        if nm.ttype = .string ∨ nm.ttype = .identifier then
          match rec with
          | none => none
          | some f =>
            match load fs (targetPath fs base b nm) with
            | some data =>
              match f (targetPath fs base b nm) data, expandToks rec fs base b ts' with
              | some inner, some out => some (inner ++ out)
              | _, _ => none
            | none => none
        else none
    else
      match expandToks rec fs base b ts with
      | some out => some ((t.ttype, b.extract t.startpos t.endpos) :: out)
      | none => none

def expandWith (rec : Option (Path → Bytes → Option (List (TokType × Bytes)))) (fs : FS) (base : Path) (b : Bytes) :
    Option (List (TokType × Bytes)) :=
  match Lex.tokenize b with
  | .ok lt => expandToks rec fs base b lt
  | _ => none

/-- the flattened token stream of the file `base` with content `b`, at most `n` levels of includes below it -/
def expand (fs : FS) : Nat → Path → Bytes → Option (List (TokType × Bytes))
  | 0, base, b => expandWith none fs base b
  | n + 1, base, b => expandWith (some (expand fs n)) fs base b

/-- (kind, file id, text) -/
abbrev Item := TokType × Nat × Bytes

/-- the specification with file ids: the file being expanded has id `fid`, `next` is the next free id; every
    included file occurrence takes the next free id, the files it includes take the following ones.
    Returns the items and the next free id. -/
def expandIToks (rec : Option (Path → Nat → Bytes → Option (List Item × Nat))) (fs : FS) (base : Path) (b : Bytes)
    (fid : Nat) : List Lex.Token → Nat → Option (List Item × Nat)
  | [], next => some ([], next)
  | t :: ts, next =>
    if t.ttype = .include then
      match ts with
      | [] => none
      | nm :: ts' =>
        if nm.ttype = .string ∨ nm.ttype = .identifier then
          match rec with
          | none => none
          | some f =>
            match load fs (targetPath fs base b nm) with
            | some data =>
              match f (targetPath fs base b nm) next data with
              | some (inner, next1) =>
                match expandIToks rec fs base b fid ts' next1 with
                | some (out, next2) => some (inner ++ out, next2)
                | none => none
              | none => none
            | none => none
        else none
    else
      match expandIToks rec fs base b fid ts next with
      | some (out, next1) => some ((t.ttype, fid, b.extract t.startpos t.endpos) :: out, next1)
      | none => none

def expandIWith (rec : Option (Path → Nat → Bytes → Option (List Item × Nat))) (fs : FS) (base : Path) (fid : Nat)
    (b : Bytes) : Option (List Item × Nat) :=
  match Lex.tokenize b with
  | .ok lt => expandIToks rec fs base b fid lt (fid + 1)
  | _ => none

def expandI (fs : FS) : Nat → Path → Nat → Bytes → Option (List Item × Nat)
  | 0, base, fid, b => expandIWith none fs base fid b
  | n + 1, base, fid, b => expandIWith (some (expandI fs n)) fs base fid b

/-- forget the file ids -/
def Item.kt (i : Item) : TokType × Bytes := (i.1, i.2.2)

/-- the relation between the recursive calls of the two specifications -/
def KtRel (recI : Option (Path → Nat → Bytes → Option (List Item × Nat)))
    (recS : Option (Path → Bytes → Option (List (TokType × Bytes)))) : Prop :=
  ∀ g, recI = some g → ∃ g', recS = some g' ∧ ∀ p i d res, g p i d = some res → g' p d = some (res.1.map Item.kt)

theorem expandIToks_kt (recI : Option (Path → Nat → Bytes → Option (List Item × Nat)))
    (recS : Option (Path → Bytes → Option (List (TokType × Bytes)))) (fs : FS) (base : Path) (b : Bytes) (fid : Nat)
    (hrec : KtRel recI recS)
    (lt : List Lex.Token) (next : Nat) (res : List Item × Nat)
    (h : expandIToks recI fs base b fid lt next = some res) :
    expandToks recS fs base b lt = some (res.1.map Item.kt) := by
  fun_induction expandIToks recI fs base b fid lt next generalizing res with
  | case1 next => cases h; rfl
  | case2 t next hinc => cases h
  | case3 t next hinc nm ts' hn hg => cases h
  | case4 t next hinc nm ts' hn g hg data hload inner next1 hrec1 out next2 hout ih =>
    obtain ⟨g', hg', hgg⟩ := hrec g hg
    subst hg hg'
    rw [hout] at h
    cases h
    rw [expandToks.eq_def]
    simp only [if_pos hinc, if_pos hn, hload, hgg _ _ _ _ hrec1, ih _ hout, List.map_append]
  | case5 t next hinc nm ts' hn g hg data hload inner next1 hrec1 hout ih =>
    subst hg
    rw [hout] at h
    cases h
  | case6 t next hinc nm ts' hn g hg data hload hrec1 => cases h
  | case7 t next hinc nm ts' hn g hg hload => cases h
  | case8 t next hinc nm ts' hn => cases h
  | case9 t ts next hinc out next1 hout ih =>
    cases h
    rw [expandToks.eq_def]
    simp only [if_neg hinc, ih _ hout]
    rfl
  | case10 t ts next hinc hout ih => cases h

theorem expandIWith_kt (recI : Option (Path → Nat → Bytes → Option (List Item × Nat)))
    (recS : Option (Path → Bytes → Option (List (TokType × Bytes)))) (fs : FS) (hrec : KtRel recI recS)
    (base : Path) (fid : Nat) (b : Bytes) (res : List Item × Nat)
    (h : expandIWith recI fs base fid b = some res) : expandWith recS fs base b = some (res.1.map Item.kt) := by
  rw [expandIWith] at h
  rw [expandWith]
  cases hl : Lex.tokenize b with
  | ok lt =>
    rw [hl] at h
    exact expandIToks_kt _ _ fs base b fid hrec lt _ res h
  | err k l => rw [hl] at h; cases h
  | panic => rw [hl] at h; cases h
  | hang => rw [hl] at h; cases h

theorem expandI_kt (fs : FS) : ∀ (n : Nat) (base : Path) (fid : Nat) (b : Bytes) (res : List Item × Nat),
    expandI fs n base fid b = some res → expand fs n base b = some (res.1.map Item.kt) := by
  intro n
  induction n with
  | zero =>
    intro base fid b res h
    exact expandIWith_kt none none fs (by intro g hg; cases hg) base fid b res h
  | succ n ih =>
    intro base fid b res h
    exact expandIWith_kt (some (expandI fs n)) (some (expand fs n)) fs
      (by intro g hg; cases hg; exact ⟨_, rfl, ih⟩) base fid b res h


/-! ### the model computes the expansion -/

/-- the (kind, file id, text) view of a token vector; `fds` are the contents of the files `fid, fid + 1, …` -/
def view3 (fid : Nat) (fds : List Bytes) (toks : List Tok) : List Item :=
  toks.map fun t => (t.ttype, t.fileid, tokText fds fid t)

theorem view3_append (fid : Nat) (fds : List Bytes) (l1 l2 : List Tok) :
    view3 fid fds (l1 ++ l2) = view3 fid fds l1 ++ view3 fid fds l2 := by simp [view3]

theorem view3_extend (fid : Nat) (fds more : List Bytes) (toks : List Tok)
    (h : ∀ t ∈ toks, fid ≤ t.fileid ∧ t.fileid < fid + fds.length) :
    view3 fid (fds ++ more) toks = view3 fid fds toks := by
  apply List.map_congr_left
  intro t ht
  have := h t ht
  simp only [tokText]
  rw [List.getElem?_append_left (by omega)]

theorem view3_shift (fid : Nat) (fds more : List Bytes) (toks : List Tok)
    (h : ∀ t ∈ toks, fid + fds.length ≤ t.fileid) :
    view3 fid (fds ++ more) toks = view3 (fid + fds.length) more toks := by
  apply List.map_congr_left
  intro t ht
  have := h t ht
  simp only [tokText]
  rw [List.getElem?_append_right (by omega)]
  have : t.fileid - fid - fds.length = t.fileid - (fid + fds.length) := by omega
  rw [this]

/-- the tokens of the file itself: everything except the directives -/
def ownToks : List Lex.Token → List Lex.Token
  | [] => []
  | t :: ts =>
    if t.ttype = .include then
      match ts with
      | [] => []
      | _ :: ts' => ownToks ts'
    else t :: ownToks ts

theorem ownToks_cons_copy (t : Lex.Token) (ts : List Lex.Token) (h : ¬ t.ttype = .include) :
    ownToks (t :: ts) = t :: ownToks ts := by
  rw [ownToks.eq_def]; simp only [if_neg h]

def hasId (fid : Nat) (t : Tok) : Bool := t.fileid == fid

/-- invariant of the locals of `tokenize(filename, fid, b)` -/
structure StInv (fn : Filename) (fid : Nat) (b : Bytes) (st : St) : Prop where
  names : st.filenames.length = st.filedatas.length
  next : st.nextFileid = fid + st.filedatas.length
  first : st.filedatas[0]? = some b
  firstName : st.filenames[0]? = some fn
  range : ∀ t ∈ st.tokens, fid ≤ t.fileid ∧ t.fileid < fid + st.filedatas.length
  noInc : ∀ t ∈ st.tokens, t.ttype ≠ .include

/-- well-formedness of a `TokenResult` of `tokenize(filename, fid, b)` -/
structure ResOk (fn : Filename) (fid : Nat) (b : Bytes) (r : TokenResult) : Prop where
  names : r.filenames.length = r.filedata.length
  first : r.filedata[0]? = some b
  firstName : r.filenames[0]? = some fn
  range : ∀ t ∈ r.tokens, fid ≤ t.fileid ∧ t.fileid < fid + r.filedata.length
  noInc : ∀ t ∈ r.tokens, t.ttype ≠ .include

theorem StInv.pos {fn : Filename} {fid : Nat} {b : Bytes} {st : St} (h : StInv fn fid b st) :
    1 ≤ st.filedatas.length := by
  have := h.first
  cases hf : st.filedatas with
  | nil => rw [hf] at this; simp at this
  | cons a l => simp

/-- the recursive call computes the expansion of the included file (and both stop at the same depth) -/
def Sim (recM : Option Rec) (recS : Option (Path → Nat → Bytes → Option (List Item × Nat))) : Prop :=
  ∀ g, recM = some g → ∃ g', recS = some g' ∧
    ∀ fn fid b r, g fn fid b = .ok r →
      ResOk fn fid b r ∧ g' fn.full fid b = some (view3 fid r.filedata r.tokens, fid + r.filedata.length)

theorem StInv.add {fn : Filename} {fid : Nat} {b : Bytes} {st : St} (h : StInv fn fid b st)
    {fn' : Filename} {b' : Bytes} {r : TokenResult} (hr : ResOk fn' st.nextFileid b' r) :
    StInv fn fid b (st.add r) where
  names := by simp [St.add, h.names, hr.names]
  next := by simp [St.add, h.next, hr.names]; omega
  first := by
    have := h.pos
    simp only [St.add]
    rw [List.getElem?_append_left (by omega)]; exact h.first
  firstName := by
    have := h.pos; have := h.names
    simp only [St.add]
    rw [List.getElem?_append_left (by omega)]; exact h.firstName
  range := by
    intro t ht
    simp only [St.add, List.mem_append, List.length_append] at ht ⊢
    rcases ht with ht | ht
    · have := h.range t ht; omega
    · have := hr.range t ht; have := h.next; omega
  noInc := by
    intro t ht
    simp only [St.add, List.mem_append] at ht
    rcases ht with ht | ht
    · exact h.noInc t ht
    · exact hr.noInc t ht

theorem StInv.pushOwn {fn : Filename} {fid : Nat} {b : Bytes} {st : St} (h : StInv fn fid b st)
    (t : Lex.Token) (ht : t.ttype ≠ .include) : StInv fn fid b (st.push [Tok.ofLex fid t]) where
  names := h.names
  next := h.next
  first := h.first
  firstName := h.firstName
  range := by
    intro t' ht'
    simp only [St.push, List.mem_append, List.mem_singleton] at ht' ⊢
    rcases ht' with ht' | ht'
    · exact h.range t' ht'
    · subst ht'; have := h.pos; simp only [Tok.ofLex]; omega
  noInc := by
    intro t' ht'
    simp only [St.push, List.mem_append, List.mem_singleton] at ht'
    rcases ht' with ht' | ht'
    · exact h.noInc t' ht'
    · subst ht'; exact ht

theorem walk_sim (recM : Option Rec) (recS : Option (Path → Nat → Bytes → Option (List Item × Nat)))
    (hsim : Sim recM recS) (fs : FS) (fn : Filename) (fid : Nat) (b : Bytes) :
    ∀ (k : Nat) (lt : List Lex.Token) (st st' : St), lt.length = k → StInv fn fid b st →
      walk recM fs fn b (lt.map (Tok.ofLex fid)) st = .ok st' →
      StInv fn fid b st' ∧
      (∃ out, expandIToks recS fs fn.full b fid lt st.nextFileid = some (out, st'.nextFileid) ∧
        view3 fid st'.filedatas st'.tokens = view3 fid st.filedatas st.tokens ++ out) ∧
      st'.tokens.filter (hasId fid) = st.tokens.filter (hasId fid) ++ (ownToks lt).map (Tok.ofLex fid) := by
  intro k
  induction k using Nat.strongRecOn with
  | ind k ih =>
    intro lt st st' hk inv h
    cases lt with
    | nil =>
      simp only [List.map_nil, walk_nil, R.ok.injEq] at h
      subst h
      exact ⟨inv, ⟨[], by simp [expandIToks], by simp⟩, by simp [ownToks]⟩
    | cons t ts =>
      by_cases hinc : t.ttype = .include
      · cases ts with
        | nil =>
          simp only [List.map_cons, List.map_nil] at h
          rw [walk_inc_nil _ _ _ _ _ _ (by exact hinc)] at h; cases h
        | cons nm ts' =>
          simp only [List.map_cons] at h
          by_cases hn : nm.ttype = .string ∨ nm.ttype = .identifier
          · rw [walk_inc_name _ _ _ _ _ _ _ _ (by exact hinc) (by exact hn), resolve_ofLex] at h
            cases hM : recM with
            | none => rw [hM] at h; cases h
            | some g =>
            obtain ⟨g', hg', hsim'⟩ := hsim g hM
            subst hM hg'
            simp only at h
            cases hload : load fs (target fs fn b nm).full with
            | none => rw [hload] at h; cases h
            | some data =>
              rw [hload] at h
              simp only at h
              cases hrec : g (target fs fn b nm) st.nextFileid data with
              | err e => rw [hrec] at h; cases h
              | panic => rw [hrec] at h; cases h
              | hang => rw [hrec] at h; cases h
              | ok r =>
                rw [hrec] at h
                simp only at h
                obtain ⟨hr, hspec⟩ := hsim' _ _ _ _ hrec
                have inv1 := inv.add hr
                simp only [List.length_cons] at hk
                obtain ⟨inv', ⟨out, hexp, hview⟩, hown⟩ :=
                  ih ts'.length (by omega) ts' (st.add r) st' rfl inv1 h
                refine ⟨inv', ⟨view3 st.nextFileid r.filedata r.tokens ++ out, ?_, ?_⟩, ?_⟩
                · rw [expandIToks.eq_def]
                  simp only [if_pos hinc, if_pos hn]
                  rw [target_full] at hload hspec
                  rw [hload]
                  simp only [hspec]
                  have hnext : (st.add r).nextFileid = st.nextFileid + r.filedata.length := by
                    simp [St.add, hr.names]
                  rw [hnext] at hexp
                  rw [hexp]
                · rw [hview]
                  simp only [St.add, view3_append]
                  rw [view3_extend _ _ _ _ inv.range, List.append_assoc]
                  congr 1
                  congr 1
                  rw [view3_shift _ _ _ _ (fun t ht => by have := hr.range t ht; have := inv.next; omega), inv.next]
                · rw [hown]
                  simp only [St.add, List.filter_append, ownToks, if_pos hinc]
                  have : r.tokens.filter (hasId fid) = [] := by
                    apply List.filter_eq_nil_iff.2
                    intro t ht
                    have := hr.range t ht; have := inv.next; have := inv.pos
                    simp only [hasId, beq_iff_eq]; omega
                  rw [this, List.append_nil]
          · rw [walk_inc_notName _ _ _ _ _ _ _ _ (by exact hinc) (by exact hn)] at h; cases h
      · simp only [List.map_cons] at h
        rw [walk_cons_copy _ _ _ _ _ _ _ (by exact hinc)] at h
        simp only [List.length_cons] at hk
        obtain ⟨inv', ⟨out, hexp, hview⟩, hown⟩ :=
          ih ts.length (by omega) ts _ st' rfl (inv.pushOwn t hinc) h
        refine ⟨inv', ⟨(t.ttype, fid, b.extract t.startpos t.endpos) :: out, ?_, ?_⟩, ?_⟩
        · rw [expandIToks.eq_def]
          simp only [if_neg hinc]
          have : (st.push [Tok.ofLex fid t]).nextFileid = st.nextFileid := rfl
          rw [this] at hexp
          rw [hexp]
        · rw [hview]
          simp only [St.push, view3_append, List.append_assoc]
          congr 1
          simp only [view3, List.map_cons, List.map_nil, List.cons_append, List.nil_append, tokText, Tok.ofLex,
            Nat.sub_self, inv.first]
        · rw [hown]
          simp only [St.push, List.filter_append, ownToks_cons_copy t ts hinc, List.map_cons, List.append_assoc]
          congr 1
          simp [hasId, Tok.ofLex]


theorem StInv.init (fn : Filename) (fid : Nat) (b : Bytes) : StInv fn fid b (St.init fn fid b) where
  names := rfl
  next := rfl
  first := rfl
  firstName := rfl
  range := by intro t ht; simp [St.init] at ht
  noInc := by intro t ht; simp [St.init] at ht

theorem finish_ok {x : R St} {r : TokenResult} (h : finish x = .ok r) :
    ∃ st, x = .ok st ∧ r = { tokens := st.tokens, filedata := st.filedatas, filenames := st.filenames } := by
  cases x with
  | ok st => simp only [finish, R.ok.injEq] at h; exact ⟨st, rfl, h.symm⟩
  | err e => cases h
  | panic => cases h
  | hang => cases h

theorem tokenizeWith_sim (recM : Option Rec) (recS : Option (Path → Nat → Bytes → Option (List Item × Nat)))
    (hsim : Sim recM recS) (fs : FS) (fn : Filename) (fid : Nat) (b : Bytes) (r : TokenResult)
    (h : tokenizeWith recM fs fn fid b = .ok r) :
    ResOk fn fid b r ∧
    expandIWith recS fs fn.full fid b = some (view3 fid r.filedata r.tokens, fid + r.filedata.length) ∧
    ∀ lt, Lex.tokenize b = .ok lt → r.tokens.filter (hasId fid) = (ownToks lt).map (Tok.ofLex fid) := by
  rw [tokenizeWith_walk] at h
  cases hl : Lex.tokenize b with
  | err k l => rw [hl] at h; cases h
  | panic => rw [hl] at h; cases h
  | hang => rw [hl] at h; cases h
  | ok lt =>
    rw [hl] at h
    simp only at h
    obtain ⟨st', hw, hr⟩ := finish_ok h
    obtain ⟨inv', ⟨out, hexp, hview⟩, hown⟩ :=
      walk_sim _ _ hsim fs fn fid b lt.length lt _ st' rfl (StInv.init fn fid b) hw
    subst hr
    refine ⟨⟨inv'.names, inv'.first, inv'.firstName, inv'.range, inv'.noInc⟩, ?_, ?_⟩
    · rw [expandIWith, hl]
      simp only
      have h1 : (St.init fn fid b).nextFileid = fid + 1 := rfl
      rw [h1] at hexp
      rw [hexp, hview, inv'.next]
      simp [St.init, view3]
    · intro lt' hlt'
      cases hlt'
      rw [hown]
      simp [St.init]

/-- a successful result: well-formed, equal to the expansion with file ids (same depth budget), own tokens carry
    the own id -/
theorem tokenize_sim (fs : FS) : ∀ (n : Nat) (fn : Filename) (fid : Nat) (b : Bytes) (r : TokenResult),
    tokenize fs n fn fid b = .ok r →
    ResOk fn fid b r ∧
    expandI fs n fn.full fid b = some (view3 fid r.filedata r.tokens, fid + r.filedata.length) ∧
    ∀ lt, Lex.tokenize b = .ok lt → r.tokens.filter (hasId fid) = (ownToks lt).map (Tok.ofLex fid) := by
  intro n
  induction n with
  | zero =>
    intro fn fid b r h
    exact tokenizeWith_sim none none (by intro g hg; cases hg) fs fn fid b r h
  | succ n ih =>
    intro fn fid b r h
    exact tokenizeWith_sim (some (tokenize fs n)) (some (expandI fs n))
      (by intro g hg; cases hg; exact ⟨_, rfl, fun fn fid b r h => ⟨(ih fn fid b r h).1, (ih fn fid b r h).2.1⟩⟩)
      fs fn fid b r h


/-! ### the depth budget only matters for `IncludeFileError` -/

/-- the recursive call under a larger budget agrees with the one under the smaller budget wherever the latter is not
    an `IncludeFileError` -/
def BudgetRel (recA recB : Option Rec) : Prop :=
  ∀ gA, recA = some gA → ∃ gB, recB = some gB ∧
    ∀ f i d, (∀ x l nm, gA f i d ≠ .err (.IncludeFileError x l nm)) → gB f i d = gA f i d

theorem walk_mono (recA recB : Option Rec) (fs : FS) (fn : Filename) (b : Bytes)
    (hrec : BudgetRel recA recB) (l : List Tok) (st : St)
    (h : ∀ x ln nm, walk recA fs fn b l st ≠ .err (.IncludeFileError x ln nm)) :
    walk recB fs fn b l st = walk recA fs fn b l st := by
  fun_induction walk recA fs fn b l st with
  | case1 st => simp [walk_nil]
  | case2 t st hinc => rw [walk_inc_nil _ _ _ _ _ _ hinc]
  | case3 t st hinc nm ts' hn hf => exact absurd rfl (h _ _ _)
  | case4 t st hinc nm ts' hn f hf data hload r hr ih =>
    obtain ⟨gB, hB, hAB⟩ := hrec f hf
    subst hf hB
    rw [walk_inc_some _ _ _ _ _ _ _ _ hinc hn, hload]
    simp only
    rw [hAB _ _ _ (by rw [hr]; intro x l nm hh; cases hh), hr]
    exact ih h
  | case5 t st hinc nm ts' hn f hf data hload e hr =>
    obtain ⟨gB, hB, hAB⟩ := hrec f hf
    subst hf hB
    rw [walk_inc_some _ _ _ _ _ _ _ _ hinc hn, hload]
    simp only
    rw [hAB _ _ _ (by rw [hr]; intro x l nm hh; cases hh; exact h x l nm rfl), hr]
  | case6 t st hinc nm ts' hn f hf data hload hr =>
    obtain ⟨gB, hB, hAB⟩ := hrec f hf
    subst hf hB
    rw [walk_inc_some _ _ _ _ _ _ _ _ hinc hn, hload]
    simp only
    rw [hAB _ _ _ (by rw [hr]; intro x l nm hh; cases hh), hr]
  | case7 t st hinc nm ts' hn f hf data hload hr =>
    obtain ⟨gB, hB, hAB⟩ := hrec f hf
    subst hf hB
    rw [walk_inc_some _ _ _ _ _ _ _ _ hinc hn, hload]
    simp only
    rw [hAB _ _ _ (by rw [hr]; intro x l nm hh; cases hh), hr]
  | case8 t st hinc nm ts' hn f hf hload => exact absurd rfl (h _ _ _)
  | case9 t st hinc nm ts' hn => rw [walk_inc_notName _ _ _ _ _ _ _ _ hinc hn]
  | case10 t ts st hinc ih =>
    rw [walk_cons_copy _ _ _ _ _ _ _ hinc]
    exact ih h

theorem tokenizeWith_mono (recA recB : Option Rec) (hrec : BudgetRel recA recB) (fs : FS) (fn : Filename)
    (fid : Nat) (b : Bytes) (h : ∀ x l nm, tokenizeWith recA fs fn fid b ≠ .err (.IncludeFileError x l nm)) :
    tokenizeWith recB fs fn fid b = tokenizeWith recA fs fn fid b := by
  rw [tokenizeWith_walk recA] at h ⊢
  rw [tokenizeWith_walk recB]
  cases hl : Lex.tokenize b with
  | ok lt =>
    rw [hl] at h
    simp only at h ⊢
    rw [walk_mono recA recB fs fn b hrec]
    intro x l nm hw
    exact h x l nm (by rw [hw]; rfl)
  | err k l => rfl
  | panic => rfl
  | hang => rfl

theorem tokenize_budget_succ (fs : FS) : ∀ (n : Nat) (fn : Filename) (fid : Nat) (b : Bytes),
    (∀ x l nm, tokenize fs n fn fid b ≠ .err (.IncludeFileError x l nm)) →
    tokenize fs (n + 1) fn fid b = tokenize fs n fn fid b := by
  intro n
  induction n with
  | zero =>
    intro fn fid b h
    exact tokenizeWith_mono none (some (tokenize fs 0)) (by intro g hg; cases hg) fs fn fid b h
  | succ n ih =>
    intro fn fid b h
    exact tokenizeWith_mono (some (tokenize fs n)) (some (tokenize fs (n + 1)))
      (by intro g hg; cases hg; exact ⟨_, rfl, fun f i d hh => ih f i d hh⟩) fs fn fid b h

/-- a result that is not an `IncludeFileError` is the same under every larger depth budget -/
theorem tokenize_budget_mono (fs : FS) (n k : Nat) (fn : Filename) (fid : Nat) (b : Bytes)
    (h : ∀ x l nm, tokenize fs n fn fid b ≠ .err (.IncludeFileError x l nm)) :
    tokenize fs (n + k) fn fid b = tokenize fs n fn fid b := by
  induction k with
  | zero => rfl
  | succ k ih =>
    have : n + (k + 1) = (n + k) + 1 := by omega
    rw [this, tokenize_budget_succ fs (n + k) fn fid b (by rw [ih]; exact h), ih]

theorem deeper_mono (fs : FS) (n k : Nat) : BudgetRel (deeper fs n) (deeper fs (n + k)) := by
  intro g hg
  cases n with
  | zero => cases hg
  | succ m =>
    cases hg
    refine ⟨tokenize fs (m + k), ?_, fun f i d hh => tokenize_budget_mono fs m k f i d hh⟩
    have : m + 1 + k = (m + k) + 1 := by omega
    rw [this]; rfl

theorem resolves_mono (fs : FS) (n k : Nat) (fn : Filename) (fid : Nat) (b : Bytes) (pre : List Lex.Token) (st1 : St)
    (h : Resolves fs n fn fid b pre st1) : Resolves fs (n + k) fn fid b pre st1 := by
  unfold Resolves at h ⊢
  rw [walk_mono _ _ fs fn b (deeper_mono fs n k) _ _ (by rw [h]; intro x l nm hh; cases hh)]
  exact h

/-- a missing file that is reached under the budget `n` is reached under every larger budget -/
theorem reachesMissing_mono (fs : FS) (n k : Nat) (fn : Filename) (fid : Nat) (b : Bytes) (e : Err)
    (h : ReachesMissing fs n fn fid b e) : ReachesMissing fs (n + k) fn fid b e := by
  induction h with
  | here n fn fid b pre post inc nm st1 hlex hinc hnm hpre hmiss =>
    exact .here (n + k) fn fid b pre post inc nm st1 hlex hinc hnm (resolves_mono fs n k fn fid b pre st1 hpre) hmiss
  | deeper n fn fid b pre post inc nm st1 data e hlex hinc hnm hpre hload _ ih =>
    have hnk : n + 1 + k = (n + k) + 1 := by omega
    rw [hnk]
    refine .deeper (n + k) fn fid b pre post inc nm st1 data e hlex hinc hnm ?_ hload ih
    have := resolves_mono fs (n + 1) k fn fid b pre st1 hpre
    rw [hnk] at this
    exact this

/-! ### every `IncludeFileError` is a missing file or the depth limit -/

/-- an error of the walk arises at a directive in front of which everything resolves -/
theorem walk_err_split (rec : Option Rec) (fs : FS) (fn : Filename) (b : Bytes) (l : List Tok) (st : St) (e : Err)
    (h : walk rec fs fn b l st = .err e) :
    ∃ pre inc post st1, l = pre ++ inc :: post ∧ inc.ttype = .include ∧ walk rec fs fn b pre st = .ok st1 ∧
      ((e = .IncompleteIncludeError fn.display inc.line) ∨
       ∃ nm rest, post = nm :: rest ∧ isName nm ∧
         ((rec = none ∧ e = .IncludeFileError fn.display nm.line (nameOf b nm)) ∨
          ∃ g, rec = some g ∧
            ((load fs (resolve fs fn b nm).full = none ∧ e = .IncludeFileError fn.display nm.line (nameOf b nm)) ∨
             ∃ data, load fs (resolve fs fn b nm).full = some data ∧
               g (resolve fs fn b nm) st1.nextFileid data = .err e))) := by
  fun_induction walk rec fs fn b l st with
  | case1 st => cases h
  | case2 t st hinc => cases h; exact ⟨[], t, [], st, rfl, hinc, walk_nil _ _ _ _ _, .inl rfl⟩
  | case3 t st hinc nm ts' hn hf =>
    cases h
    exact ⟨[], t, nm :: ts', st, rfl, hinc, walk_nil _ _ _ _ _, .inr ⟨nm, ts', rfl, hn, .inl ⟨hf, rfl⟩⟩⟩
  | case4 t st hinc nm ts' hn f hf data hload r hr ih =>
    subst hf
    obtain ⟨pre, inc, post, st1, hl, hi, hw, hc⟩ := ih h
    refine ⟨t :: nm :: pre, inc, post, st1, by rw [hl]; rfl, hi, ?_, hc⟩
    rw [walk_inc_some _ _ _ _ _ _ _ _ hinc hn, hload]
    simp only [hr]
    exact hw
  | case5 t st hinc nm ts' hn f hf data hload e' hr =>
    cases h
    exact ⟨[], t, nm :: ts', st, rfl, hinc, walk_nil _ _ _ _ _,
      .inr ⟨nm, ts', rfl, hn, .inr ⟨f, hf, .inr ⟨data, hload, hr⟩⟩⟩⟩
  | case6 t st hinc nm ts' hn f hf data hload hr => cases h
  | case7 t st hinc nm ts' hn f hf data hload hr => cases h
  | case8 t st hinc nm ts' hn f hf hload =>
    cases h
    exact ⟨[], t, nm :: ts', st, rfl, hinc, walk_nil _ _ _ _ _,
      .inr ⟨nm, ts', rfl, hn, .inr ⟨f, hf, .inl ⟨hload, rfl⟩⟩⟩⟩
  | case9 t st hinc nm ts' hn => cases h; exact ⟨[], t, nm :: ts', st, rfl, hinc, walk_nil _ _ _ _ _, .inl rfl⟩
  | case10 t ts st hinc ih =>
    obtain ⟨pre, inc, post, st1, hl, hi, hw, hc⟩ := ih h
    refine ⟨t :: pre, inc, post, st1, by rw [hl]; rfl, hi, ?_, hc⟩
    rw [walk_cons_copy _ _ _ _ _ _ _ hinc]
    exact hw

theorem finish_err {x : R St} {e : Err} (h : finish x = .err e) : x = .err e := by
  cases x with
  | ok st => cases h
  | err e' => simpa [finish] using h
  | panic => cases h
  | hang => cases h

/-- **every `IncludeFileError` is that of a reachable missing file or that of the depth limit** -/
theorem includeFileError_cases (fs : FS) : ∀ (n : Nat) (fn : Filename) (fid : Nat) (b : Bytes) (x : Path) (l : Nat)
    (inm : Path), tokenize fs n fn fid b = .err (.IncludeFileError x l inm) →
    ReachesMissing fs n fn fid b (.IncludeFileError x l inm) ∨
    ReachesLimit fs n fn fid b (.IncludeFileError x l inm) := by
  intro n
  induction n with
  | zero =>
    intro fn fid b x l inm h
    rw [tokenize_walk] at h
    cases hl : Lex.tokenize b with
    | err k l => rw [hl] at h; cases h
    | panic => rw [hl] at h; cases h
    | hang => rw [hl] at h; cases h
    | ok lt =>
      rw [hl] at h
      obtain ⟨pre, inc, post, st1, hsplit, hi, hw, hc⟩ := walk_err_split _ _ _ _ _ _ _ (finish_err h)
      obtain ⟨pre0, r0, hlt, hpre0, hr0⟩ := List.map_eq_append_iff.1 hsplit
      obtain ⟨inc0, post0, hr0', hinc0, hpost0⟩ := List.map_eq_cons_iff.1 hr0
      subst hlt hr0' hpre0 hinc0 hpost0
      rcases hc with hc | ⟨nm, rest, hpost, hn, hc⟩
      · cases hc
      · obtain ⟨nm0, rest0, hp0, hnm0, hrest0⟩ := List.map_eq_cons_iff.1 hpost
        subst hp0 hnm0 hrest0
        rcases hc with ⟨_, he⟩ | ⟨g, hg, _⟩
        · right
          rw [he]
          exact .here fn fid b pre0 rest0 inc0 nm0 st1 hl hi hn hw
        · cases hg
  | succ n ih =>
    intro fn fid b x l inm h
    rw [tokenize_walk] at h
    cases hl : Lex.tokenize b with
    | err k l => rw [hl] at h; cases h
    | panic => rw [hl] at h; cases h
    | hang => rw [hl] at h; cases h
    | ok lt =>
      rw [hl] at h
      obtain ⟨pre, inc, post, st1, hsplit, hi, hw, hc⟩ := walk_err_split _ _ _ _ _ _ _ (finish_err h)
      obtain ⟨pre0, r0, hlt, hpre0, hr0⟩ := List.map_eq_append_iff.1 hsplit
      obtain ⟨inc0, post0, hr0', hinc0, hpost0⟩ := List.map_eq_cons_iff.1 hr0
      subst hlt hr0' hpre0 hinc0 hpost0
      rcases hc with hc | ⟨nm, rest, hpost, hn, hc⟩
      · cases hc
      · obtain ⟨nm0, rest0, hp0, hnm0, hrest0⟩ := List.map_eq_cons_iff.1 hpost
        subst hp0 hnm0 hrest0
        rcases hc with ⟨hnone, _⟩ | ⟨g, hg, hc⟩
        · cases hnone
        · cases hg
          rcases hc with ⟨hload, he⟩ | ⟨data, hload, hg⟩
          · left
            rw [he]
            exact .here (n + 1) fn fid b pre0 rest0 inc0 nm0 st1 hl hi hn hw hload
          · rcases ih _ _ _ _ _ _ hg with h1 | h1
            · exact .inl (.deeper n fn fid b pre0 rest0 inc0 nm0 st1 data _ hl hi hn hw hload h1)
            · exact .inr (.deeper n fn fid b pre0 rest0 inc0 nm0 st1 data _ hl hi hn hw hload h1)

/-! ### the expansion under a larger budget -/

theorem expandToks_mono (recA recB : Option (Path → Bytes → Option (List (TokType × Bytes)))) (fs : FS) (base : Path)
    (b : Bytes)
    (hrec : ∀ gA, recA = some gA → ∃ gB, recB = some gB ∧ ∀ p d out, gA p d = some out → gB p d = some out)
    (lt : List Lex.Token) (out : List (TokType × Bytes)) (h : expandToks recA fs base b lt = some out) :
    expandToks recB fs base b lt = some out := by
  fun_induction expandToks recA fs base b lt generalizing out with
  | case1 => simpa [expandToks] using h
  | case2 t hinc => cases h
  | case3 t hinc nm ts' hn hf => cases h
  | case4 t hinc nm ts' hn g hg data hload inner out' h2 h1 ih =>
    obtain ⟨gB, hB, hAB⟩ := hrec g hg
    subst hg hB
    rw [h1, h2] at h
    rw [expandToks.eq_def]
    simp only [if_pos hinc, if_pos hn, hload, hAB _ _ _ h1, ih _ h2]
    exact h
  | case5 t hinc nm ts' hn g hg data hload hno ih =>
    subst hg
    exfalso
    cases h1 : g (targetPath fs base b nm) data with
    | none => simp [h1] at h
    | some inner =>
      cases h2 : expandToks (some g) fs base b ts' with
      | none => simp [h1, h2] at h
      | some out' => exact hno inner out' h1 h2
  | case6 t hinc nm ts' hn g hg hload => cases h
  | case7 t hinc nm ts' hn => cases h
  | case8 t ts hinc out' h2 ih =>
    rw [expandToks.eq_def]
    simp only [if_neg hinc, ih _ h2]
    exact h
  | case9 t ts hinc h2 ih => cases h

theorem expand_succ (fs : FS) : ∀ (n : Nat) (base : Path) (b : Bytes) (out : List (TokType × Bytes)),
    expand fs n base b = some out → expand fs (n + 1) base b = some out := by
  intro n
  induction n with
  | zero =>
    intro base b out h
    show expandWith (some (expand fs 0)) fs base b = some out
    have h' : expandWith none fs base b = some out := h
    unfold expandWith at h' ⊢
    cases hl : Lex.tokenize b with
    | ok lt => rw [hl] at h'; exact expandToks_mono none _ fs base b (by intro g hg; cases hg) lt out h'
    | err k l => rw [hl] at h'; cases h'
    | panic => rw [hl] at h'; cases h'
    | hang => rw [hl] at h'; cases h'
  | succ n ih =>
    intro base b out h
    show expandWith (some (expand fs (n + 1))) fs base b = some out
    have h' : expandWith (some (expand fs n)) fs base b = some out := h
    unfold expandWith at h' ⊢
    cases hl : Lex.tokenize b with
    | ok lt =>
      rw [hl] at h'
      exact expandToks_mono _ _ fs base b (by intro g hg; cases hg; exact ⟨_, rfl, ih⟩) lt out h'
    | err k l => rw [hl] at h'; cases h'
    | panic => rw [hl] at h'; cases h'
    | hang => rw [hl] at h'; cases h'

/-- an expansion that exists under the budget `n` is the expansion under every larger budget -/
theorem expand_mono (fs : FS) (n k : Nat) (base : Path) (b : Bytes) (out : List (TokType × Bytes))
    (h : expand fs n base b = some out) : expand fs (n + k) base b = some out := by
  induction k with
  | zero => exact h
  | succ k ih => exact expand_succ fs (n + k) base b out ih

/-! ### file ids in the specification -/

theorem expandIToks_ids (rec : Option (Path → Nat → Bytes → Option (List Item × Nat))) (fs : FS) (base : Path)
    (b : Bytes) (fid : Nat)
    (hrec : ∀ g, rec = some g → ∀ p nx d inner nx', g p nx d = some (inner, nx') →
      nx < nx' ∧ ∀ i ∈ inner, nx ≤ i.2.1 ∧ i.2.1 < nx')
    (lt : List Lex.Token) (next : Nat) (out : List Item) (next' : Nat)
    (h : expandIToks rec fs base b fid lt next = some (out, next')) :
    next ≤ next' ∧ ∀ i ∈ out, i.2.1 = fid ∨ (next ≤ i.2.1 ∧ i.2.1 < next') := by
  fun_induction expandIToks rec fs base b fid lt next generalizing out next' with
  | case1 next => cases h; simp
  | case2 t next hinc => cases h
  | case3 t next hinc nm ts' hn hg => cases h
  | case4 t next hinc nm ts' hn g hg data hload inner next1 hrec1 out2 next2 hout ih =>
    obtain ⟨h1, h2⟩ := hrec g hg _ _ _ _ _ hrec1
    obtain ⟨h3, h4⟩ := ih _ _ hout
    subst hg
    rw [hout] at h
    cases h
    refine ⟨by omega, fun i hi => ?_⟩
    rcases List.mem_append.1 hi with hi | hi
    · have := h2 i hi; right; omega
    · rcases h4 i hi with h5 | h5
      · exact .inl h5
      · right; omega
  | case5 t next hinc nm ts' hn g hg data hload inner next1 hrec1 hout ih =>
    subst hg
    rw [hout] at h
    cases h
  | case6 t next hinc nm ts' hn g hg data hload hrec1 => cases h
  | case7 t next hinc nm ts' hn g hg hload => cases h
  | case8 t next hinc nm ts' hn => cases h
  | case9 t ts next hinc out2 next1 hout ih =>
    cases h
    obtain ⟨h3, h4⟩ := ih _ _ hout
    refine ⟨h3, fun i hi => ?_⟩
    rcases List.mem_cons.1 hi with hi | hi
    · subst hi; exact .inl rfl
    · exact h4 i hi
  | case10 t ts next hinc hout ih => cases h

theorem expandIWith_ids (rec : Option (Path → Nat → Bytes → Option (List Item × Nat))) (fs : FS)
    (hrec : ∀ g, rec = some g → ∀ p nx d inner nx', g p nx d = some (inner, nx') →
      nx < nx' ∧ ∀ i ∈ inner, nx ≤ i.2.1 ∧ i.2.1 < nx')
    (base : Path) (fid : Nat) (b : Bytes) (out : List Item) (next' : Nat)
    (h : expandIWith rec fs base fid b = some (out, next')) :
    fid < next' ∧ ∀ i ∈ out, fid ≤ i.2.1 ∧ i.2.1 < next' := by
  rw [expandIWith] at h
  cases hl : Lex.tokenize b with
  | ok lt =>
    rw [hl] at h
    obtain ⟨h1, h2⟩ := expandIToks_ids _ fs base b fid hrec lt _ _ _ h
    refine ⟨by omega, fun i hi => ?_⟩
    rcases h2 i hi with h3 | h3 <;> omega
  | err k l => rw [hl] at h; cases h
  | panic => rw [hl] at h; cases h
  | hang => rw [hl] at h; cases h

theorem expandI_ids (fs : FS) : ∀ (n : Nat) (base : Path) (fid : Nat) (b : Bytes) (out : List Item) (next' : Nat),
    expandI fs n base fid b = some (out, next') → fid < next' ∧ ∀ i ∈ out, fid ≤ i.2.1 ∧ i.2.1 < next' := by
  intro n
  induction n with
  | zero =>
    intro base fid b out next' h
    exact expandIWith_ids none fs (by intro g hg; cases hg) base fid b out next' h
  | succ n ih =>
    intro base fid b out next' h
    exact expandIWith_ids (some (expandI fs n)) fs (by intro g hg; cases hg; exact ih) base fid b out next' h

/-- the recursive call of the specification that is available with the depth budget `n` -/
def deeperI (fs : FS) : Nat → Option (Path → Nat → Bytes → Option (List Item × Nat))
  | 0 => none
  | n + 1 => some (expandI fs n)

theorem deeperI_ids (fs : FS) (n : Nat) : ∀ g, deeperI fs n = some g → ∀ p nx d inner nx',
    g p nx d = some (inner, nx') → nx < nx' ∧ ∀ i ∈ inner, nx ≤ i.2.1 ∧ i.2.1 < nx' := by
  intro g hg
  cases n with
  | zero => cases hg
  | succ m => cases hg; exact expandI_ids fs m

end A2l.Inc
