import A2lVerif.Lemmas.TypedExact
import A2lVerif.Lemmas.TypedStore
/-!
# Typed IF_DATA access, part G: content that has the exact shape decodes, and storing it again gives the same content

* `Once t g`: no member of a tagged struct that is not declared `( ... )*` occurs more than once in the data.
* `Sim a b`: the generic values `a` and `b` have the same content: they agree in every scalar, line offset, line,
  uid, tag and block-ness, and differ at most (1) in the ORDER of the items of a tagged struct / union (in Rust: a
  hash map) and (2) in that the data of a tagged item without data is `Block []` in `a` where it is `Block [None]`
  in `b`.
* `exact_load`: `Exact t g` → the typed load succeeds, and (`Once`) the stored value is `Sim`ilar to `g`.
-/
namespace A2l.Typed
open A2l.Tree A2l.Aml A2l.IfData

mutual
def Once : OTy → Gen → Prop
  | .array of _, g => ∀ gs, g = .array gs → ∀ x ∈ gs, Once of x
  | .struct items, g => ∀ line gs, g = .struct line gs → OnceL items gs
  | .seq of, g => ∀ gs, g = .seq gs → ∀ x ∈ gs, Once of x
  | .tagged _ ms, g => ∀ its, tagItems g = .ok its → OnceM ms its
  | _, _ => True
def OnceL : List OTy → List Gen → Prop
  | [], _ => True
  | t :: rest, gs => Once t (gs.headD .none) ∧ OnceL rest gs.tail
def OnceM : List (OTag OTy) → List (TItem Gen) → Prop
  | [], _ => True
  | m :: rest, its =>
    (m.rep = false → (itemsOf its m.tag).length ≤ 1) ∧
    (∀ it ∈ itemsOf its m.tag, ∀ line gs, it.data = .block line gs → OnceL m.items gs) ∧ OnceM rest its
end

mutual
def Sim : Gen → Gen → Prop
  | .array a, g => ∃ b, g = .array b ∧ SimL a b
  | .seq a, g => ∃ b, g = .seq b ∧ SimL a b
  | .struct l a, g => ∃ b, g = .struct l b ∧ SimL a b
  | .block l a, g => ∃ b, g = .block l b ∧ (SimL a b ∨ (a = [] ∧ b = [.none]))
  | .taggedStruct a, g => ∃ b b', g = .taggedStruct b ∧ b.Perm b' ∧ SimT a b'
  | .taggedUnion a, g => ∃ b b', g = .taggedUnion b ∧ b.Perm b' ∧ SimT a b'
  | .none, g => g = .none
  | .int w off v hex, g => g = .int w off v hex
  | .float off t, g => g = .float off t
  | .double off t, g => g = .double off t
  | .str off s, g => g = .str off s
  | .enumItem off s, g => g = .enumItem off s
def SimL : List Gen → List Gen → Prop
  | [], b => b = []
  | x :: a, b => ∃ y b', b = y :: b' ∧ Sim x y ∧ SimL a b'
def SimT : List (TItem Gen) → List (TItem Gen) → Prop
  | [], b => b = []
  | x :: a, b => ∃ y b', b = y :: b' ∧ x.line = y.line ∧ x.uid = y.uid ∧ x.startOff = y.startOff ∧ x.endOff = y.endOff ∧
      x.tag = y.tag ∧ x.isBlock = y.isBlock ∧ Sim x.data y.data ∧ SimT a b'
end

theorem SimT_append : ∀ {a b a' b' : List (TItem Gen)}, SimT a b → SimT a' b' → SimT (a ++ a') (b ++ b')
  | [], b, a', b', h, h' => by
    rw [SimT] at h
    subst h
    exact h'
  | x :: a, b, a', b', h, h' => by
    rw [SimT] at h
    obtain ⟨y, b1, rfl, h1, h2, h3, h4, h5, h6, h7, h8⟩ := h
    rw [List.cons_append, List.cons_append, SimT]
    exact ⟨y, b1 ++ b', rfl, h1, h2, h3, h4, h5, h6, h7, SimT_append h8 h'⟩

theorem SimT_nil : SimT [] [] := by rw [SimT]

/-- what the member `m` requires of an item with its tag -/
def ExactM (m : OTag OTy) (it : TItem Gen) : Prop :=
  m.isBlock = it.isBlock ∧ ExactData (ExactL m.items) (m.items = []) it

theorem mem_tagsOfM : ∀ {ms : List (OTag OTy)} {m : OTag OTy}, m ∈ ms → m.tag ∈ tagsOfM ms
  | [], _, h => by cases h
  | m' :: rest, m, h => by
    rw [tagsOfM]
    rcases List.mem_cons.1 h with rfl | h
    · exact List.mem_cons_self ..
    · exact List.mem_cons_of_mem _ (mem_tagsOfM h)

theorem exactT_tag : ∀ {ms : List (OTag OTy)} {it : TItem Gen}, ExactT ms it → it.tag ∈ tagsOfM ms
  | [], it, h => by rw [ExactT] at h; cases h
  | m :: rest, it, h => by
    rw [ExactT] at h
    rw [tagsOfM]
    split at h
    · rename_i ht
      rw [← ht]; exact List.mem_cons_self ..
    · exact List.mem_cons_of_mem _ (exactT_tag h)

theorem exactT_member : ∀ {ms : List (OTag OTy)} {m : OTag OTy} {it : TItem Gen}, nodupB (tagsOfM ms) = true → m ∈ ms →
    it.tag = m.tag → ExactT ms it → ExactM m it
  | [], _, _, _, h, _, _ => by cases h
  | m' :: rest, m, it, hn, hm, ht, h => by
    rw [tagsOfM, nodupB_cons] at hn
    rw [ExactT] at h
    split at h
    · rename_i ht'
      rcases List.mem_cons.1 hm with rfl | hm
      · exact h
      · exact absurd (mem_tagsOfM hm) (by rw [← ht, ← ht']; exact hn.1)
    · rename_i ht'
      rcases List.mem_cons.1 hm with rfl | hm
      · exact absurd ht.symm ht'
      · exact exactT_member hn.2 hm ht h

/-- the items grouped by member, in the order of the members -/
def grouped : List (OTag OTy) → List (TItem Gen) → List (TItem Gen)
  | [], _ => []
  | m :: rest, its => itemsOf its m.tag ++ grouped rest its

theorem grouped_filter (tag : List Char) : ∀ (ms : List (OTag OTy)) (its : List (TItem Gen)), tag ∉ tagsOfM ms →
    grouped ms (its.filter (fun it => !decide (it.tag = tag))) = grouped ms its
  | [], _, _ => by rw [grouped, grouped]
  | m :: rest, its, h => by
    rw [tagsOfM] at h
    rw [grouped, grouped, grouped_filter tag rest its (fun hm => h (List.mem_cons_of_mem _ hm))]
    congr 1
    unfold itemsOf
    rw [List.filter_filter]
    apply List.filter_congr
    intro it _
    by_cases hx : it.tag = m.tag
    · have : m.tag ≠ tag := by
        intro he
        exact h (by rw [← he]; exact List.mem_cons_self ..)
      simp [hx, this]
    · simp [hx]

theorem perm_grouped : ∀ (ms : List (OTag OTy)) (its : List (TItem Gen)), nodupB (tagsOfM ms) = true →
    (∀ it ∈ its, it.tag ∈ tagsOfM ms) → its.Perm (grouped ms its)
  | [], its, _, h => by
    cases its with
    | nil => exact List.Perm.refl _
    | cons it rest =>
      have := h it (List.mem_cons_self ..)
      rw [tagsOfM] at this
      cases this
  | m :: rest, its, hn, h => by
    rw [tagsOfM, nodupB_cons] at hn
    rw [grouped]
    have h1 : its.Perm (its.filter (fun it => decide (it.tag = m.tag)) ++ its.filter (fun it => !decide (it.tag = m.tag))) :=
      (List.filter_append_perm _ its).symm
    refine h1.trans (List.Perm.append (List.Perm.refl _) ?_)
    rw [← grouped_filter m.tag rest its hn.1]
    refine perm_grouped rest _ hn.2 ?_
    intro it hit
    obtain ⟨hit1, hit2⟩ := List.mem_filter.1 hit
    have := h it hit1
    rw [tagsOfM] at this
    rcases List.mem_cons.1 this with h' | h'
    · simp [h'] at hit2
    · exact h'

theorem storeMembers_append : ∀ (ms : List (OTag OTy)) (a b : List TVal), a.length = ms.length →
    storeMembers ms (a ++ b) = storeMembers ms a
  | [], a, b, _ => by rw [storeMembers, storeMembers]
  | m :: rest, a, b, h => by
    cases a with
    | nil => simp at h
    | cons x a' =>
      rw [List.cons_append, storeMembers_cons, storeMembers_cons]
      simp only [List.headD_cons, List.tail_cons]
      rw [storeMembers_append rest a' b (by simpa using h)]

/-! ## one item, one member -/

theorem block_sim {lf : List Gen → LRes (List TVal × List Loc)} {sf : List TVal → List Loc → List Gen}
    {exl oncel : List Gen → Prop} {noItems : Prop}
    (h : ∀ gs, exl gs → ∃ fs locs, lf gs = .ok (fs, locs) ∧ (oncel gs → SimL (sf fs locs) gs))
    (hnone : noItems → lf [.none] = .ok ([], []) ∧ sf [] [] = [])
    (tag : List Char) (b : Bool) (it : TItem Gen) (ht : it.tag = tag) (hb : b = it.isBlock)
    (hex : ExactData exl noItems it) :
    ∃ v, loadBlockWith lf it.data it.uid it.startOff it.endOff = .ok v ∧
      ((∀ line gs, it.data = .block line gs → oncel gs) → SimT [mkItem sf tag b v] [it]) := by
  obtain ⟨gs, hd, hgs⟩ := hex
  rcases hgs with hgs | ⟨hno, rfl⟩
  · obtain ⟨fs, locs, hl, hs⟩ := h gs hgs
    refine ⟨.struct ⟨it.line, it.uid, it.startOff, it.endOff, locs⟩ fs, ?_, ?_⟩
    · rw [hd]
      simp only [loadBlockWith, hl, LRes.ok_bind, LRes.pure_def]
    · intro ho
      rw [SimT]
      refine ⟨it, [], rfl, rfl, rfl, rfl, rfl, ht.symm, hb, ?_, SimT_nil⟩
      simp only [mkItem]
      rw [hd, Sim]
      exact ⟨gs, rfl, .inl (hs (ho _ _ hd))⟩
  · obtain ⟨hl, hs⟩ := hnone hno
    refine ⟨.struct ⟨it.line, it.uid, it.startOff, it.endOff, []⟩ [], ?_, ?_⟩
    · rw [hd]
      simp only [loadBlockWith, hl, LRes.ok_bind, LRes.pure_def]
    · intro _
      rw [SimT]
      refine ⟨it, [], rfl, rfl, rfl, rfl, rfl, ht.symm, hb, ?_, SimT_nil⟩
      simp only [mkItem]
      rw [hd, hs, Sim]
      exact ⟨[.none], rfl, .inr ⟨rfl, rfl⟩⟩

theorem mapL_sim {f : TItem Gen → LRes TVal} {mk : TVal → TItem Gen} {C : TItem Gen → Prop} :
    ∀ (l : List (TItem Gen)), (∀ x ∈ l, ∃ v, f x = .ok v ∧ (C x → SimT [mk v] [x])) →
    ∃ vs, mapL f l = .ok vs ∧ ((∀ x ∈ l, C x) → SimT (vs.map mk) l)
  | [], _ => ⟨[], rfl, fun _ => SimT_nil⟩
  | x :: rest, h => by
    obtain ⟨v, hv, hs⟩ := h x (List.mem_cons_self ..)
    obtain ⟨vs, hvs, hss⟩ := mapL_sim rest (fun y hy => h y (List.mem_cons_of_mem _ hy))
    refine ⟨v :: vs, by simp only [mapL, hv, hvs, LRes.ok_bind, LRes.pure_def], ?_⟩
    intro hc
    have h1 := hs (hc x (List.mem_cons_self ..))
    have h2 := hss (fun y hy => hc y (List.mem_cons_of_mem _ hy))
    exact SimT_append (a := [mk v]) (b := [x]) h1 h2

theorem member_sim {lf : List Gen → LRes (List TVal × List Loc)} {sf : List TVal → List Loc → List Gen}
    {exl oncel : List Gen → Prop} {noItems : Prop}
    (h : ∀ gs, exl gs → ∃ fs locs, lf gs = .ok (fs, locs) ∧ (oncel gs → SimL (sf fs locs) gs))
    (hnone : noItems → lf [.none] = .ok ([], []) ∧ sf [] [] = [])
    (tag : List Char) (rep b : Bool) (its : List (TItem Gen))
    (hex : ∀ it ∈ itemsOf its tag, b = it.isBlock ∧ ExactData exl noItems it) :
    ∃ f, loadMember lf tag rep its = .ok f ∧
      ((rep = false → (itemsOf its tag).length ≤ 1) → (∀ it ∈ itemsOf its tag, ∀ line gs, it.data = .block line gs → oncel gs) →
        SimT (storeMember sf tag b f) (itemsOf its tag)) := by
  have htag : ∀ it ∈ itemsOf its tag, it.tag = tag := by
    intro it hit
    have := (List.mem_filter.1 hit).2
    simpa using this
  have hitem : ∀ it ∈ itemsOf its tag, ∃ v, loadBlockWith lf it.data it.uid it.startOff it.endOff = .ok v ∧
      ((∀ line gs, it.data = .block line gs → oncel gs) → SimT [mkItem sf tag b v] [it]) :=
    fun it hit => block_sim h hnone tag b it (htag it hit) (hex it hit).1 (hex it hit).2
  unfold loadMember
  cases rep with
  | true =>
    simp only [if_true]
    obtain ⟨vs, hvs, hs⟩ := mapL_sim (f := fun it : TItem Gen => loadBlockWith lf it.data it.uid it.startOff it.endOff)
      (mk := mkItem sf tag b) (C := fun it => ∀ line gs, it.data = .block line gs → oncel gs) (itemsOf its tag) hitem
    refine ⟨.multi vs, by simp only [hvs, LRes.ok_bind, LRes.pure_def], ?_⟩
    intro _ ho
    simp only [storeMember]
    exact hs ho
  | false =>
    simp only [Bool.false_eq_true, if_false]
    rw [hasTag_eq]
    cases hi : itemsOf its tag with
    | nil =>
      refine ⟨.opt none, by simp, ?_⟩
      intro _ _
      simp only [storeMember]
      exact SimT_nil
    | cons it tl =>
      obtain ⟨v, hv, hs⟩ := hitem it (by rw [hi]; exact List.mem_cons_self ..)
      refine ⟨.opt (some v), by simp [hv], ?_⟩
      intro hlen ho
      have : tl = [] := by
        have := hlen trivial
        simp only [List.length_cons] at this
        exact List.eq_nil_of_length_eq_zero (by omega)
      subst this
      simp only [storeMember]
      exact hs (ho it (List.mem_cons_self ..))

theorem loadArr_sim {f : Gen → LRes (TVal × Loc)} {sf : TVal → Loc → Gen} (d : Loc) {C : Gen → Prop} :
    ∀ (gs : List Gen), (∀ x ∈ gs, ∃ v l, f x = .ok (v, l) ∧ (C x → Sim (sf v l) x)) →
    ∃ rs, loadArr f gs.length gs = .ok rs ∧ ((∀ x ∈ gs, C x) → SimL (storeList sf d (rs.map (·.1)) (rs.map (·.2))) gs)
  | [], _ => ⟨[], rfl, fun _ => by simp only [List.map_nil, storeList]; rw [SimL]⟩
  | x :: rest, h => by
    obtain ⟨v, l, hv, hs⟩ := h x (List.mem_cons_self ..)
    obtain ⟨rs, hrs, hss⟩ := loadArr_sim d rest (fun y hy => h y (List.mem_cons_of_mem _ hy))
    refine ⟨(v, l) :: rs, by simp only [List.length_cons, loadArr, List.headD_cons, List.tail_cons, hv, hrs, LRes.ok_bind, LRes.pure_def], ?_⟩
    intro hc
    simp only [List.map_cons, storeList, List.headD_cons, List.tail_cons]
    rw [SimL]
    exact ⟨x, rest, rfl, hs (hc x (List.mem_cons_self ..)), hss (fun y hy => hc y (List.mem_cons_of_mem _ hy))⟩

theorem mapL_simL {f : Gen → LRes (TVal × Loc)} {sf : TVal → Loc → Gen} (d : Loc) {C : Gen → Prop} :
    ∀ (gs : List Gen), (∀ x ∈ gs, ∃ v l, f x = .ok (v, l) ∧ (C x → Sim (sf v l) x)) →
    ∃ rs, mapL f gs = .ok rs ∧ ((∀ x ∈ gs, C x) → SimL (storeList sf d (rs.map (·.1)) (rs.map (·.2))) gs)
  | [], _ => ⟨[], rfl, fun _ => by simp only [List.map_nil, storeList]; rw [SimL]⟩
  | x :: rest, h => by
    obtain ⟨v, l, hv, hs⟩ := h x (List.mem_cons_self ..)
    obtain ⟨rs, hrs, hss⟩ := mapL_simL d rest (fun y hy => h y (List.mem_cons_of_mem _ hy))
    refine ⟨(v, l) :: rs, by simp only [mapL, hv, hrs, LRes.ok_bind, LRes.pure_def], ?_⟩
    intro hc
    simp only [List.map_cons, storeList, List.headD_cons, List.tail_cons]
    rw [SimL]
    exact ⟨x, rest, rfl, hs (hc x (List.mem_cons_self ..)), hss (fun y hy => hc y (List.mem_cons_of_mem _ hy))⟩

theorem tagItems_tagged (u : Bool) (its : List (TItem Gen)) :
    tagItems (if u then Gen.taggedUnion its else Gen.taggedStruct its) = .ok its := by cases u <;> rfl

/-! ## the theorem -/

theorem exact_load :
    (∀ t, isTagged t = false → distinctTy t = true → ∀ g, Exact t g →
      ∃ v l, loadItem t g = .ok (v, l) ∧ (Once t g → Sim (storeItem t v l) g)) ∧
    (∀ ts, distinctL ts = true → ∀ gs, ExactL ts gs → ∃ fs locs, loadFields ts gs = .ok (fs, locs) ∧
      (OnceL ts gs → SimL (storeFields ts fs locs) gs)) ∧
    (∀ ms, distinctM ms = true → ∀ g its, tagItems g = .ok its → (∀ m ∈ ms, ∀ it ∈ itemsOf its m.tag, ExactM m it) →
      ∃ vs, loadMembers ms g = .ok vs ∧ vs.length = ms.length ∧ (OnceM ms its → SimT (storeMembers ms vs) (grouped ms its))) := by
  refine OTy.induct'
    (P := fun t => isTagged t = false → distinctTy t = true → ∀ g, Exact t g →
      ∃ v l, loadItem t g = .ok (v, l) ∧ (Once t g → Sim (storeItem t v l) g))
    (PL := fun ts => distinctL ts = true → ∀ gs, ExactL ts gs → ∃ fs locs, loadFields ts gs = .ok (fs, locs) ∧
      (OnceL ts gs → SimL (storeFields ts fs locs) gs))
    (PM := fun ms => distinctM ms = true → ∀ g its, tagItems g = .ok its → (∀ m ∈ ms, ∀ it ∈ itemsOf its m.tag, ExactM m it) →
      ∃ vs, loadMembers ms g = .ok vs ∧ vs.length = ms.length ∧ (OnceM ms its → SimT (storeMembers ms vs) (grouped ms its)))
    ?_ ?_ ?_ ?_ ?_ ?_ ?_ ?_ ?_ ?_ ?_ ?_ ?_ ?_ ?_
  · intro _ _ g h; rw [Exact] at h; cases h
  · intro w _ _ g h
    rw [Exact] at h
    obtain ⟨off, v, hex, rfl⟩ := h
    refine ⟨.int v, .int off hex, by simp [loadItem_int], fun _ => ?_⟩
    simp only [storeItem_int, Loc.offOf, Loc.hexOf]
    rw [Sim]
  · intro _ _ g h
    rw [Exact] at h
    obtain ⟨off, t, rfl⟩ := h
    refine ⟨.float t, .off off, by simp [loadItem_float], fun _ => ?_⟩
    simp only [storeItem_float, Loc.offOf]
    rw [Sim]
  · intro _ _ g h
    rw [Exact] at h
    obtain ⟨off, t, rfl⟩ := h
    refine ⟨.double t, .off off, by simp [loadItem_double], fun _ => ?_⟩
    simp only [storeItem_double, Loc.offOf]
    rw [Sim]
  · intro _ _ g h
    rw [Exact] at h
    obtain ⟨off, t, rfl⟩ := h
    refine ⟨.str t, .off off, by simp [loadItem_str], fun _ => ?_⟩
    simp only [storeItem_str, Loc.offOf]
    rw [Sim]
  · intro of dim ih _ hd g h
    rw [distinctTy] at hd
    rw [Exact] at h
    obtain ⟨hnt, gs, rfl, hlen, hall⟩ := h
    obtain ⟨rs, hrs, hsim⟩ := loadArr_sim (f := loadItem of) (sf := storeItem of) (defLoc of) (C := Once of) gs
      (fun x hx => ih hnt hd x (hall x hx))
    rw [hlen] at hrs
    refine ⟨.array (rs.map (·.1)), .arr (rs.map (·.2)), by simp [loadItem_array, hrs], fun ho => ?_⟩
    rw [Once] at ho
    simp only [storeItem_array, Loc.listOf]
    rw [Sim]
    exact ⟨gs, rfl, hsim (ho gs rfl)⟩
  · intro names _ _ g h
    rw [Exact] at h
    obtain ⟨off, s, rfl, hc⟩ := h
    refine ⟨.enum s, .off off, by rw [loadItem_enum]; simp only [hc, if_true], fun _ => ?_⟩
    simp only [storeItem_enum, Loc.offOf]
    rw [Sim]
  · intro items ih _ hd g h
    rw [distinctTy] at hd
    rw [Exact] at h
    obtain ⟨line, gs, rfl, hl⟩ := h
    obtain ⟨fs, locs, hload, hsim⟩ := ih hd gs hl
    refine ⟨.struct ⟨line, 0, 0, 0, locs⟩ fs, .off line, by simp [loadItem_struct, hload], fun ho => ?_⟩
    rw [Once] at ho
    simp only [storeItem_struct]
    rw [Sim]
    exact ⟨gs, rfl, hsim (ho line gs rfl)⟩
  · intro of ih _ hd g h
    rw [distinctTy] at hd
    rw [Exact] at h
    obtain ⟨hnt, gs, rfl, hall⟩ := h
    obtain ⟨rs, hrs, hsim⟩ := mapL_simL (f := loadItem of) (sf := storeItem of) (defLoc of) (C := Once of) gs
      (fun x hx => ih hnt hd x (hall x hx))
    refine ⟨.seq (rs.map (·.1)), .seq (rs.map (·.2)), by simp [loadItem_seq, hrs], fun ho => ?_⟩
    rw [Once] at ho
    simp only [storeItem_seq, Loc.listOf]
    rw [Sim]
    exact ⟨gs, rfl, hsim (ho gs rfl)⟩
  · intro u ms _ ht; simp [isTagged] at ht
  · intro _ gs h
    rw [ExactL] at h
    subst h
    exact ⟨[], [], by rw [loadFields]; rfl, fun _ => by rw [storeFields_nil, SimL]⟩
  · intro u ms rest ihm ihr hd gs h
    rw [distinctL, distinctTy] at hd
    simp only [Bool.and_eq_true] at hd
    rw [ExactL] at h
    obtain ⟨g, gs', rfl, hg, hr⟩ := h
    rw [Exact] at hg
    obtain ⟨its, rfl, hall⟩ := hg
    have hti := tagItems_tagged u its
    obtain ⟨vs, hvs, hlen, hsim⟩ := ihm hd.1.2 _ its hti (fun m hm it hit =>
      exactT_member hd.1.1 hm (by have := (List.mem_filter.1 hit).2; simpa using this) (hall it (List.mem_filter.1 hit).1))
    obtain ⟨fs, locs, hloadr, hsimr⟩ := ihr hd.2 gs' hr
    refine ⟨vs ++ fs, locs, by simp [loadFields_cons_tagged, hvs, hloadr], fun ho => ?_⟩
    rw [OnceL] at ho
    simp only [List.headD_cons, List.tail_cons] at ho
    rw [Once] at ho
    rw [storeFields_cons_tagged, SimL, storeMembers_append ms vs fs hlen, ← hlen, List.drop_left]
    refine ⟨_, gs', rfl, ?_, hsimr ho.2⟩
    have hperm := perm_grouped ms its hd.1.1 (fun it hit => exactT_tag (hall it hit))
    cases u with
    | true =>
      simp only [if_true]
      rw [Sim]
      exact ⟨its, grouped ms its, rfl, hperm, hsim (ho.1 its hti)⟩
    | false =>
      simp only [Bool.false_eq_true, if_false]
      rw [Sim]
      exact ⟨its, grouped ms its, rfl, hperm, hsim (ho.1 its hti)⟩
  · intro t rest ht iht ihr hd gs h
    rw [distinctL] at hd
    simp only [Bool.and_eq_true] at hd
    rw [ExactL] at h
    obtain ⟨g, gs', rfl, hg, hr⟩ := h
    obtain ⟨v, l, hload, hsim⟩ := iht ht hd.1 g hg
    obtain ⟨fs, locs, hloadr, hsimr⟩ := ihr hd.2 gs' hr
    refine ⟨v :: fs, l :: locs, by simp [loadFields_cons_item t ht, hload, hloadr], fun ho => ?_⟩
    rw [OnceL] at ho
    rw [storeFields_cons_item t ht, SimL]
    exact ⟨g, gs', rfl, hsim ho.1, hsimr ho.2⟩
  · intro _ g its _ _
    exact ⟨[], by rw [loadMembers]; rfl, rfl, fun _ => by rw [storeMembers, grouped]; exact SimT_nil⟩
  · intro m rest ihm ihr hd g its hg hex
    rw [distinctM] at hd
    simp only [Bool.and_eq_true] at hd
    obtain ⟨f, hf, hsimf⟩ := member_sim (lf := loadFields m.items) (sf := storeFields m.items) (exl := ExactL m.items)
      (oncel := OnceL m.items) (noItems := m.items = []) (ihm hd.1)
      (fun hno => by rw [hno]; exact ⟨by rw [loadFields]; rfl, storeFields_nil _ _⟩) m.tag m.rep m.isBlock its
      (fun it hit => hex m (List.mem_cons_self ..) it hit)
    obtain ⟨vs, hvs, hlen, hsim⟩ := ihr hd.2 g its hg (fun m' hm' => hex m' (List.mem_cons_of_mem _ hm'))
    refine ⟨f :: vs, by simp only [loadMembers, hg, hf, hvs, LRes.ok_bind, LRes.pure_def], by simp [hlen], fun ho => ?_⟩
    rw [OnceM] at ho
    rw [storeMembers_cons, grouped]
    simp only [List.headD_cons, List.tail_cons]
    exact SimT_append (hsimf ho.1 ho.2.1) (hsim ho.2.2)

end A2l.Typed
