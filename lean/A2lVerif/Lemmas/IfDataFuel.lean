import A2lVerif.Lemmas.IfDataTop
/-!
# IF_DATA, part C'': the recursion budget of the fallback is not observable

The three functions of the fallback are recursive on a budget (`fuel`) that exists in the model only. A larger budget
never changes a result other than "budget exhausted"; on well-formed tokens `unknownFuel` is enough (Lemmas/IfData.lean),
so every larger budget gives the same result as the one `unknownStart` uses.
-/
namespace A2l.IfData
open A2l.Tree A2l.Aml A2l.G A2l.Sc

variable {e : Env}

/-- `r'` is `r`, unless `r` is "budget exhausted" -/
def Ext {α : Type} (r r' : PRes α) : Prop := r ≠ .fuel → r' = r

theorem Ext.refl {α : Type} (r : PRes α) : Ext r r := fun _ => rfl

theorem Ext.bind {α β} {m m' : PM α} {f f' : α → PM β} {s : PState}
    (hm : Ext (m e s) (m' e s)) (hf : ∀ a s1, Ext (f a e s1) (f' a e s1)) :
    Ext ((m >>= f) e s) ((m' >>= f') e s) := by
  intro hne
  rw [bind_eq] at hne
  rw [bind_eq m' f', bind_eq m f]
  cases h : m e s with
  | fuel => rw [h] at hne; exact absurd rfl hne
  | ok a s1 =>
    rw [h] at hne
    rw [hm (by rw [h]; intro hh; cases hh), h]
    exact hf a s1 hne
  | err d s1 => rw [hm (by rw [h]; intro hh; cases hh), h]
  | panic => rw [hm (by rw [h]; intro hh; cases hh), h]

theorem Ext.bind_same {α β} {m : PM α} {f f' : α → PM β} {s : PState}
    (hf : ∀ a s1, Ext (f a e s1) (f' a e s1)) : Ext ((m >>= f) e s) ((m >>= f') e s) :=
  Ext.bind (Ext.refl _) hf

structure AllExt (e : Env) (fuel fuel' : Nat) : Prop where
  u : ∀ ctx isB dp acc s, Ext (unknownIfdata fuel ctx isB dp acc e s) (unknownIfdata fuel' ctx isB dp acc e s)
  ts : ∀ ctx dp s, Ext (unknownTaggedstruct fuel ctx dp e s) (unknownTaggedstruct fuel' ctx dp e s)
  l : ∀ ctx dp acc s, Ext (unknownTsLoop fuel ctx dp acc e s) (unknownTsLoop fuel' ctx dp acc e s)

theorem allExt_zero (fuel' : Nat) : AllExt e 0 fuel' := by
  constructor
  · intro ctx isB dp acc s hne; rw [unknownIfdata.eq_def] at hne; exact absurd rfl hne
  · intro ctx dp s hne; rw [unknownTaggedstruct.eq_def] at hne; exact absurd rfl hne
  · intro ctx dp acc s hne; rw [unknownTsLoop.eq_def] at hne; exact absurd rfl hne

theorem u_scalar_ext {α} {fuel fuel' : Nat} (ih : AllExt e fuel fuel') {m : PM α} {g : α → Nat → Gen}
    {ctx : Ctx} {isB : Bool} {dp : Nat} {acc : List Gen} {s : PState} :
    Ext ((m >>= fun v => getLineOffset >>= fun off => unknownIfdata fuel ctx isB dp (g v off :: acc)) e s)
      ((m >>= fun v => getLineOffset >>= fun off => unknownIfdata fuel' ctx isB dp (g v off :: acc)) e s) :=
  Ext.bind_same (fun _ _ => Ext.bind_same (fun _ s2 => ih.u ctx isB dp _ s2))

theorem u_number_ext {fuel fuel' : Nat} (ih : AllExt e fuel fuel') {ctx : Ctx} {isB : Bool} {dp : Nat} {acc : List Gen}
    {s : PState} (K K' : Except Diag (Int × Bool) → PM Gen) (w : Nat)
    (hok : ∀ v hex, K (.ok (v, hex)) = (getLineOffset >>= fun off => unknownIfdata fuel ctx isB dp (.int w off v hex :: acc)))
    (hok' : ∀ v hex, K' (.ok (v, hex)) = (getLineOffset >>= fun off => unknownIfdata fuel' ctx isB dp (.int w off v hex :: acc)))
    (herr : ∀ d s1, Ext (K (.error d) e s1) (K' (.error d) e s1)) :
    Ext ((attempt (getInteger ctx w) >>= K) e s) ((attempt (getInteger ctx w) >>= K') e s) := by
  refine Ext.bind_same ?_
  intro r s1
  cases r with
  | error d => exact herr d s1
  | ok a =>
    obtain ⟨v, hex⟩ := a
    rw [hok, hok']
    exact Ext.bind_same (fun _ s2 => ih.u ctx isB dp _ s2)

theorem u_ext_step {fuel fuel' : Nat} (ih : AllExt e fuel fuel') (ctx : Ctx) (isB : Bool) (dp : Nat) (acc : List Gen)
    (s : PState) :
    Ext (unknownIfdata (fuel + 1) ctx isB dp acc e s) (unknownIfdata (fuel' + 1) ctx isB dp acc e s) := by
  rw [unknownIfdata.eq_def (fuel + 1), unknownIfdata.eq_def (fuel' + 1)]
  dsimp only
  by_cases hdp : dp > maxNestingDepth
  · simp only [if_pos hdp]; exact Ext.refl _
  simp only [if_neg hdp, peekToken_bind]
  cases e.toks[s.pos]? with
  | none => exact Ext.refl _
  | some t =>
    dsimp only
    by_cases h0 : t.ty = 0
    · simp only [if_pos h0]; exact u_scalar_ext ih
    simp only [if_neg h0]
    by_cases h4 : t.ty = 4
    · simp only [if_pos h4]; exact u_scalar_ext ih
    simp only [if_neg h4]
    by_cases h5 : t.ty = 5
    · simp only [if_pos h5]
      refine u_number_ext ih _ _ 2 (fun _ _ => rfl) (fun _ _ => rfl) ?_
      intro _ s1
      refine Ext.bind_same ?_
      intro _ s2
      refine u_number_ext ih _ _ 3 (fun _ _ => rfl) (fun _ _ => rfl) ?_
      intro _ s3
      refine Ext.bind_same ?_
      intro _ s4
      refine u_number_ext ih _ _ 7 (fun _ _ => rfl) (fun _ _ => rfl) ?_
      intro _ s5
      refine Ext.bind_same ?_
      intro _ s6
      exact u_scalar_ext ih
    simp only [if_neg h5]
    by_cases h1 : t.ty = 1
    · simp only [if_pos h1]
      cases isB with
      | true =>
        simp only [if_true]
        exact Ext.bind (ih.ts ctx dp s) (fun _ s1 => ih.u ctx true dp _ s1)
      | false => exact Ext.refl _
    simp only [if_neg h1]
    by_cases h2 : t.ty = 2
    · simp only [if_pos h2]; exact Ext.refl _
    simp only [if_neg h2]
    by_cases h3 : t.ty = 3
    · simp only [if_pos h3]; exact ih.u ctx isB dp acc s
    simp only [if_neg h3]
    exact Ext.bind_same (fun _ s1 => ih.u ctx isB dp acc s1)

theorem ts_ext_step {fuel fuel' : Nat} (ih : AllExt e fuel fuel') (ctx : Ctx) (dp : Nat) (s : PState) :
    Ext (unknownTaggedstruct (fuel + 1) ctx dp e s) (unknownTaggedstruct (fuel' + 1) ctx dp e s) := by
  rw [unknownTaggedstruct.eq_def (fuel + 1), unknownTaggedstruct.eq_def (fuel' + 1)]
  dsimp only
  simp only [getEnv_bind]
  refine Ext.bind_same ?_
  intro _ s1
  exact Ext.bind (ih.l ctx dp [] s1) (fun _ _ => Ext.refl _)

theorem l_ext_step {fuel fuel' : Nat} (ih : AllExt e fuel fuel') (ctx : Ctx) (dp : Nat) (acc : List (TItem Gen))
    (s : PState) :
    Ext (unknownTsLoop (fuel + 1) ctx dp acc e s) (unknownTsLoop (fuel' + 1) ctx dp acc e s) := by
  rw [unknownTsLoop.eq_def (fuel + 1), unknownTsLoop.eq_def (fuel' + 1)]
  dsimp only
  refine Ext.bind_same ?_
  intro r s1
  cases r with
  | error d => exact Ext.refl _
  | ok bc =>
    cases bc with
    | comment tok off => exact ih.l ctx dp acc s1
    | none => exact Ext.refl _
    | block tok isBlock startOff =>
      dsimp only
      refine Ext.bind_same ?_
      intro uid s2
      refine Ext.bind (ih.u _ isBlock (dp + 1) [] s2) ?_
      intro result s3
      refine Ext.bind_same ?_
      intro endOff s4
      exact ih.l ctx dp _ s4

theorem allExt (e : Env) : ∀ (fuel fuel' : Nat), fuel ≤ fuel' → AllExt e fuel fuel'
  | 0, fuel', _ => allExt_zero fuel'
  | fuel + 1, 0, h => absurd h (by omega)
  | fuel + 1, fuel' + 1, h =>
    have ih := allExt e fuel fuel' (by omega)
    ⟨fun ctx isB dp acc s => u_ext_step ih ctx isB dp acc s,
     fun ctx dp s => ts_ext_step ih ctx dp s,
     fun ctx dp acc s => l_ext_step ih ctx dp acc s⟩

/-- a larger budget does not change a result -/
theorem unknownIfdata_fuel_mono {fuel fuel' : Nat} (h : fuel ≤ fuel') (ctx : Ctx) (isB : Bool) (dp : Nat) (acc : List Gen)
    (s : PState) (hne : unknownIfdata fuel ctx isB dp acc e s ≠ .fuel) :
    unknownIfdata fuel' ctx isB dp acc e s = unknownIfdata fuel ctx isB dp acc e s :=
  (allExt e fuel fuel' h).u ctx isB dp acc s hne

/-- `parse_unknown_ifdata_start` with the budget as a parameter -/
def unknownStartWith (fuel : Nat) (ctx : Ctx) : PM Gen := do
  match (← peekToken) with
  | some t =>
    if t.ty = 0 then do
      let token ← getToken ctx
      let startOff ← getLineOffset
      let uid ← getNextId
      let newctx : Ctx := ⟨token.text, token.fileid, token.line⟩
      let result ← unknownIfdata fuel newctx true 0 []
      undoGetToken
      let endOff ← getLineOffset
      let _ ← attempt (getToken ctx)
      pure (.block startOff [.taggedUnion [⟨newctx.line, uid, startOff, endOff, token.text, result, false⟩]])
    else unknownIfdata fuel ctx true 0 []
  | none => unknownIfdata fuel ctx true 0 []

theorem unknownStart_eq_with (ctx : Ctx) (s : PState) :
    unknownStart ctx e s = unknownStartWith (unknownFuel e.toks.size) ctx e s := rfl

theorem unknownStartWith_ext {fuel fuel' : Nat} (h : fuel ≤ fuel') (ctx : Ctx) (s : PState) :
    Ext (unknownStartWith fuel ctx e s) (unknownStartWith fuel' ctx e s) := by
  have hA := allExt e fuel fuel' h
  unfold unknownStartWith
  simp only [peekToken_bind]
  cases e.toks[s.pos]? with
  | none => exact hA.u ctx true 0 [] s
  | some t =>
    dsimp only
    by_cases h0 : t.ty = 0
    · simp only [if_pos h0]
      refine Ext.bind_same ?_
      intro token s1
      refine Ext.bind_same ?_
      intro startOff s2
      refine Ext.bind_same ?_
      intro uid s3
      exact Ext.bind (hA.u _ true 0 [] s3) (fun _ _ => Ext.refl _)
    · simp only [if_neg h0]
      exact hA.u ctx true 0 [] s

/-- on well-formed tokens every budget from `unknownFuel` on gives the result of `unknownStart` -/
theorem unknownStartWith_eq (toks : Array PTok) (strict : Bool) (hk : TokOk toks) (hne : 0 < toks.size)
    (hni : NoInc (specialEnv toks strict)) (ctx : Ctx) (s : PState) (hs : s.pos ≤ toks.size)
    (fuel : Nat) (hf : unknownFuel toks.size ≤ fuel) :
    unknownStartWith fuel ctx (specialEnv toks strict) s = unknownStart ctx (specialEnv toks strict) s := by
  have htot := good_total (unknownStart_good (F := True) (cfgS toks strict hk hne) (fun _ _ => hni) ctx s (fun _ => hs))
  rw [unknownStart_eq_with]
  exact unknownStartWith_ext (e := specialEnv toks strict) hf ctx s htot.2.1

end A2l.IfData
