import A2lVerif.Lemmas.TypedExact
import A2lVerif.Lemmas.TypedStore
/-!
# Typed IF_DATA access, part K: every definition that `parse_a2ml` returns has pairwise different tags

`insertTagged` replaces an earlier member with the same tag (`HashMap::insert`), so the member lists of every tagged
struct / union that the parser builds have pairwise different tags (`wfSpec`); and `wfSpec S` implies the hypothesis
`TagsDistinct S` of Props/C19.lean.
-/
namespace A2l.Typed
open A2l.Aml

/-! ## `wfSpec` -/

def tagsOfT : List (Tagged Spec) → List (List Char)
  | [] => []
  | t :: rest => t.tag :: tagsOfT rest

mutual
def wfSpec : Spec → Bool
  | .array of _ => wfSpec of
  | .struct items => wfL items
  | .seq of => wfSpec of
  | .taggedStruct items => nodupB (tagsOfT items) && wfT items
  | .taggedUnion items => nodupB (tagsOfT items) && wfT items
  | _ => true
def wfL : List Spec → Bool
  | [] => true
  | s :: rest => wfSpec s && wfL rest
def wfT : List (Tagged Spec) → Bool
  | [] => true
  | t :: rest => wfSpec t.item && wfT rest
end

theorem wfL_append : ∀ (a b : List Spec), wfL (a ++ b) = (wfL a && wfL b)
  | [], b => by simp [wfL]
  | x :: a, b => by simp [wfL, wfL_append a b, Bool.and_assoc]

theorem wfL_reverse : ∀ (a : List Spec), wfL a.reverse = wfL a
  | [] => rfl
  | x :: a => by
    rw [List.reverse_cons, wfL_append, wfL_reverse a]
    simp [wfL, Bool.and_comm]

/-! ## from `wfSpec` to `TagsDistinct` -/

theorem tagsOfM_fixTagged : ∀ (l : List (Tagged Spec)), tagsOfM (fixTagged l) = tagsOfT l
  | [] => by rw [fixTagged, tagsOfM, tagsOfT]
  | t :: rest => by rw [fixTagged, tagsOfM, tagsOfT, tagsOfM_fixTagged rest]

theorem distinctL_append : ∀ (a b : List OTy), distinctL (a ++ b) = (distinctL a && distinctL b)
  | [], b => by simp [distinctL]
  | x :: a, b => by simp [distinctL, distinctL_append a b, Bool.and_assoc]

theorem distinct_blockItems {s : Spec} (h : distinctTy (fixItem s) = true) (hl : ∀ items, s = .struct items → distinctL (fixItems items) = true) :
    distinctL (blockItems s) = true := by
  rw [blockItems_eq]
  cases s with
  | struct items => exact hl items rfl
  | none => rfl
  | _ => simp only [distinctL, h, Bool.and_self]

theorem distinct_seq {s : Spec} (h : isSeq s = false) : distinctTy (fixItem (.seq s)) = distinctTy (fixItem s) := by
  rw [fixItem_seq h, distinctTy]

theorem wf_distinct :
    (∀ s, wfSpec s = true → distinctTy (fixItem s) = true ∧ distinctTy (fixItem (.seq s)) = true ∧
      (∀ items, s = .struct items → distinctL (fixItems items) = true)) ∧
    (∀ l, wfL l = true → distinctL (fixItems l) = true ∧ distinctL (structItems l) = true) ∧
    (∀ l, wfT l = true → distinctM (fixTagged l) = true) := by
  refine Spec.induct
    (P := fun s => wfSpec s = true → distinctTy (fixItem s) = true ∧ distinctTy (fixItem (.seq s)) = true ∧
      (∀ items, s = .struct items → distinctL (fixItems items) = true))
    (PL := fun l => wfL l = true → distinctL (fixItems l) = true ∧ distinctL (structItems l) = true)
    (PT := fun l => wfT l = true → distinctM (fixTagged l) = true) ?_ ?_ ?_ ?_ ?_ ?_ ?_ ?_ ?_ ?_ ?_ ?_ ?_ ?_
  · intro _; exact ⟨rfl, rfl, by intro _ h; cases h⟩
  · intro w _; exact ⟨rfl, rfl, by intro _ h; cases h⟩
  · intro _; exact ⟨rfl, rfl, by intro _ h; cases h⟩
  · intro _; exact ⟨rfl, rfl, by intro _ h; cases h⟩
  · intro of dim ih h
    rw [wfSpec] at h
    have h1 : distinctTy (fixItem (.array of dim)) = true := by
      rw [fixItem_array]
      split
      · rfl
      · rw [distinctTy]; exact (ih h).1
    exact ⟨h1, by rw [distinct_seq rfl]; exact h1, by intro _ h; cases h⟩
  · intro items _; exact ⟨rfl, rfl, by intro _ h; cases h⟩
  · intro items ih h
    rw [wfSpec] at h
    have h1 : distinctTy (fixItem (.struct items)) = true := by
      rw [fixItem, distinctTy]
      exact (ih h).2
    exact ⟨h1, by rw [distinct_seq rfl]; exact h1, by intro _ he; cases he; exact (ih h).1⟩
  · intro of ih h
    rw [wfSpec] at h
    refine ⟨(ih h).2.1, ?_, by intro _ h; cases h⟩
    have : fixItem (.seq (.seq of)) = .seq (fixItem of) := by rw [fixItem]
    rw [this, distinctTy]
    exact (ih h).1
  · intro items ih h
    rw [wfSpec] at h
    simp only [Bool.and_eq_true] at h
    have h1 : distinctTy (fixItem (.taggedStruct items)) = true := by
      rw [fixItem, distinctTy, tagsOfM_fixTagged, h.1, ih h.2]
      rfl
    exact ⟨h1, by rw [distinct_seq rfl]; exact h1, by intro _ h; cases h⟩
  · intro items ih h
    rw [wfSpec] at h
    simp only [Bool.and_eq_true] at h
    have h1 : distinctTy (fixItem (.taggedUnion items)) = true := by
      rw [fixItem, distinctTy, tagsOfM_fixTagged, h.1, ih h.2]
      rfl
    exact ⟨h1, by rw [distinct_seq rfl]; exact h1, by intro _ h; cases h⟩
  · intro _; exact ⟨rfl, rfl⟩
  · intro s rest ihs ihr h
    rw [wfL] at h
    simp only [Bool.and_eq_true] at h
    refine ⟨?_, ?_⟩
    · rw [fixItems, distinctL, (ihs h.1).1, (ihr h.2).1]; rfl
    · rw [structItems]
      split
      · exact (ihr h.2).2
      · rw [distinctL, (ihs h.1).1, (ihr h.2).2]; rfl
  · intro _; rfl
  · intro t rest iht ihr h
    rw [wfT] at h
    simp only [Bool.and_eq_true] at h
    rw [fixTagged, distinctM]
    simp only [Bool.and_eq_true]
    exact ⟨distinct_blockItems (iht h.1).1 (iht h.1).2.2, ihr h.2⟩

theorem tagsDistinct_of_wf (S : Spec) (h : wfSpec S = true) : TagsDistinct S :=
  distinct_blockItems (wf_distinct.1 S h).1 (wf_distinct.1 S h).2.2

/-! ## the parser builds `wfSpec` definitions -/

/-- `Q` holds for what `r` returns -/
def RPost {α : Type} (r : R α) (Q : α → Prop) : Prop := ∀ a rest, r = .ok a rest → Q a

theorem RPost.err {α : Type} {Q : α → Prop} : RPost (R.err : R α) Q := fun _ _ h => by cases h
theorem RPost.fuel {α : Type} {Q : α → Prop} : RPost (R.fuel : R α) Q := fun _ _ h => by cases h
theorem RPost.ok {α : Type} {Q : α → Prop} {a : α} {rest : List ATok} (h : Q a) : RPost (R.ok a rest) Q :=
  fun _ _ he => by cases he; exact h

def TypesWf (types : TypeSet) : Prop :=
  (∀ kv ∈ types.structs, wfSpec kv.2 = true) ∧ (∀ kv ∈ types.taggedstructs, wfSpec kv.2 = true) ∧
  (∀ kv ∈ types.taggedunions, wfSpec kv.2 = true)

theorem lookupKV_mem {β : Type} {m : List (List Char × β)} {k : List Char} {v : β} (h : lookupKV m k = some v) :
    ∃ kv ∈ m, kv.2 = v := by
  unfold lookupKV at h
  cases hf : m.find? (fun kv => decide (kv.1 = k)) with
  | none => rw [hf] at h; cases h
  | some kv =>
    rw [hf] at h
    cases h
    exact ⟨kv, List.mem_of_find?_eq_some hf, rfl⟩

theorem mem_insertKV {β : Type} {k : List Char} {v : β} {m : List (List Char × β)} {x : List Char × β}
    (h : x ∈ insertKV k v m) : x = (k, v) ∨ x ∈ m := by
  unfold insertKV at h
  rcases List.mem_cons.1 h with h | h
  · exact .inl h
  · exact .inr (List.mem_filter.1 h).1

def wfTagged (l : List (Tagged Spec)) : Prop := nodupB (tagsOfT l) = true ∧ wfT l = true

theorem tagsOfT_filter (p : Tagged Spec → Bool) : ∀ (m : List (Tagged Spec)), nodupB (tagsOfT m) = true →
    nodupB (tagsOfT (m.filter p)) = true ∧ ∀ x, x ∈ tagsOfT (m.filter p) → x ∈ tagsOfT m
  | [], _ => ⟨rfl, fun _ h => h⟩
  | t :: rest, h => by
    rw [tagsOfT, nodupB_cons] at h
    obtain ⟨h1, h2⟩ := tagsOfT_filter p rest h.2
    rw [List.filter_cons]
    split
    · rw [tagsOfT, nodupB_cons, tagsOfT]
      refine ⟨⟨fun hm => h.1 (h2 _ hm), h1⟩, ?_⟩
      intro x hx
      rcases List.mem_cons.1 hx with rfl | hx
      · exact List.mem_cons_self ..
      · exact List.mem_cons_of_mem _ (h2 x hx)
    · rw [tagsOfT]
      exact ⟨h1, fun x hx => List.mem_cons_of_mem _ (h2 x hx)⟩

theorem tagsOfT_filter_ne (tag : List Char) : ∀ (m : List (Tagged Spec)),
    tag ∉ tagsOfT (m.filter (fun x => decide (x.tag ≠ tag)))
  | [] => by intro h; cases h
  | t :: rest => by
    rw [List.filter_cons]
    split
    · rename_i hne
      rw [tagsOfT]
      intro hm
      rcases List.mem_cons.1 hm with h | h
      · simp only [ne_eq, decide_not, Bool.not_eq_eq_eq_not, Bool.not_true, decide_eq_false_iff_not] at hne
        exact hne h.symm
      · exact tagsOfT_filter_ne tag rest h
    · exact tagsOfT_filter_ne tag rest

theorem wfT_filter (p : Tagged Spec → Bool) : ∀ (m : List (Tagged Spec)), wfT m = true → wfT (m.filter p) = true
  | [], _ => rfl
  | t :: rest, h => by
    rw [wfT] at h
    simp only [Bool.and_eq_true] at h
    rw [List.filter_cons]
    split
    · rw [wfT, h.1, wfT_filter p rest h.2]; rfl
    · exact wfT_filter p rest h.2

theorem insertTagged_wf {t : Tagged Spec} {m : List (Tagged Spec)} (hm : wfTagged m) (ht : wfSpec t.item = true) :
    wfTagged (insertTagged t m) := by
  unfold insertTagged
  refine ⟨?_, ?_⟩
  · rw [tagsOfT, nodupB_cons]
    exact ⟨tagsOfT_filter_ne t.tag m, (tagsOfT_filter _ m hm.1).1⟩
  · rw [wfT, ht, wfT_filter _ m hm.2]; rfl

theorem arrayDims_wf : ∀ (n : Nat) (depth levels : Nat) (base : Spec) (toks : List ATok), toks.length ≤ n →
    wfSpec base = true → RPost (arrayDims depth levels base toks) (fun sp => wfSpec sp = true)
  | 0, depth, levels, base, toks, h, hb => by
    cases toks with
    | nil => unfold arrayDims; exact RPost.ok hb
    | cons _ _ => simp at h
  | n + 1, depth, levels, base, toks, h, hb => by
    unfold arrayDims
    split
    · split
      · split
        · split
          · rename_i rest''
            simp only [List.length_cons] at h
            exact arrayDims_wf n _ _ _ rest'' (by omega) (by rw [wfSpec]; exact hb)
          · exact RPost.err
        · exact RPost.err
      · exact RPost.err
    · exact RPost.ok hb

theorem typeEnum_wf (types : TypeSet) (toks : List ATok) : RPost (typeEnum types toks) (fun r => wfSpec r.2 = true) := by
  unfold typeEnum
  dsimp only
  split
  · split
    · exact RPost.ok rfl
    · exact RPost.err
    · exact RPost.fuel
  · split
    · split
      · exact RPost.ok rfl
      · exact RPost.err
    · exact RPost.err

def WType (f : Nat) : Prop := ∀ types d tok toks, TypesWf types → RPost (type_ f types d tok toks) (fun r => wfSpec r.2 = true)
def WSLoop (f : Nat) : Prop := ∀ types d acc toks, TypesWf types → wfL acc = true →
  RPost (structLoop f types d acc toks) (fun items => wfL items = true)
def WTLoop (f : Nat) : Prop := ∀ types d ar acc toks, TypesWf types → wfTagged acc →
  RPost (taggedLoop f types d ar acc toks) wfTagged
def WTMem (f : Nat) : Prop := ∀ types d ar toks, TypesWf types → RPost (taggedMember f types d ar toks) (fun t => wfSpec t.item = true)
def WTDef (f : Nat) : Prop := ∀ types d toks, TypesWf types → RPost (taggedDef f types d toks) (fun sp => wfSpec sp = true)
def WMem (f : Nat) : Prop := ∀ types d toks, TypesWf types → RPost (member f types d toks) (fun sp => wfSpec sp = true)

theorem wmember_step (f : Nat) (ih : WType f) : WMem (f + 1) := by
  intro types d toks hw
  rw [member.eq_def]
  dsimp only
  split
  · exact RPost.err
  · rename_i tok rest
    have h1 := ih types d tok rest hw
    split
    · rename_i nm base rest1 heq
      exact arrayDims_wf rest1.length _ _ base rest1 (Nat.le_refl _) (h1 _ _ heq)
    · exact RPost.err
    · exact RPost.fuel

theorem wtaggedDef_step (f : Nat) (ih : WMem f) : WTDef (f + 1) := by
  intro types d toks hw
  rw [taggedDef.eq_def]
  dsimp only
  split
  · rename_i rest
    have h1 := ih types (d + 1) rest hw
    split
    · rename_i m rest1 heq
      split
      · split
        · exact RPost.ok (by rw [wfSpec]; exact h1 _ _ heq)
        · exact RPost.err
      · exact RPost.err
    · exact RPost.err
    · exact RPost.fuel
  · exact ih types d toks hw

theorem tagClose_wf (rep : Bool) (t : Tagged Spec) (rest : List ATok) (h : wfSpec t.item = true) :
    RPost (tagClose rep t rest) (fun t => wfSpec t.item = true) := by
  unfold tagClose
  split
  · split
    · split
      · exact RPost.ok h
      · exact RPost.err
    · exact RPost.err
  · exact RPost.ok h

theorem wtaggedMember_step (f : Nat) (ih : WTDef f) : WTMem (f + 1) := by
  intro types d ar toks hw
  rw [taggedMember.eq_def]
  dsimp only
  split
  · exact RPost.err
  · split
    · exact RPost.err
    · split
      · exact RPost.err
      · split
        · rename_i tg
          split
          · rename_i item rest1 heq
            refine tagClose_wf _ _ _ ?_
            dsimp only
            unfold tagInner at heq
            split at heq
            · cases heq; rfl
            · cases heq; rfl
            · exact ih types d _ hw _ _ heq
          · exact RPost.err
          · exact RPost.fuel
        · exact RPost.err

theorem wtaggedLoop_step (f : Nat) (ih1 : WTMem f) (ih2 : WTLoop f) : WTLoop (f + 1) := by
  intro types d ar acc toks hw hacc
  rw [taggedLoop.eq_def]
  dsimp only
  have h1 := ih1 types d ar toks hw
  split
  · rename_i m rest heq
    have hm := h1 _ _ heq
    split
    · split
      · exact RPost.ok (insertTagged_wf hacc hm)
      · exact ih2 types d ar (insertTagged m acc) _ hw (insertTagged_wf hacc hm)
    · exact RPost.err
  · exact RPost.err
  · exact RPost.fuel

theorem wstructLoop_step (f : Nat) (ih1 : WMem f) (ih2 : WSLoop f) : WSLoop (f + 1) := by
  intro types d acc toks hw hacc
  rw [structLoop.eq_def]
  dsimp only
  have h1 := ih1 types d toks hw
  split
  · rename_i m rest heq
    have hm := h1 _ _ heq
    have hma : wfL (m :: acc) = true := by rw [wfL, hm, hacc]; rfl
    split
    · split
      · exact RPost.ok (by rw [wfL_reverse]; exact hma)
      · exact ih2 types d (m :: acc) _ hw hma
    · exact RPost.err
  · exact RPost.err
  · exact RPost.fuel

theorem wtype_step (f : Nat) (ih1 : WSLoop f) (ih2 : WTLoop f) : WType (f + 1) := by
  intro types d tok toks hw
  rw [type_.eq_def]
  dsimp only
  split
  · split
    iterate 10 exact RPost.ok rfl
    · exact typeEnum_wf types toks
    · generalize optionalName toks = nt
      obtain ⟨name, toks'⟩ := nt
      dsimp only
      split
      · rename_i rest
        have h1 := ih1 types (d + 1) [] rest hw rfl
        split
        · rename_i items rest' heq
          exact RPost.ok (by dsimp only; rw [wfSpec]; simpa [wfL_reverse] using h1 _ _ heq)
        · exact RPost.err
        · exact RPost.fuel
      · split
        · split
          · rename_i n items heq
            obtain ⟨kv, hkv, he⟩ := lookupKV_mem heq
            split
            · exact RPost.ok (by dsimp only; rw [← he]; exact hw.1 kv hkv)
            · exact RPost.err
          · exact RPost.err
        · exact RPost.err
    · generalize optionalName toks = nt
      obtain ⟨name, toks'⟩ := nt
      dsimp only
      split
      · rename_i rest
        have h1 := ih2 types (d + 1) true [] rest hw ⟨rfl, rfl⟩
        split
        · rename_i items rest' heq
          have := h1 _ _ heq
          exact RPost.ok (by dsimp only; rw [wfSpec, this.1, this.2]; rfl)
        · exact RPost.err
        · exact RPost.fuel
      · split
        · split
          · rename_i n items heq
            obtain ⟨kv, hkv, he⟩ := lookupKV_mem heq
            split
            · exact RPost.ok (by dsimp only; rw [← he]; exact hw.2.1 kv hkv)
            · exact RPost.err
          · exact RPost.err
        · exact RPost.err
    · generalize optionalName toks = nt
      obtain ⟨name, toks'⟩ := nt
      dsimp only
      split
      · rename_i rest
        have h1 := ih2 types (d + 1) false [] rest hw ⟨rfl, rfl⟩
        split
        · rename_i items rest' heq
          have := h1 _ _ heq
          exact RPost.ok (by dsimp only; rw [wfSpec, this.1, this.2]; rfl)
        · exact RPost.err
        · exact RPost.fuel
      · split
        · split
          · rename_i n items heq
            obtain ⟨kv, hkv, he⟩ := lookupKV_mem heq
            split
            · exact RPost.ok (by dsimp only; rw [← he]; exact hw.2.2 kv hkv)
            · exact RPost.err
          · exact RPost.err
        · exact RPost.err
    · exact RPost.err
  · exact RPost.err

theorem all_wf : ∀ f, WType f ∧ WSLoop f ∧ WTLoop f ∧ WTMem f ∧ WTDef f ∧ WMem f
  | 0 => by
    refine ⟨?_, ?_, ?_, ?_, ?_, ?_⟩
    · intro types d tok toks _; unfold type_; exact RPost.fuel
    · intro types d acc toks _ _; unfold structLoop; exact RPost.fuel
    · intro types d ar acc toks _ _; unfold taggedLoop; exact RPost.fuel
    · intro types d ar toks _; unfold taggedMember; exact RPost.fuel
    · intro types d toks _; unfold taggedDef; exact RPost.fuel
    · intro types d toks _; unfold member; exact RPost.fuel
  | f + 1 =>
    have ⟨h1, h2, h3, h4, h5, h6⟩ := all_wf f
    ⟨wtype_step f h2 h3, wstructLoop_step f h6 h2, wtaggedLoop_step f h4 h3, wtaggedMember_step f h5,
     wtaggedDef_step f h6, wmember_step f h1⟩

def OptWf (o : Option Spec) : Prop := ∀ s, o = some s → wfSpec s = true

theorem typesWf_insert {types : TypeSet} (hw : TypesWf types) {name : List Char} {typ : Spec} (ht : wfSpec typ = true) :
    TypesWf { types with structs := insertKV name typ types.structs } ∧
    TypesWf { types with taggedstructs := insertKV name typ types.taggedstructs } ∧
    TypesWf { types with taggedunions := insertKV name typ types.taggedunions } ∧
    TypesWf { types with enums := insertKV name typ types.enums } := by
  refine ⟨⟨?_, hw.2.1, hw.2.2⟩, ⟨hw.1, ?_, hw.2.2⟩, ⟨hw.1, hw.2.1, ?_⟩, hw⟩
  · intro kv hkv
    rcases mem_insertKV hkv with rfl | h
    · exact ht
    · exact hw.1 kv h
  · intro kv hkv
    rcases mem_insertKV hkv with rfl | h
    · exact ht
    · exact hw.2.1 kv h
  · intro kv hkv
    rcases mem_insertKV hkv with rfl | h
    · exact ht
    · exact hw.2.2 kv h

theorem declStep_wf (fuel : Nat) (types : TypeSet) (ifdata : Option Spec) (tok : ATok) (rest : List ATok)
    (hw : TypesWf types) (ho : OptWf ifdata) :
    RPost (declStep fuel types ifdata tok rest) (fun r => TypesWf r.1 ∧ OptWf r.2) := by
  have hty := (all_wf fuel).1 types 0 tok rest hw
  unfold declStep
  split
  · split
    · rename_i tg rest1
      have h1 := (all_wf fuel).2.2.2.2.1 types 0 rest1 hw
      split
      · rename_i blk rest2 heq
        refine RPost.ok ⟨hw, ?_⟩
        dsimp only
        split
        · intro s hs; cases hs; exact h1 _ _ heq
        · exact ho
      · exact RPost.err
      · exact RPost.fuel
    · exact RPost.err
  · split
    · rename_i name typ rest1 heq
      exact RPost.ok ⟨(typesWf_insert hw (hty _ _ heq)).2.1, ho⟩
    · exact RPost.ok ⟨hw, ho⟩
    · exact RPost.err
    · exact RPost.fuel
  · split
    · rename_i name typ rest1 heq
      exact RPost.ok ⟨(typesWf_insert hw (hty _ _ heq)).2.2.1, ho⟩
    · exact RPost.ok ⟨hw, ho⟩
    · exact RPost.err
    · exact RPost.fuel
  · split
    · rename_i name typ rest1 heq
      exact RPost.ok ⟨(typesWf_insert hw (hty _ _ heq)).2.2.2, ho⟩
    · exact RPost.ok ⟨hw, ho⟩
    · exact RPost.err
    · exact RPost.fuel
  · split
    · rename_i name typ rest1 heq
      exact RPost.ok ⟨(typesWf_insert hw (hty _ _ heq)).1, ho⟩
    · exact RPost.ok ⟨hw, ho⟩
    · exact RPost.err
    · exact RPost.fuel
  iterate 10
    · split
      · exact RPost.ok ⟨hw, ho⟩
      · exact RPost.err
      · exact RPost.fuel
  · exact RPost.err

theorem declLoop_wf (fuel : Nat) : ∀ (n : Nat) (types : TypeSet) (ifdata : Option Spec) (toks : List ATok) (S : Spec),
    TypesWf types → OptWf ifdata → declLoop fuel n types ifdata toks = .ok S → wfSpec S = true
  | 0, _, _, _, _, _, _, h => by unfold declLoop at h; cases h
  | n + 1, types, ifdata, [], S, _, ho, h => by
    unfold declLoop at h
    cases ifdata with
    | none => cases h
    | some s0 => cases h; exact ho _ rfl
  | n + 1, types, ifdata, tok :: rest, S, hw, ho, h => by
    unfold declLoop at h
    have h1 := declStep_wf fuel types ifdata tok rest hw ho
    split at h
    · rename_i types' ifdata' rest1 heq
      have := h1 _ _ heq
      split at h
      · exact declLoop_wf fuel n types' ifdata' _ S this.1 this.2 h
      · cases h
    · cases h
    · cases h

/-- **every definition that `parse_a2ml` returns has pairwise different tags in every tagged struct / union** -/
theorem parseA2ml_wf (cs : List Char) (S : Spec) (h : parseA2ml cs = .ok S) : wfSpec S = true := by
  unfold parseA2ml at h
  split at h
  · unfold parseToks at h
    have hempty : TypesWf {} := by
      unfold TypesWf
      refine ⟨?_, ?_, ?_⟩ <;> (intro kv hk; cases hk)
    exact declLoop_wf _ _ _ _ _ S hempty (fun _ hk => by cases hk) h
  · cases h
  · cases h

theorem parseA2ml_tagsDistinct (cs : List Char) (S : Spec) (h : parseA2ml cs = .ok S) : TagsDistinct S :=
  tagsDistinct_of_wf S (parseA2ml_wf cs S h)

end A2l.Typed
