import A2lVerif.Lemmas.TypedTop
import A2lVerif.Lemmas.TypedParsed
/-!
# Typed IF_DATA access, part L: what the interpreter accepts has no repeated non-repeating member

Since `parse_ifdata_taggedstruct` rejects a second occurrence of a member that is not declared `( ... )*`
(`InvalidMultiplicityTooMany`), the shape of the interpreter's output (`Shape`, which records `TagsOk`) implies `Once`
for the output types: `shape_once`, and for the data of the root `noRepeatViolation_of_shape`.
-/
namespace A2l.Typed
open A2l.Tree A2l.Aml A2l.IfData

/-- a tagged item was built by the member `t` -/
def ShapeT1 (t : Tagged Spec) (it : TItem Gen) : Prop := ∃ d, it.data = makeBlock d it.line ∧ Shape t.item d

theorem mem_tagsOfT : ∀ {l : List (Tagged Spec)} {t : Tagged Spec}, t ∈ l → t.tag ∈ tagsOfT l
  | [], _, h => by cases h
  | t' :: rest, t, h => by
    rw [tagsOfT]
    rcases List.mem_cons.1 h with rfl | h
    · exact List.mem_cons_self ..
    · exact List.mem_cons_of_mem _ (mem_tagsOfT h)

theorem shapeT_member : ∀ {l : List (Tagged Spec)} {t : Tagged Spec} {it : TItem Gen}, nodupB (tagsOfT l) = true → t ∈ l →
    it.tag = t.tag → ShapeT l it → ShapeT1 t it
  | [], _, _, _, h, _, _ => by cases h
  | t' :: rest, t, it, hn, hm, ht, h => by
    rw [tagsOfT, nodupB_cons] at hn
    rw [ShapeT] at h
    split at h
    · rename_i ht'
      rcases List.mem_cons.1 hm with rfl | hm
      · exact h.2
      · exact absurd (mem_tagsOfT hm) (by rw [← ht, ← ht']; exact hn.1)
    · rename_i ht'
      rcases List.mem_cons.1 hm with rfl | hm
      · exact absurd ht.symm ht'
      · exact shapeT_member hn.2 hm ht h

theorem repOf_member : ∀ {l : List (Tagged Spec)} {t : Tagged Spec}, nodupB (tagsOfT l) = true → t ∈ l → repOf l t.tag = t.rep
  | [], _, _, h => by cases h
  | t' :: rest, t, hn, hm => by
    rw [tagsOfT, nodupB_cons] at hn
    unfold repOf lookupTagged
    rw [List.find?_cons]
    rcases List.mem_cons.1 hm with rfl | hm
    · simp
    · have hne : t'.tag ≠ t.tag := fun he => hn.1 (he ▸ mem_tagsOfT hm)
      simp only [hne, decide_false]
      have := repOf_member hn.2 hm
      unfold repOf lookupTagged at this
      exact this

theorem itemsOf_length_le : ∀ (its : List (TItem Gen)) (rep : List Char → Bool) (tag : List Char),
    TagsOk rep (its.map (·.tag)) → rep tag = false → (itemsOf its tag).length ≤ 1
  | [], _, _, _, _ => by simp [itemsOf]
  | it :: rest, rep, tag, h, hr => by
    unfold TagsOk at h
    rw [List.map_cons, List.pairwise_cons] at h
    have ih := itemsOf_length_le rest rep tag h.2 hr
    unfold itemsOf at ih ⊢
    rw [List.filter_cons]
    split
    · rename_i ht
      have ht' : it.tag = tag := by simpa using ht
      have : rest.filter (fun x => decide (x.tag = tag)) = [] := by
        rw [List.filter_eq_nil_iff]
        intro x hx hxt
        have hxt' : x.tag = tag := by simpa using hxt
        have := h.1 x.tag (List.mem_map.2 ⟨x, hx, rfl⟩) (by rw [ht', hxt'])
        rw [ht', hr] at this
        cases this
      rw [this]
      simp
    · exact ih

theorem tagItems_ok_inv {g : Gen} {its : List (TItem Gen)} (h : tagItems g = .ok its) :
    g = .taggedStruct its ∨ g = .taggedUnion its := by
  cases g <;> simp [tagItems] at h
  · exact .inl (by rw [h])
  · exact .inr (by rw [h])

/-- the data of a tagged item / of the root, given the statement for the item itself -/
theorem data_once {s : Spec} (hP : flat s = true → distinctTy (fixItem s) = true → ∀ g, Shape s g → Once (fixItem s) g)
    (hf : (isNone s || flat s) = true) (hd : distinctL (blockItems s) = true) {d : Gen} (hs : Shape s d) :
    OnceL (blockItems s) (dataItems d) := by
  cases hn : isNone s with
  | true =>
    cases s <;> simp [isNone] at hn
    rw [blockItems, OnceL]
    trivial
  | false =>
    rw [hn, Bool.false_or] at hf
    cases hst : isStruct s with
    | true =>
      cases s <;> simp [isStruct] at hst
      rename_i items
      have hfl : flatL items = true := by rw [flat] at hf; exact hf
      have hdd : distinctTy (fixItem (.struct items)) = true := by
        rw [fixItem, distinctTy, structItems_flat items hfl]
        rw [blockItems] at hd
        exact hd
      have ho := hP hf hdd d hs
      rw [Shape] at hs
      obtain ⟨gs, rfl, _⟩ := hs
      rw [fixItem, Once] at ho
      rw [blockItems, ← structItems_flat items hfl]
      exact ho 0 gs rfl
    | false =>
      have hb : blockItems s = [fixItem s] := by
        rw [blockItems_eq]
        cases s <;> simp_all [isStruct, isNone]
      have hdi : dataItems d = [d] := by
        have hns := shape_not_struct hst hs
        cases d <;> first | rfl | exact absurd rfl (hns _ _)
      rw [hb] at hd ⊢
      rw [distinctL] at hd
      simp only [Bool.and_eq_true] at hd
      rw [hdi, OnceL]
      exact ⟨hP hf hd.1 d hs, by rw [OnceL]; trivial⟩

theorem shape_once :
    (∀ s, flat s = true → distinctTy (fixItem s) = true → ∀ g, Shape s g → Once (fixItem s) g) ∧
    (∀ l, flatL l = true → distinctL (fixItems l) = true → ∀ gs, ShapeL l gs → OnceL (fixItems l) gs) ∧
    (∀ l, flatT l = true → distinctM (fixTagged l) = true → ∀ its : List (TItem Gen),
      (∀ t ∈ l, ∀ it ∈ itemsOf its t.tag, ShapeT1 t it) → (∀ t ∈ l, t.rep = false → (itemsOf its t.tag).length ≤ 1) →
      OnceM (fixTagged l) its) := by
  refine Spec.induct
    (P := fun s => flat s = true → distinctTy (fixItem s) = true → ∀ g, Shape s g → Once (fixItem s) g)
    (PL := fun l => flatL l = true → distinctL (fixItems l) = true → ∀ gs, ShapeL l gs → OnceL (fixItems l) gs)
    (PT := fun l => flatT l = true → distinctM (fixTagged l) = true → ∀ its : List (TItem Gen),
      (∀ t ∈ l, ∀ it ∈ itemsOf its t.tag, ShapeT1 t it) → (∀ t ∈ l, t.rep = false → (itemsOf its t.tag).length ≤ 1) →
      OnceM (fixTagged l) its)
    ?_ ?_ ?_ ?_ ?_ ?_ ?_ ?_ ?_ ?_ ?_ ?_ ?_ ?_
  · intro h; simp [flat] at h
  · intro w _ _ g _; rw [fixItem]; simp [Once]
  · intro _ _ g _; rw [fixItem]; simp [Once]
  · intro _ _ g _; rw [fixItem]; simp [Once]
  · intro of dim ih hf hd g h
    rw [fixItem_array] at hd ⊢
    rw [flat] at hf
    rw [Shape] at h
    cases hc : isChar of with
    | true => simp [Once]
    | false =>
      rw [hc] at h hf hd
      simp only [Bool.false_eq_true, if_false, Bool.false_or] at h hf hd ⊢
      obtain ⟨gs, rfl, _, _, hall⟩ := h
      rw [distinctTy] at hd
      rw [Once]
      intro gs' he x hx
      cases he
      exact ih (scalar_flat hf).1 hd x (hall x hx)
  · intro items _ _ g _; rw [fixItem]; simp [Once]
  · intro items ih hf hd g h
    rw [flat] at hf
    rw [fixItem, distinctTy, structItems_flat items hf] at hd
    rw [Shape] at h
    obtain ⟨gs, rfl, hl⟩ := h
    rw [fixItem, Once, structItems_flat items hf]
    intro line gs' he
    cases he
    exact ih hf hd gs hl
  · intro of ih hf hd g h
    rw [flat] at hf
    simp only [Bool.and_eq_true, Bool.not_eq_true'] at hf
    rw [fixItem_seq hf.1.1.1] at hd ⊢
    rw [distinctTy] at hd
    rw [Shape] at h
    obtain ⟨gs, rfl, hall⟩ := h
    rw [Once]
    intro gs' he x hx
    cases he
    exact ih hf.2 hd x (hall x hx)
  · intro items ih hf hd g h
    rw [flat] at hf
    rw [fixItem, distinctTy, tagsOfM_fixTagged] at hd
    simp only [Bool.and_eq_true] at hd
    rw [Shape] at h
    obtain ⟨its, rfl, htags, hall⟩ := h
    rw [fixItem, Once]
    intro its' he
    cases he
    refine ih hf hd.2 its ?_ ?_
    · intro t ht it hit
      have := List.mem_filter.1 hit
      exact shapeT_member hd.1 ht (by simpa using this.2) (hall it this.1)
    · intro t ht hrep
      exact itemsOf_length_le its (repOf items) t.tag htags (by rw [repOf_member hd.1 ht, hrep])
  · intro items ih hf hd g h
    rw [flat] at hf
    rw [fixItem, distinctTy, tagsOfM_fixTagged] at hd
    simp only [Bool.and_eq_true] at hd
    rw [Shape] at h
    obtain ⟨its, rfl, hlen, hall⟩ := h
    rw [fixItem, Once]
    intro its' he
    cases he
    refine ih hf hd.2 its ?_ ?_
    · intro t ht it hit
      have := List.mem_filter.1 hit
      exact shapeT_member hd.1 ht (by simpa using this.2) (hall it this.1)
    · intro t _ _
      exact Nat.le_trans (List.length_filter_le _ _) hlen
  · intro _ _ gs _; rw [fixItems, OnceL]; trivial
  · intro s rest ihs ihr hf hd gs h
    rw [flatL] at hf
    rw [fixItems, distinctL] at hd
    simp only [Bool.and_eq_true] at hf hd
    rw [ShapeL] at h
    obtain ⟨g, gs', rfl, hg, hr⟩ := h
    rw [fixItems, OnceL]
    exact ⟨ihs hf.1 hd.1 g hg, ihr hf.2 hd.2 gs' hr⟩
  · intro _ _ its _ _; rw [fixTagged, OnceM]; trivial
  · intro t rest iht ihr hf hd its hsh hlen
    rw [flatT] at hf
    rw [fixTagged, distinctM] at hd
    simp only [Bool.and_eq_true] at hf hd
    rw [fixTagged, OnceM]
    refine ⟨fun hrep => hlen t (List.mem_cons_self ..) hrep, ?_, ?_⟩
    · intro it hit line gs he
      obtain ⟨d, hd1, hd2⟩ := hsh t (List.mem_cons_self ..) it hit
      rw [hd1, makeBlock_eq] at he
      cases he
      exact data_once iht hf.1 hd.1 hd2
    · exact ihr hf.2 hd.2 its (fun t' ht' => hsh t' (List.mem_cons_of_mem _ ht'))
        (fun t' ht' => hlen t' (List.mem_cons_of_mem _ ht'))

/-- **what the interpreter accepted has no repeated non-repeating member** -/
theorem noRepeatViolation_of_shape (S : Spec) (hf : Flat S) (hd : TagsDistinct S) (d : Gen) (hs : Shape S d) :
    NoRepeatViolation S d :=
  data_once (s := S) (fun h1 h2 g hg => shape_once.1 S h1 h2 g hg) (by unfold Flat at hf; rw [hf, Bool.or_true]) hd hs

end A2l.Typed
