import A2lVerif.Lemmas.TypedOk
/-!
# Typed IF_DATA access, part D: `load (store v) = v` for well-typed values
-/
namespace A2l.Typed
open A2l.Aml A2l.IfData

/-! ## equations of the store functions -/

theorem storeItem_int (w : Nat) (v : TVal) (loc : Loc) : storeItem (.int w) v loc =
    match v with
    | .int i => .int w loc.offOf i loc.hexOf
    | _ => .none := by cases v <;> rfl
theorem storeItem_float (v : TVal) (loc : Loc) : storeItem .float v loc =
    match v with
    | .float txt => .float loc.offOf txt
    | _ => .none := by cases v <;> rfl
theorem storeItem_double (v : TVal) (loc : Loc) : storeItem .double v loc =
    match v with
    | .double txt => .double loc.offOf txt
    | _ => .none := by cases v <;> rfl
theorem storeItem_str (v : TVal) (loc : Loc) : storeItem .str v loc =
    match v with
    | .str s => .str loc.offOf s
    | _ => .none := by cases v <;> rfl
theorem storeItem_array (of : OTy) (dim : Nat) (v : TVal) (loc : Loc) : storeItem (.array of dim) v loc =
    match v with
    | .array vs => .array (storeList (storeItem of) (defLoc of) vs loc.listOf)
    | _ => .none := by cases v <;> rfl
theorem storeItem_enum (names : List (List Char)) (v : TVal) (loc : Loc) : storeItem (.enum names) v loc =
    match v with
    | .enum s => .enumItem loc.offOf s
    | _ => .none := by cases v <;> rfl
theorem storeItem_struct (items : List OTy) (v : TVal) (loc : Loc) : storeItem (.struct items) v loc =
    match v with
    | .struct info fs => .struct info.line (storeFields items fs info.locs)
    | _ => .none := by cases v <;> rfl
theorem storeItem_seq (of : OTy) (v : TVal) (loc : Loc) : storeItem (.seq of) v loc =
    match v with
    | .seq vs => .seq (storeList (storeItem of) (defLoc of) vs loc.listOf)
    | _ => .none := by cases v <;> rfl

theorem storeFields_nil (fs : List TVal) (locs : List Loc) : storeFields [] fs locs = [] := by rw [storeFields]

theorem storeFields_cons_tagged (u : Bool) (ms : List (OTag OTy)) (rest : List OTy) (fs : List TVal) (locs : List Loc) :
    storeFields (.tagged u ms :: rest) fs locs =
      (if u then Gen.taggedUnion (storeMembers ms fs) else Gen.taggedStruct (storeMembers ms fs)) ::
        storeFields rest (fs.drop ms.length) locs := by rw [storeFields]

theorem storeFields_cons_item (t : OTy) (ht : isTagged t = false) (rest : List OTy) (fs : List TVal) (locs : List Loc) :
    storeFields (t :: rest) fs locs =
      storeItem t (fs.headD (.opt none)) (locs.headD (defLoc t)) :: storeFields rest fs.tail locs.tail := by
  cases t <;> first | rfl | (simp [isTagged] at ht)

theorem storeMembers_cons (m : OTag OTy) (rest : List (OTag OTy)) (fs : List TVal) : storeMembers (m :: rest) fs =
    storeMember (storeFields m.items) m.tag m.isBlock (fs.headD (.opt none)) ++ storeMembers rest fs.tail := by
  rw [storeMembers]

/-! ## lists -/

theorem all2_length {okf : TVal → Loc → Bool} : ∀ {vs : List TVal} {ls : List Loc}, all2 okf vs ls = true → vs.length = ls.length
  | [], [], _ => rfl
  | [], _ :: _, h => by simp [all2] at h
  | _ :: _, [], h => by simp [all2] at h
  | v :: vs, l :: ls, h => by
    simp only [all2, Bool.and_eq_true] at h
    simp [all2_length h.2]

theorem loadArr_storeList {f : Gen → LRes (TVal × Loc)} {sf : TVal → Loc → Gen} {okf : TVal → Loc → Bool} (d : Loc)
    (h : ∀ v l, okf v l = true → f (sf v l) = .ok (v, l)) : ∀ (vs : List TVal) (ls : List Loc), all2 okf vs ls = true →
    loadArr f vs.length (storeList sf d vs ls) = .ok (vs.zip ls)
  | [], [], _ => rfl
  | [], _ :: _, h' => by simp [all2] at h'
  | _ :: _, [], h' => by simp [all2] at h'
  | v :: vs, l :: ls, h' => by
    simp only [all2, Bool.and_eq_true] at h'
    simp only [List.length_cons, storeList, loadArr, List.headD_cons, List.tail_cons, h v l h'.1,
      loadArr_storeList d h vs ls h'.2, LRes.ok_bind, LRes.pure_def, List.zip_cons_cons]

theorem mapL_storeList {f : Gen → LRes (TVal × Loc)} {sf : TVal → Loc → Gen} {okf : TVal → Loc → Bool} (d : Loc)
    (h : ∀ v l, okf v l = true → f (sf v l) = .ok (v, l)) : ∀ (vs : List TVal) (ls : List Loc), all2 okf vs ls = true →
    mapL f (storeList sf d vs ls) = .ok (vs.zip ls)
  | [], [], _ => rfl
  | [], _ :: _, h' => by simp [all2] at h'
  | _ :: _, [], h' => by simp [all2] at h'
  | v :: vs, l :: ls, h' => by
    simp only [all2, Bool.and_eq_true] at h'
    simp only [storeList, mapL, List.headD_cons, List.tail_cons, h v l h'.1,
      mapL_storeList d h vs ls h'.2, LRes.ok_bind, LRes.pure_def, List.zip_cons_cons]

theorem zip_fst {α β : Type} : ∀ {a : List α} {b : List β}, a.length = b.length → (a.zip b).map (·.1) = a
  | [], [], _ => rfl
  | [], _ :: _, h => by simp at h
  | _ :: _, [], h => by simp at h
  | x :: a, y :: b, h => by simp [zip_fst (a := a) (b := b) (by simpa using h)]

theorem zip_snd {α β : Type} : ∀ {a : List α} {b : List β}, a.length = b.length → (a.zip b).map (·.2) = b
  | [], [], _ => rfl
  | [], _ :: _, h => by simp at h
  | _ :: _, [], h => by simp at h
  | x :: a, y :: b, h => by simp [zip_snd (a := a) (b := b) (by simpa using h)]

theorem mapL_map_ok {α : Type} {f : α → LRes TVal} {g : TVal → α} : ∀ (vs : List TVal), (∀ v ∈ vs, f (g v) = .ok v) →
    mapL f (vs.map g) = .ok vs
  | [], _ => rfl
  | v :: vs, h => by
    simp only [List.map_cons, mapL, h v (List.mem_cons_self ..),
      mapL_map_ok vs (fun w hw => h w (List.mem_cons_of_mem _ hw)), LRes.ok_bind, LRes.pure_def]

/-! ## tagged members -/

theorem itemsOf_append (a b : List (TItem Gen)) (tag : List Char) : itemsOf (a ++ b) tag = itemsOf a tag ++ itemsOf b tag := by
  simp [itemsOf]

theorem itemsOf_none (a : List (TItem Gen)) (tag : List Char) (h : ∀ it ∈ a, it.tag ≠ tag) : itemsOf a tag = [] := by
  unfold itemsOf
  rw [List.filter_eq_nil_iff]
  intro it hit
  simpa using h it hit

theorem itemsOf_all (a : List (TItem Gen)) (tag : List Char) (h : ∀ it ∈ a, it.tag = tag) : itemsOf a tag = a := by
  unfold itemsOf
  rw [List.filter_eq_self]
  intro it hit
  simpa using h it hit

theorem hasTag_eq (items : List (TItem Gen)) (tag : List Char) : hasTag items tag = !(itemsOf items tag).isEmpty := by
  unfold hasTag itemsOf
  induction items with
  | nil => rfl
  | cons it rest ih =>
    simp only [List.any_cons, List.filter_cons]
    by_cases h : it.tag = tag
    · simp [h]
    · simp [h, ih]

theorem mkItem_tag (sf : List TVal → List Loc → List Gen) (tag : List Char) (b : Bool) (v : TVal) : (mkItem sf tag b v).tag = tag := by
  unfold mkItem
  cases v <;> rfl

theorem storeMember_tag (sf : List TVal → List Loc → List Gen) (tag : List Char) (b : Bool) (f : TVal) :
    ∀ it ∈ storeMember sf tag b f, it.tag = tag := by
  intro it hit
  unfold storeMember at hit
  cases f with
  | opt o =>
    cases o with
    | none => cases hit
    | some v =>
      dsimp only at hit
      rw [List.mem_singleton] at hit
      rw [hit, mkItem_tag]
  | multi vs =>
    dsimp only at hit
    obtain ⟨v, _, rfl⟩ := List.mem_map.1 hit
    rw [mkItem_tag]
  | _ => cases hit

theorem storeMembers_tags : ∀ (ms : List (OTag OTy)) (fs : List TVal), ∀ it ∈ storeMembers ms fs, it.tag ∈ tagsOfM ms
  | [], fs, it, hit => by rw [storeMembers] at hit; cases hit
  | m :: rest, fs, it, hit => by
    rw [storeMembers_cons] at hit
    rw [tagsOfM]
    rcases List.mem_append.1 hit with h | h
    · rw [storeMember_tag _ _ _ _ it h]; exact List.mem_cons_self ..
    · exact List.mem_cons_of_mem _ (storeMembers_tags rest fs.tail it h)

theorem nodupB_cons (x : List Char) (xs : List (List Char)) : nodupB (x :: xs) = true ↔ x ∉ xs ∧ nodupB xs = true := by
  simp [nodupB]

/-- loading the member whose items are exactly what `storeMember` produced -/
theorem loadMember_storeMember {lf : List Gen → LRes (List TVal × List Loc)} {sf : List TVal → List Loc → List Gen}
    {okf : List TVal → List Loc → Bool} (h : ∀ fs locs, okf fs locs = true → lf (sf fs locs) = .ok (fs, locs))
    (tag : List Char) (rep b : Bool) (f : TVal) (hf : okMemberWith okf rep f = true) (items : List (TItem Gen))
    (hitems : itemsOf items tag = storeMember sf tag b f) : loadMember lf tag rep items = .ok f := by
  have hblock : ∀ v, okBlockWith okf v = true →
      loadBlockWith lf (mkItem sf tag b v).data (mkItem sf tag b v).uid (mkItem sf tag b v).startOff (mkItem sf tag b v).endOff = .ok v := by
    intro v hv
    cases v with
    | struct info fs =>
      simp only [okBlockWith] at hv
      simp only [mkItem, loadBlockWith, h fs info.locs hv, LRes.ok_bind, LRes.pure_def]
    | _ => simp [okBlockWith] at hv
  unfold loadMember
  rw [hasTag_eq, hitems]
  cases f with
  | opt o =>
    cases o with
    | none =>
      simp only [okMemberWith, Bool.not_eq_true'] at hf
      simp [hf, storeMember]
    | some v =>
      simp only [okMemberWith, Bool.and_eq_true, Bool.not_eq_true'] at hf
      simp only [hf.1, storeMember, List.isEmpty_cons, Bool.not_false, if_true, hblock v hf.2, LRes.ok_bind, LRes.pure_def]
      rfl
  | multi vs =>
    simp only [okMemberWith, Bool.and_eq_true, List.all_eq_true] at hf
    simp only [hf.1, if_true, storeMember]
    rw [mapL_map_ok (f := fun it : TItem Gen => loadBlockWith lf it.data it.uid it.startOff it.endOff) vs (fun v hv => hblock v (hf.2 v hv))]
    rfl
  | _ => simp [okMemberWith] at hf

/-! ## the theorem -/

theorem load_store_rec :
    (∀ t, distinctTy t = true → ∀ v l, okItem t v l = true → loadItem t (storeItem t v l) = .ok (v, l)) ∧
    (∀ ts, distinctL ts = true → ∀ fs locs, okFields ts fs locs = true → loadFields ts (storeFields ts fs locs) = .ok (fs, locs)) ∧
    (∀ ms, distinctM ms = true → nodupB (tagsOfM ms) = true → ∀ fs pre g, okMembers ms fs = true →
      (∀ it ∈ pre, it.tag ∉ tagsOfM ms) → tagItems g = .ok (pre ++ storeMembers ms fs) →
      loadMembers ms g = .ok (fs.take ms.length)) := by
  refine OTy.induct'
    (P := fun t => distinctTy t = true → ∀ v l, okItem t v l = true → loadItem t (storeItem t v l) = .ok (v, l))
    (PL := fun ts => distinctL ts = true → ∀ fs locs, okFields ts fs locs = true →
      loadFields ts (storeFields ts fs locs) = .ok (fs, locs))
    (PM := fun ms => distinctM ms = true → nodupB (tagsOfM ms) = true → ∀ fs pre g, okMembers ms fs = true →
      (∀ it ∈ pre, it.tag ∉ tagsOfM ms) → tagItems g = .ok (pre ++ storeMembers ms fs) →
      loadMembers ms g = .ok (fs.take ms.length))
    ?_ ?_ ?_ ?_ ?_ ?_ ?_ ?_ ?_ ?_ ?_ ?_ ?_ ?_ ?_
  · intro _ v l h; simp [okItem] at h
  · intro w _ v l h
    rw [okItem_int] at h
    cases v <;> cases l <;> simp at h
    simp [storeItem_int, loadItem_int, Loc.offOf, Loc.hexOf]
  · intro _ v l h
    rw [okItem_float] at h
    cases v <;> cases l <;> simp at h
    simp [storeItem_float, loadItem_float, Loc.offOf]
  · intro _ v l h
    rw [okItem_double] at h
    cases v <;> cases l <;> simp at h
    simp [storeItem_double, loadItem_double, Loc.offOf]
  · intro _ v l h
    rw [okItem_str] at h
    cases v <;> cases l <;> simp at h
    simp [storeItem_str, loadItem_str, Loc.offOf]
  · intro of dim ih hd v l h
    rw [distinctTy] at hd
    rw [okItem_array] at h
    cases v <;> cases l <;> simp at h
    rename_i vs ls
    obtain ⟨hlen, hall⟩ := h
    have hl := all2_length hall
    rw [storeItem_array, loadItem_array]
    simp only [Loc.listOf]
    rw [← hlen, loadArr_storeList (okf := okItem of) (defLoc of) (ih hd) vs ls hall]
    simp [zip_fst hl, zip_snd hl]
  · intro names _ v l h
    rw [okItem_enum] at h
    cases v <;> cases l <;> simp at h
    simp [storeItem_enum, loadItem_enum, Loc.offOf, h]
  · intro items ih hd v l h
    rw [distinctTy] at hd
    rw [okItem_struct] at h
    cases v <;> cases l <;> simp at h
    rename_i info fs n
    obtain ⟨⟨⟨⟨h1, h2⟩, h3⟩, h4⟩, h5⟩ := h
    rw [storeItem_struct, loadItem_struct]
    simp only [ih hd fs info.locs h5, LRes.ok_bind, LRes.pure_def]
    cases info
    simp_all
  · intro of ih hd v l h
    rw [distinctTy] at hd
    rw [okItem_seq] at h
    cases v <;> cases l <;> simp at h
    rename_i vs ls
    have hl := all2_length h
    rw [storeItem_seq, loadItem_seq]
    simp only [Loc.listOf]
    rw [mapL_storeList (okf := okItem of) (defLoc of) (ih hd) vs ls h]
    simp [zip_fst hl, zip_snd hl]
  · intro u ms _ _ v l h; simp [okItem] at h
  · intro _ fs locs h
    rw [okFields_nil] at h
    simp only [Bool.and_eq_true, List.isEmpty_iff] at h
    rw [storeFields_nil, loadFields, h.1, h.2]
    rfl
  · intro u ms rest ihm ihr hd fs locs h
    rw [distinctL, distinctTy] at hd
    simp only [Bool.and_eq_true] at hd
    rw [okFields_cons_tagged] at h
    simp only [Bool.and_eq_true] at h
    rw [storeFields_cons_tagged, loadFields_cons_tagged]
    simp only [List.headD_cons, List.tail_cons]
    rw [ihm hd.1.2 hd.1.1 fs [] _ h.1 (by intro it hit; cases hit) (by cases u <;> rfl)]
    simp only [LRes.ok_bind, ihr hd.2 _ locs h.2, LRes.pure_def, List.take_append_drop]
  · intro t rest ht iht ihr hd fs locs h
    rw [distinctL] at hd
    simp only [Bool.and_eq_true] at hd
    rw [okFields_cons_item t ht] at h
    cases fs with
    | nil => simp at h
    | cons v fs' =>
      cases locs with
      | nil => simp at h
      | cons l locs' =>
        simp only [Bool.and_eq_true] at h
        rw [storeFields_cons_item t ht, loadFields_cons_item t ht]
        simp only [List.headD_cons, List.tail_cons, iht hd.1 v l h.1, ihr hd.2 fs' locs' h.2, LRes.ok_bind, LRes.pure_def]
  · intro _ _ fs pre g _ _ _
    rw [loadMembers]
    rfl
  · intro m rest ihm ihr hd hn fs pre g hok hpre hg
    rw [distinctM] at hd
    simp only [Bool.and_eq_true] at hd
    rw [tagsOfM, nodupB_cons] at hn
    rw [okMembers_cons] at hok
    cases fs with
    | nil => simp at hok
    | cons f fs' =>
      simp only [Bool.and_eq_true] at hok
      rw [storeMembers_cons] at hg
      simp only [List.headD_cons, List.tail_cons] at hg
      rw [loadMembers, hg]
      simp only [LRes.ok_bind]
      have hitems : itemsOf (pre ++ (storeMember (storeFields m.items) m.tag m.isBlock f ++ storeMembers rest fs')) m.tag =
          storeMember (storeFields m.items) m.tag m.isBlock f := by
        rw [itemsOf_append, itemsOf_append, itemsOf_none pre, itemsOf_all _ _ (storeMember_tag _ _ _ _), itemsOf_none]
        · simp
        · intro it hit he
          exact hn.1 (he ▸ storeMembers_tags rest fs' it hit)
        · intro it hit he
          exact hpre it hit (by rw [tagsOfM, he]; exact List.mem_cons_self ..)
      rw [loadMember_storeMember (okf := okFields m.items) (sf := storeFields m.items) (ihm hd.1) m.tag m.rep m.isBlock f hok.1 _ hitems]
      simp only [LRes.ok_bind]
      rw [ihr hd.2 hn.2 fs' (pre ++ storeMember (storeFields m.items) m.tag m.isBlock f) g hok.2 ?_ (by rw [hg, List.append_assoc])]
      · simp
      · intro it hit
        rcases List.mem_append.1 hit with h | h
        · intro hmem
          exact hpre it h (by rw [tagsOfM]; exact List.mem_cons_of_mem _ hmem)
        · rw [storeMember_tag _ _ _ _ it h]
          exact hn.1

/-- storing a well-typed value and loading it back with any layout gives the value with that layout -/
theorem typedLoadAt_typedStore_layout (S : Spec) (v : TVal) (hd : TagsDistinct S) (hv : TypedOk S v) (u so eo : Nat) :
    typedLoadAt S (typedStore S v) u so eo = .ok (v.withLayout u so eo) := by
  unfold TypedOk at hv
  cases v with
  | struct info fs =>
    simp only [okBlockWith] at hv
    simp only [typedLoadAt, typedStore, loadBlockWith, load_store_rec.2.1 _ hd fs info.locs hv, LRes.ok_bind, LRes.pure_def,
      TVal.withLayout]
  | _ => simp [okBlockWith] at hv

theorem withLayout_self (v : TVal) : v.withLayout v.uid v.startOff v.endOff = v := by
  cases v <;> rfl

theorem typedLoadAt_typedStore (S : Spec) (v : TVal) (hd : TagsDistinct S) (hv : TypedOk S v) :
    typedLoadAt S (typedStore S v) v.uid v.startOff v.endOff = .ok v := by
  rw [typedLoadAt_typedStore_layout S v hd hv, withLayout_self]

end A2l.Typed
