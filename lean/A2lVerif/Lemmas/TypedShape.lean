import A2lVerif.Lemmas.IfDataVals
import A2lVerif.Lemmas.TypedDefs
/-!
# Typed IF_DATA access, part E: the shape of what the interpreter of C18 stores

`Shape sp g`: the generic value `g` is what `parse_ifdata_item` builds for the definition `sp` (read off the code:
one variant per kind of type; an array has at most `dim` elements (the loop stops after an element that consumed
nothing) and exactly `dim` when the elements are scalars (they always consume a token); a struct has line 0 and one
item per member; the tags of the items of a tagged struct are pairwise different except for `( ... )*` members
(`InvalidMultiplicityTooMany` otherwise); a tagged item was parsed with the first member of that tag, has the
member's block-ness, and its data is `parse_ifdata_make_block` of the member's data with the item's own line). `itemP_shape`: every value that the
interpreter returns has the shape of the definition.
-/
namespace A2l.Typed
open A2l.Tree A2l.Aml A2l.IfData

/-- a type whose interpretation always consumes a token: the integer types, `float`, `double`, an enum -/
def isScalarS : Spec → Bool
  | .int _ => true
  | .float => true
  | .double => true
  | .enum _ => true
  | _ => false

mutual
def Shape : Spec → Gen → Prop
  | .none, g => g = .none
  | .int w, g => ∃ off v hex, g = .int w off v hex
  | .float, g => ∃ off t, g = .float off t
  | .double, g => ∃ off t, g = .double off t
  | .array of dim, g =>
    if isChar of then ∃ off s, g = .str off s
    else ∃ gs, g = .array gs ∧ gs.length ≤ dim ∧ (isScalarS of = true → gs.length = dim) ∧ ∀ x ∈ gs, Shape of x
  | .enum items, g => ∃ off s, g = .enumItem off s ∧ (lookupKV items s).isSome = true
  | .struct items, g => ∃ gs, g = .struct 0 gs ∧ ShapeL items gs
  | .seq of, g => ∃ gs, g = .seq gs ∧ ∀ x ∈ gs, Shape of x
  | .taggedStruct items, g =>
    ∃ its, g = .taggedStruct its ∧ TagsOk (repOf items) (its.map (·.tag)) ∧ ∀ it ∈ its, ShapeT items it
  | .taggedUnion items, g => ∃ its, g = .taggedUnion its ∧ its.length ≤ 1 ∧ ∀ it ∈ its, ShapeT items it
def ShapeL : List Spec → List Gen → Prop
  | [], gs => gs = []
  | s :: rest, gs => ∃ g gs', gs = g :: gs' ∧ Shape s g ∧ ShapeL rest gs'
def ShapeT : List (Tagged Spec) → TItem Gen → Prop
  | [], _ => False
  | t :: rest, it =>
    if t.tag = it.tag then t.isBlock = it.isBlock ∧ ∃ d, it.data = makeBlock d it.line ∧ Shape t.item d
    else ShapeT rest it
end

variable {e : Env}

/-- every value that `p` returns satisfies `Q` -/
def Post (e : Env) (p : PM Gen) (Q : Gen → Prop) : Prop := ∀ s g s', p e s = .ok g s' → Q g

/-- every parser that the dispatch table returns for a tag builds values that make a tagged item of that tag fit -/
def PostD (e : Env) (d : List Char → Option (Bool × (Ctx → PM Gen))) (Q : List Char → Bool → Gen → Prop) : Prop :=
  ∀ tag b p, d tag = some (b, p) → ∀ ctx, Post e (p ctx) (Q tag b)

theorem arrayLoop_post {p : PM Gen} {Q : Gen → Prop} (hp : Post e p Q) :
    ∀ (n : Nat) (s : PState) (vs : List Gen) (s' : PState), arrayLoop p n e s = .ok vs s' → vs.length ≤ n ∧ ∀ v ∈ vs, Q v
  | 0, s, vs, s', h => by
    rw [arrayLoop] at h
    obtain ⟨rfl, rfl⟩ := pure_ok h
    exact ⟨Nat.le_refl _, by intro v hv; cases hv⟩
  | n + 1, s, vs, s', h => by
    rw [arrayLoop] at h
    simp only [getTokenpos_bind] at h
    obtain ⟨v, s1, h1, h2⟩ := bind_ok h
    simp only [getTokenpos_bind] at h2
    split at h2
    · obtain ⟨rfl, rfl⟩ := pure_ok h2
      refine ⟨by simp, ?_⟩
      intro x hx
      rw [List.mem_singleton] at hx
      subst hx
      exact hp s x s1 h1
    · obtain ⟨vs', s2, h3, h4⟩ := bind_ok h2
      obtain ⟨rfl, rfl⟩ := pure_ok h4
      obtain ⟨hl, hq⟩ := arrayLoop_post hp n s1 vs' s2 h3
      refine ⟨by simp only [List.length_cons]; omega, ?_⟩
      intro x hx
      rcases List.mem_cons.1 hx with rfl | hx
      · exact hp s x s1 h1
      · exact hq x hx

/-- when every element consumes input, the loop runs `n` times -/
theorem arrayLoop_full {p : PM Gen} (hc : ∀ s g s', p e s = .ok g s' → s'.pos ≠ s.pos) :
    ∀ (n : Nat) (s : PState) (vs : List Gen) (s' : PState), arrayLoop p n e s = .ok vs s' → vs.length = n
  | 0, s, vs, s', h => by
    rw [arrayLoop] at h
    obtain ⟨rfl, rfl⟩ := pure_ok h
    rfl
  | n + 1, s, vs, s', h => by
    rw [arrayLoop] at h
    simp only [getTokenpos_bind] at h
    obtain ⟨v, s1, h1, h2⟩ := bind_ok h
    simp only [getTokenpos_bind] at h2
    split at h2
    · rename_i hpos
      exact absurd hpos (hc s v s1 h1)
    · obtain ⟨vs', s2, h3, h4⟩ := bind_ok h2
      obtain ⟨rfl, rfl⟩ := pure_ok h4
      simp [arrayLoop_full hc n s1 vs' s2 h3]

theorem rel_cons_ne {f32 : List Char → Option (List Char)} {s s' : PState} {w : WV} {ws : List WV}
    (h : Rel e f32 s s' (w :: ws)) : s'.pos ≠ s.pos := by
  intro he
  have h3 := h.2.2
  rw [he, span_self] at h3
  cases h3

theorem scalar_consumes {α} {f32 : List Char → Option (List Char)} {m : PM α} {g : α → Nat → Gen} {w : α → WV}
    {s : PState} {r : Gen} {s' : PState} (hm : ∀ v s1, m e s = .ok v s1 → Rel e f32 s s1 [w v])
    (h : (m >>= fun v => getLineOffset >>= fun off => pure (g v off)) e s = .ok r s') : s'.pos ≠ s.pos := by
  obtain ⟨v, s1, h1, h2⟩ := bind_ok h
  obtain ⟨off, h2⟩ := lineOffset_ok h2
  obtain ⟨rfl, rfl⟩ := pure_ok h2
  exact rel_cons_ne (hm v s1 h1)

/-- the interpretation of a scalar type consumes a token -/
theorem itemP_scalar_consumes (f32 : List Char → Option (List Char)) (sp : Spec) (hsc : isScalarS sp = true) (ctx : Ctx)
    (s : PState) (g : Gen) (s' : PState) (h : itemP f32 sp ctx e s = .ok g s') : s'.pos ≠ s.pos := by
  cases sp with
  | int w =>
    rw [itemP] at h
    obtain ⟨⟨v, hex⟩, s1, h1, h2⟩ := bind_ok h
    obtain ⟨off, h2⟩ := lineOffset_ok h2
    obtain ⟨rfl, rfl⟩ := pure_ok h2
    exact rel_cons_ne (getInteger_ok f32 h1)
  | float =>
    rw [itemP] at h
    exact scalar_consumes (f32 := f32) (g := fun v off => Gen.float off v) (w := fun v => .f32 v) (fun v s1 h1 => getFloat_ok f32 h1) h
  | double =>
    rw [itemP] at h
    exact scalar_consumes (f32 := f32) (g := fun v off => Gen.double off v) (w := fun v => .f64 v) (fun v s1 h1 => getDouble_ok f32 h1) h
  | enum items =>
    rw [itemP] at h
    obtain ⟨v, s1, h1, h2⟩ := bind_ok h
    obtain ⟨off, h2⟩ := lineOffset_ok h2
    split at h2
    · obtain ⟨rfl, rfl⟩ := pure_ok h2
      exact rel_cons_ne (getIdentifier_ok f32 h1)
    · cases h2
  | _ => simp [isScalarS] at hsc

theorem seqLoop_post {p : PM Gen} {Q : Gen → Prop} (hp : Post e p Q) :
    ∀ (fuel : Nat) (acc : List Gen) (s : PState) (vs : List Gen) (s' : PState), (∀ v ∈ acc, Q v) →
    seqLoop p fuel acc e s = .ok vs s' → ∀ v ∈ vs, Q v
  | 0, _, _, _, _, _, h => by cases h
  | fuel + 1, acc, s, vs, s', hacc, h => by
    rw [seqLoop] at h
    simp only [getTokenpos_bind] at h
    have hstop : ∀ s1 : PState, ((do setTokenpos s.pos; pure acc.reverse : PM (List Gen)) e s1 = .ok vs s') →
        ∀ v ∈ vs, Q v := by
      intro s1 h1
      simp only [setTokenpos_bind] at h1
      obtain ⟨rfl, rfl⟩ := pure_ok h1
      intro v hv
      exact hacc v (List.mem_reverse.1 hv)
    rcases attempt_ok h with ⟨v, s1, h1, h2⟩ | ⟨d, s1, h1, h2⟩
    · simp only [getTokenpos_bind] at h2
      split at h2
      · exact hstop s1 h2
      · refine seqLoop_post hp fuel (v :: acc) s1 vs s' ?_ h2
        intro x hx
        rcases List.mem_cons.1 hx with rfl | hx
        · exact hp s x s1 h1
        · exact hacc x hx
    · exact hstop s1 h2

theorem taggedItem_post {d : List Char → Option (Bool × (Ctx → PM Gen))} {Q : List Char → Bool → Gen → Prop}
    (hd : PostD e d Q) {ctx : Ctx} {s : PState} {it : TItem Gen} {s' : PState}
    (h : taggedItem d ctx e s = .ok (some it) s') : ∃ g, it.data = makeBlock g it.line ∧ Q it.tag it.isBlock g := by
  unfold taggedItem at h
  simp only [getTokenpos_bind, getEnv_bind] at h
  obtain ⟨u, s1, h1, h2⟩ := bind_ok h
  have hreset : ∀ s2 : PState, ((do setTokenpos s.pos; pure (none : Option (TItem Gen)) : PM _) e s2 = .ok (some it) s') →
      ∃ g, it.data = makeBlock g it.line ∧ Q it.tag it.isBlock g := by
    intro s2 h3
    simp only [setTokenpos_bind] at h3
    obtain ⟨h4, _⟩ := pure_ok h3
    cases h4
  rcases attempt_ok h2 with ⟨bc, s2, h3, h4⟩ | ⟨d', s2, h3, h4⟩
  · cases bc with
    | comment tok off => exact hreset s2 h4
    | none => exact hreset s2 h4
    | block tok isBlock startOff =>
      dsimp only at h4
      cases hdt : d tok.text with
      | none => rw [hdt] at h4; exact hreset s2 h4
      | some bp =>
        obtain ⟨b, p⟩ := bp
        rw [hdt] at h4
        dsimp only at h4
        split at h4
        · exact hreset s2 h4
        · rename_i hb
          simp only [getNextId_bind] at h4
          obtain ⟨data, s3, h5, h6⟩ := bind_ok h4
          obtain ⟨endOff, s4, h7, h8⟩ := bind_ok h6
          obtain ⟨h9, _⟩ := pure_ok h8
          cases h9
          have hbb : b = isBlock := by simpa using hb
          exact ⟨data, rfl, hbb ▸ hd _ _ _ hdt _ _ _ _ h5⟩
  · exact hreset s2 h4

theorem tsLoop_post {d : List Char → Option (Bool × (Ctx → PM Gen))} {Q : List Char → Bool → Gen → Prop}
    (hd : PostD e d Q) (rep : List Char → Bool) (ctx : Ctx) : ∀ (fuel : Nat) (acc : List (TItem Gen)) (s : PState)
    (vs : List (TItem Gen)) (s' : PState), (∀ it ∈ acc, ∃ g, it.data = makeBlock g it.line ∧ Q it.tag it.isBlock g) →
    tsLoop d rep ctx fuel acc e s = .ok vs s' → ∀ it ∈ vs, ∃ g, it.data = makeBlock g it.line ∧ Q it.tag it.isBlock g
  | 0, _, _, _, _, _, h => by cases h
  | fuel + 1, acc, s, vs, s', hacc, h => by
    rw [tsLoop] at h
    obtain ⟨r, s1, h1, h2⟩ := bind_ok h
    cases r with
    | none =>
      obtain ⟨rfl, rfl⟩ := pure_ok h2
      intro it hit
      exact hacc it (List.mem_reverse.1 hit)
    | some it =>
      dsimp only at h2
      split at h2
      · cases h2
      · refine tsLoop_post hd rep ctx fuel (it :: acc) s1 vs s' ?_ h2
        intro x hx
        rcases List.mem_cons.1 hx with rfl | hx
        · exact taggedItem_post hd h1
        · exact hacc x hx

/-- the postcondition of the parser that `dispatch` returns for a tag -/
def QT (items : List (Tagged Spec)) (tag : List Char) (b : Bool) (g : Gen) : Prop :=
  ∀ it : TItem Gen, it.tag = tag → it.isBlock = b → it.data = makeBlock g it.line → ShapeT items it

theorem scalar_post {α} {m : PM α} {g : α → Nat → Gen} {Q : Gen → Prop} {s : PState} {r : Gen} {s' : PState}
    (hg : ∀ v off, Q (g v off))
    (h : (m >>= fun v => getLineOffset >>= fun off => pure (g v off)) e s = .ok r s') : Q r := by
  obtain ⟨v, s1, h1, h2⟩ := bind_ok h
  obtain ⟨off, h2⟩ := lineOffset_ok h2
  obtain ⟨rfl, rfl⟩ := pure_ok h2
  exact hg v off

mutual
theorem itemP_shape (f32 : List Char → Option (List Char)) : ∀ (sp : Spec) (ctx : Ctx), Post e (itemP f32 sp ctx) (Shape sp)
  | .none, ctx => by
    intro s g s' h
    rw [itemP] at h
    obtain ⟨rfl, rfl⟩ := pure_ok h
    rw [Shape]
  | .int w, ctx => by
    intro s g s' h
    rw [itemP] at h
    obtain ⟨⟨v, hex⟩, s1, h1, h2⟩ := bind_ok h
    obtain ⟨off, h2⟩ := lineOffset_ok h2
    obtain ⟨rfl, rfl⟩ := pure_ok h2
    rw [Shape]
    exact ⟨off, v, hex, rfl⟩
  | .float, ctx => by
    intro s g s' h
    rw [itemP] at h
    refine scalar_post (g := fun v off => Gen.float off v) (fun v off => ?_) h
    rw [Shape]
    exact ⟨off, v, rfl⟩
  | .double, ctx => by
    intro s g s' h
    rw [itemP] at h
    refine scalar_post (g := fun v off => Gen.double off v) (fun v off => ?_) h
    rw [Shape]
    exact ⟨off, v, rfl⟩
  | .array of dim, ctx => by
    intro s g s' h
    rw [itemP.eq_def] at h
    dsimp only at h
    split at h
    · refine scalar_post (g := fun v off => Gen.str off v) (fun v off => ?_) h
      rw [Shape]
      simp only [isChar, if_true]
      exact ⟨off, v, rfl⟩
    · rename_i hne
      obtain ⟨vs, s1, h1, h2⟩ := bind_ok h
      obtain ⟨rfl, rfl⟩ := pure_ok h2
      obtain ⟨hl, hq⟩ := arrayLoop_post (itemP_shape f32 of ctx) dim s vs s1 h1
      have hfull : isScalarS of = true → vs.length = dim := fun hsc =>
        arrayLoop_full (fun s0 g0 s0' h0 => itemP_scalar_consumes f32 of hsc ctx s0 g0 s0' h0) dim s vs s1 h1
      rw [Shape]
      have hc : isChar of = false := by
        cases of <;> try rfl
        rename_i w
        cases w with
        | zero => exact absurd rfl (hne)
        | succ n => rfl
      simp only [hc, Bool.false_eq_true, if_false]
      exact ⟨vs, rfl, hl, hfull, hq⟩
  | .enum items, ctx => by
    intro s g s' h
    rw [itemP] at h
    obtain ⟨v, s1, h1, h2⟩ := bind_ok h
    obtain ⟨off, h2⟩ := lineOffset_ok h2
    split at h2
    · rename_i hk
      obtain ⟨rfl, rfl⟩ := pure_ok h2
      rw [Shape]
      exact ⟨off, v, rfl, hk⟩
    · cases h2
  | .struct items, ctx => by
    intro s g s' h
    rw [itemP] at h
    obtain ⟨vs, s1, h1, h2⟩ := bind_ok h
    obtain ⟨rfl, rfl⟩ := pure_ok h2
    rw [Shape]
    exact ⟨vs, rfl, itemsP_shape f32 items ctx s vs s1 h1⟩
  | .seq of, ctx => by
    intro s g s' h
    rw [itemP] at h
    simp only [getEnv_bind] at h
    obtain ⟨vs, s1, h1, h2⟩ := bind_ok h
    obtain ⟨rfl, rfl⟩ := pure_ok h2
    rw [Shape]
    exact ⟨vs, rfl, seqLoop_post (itemP_shape f32 of ctx) _ [] s vs s1 (by intro v hv; cases hv) h1⟩
  | .taggedStruct items, ctx => by
    intro s g s' h
    rw [itemP] at h
    simp only [getEnv_bind] at h
    obtain ⟨vs, s1, h1, h2⟩ := bind_ok h
    obtain ⟨rfl, rfl⟩ := pure_ok h2
    rw [Shape]
    refine ⟨vs, rfl, tsLoop_tagsOk _ ctx _ [] s vs s1 h1 List.Pairwise.nil, ?_⟩
    intro it hit
    obtain ⟨g, hg, hq⟩ := tsLoop_post (dispatch_shape f32 items) _ ctx _ [] s vs s1 (by intro v hv; cases hv) h1 it hit
    exact hq it rfl rfl hg
  | .taggedUnion items, ctx => by
    intro s g s' h
    rw [itemP] at h
    obtain ⟨r, s1, h1, h2⟩ := bind_ok h
    cases r with
    | none =>
      obtain ⟨rfl, rfl⟩ := pure_ok h2
      rw [Shape]
      exact ⟨[], rfl, by simp, by intro it hit; cases hit⟩
    | some it =>
      obtain ⟨rfl, rfl⟩ := pure_ok h2
      rw [Shape]
      refine ⟨[it], rfl, by simp, ?_⟩
      intro x hx
      rw [List.mem_singleton] at hx
      subst hx
      obtain ⟨g, hg, hq⟩ := taggedItem_post (dispatch_shape f32 items) h1
      exact hq x rfl rfl hg

theorem itemsP_shape (f32 : List Char → Option (List Char)) : ∀ (l : List Spec) (ctx : Ctx) (s : PState) (vs : List Gen)
    (s' : PState), itemsP f32 l ctx e s = .ok vs s' → ShapeL l vs
  | [], ctx, s, vs, s', h => by
    rw [itemsP] at h
    obtain ⟨rfl, rfl⟩ := pure_ok h
    rw [ShapeL]
  | sp :: rest, ctx, s, vs, s', h => by
    rw [itemsP] at h
    obtain ⟨v, s1, h1, h2⟩ := bind_ok h
    obtain ⟨vs', s2, h3, h4⟩ := bind_ok h2
    obtain ⟨rfl, rfl⟩ := pure_ok h4
    rw [ShapeL]
    exact ⟨v, vs', rfl, itemP_shape f32 sp ctx s v s1 h1, itemsP_shape f32 rest ctx s1 vs' s2 h3⟩

theorem dispatch_shape (f32 : List Char → Option (List Char)) : ∀ (l : List (Tagged Spec)), PostD e (dispatch f32 l) (QT l)
  | [] => by
    intro tag b p h
    rw [dispatch] at h
    cases h
  | t :: rest => by
    intro tag b p h
    rw [dispatch] at h
    split at h
    · rename_i ht
      cases h
      intro ctx s g s' hp it h1 h2 h3
      rw [ShapeT, if_pos (by rw [h1, ht])]
      exact ⟨h2.symm, g, h3, itemP_shape f32 t.item ctx s g s' hp⟩
    · rename_i ht
      intro ctx s g s' hp it h1 h2 h3
      rw [ShapeT, if_neg (by rw [h1]; exact ht)]
      exact dispatch_shape f32 rest tag b p h ctx s g s' hp it h1 h2 h3
end

end A2l.Typed
