import A2lVerif.Lemmas.IfDataUnknown
import A2lVerif.Lemmas.IfDataSim
/-!
# IF_DATA, part D: the statements of parts A–C on the environment in which the hand-written parsers run
-/
namespace A2l.IfData
open A2l.Tree A2l.Aml A2l.G A2l.Sc

/-- the configuration "everything is tracked" on the environment of the hand-written parsers -/
def cfgS (toks : Array PTok) (strict : Bool) (hk : TokOk toks) (hne : 0 < toks.size) : Cfg (specialEnv toks strict) :=
  cfgFull (specialEnv toks strict) hk hne (specialEnv_tableOk toks strict) (specialEnv_specialOk toks strict)

theorem good_total {α} {toks : Array PTok} {strict : Bool} {hk : TokOk toks} {hne : 0 < toks.size} {s : PState}
    {r : PRes α} {Q : α → PState → Prop} (h : Good True (cfgS toks strict hk hne) s.pos s.log r Q) :
    r ≠ .panic ∧ r ≠ .fuel ∧
    (∀ a s', r = .ok a s' → s.pos ≤ s'.pos ∧ s'.pos ≤ toks.size ∧ ∃ l, s'.log = l ++ s.log) ∧
    (∀ d s', r = .err d s' → s'.pos ≤ toks.size ∧ ∃ l, s'.log = l ++ s.log) := by
  refine ⟨?_, h.2 trivial trivial, ?_, ?_⟩
  · intro hp; rw [hp] at h; exact h.1 trivial
  · intro a s' hr; rw [hr] at h; exact ⟨(h.1.1 trivial).1, (h.1.1 trivial).2, h.1.2.1⟩
  · intro d s' hr; rw [hr] at h; exact ⟨h.1.1 trivial, h.1.2⟩

theorem good_safe {α} {toks : Array PTok} {strict : Bool} {hk : TokOk toks} {hne : 0 < toks.size} {s : PState}
    {r : PRes α} {Q : α → PState → Prop} (h : Good False (cfgS toks strict hk hne) s.pos s.log r Q) :
    r ≠ .panic ∧
    (∀ a s', r = .ok a s' → s.pos ≤ s'.pos ∧ s'.pos ≤ toks.size ∧ ∃ l, s'.log = l ++ s.log) ∧
    (∀ d s', r = .err d s' → s'.pos ≤ toks.size ∧ ∃ l, s'.log = l ++ s.log) := by
  refine ⟨?_, ?_, ?_⟩
  · intro hp; rw [hp] at h; exact h.1 trivial
  · intro a s' hr; rw [hr] at h; exact ⟨(h.1.1 trivial).1, (h.1.1 trivial).2, h.1.2.1⟩
  · intro d s' hr; rw [hr] at h; exact ⟨h.1.1 trivial, h.1.2⟩

/-- the instance of `Env.special` satisfies what the generic parser assumes of it -/
theorem special_specialOk (e : Env) (tyA2ml : Nat) (f32 : List Char → Option (List Char)) (builtin : List Spec)
    (hsp : e.special = special tyA2ml f32 builtin) (hk : TokOk e.toks) (hne : e.toks.size ≠ 0) : SpecialOk e := by
  intro ty ctx off s hs
  rw [hsp]
  have hne' : 0 < e.toks.size := Nat.pos_of_ne_zero hne
  have := good_safe (special_good False (cfgS e.toks e.strict hk hne') (fun _ h => h.elim) tyA2ml f32 builtin ty ctx off s
    (fun _ => hs))
  exact this

/-- the configuration "strict mode, the log only" on the environment of the hand-written parsers -/
def cfgSS (toks : Array PTok) : Cfg (specialEnv toks true) :=
  cfgStrict (specialEnv toks true) rfl (by
    intro ty ctx off s
    refine ⟨fun v s' h => (by cases h), fun d s' h => ?_⟩
    cases h
    exact LDep.refl _)

/-- strict mode: what the hand-written parsers add to the log are deprecation notices only (in fact nothing) -/
theorem special_strict_log (toks : Array PTok) (tyA2ml : Nat) (f32 : List Char → Option (List Char))
    (builtin : List Spec) (ty : Nat) (ctx : Ctx) (off : Nat) (s : PState) :
    (∀ v s', special tyA2ml f32 builtin ty ctx off toks true s = .ok v s' → LDep s.log s'.log) ∧
    (∀ d s', special tyA2ml f32 builtin ty ctx off toks true s = .err d s' → LDep s.log s'.log) := by
  have h := special_good (toks := toks) (strict := true) False (cfgSS toks) (fun _ h => h.elim) tyA2ml f32 builtin
    ty ctx off s (fun h => h.elim)
  constructor
  · intro v s' hr; rw [hr] at h; exact h.1.2.1
  · intro d s' hr; rw [hr] at h; exact h.1.2

/-! ## `parse_ifdata` -/

/-- the content is not empty: the token at the cursor exists and is not `/end` -/
def NonEmpty (e : Env) (s : PState) : Prop := ∃ t, e.toks[s.pos]? = some t ∧ t.ty ≠ 2

theorem parseIfdata_valid_iff {e : Env} {f32 : List Char → Option (List Char)} {specs : List Spec} {ctx : Ctx}
    {s : PState} {r : Option Gen} {valid : Bool} {s' : PState}
    (h : parseIfdata f32 specs ctx e s = .ok (r, valid) s') :
    valid = true ↔ NonEmpty e s ∧ ∃ sp ∈ specs, Accepts e f32 ctx sp s.pos := by
  unfold parseIfdata at h
  simp only [peekToken_bind] at h
  cases ht : e.toks[s.pos]? with
  | none =>
    rw [ht] at h
    cases h
    refine ⟨fun h => (by cases h), ?_⟩
    rintro ⟨⟨t, ht', _⟩, _⟩
    rw [ht] at ht'; cases ht'
  | some t =>
    have hlt := lt_of_getElem?_some ht
    rw [ht] at h
    dsimp only at h
    split at h
    · rename_i hne
      obtain ⟨r1, s1, h1, h2⟩ := bind_ok h
      have hiff := trySpecs_iff specs s r1 s1 (Nat.le_of_lt hlt) h1
      cases r1 with
      | some g =>
        cases h2
        exact ⟨fun _ => ⟨⟨t, ht, hne⟩, hiff.1 rfl⟩, fun _ => rfl⟩
      | none =>
        dsimp only at h2
        obtain ⟨g, s2, h3, h4⟩ := bind_ok h2
        cases h4
        refine ⟨fun h => (by cases h), ?_⟩
        rintro ⟨_, ha⟩
        have := hiff.2 ha
        cases this
    · rename_i he
      cases h
      refine ⟨fun h => (by cases h), ?_⟩
      rintro ⟨⟨t', ht', hne⟩, _⟩
      rw [ht] at ht'; cases ht'
      exact (he hne).elim

/-- content that no definition accepts: the fallback decides -/
theorem parseIfdata_fallback {e : Env} {f32 : List Char → Option (List Char)} {specs : List Spec} {ctx : Ctx}
    {s s1 : PState} (hne : NonEmpty e s) (htry : trySpecs f32 ctx specs e s = .ok none s1) :
    s1.pos = s.pos ∧
    parseIfdata f32 specs ctx e s = (unknownStart ctx >>= fun g => pure (some g, false)) e s1 := by
  obtain ⟨t, ht, hne⟩ := hne
  have hlt := lt_of_getElem?_some ht
  refine ⟨trySpecs_ok (f32 := f32) specs s none s1 (Nat.le_of_lt hlt) htry, ?_⟩
  unfold parseIfdata
  simp only [peekToken_bind]
  rw [ht]
  dsimp only
  rw [if_pos hne, bind_eq, htry]

/-! ## the fallback on the real environment -/

theorem scan_atEnd {e : Env} {s : PState} (h : AtEnd e s) :
    scanV maxNestingDepth .normal [] (e.toks.toList.drop s.pos) = .accept := by
  obtain ⟨t, ht, h2⟩ := h
  rw [drop_eq_cons ht, scanV_normal, if_neg (by omega), if_pos h2]

/-- the verdict of the scanner with the limit on the content at position `p` -/
def verdictAt (toks : Array PTok) (p : Nat) : Verdict := scanV maxNestingDepth .normal [] (toks.toList.drop p)

/-- the three ways in which the fallback ends are the three verdicts of the scanner with the limit: a result with all
    values kept, `NestingTooDeep`, or another error -/
theorem unknownStart_verdict (toks : Array PTok) (strict : Bool) (f32 : List Char → Option (List Char))
    (hk : TokOk toks) (hne : 0 < toks.size) (hni : NoInc (specialEnv toks strict))
    (hat : AtomsOk (specialEnv toks strict))
    (ctx : Ctx) (s : PState) (hs : s.pos ≤ toks.size) :
    (verdictAt toks s.pos = .accept →
      ∃ g s', unknownStart ctx (specialEnv toks strict) s = .ok g s' ∧ AtEnd (specialEnv toks strict) s' ∧
        Rel (specialEnv toks strict) f32 s s' (values true g)) ∧
    (verdictAt toks s.pos = .tooDeep →
      ∃ line s', unknownStart ctx (specialEnv toks strict) s = .err ⟨.nestingTooDeep, line⟩ s') ∧
    (verdictAt toks s.pos = .reject →
      ∃ d s', unknownStart ctx (specialEnv toks strict) s = .err d s' ∧ d.kind ≠ .nestingTooDeep) := by
  have htot := good_total (unknownStart_good (F := True) (cfgS toks strict hk hne) (fun _ _ => hni) ctx s (fun _ => hs))
  have hspec := unknownStart_spec f32 hat ctx s hs
  cases hr : unknownStart ctx (specialEnv toks strict) s with
  | panic => exact absurd hr htot.1
  | fuel => exact absurd hr htot.2.1
  | ok g s' =>
    rw [hr] at hspec
    obtain ⟨hrel, hn, hend⟩ := hspec
    have hv : verdictAt toks s.pos = .accept := by
      unfold verdictAt
      have := hn [] rfl
      rw [scan_atEnd hend] at this
      exact this
    refine ⟨fun _ => ⟨g, s', rfl, hend, hrel⟩, fun h => ?_, fun h => ?_⟩ <;> rw [hv] at h <;> cases h
  | err d s' =>
    rw [hr] at hspec
    have hv : verdictAt toks s.pos = verdictOf d.kind := hspec [] rfl
    unfold verdictOf at hv
    by_cases hk' : d.kind = .nestingTooDeep
    · rw [if_pos hk'] at hv
      refine ⟨fun h => ?_, fun _ => ⟨d.line, s', ?_⟩, fun h => ?_⟩
      · rw [hv] at h; cases h
      · obtain ⟨k, line⟩ := d
        cases hk'
        rfl
      · rw [hv] at h; cases h
    · rw [if_neg hk'] at hv
      refine ⟨fun h => ?_, fun h => ?_, fun _ => ⟨d, s', rfl, hk'⟩⟩ <;> rw [hv] at h <;> cases h

theorem verdictAt_accept_iff (toks : Array PTok) (p : Nat) :
    verdictAt toks p = .accept ↔ balanced toks p = true ∧ nestingOk toks p = true :=
  scanV_accept_iff maxNestingDepth [] (toks.toList.drop p)

theorem verdictAt_tooDeep_of (toks : Array PTok) (p : Nat) (hb : balanced toks p = true) (hd : nestingOk toks p = false) :
    verdictAt toks p = .tooDeep :=
  scanV_tooDeep_of maxNestingDepth [] (toks.toList.drop p) hb hd

/-- balanced content that is not nested too deep is kept with all its values; balanced content that is nested too
    deep is rejected with `NestingTooDeep`; content that is not balanced is rejected (with whichever of the two
    problems comes first) -/
theorem unknownStart_balanced (toks : Array PTok) (strict : Bool) (f32 : List Char → Option (List Char))
    (hk : TokOk toks) (hne : 0 < toks.size) (hni : NoInc (specialEnv toks strict))
    (hat : AtomsOk (specialEnv toks strict))
    (ctx : Ctx) (s : PState) (hs : s.pos ≤ toks.size) :
    (balanced toks s.pos = true → nestingOk toks s.pos = true →
      ∃ g s', unknownStart ctx (specialEnv toks strict) s = .ok g s' ∧ AtEnd (specialEnv toks strict) s' ∧
        Rel (specialEnv toks strict) f32 s s' (values true g)) ∧
    (balanced toks s.pos = true → nestingOk toks s.pos = false →
      ∃ line s', unknownStart ctx (specialEnv toks strict) s = .err ⟨.nestingTooDeep, line⟩ s') ∧
    (balanced toks s.pos = false → ∃ d s', unknownStart ctx (specialEnv toks strict) s = .err d s') := by
  obtain ⟨h1, h2, h3⟩ := unknownStart_verdict toks strict f32 hk hne hni hat ctx s hs
  refine ⟨fun hb hd => h1 ((verdictAt_accept_iff toks s.pos).2 ⟨hb, hd⟩),
    fun hb hd => h2 (verdictAt_tooDeep_of toks s.pos hb hd), fun hb => ?_⟩
  cases hv : verdictAt toks s.pos with
  | accept => rw [((verdictAt_accept_iff toks s.pos).1 hv).1] at hb; cases hb
  | tooDeep => obtain ⟨line, s', h⟩ := h2 hv; exact ⟨_, s', h⟩
  | reject => obtain ⟨d, s', h, _⟩ := h3 hv; exact ⟨d, s', h⟩

/-! ## `ifdata_cleanup` -/

theorem removeUnknown_eq_filter {α : Type} (valid : α → Bool) (l : List α) : removeUnknown valid l = l.filter valid := by
  unfold removeUnknown
  have : ∀ (l acc : List α), l.foldl (fun acc x => if valid x then acc ++ [x] else acc) acc = acc ++ l.filter valid := by
    intro l
    induction l with
    | nil => intro acc; simp
    | cons x xs ih =>
      intro acc
      rw [List.foldl_cons, ih, List.filter_cons]
      cases valid x <;> simp
  simpa using this l []

end A2l.IfData
