import A2lVerif.Model.Typed
/-!
# Typed IF_DATA access, part A: the predicates used in Props/C19.lean

* `TypedOk S v`: `v` is a value of the root type generated for `S` (decidable: a `Bool`-valued function), including
  the shape of the location tuples in `__block_info`.
* `TagsDistinct S`: the members of every tagged struct / union of the output types have pairwise different tags
  (two members with the same tag would be two struct fields with the same name: such a specification does not compile).
-/
namespace A2l.Typed
open A2l.Aml A2l.IfData

/-- `f` holds for corresponding elements of two lists of the same length -/
def all2 (f : TVal → Loc → Bool) : List TVal → List Loc → Bool
  | [], [] => true
  | v :: vs, l :: ls => f v l && all2 f vs ls
  | _, _ => false

/-- a value of a block / struct type whose fields are checked by `okf` -/
def okBlockWith (okf : List TVal → List Loc → Bool) (v : TVal) : Bool :=
  match v with
  | .struct info fs => okf fs info.locs
  | _ => false

/-- the field that a tagged member becomes: `Option<T>` for a plain member, `Vec<T>` for a `( ... )*` member -/
def okMemberWith (okf : List TVal → List Loc → Bool) (rep : Bool) (field : TVal) : Bool :=
  match field with
  | .opt none => !rep
  | .opt (some v) => !rep && okBlockWith okf v
  | .multi vs => rep && vs.all (okBlockWith okf)
  | _ => false

mutual

/-- `v` is a value of the Rust type of an item of type `t`, and `l` is a value of its location type; for a struct
    member: the layout is that of a struct (`__uid = 0`, offsets 0) and the location is the struct's line -/
def okItem : OTy → TVal → Loc → Bool
  | .none, _, _ => false
  | .int _, v, l =>
    match v, l with
    | .int _, .int _ _ => true
    | _, _ => false
  | .float, v, l =>
    match v, l with
    | .float _, .off _ => true
    | _, _ => false
  | .double, v, l =>
    match v, l with
    | .double _, .off _ => true
    | _, _ => false
  | .str, v, l =>
    match v, l with
    | .str _, .off _ => true
    | _, _ => false
  | .array of dim, v, l =>
    match v, l with
    | .array vs, .arr ls => vs.length == dim && all2 (okItem of) vs ls
    | _, _ => false
  | .enum names, v, l =>
    match v, l with
    | .enum s, .off _ => names.contains s
    | _, _ => false
  | .struct items, v, l =>
    match v, l with
    | .struct info fs, .off n =>
      n == info.line && info.uid == 0 && info.startOff == 0 && info.endOff == 0 && okFields items fs info.locs
    | _, _ => false
  | .seq of, v, l =>
    match v, l with
    | .seq vs, .seq ls => all2 (okItem of) vs ls
    | _, _ => false
  | .tagged _ _, _, _ => false

/-- the fields of a struct / block type with items `ts`, and its `item_location` -/
def okFields : List OTy → List TVal → List Loc → Bool
  | [], fs, locs => fs.isEmpty && locs.isEmpty
  | t :: rest, fs, locs =>
    match t with
    | .tagged _ members => okMembers members fs && okFields rest (fs.drop members.length) locs
    | t =>
      match fs, locs with
      | v :: fs', l :: locs' => okItem t v l && okFields rest fs' locs'
      | _, _ => false

/-- the first `members.length` fields are the fields of the members -/
def okMembers : List (OTag OTy) → List TVal → Bool
  | [], _ => true
  | m :: rest, fs =>
    match fs with
    | f :: fs' => okMemberWith (okFields m.items) m.rep f && okMembers rest fs'
    | [] => false

end

/-- **well-typed**: `v` is a value of the root type generated for the specification `S` -/
def TypedOk (S : Spec) (v : TVal) : Prop := okBlockWith (okFields (rootItems S)) v = true

instance (S : Spec) (v : TVal) : Decidable (TypedOk S v) := by unfold TypedOk; infer_instance

def nodupB : List (List Char) → Bool
  | [] => true
  | x :: xs => !xs.contains x && nodupB xs

mutual
def distinctTy : OTy → Bool
  | .array of _ => distinctTy of
  | .struct items => distinctL items
  | .seq of => distinctTy of
  | .tagged _ ms => nodupB (tagsOfM ms) && distinctM ms
  | _ => true
def distinctL : List OTy → Bool
  | [] => true
  | t :: rest => distinctTy t && distinctL rest
def distinctM : List (OTag OTy) → Bool
  | [] => true
  | m :: rest => distinctL m.items && distinctM rest
def tagsOfM : List (OTag OTy) → List (List Char)
  | [] => []
  | m :: rest => m.tag :: tagsOfM rest
end

/-- the members of every tagged struct / union of the types generated for `S` have pairwise different tags -/
def TagsDistinct (S : Spec) : Prop := distinctL (rootItems S) = true

instance (S : Spec) : Decidable (TagsDistinct S) := by unfold TagsDistinct; infer_instance

/-- the layout that `load_from_ifdata` gives to the root value: that of the `IfData` it is loaded from -/
def TVal.withLayout (v : TVal) (uid startOff endOff : Nat) : TVal :=
  match v with
  | .struct info fs => .struct { info with uid := uid, startOff := startOff, endOff := endOff } fs
  | v => v

def TVal.uid : TVal → Nat
  | .struct info _ => info.uid
  | _ => 0
def TVal.startOff : TVal → Nat
  | .struct info _ => info.startOff
  | _ => 0
def TVal.endOff : TVal → Nat
  | .struct info _ => info.endOff
  | _ => 0

end A2l.Typed
