import A2lVerif.Lemmas.IfData
/-!
# IF_DATA, part B: what the interpreter stores is what the tokens say

Definitions used by Props/C18.lean (`WV`, `values`, `agree`, `span`, `Rel`) and inversion lemmas
(`f e s = .ok a s' → ...`) for every function of the interpreter.
-/
namespace A2l.IfData
open A2l.Tree A2l.Aml A2l.G A2l.Sc

variable {e : Env}

/-! ## definitions -/

/-- a value as the writer emits it behind the white space: identifier / tag / enum item verbatim, string content
    (written quoted and escaped), integer of type `intTyOf w` with its notation flag (`printInt`), the text of a float,
    `/begin`, `/end` -/
inductive WV where
  | ident (s : List Char)
  | str (s : List Char)
  | int (w : Nat) (v : Int) (hex : Bool)
  | f32 (txt : List Char)
  | f64 (txt : List Char)
  | begin_
  | end_
  deriving Repr, DecidableEq

mutual
/-- the values that `GenericIfData::write` (`top = true`) / `write_item` (`top = false`) emit, in list order -/
def values (top : Bool) : Gen → List WV
  | .none => []
  | .int w _ v hex => [.int w v hex]
  | .float _ txt => [.f32 txt]
  | .double _ txt => [.f64 txt]
  | .str _ s => [.str s]
  | .array items => valuesL items
  | .enumItem _ s => [.ident s]
  | .seq items => valuesL items
  | .taggedStruct items => valuesT items
  | .taggedUnion items => valuesT items
  | .struct _ items => valuesL items
  | .block _ items => if top then valuesL items else []
def valuesL : List Gen → List WV
  | [] => []
  | g :: rest => values false g ++ valuesL rest
def valuesT : List (TItem Gen) → List WV
  | [] => []
  | it :: rest =>
    (if it.isBlock then [.begin_] else []) ++ [.ident it.tag] ++ values true it.data ++
      (if it.isBlock then [.end_, .ident it.tag] else []) ++ valuesT rest
end

/-- a written value and the token it was read from say the same thing. For a number the value is compared under
    the reading that the written value has (integer type / f32 / f64). The second clause of `str` is the one
    tolerated deviation: the non-strict reader accepts an identifier where a string is defined (with a diagnostic) and
    the value is then written as a string. -/
def agree (strict : Bool) (f32 : List Char → Option (List Char)) : WV → PTok → Prop
  | .ident s, t => t.ty = 0 ∧ t.text = s
  | .str s, t => (t.ty = 4 ∧ unescape (stripQuotes t.text) = .ok s) ∨ (strict = false ∧ t.ty = 0 ∧ t.text = s)
  | .int w v hex, t => t.ty = 5 ∧ parseInt (intTyOf w) t.text = some (v, hex)
  | .f32 txt, t => t.ty = 5 ∧ f32 t.text = some txt
  | .f64 txt, t => t.ty = 5 ∧ t.fl = some txt
  | .begin_, t => t.ty = 1
  | .end_, t => t.ty = 2

/-- two lists are related element by element -/
inductive All2 {α β : Type} (R : α → β → Prop) : List α → List β → Prop where
  | nil : All2 R [] []
  | cons {a : α} {b : β} {l1 : List α} {l2 : List β} : R a b → All2 R l1 l2 → All2 R (a :: l1) (b :: l2)

theorem All2.append {α β : Type} {R : α → β → Prop} {a c : List α} {b d : List β}
    (h1 : All2 R a b) (h2 : All2 R c d) : All2 R (a ++ c) (b ++ d) := by
  induction h1 with
  | nil => exact h2
  | cons h _ ih => exact All2.cons h ih

theorem All2.single {α β : Type} {R : α → β → Prop} {a : α} {b : β} (h : R a b) : All2 R [a] [b] :=
  All2.cons h All2.nil

theorem All2.cons_inv {α β : Type} {R : α → β → Prop} {a : α} {l1 : List α} {l : List β}
    (h : All2 R (a :: l1) l) : ∃ b l2, l = b :: l2 ∧ R a b ∧ All2 R l1 l2 := by
  generalize h0 : a :: l1 = l0 at h
  cases h with
  | nil => cases h0
  | cons hab hrest => cases h0; exact ⟨_, _, rfl, hab, hrest⟩

theorem All2.nil_inv {α β : Type} {R : α → β → Prop} {l : List β} (h : All2 R ([] : List α) l) : l = [] := by
  generalize h0 : ([] : List α) = l0 at h
  cases h with
  | nil => rfl
  | cons _ _ => cases h0

/-- the tokens from cursor position `a` up to `b`, without the comments -/
def span (toks : Array PTok) (a b : Nat) : List PTok :=
  ((toks.toList.drop a).take (b - a)).filter (fun t => t.ty ≠ 6)

/-- the cursor moved forward from `s` to `s'` inside the token array and the values `ws` are, one by one and in order,
    what the tokens in between say -/
def Rel (e : Env) (f32 : List Char → Option (List Char)) (s s' : PState) (ws : List WV) : Prop :=
  s.pos ≤ s'.pos ∧ s'.pos ≤ e.toks.size ∧ All2 (agree e.strict f32) ws (span e.toks s.pos s'.pos)

/-! ## `span` -/

theorem span_self (toks : Array PTok) (a : Nat) : span toks a a = [] := by
  simp [span]

theorem span_append (toks : Array PTok) {a b c : Nat} (h1 : a ≤ b) (h2 : b ≤ c) :
    span toks a c = span toks a b ++ span toks b c := by
  unfold span
  rw [← List.filter_append]
  congr 1
  have h : c - a = (b - a) + (c - b) := by omega
  rw [h, List.take_add]
  congr 2
  rw [List.drop_drop]
  congr 1
  omega

theorem span_step (toks : Array PTok) (a : Nat) (t : PTok) (h : toks[a]? = some t) :
    span toks a (a + 1) = if t.ty ≠ 6 then [t] else [] := by
  unfold span
  have hlt := lt_of_getElem?_some h
  have h2 : toks.toList.drop a = t :: toks.toList.drop (a + 1) := by
    rw [List.drop_eq_getElem_cons (by simpa using hlt)]
    congr 1
    rw [getElem?_pos toks a hlt] at h
    simpa using h
  rw [h2]
  simp only [Nat.add_sub_cancel_left, List.take_succ_cons, List.take_zero, List.filter_cons, List.filter_nil]
  split <;> simp_all

theorem Rel.refl (f32 : List Char → Option (List Char)) (s : PState) (h : s.pos ≤ e.toks.size) : Rel e f32 s s [] := by
  refine ⟨Nat.le_refl _, h, ?_⟩
  rw [span_self]
  exact All2.nil

theorem Rel.trans {f32 : List Char → Option (List Char)} {s s1 s2 : PState} {w1 w2 : List WV}
    (h1 : Rel e f32 s s1 w1) (h2 : Rel e f32 s1 s2 w2) : Rel e f32 s s2 (w1 ++ w2) := by
  refine ⟨Nat.le_trans h1.1 h2.1, h2.2.1, ?_⟩
  rw [span_append e.toks h1.1 h2.1]
  exact All2.append h1.2.2 h2.2.2

/-! ## inversion of the monad operations -/

theorem bind_ok {α β} {m : PM α} {f : α → PM β} {s : PState} {b : β} {s2 : PState}
    (h : (m >>= f) e s = .ok b s2) : ∃ a s1, m e s = .ok a s1 ∧ f a e s1 = .ok b s2 := by
  rw [bind_eq] at h
  cases hm : m e s with
  | ok a s1 => rw [hm] at h; exact ⟨a, s1, rfl, h⟩
  | err d s1 => rw [hm] at h; cases h
  | panic => rw [hm] at h; cases h
  | fuel => rw [hm] at h; cases h

theorem attempt_ok {α β} {m : PM α} {f : Except Diag α → PM β} {s : PState} {b : β} {s2 : PState}
    (h : (attempt m >>= f) e s = .ok b s2) :
    (∃ a s1, m e s = .ok a s1 ∧ f (.ok a) e s1 = .ok b s2) ∨
    (∃ d s1, m e s = .err d s1 ∧ f (.error d) e s1 = .ok b s2) := by
  rw [bind_eq] at h
  unfold attempt at h
  cases hm : m e s with
  | ok a s1 => rw [hm] at h; exact .inl ⟨a, s1, rfl, h⟩
  | err d s1 => rw [hm] at h; exact .inr ⟨d, s1, rfl, h⟩
  | panic => rw [hm] at h; cases h
  | fuel => rw [hm] at h; cases h

theorem lineOffset_ok {β} {f : Nat → PM β} {s : PState} {b : β} {s2 : PState}
    (h : (getLineOffset >>= f) e s = .ok b s2) : ∃ n, f n e s = .ok b s2 := by
  rw [bind_eq] at h
  rcases getLineOffset_cases e s with h1 | ⟨n, h1⟩
  · rw [h1] at h; cases h
  · rw [h1] at h; exact ⟨n, h⟩

theorem pure_ok {α} {a b : α} {s s2 : PState} (h : (Pure.pure a : PM α) e s = .ok b s2) : a = b ∧ s = s2 := by
  cases h; exact ⟨rfl, rfl⟩

theorem errorOrLog_ok {k : DK} {s s1 : PState} {u : Unit} (h : errorOrLog k e s = .ok u s1) :
    s1.pos = s.pos ∧ e.strict = false := by
  unfold errorOrLog at h
  simp only [getEnv_bind] at h
  split at h
  · cases h
  · rename_i hs
    rw [logWarning_eval] at h
    cases h
    exact ⟨rfl, by simpa using hs⟩

/-! ## the primitives -/

theorem expectTokenAux_ok (ctx : Ctx) (ty : Nat) (hty : ty ≠ 6) : ∀ (fuel : Nat) (s : PState) (t : PTok) (s' : PState),
    expectTokenAux ctx ty fuel e s = .ok t s' →
    s.pos < s'.pos ∧ s'.pos ≤ e.toks.size ∧ span e.toks s.pos s'.pos = [t] ∧ t.ty = ty
  | 0, _, _, _, h => by cases h
  | fuel + 1, s, t, s', h => by
    rw [expectTokenAux, bind_eq, getToken_eval] at h
    cases ht : e.toks[s.pos]? with
    | none => rw [ht] at h; cases h
    | some t0 =>
      rw [ht] at h
      have hlt := lt_of_getElem?_some ht
      dsimp only at h
      split at h
      · rename_i h6
        obtain ⟨h1, h2, h3, h4⟩ := expectTokenAux_ok ctx ty hty fuel _ t s' h
        have h1' : s.pos + 1 < s'.pos := h1
        refine ⟨by omega, h2, ?_, h4⟩
        rw [span_append e.toks (Nat.le_succ s.pos) (Nat.le_of_lt h1'), span_step e.toks s.pos t0 ht, if_neg (by simp [h6])]
        exact h3
      · rename_i h6
        split at h
        · cases h
        · rename_i hne
          cases h
          refine ⟨Nat.lt_succ_self _, hlt, ?_, by simpa using hne⟩
          show span e.toks s.pos (s.pos + 1) = [t]
          rw [span_step e.toks s.pos t ht, if_pos h6]

theorem expectToken_ok {ctx : Ctx} {ty : Nat} (hty : ty ≠ 6) {s : PState} {t : PTok} {s' : PState}
    (h : expectToken ctx ty e s = .ok t s') :
    s.pos < s'.pos ∧ s'.pos ≤ e.toks.size ∧ span e.toks s.pos s'.pos = [t] ∧ t.ty = ty := by
  unfold expectToken at h
  simp only [getEnv_bind] at h
  exact expectTokenAux_ok ctx ty hty _ s t s' h

theorem rel_single {f32 : List Char → Option (List Char)} {s s' : PState} {t : PTok} {w : WV}
    (h : s.pos < s'.pos ∧ s'.pos ≤ e.toks.size ∧ span e.toks s.pos s'.pos = [t] ∧ t.ty = ty)
    (ha : agree e.strict f32 w t) : Rel e f32 s s' [w] := by
  refine ⟨Nat.le_of_lt h.1, h.2.1, ?_⟩
  rw [h.2.2.1]
  exact All2.single ha

theorem Rel.samePos {f32 : List Char → Option (List Char)} {s s1 s2 : PState} {ws : List WV}
    (h : Rel e f32 s s1 ws) (hp : s2.pos = s1.pos) : Rel e f32 s s2 ws := by
  unfold Rel at *
  rw [hp]; exact h

theorem Rel.fromPos {f32 : List Char → Option (List Char)} {s s0 s2 : PState} {ws : List WV}
    (h : Rel e f32 s s2 ws) (hp : s0.pos = s.pos) : Rel e f32 s0 s2 ws := by
  unfold Rel at *
  rw [hp]; exact h

theorem getIdentifier_ok (f32 : List Char → Option (List Char)) {ctx : Ctx} {s : PState} {v : List Char} {s' : PState}
    (h : getIdentifier ctx e s = .ok v s') : Rel e f32 s s' [.ident v] := by
  unfold getIdentifier at h
  obtain ⟨t, s1, h1, h2⟩ := bind_ok h
  have hx := expectToken_ok (by decide) h1
  cases htext : t.text with
  | nil => rw [htext] at h2; cases h2
  | cons ch tl =>
    rw [htext] at h2
    dsimp only at h2
    split at h2
    · obtain ⟨u, s2, h3, h4⟩ := bind_ok h2
      obtain ⟨rfl, rfl⟩ := pure_ok h4
      exact (rel_single (w := .ident (ch :: tl)) hx ⟨hx.2.2.2, htext⟩).samePos (errorOrLog_ok h3).1
    · obtain ⟨rfl, rfl⟩ := pure_ok h2
      exact rel_single (w := .ident (ch :: tl)) hx ⟨hx.2.2.2, htext⟩

theorem getString_ok (f32 : List Char → Option (List Char)) {ctx : Ctx} {s : PState} {v : List Char} {s' : PState}
    (h : getString ctx e s = .ok v s') : Rel e f32 s s' [.str v] := by
  unfold getString at h
  simp only [peekToken_bind] at h
  generalize e.toks[s.pos]? = o at h
  split at h
  · obtain ⟨text, s1, h1, h2⟩ := bind_ok h
    obtain ⟨u, s2, h3, h4⟩ := bind_ok h2
    obtain ⟨rfl, rfl⟩ := pure_ok h4
    have hr := getIdentifier_ok f32 h1
    have hs := errorOrLog_ok h3
    refine ⟨?_, ?_, ?_⟩
    · rw [hs.1]; exact hr.1
    · rw [hs.1]; exact hr.2.1
    · rw [hs.1]
      obtain ⟨b, l2, hl, ha, hrest⟩ := hr.2.2.cons_inv
      rw [hl, hrest.nil_inv]
      exact All2.single (.inr ⟨hs.2, ha.1, ha.2⟩)
  · obtain ⟨t, s1, h1, h2⟩ := bind_ok h
    have hx := expectToken_ok (by decide) h1
    cases hu : unescape (stripQuotes t.text) with
    | panic => rw [hu] at h2; cases h2
    | ok r =>
      rw [hu] at h2
      obtain ⟨rfl, rfl⟩ := pure_ok h2
      exact rel_single (w := .str r) hx (.inl ⟨hx.2.2.2, hu⟩)

theorem getStringMaxlen_ok (f32 : List Char → Option (List Char)) {ctx : Ctx} {n : Nat} {s : PState} {v : List Char}
    {s' : PState} (h : getStringMaxlen ctx n e s = .ok v s') : Rel e f32 s s' [.str v] := by
  unfold getStringMaxlen at h
  obtain ⟨text, s1, h1, h2⟩ := bind_ok h
  have hr := getString_ok f32 h1
  dsimp only at h2
  split at h2
  · obtain ⟨u, s2, h3, h4⟩ := bind_ok h2
    obtain ⟨rfl, rfl⟩ := pure_ok h4
    exact hr.samePos (errorOrLog_ok h3).1
  · obtain ⟨rfl, rfl⟩ := pure_ok h2
    exact hr

theorem getInteger_ok (f32 : List Char → Option (List Char)) {ctx : Ctx} {w : Nat} {s : PState} {v : Int} {hex : Bool}
    {s' : PState} (h : getInteger ctx w e s = .ok (v, hex) s') : Rel e f32 s s' [.int w v hex] := by
  unfold getInteger at h
  obtain ⟨t, s1, h1, h2⟩ := bind_ok h
  have hx := expectToken_ok (by decide) h1
  cases hp : parseInt (intTyOf w) t.text with
  | none => rw [hp] at h2; cases h2
  | some r =>
    rw [hp] at h2
    obtain ⟨rfl, rfl⟩ := pure_ok h2
    exact rel_single (w := .int w v hex) hx ⟨hx.2.2.2, hp⟩

theorem getDouble_ok (f32 : List Char → Option (List Char)) {ctx : Ctx} {s : PState} {v : List Char}
    {s' : PState} (h : getDouble ctx e s = .ok v s') : Rel e f32 s s' [.f64 v] := by
  unfold getDouble at h
  obtain ⟨t, s1, h1, h2⟩ := bind_ok h
  have hx := expectToken_ok (by decide) h1
  cases hp : t.fl with
  | none => rw [hp] at h2; cases h2
  | some r =>
    rw [hp] at h2
    obtain ⟨rfl, rfl⟩ := pure_ok h2
    exact rel_single (w := .f64 r) hx ⟨hx.2.2.2, hp⟩

theorem getFloat_ok (f32 : List Char → Option (List Char)) {ctx : Ctx} {s : PState} {v : List Char}
    {s' : PState} (h : getFloat f32 ctx e s = .ok v s') : Rel e f32 s s' [.f32 v] := by
  unfold getFloat at h
  obtain ⟨t, s1, h1, h2⟩ := bind_ok h
  have hx := expectToken_ok (by decide) h1
  cases hp : f32 t.text with
  | none => rw [hp] at h2; cases h2
  | some r =>
    rw [hp] at h2
    obtain ⟨rfl, rfl⟩ := pure_ok h2
    exact rel_single (w := .f32 r) hx ⟨hx.2.2.2, hp⟩

theorem values_makeBlock (d : Gen) (line : Nat) : values true (makeBlock d line) = values false d := by
  unfold makeBlock
  split
  · simp [values]
  · rw [values]
    simp [valuesL]

theorem getToken_ok {ctx : Ctx} {s : PState} {t : PTok} {s' : PState} (h : getToken ctx e s = .ok t s') :
    e.toks[s.pos]? = some t ∧ s' = adv s t := by
  rw [getToken_eval] at h
  split at h
  · rename_i t0 ht
    cases h
    exact ⟨ht, rfl⟩
  · cases h

theorem skipComments_ok (f32 : List Char → Option (List Char)) (ctx : Ctx) : ∀ (fuel : Nat) (s : PState) (u : Unit)
    (s' : PState), skipComments ctx fuel e s = .ok u s' → s.pos ≤ e.toks.size → Rel e f32 s s' []
  | 0, _, _, _, h, _ => by cases h
  | fuel + 1, s, u, s', h, hs => by
    rw [skipComments] at h
    simp only [peekToken_bind] at h
    cases ht : e.toks[s.pos]? with
    | none => rw [ht] at h; obtain ⟨_, rfl⟩ := pure_ok h; exact Rel.refl f32 s hs
    | some t =>
      rw [ht] at h
      dsimp only at h
      split at h
      · rename_i h6
        obtain ⟨t1, s1, h1, h2⟩ := bind_ok h
        obtain ⟨ht1, rfl⟩ := getToken_ok h1
        have hlt := lt_of_getElem?_some ht
        have ih := skipComments_ok f32 ctx fuel _ u s' h2 (by show s.pos + 1 ≤ _; omega)
        have hstep : Rel e f32 s (adv s t1) [] := by
          refine ⟨Nat.le_succ _, hlt, ?_⟩
          show All2 _ [] (span e.toks s.pos (s.pos + 1))
          rw [span_step e.toks s.pos t ht, if_neg (by simp [h6])]
          exact All2.nil
        exact hstep.trans ih
      · obtain ⟨_, rfl⟩ := pure_ok h; exact Rel.refl f32 s hs

theorem endOfTagged_ok (f32 : List Char → Option (List Char)) {newctx : Ctx} {tag : List Char} {isBlock : Bool}
    {s : PState} {off : Nat} {s' : PState} (h : endOfTagged newctx tag isBlock e s = .ok off s')
    (hs : s.pos ≤ e.toks.size) :
    Rel e f32 s s' (if isBlock then [.end_, .ident tag] else []) := by
  unfold endOfTagged at h
  split at h
  · rename_i hb
    rw [if_pos hb]
    obtain ⟨t1, s1, h1, h2⟩ := bind_ok h
    obtain ⟨n, h2⟩ := lineOffset_ok h2
    obtain ⟨t2, s2, h3, h4⟩ := bind_ok h2
    have hx1 := expectToken_ok (by decide) h1
    have hx2 := expectToken_ok (by decide) h3
    dsimp only at h4
    split at h4
    · cases h4
    · rename_i heq
      obtain ⟨_, rfl⟩ := pure_ok h4
      have r1 : Rel e f32 s s1 [.end_] := rel_single (w := .end_) hx1 hx1.2.2.2
      have r2 : Rel e f32 s1 s2 [.ident tag] := rel_single (w := .ident tag) hx2 ⟨hx2.2.2.2, by simpa using heq⟩
      exact r1.trans r2
  · rename_i hb
    rw [if_neg hb]
    obtain ⟨_, rfl⟩ := pure_ok h
    exact Rel.refl f32 s hs

/-- what `get_next_tag_or_comment` consumed -/
def NTRel (e : Env) (f32 : List Char → Option (List Char)) (s : PState) : BlockContent → PState → Prop
  | .block tok isBlock _, s' => Rel e f32 s s' ((if isBlock then [.begin_] else []) ++ [.ident tok.text])
  | .comment _ _, s' => Rel e f32 s s' []
  | .none, s' => s'.pos = s.pos

theorem getNextTagOrComment_ok (f32 : List Char → Option (List Char)) {ctx : Ctx} {s : PState} {bc : BlockContent}
    {s' : PState} (h : getNextTagOrComment ctx e s = .ok bc s') : NTRel e f32 s bc s' := by
  unfold getNextTagOrComment at h
  simp only [getTokenpos_bind, peekToken_bind] at h
  generalize ho : e.toks[s.pos]? = o at h
  split at h
  · simp only [modifyState_bind] at h
    obtain ⟨n, h⟩ := lineOffset_ok h
    obtain ⟨rfl, rfl⟩ := pure_ok h
    have hlt := lt_of_getElem?_some ho
    refine ⟨Nat.le_succ _, hlt, ?_⟩
    show All2 _ [] (span e.toks s.pos (s.pos + 1))
    rw [span_step e.toks s.pos _ ho, if_neg (by simp)]
    exact All2.nil
  · obtain ⟨t, s1, h1, h2⟩ := bind_ok h
    obtain ⟨ht, rfl⟩ := getToken_ok h1
    rw [ho] at ht
    cases ht
    have hlt := lt_of_getElem?_some ho
    obtain ⟨n, h2⟩ := lineOffset_ok h2
    rcases attempt_ok h2 with ⟨tok, s2, h3, h4⟩ | ⟨d, s2, h3, h4⟩
    · obtain ⟨rfl, rfl⟩ := pure_ok h4
      have hx := expectToken_ok (by decide) h3
      generalize hbt : ({ ty := 1, text := _, line := _, fileid := _, sym := _, fl := _ } : PTok) = bt at *
      have hb1 : bt.ty = 1 := by rw [← hbt]
      have r1 : Rel e f32 s (adv s bt) [.begin_] := by
        refine ⟨Nat.le_succ _, hlt, ?_⟩
        show All2 _ _ (span e.toks s.pos (s.pos + 1))
        rw [span_step e.toks s.pos bt ho, if_pos (by simp [hb1])]
        exact All2.single hb1
      have r2 : Rel e f32 (adv s bt) s2 [.ident tok.text] := rel_single (w := .ident tok.text) hx ⟨hx.2.2.2, rfl⟩
      exact r1.trans r2
    · simp only [setTokenpos_bind] at h4
      cases h4
  · rcases attempt_ok h with ⟨tok, s1, h3, h4⟩ | ⟨d, s1, h3, h4⟩
    · obtain ⟨n, h4⟩ := lineOffset_ok h4
      obtain ⟨rfl, rfl⟩ := pure_ok h4
      have hx := expectToken_ok (by decide) h3
      exact rel_single (w := .ident tok.text) hx ⟨hx.2.2.2, rfl⟩
    · obtain ⟨n, h4⟩ := lineOffset_ok h4
      simp only [setTokenpos_bind] at h4
      obtain ⟨rfl, rfl⟩ := pure_ok h4
      rfl

/-! ## the interpreter -/

def RelP (e : Env) (f32 : List Char → Option (List Char)) (p : PM Gen) : Prop :=
  ∀ s g s', s.pos ≤ e.toks.size → p e s = .ok g s' → Rel e f32 s s' (values false g)

def RelD (e : Env) (f32 : List Char → Option (List Char)) (d : List Char → Option (Bool × (Ctx → PM Gen))) : Prop :=
  ∀ tag b p, d tag = some (b, p) → ∀ ctx, RelP e f32 (p ctx)

theorem valuesT_cons (it : TItem Gen) (rest : List (TItem Gen)) : valuesT (it :: rest) = valuesT [it] ++ valuesT rest := by
  simp [valuesT]

theorem arrayLoop_ok {f32 : List Char → Option (List Char)} {p : PM Gen} (hp : RelP e f32 p) :
    ∀ (n : Nat) (s : PState) (vs : List Gen) (s' : PState), s.pos ≤ e.toks.size → arrayLoop p n e s = .ok vs s' →
    Rel e f32 s s' (valuesL vs)
  | 0, s, vs, s', hs, h => by
    rw [arrayLoop] at h
    obtain ⟨rfl, rfl⟩ := pure_ok h
    exact Rel.refl f32 s hs
  | n + 1, s, vs, s', hs, h => by
    rw [arrayLoop] at h
    simp only [getTokenpos_bind] at h
    obtain ⟨v, s1, h1, h2⟩ := bind_ok h
    simp only [getTokenpos_bind] at h2
    have r1 := hp s v s1 hs h1
    split at h2
    · obtain ⟨rfl, rfl⟩ := pure_ok h2
      rw [valuesL, valuesL, List.append_nil]
      exact r1
    · obtain ⟨vs', s2, h3, h4⟩ := bind_ok h2
      obtain ⟨rfl, rfl⟩ := pure_ok h4
      have r2 := arrayLoop_ok hp n s1 vs' s2 r1.2.1 h3
      rw [valuesL]
      exact r1.trans r2

/-- **the array loop stops at an element that consumes nothing**: the number of elements (= the number of times the
    element parser ran) is at most `dim`, and at most one more than the number of tokens consumed -/
theorem arrayLoop_length {p : PM Gen} (hp : ∀ s g s', s.pos ≤ e.toks.size → p e s = .ok g s' → s.pos ≤ s'.pos ∧ s'.pos ≤ e.toks.size) :
    ∀ (n : Nat) (s : PState) (vs : List Gen) (s' : PState), s.pos ≤ e.toks.size → arrayLoop p n e s = .ok vs s' →
    s.pos ≤ s'.pos ∧ s'.pos ≤ e.toks.size ∧ vs.length ≤ n ∧ vs.length ≤ s'.pos - s.pos + 1
  | 0, s, vs, s', hs, h => by
    rw [arrayLoop] at h
    obtain ⟨rfl, rfl⟩ := pure_ok h
    exact ⟨Nat.le_refl _, hs, Nat.le_refl _, by simp⟩
  | n + 1, s, vs, s', hs, h => by
    rw [arrayLoop] at h
    simp only [getTokenpos_bind] at h
    obtain ⟨v, s1, h1, h2⟩ := bind_ok h
    simp only [getTokenpos_bind] at h2
    have r1 := hp s v s1 hs h1
    split at h2
    · obtain ⟨rfl, rfl⟩ := pure_ok h2
      exact ⟨r1.1, r1.2, by simp, by simp⟩
    · rename_i hne
      obtain ⟨vs', s2, h3, h4⟩ := bind_ok h2
      obtain ⟨rfl, rfl⟩ := pure_ok h4
      have r2 := arrayLoop_length hp n s1 vs' s2 r1.2 h3
      refine ⟨by omega, r2.2.1, by simp only [List.length_cons]; omega, ?_⟩
      simp only [List.length_cons]
      omega

theorem seqLoop_ok {f32 : List Char → Option (List Char)} {p : PM Gen} (hp : RelP e f32 p) :
    ∀ (fuel : Nat) (acc : List Gen) (s : PState) (vs : List Gen) (s' : PState), s.pos ≤ e.toks.size →
    seqLoop p fuel acc e s = .ok vs s' → ∃ new, vs = acc.reverse ++ new ∧ Rel e f32 s s' (valuesL new)
  | 0, _, _, _, _, _, h => by cases h
  | fuel + 1, acc, s, vs, s', hs, h => by
    rw [seqLoop] at h
    simp only [getTokenpos_bind] at h
    have hstop : ∀ s1 : PState, ((do setTokenpos s.pos; pure acc.reverse : PM (List Gen)) e s1 = .ok vs s') →
        ∃ new, vs = acc.reverse ++ new ∧ Rel e f32 s s' (valuesL new) := by
      intro s1 h1
      simp only [setTokenpos_bind] at h1
      obtain ⟨rfl, rfl⟩ := pure_ok h1
      exact ⟨[], by simp, (Rel.refl f32 s hs).samePos rfl⟩
    rcases attempt_ok h with ⟨v, s1, h1, h2⟩ | ⟨d, s1, h1, h2⟩
    · simp only [getTokenpos_bind] at h2
      split at h2
      · exact hstop s1 h2
      · have r1 := hp s v s1 hs h1
        obtain ⟨new, hnew, r2⟩ := seqLoop_ok hp fuel (v :: acc) s1 vs s' r1.2.1 h2
        refine ⟨v :: new, by simp [hnew], ?_⟩
        rw [valuesL]
        exact r1.trans r2
    · exact hstop s1 h2

/-- what `parse_ifdata_taggeditem` consumed -/
def TIRel (e : Env) (f32 : List Char → Option (List Char)) (s : PState) : Option (TItem Gen) → PState → Prop
  | none, s' => s'.pos = s.pos
  | some it, s' => Rel e f32 s s' (valuesT [it])

theorem taggedItem_ok {f32 : List Char → Option (List Char)} {d : List Char → Option (Bool × (Ctx → PM Gen))}
    (hd : RelD e f32 d) {ctx : Ctx} {s : PState} {r : Option (TItem Gen)} {s' : PState} (hs : s.pos ≤ e.toks.size)
    (h : taggedItem d ctx e s = .ok r s') : TIRel e f32 s r s' := by
  unfold taggedItem at h
  simp only [getTokenpos_bind, getEnv_bind] at h
  obtain ⟨u, s1, h1, h2⟩ := bind_ok h
  have r0 := skipComments_ok f32 ctx _ s u s1 h1 hs
  have hreset : ∀ s2 : PState, ((do setTokenpos s.pos; pure (none : Option (TItem Gen)) : PM _) e s2 = .ok r s') →
      TIRel e f32 s r s' := by
    intro s2 h3
    simp only [setTokenpos_bind] at h3
    obtain ⟨rfl, rfl⟩ := pure_ok h3
    rfl
  rcases attempt_ok h2 with ⟨bc, s2, h3, h4⟩ | ⟨d', s2, h3, h4⟩
  · have hnt := getNextTagOrComment_ok f32 h3
    cases bc with
    | comment tok off => exact hreset s2 h4
    | none => exact hreset s2 h4
    | block tok isBlock startOff =>
      dsimp only at h4
      cases hdt : d tok.text with
      | none => rw [hdt] at h4; exact hreset s2 h4
      | some bp =>
        obtain ⟨b, p⟩ := bp
        rw [hdt] at h4
        dsimp only at h4
        split at h4
        · exact hreset s2 h4
        · simp only [getNextId_bind] at h4
          obtain ⟨data, s3, h5, h6⟩ := bind_ok h4
          obtain ⟨endOff, s4, h7, h8⟩ := bind_ok h6
          obtain ⟨rfl, rfl⟩ := pure_ok h8
          have r1 : Rel e f32 s1 s2 ((if isBlock then [.begin_] else []) ++ [.ident tok.text]) := hnt
          have r2 := hd _ _ _ hdt _ _ _ _ (show ({ s2 with seqId := s2.seqId + 1 } : PState).pos ≤ _ from r1.2.1) h5
          have r2' : Rel e f32 s2 s3 (values false data) := r2.fromPos rfl
          have r3 := endOfTagged_ok f32 h7 r2'.2.1
          show Rel e f32 s s4 (valuesT [_])
          have := ((r0.trans r1).trans r2').trans r3
          simpa [valuesT, values_makeBlock] using this
  · exact hreset s2 h4

theorem tsLoop_ok {f32 : List Char → Option (List Char)} {d : List Char → Option (Bool × (Ctx → PM Gen))}
    (hd : RelD e f32 d) (rep : List Char → Bool) (ctx : Ctx) : ∀ (fuel : Nat) (acc : List (TItem Gen)) (s : PState)
    (vs : List (TItem Gen)) (s' : PState), s.pos ≤ e.toks.size → tsLoop d rep ctx fuel acc e s = .ok vs s' →
    ∃ new, vs = acc.reverse ++ new ∧ Rel e f32 s s' (valuesT new)
  | 0, _, _, _, _, _, h => by cases h
  | fuel + 1, acc, s, vs, s', hs, h => by
    rw [tsLoop] at h
    obtain ⟨r, s1, h1, h2⟩ := bind_ok h
    have hr := taggedItem_ok hd hs h1
    cases r with
    | none =>
      obtain ⟨rfl, rfl⟩ := pure_ok h2
      exact ⟨[], by simp, (Rel.refl f32 s hs).samePos hr⟩
    | some it =>
      dsimp only at h2
      split at h2
      · cases h2
      have r1 : Rel e f32 s s1 (valuesT [it]) := hr
      obtain ⟨new, hnew, r2⟩ := tsLoop_ok hd rep ctx fuel (it :: acc) s1 vs s' r1.2.1 h2
      refine ⟨it :: new, by simp [hnew], ?_⟩
      rw [valuesT_cons]
      exact r1.trans r2

/-- the tags of a tagged struct that `parse_ifdata_taggedstruct` accepts: equal tags only for repeating members -/
def TagsOk (rep : List Char → Bool) (tags : List (List Char)) : Prop :=
  tags.Pairwise (fun a b => a = b → rep a = true)

theorem tagsOk_snoc {rep : List Char → Bool} {tags : List (List Char)} {tag : List Char} (h : TagsOk rep tags)
    (hnew : ¬ ((tags.any (fun x => x = tag)) = true ∧ rep tag = false)) : TagsOk rep (tags ++ [tag]) := by
  unfold TagsOk at *
  rw [List.pairwise_append]
  refine ⟨h, List.pairwise_singleton _ _, ?_⟩
  intro a ha b hb hab
  rw [List.mem_singleton] at hb
  subst hb
  subst hab
  cases hr : rep a with
  | true => rfl
  | false =>
    exfalso
    apply hnew
    refine ⟨?_, hr⟩
    rw [List.any_eq_true]
    exact ⟨a, ha, by simp⟩

/-- **no duplicate of a non-repeating member**: the items that the loop returns have pairwise different tags, except
    for members that may repeat -/
theorem tsLoop_tagsOk {d : List Char → Option (Bool × (Ctx → PM Gen))} (rep : List Char → Bool) (ctx : Ctx) :
    ∀ (fuel : Nat) (acc : List (TItem Gen)) (s : PState) (vs : List (TItem Gen)) (s' : PState),
    tsLoop d rep ctx fuel acc e s = .ok vs s' → TagsOk rep (acc.reverse.map (·.tag)) → TagsOk rep (vs.map (·.tag))
  | 0, _, _, _, _, h, _ => by cases h
  | fuel + 1, acc, s, vs, s', h, hacc => by
    rw [tsLoop] at h
    obtain ⟨r, s1, h1, h2⟩ := bind_ok h
    cases r with
    | none =>
      obtain ⟨rfl, rfl⟩ := pure_ok h2
      exact hacc
    | some it =>
      dsimp only at h2
      split at h2
      · cases h2
      · rename_i hnd
        refine tsLoop_tagsOk rep ctx fuel (it :: acc) s1 vs s' h2 ?_
        rw [List.reverse_cons, List.map_append]
        refine tagsOk_snoc hacc ?_
        intro hh
        apply hnd
        refine ⟨?_, hh.2⟩
        have := hh.1
        rw [List.any_eq_true] at this ⊢
        obtain ⟨x, hx, hxe⟩ := this
        rw [List.mem_map] at hx
        obtain ⟨y, hy, rfl⟩ := hx
        exact ⟨y, by simpa using hy, by simpa using hxe⟩

theorem scalar_ok {α} {f32 : List Char → Option (List Char)} {m : PM α} {g : α → Nat → Gen} {w : α → List WV}
    {s : PState} {r : Gen} {s' : PState}
    (hm : ∀ v s1, m e s = .ok v s1 → Rel e f32 s s1 (w v))
    (hg : ∀ v off, values false (g v off) = w v)
    (h : (m >>= fun v => getLineOffset >>= fun off => pure (g v off)) e s = .ok r s') :
    Rel e f32 s s' (values false r) := by
  obtain ⟨v, s1, h1, h2⟩ := bind_ok h
  obtain ⟨off, h2⟩ := lineOffset_ok h2
  obtain ⟨rfl, rfl⟩ := pure_ok h2
  rw [hg]
  exact hm v s1 h1

mutual
theorem itemP_ok (f32 : List Char → Option (List Char)) : ∀ (sp : Spec) (ctx : Ctx), RelP e f32 (itemP f32 sp ctx)
  | .none, ctx => by
    intro s g s' hs h
    rw [itemP] at h
    obtain ⟨rfl, rfl⟩ := pure_ok h
    exact Rel.refl f32 s hs
  | .int w, ctx => by
    intro s g s' hs h
    rw [itemP] at h
    obtain ⟨⟨v, hex⟩, s1, h1, h2⟩ := bind_ok h
    obtain ⟨off, h2⟩ := lineOffset_ok h2
    obtain ⟨rfl, rfl⟩ := pure_ok h2
    exact getInteger_ok f32 h1
  | .float, ctx => by
    intro s g s' hs h
    rw [itemP] at h
    exact scalar_ok (w := fun v => [.f32 v]) (fun v s1 h1 => getFloat_ok f32 h1) (fun _ _ => rfl) h
  | .double, ctx => by
    intro s g s' hs h
    rw [itemP] at h
    exact scalar_ok (w := fun v => [.f64 v]) (fun v s1 h1 => getDouble_ok f32 h1) (fun _ _ => rfl) h
  | .array of dim, ctx => by
    intro s g s' hs h
    rw [itemP.eq_def] at h
    dsimp only at h
    split at h
    · exact scalar_ok (w := fun v => [.str v]) (fun v s1 h1 => getStringMaxlen_ok f32 h1) (fun _ _ => rfl) h
    · obtain ⟨vs, s1, h1, h2⟩ := bind_ok h
      obtain ⟨rfl, rfl⟩ := pure_ok h2
      rw [values]
      exact arrayLoop_ok (itemP_ok f32 of ctx) dim s vs s1 hs h1
  | .enum items, ctx => by
    intro s g s' hs h
    rw [itemP] at h
    obtain ⟨v, s1, h1, h2⟩ := bind_ok h
    obtain ⟨off, h2⟩ := lineOffset_ok h2
    split at h2
    · obtain ⟨rfl, rfl⟩ := pure_ok h2
      exact getIdentifier_ok f32 h1
    · cases h2
  | .struct items, ctx => by
    intro s g s' hs h
    rw [itemP] at h
    obtain ⟨vs, s1, h1, h2⟩ := bind_ok h
    obtain ⟨rfl, rfl⟩ := pure_ok h2
    rw [values]
    exact itemsP_ok f32 items ctx s vs s1 hs h1
  | .seq of, ctx => by
    intro s g s' hs h
    rw [itemP] at h
    simp only [getEnv_bind] at h
    obtain ⟨vs, s1, h1, h2⟩ := bind_ok h
    obtain ⟨rfl, rfl⟩ := pure_ok h2
    obtain ⟨new, hnew, r⟩ := seqLoop_ok (itemP_ok f32 of ctx) _ [] s vs s1 hs h1
    rw [values, hnew]
    simpa using r
  | .taggedStruct items, ctx => by
    intro s g s' hs h
    rw [itemP] at h
    simp only [getEnv_bind] at h
    obtain ⟨vs, s1, h1, h2⟩ := bind_ok h
    obtain ⟨rfl, rfl⟩ := pure_ok h2
    obtain ⟨new, hnew, r⟩ := tsLoop_ok (dispatch_ok f32 items) _ ctx _ [] s vs s1 hs h1
    rw [values, hnew]
    simpa using r
  | .taggedUnion items, ctx => by
    intro s g s' hs h
    rw [itemP] at h
    obtain ⟨r, s1, h1, h2⟩ := bind_ok h
    have hr := taggedItem_ok (dispatch_ok f32 items) hs h1
    cases r with
    | none =>
      obtain ⟨rfl, rfl⟩ := pure_ok h2
      rw [values, valuesT]
      exact (Rel.refl f32 s hs).samePos hr
    | some it =>
      obtain ⟨rfl, rfl⟩ := pure_ok h2
      rw [values]
      exact hr

theorem itemsP_ok (f32 : List Char → Option (List Char)) : ∀ (l : List Spec) (ctx : Ctx) (s : PState) (vs : List Gen)
    (s' : PState), s.pos ≤ e.toks.size → itemsP f32 l ctx e s = .ok vs s' → Rel e f32 s s' (valuesL vs)
  | [], ctx, s, vs, s', hs, h => by
    rw [itemsP] at h
    obtain ⟨rfl, rfl⟩ := pure_ok h
    exact Rel.refl f32 s hs
  | sp :: rest, ctx, s, vs, s', hs, h => by
    rw [itemsP] at h
    obtain ⟨v, s1, h1, h2⟩ := bind_ok h
    obtain ⟨vs', s2, h3, h4⟩ := bind_ok h2
    obtain ⟨rfl, rfl⟩ := pure_ok h4
    have r1 := itemP_ok f32 sp ctx s v s1 hs h1
    have r2 := itemsP_ok f32 rest ctx s1 vs' s2 r1.2.1 h3
    rw [valuesL]
    exact r1.trans r2

theorem dispatch_ok (f32 : List Char → Option (List Char)) : ∀ (l : List (Tagged Spec)), RelD e f32 (dispatch f32 l)
  | [] => by
    intro tag b p h
    rw [dispatch] at h
    cases h
  | t :: rest => by
    intro tag b p h
    rw [dispatch] at h
    split at h
    · cases h
      intro ctx
      exact itemP_ok f32 t.item ctx
    · exact dispatch_ok f32 rest tag b p h
end

/-- what the interpreter returns for a tagged struct has no duplicate of a non-repeating member -/
theorem itemP_taggedStruct_tagsOk (f32 : List Char → Option (List Char)) (items : List (Tagged Spec)) (ctx : Ctx)
    (s s' : PState) (g : Gen) (h : itemP f32 (.taggedStruct items) ctx e s = .ok g s') :
    ∃ vs, g = .taggedStruct vs ∧ TagsOk (repOf items) (vs.map (·.tag)) := by
  rw [itemP] at h
  simp only [getEnv_bind] at h
  obtain ⟨vs, s1, h1, h2⟩ := bind_ok h
  obtain ⟨rfl, rfl⟩ := pure_ok h2
  exact ⟨vs, rfl, tsLoop_tagsOk _ ctx _ [] s vs s1 h1 List.Pairwise.nil⟩

/-- the elements of an interpreted array: at most `dim`, and at most one more than the tokens consumed -/
theorem itemP_array_length (f32 : List Char → Option (List Char)) (of : Spec) (dim : Nat) (ctx : Ctx) (s s' : PState)
    (g : Gen) (hs : s.pos ≤ e.toks.size) (h : itemP f32 (.array of dim) ctx e s = .ok g s') :
    ∀ vs, g = .array vs → vs.length ≤ dim ∧ vs.length ≤ s'.pos - s.pos + 1 := by
  rw [itemP.eq_def] at h
  dsimp only at h
  split at h
  · obtain ⟨v, s1, h1, h2⟩ := bind_ok h
    obtain ⟨off, h2⟩ := lineOffset_ok h2
    obtain ⟨rfl, rfl⟩ := pure_ok h2
    intro vs hvs; cases hvs
  · obtain ⟨vs, s1, h1, h2⟩ := bind_ok h
    obtain ⟨rfl, rfl⟩ := pure_ok h2
    intro vs' hvs
    cases hvs
    have := arrayLoop_length (p := itemP f32 of ctx)
      (fun s g s' hs h => by have := itemP_ok f32 of ctx s g s' hs h; exact ⟨this.1, this.2.1⟩) dim s vs s1 hs h1
    exact ⟨this.2.2.1, this.2.2.2⟩

/-- the cursor is at a `/end` token -/
def AtEnd (e : Env) (s : PState) : Prop := ∃ t, e.toks[s.pos]? = some t ∧ t.ty = 2

/-- outcome of one attempt to interpret the content with a definition -/
def FSRel (e : Env) (f32 : List Char → Option (List Char)) (s : PState) : Option Gen → PState → Prop
  | none, s' => s'.pos = s.pos
  | some g, s' => Rel e f32 s s' (values true g) ∧ AtEnd e s'

theorem fromSpec_ok {f32 : List Char → Option (List Char)} {ctx : Ctx} {sp : Spec} {s : PState} {r : Option Gen}
    {s' : PState} (hs : s.pos ≤ e.toks.size) (h : fromSpec f32 ctx sp e s = .ok r s') : FSRel e f32 s r s' := by
  unfold fromSpec at h
  simp only [getTokenpos_bind] at h
  have hreset : ∀ s1 : PState, ((do setTokenpos s.pos; pure (none : Option Gen) : PM _) e s1 = .ok r s') →
      FSRel e f32 s r s' := by
    intro s1 h1
    simp only [setTokenpos_bind] at h1
    obtain ⟨rfl, rfl⟩ := pure_ok h1
    rfl
  rcases attempt_ok h with ⟨g, s1, h1, h2⟩ | ⟨d, s1, h1, h2⟩
  · dsimp only at h2
    simp only [getEnv_bind] at h2
    obtain ⟨u, s2, h3, h4⟩ := bind_ok h2
    have r1 := itemP_ok f32 sp ctx s g s1 hs h1
    have r2 := skipComments_ok f32 ctx _ s1 u s2 h3 r1.2.1
    simp only [peekToken_bind] at h4
    cases ht : e.toks[s2.pos]? with
    | none => rw [ht] at h4; exact hreset s2 h4
    | some t =>
      rw [ht] at h4
      dsimp only at h4
      split at h4
      · rename_i h2'
        obtain ⟨rfl, rfl⟩ := pure_ok h4
        refine ⟨?_, t, ht, h2'⟩
        rw [values_makeBlock]
        simpa using r1.trans r2
      · exact hreset s2 h4
  · exact hreset s1 h2

theorem trySpecs_ok {f32 : List Char → Option (List Char)} {ctx : Ctx} : ∀ (specs : List Spec) (s : PState)
    (r : Option Gen) (s' : PState), s.pos ≤ e.toks.size → trySpecs f32 ctx specs e s = .ok r s' → FSRel e f32 s r s'
  | [], s, r, s', _, h => by
    rw [trySpecs] at h
    obtain ⟨rfl, rfl⟩ := pure_ok h
    rfl
  | sp :: rest, s, r, s', hs, h => by
    rw [trySpecs] at h
    obtain ⟨r1, s1, h1, h2⟩ := bind_ok h
    have hr := fromSpec_ok hs h1
    cases r1 with
    | some g =>
      obtain ⟨rfl, rfl⟩ := pure_ok h2
      exact hr
    | none =>
      dsimp only at h2
      have hp : s1.pos = s.pos := hr
      have := trySpecs_ok rest s1 r s' (by omega) h2
      cases r with
      | none => exact (show s'.pos = s1.pos from this).trans hp
      | some g => exact ⟨this.1.fromPos hp.symm, this.2⟩

theorem parseIfdata_valid_ok {f32 : List Char → Option (List Char)} {specs : List Spec} {ctx : Ctx} {s : PState}
    {r : Option Gen} {s' : PState} (h : parseIfdata f32 specs ctx e s = .ok (r, true) s') :
    ∃ g, r = some g ∧ Rel e f32 s s' (values true g) ∧ AtEnd e s' := by
  unfold parseIfdata at h
  simp only [peekToken_bind] at h
  cases ht : e.toks[s.pos]? with
  | none => rw [ht] at h; cases h
  | some t =>
    have hlt := lt_of_getElem?_some ht
    rw [ht] at h
    dsimp only at h
    split at h
    · obtain ⟨r1, s1, h1, h2⟩ := bind_ok h
      have hr := trySpecs_ok specs s r1 s1 (Nat.le_of_lt hlt) h1
      cases r1 with
      | some g =>
        cases h2
        exact ⟨g, rfl, hr⟩
      | none =>
        dsimp only at h2
        obtain ⟨g, s2, h3, h4⟩ := bind_ok h2
        cases h4
    · cases h

end A2l.IfData
