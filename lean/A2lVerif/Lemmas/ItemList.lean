import A2lVerif.Model.ItemList
/-! Helper lemmas for C13 (association-list map, the coherence invariant, one lemma per mutator). -/

namespace A2l

@[simp] theorem Map.get_nil (k : String) : Map.get [] k = none := rfl

theorem Map.get_insert_self (m : Map) (k : String) (v : Nat) : (m.insert k v).get k = some v := by
  simp [Map.get, Map.insert]

theorem Map.get_filter_ne (m : Map) {k k' : String} (h : k ≠ k') :
    Map.get (m.filter (·.1 != k)) k' = m.get k' := by
  simp only [Map.get]
  congr 1
  induction m with
  | nil => simp
  | cons a m ih =>
    simp only [List.filter_cons]
    by_cases h1 : a.1 = k
    · subst h1
      have : (a.1 == k') = false := by simpa using h
      simp [this, ih]
    · have : (a.1 != k) = true := by simpa using h1
      simp only [this, ↓reduceIte, List.find?_cons]
      split <;> simp_all

theorem Map.get_insert_ne (m : Map) {k k' : String} (v : Nat) (h : k ≠ k') :
    (m.insert k v).get k' = m.get k' := by
  have hk : ((k == k') = false) := by simpa using h
  have := Map.get_filter_ne m h
  simp only [Map.get, Map.insert, List.find?_cons, hk] at this ⊢
  exact this

theorem Map.get_erase_self (m : Map) (k : String) : (m.erase k).get k = none := by
  simp [Map.get, Map.erase, List.find?_eq_none]

theorem Map.get_erase_ne (m : Map) {k k' : String} (h : k ≠ k') : (m.erase k).get k' = m.get k' :=
  Map.get_filter_ne m h

theorem Map.get_insert (m : Map) (k k' : String) (v : Nat) :
    (m.insert k v).get k' = if k = k' then some v else m.get k' := by
  by_cases h : k = k'
  · subst h; simp [Map.get_insert_self]
  · simp [h, Map.get_insert_ne m v h]

theorem Map.get_erase (m : Map) (k k' : String) :
    (m.erase k).get k' = if k = k' then none else m.get k' := by
  by_cases h : k = k'
  · subst h; simp [Map.get_erase_self]
  · simp [h, Map.get_erase_ne m h]

namespace IL

/-- Coherence of name index and positions: every position is indexed under its name, and every index entry
    points at a position holding that name. -/
def Inv (l : IL) : Prop :=
  (∀ i (h : i < l.items.length), l.map.get l.items[i] = some i) ∧
  (∀ k i, l.map.get k = some i → l.items[i]? = some k)

/-- The invariant as a single equivalence: position `i` holds `k` iff the index maps `k` to `i`. -/
theorem inv_iff_lookup (l : IL) : l.Inv ↔ ∀ i k, l.items[i]? = some k ↔ l.map.get k = some i := by
  constructor
  · intro h i k
    constructor
    · intro hik
      rcases List.getElem?_eq_some_iff.1 hik with ⟨hlt, rfl⟩
      exact h.1 i hlt
    · exact h.2 k i
  · intro h
    exact ⟨fun i hi => (h i _).1 (List.getElem?_eq_getElem hi), fun k i hk => (h i k).2 hk⟩

theorem Inv.lookup {l : IL} (h : l.Inv) (i : Nat) (k : String) :
    l.items[i]? = some k ↔ l.map.get k = some i := (inv_iff_lookup l).1 h i k

theorem Inv.inj {l : IL} (h : l.Inv) {i j : Nat} (hi : i < l.items.length) (hj : j < l.items.length)
    (heq : l.items[i] = l.items[j]) : i = j := by
  have h1 := h.1 i hi
  have h2 := h.1 j hj
  rw [heq] at h1
  rw [h1] at h2; exact Option.some.inj h2

theorem Inv.inj? {l : IL} (h : l.Inv) {i j : Nat} {k : String}
    (hi : l.items[i]? = some k) (hj : l.items[j]? = some k) : i = j := by
  have h1 := (h.lookup i k).1 hi
  have h2 := (h.lookup j k).1 hj
  rw [h1] at h2; exact Option.some.inj h2

theorem Inv.get_none {l : IL} (h : l.Inv) {k : String} (hk : k ∉ l.items) : l.map.get k = none := by
  cases hg : l.map.get k with
  | none => rfl
  | some i =>
    have := h.2 k i hg
    exact absurd (List.mem_of_getElem? this) hk

theorem Inv.nodup {l : IL} (h : l.Inv) : l.items.Nodup := by
  rw [List.Nodup, List.pairwise_iff_getElem]
  intro i j hi hj hlt heq
  have := h.inj hi hj heq
  omega

theorem empty_inv : empty.Inv :=
  ⟨fun i h => by simp [empty] at h, fun k i h => by simp [empty] at h⟩

/-! ### push -/

theorem push_items (l : IL) (x : String) : (l.push x).items = l.items ++ [x] := rfl

theorem push_inv (l : IL) (x : String) (h : l.Inv) (hnew : x ∉ l.items) : (l.push x).Inv := by
  have hn := h.get_none hnew
  obtain ⟨h1, h2⟩ := h
  constructor
  · intro i hi
    simp only [push, hn, List.length_append, List.length_singleton] at hi ⊢
    by_cases hlt : i < l.items.length
    · have hne : x ≠ l.items[i] := fun he => hnew (he ▸ List.getElem_mem hlt)
      rw [List.getElem_append_left hlt, Map.get_insert_ne _ _ hne]; exact h1 i hlt
    · have : i = l.items.length := by omega
      subst this; simp [Map.get_insert_self]
  · intro k i hk
    simp only [push, hn] at hk ⊢
    by_cases hkx : x = k
    · subst hkx; rw [Map.get_insert_self] at hk; cases hk; simp
    · rw [Map.get_insert_ne _ _ hkx] at hk
      have := h2 k i hk
      have hlt : i < l.items.length := by
        rcases List.getElem?_eq_some_iff.1 this with ⟨hlt, _⟩; exact hlt
      rw [List.getElem?_append_left hlt]; exact this

/-! ### pop -/

theorem pop_spec (l : IL) : (l.pop.1.items, l.pop.2) = (l.items.dropLast, l.items.getLast?) := by
  unfold pop
  cases hl : l.items.getLast? with
  | none =>
    have : l.items = [] := by simpa using hl
    simp [this]
  | some x => rfl

theorem pop_inv (l : IL) (h : l.Inv) : (l.pop).1.Inv := by
  unfold pop
  cases hl : l.items.getLast? with
  | none => exact h
  | some x =>
    have hne : l.items ≠ [] := by intro he; simp [he] at hl
    have hlen : 0 < l.items.length := List.length_pos_iff.mpr hne
    have hlast : l.items[l.items.length - 1]'(by omega) = x := by
      have h1 := List.getLast_eq_getElem hne
      rw [List.getLast?_eq_some_getLast hne] at hl
      have hx : l.items.getLast hne = x := Option.some.inj hl
      rw [← hx, h1]
    obtain ⟨h1, h2⟩ := h
    constructor
    · intro i hi
      simp only [List.length_dropLast] at hi
      have hlt : i < l.items.length := by omega
      have hget : l.items.dropLast[i]'(by simp [List.length_dropLast]; omega) = l.items[i] := by
        simp [List.getElem_dropLast]
      show (l.map.erase x).get (l.items.dropLast[i]'(by simp [List.length_dropLast]; omega)) = some i
      rw [hget]
      have hne' : x ≠ l.items[i] := by
        intro he
        have := Inv.inj ⟨h1, h2⟩ hlt (show l.items.length - 1 < l.items.length by omega) (by rw [hlast, he])
        omega
      rw [Map.get_erase_ne _ hne']; exact h1 i hlt
    · intro k i hk
      show l.items.dropLast[i]? = some k
      have hk' : (l.map.erase x).get k = some i := hk
      by_cases hkx : x = k
      · subst hkx; rw [Map.get_erase_self] at hk'; cases hk'
      · rw [Map.get_erase_ne _ hkx] at hk'
        have hik := h2 k i hk'
        rcases List.getElem?_eq_some_iff.1 hik with ⟨hlt, hik'⟩
        have hi' : i ≠ l.items.length - 1 := by
          intro he
          subst he; rw [hlast] at hik'; exact hkx hik'
        rw [List.getElem?_eq_some_iff]
        exact ⟨by simp [List.length_dropLast]; omega, by simp [List.getElem_dropLast, hik']⟩

/-! ### rebuild (used by truncate, retain, sort_by) -/

theorem rebuildFrom_get_of_not_mem (m : Map) (start : Nat) (xs : List String) (k : String) (hk : k ∉ xs) :
    (rebuildFrom m start xs).get k = m.get k := by
  induction xs generalizing m start with
  | nil => rfl
  | cons x xs ih =>
    simp only [List.mem_cons, not_or] at hk
    simp only [rebuildFrom]
    rw [ih _ _ hk.2, Map.get_insert_ne _ _ (Ne.symm hk.1)]

theorem rebuildFrom_get_mem (m : Map) (start : Nat) (xs : List String) (hnd : xs.Nodup) :
    ∀ i (h : i < xs.length), (rebuildFrom m start xs).get xs[i] = some (start + i) := by
  induction xs generalizing m start with
  | nil => intro i h; simp at h
  | cons x xs ih =>
    intro i h
    simp only [List.nodup_cons] at hnd
    cases i with
    | zero =>
      simp only [rebuildFrom, List.getElem_cons_zero, Nat.add_zero]
      rw [rebuildFrom_get_of_not_mem _ _ _ _ hnd.1, Map.get_insert_self]
    | succ j =>
      simp only [rebuildFrom, List.getElem_cons_succ]
      have := ih (m.insert x start) (start + 1) hnd.2 j (by simpa using h)
      rw [this]; congr 1; omega

theorem rebuildFrom_get_some (m : Map) (start : Nat) (xs : List String) (k : String) (i : Nat)
    (h : (rebuildFrom m start xs).get k = some i) :
    (k ∈ xs ∧ ∃ j, i = start + j ∧ xs[j]? = some k) ∨ (k ∉ xs ∧ m.get k = some i) := by
  by_cases hk : k ∈ xs
  · left
    refine ⟨hk, ?_⟩
    induction xs generalizing m start with
    | nil => simp at hk
    | cons x xs ih =>
      simp only [rebuildFrom] at h
      by_cases hk' : k ∈ xs
      · obtain ⟨j, hj, hjk⟩ := ih (m.insert x start) (start + 1) h hk'
        exact ⟨j + 1, by omega, by simpa using hjk⟩
      · rw [rebuildFrom_get_of_not_mem _ _ _ _ hk'] at h
        have hkx : k = x := by
          rcases List.mem_cons.1 hk with h' | h'
          · exact h'
          · exact absurd h' hk'
        subst hkx
        rw [Map.get_insert_self] at h
        exact ⟨0, by have := Option.some.inj h; omega, by simp⟩
  · right
    exact ⟨hk, by rw [rebuildFrom_get_of_not_mem _ _ _ _ hk] at h; exact h⟩

theorem rebuild_inv (items : List String) (hnd : items.Nodup) : (rebuild items).Inv := by
  constructor
  · intro i h
    have := rebuildFrom_get_mem [] 0 items hnd i h
    rw [Nat.zero_add] at this
    exact this
  · intro k i h
    rcases rebuildFrom_get_some [] 0 items k i h with ⟨_, j, hj, hjk⟩ | ⟨_, hm⟩
    · have : i = j := by omega
      subst this; exact hjk
    · simp at hm

theorem truncate_inv (l : IL) (n : Nat) (h : l.Inv) : (l.truncate n).Inv := by
  unfold truncate; split
  · exact rebuild_inv _ (h.nodup.sublist (List.take_sublist _ _))
  · exact h

theorem truncate_items (l : IL) (n : Nat) : (l.truncate n).items = l.items.take n := by
  unfold truncate; split
  · rfl
  · rw [List.take_of_length_le (by omega)]

theorem retain_inv (l : IL) (keep : String → Bool) (h : l.Inv) : (l.retain keep).Inv :=
  rebuild_inv _ (h.nodup.sublist List.filter_sublist)

theorem sortBy_inv (l : IL) (le : String → String → Bool) (h : l.Inv) : (l.sortBy le).Inv :=
  rebuild_inv _ ((List.mergeSort_perm l.items le).nodup_iff.2 h.nodup)

/-! ### swap_remove / swap_remove_idx -/

theorem length_vecSwapRemove (xs : List String) (i : Nat) : (vecSwapRemove xs i).length = xs.length - 1 := by
  simp [vecSwapRemove]

theorem getElem?_vecSwapRemove (xs : List String) (i j : Nat) (last : String)
    (hlast : xs[xs.length - 1]? = some last) (hi : i < xs.length) :
    (vecSwapRemove xs i)[j]? =
      if j < xs.length - 1 then (if i = j then some last else xs[j]?) else none := by
  simp only [vecSwapRemove, List.getElem?_dropLast, List.length_set, List.getElem?_set,
    List.getLast?_eq_getElem?, hlast, Option.getD_some, hi, if_true]

theorem swapRemoveIdx_inv (l : IL) (i : Nat) (h : l.Inv) : (l.swapRemoveIdx i).1.Inv := by
  unfold swapRemoveIdx
  cases hi : l.items[i]? with
  | none => exact h
  | some item =>
    rcases List.getElem?_eq_some_iff.1 hi with ⟨hlt, _⟩
    have hlast' : l.items[l.items.length - 1]? = some (l.items[l.items.length - 1]'(by omega)) :=
      List.getElem?_eq_getElem (by omega)
    generalize l.items[l.items.length - 1]'(by omega) = last at hlast'
    have hget := fun j => getElem?_vecSwapRemove l.items i j last hlast' hlt
    rw [inv_iff_lookup]
    intro j k
    simp only [hget]
    by_cases hil : i < l.items.length - 1
    · -- an inner element is replaced by the last one
      simp only [hil, if_true, Map.get_insert, Map.get_erase]
      by_cases hjl : j < l.items.length - 1
      · simp only [hjl, if_true]
        by_cases hij : i = j
        · subst hij
          simp only [if_true]
          constructor
          · intro hk; cases hk; simp
          · intro hk
            by_cases hlk : last = k
            · simp [hlk]
            · simp only [hlk, if_false] at hk
              by_cases hik : item = k
              · simp [hik] at hk
              · simp only [hik, if_false] at hk
                have := (h.lookup i k).2 hk
                rw [hi] at this; exact absurd (Option.some.inj this) hik
        · simp only [hij, if_false]
          constructor
          · intro hk
            have hlk : last ≠ k := by
              intro he; subst he
              have := h.inj? hk hlast'; omega
            have hik : item ≠ k := by
              intro he; subst he
              have := h.inj? hk hi; omega
            simp only [hlk, hik, if_false]
            exact (h.lookup j k).1 hk
          · intro hk
            by_cases hlk : last = k
            · simp only [hlk, if_true] at hk; exact absurd (Option.some.inj hk) hij
            · simp only [hlk, if_false] at hk
              by_cases hik : item = k
              · simp [hik] at hk
              · simp only [hik, if_false] at hk
                exact (h.lookup j k).2 hk
      · simp only [hjl, if_false]
        constructor
        · intro hk; cases hk
        · intro hk
          exfalso
          by_cases hlk : last = k
          · simp only [hlk, if_true] at hk; have := Option.some.inj hk; omega
          · simp only [hlk, if_false] at hk
            by_cases hik : item = k
            · simp [hik] at hk
            · simp only [hik, if_false] at hk
              have hjk := (h.lookup j k).2 hk
              rcases List.getElem?_eq_some_iff.1 hjk with ⟨hjlt, _⟩
              have hj : j = l.items.length - 1 := by omega
              subst hj
              rw [hlast'] at hjk; exact hlk (Option.some.inj hjk)
    · -- the last element is removed
      have hie : i = l.items.length - 1 := by omega
      have hitem : item = last := by
        rw [hie, hlast'] at hi; exact (Option.some.inj hi).symm
      subst hitem
      simp only [hil, if_false, Map.get_erase]
      by_cases hjl : j < l.items.length - 1
      · have hij : i ≠ j := by omega
        simp only [hjl, if_true, hij, if_false]
        constructor
        · intro hk
          have hik : item ≠ k := by
            intro he; subst he
            have := h.inj? hk hi; omega
          simp only [hik, if_false]
          exact (h.lookup j k).1 hk
        · intro hk
          by_cases hik : item = k
          · simp [hik] at hk
          · simp only [hik, if_false] at hk
            exact (h.lookup j k).2 hk
      · simp only [hjl, if_false]
        constructor
        · intro hk; cases hk
        · intro hk
          exfalso
          by_cases hik : item = k
          · simp [hik] at hk
          · simp only [hik, if_false] at hk
            have hjk := (h.lookup j k).2 hk
            rcases List.getElem?_eq_some_iff.1 hjk with ⟨hjlt, _⟩
            have hj : j = i := by omega
            subst hj
            rw [hi] at hjk; exact hik (Option.some.inj hjk)

theorem swapRemoveIdx_spec (l : IL) (i : Nat) :
    ((l.swapRemoveIdx i).1.items, (l.swapRemoveIdx i).2) = specStep l.items (.swapRemoveIdx i) := by
  show _ = (match l.items[i]? with
    | none => (l.items, none)
    | some x => (vecSwapRemove l.items i, some x))
  unfold swapRemoveIdx
  cases l.items[i]? <;> rfl

/-- with a coherent index, `swap_remove(key)` is `swap_remove_idx` at the key's position -/
theorem swapRemove_eq (l : IL) (k : String) (h : l.Inv) :
    l.swapRemove k = match l.map.get k with
      | none => .ok (l, none)
      | some i => .ok (l.swapRemoveIdx i) := by
  unfold swapRemove
  cases hk : l.map.get k with
  | none => rfl
  | some i =>
    have := h.2 k i hk
    simp only [swapRemoveIdx, this]

/-! ### lookups against the linear-search specification -/

theorem Inv.index_eq_spec {l : IL} (h : l.Inv) (k : String) : l.map.get k = specIndex l.items k := by
  unfold specIndex
  by_cases hk : k ∈ l.items
  · have hlt : l.items.idxOf k < l.items.length := List.idxOf_lt_length_iff.2 hk
    simp only [hlt, if_true]
    exact (h.lookup _ k).1 (List.getElem?_eq_some_iff.2 ⟨hlt, List.getElem_idxOf hlt⟩)
  · have hlt : ¬ l.items.idxOf k < l.items.length := fun hlt => hk (List.idxOf_lt_length_iff.1 hlt)
    simp only [hlt, if_false]
    exact h.get_none hk

theorem Inv.get_eq_spec {l : IL} (h : l.Inv) (k : String) :
    l.get k = .ok (if k ∈ l.items then some k else none) := by
  unfold get
  cases hk : l.map.get k with
  | none =>
    have : k ∉ l.items := by
      intro hmem
      obtain ⟨i, hi⟩ := List.mem_iff_getElem?.1 hmem
      have := (h.lookup i k).1 hi
      rw [hk] at this; cases this
    simp [this]
  | some i =>
    have hi := h.2 k i hk
    have : k ∈ l.items := List.mem_of_getElem? hi
    simp [hi, this]

theorem Inv.containsKey_eq_spec {l : IL} (h : l.Inv) (k : String) :
    l.containsKey k = decide (k ∈ l.items) := by
  unfold containsKey Map.contains
  rw [h.index_eq_spec k]
  unfold specIndex
  by_cases hk : k ∈ l.items
  · have hlt : l.items.idxOf k < l.items.length := List.idxOf_lt_length_iff.2 hk
    simp [hlt, hk]
  · have hlt : ¬ l.items.idxOf k < l.items.length := fun hlt => hk (List.idxOf_lt_length_iff.1 hlt)
    simp [hlt, hk]

theorem swapRemove_ok (l : IL) (k : String) (h : l.Inv) :
    ∃ l' r, l.swapRemove k = .ok (l', r) ∧ l'.Inv ∧ (l'.items, r) = specStep l.items (.swapRemove k) := by
  rw [swapRemove_eq l k h]
  have hidx := h.index_eq_spec k
  show ∃ (l' : IL) (r : Option String), _ ∧ _ ∧ (l'.items, r) = (match specIndex l.items k with
    | none => (l.items, none)
    | some i => (vecSwapRemove l.items i, some k))
  rw [← hidx]
  cases hk : l.map.get k with
  | none => exact ⟨l, none, rfl, h, rfl⟩
  | some i =>
    refine ⟨_, _, rfl, swapRemoveIdx_inv l i h, ?_⟩
    have hi := h.2 k i hk
    simp only [hi]

/-! ### rename_item -/

theorem renameItem_items (l : IL) (i : Nat) (n : String) : (l.renameItem i n).items = l.items.set i n := by
  unfold renameItem
  cases hi : l.items[i]? with
  | none =>
    have : l.items.length ≤ i := by simpa using hi
    simp [List.set_eq_of_length_le this]
  | some old => rfl

theorem renameItem_inv (l : IL) (i : Nat) (n : String) (h : l.Inv)
    (hok : n ∉ l.items ∨ l.items[i]? = some n) : (l.renameItem i n).Inv := by
  unfold renameItem
  cases hi : l.items[i]? with
  | none => exact h
  | some old =>
    rcases List.getElem?_eq_some_iff.1 hi with ⟨hlt, _⟩
    have hfresh : ∀ j, l.items[j]? = some n → j = i := by
      intro j hj
      rcases hok with hn | hn
      · exact absurd (List.mem_of_getElem? hj) hn
      · rw [hi] at hn; exact h.inj? hj (hi.trans hn)
    rw [inv_iff_lookup]
    intro j k
    simp only [List.getElem?_set, hlt, if_true, Map.get_insert, Map.get_erase]
    by_cases hij : i = j
    · subst hij
      simp only [if_true]
      constructor
      · intro hk; cases hk; simp
      · intro hk
        by_cases hnk : n = k
        · simp [hnk]
        · simp only [hnk, if_false] at hk
          by_cases hok' : old = k
          · simp [hok'] at hk
          · simp only [hok', if_false] at hk
            have := (h.lookup i k).2 hk
            rw [hi] at this; exact absurd (Option.some.inj this) hok'
    · simp only [hij, if_false]
      constructor
      · intro hk
        have hnk : n ≠ k := by
          intro he; subst he
          have := hfresh j hk; omega
        have hok' : old ≠ k := by
          intro he; subst he
          have := h.inj? hk hi; omega
        simp only [hnk, hok', if_false]
        exact (h.lookup j k).1 hk
      · intro hk
        by_cases hnk : n = k
        · simp only [hnk, if_true] at hk; exact absurd (Option.some.inj hk) hij
        · simp only [hnk, if_false] at hk
          by_cases hok' : old = k
          · simp [hok'] at hk
          · simp only [hok', if_false] at hk
            exact (h.lookup j k).2 hk

/-! ### extend / clear / collect -/

theorem extend_cons (l : IL) (y : String) (ys : List String) :
    l.extend (y :: ys) = (l.push y).extend ys := rfl

theorem extend_items (l : IL) (ys : List String) : (l.extend ys).items = l.items ++ ys := by
  induction ys generalizing l with
  | nil => simp [extend]
  | cons y ys ih => rw [extend_cons, ih, push_items]; simp

theorem extend_inv (l : IL) (ys : List String) (h : l.Inv) (hnd : ys.Nodup)
    (hfresh : ∀ y ∈ ys, y ∉ l.items) : (l.extend ys).Inv := by
  induction ys generalizing l with
  | nil => exact h
  | cons y ys ih =>
    rw [extend_cons]
    rw [List.nodup_cons] at hnd
    refine ih (l.push y) (push_inv l y h (hfresh y (List.mem_cons_self))) hnd.2 ?_
    intro y' hy' hmem
    rw [push_items, List.mem_append, List.mem_singleton] at hmem
    rcases hmem with hmem | hmem
    · exact hfresh y' (List.mem_cons_of_mem _ hy') hmem
    · subst hmem; exact hnd.1 hy'

theorem clear_inv (l : IL) : l.clear.Inv := empty_inv

theorem collect_items (ys : List String) : (collect ys).items = ys := by
  unfold collect; rw [extend_items]; rfl

theorem collect_inv (ys : List String) (hnd : ys.Nodup) : (collect ys).Inv :=
  extend_inv empty ys empty_inv hnd (fun _ _ hmem => by simp [empty] at hmem)

end IL
end A2l
