import A2lVerif.Model.Encoding
/-! helper lemmas for C17 -/
namespace A2l.Enc

theorem char_range (c : Char) : c.toNat < 0xD800 ∨ (0xDFFF < c.toNat ∧ c.toNat < 0x110000) := by
  have h := c.valid
  exact h

theorem validScalar_toNat (c : Char) : validScalar c.toNat = true := by
  simp only [validScalar, Bool.or_eq_true, decide_eq_true_eq, Bool.and_eq_true]
  rcases char_range c with h | ⟨h1, h2⟩
  · left; exact h
  · right; exact ⟨by omega, h2⟩

theorem toNat_toUInt8_mod (n : Nat) : (n % 256).toUInt8.toNat = n % 256 := by
  simp [Nat.toUInt8, UInt8.toNat_ofNat']

theorem u32of_bytes32 (be : Bool) (n : Nat) (h : n < 4294967296) :
    (match bytes32 be n with
     | [a, b, c, d] => (if be then u32of a b c d else u32of d c b a) = n
     | _ => False) := by
  cases be <;> simp only [bytes32, u32of, toNat_toUInt8_mod, Bool.false_eq_true, ↓reduceIte] <;> omega

theorem decode32_bytes32_append (be : Bool) (n : Nat) (h : n < 4294967296) (r : Bytes) :
    decode32 be (bytes32 be n ++ r) =
      if validScalar n then (decode32 be r).map (Char.ofNat n :: ·) else none := by
  have hb := u32of_bytes32 be n h
  cases be <;>
    simp only [bytes32, Bool.false_eq_true, ↓reduceIte, List.cons_append, List.nil_append, decode32] at hb ⊢ <;>
    simp only [hb]

theorem decode32_roundtrip (be : Bool) (s : List Char) : decode32 be (encode32 be s) = some s := by
  induction s with
  | nil => simp [encode32, decode32]
  | cons c s ih =>
    have hlt : c.toNat < 4294967296 := by
      rcases char_range c with h | ⟨_, h2⟩ <;> omega
    have hcons : encode32 be (c :: s) = bytes32 be c.toNat ++ encode32 be s := by simp [encode32]
    rw [hcons, decode32_bytes32_append be _ hlt, validScalar_toNat, ih]
    simp

theorem units16_bytes16_append (be : Bool) (u : Nat) (h : u < 65536) (r : Bytes) :
    units16 be (bytes16 be u ++ r) = u :: units16 be r := by
  cases be <;> simp only [bytes16, Bool.false_eq_true, ↓reduceIte, List.cons_append, List.nil_append,
    units16, toNat_toUInt8_mod, List.cons.injEq, and_true] <;> omega

theorem units16_flatMap (be : Bool) (us : List Nat) (h : ∀ u ∈ us, u < 65536) :
    units16 be (us.flatMap (bytes16 be)) = us := by
  induction us with
  | nil => simp [units16]
  | cons u us ih =>
    simp only [List.flatMap_cons]
    rw [units16_bytes16_append be u (h u (by simp)), ih (fun v hv => h v (by simp [hv]))]

theorem enc16_lt (c : Char) : ∀ u ∈ enc16 c, u < 65536 := by
  intro u hu
  unfold enc16 at hu
  by_cases hlt : c.toNat < 0x10000
  · rw [if_pos hlt] at hu
    have : u = c.toNat := by simpa using hu
    omega
  · rw [if_neg hlt] at hu
    have hr := char_range c
    have : u = 0xD800 + (c.toNat - 0x10000) / 1024 ∨ u = 0xDC00 + (c.toNat - 0x10000) % 1024 := by
      simp only [List.mem_cons, List.not_mem_nil, or_false] at hu; exact hu
    rcases hr with hr | ⟨_, hr⟩
    · omega
    · rcases this with h | h
      · rw [h]; omega
      · rw [h]; omega

theorem fromUtf16_cons_bmp (u : Nat) (r : List Nat) (h : u < 0xD800 ∨ 0xE000 ≤ u) :
    fromUtf16 (u :: r) = (fromUtf16 r).map (Char.ofNat u :: ·) := by
  rw [fromUtf16.eq_def]; simp only [if_pos h]

theorem fromUtf16_cons_pair (u l : Nat) (r : List Nat) (h1 : ¬ (u < 0xD800 ∨ 0xE000 ≤ u)) (h2 : u < 0xDC00)
    (h3 : 0xDC00 ≤ l ∧ l < 0xE000) :
    fromUtf16 (u :: l :: r) =
      (fromUtf16 r).map (Char.ofNat (0x10000 + (u - 0xD800) * 1024 + (l - 0xDC00)) :: ·) := by
  rw [fromUtf16.eq_def]; simp only [if_neg h1, if_pos h2, h3, and_self, ↓reduceIte]

theorem fromUtf16_enc16_append (c : Char) (r : List Nat) :
    fromUtf16 (enc16 c ++ r) = (fromUtf16 r).map (c :: ·) := by
  unfold enc16
  have hr := char_range c
  by_cases hlt : c.toNat < 0x10000
  · rw [if_pos hlt]
    simp only [List.cons_append, List.nil_append]
    rw [fromUtf16_cons_bmp _ _ (by omega), Char.ofNat_toNat]
  · rw [if_neg hlt]
    simp only [List.cons_append, List.nil_append]
    rw [fromUtf16_cons_pair _ _ _ (by omega) (by omega) (by omega)]
    have : 0x10000 + (0xD800 + (c.toNat - 0x10000) / 1024 - 0xD800) * 1024 +
        (0xDC00 + (c.toNat - 0x10000) % 1024 - 0xDC00) = c.toNat := by omega
    rw [this, Char.ofNat_toNat]

theorem fromUtf16_flatMap (s : List Char) : fromUtf16 (s.flatMap enc16) = some s := by
  induction s with
  | nil => simp [fromUtf16]
  | cons c s ih => simp only [List.flatMap_cons]; rw [fromUtf16_enc16_append, ih]; simp

theorem decode16_roundtrip (be : Bool) (s : List Char) :
    fromUtf16 (units16 be (encode16 be s)) = some s := by
  unfold encode16
  rw [units16_flatMap be _ (by
    intro u hu
    simp only [List.mem_flatMap] at hu
    obtain ⟨c, _, hc⟩ := hu
    exact enc16_lt c u hc)]
  exact fromUtf16_flatMap s

theorem length_bytes32 (be : Bool) (n : Nat) : (bytes32 be n).length = 4 := by
  cases be <;> simp [bytes32]

theorem length_encode32 (be : Bool) (s : List Char) : (encode32 be s).length = 4 * s.length := by
  induction s with
  | nil => simp [encode32]
  | cons c s ih =>
    have hcons : encode32 be (c :: s) = bytes32 be c.toNat ++ encode32 be s := by simp [encode32]
    rw [hcons, List.length_append, length_bytes32, ih]; simp; omega

theorem ofNat_toUInt8_eq_zero_iff (n : Nat) (h : n < 256) : (n.toUInt8 = 0) ↔ n = 0 := by
  constructor
  · intro h0
    have := congrArg UInt8.toNat h0
    simp [Nat.toUInt8, UInt8.toNat_ofNat'] at this
    omega
  · intro h0; subst h0; rfl

theorem try32_encode32_be (s : List Char) (hs : A2lText s) : try32 (encode32 true s) = some s := by
  obtain ⟨c, r, rfl, hpos, hlt⟩ := hs.head
  have hlen := length_encode32 true (c :: r)
  have hcons : encode32 true (c :: r) = bytes32 true c.toNat ++ encode32 true r := by simp [encode32]
  unfold try32
  rw [if_pos (by rw [hlen]; simp; omega)]
  have hd := decode32_roundtrip true (c :: r)
  rw [hcons] at hd ⊢
  simp only [bytes32, ↓reduceIte, List.cons_append, List.nil_append] at hd ⊢
  have h3 : c.toNat / 16777216 % 256 = 0 := by omega
  have h2 : c.toNat / 65536 % 256 = 0 := by omega
  have h0 : c.toNat % 256 ≠ 0 := by omega
  have e3 : (c.toNat / 16777216 % 256).toUInt8 = 0 := by rw [h3]; rfl
  have e2 : (c.toNat / 65536 % 256).toUInt8 = 0 := by rw [h2]; rfl
  have e0 : (c.toNat % 256).toUInt8 ≠ 0 := by
    intro h; exact h0 ((ofNat_toUInt8_eq_zero_iff _ (by omega)).1 h)
  rw [if_pos ⟨e3, e2, e0⟩]
  exact hd

/-! ### constants -/

theorem bom_toNat : bom.toNat = 0xFEFF := by decide

theorem toNat_toUInt8 (n : Nat) (h : n < 256) : n.toUInt8.toNat = n := by
  simp [Nat.toUInt8, UInt8.toNat_ofNat']; omega

theorem encode32_cons (be : Bool) (c : Char) (s : List Char) :
    encode32 be (c :: s) = bytes32 be c.toNat ++ encode32 be s := by simp [encode32]

theorem encode16_cons (be : Bool) (c : Char) (s : List Char) :
    encode16 be (c :: s) = (enc16 c).flatMap (bytes16 be) ++ encode16 be s := by simp [encode16]

theorem encode8_cons (c : Char) (s : List Char) :
    encode8 (c :: s) = String.utf8EncodeChar c ++ encode8 s := by simp [encode8]

/-! ### generic failure of the detection tests -/

theorem try32_eq_none (b : Bytes)
    (h : ∀ b0 b1 b2 b3 r, b = b0 :: b1 :: b2 :: b3 :: r →
      ¬ (b0 = 0 ∧ b1 = 0 ∧ b3 ≠ 0) ∧ ¬ (b0 ≠ 0 ∧ b2 = 0 ∧ b3 = 0)) : try32 b = none := by
  unfold try32
  split
  · match b, h with
    | b0 :: b1 :: b2 :: b3 :: r, h =>
      obtain ⟨h1, h2⟩ := h b0 b1 b2 b3 r rfl
      simp only [if_neg h1, if_neg h2]
    | [], _ | [_], _ | [_, _], _ | [_, _, _], _ => rfl
  · rfl

theorem try16_eq_none (b : Bytes)
    (h : ∀ b0 b1 r, b = b0 :: b1 :: r →
      ¬ ((b0 = 0 ∧ b1 ≠ 0) ∨ (b0 = 0xfe ∧ b1 = 0xff)) ∧ ¬ ((b0 ≠ 0 ∧ b1 = 0) ∨ (b0 = 0xff ∧ b1 = 0xfe))) :
    try16 b = none := by
  unfold try16
  split
  · match b, h with
    | b0 :: b1 :: r, h =>
      obtain ⟨h1, h2⟩ := h b0 b1 r rfl
      simp only [if_neg h1, if_neg h2]
    | [], _ | [_], _ => rfl
  · rfl

/-! ### UTF-8 -/

theorem utf8_roundtrip (s : List Char) : utf8? (encode8 s) = some s := by
  have h := List.utf8Decode?_utf8Encode (l := s)
  have e : ByteArray.mk (encode8 s).toArray = s.utf8Encode := by
    apply ByteArray.ext
    simp [List.utf8Encode, encode8]
  unfold utf8?
  rw [e, h]; simp

theorem uint8_ne_zero_of_toNat {x : UInt8} (h : x.toNat ≠ 0) : x ≠ 0 := by
  intro h0; subst h0; exact h rfl

theorem utf8EncodeChar_ascii (c : Char) (h : c.toNat < 128) :
    String.utf8EncodeChar c = [c.toNat.toUInt8] := by
  have h' : c.val.toNat ≤ 127 := by have : c.val.toNat = c.toNat := rfl; omega
  unfold String.utf8EncodeChar
  simp only [if_pos h']
  rfl

theorem utf8EncodeChar_ne_zero (c : Char) (h : c.toNat ≠ 0) : ∀ x ∈ String.utf8EncodeChar c, x ≠ 0 := by
  have hv : c.val.toNat = c.toNat := rfl
  intro x hx
  apply uint8_ne_zero_of_toNat
  unfold String.utf8EncodeChar at hx
  simp only [hv] at hx
  split at hx
  · simp only [List.mem_cons, List.not_mem_nil, or_false] at hx
    subst hx; simp only [UInt8.toNat_ofNat']; omega
  · split at hx
    · simp only [List.mem_cons, List.not_mem_nil, or_false] at hx
      rcases hx with rfl | rfl <;> simp only [UInt8.toNat_ofNat'] <;> omega
    · split at hx
      · simp only [List.mem_cons, List.not_mem_nil, or_false] at hx
        rcases hx with rfl | rfl | rfl <;> simp only [UInt8.toNat_ofNat'] <;> omega
      · simp only [List.mem_cons, List.not_mem_nil, or_false] at hx
        rcases hx with rfl | rfl | rfl | rfl <;> simp only [UInt8.toNat_ofNat'] <;> omega

theorem encode8_ne_zero (s : List Char) (h : ∀ c ∈ s, c.toNat ≠ 0) : ∀ x ∈ encode8 s, x ≠ 0 := by
  intro x hx
  simp only [encode8, List.mem_flatMap] at hx
  obtain ⟨c, hc, hxc⟩ := hx
  exact utf8EncodeChar_ne_zero c (h c hc) x hxc

theorem utf8EncodeChar_bom : String.utf8EncodeChar bom = [0xEF, 0xBB, 0xBF] := by decide

theorem try32_none_of_nonzero (b : Bytes) (h : ∀ x ∈ b, x ≠ 0) : try32 b = none := by
  apply try32_eq_none
  intro b0 b1 b2 b3 r hb
  subst hb
  have h0 := h b0 (by simp)
  have h3 := h b3 (by simp)
  exact ⟨fun hh => h0 hh.1, fun hh => h3 hh.2.2⟩

theorem try16_none_of_nonzero (b0 : UInt8) (r : Bytes) (h : ∀ x ∈ b0 :: r, x ≠ 0)
    (hfe : b0 ≠ 0xfe) (hff : b0 ≠ 0xff) : try16 (b0 :: r) = none := by
  apply try16_eq_none
  intro c0 c1 r' hb
  simp only [List.cons.injEq] at hb
  obtain ⟨rfl, rfl⟩ := hb
  have h0 := h b0 (by simp)
  have h1 := h c1 (by simp)
  refine ⟨?_, ?_⟩
  · rintro (⟨a, _⟩ | ⟨a, _⟩)
    · exact h0 a
    · exact hfe a
  · rintro (⟨_, a⟩ | ⟨a, _⟩)
    · exact h1 a
    · exact hff a

theorem decodeRaw_of_utf8 (b : Bytes) (s : List Char) (h32 : try32 b = none) (h16 : try16 b = none)
    (h8 : utf8? b = some s) : decodeRaw b = s := by
  simp only [decodeRaw, h32, h16, h8]

theorem decodeRaw_of_try16 (b : Bytes) (s : List Char) (h32 : try32 b = none) (h16 : try16 b = some s) :
    decodeRaw b = s := by
  simp only [decodeRaw, h32, h16]

theorem decodeRaw_of_try32 (b : Bytes) (s : List Char) (h32 : try32 b = some s) : decodeRaw b = s := by
  simp only [decodeRaw, h32]

theorem ascii_byte (n : Nat) (hpos : 0 < n) (hlt : n < 128) :
    n.toUInt8 ≠ 0 ∧ n.toUInt8 ≠ 0xfe ∧ n.toUInt8 ≠ 0xff := by
  have ht := toNat_toUInt8 n (by omega)
  refine ⟨?_, ?_, ?_⟩ <;> intro h <;> rw [h] at ht <;> simp at ht <;> omega

theorem decodeRaw_utf8 (s : List Char) (hs : A2lText s) : decodeRaw (encode8 s) = s := by
  obtain ⟨c, r, rfl, hpos, hlt⟩ := hs.head
  have hnz := encode8_ne_zero _ hs.nonul
  obtain ⟨_, hfe, hff⟩ := ascii_byte c.toNat hpos hlt
  apply decodeRaw_of_utf8 _ _ (try32_none_of_nonzero _ hnz) _ (utf8_roundtrip _)
  rw [encode8_cons, utf8EncodeChar_ascii c hlt] at hnz ⊢
  exact try16_none_of_nonzero _ _ hnz hfe hff

theorem decodeRaw_utf8Bom (s : List Char) (hs : A2lText s) : decodeRaw (encode8 (bom :: s)) = bom :: s := by
  have hnz := encode8_ne_zero (bom :: s) (by
    intro c hc
    rcases List.mem_cons.1 hc with rfl | hc
    · rw [bom_toNat]; decide
    · exact hs.nonul c hc)
  apply decodeRaw_of_utf8 _ _ (try32_none_of_nonzero _ hnz) _ (utf8_roundtrip _)
  rw [encode8_cons, utf8EncodeChar_bom] at hnz ⊢
  exact try16_none_of_nonzero _ _ hnz (by decide) (by decide)

/-! ### UTF-16 -/

theorem length_bytes16 (be : Bool) (u : Nat) : (bytes16 be u).length = 2 := by
  cases be <;> simp [bytes16]

theorem length_flatMap_bytes16 (be : Bool) (us : List Nat) : (us.flatMap (bytes16 be)).length = 2 * us.length := by
  induction us with
  | nil => simp
  | cons u us ih => simp only [List.flatMap_cons, List.length_append, length_bytes16, ih, List.length_cons]; omega

theorem length_encode16_even (be : Bool) (s : List Char) : (encode16 be s).length % 2 = 0 := by
  unfold encode16; rw [length_flatMap_bytes16]; omega

theorem units16_encode16 (be : Bool) (s : List Char) : units16 be (encode16 be s) = s.flatMap enc16 := by
  unfold encode16
  exact units16_flatMap be _ (by
    intro u hu
    simp only [List.mem_flatMap] at hu
    obtain ⟨c, _, hc⟩ := hu
    exact enc16_lt c u hc)

theorem enc16_ne_zero (c : Char) (h : c.toNat ≠ 0) : ∀ u ∈ enc16 c, u ≠ 0 := by
  intro u hu
  unfold enc16 at hu
  split at hu
  · simp only [List.mem_cons, List.not_mem_nil, or_false] at hu; omega
  · simp only [List.mem_cons, List.not_mem_nil, or_false] at hu; omega

/-- the first code unit of the UTF-16 encoding of a NUL-free text is not `00 00` -/
theorem encode16_head_ne_zero (be : Bool) (s : List Char) (h : ∀ c ∈ s, c.toNat ≠ 0) (b2 b3 : UInt8) (t : Bytes)
    (he : encode16 be s = b2 :: b3 :: t) : ¬ (b2 = 0 ∧ b3 = 0) := by
  rintro ⟨rfl, rfl⟩
  have hu := units16_encode16 be s
  rw [he] at hu
  have hmem : (0 : Nat) ∈ s.flatMap enc16 := by
    rw [← hu]; cases be <;> simp [units16]
  simp only [List.mem_flatMap] at hmem
  obtain ⟨c, hc, hz⟩ := hmem
  exact enc16_ne_zero c (h c hc) 0 hz rfl

theorem enc16_ascii (c : Char) (h : c.toNat < 128) : enc16 c = [c.toNat] := by
  unfold enc16; rw [if_pos (by omega)]

theorem enc16_bom : enc16 bom = [0xFEFF] := by
  unfold enc16; rw [bom_toNat]; rfl

theorem bytes16_ascii (be : Bool) (n : Nat) (h : n < 128) :
    bytes16 be n = if be then [0, n.toUInt8] else [n.toUInt8, 0] := by
  have h1 : n / 256 % 256 = 0 := by omega
  have h2 : n % 256 = n := by omega
  unfold bytes16; rw [h1, h2]; rfl

theorem bytes16_bom (be : Bool) : bytes16 be 0xFEFF = if be then [0xFE, 0xFF] else [0xFF, 0xFE] := by
  cases be <;> decide

theorem encode16_ascii_cons (be : Bool) (c : Char) (r : List Char) (h : c.toNat < 128) :
    encode16 be (c :: r) = (if be then [0, c.toNat.toUInt8] else [c.toNat.toUInt8, 0]) ++ encode16 be r := by
  rw [encode16_cons, enc16_ascii c h]
  simp only [List.flatMap_cons, List.flatMap_nil, List.append_nil, bytes16_ascii be _ h]

theorem encode16_bom_cons (be : Bool) (s : List Char) :
    encode16 be (bom :: s) = (if be then [0xFE, 0xFF] else [0xFF, 0xFE]) ++ encode16 be s := by
  rw [encode16_cons, enc16_bom]
  simp only [List.flatMap_cons, List.flatMap_nil, List.append_nil, bytes16_bom]

theorem try16_be (b0 b1 : UInt8) (r : Bytes) (hlen : r.length % 2 = 0)
    (hc : (b0 = 0 ∧ b1 ≠ 0) ∨ (b0 = 0xfe ∧ b1 = 0xff)) :
    try16 (b0 :: b1 :: r) = fromUtf16 (units16 true (b0 :: b1 :: r)) := by
  unfold try16
  rw [if_pos (by simp only [List.length_cons]; omega)]
  simp only [if_pos hc]

theorem try16_le (b0 b1 : UInt8) (r : Bytes) (hlen : r.length % 2 = 0)
    (hn : ¬ ((b0 = 0 ∧ b1 ≠ 0) ∨ (b0 = 0xfe ∧ b1 = 0xff)))
    (hc : (b0 ≠ 0 ∧ b1 = 0) ∨ (b0 = 0xff ∧ b1 = 0xfe)) :
    try16 (b0 :: b1 :: r) = fromUtf16 (units16 false (b0 :: b1 :: r)) := by
  unfold try16
  rw [if_pos (by simp only [List.length_cons]; omega)]
  simp only [if_neg hn, if_pos hc]

theorem decodeRaw_utf16be (s : List Char) (hs : A2lText s) : decodeRaw (encode16 true s) = s := by
  obtain ⟨c, r, rfl, hpos, hlt⟩ := hs.head
  obtain ⟨h0, hfe, hff⟩ := ascii_byte c.toNat hpos hlt
  have hd := decode16_roundtrip true (c :: r)
  have he := encode16_ascii_cons true c r hlt
  simp only [if_true, List.cons_append, List.nil_append] at he
  rw [he] at hd ⊢
  apply decodeRaw_of_try16
  · apply try32_eq_none
    intro b0 b1 b2 b3 t hb
    simp only [List.cons.injEq] at hb
    obtain ⟨rfl, rfl, _⟩ := hb
    exact ⟨fun hh => h0 hh.2.1, fun hh => hh.1 rfl⟩
  · rw [try16_be _ _ _ (length_encode16_even true r) (Or.inl ⟨rfl, h0⟩)]
    exact hd

theorem decodeRaw_utf16le (s : List Char) (hs : A2lText s) : decodeRaw (encode16 false s) = s := by
  obtain ⟨c, r, rfl, hpos, hlt⟩ := hs.head
  obtain ⟨h0, hfe, hff⟩ := ascii_byte c.toNat hpos hlt
  have hd := decode16_roundtrip false (c :: r)
  have he := encode16_ascii_cons false c r hlt
  simp only [Bool.false_eq_true, if_false, List.cons_append, List.nil_append] at he
  rw [he] at hd ⊢
  apply decodeRaw_of_try16
  · apply try32_eq_none
    intro b0 b1 b2 b3 t hb
    simp only [List.cons.injEq] at hb
    obtain ⟨rfl, rfl, hb⟩ := hb
    have hnn : ∀ c ∈ r, c.toNat ≠ 0 := fun c hc => hs.nonul c (by simp [hc])
    have := encode16_head_ne_zero false r hnn b2 b3 t hb
    exact ⟨fun hh => h0 hh.1, fun hh => this hh.2⟩
  · rw [try16_le _ _ _ (length_encode16_even false r) _ (Or.inl ⟨h0, rfl⟩)]
    · exact hd
    · rintro (⟨a, _⟩ | ⟨a, _⟩)
      · exact h0 a
      · exact hfe a

theorem decodeRaw_utf16beBom (s : List Char) (hs : A2lText s) :
    decodeRaw (encode16 true (bom :: s)) = bom :: s := by
  obtain ⟨c, r, rfl, hpos, hlt⟩ := hs.head
  obtain ⟨h0, hfe, hff⟩ := ascii_byte c.toNat hpos hlt
  have hd := decode16_roundtrip true (bom :: c :: r)
  have he : encode16 true (bom :: c :: r) = 0xFE :: 0xFF :: 0 :: c.toNat.toUInt8 :: encode16 true r := by
    rw [encode16_bom_cons, encode16_ascii_cons true c r hlt]; rfl
  have hlen : (0 :: c.toNat.toUInt8 :: encode16 true r).length % 2 = 0 := by
    have := length_encode16_even true r
    simp only [List.length_cons]; omega
  rw [he] at hd ⊢
  apply decodeRaw_of_try16
  · apply try32_eq_none
    intro b0 b1 b2 b3 t hb
    simp only [List.cons.injEq] at hb
    obtain ⟨rfl, rfl, rfl, rfl, _⟩ := hb
    exact ⟨fun hh => by simp at hh, fun hh => h0 hh.2.2⟩
  · rw [try16_be _ _ _ hlen (Or.inr ⟨rfl, rfl⟩)]
    exact hd

theorem decodeRaw_utf16leBom (s : List Char) (hs : A2lText s) :
    decodeRaw (encode16 false (bom :: s)) = bom :: s := by
  obtain ⟨c, r, rfl, hpos, hlt⟩ := hs.head
  obtain ⟨h0, hfe, hff⟩ := ascii_byte c.toNat hpos hlt
  have hd := decode16_roundtrip false (bom :: c :: r)
  have he : encode16 false (bom :: c :: r) = 0xFF :: 0xFE :: c.toNat.toUInt8 :: 0 :: encode16 false r := by
    rw [encode16_bom_cons, encode16_ascii_cons false c r hlt]; rfl
  have hlen : (c.toNat.toUInt8 :: 0 :: encode16 false r).length % 2 = 0 := by
    have := length_encode16_even false r
    simp only [List.length_cons]; omega
  rw [he] at hd ⊢
  apply decodeRaw_of_try16
  · apply try32_eq_none
    intro b0 b1 b2 b3 t hb
    simp only [List.cons.injEq] at hb
    obtain ⟨rfl, rfl, rfl, rfl, _⟩ := hb
    exact ⟨fun hh => by simp at hh, fun hh => h0 hh.2.1⟩
  · rw [try16_le _ _ _ hlen (by simp) (Or.inr ⟨rfl, rfl⟩)]
    exact hd

/-! ### UTF-32 -/

theorem length_encode32_mod (be : Bool) (s : List Char) : (encode32 be s).length % 4 = 0 := by
  rw [length_encode32]; omega

theorem bytes32_ascii (be : Bool) (n : Nat) (h : n < 128) :
    bytes32 be n = if be then [0, 0, 0, n.toUInt8] else [n.toUInt8, 0, 0, 0] := by
  have h3 : n / 16777216 % 256 = 0 := by omega
  have h2 : n / 65536 % 256 = 0 := by omega
  have h1 : n / 256 % 256 = 0 := by omega
  have h0 : n % 256 = n := by omega
  unfold bytes32; simp only [h3, h2, h1, h0]; rfl

theorem bytes32_bom (be : Bool) : bytes32 be 0xFEFF = if be then [0, 0, 0xFE, 0xFF] else [0xFF, 0xFE, 0, 0] := by
  cases be <;> decide

theorem try32_be (b0 b1 b2 b3 : UInt8) (r : Bytes) (hlen : r.length % 4 = 0)
    (hc : b0 = 0 ∧ b1 = 0 ∧ b3 ≠ 0) :
    try32 (b0 :: b1 :: b2 :: b3 :: r) = decode32 true (b0 :: b1 :: b2 :: b3 :: r) := by
  unfold try32
  rw [if_pos (by simp only [List.length_cons]; omega)]
  simp only [if_pos hc]

theorem try32_le (b0 b1 b2 b3 : UInt8) (r : Bytes) (hlen : r.length % 4 = 0)
    (hn : ¬ (b0 = 0 ∧ b1 = 0 ∧ b3 ≠ 0)) (hc : b0 ≠ 0 ∧ b2 = 0 ∧ b3 = 0) :
    try32 (b0 :: b1 :: b2 :: b3 :: r) = decode32 false (b0 :: b1 :: b2 :: b3 :: r) := by
  unfold try32
  rw [if_pos (by simp only [List.length_cons]; omega)]
  simp only [if_neg hn, if_pos hc]

theorem decodeRaw_utf32be (s : List Char) (hs : A2lText s) : decodeRaw (encode32 true s) = s := by
  obtain ⟨c, r, rfl, hpos, hlt⟩ := hs.head
  obtain ⟨h0, _, _⟩ := ascii_byte c.toNat hpos hlt
  have hd := decode32_roundtrip true (c :: r)
  have he : encode32 true (c :: r) = 0 :: 0 :: 0 :: c.toNat.toUInt8 :: encode32 true r := by
    rw [encode32_cons, bytes32_ascii true _ hlt]; rfl
  rw [he] at hd ⊢
  apply decodeRaw_of_try32
  rw [try32_be _ _ _ _ _ (length_encode32_mod true r) ⟨rfl, rfl, h0⟩]
  exact hd

theorem decodeRaw_utf32le (s : List Char) (hs : A2lText s) : decodeRaw (encode32 false s) = s := by
  obtain ⟨c, r, rfl, hpos, hlt⟩ := hs.head
  obtain ⟨h0, _, _⟩ := ascii_byte c.toNat hpos hlt
  have hd := decode32_roundtrip false (c :: r)
  have he : encode32 false (c :: r) = c.toNat.toUInt8 :: 0 :: 0 :: 0 :: encode32 false r := by
    rw [encode32_cons, bytes32_ascii false _ hlt]; rfl
  rw [he] at hd ⊢
  apply decodeRaw_of_try32
  rw [try32_le _ _ _ _ _ (length_encode32_mod false r) (fun hh => h0 hh.1) ⟨h0, rfl, rfl⟩]
  exact hd

theorem decodeRaw_utf32beBom (s : List Char) (_hs : A2lText s) :
    decodeRaw (encode32 true (bom :: s)) = bom :: s := by
  have hd := decode32_roundtrip true (bom :: s)
  have he : encode32 true (bom :: s) = 0 :: 0 :: 0xFE :: 0xFF :: encode32 true s := by
    rw [encode32_cons, bom_toNat, bytes32_bom true]; rfl
  rw [he] at hd ⊢
  apply decodeRaw_of_try32
  rw [try32_be _ _ _ _ _ (length_encode32_mod true s) ⟨rfl, rfl, by decide⟩]
  exact hd

theorem decodeRaw_utf32leBom (s : List Char) (_hs : A2lText s) :
    decodeRaw (encode32 false (bom :: s)) = bom :: s := by
  have hd := decode32_roundtrip false (bom :: s)
  have he : encode32 false (bom :: s) = 0xFF :: 0xFE :: 0 :: 0 :: encode32 false s := by
    rw [encode32_cons, bom_toNat, bytes32_bom false]; rfl
  rw [he] at hd ⊢
  apply decodeRaw_of_try32
  rw [try32_le _ _ _ _ _ (length_encode32_mod false s) (by decide) ⟨by decide, rfl, rfl⟩]
  exact hd

/-! ### BOM strip -/

theorem stripBom_a2l (s : List Char) (hs : A2lText s) : stripBom s = s := by
  obtain ⟨c, r, rfl, _, hlt⟩ := hs.head
  have : c ≠ bom := by
    intro h; rw [h, bom_toNat] at hlt; omega
  simp only [stripBom, if_neg this]

theorem stripBom_bom (s : List Char) : stripBom (bom :: s) = s := by
  simp only [stripBom, if_true]

end A2l.Enc
