import A2lVerif.Model.Encoding
/-! helper lemmas for C17 -/
namespace A2l.Enc
end A2l.Enc
