import A2lVerif.Lemmas.TreeTotal
/-! helper lemmas for C06 (strict vs non-strict runs of the generic parser) -/
namespace A2l.Tree
end A2l.Tree
