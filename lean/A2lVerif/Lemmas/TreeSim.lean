import A2lVerif.Lemmas.TreeTotal
/-!
# helper lemmas for C06 (strict vs non-strict runs of the generic parser, Props/C06.lean)

Two runs of the same program from the same state are compared: one in `nonStrict e`, one in `strictOf e`.
Three relations on programs `P : PM α` (all quantify over the start state):

* `Indep e P`: both runs give the same result (programs that never reach `errorOrLog` nor a `special` parser);
* `Sim e P`  : the non-strict run only extends the log, and if it ends in `ok`/`err` having added deprecation notices
  only, the strict run ends in the same result (used for `clean_nonstrict_implies_strict`);
* `Fwd e P`  : if the strict run ends in `ok`, so does the non-strict run, with the same value and state
  (used for `strict_implies_nonstrict_partial`).

Each has the usual rules (`pure`, `bind`, `attempt`, the state primitives), one lemma per function of Model/Tree.lean,
and the mutual block is done by induction on the fuel, as in Lemmas/TreeTotal.lean.
-/
namespace A2l.Tree
open A2l.G A2l.Sc

/-! ## the definitions of Props/C06.lean (moved here verbatim, restated there) -/

def nonStrict (e : Env) : Env := { e with strict := false }
def strictOf (e : Env) : Env := { e with strict := true }

/-- deprecation notices: the only diagnostics that `log_warning` (as opposed to `error_or_log`) produces -/
def IsNotice (d : Diag) : Prop := d.kind = .blockRefDeprecated ∨ d.kind = .enumRefDeprecated

/-- item types whose parsers never call `error_or_log`: numbers only (arrays and structs of them) -/
def quietItem (tbl : Table) : Nat → ItemTy → Bool
  | _, .int _ => true
  | _, .double => true
  | _, .float => true
  | fuel + 1, .arr of _ => quietItem tbl fuel of
  | fuel + 1, .structRef ty => match tbl.lookup ty with
    | some (.block false items [] false) => items.all (quietItem tbl fuel)
    | _ => false
  | _, _ => false

/-- tables in which no sequence element can call `error_or_log`: then no strict-mode error is ever swallowed by the
    greedy sequence loop (`sequence_item.is_err()`), the one place where the two modes can take different paths -/
def seqSafe (tbl : Table) : Bool :=
  tbl.all fun en => match en.def_ with
    | .block _ items _ _ => items.all fun it => match it with
      | .seq of _ => quietItem tbl tbl.length of
      | _ => true
    | _ => true

/-- the hand-written parsers of the special types, as far as C06 is concerned -/
def SpecialSim (e : Env) : Prop :=
  ∀ ty ctx off s,
    (∀ v s', e.special ty ctx off e.toks false s = .ok v s' →
        (∃ l, s'.log = l ++ s.log ∧ ∀ d ∈ l, IsNotice d) → e.special ty ctx off e.toks true s = .ok v s') ∧
    (∀ v s', e.special ty ctx off e.toks true s = .ok v s' → e.special ty ctx off e.toks false s = .ok v s') ∧
    (∀ d s', e.special ty ctx off e.toks true s = .err d s' →
        e.special ty ctx off e.toks false s = .err d s' ∨
        ∃ v s'', e.special ty ctx off e.toks false s = .ok v s'' ∧ ∃ l, s''.log = l ++ s.log ∧ ∃ d' ∈ l, ¬ IsNotice d')

/-! ## the definitions that the corrected statements need in addition -/

/-- what `SpecialSim` does not say and `clean_nonstrict_implies_strict` needs: in non-strict mode the special parsers
    only add to the log (also when they fail: the log of a failed element of a sequence stays), and a non-strict
    failure without problems logged is also a strict failure (the sequence loop turns failures into values) -/
def SpecialSimMore (e : Env) : Prop :=
  ∀ ty ctx off s,
    (∀ d s', e.special ty ctx off e.toks false s = .err d s' →
        (∃ l, s'.log = l ++ s.log ∧ ∀ d ∈ l, IsNotice d) → e.special ty ctx off e.toks true s = .err d s') ∧
    (∀ v s', e.special ty ctx off e.toks false s = .ok v s' → ∃ l, s'.log = l ++ s.log) ∧
    (∀ d s', e.special ty ctx off e.toks false s = .err d s' → ∃ l, s'.log = l ++ s.log)

/-- every sequence inside the item, also below arrays, has a quiet element type -/
def seqSafeItem (tbl : Table) : ItemTy → Bool
  | .seq of _ => quietItem tbl tbl.length of
  | .arr of _ => seqSafeItem tbl of
  | _ => true

/-- `seqSafe`, also for sequences nested in arrays -/
def seqSafeDeep (tbl : Table) : Bool :=
  tbl.all fun en => match en.def_ with
    | .block _ items _ _ => items.all (seqSafeItem tbl)
    | _ => true

theorem seqSafeDeep_seqSafe {tbl : Table} (h : seqSafeDeep tbl = true) : seqSafe tbl = true := by
  unfold seqSafeDeep at h
  unfold seqSafe
  rw [List.all_eq_true] at h ⊢
  intro en hen
  have := h en hen
  split
  · rename_i items _ _ heq
    rw [heq] at this
    dsimp only at this
    rw [List.all_eq_true] at this ⊢
    intro it hit
    have := this it hit
    split
    · simpa [seqSafeItem] using this
    · rfl
  · rfl

@[simp] theorem nonStrict_toks (e : Env) : (nonStrict e).toks = e.toks := rfl
@[simp] theorem strictOf_toks (e : Env) : (strictOf e).toks = e.toks := rfl
@[simp] theorem nonStrict_table (e : Env) : (nonStrict e).table = e.table := rfl
@[simp] theorem strictOf_table (e : Env) : (strictOf e).table = e.table := rfl
@[simp] theorem nonStrict_known (e : Env) : (nonStrict e).known = e.known := rfl
@[simp] theorem strictOf_known (e : Env) : (strictOf e).known = e.known := rfl

/-! ## logs -/

/-- the log `b` extends the log `a` by deprecation notices only -/
def Clean (a b : List Diag) : Prop := ∃ l, b = l ++ a ∧ ∀ d ∈ l, IsNotice d

theorem Clean.refl (a : List Diag) : Clean a a := ⟨[], rfl, fun _ h => nomatch h⟩

theorem Clean.split {a b c : List Diag} (h1 : LExt a b) (h2 : LExt b c) (h : Clean a c) : Clean a b ∧ Clean b c := by
  obtain ⟨l1, rfl⟩ := h1
  obtain ⟨l2, rfl⟩ := h2
  obtain ⟨l, hl, hn⟩ := h
  have : l2 ++ l1 = l := by
    rw [← List.append_assoc] at hl
    exact List.append_cancel_right hl
  subst this
  exact ⟨⟨l1, rfl, fun d hd => hn d (List.mem_append.2 (.inr hd))⟩,
    ⟨l2, rfl, fun d hd => hn d (List.mem_append.2 (.inl hd))⟩⟩

theorem LExt.cons (d : Diag) (a : List Diag) : LExt a (d :: a) := ⟨[d], rfl⟩

theorem Clean.cons_inv {d : Diag} {a : List Diag} (h : Clean a (d :: a)) : IsNotice d := by
  obtain ⟨l, hl, hn⟩ := h
  have : [d] = l := List.append_cancel_right (bs := a) hl
  subst this
  exact hn d (List.mem_singleton.2 rfl)

/-! ## `Indep`: programs that do not depend on the mode -/

variable {e : Env}

def Indep2 (e : Env) {α} (P1 P2 : PM α) : Prop := ∀ s, P1 (strictOf e) s = P2 (nonStrict e) s
def Indep (e : Env) {α} (P : PM α) : Prop := Indep2 e P P

theorem Indep.pure {α} (a : α) : Indep e (Pure.pure a : PM α) := fun _ => rfl
theorem Indep.fail {α} (k : DK) : Indep e (fail k : PM α) := fun _ => rfl
theorem Indep.panic {α} : Indep e (panic : PM α) := fun _ => rfl
theorem Indep.outOfFuel {α} : Indep e (outOfFuel : PM α) := fun _ => rfl

theorem Indep.bind {α β} {m : PM α} {f : α → PM β} (h1 : Indep e m) (h2 : ∀ a, Indep e (f a)) : Indep e (m >>= f) := by
  intro s
  rw [bind_eq, bind_eq, h1 s]
  cases m (nonStrict e) s with
  | ok a s1 => exact h2 a s1
  | err d s1 => rfl
  | panic => rfl
  | fuel => rfl

theorem Indep.attempt {α} {m : PM α} (h : Indep e m) : Indep e (attempt m) := by
  intro s
  unfold A2l.Tree.attempt
  rw [h s]

/-- `f` reads the environment through `toks`, `table`, `known` only: then `f (strictOf e)` and `f (nonStrict e)` are
    `f e` by `rfl` -/
theorem Indep.getEnv_bind {β} {f : Env → PM β} (h1 : f (strictOf e) = f e) (h2 : f (nonStrict e) = f e)
    (h : Indep e (f e)) : Indep e (getEnv >>= f) := by
  intro s
  show f (strictOf e) (strictOf e) s = f (nonStrict e) (nonStrict e) s
  rw [h1, h2]
  exact h s
theorem Indep.getState_bind {β} {f : PState → PM β} (h : ∀ s0, Indep e (f s0)) : Indep e (getState >>= f) :=
  fun s => h s s
theorem Indep.getTokenpos_bind {β} {f : Nat → PM β} (h : ∀ p, Indep e (f p)) : Indep e (getTokenpos >>= f) :=
  fun s => h s.pos s
theorem Indep.peekToken_bind {β} {f : Option PTok → PM β} (h : ∀ o, Indep e (f o)) : Indep e (peekToken >>= f) :=
  fun s => h e.toks[s.pos]? s

theorem Indep.getToken (ctx : Ctx) : Indep e (getToken ctx) := by
  intro s; rw [getToken_eval, getToken_eval]; rfl
theorem Indep.undoGetToken : Indep e undoGetToken := by
  intro s; rw [undo_eval, undo_eval]
theorem Indep.getLineOffset : Indep e getLineOffset := by
  unfold A2l.Tree.getLineOffset
  refine Indep.getEnv_bind rfl rfl ?_
  refine Indep.getState_bind (fun s0 => ?_)
  repeat' split
  all_goals try dsimp only
  repeat' split
  all_goals first | exact Indep.panic | exact Indep.pure _
theorem Indep.setTokenpos (p : Nat) : Indep e (setTokenpos p) := fun _ => rfl
theorem Indep.modifyState (g : PState → PState) : Indep e (modifyState g) := fun _ => rfl
theorem Indep.getNextId : Indep e getNextId := fun _ => rfl
theorem Indep.logWarning (k : DK) : Indep e (logWarning k) := fun _ => rfl

theorem expectTokenAux_indep (ctx : Ctx) (ty : Nat) : ∀ fuel, Indep e (expectTokenAux ctx ty fuel)
  | 0 => Indep.outOfFuel
  | fuel + 1 => by
    rw [expectTokenAux]
    refine Indep.bind (Indep.getToken ctx) ?_
    intro t
    split
    · exact expectTokenAux_indep ctx ty fuel
    · split
      · exact Indep.fail _
      · exact Indep.pure _

theorem expectToken_indep (ctx : Ctx) (ty : Nat) : Indep e (expectToken ctx ty) := by
  unfold expectToken
  exact Indep.getEnv_bind rfl rfl (expectTokenAux_indep ctx ty _)

theorem getInteger_indep (ctx : Ctx) (w : Nat) : Indep e (getInteger ctx w) := by
  unfold getInteger
  refine Indep.bind (expectToken_indep ctx 5) ?_
  intro t
  split
  · exact Indep.pure _
  · exact Indep.fail _

theorem getDouble_indep (ctx : Ctx) : Indep e (getDouble ctx) := by
  unfold getDouble
  refine Indep.bind (expectToken_indep ctx 5) ?_
  intro t
  split
  · exact Indep.pure _
  · exact Indep.fail _

theorem getNextTagOrComment_indep (ctx : Ctx) : Indep e (getNextTagOrComment ctx) := by
  unfold getNextTagOrComment
  refine Indep.getTokenpos_bind ?_
  intro tokenpos
  refine Indep.peekToken_bind ?_
  intro o
  split
  · refine Indep.bind (Indep.modifyState _) (fun _ => ?_)
    exact Indep.bind Indep.getLineOffset (fun _ => Indep.pure _)
  · refine Indep.bind (Indep.getToken ctx) (fun _ => ?_)
    refine Indep.bind Indep.getLineOffset (fun _ => ?_)
    refine Indep.bind (Indep.attempt (expectToken_indep ctx 0)) (fun r => ?_)
    split
    · exact Indep.pure _
    · exact Indep.bind (Indep.setTokenpos _) (fun _ _ => rfl)
  · refine Indep.bind (Indep.attempt (expectToken_indep ctx 0)) (fun r => ?_)
    refine Indep.bind Indep.getLineOffset (fun _ => ?_)
    split
    · exact Indep.pure _
    · exact Indep.bind (Indep.setTokenpos _) (fun _ => Indep.pure _)

theorem skipUnknownLoop_indep (ctx : Ctx) (itemTag : List Char) (isB : Bool) (stop : List Nat) :
    ∀ (fuel : Nat) (balance : Int), Indep e (skipUnknownLoop ctx itemTag isB stop balance fuel)
  | 0, _ => Indep.outOfFuel
  | fuel + 1, balance => by
    have ih := skipUnknownLoop_indep ctx itemTag isB stop fuel
    rw [skipUnknownLoop]
    refine Indep.bind (Indep.getToken ctx) (fun t => ?_)
    repeat' split
    all_goals first
      | exact ih _
      | exact Indep.pure _
      | exact Indep.fail _
      | exact Indep.undoGetToken
      | exact Indep.bind Indep.undoGetToken (fun _ => Indep.undoGetToken)
      | exact Indep.bind Indep.undoGetToken (fun _ => Indep.pure _)

/-! ## `Sim`: a non-strict run without problems is also a strict run -/

/-- `r1`: result of the non-strict run, `r2`: of the strict run, `lg`: the log at the start -/
def SimR {α} (lg : List Diag) (r1 r2 : PRes α) : Prop :=
  match r1 with
  | .ok a s' => LExt lg s'.log ∧ (Clean lg s'.log → r2 = .ok a s')
  | .err d s' => LExt lg s'.log ∧ (Clean lg s'.log → r2 = .err d s')
  | .panic => True
  | .fuel => True

def Sim (e : Env) {α} (P : PM α) : Prop := ∀ s, SimR s.log (P (nonStrict e) s) (P (strictOf e) s)

/-- the program continues with one more entry in the log (both runs) -/
theorem SimR.cons {α} {d : Diag} {lg : List Diag} {r1 r2 : PRes α} (h : SimR (d :: lg) r1 r2) : SimR lg r1 r2 := by
  cases r1 with
  | ok a s' =>
    exact ⟨(LExt.cons d lg).trans h.1, fun hc => h.2 (Clean.split (LExt.cons d lg) h.1 hc).2⟩
  | err d' s' =>
    exact ⟨(LExt.cons d lg).trans h.1, fun hc => h.2 (Clean.split (LExt.cons d lg) h.1 hc).2⟩
  | panic => trivial
  | fuel => trivial

/-- the non-strict run continues with a problem in the log: nothing is claimed about the strict run -/
theorem SimR.bad {α} {d : Diag} {lg : List Diag} {r1 r2 r2' : PRes α} (hd : ¬ IsNotice d)
    (h : SimR (d :: lg) r1 r2) : SimR lg r1 r2' := by
  cases r1 with
  | ok a s' =>
    exact ⟨(LExt.cons d lg).trans h.1, fun hc => absurd (Clean.split (LExt.cons d lg) h.1 hc).1.cons_inv hd⟩
  | err d' s' =>
    exact ⟨(LExt.cons d lg).trans h.1, fun hc => absurd (Clean.split (LExt.cons d lg) h.1 hc).1.cons_inv hd⟩
  | panic => trivial
  | fuel => trivial

theorem Sim.pure {α} (a : α) : Sim e (Pure.pure a : PM α) := fun _ => ⟨LExt.refl _, fun _ => rfl⟩
theorem Sim.fail {α} (k : DK) : Sim e (fail k : PM α) := fun _ => ⟨LExt.refl _, fun _ => rfl⟩
theorem Sim.panic {α} : Sim e (panic : PM α) := fun _ => trivial
theorem Sim.outOfFuel {α} : Sim e (outOfFuel : PM α) := fun _ => trivial

theorem Sim.bind {α β} {m : PM α} {f : α → PM β} (h1 : Sim e m) (h2 : ∀ a, Sim e (f a)) : Sim e (m >>= f) := by
  intro s
  rw [bind_eq, bind_eq]
  have h1s := h1 s
  cases hm : m (nonStrict e) s with
  | ok a s1 =>
    rw [hm] at h1s
    obtain ⟨hx1, hc1⟩ := h1s
    have h2s := h2 a s1
    dsimp only
    cases hf : f a (nonStrict e) s1 with
    | ok b s2 =>
      rw [hf] at h2s
      obtain ⟨hx2, hc2⟩ := h2s
      refine ⟨hx1.trans hx2, fun hc => ?_⟩
      obtain ⟨c1, c2⟩ := Clean.split hx1 hx2 hc
      rw [hc1 c1]
      exact hc2 c2
    | err d s2 =>
      rw [hf] at h2s
      obtain ⟨hx2, hc2⟩ := h2s
      refine ⟨hx1.trans hx2, fun hc => ?_⟩
      obtain ⟨c1, c2⟩ := Clean.split hx1 hx2 hc
      rw [hc1 c1]
      exact hc2 c2
    | panic => trivial
    | fuel => trivial
  | err d s1 =>
    rw [hm] at h1s
    obtain ⟨hx1, hc1⟩ := h1s
    refine ⟨hx1, fun hc => ?_⟩
    rw [hc1 hc]
  | panic => trivial
  | fuel => trivial

theorem Sim.attempt {α} {m : PM α} (h : Sim e m) : Sim e (attempt m) := by
  intro s
  unfold A2l.Tree.attempt
  have hs := h s
  cases hm : m (nonStrict e) s with
  | ok a s1 =>
    rw [hm] at hs
    refine ⟨hs.1, fun hc => ?_⟩
    rw [hs.2 hc]
  | err d s1 =>
    rw [hm] at hs
    refine ⟨hs.1, fun hc => ?_⟩
    rw [hs.2 hc]
  | panic => trivial
  | fuel => trivial

theorem Sim.getEnv_bind {β} {f : Env → PM β} (h1 : f (nonStrict e) = f e) (h2 : f (strictOf e) = f e)
    (h : Sim e (f e)) : Sim e (getEnv >>= f) := by
  intro s
  show SimR s.log (f (nonStrict e) (nonStrict e) s) (f (strictOf e) (strictOf e) s)
  rw [h1, h2]
  exact h s
theorem Sim.getState_bind {β} {f : PState → PM β} (h : ∀ s0, Sim e (f s0)) : Sim e (getState >>= f) :=
  fun s => h s s
theorem Sim.getTokenpos_bind {β} {f : Nat → PM β} (h : ∀ p, Sim e (f p)) : Sim e (getTokenpos >>= f) :=
  fun s => h s.pos s
theorem Sim.peekToken_bind {β} {f : Option PTok → PM β} (h : ∀ o, Sim e (f o)) : Sim e (peekToken >>= f) :=
  fun s => h e.toks[s.pos]? s

/-- a program that does not depend on the mode and only extends the log -/
theorem Sim.of_indep' {α} {P : PM α} (hi : Indep e P)
    (hl : ∀ s, match P (nonStrict e) s with
      | .ok _ s' => LExt s.log s'.log | .err _ s' => LExt s.log s'.log | _ => True) : Sim e P := by
  intro s
  have h1 := hl s
  rw [hi s]
  cases h : P (nonStrict e) s with
  | ok a s' => rw [h] at h1; exact ⟨h1, fun _ => rfl⟩
  | err d s' => rw [h] at h1; exact ⟨h1, fun _ => rfl⟩
  | panic => trivial
  | fuel => trivial

theorem Sim.modifyState {g : PState → PState} (hg : ∀ s, (g s).log = s.log) : Sim e (modifyState g) :=
  Sim.of_indep' (Indep.modifyState g) (fun s => by
    show LExt s.log (g s).log
    rw [hg s]; exact LExt.refl _)
theorem Sim.setTokenpos (p : Nat) : Sim e (setTokenpos p) := Sim.modifyState (fun _ => rfl)
theorem Sim.getNextId : Sim e getNextId :=
  Sim.of_indep' Indep.getNextId (fun _ => LExt.refl _)
theorem Sim.getToken (ctx : Ctx) : Sim e (getToken ctx) :=
  Sim.of_indep' (Indep.getToken ctx) (fun s => by
    rw [getToken_eval]
    cases (nonStrict e).toks[s.pos]? <;> exact LExt.refl _)
theorem Sim.undoGetToken : Sim e undoGetToken :=
  Sim.of_indep' Indep.undoGetToken (fun s => by
    rw [undo_eval]
    by_cases h : s.pos = 0
    · rw [if_pos h]; trivial
    · rw [if_neg h]; exact LExt.refl _)
theorem Sim.getLineOffset : Sim e getLineOffset :=
  Sim.of_indep' Indep.getLineOffset (fun s => by
    rcases getLineOffset_cases (nonStrict e) s with h | ⟨n, h⟩ <;> rw [h]
    · trivial
    · exact LExt.refl _)

theorem errorOrLog_nonStrict (k : DK) (s : PState) :
    errorOrLog k (nonStrict e) s = .ok () { s with log := ⟨k, s.lastLine⟩ :: s.log } := by
  unfold errorOrLog
  simp only [getEnv_bind]
  split
  · rename_i h; cases h
  · rfl
theorem errorOrLog_strict (k : DK) (s : PState) : errorOrLog k (strictOf e) s = .err ⟨k, s.lastLine⟩ s := by
  unfold errorOrLog
  simp only [getEnv_bind]
  split
  · rfl
  · rename_i h; exact absurd rfl h
theorem errorOrLogNoLine_nonStrict (k : DK) (s : PState) :
    errorOrLogNoLine k (nonStrict e) s = .ok () { s with log := ⟨k, 0⟩ :: s.log } := by
  unfold errorOrLogNoLine
  simp only [getEnv_bind]
  split
  · rename_i h; cases h
  · rfl
theorem errorOrLogNoLine_strict (k : DK) (s : PState) : errorOrLogNoLine k (strictOf e) s = .err ⟨k, 0⟩ s := by
  unfold errorOrLogNoLine
  simp only [getEnv_bind]
  split
  · rfl
  · rename_i h; exact absurd rfl h

theorem not_notice {k : DK} {n : Nat} (hk : k ≠ .blockRefDeprecated ∧ k ≠ .enumRefDeprecated) : ¬ IsNotice ⟨k, n⟩ :=
  fun h => h.elim hk.1 hk.2

theorem Sim.errorOrLog_bind {β} {k : DK} {f : Unit → PM β} (hk : k ≠ .blockRefDeprecated ∧ k ≠ .enumRefDeprecated)
    (h : Sim e (f ())) : Sim e (errorOrLog k >>= f) := by
  intro s
  rw [bind_eq, bind_eq, errorOrLog_nonStrict, errorOrLog_strict]
  exact SimR.bad (not_notice hk) (h { s with log := ⟨k, s.lastLine⟩ :: s.log })

theorem Sim.eol {k : DK} (hk : k ≠ .blockRefDeprecated ∧ k ≠ .enumRefDeprecated) : Sim e (errorOrLog k) := by
  intro s
  rw [errorOrLog_nonStrict, errorOrLog_strict]
  exact SimR.bad (r2 := .ok () { s with log := ⟨k, s.lastLine⟩ :: s.log }) (not_notice hk)
    ⟨LExt.refl _, fun _ => rfl⟩

theorem Sim.errorOrLogNoLine_bind {β} {k : DK} {f : Unit → PM β}
    (hk : k ≠ .blockRefDeprecated ∧ k ≠ .enumRefDeprecated)
    (h : Sim e (f ())) : Sim e (errorOrLogNoLine k >>= f) := by
  intro s
  rw [bind_eq, bind_eq, errorOrLogNoLine_nonStrict, errorOrLogNoLine_strict]
  exact SimR.bad (not_notice hk) (h { s with log := ⟨k, 0⟩ :: s.log })

theorem Sim.logWarning_bind {β} {k : DK} {f : Unit → PM β} (h : Sim e (f ())) : Sim e (logWarning k >>= f) := by
  intro s
  rw [bind_eq, bind_eq, logWarning_eval, logWarning_eval]
  exact SimR.cons (h { s with log := ⟨k, s.lastLine⟩ :: s.log })

theorem Sim.condE {β} {p : Prop} [Decidable p] {k : DK} {f : Unit → PM β}
    (hk : k ≠ .blockRefDeprecated ∧ k ≠ .enumRefDeprecated) (h : Sim e (f ())) :
    Sim e (if p then errorOrLog k >>= f else f ()) := by
  split
  · exact Sim.errorOrLog_bind hk h
  · exact h

theorem Sim.condW {β} {p : Prop} [Decidable p] {k : DK} {f : Unit → PM β} (h : Sim e (f ())) :
    Sim e (if p then logWarning k >>= f else f ()) := by
  split
  · exact Sim.logWarning_bind h
  · exact h

theorem Sim.condF {β} {p : Prop} [Decidable p] {k : DK} {f : Unit → PM β} (h : Sim e (f ())) :
    Sim e (if p then (A2l.Tree.fail k : PM Unit) >>= f else f ()) := by
  split
  · exact Sim.bind (Sim.fail k) (fun _ => h)
  · exact h

theorem Sim.ite {α} {p : Prop} [Decidable p] {a b : PM α} (h1 : Sim e a) (h2 : Sim e b) :
    Sim e (if p then a else b) := by
  split
  · exact h1
  · exact h2

theorem Sim.ite_bind {α β} {p : Prop} [Decidable p] {a b : PM α} {f : α → PM β}
    (h : Sim e ((if p then a else b) >>= f)) : Sim e (if p then a >>= f else b >>= f) := by
  split
  · rename_i hp; rw [if_pos hp] at h; exact h
  · rename_i hp; rw [if_neg hp] at h; exact h

/-! ### the log of the non-strict run only grows: an instance of the judgement of Lemmas/TreeTotal.lean -/

/-- nothing but the log is tracked -/
def cfgLog (e : Env)
    (hm : ∀ ty ctx off s,
      (∀ v s', e.special ty ctx off e.toks e.strict s = .ok v s' → LExt s.log s'.log) ∧
      (∀ d s', e.special ty ctx off e.toks e.strict s = .err d s' → LExt s.log s'.log)) : Cfg e where
  PB := False
  NP := False
  L := LExt
  np_pb := fun h => h.elim
  tok := fun h => h.elim
  ne := fun h => h.elim
  tbl := fun h => h.elim
  L_refl := LExt.refl
  L_trans := LExt.trans
  L_log := fun d l _ => ⟨[d], rfl⟩
  special := by
    intro ty ctx off s hs
    obtain ⟨h2, h3⟩ := hm ty ctx off s
    unfold SafeRaw
    split
    · rename_i a s' heq
      exact ⟨fun h => h.elim, h2 _ _ heq, trivial⟩
    · rename_i d s' heq
      exact ⟨fun h => h.elim, h3 _ _ heq⟩
    · exact fun h => h
    · trivial

def cfgNS (e : Env) (hm : SpecialSimMore e) : Cfg (nonStrict e) :=
  cfgLog (nonStrict e) (fun ty ctx off s => ⟨(hm ty ctx off s).2.1, (hm ty ctx off s).2.2⟩)

theorem Sim.of_indep {α} {P : PM α} (hm : SpecialSimMore e) (hi : Indep e P) {Q : PState → α → PState → Prop}
    (hs : ∀ s, Safe (cfgNS e hm) s.pos s.log (P (nonStrict e) s) (Q s)) : Sim e P :=
  Sim.of_indep' hi (fun s => by
    have h := hs s
    cases hr : P (nonStrict e) s with
    | ok a s' => rw [hr] at h; exact h.2.1
    | err d s' => rw [hr] at h; exact h.2
    | panic => trivial
    | fuel => trivial)

section sim
variable (hsp : SpecialSim e) (hm : SpecialSimMore e)
include hm

theorem expectToken_sim (ctx : Ctx) (ty : Nat) : Sim e (expectToken ctx ty) :=
  Sim.of_indep hm (expectToken_indep ctx ty) (fun s => expectToken_safe (cfgNS e hm) ctx ty s (fun h => False.elim h))
theorem getInteger_sim (ctx : Ctx) (w : Nat) : Sim e (getInteger ctx w) :=
  Sim.of_indep hm (getInteger_indep ctx w) (fun s => getInteger_safe (cfgNS e hm) ctx w s (fun h => False.elim h))
theorem getDouble_sim (ctx : Ctx) : Sim e (getDouble ctx) :=
  Sim.of_indep hm (getDouble_indep ctx) (fun s => getDouble_safe (cfgNS e hm) ctx s (fun h => False.elim h))
theorem getNextTagOrComment_sim (ctx : Ctx) : Sim e (getNextTagOrComment ctx) :=
  Sim.of_indep hm (getNextTagOrComment_indep ctx) (fun s => getNextTagOrComment_safe (cfgNS e hm) ctx s (fun h => False.elim h))
theorem skipUnknownLoop_sim (ctx : Ctx) (itemTag : List Char) (isB : Bool) (stop : List Nat) (balance : Int)
    (fuel : Nat) : Sim e (skipUnknownLoop ctx itemTag isB stop balance fuel) :=
  Sim.of_indep hm (skipUnknownLoop_indep ctx itemTag isB stop fuel balance)
    (fun s => skipUnknownLoop_safe (cfgNS e hm) ctx itemTag isB stop s.pos s.log fuel balance s (fun h => False.elim h)
      (fun h => False.elim h) (LExt.refl _))

theorem getIdentifier_sim (ctx : Ctx) : Sim e (getIdentifier ctx) := by
  unfold getIdentifier
  refine Sim.bind (expectToken_sim hm ctx 0) (fun t => ?_)
  split
  · exact Sim.panic
  · dsimp only
    exact Sim.condE (by decide) (Sim.pure _)

theorem getString_sim (ctx : Ctx) : Sim e (getString ctx) := by
  unfold getString
  refine Sim.peekToken_bind (fun o => ?_)
  split
  · refine Sim.bind (getIdentifier_sim hm ctx) (fun text => ?_)
    exact Sim.errorOrLog_bind (by decide) (Sim.pure _)
  · refine Sim.bind (expectToken_sim hm ctx 4) (fun t => ?_)
    split
    · exact Sim.pure _
    · exact Sim.panic

theorem getStringMaxlen_sim (ctx : Ctx) (n : Nat) : Sim e (getStringMaxlen ctx n) := by
  unfold getStringMaxlen
  refine Sim.bind (getString_sim hm ctx) (fun text => ?_)
  dsimp only
  exact Sim.condE (by decide) (Sim.pure _)

theorem parseEnum_sim (items : List EnumItem) (ctx : Ctx) : Sim e (parseEnum items ctx) := by
  unfold parseEnum
  refine Sim.bind (getIdentifier_sim hm ctx) (fun name => ?_)
  refine Sim.getEnv_bind rfl rfl ?_
  refine Sim.getState_bind (fun s0 => ?_)
  dsimp only
  split
  · refine Sim.condE (by decide) ?_
    refine Sim.condW ?_
    exact Sim.pure _
  · exact Sim.fail _

theorem handleUnknown_sim (ctx : Ctx) (itemTag : List Char) (isB : Bool) (stop : List Nat) :
    Sim e (handleUnknownTaggedstructTag ctx itemTag isB stop) := by
  unfold handleUnknownTaggedstructTag
  refine Sim.errorOrLog_bind (by decide) ?_
  refine Sim.bind (Sim.getToken ctx) (fun _ => ?_)
  refine Sim.bind Sim.undoGetToken (fun _ => ?_)
  refine Sim.getEnv_bind rfl rfl ?_
  exact skipUnknownLoop_sim hm ctx itemTag isB stop _ _

/-! ### the mutual block -/

structure AllSim (e : Env) (fuel : Nat) : Prop where
  item : ∀ ctx it, Sim e (parseItem fuel ctx it)
  arr : ∀ ctx of n, Sim e (parseArr fuel ctx of n)
  seq : ∀ ctx of stop acc, Sim e (parseSeq fuel ctx of stop acc)
  items : ∀ ctx its, Sim e (parseItems fuel ctx its)
  tagged : ∀ ctx arms pib ch cm, Sim e (parseTagged fuel ctx arms pib ch cm)
  type : ∀ ty ctx off, Sim e (parseType fuel ty ctx off)

omit hm in
theorem allSim_zero : AllSim e 0 := by
  constructor
  · intro ctx it; rw [parseItem]; exact Sim.outOfFuel
  · intro ctx of n; rw [parseArr]; exact Sim.outOfFuel
  · intro ctx of stop acc; rw [parseSeq]; exact Sim.outOfFuel
  · intro ctx its; rw [parseItems]; exact Sim.outOfFuel
  · intro ctx arms pib ch cm; rw [parseTagged]; exact Sim.outOfFuel
  · intro ty ctx off; rw [parseType]; exact Sim.outOfFuel

omit hm in
theorem Sim.scalar {α} {m : PM α} {g : α → Nat → Val} (h : Sim e m) :
    Sim e (m >>= fun v => A2l.Tree.getLineOffset >>= fun off => Pure.pure (g v off)) :=
  Sim.bind h (fun _ => Sim.bind Sim.getLineOffset (fun _ => Sim.pure _))

theorem parseItem_sim {fuel : Nat} (ih : AllSim e fuel) (ctx : Ctx) (it : ItemTy) :
    Sim e (parseItem (fuel + 1) ctx it) := by
  cases it with
  | ident => rw [parseItem]; exact Sim.scalar (getIdentifier_sim hm ctx)
  | string => rw [parseItem]; exact Sim.scalar (getString_sim hm ctx)
  | double => rw [parseItem]; exact Sim.scalar (getDouble_sim hm ctx)
  | float => rw [parseItem]; exact Sim.scalar (getDouble_sim hm ctx)
  | int w =>
    rw [parseItem]
    refine Sim.bind (getInteger_sim hm ctx w) (fun x => ?_)
    exact Sim.bind Sim.getLineOffset (fun _ => Sim.pure _)
  | strMax n =>
    rw [parseItem]
    exact Sim.bind (getStringMaxlen_sim hm ctx n) (fun _ => Sim.pure _)
  | enumRef ty =>
    rw [parseItem]
    refine Sim.getEnv_bind rfl rfl ?_
    split
    · exact Sim.scalar (parseEnum_sim hm _ ctx)
    · exact Sim.panic
  | structRef ty => rw [parseItem]; exact ih.type ty ctx 0
  | arr of dim => rw [parseItem]; exact Sim.bind (ih.arr ctx of dim) (fun _ => Sim.pure _)
  | seq of stop => rw [parseItem]; exact Sim.bind (ih.seq ctx of stop []) (fun _ => Sim.pure _)

omit hm in
theorem parseArr_sim {fuel : Nat} (ih : AllSim e fuel) (ctx : Ctx) (of : ItemTy) (n : Nat) :
    Sim e (parseArr (fuel + 1) ctx of n) := by
  cases n with
  | zero => rw [parseArr]; exact Sim.pure _
  | succ n =>
    rw [parseArr]
    exact Sim.bind (ih.item ctx of) (fun _ => Sim.bind (ih.arr ctx of n) (fun _ => Sim.pure _))

omit hm in
theorem parseItems_sim {fuel : Nat} (ih : AllSim e fuel) (ctx : Ctx) (its : List ItemTy) :
    Sim e (parseItems (fuel + 1) ctx its) := by
  cases its with
  | nil => rw [parseItems]; exact Sim.pure _
  | cons it its =>
    rw [parseItems]
    exact Sim.bind (ih.item ctx it) (fun _ => Sim.bind (ih.items ctx its) (fun _ => Sim.pure _))

omit hm in
theorem parseSeq_sim {fuel : Nat} (ih : AllSim e fuel) (ctx : Ctx) (of : ItemTy) (stop : List Nat) (acc : List Val) :
    Sim e (parseSeq (fuel + 1) ctx of stop acc) := by
  rw [parseSeq]
  refine Sim.getTokenpos_bind (fun cur => ?_)
  refine Sim.bind (Sim.attempt (ih.item ctx of)) (fun r => ?_)
  split
  · exact Sim.bind (Sim.setTokenpos _) (fun _ => Sim.pure _)
  · refine Sim.getEnv_bind rfl rfl ?_
    refine Sim.getState_bind (fun s0 => ?_)
    dsimp only
    refine Sim.ite ?_ ?_
    · exact Sim.bind (Sim.setTokenpos _) (fun _ => Sim.pure _)
    · exact ih.seq ctx of stop _

theorem parseTagged_sim {fuel : Nat} (ih : AllSim e fuel) (ctx : Ctx) (arms : List Arm) (pib : Bool)
    (ch : List (List Val)) (cm : List Cmt) : Sim e (parseTagged (fuel + 1) ctx arms pib ch cm) := by
  rw [parseTagged]
  refine Sim.bind (getNextTagOrComment_sim hm ctx) (fun bc => ?_)
  cases bc with
  | comment tok off =>
    dsimp only
    refine Sim.ite ?_ ?_
    · exact Sim.bind Sim.getNextId (fun _ => ih.tagged _ _ _ _ _)
    · exact ih.tagged _ _ _ _ _
  | none => exact Sim.pure _
  | block tok isB off =>
    dsimp only
    generalize List.findIdx? (fun x => x.tag == tok.sym) arms = oi
    cases oi with
    | none =>
      dsimp only
      refine Sim.ite ?_ ?_
      · exact Sim.bind (handleUnknown_sim hm ctx _ _ _) (fun _ => ih.tagged _ _ _ _ _)
      · refine Sim.ite ?_ ?_
        · exact Sim.bind Sim.undoGetToken (fun _ => Sim.bind Sim.undoGetToken (fun _ => Sim.pure _))
        · exact Sim.bind Sim.undoGetToken (fun _ => Sim.pure _)
    | some i =>
      dsimp only
      generalize arms[i]? = oarm
      cases oarm with
      | none => exact Sim.panic
      | some arm =>
        dsimp only
        refine Sim.condF ?_
        refine Sim.condF ?_
        refine Sim.getState_bind (fun s0 => ?_)
        refine Sim.condE (by decide) ?_
        refine Sim.getState_bind (fun s1 => ?_)
        refine Sim.condW ?_
        refine Sim.bind (ih.type _ _ _) (fun v => ?_)
        refine Sim.ite ?_ ?_
        · exact ih.tagged _ _ _ _ _
        · exact Sim.condE (by decide) (ih.tagged _ _ _ _ _)

omit hm in
theorem foldlM_sim {X : Type} (F : Unit → X → PM Unit) (hF : ∀ u x, Sim e (F u x)) :
    ∀ (l : List X) (u : Unit), Sim e (List.foldlM F u l)
  | [], u => by rw [List.foldlM_nil]; exact Sim.pure _
  | x :: l, u => by
    rw [List.foldlM_cons]
    exact Sim.bind (hF u x) (fun u' => foldlM_sim F hF l u')

include hsp in
theorem special_sim (ty : Nat) (ctx : Ctx) (off : Nat) :
    Sim e (fun e s => e.special ty ctx off e.toks e.strict s) := by
  intro s
  obtain ⟨h1, -, -⟩ := hsp ty ctx off s
  obtain ⟨h2, h3, h4⟩ := hm ty ctx off s
  show SimR s.log (e.special ty ctx off e.toks false s) (e.special ty ctx off e.toks true s)
  cases hr : e.special ty ctx off e.toks false s with
  | ok v s' => exact ⟨h3 v s' hr, fun hc => h1 v s' hr hc⟩
  | err d s' => exact ⟨h4 d s' hr, fun hc => h2 d s' hr hc⟩
  | panic => trivial
  | fuel => trivial

include hsp in
theorem parseType_sim {fuel : Nat} (ih : AllSim e fuel) (ty : Nat) (ctx : Ctx) (off : Nat) :
    Sim e (parseType (fuel + 1) ty ctx off) := by
  rw [parseType]
  refine Sim.getEnv_bind rfl rfl ?_
  split
  · rename_i isB items arms hT _
    refine Sim.bind Sim.getNextId (fun uid => ?_)
    refine Sim.bind (ih.items ctx items) (fun fields => ?_)
    refine Sim.ite_bind ?_
    refine Sim.bind (Sim.ite (ih.tagged _ _ _ _ _) (Sim.pure _)) (fun x => ?_)
    obtain ⟨children, comments⟩ := x
    dsimp only
    refine Sim.bind (foldlM_sim _ ?_ _ _) (fun _ => ?_)
    · intro u ac
      refine Sim.ite (Sim.ite ?_ (Sim.fail _)) (Sim.pure _)
      exact Sim.eol (by decide)
    · refine Sim.ite ?_ (Sim.pure _)
      refine Sim.bind (expectToken_sim hm ctx 2) (fun _ => ?_)
      refine Sim.bind Sim.getLineOffset (fun endOff => ?_)
      refine Sim.bind (getIdentifier_sim hm ctx) (fun ident => ?_)
      exact Sim.condE (by decide) (Sim.pure _)
  · exact special_sim hsp hm ty ctx off
  · exact Sim.panic

include hsp in
theorem allSim : ∀ fuel, AllSim e fuel
  | 0 => allSim_zero
  | fuel + 1 =>
    have ih := allSim fuel
    ⟨parseItem_sim hm ih, parseArr_sim ih, parseSeq_sim ih, parseItems_sim ih, parseTagged_sim hm ih,
     parseType_sim hsp hm ih⟩

/-! ### `parse_version`, `parse_file` -/

omit hm in
theorem resetTail_sim (k : DK) (n : Nat) (hk : k ≠ .blockRefDeprecated ∧ k ≠ .enumRefDeprecated) :
    Sim e (setTokenpos 0 >>= fun _ => errorOrLogNoLine k >>= fun _ => Pure.pure n) :=
  Sim.bind (Sim.setTokenpos 0) (fun _ => Sim.errorOrLogNoLine_bind hk (Sim.pure _))

include hsp in
theorem parseVersion_sim (fuel : Nat) (ctx : Ctx) : Sim e (parseVersion fuel ctx) := by
  unfold parseVersion
  refine Sim.getEnv_bind rfl rfl ?_
  refine Sim.peekToken_bind (fun o => ?_)
  cases o with
  | none => exact resetTail_sim _ _ (by decide)
  | some token =>
    dsimp only
    refine Sim.bind (Sim.attempt (getIdentifier_sim hm ctx)) (fun ident => ?_)
    refine Sim.getState_bind (fun s1 => ?_)
    refine Sim.ite ?_ (resetTail_sim _ _ (by decide))
    refine Sim.bind (Sim.attempt ((allSim hsp hm fuel).type _ _ _)) (fun r => ?_)
    refine Sim.bind (Sim.setTokenpos 0) (fun _ => ?_)
    split
    · split
      · exact Sim.pure _
      · exact Sim.errorOrLogNoLine_bind (by decide) (Sim.pure _)
    · exact Sim.panic
    · exact Sim.errorOrLogNoLine_bind (by decide) (Sim.pure _)

include hsp in
theorem parseFile_sim (fuel : Nat) : Sim e (parseFile fuel) := by
  unfold parseFile
  refine Sim.getEnv_bind rfl rfl ?_
  dsimp only
  refine Sim.bind (parseVersion_sim hsp hm fuel _) (fun ver => ?_)
  refine Sim.bind (Sim.modifyState (fun _ => rfl)) (fun _ => ?_)
  refine Sim.bind ((allSim hsp hm fuel).type _ _ _) (fun file => ?_)
  refine Sim.peekToken_bind (fun o => ?_)
  split
  · exact Sim.errorOrLog_bind (by decide) (Sim.pure _)
  · exact Sim.pure _

end sim

/-! ## quiet items do not depend on the mode -/

theorem scalarItem_indep {it : ItemTy} (h : (∃ w, it = .int w) ∨ it = .double ∨ it = .float) :
    ∀ fuel ctx, Indep e (parseItem fuel ctx it) := by
  intro fuel ctx
  cases fuel with
  | zero => rw [parseItem]; exact Indep.outOfFuel
  | succ fuel =>
    rcases h with ⟨w, rfl⟩ | rfl | rfl
    · rw [parseItem]
      exact Indep.bind (getInteger_indep ctx w) (fun _ => Indep.bind Indep.getLineOffset (fun _ => Indep.pure _))
    · rw [parseItem]
      exact Indep.bind (getDouble_indep ctx) (fun _ => Indep.bind Indep.getLineOffset (fun _ => Indep.pure _))
    · rw [parseItem]
      exact Indep.bind (getDouble_indep ctx) (fun _ => Indep.bind Indep.getLineOffset (fun _ => Indep.pure _))

theorem parseArr_indep {of : ItemTy} (h : ∀ fuel ctx, Indep e (parseItem fuel ctx of)) :
    ∀ fuel ctx n, Indep e (parseArr fuel ctx of n)
  | 0, _, _ => by rw [parseArr]; exact Indep.outOfFuel
  | fuel + 1, ctx, 0 => by rw [parseArr]; exact Indep.pure _
  | fuel + 1, ctx, n + 1 => by
    rw [parseArr]
    exact Indep.bind (h fuel ctx) (fun _ => Indep.bind (parseArr_indep h fuel ctx n) (fun _ => Indep.pure _))

theorem parseItems_indep : ∀ (fuel : Nat) (ctx : Ctx) (its : List ItemTy),
    (∀ it ∈ its, ∀ fuel ctx, Indep e (parseItem fuel ctx it)) → Indep e (parseItems fuel ctx its)
  | 0, _, _, _ => by rw [parseItems]; exact Indep.outOfFuel
  | fuel + 1, ctx, [], _ => by rw [parseItems]; exact Indep.pure _
  | fuel + 1, ctx, it :: its, h => by
    rw [parseItems]
    exact Indep.bind (h it (List.mem_cons_self ..) fuel ctx) (fun _ =>
      Indep.bind (parseItems_indep fuel ctx its (fun it' hit' => h it' (List.mem_cons_of_mem _ hit'))) (fun _ =>
        Indep.pure _))

/-- a keyword / struct without tagged part whose parameters are quiet -/
theorem parseType_quiet_indep {ty : Nat} {items : List ItemTy}
    (hlk : e.table.lookup ty = some (.block false items [] false))
    (hitems : ∀ fuel ctx, Indep e (parseItems fuel ctx items)) :
    ∀ fuel ctx off, Indep e (parseType fuel ty ctx off) := by
  intro fuel ctx off
  cases fuel with
  | zero => rw [parseType]; exact Indep.outOfFuel
  | succ fuel =>
    rw [parseType]
    refine Indep.getEnv_bind rfl rfl ?_
    simp only [hlk]
    refine Indep.bind Indep.getNextId (fun uid => ?_)
    refine Indep.bind (hitems fuel ctx) (fun fields => ?_)
    simp only [Bool.false_eq_true, if_false]
    refine Indep.bind (Indep.pure _) (fun x => ?_)
    obtain ⟨children, comments⟩ := x
    simp only [List.zip_nil_left, List.foldlM_nil]
    exact Indep.bind (Indep.pure _) (fun _ => Indep.pure _)

theorem quiet_indep : ∀ (n : Nat) (it : ItemTy), quietItem e.table n it = true →
    ∀ fuel ctx, Indep e (parseItem fuel ctx it) := by
  intro n
  induction n with
  | zero =>
    intro it h
    cases it <;> simp [quietItem] at h
    · exact scalarItem_indep (.inr (.inl rfl))
    · exact scalarItem_indep (.inr (.inr rfl))
    · exact scalarItem_indep (.inl ⟨_, rfl⟩)
  | succ n ih =>
    intro it h
    cases it with
    | double => exact scalarItem_indep (.inr (.inl rfl))
    | float => exact scalarItem_indep (.inr (.inr rfl))
    | int w => exact scalarItem_indep (.inl ⟨_, rfl⟩)
    | ident => simp [quietItem] at h
    | string => simp [quietItem] at h
    | strMax n => simp [quietItem] at h
    | enumRef ty => simp [quietItem] at h
    | seq of stop => simp [quietItem] at h
    | arr of dim =>
      have h' : quietItem e.table n of = true := by simpa [quietItem] using h
      intro fuel ctx
      cases fuel with
      | zero => rw [parseItem]; exact Indep.outOfFuel
      | succ fuel =>
        rw [parseItem]
        exact Indep.bind (parseArr_indep (ih of h') fuel ctx dim) (fun _ => Indep.pure _)
    | structRef ty =>
      unfold quietItem at h
      split at h
      · rename_i items hlk
        intro fuel ctx
        cases fuel with
        | zero => rw [parseItem]; exact Indep.outOfFuel
        | succ fuel =>
          rw [parseItem]
          refine parseType_quiet_indep hlk ?_ fuel ctx 0
          intro fuel' ctx'
          exact parseItems_indep fuel' ctx' items (fun it hit => ih it (List.all_eq_true.1 h it hit))
      · cases h

/-! ## `Fwd`: a successful strict run is also a non-strict run -/

def Fwd (e : Env) {α} (P : PM α) : Prop :=
  ∀ s a s', P (strictOf e) s = .ok a s' → P (nonStrict e) s = .ok a s'

theorem Fwd.of_indep {α} {P : PM α} (h : Indep e P) : Fwd e P := fun s a s' hr => by rw [← h s]; exact hr

theorem Fwd.pure {α} (a : α) : Fwd e (Pure.pure a : PM α) := Fwd.of_indep (Indep.pure a)
theorem Fwd.fail {α} (k : DK) : Fwd e (fail k : PM α) := Fwd.of_indep (Indep.fail k)
theorem Fwd.panic {α} : Fwd e (panic : PM α) := Fwd.of_indep Indep.panic
theorem Fwd.outOfFuel {α} : Fwd e (outOfFuel : PM α) := Fwd.of_indep Indep.outOfFuel

theorem Fwd.bind {α β} {m : PM α} {f : α → PM β} (h1 : Fwd e m) (h2 : ∀ a, Fwd e (f a)) : Fwd e (m >>= f) := by
  intro s b s2 hr
  obtain ⟨a, s1, hm, hf⟩ := bind_eq_ok hr
  rw [bind_eq, h1 s a s1 hm]
  exact h2 a s1 b s2 hf

theorem Fwd.getEnv_bind {β} {f : Env → PM β} (h1 : f (strictOf e) = f e) (h2 : f (nonStrict e) = f e)
    (h : Fwd e (f e)) : Fwd e (getEnv >>= f) := by
  intro s a s'
  show f (strictOf e) (strictOf e) s = .ok a s' → f (nonStrict e) (nonStrict e) s = .ok a s'
  rw [h1, h2]
  exact h s a s'
theorem Fwd.getState_bind {β} {f : PState → PM β} (h : ∀ s0, Fwd e (f s0)) : Fwd e (getState >>= f) :=
  fun s => h s s
theorem Fwd.getTokenpos_bind {β} {f : Nat → PM β} (h : ∀ p, Fwd e (f p)) : Fwd e (getTokenpos >>= f) :=
  fun s => h s.pos s
theorem Fwd.peekToken_bind {β} {f : Option PTok → PM β} (h : ∀ o, Fwd e (f o)) : Fwd e (peekToken >>= f) :=
  fun s => h e.toks[s.pos]? s

theorem Fwd.errorOrLog_bind {β} {k : DK} {f : Unit → PM β} : Fwd e (errorOrLog k >>= f) := by
  intro s a s' hr
  rw [bind_eq, errorOrLog_strict] at hr
  cases hr

theorem Fwd.eol {k : DK} : Fwd e (errorOrLog k) := by
  intro s a s' hr
  rw [errorOrLog_strict] at hr
  cases hr

theorem Fwd.condE {β} {p : Prop} [Decidable p] {k : DK} {f : Unit → PM β} (h : Fwd e (f ())) :
    Fwd e (if p then errorOrLog k >>= f else f ()) := by
  split
  · exact Fwd.errorOrLog_bind
  · exact h

theorem Fwd.condW {β} {p : Prop} [Decidable p] {k : DK} {f : Unit → PM β} (h : Fwd e (f ())) :
    Fwd e (if p then logWarning k >>= f else f ()) := by
  split
  · exact Fwd.bind (Fwd.of_indep (Indep.logWarning k)) (fun _ => h)
  · exact h

theorem Fwd.condF {β} {p : Prop} [Decidable p] {k : DK} {f : Unit → PM β} (h : Fwd e (f ())) :
    Fwd e (if p then (A2l.Tree.fail k : PM Unit) >>= f else f ()) := by
  split
  · exact Fwd.bind (Fwd.fail k) (fun _ => h)
  · exact h

theorem Fwd.ite {α} {p : Prop} [Decidable p] {a b : PM α} (h1 : Fwd e a) (h2 : Fwd e b) :
    Fwd e (if p then a else b) := by
  split
  · exact h1
  · exact h2

theorem Fwd.ite_bind {α β} {p : Prop} [Decidable p] {a b : PM α} {f : α → PM β}
    (h : Fwd e ((if p then a else b) >>= f)) : Fwd e (if p then a >>= f else b >>= f) := by
  split
  · rename_i hp; rw [if_pos hp] at h; exact h
  · rename_i hp; rw [if_neg hp] at h; exact h

theorem getIdentifier_fwd (ctx : Ctx) : Fwd e (getIdentifier ctx) := by
  unfold getIdentifier
  refine Fwd.bind (Fwd.of_indep (expectToken_indep ctx 0)) (fun t => ?_)
  split
  · exact Fwd.panic
  · dsimp only
    exact Fwd.condE (Fwd.pure _)

theorem getString_fwd (ctx : Ctx) : Fwd e (getString ctx) := by
  unfold getString
  refine Fwd.peekToken_bind (fun o => ?_)
  split
  · exact Fwd.bind (getIdentifier_fwd ctx) (fun text => Fwd.errorOrLog_bind)
  · refine Fwd.bind (Fwd.of_indep (expectToken_indep ctx 4)) (fun t => ?_)
    split
    · exact Fwd.pure _
    · exact Fwd.panic

theorem getStringMaxlen_fwd (ctx : Ctx) (n : Nat) : Fwd e (getStringMaxlen ctx n) := by
  unfold getStringMaxlen
  refine Fwd.bind (getString_fwd ctx) (fun text => ?_)
  dsimp only
  exact Fwd.condE (Fwd.pure _)

theorem parseEnum_fwd (items : List EnumItem) (ctx : Ctx) : Fwd e (parseEnum items ctx) := by
  unfold parseEnum
  refine Fwd.bind (getIdentifier_fwd ctx) (fun name => ?_)
  refine Fwd.getEnv_bind rfl rfl ?_
  refine Fwd.getState_bind (fun s0 => ?_)
  dsimp only
  split
  · refine Fwd.condE ?_
    refine Fwd.condW ?_
    exact Fwd.pure _
  · exact Fwd.fail _

theorem handleUnknown_fwd (ctx : Ctx) (itemTag : List Char) (isB : Bool) (stop : List Nat) :
    Fwd e (handleUnknownTaggedstructTag ctx itemTag isB stop) := by
  unfold handleUnknownTaggedstructTag
  exact Fwd.errorOrLog_bind

/-! ### the mutual block -/

theorem lookup_seqSafe {ty : Nat} {isB : Bool} {items : List ItemTy} {arms : List Arm} {hT : Bool}
    (hsafe : seqSafeDeep e.table = true) (hlk : e.table.lookup ty = some (.block isB items arms hT)) :
    items.all (seqSafeItem e.table) = true := by
  obtain ⟨en, hmem, hd⟩ := lookup_mem hlk
  have := List.all_eq_true.1 hsafe en hmem
  rw [hd] at this
  exact this

structure AllFwd (e : Env) (fuel : Nat) : Prop where
  item : ∀ ctx it, seqSafeItem e.table it = true → Fwd e (parseItem fuel ctx it)
  arr : ∀ ctx of n, seqSafeItem e.table of = true → Fwd e (parseArr fuel ctx of n)
  seq : ∀ ctx of stop acc, quietItem e.table e.table.length of = true → Fwd e (parseSeq fuel ctx of stop acc)
  items : ∀ ctx its, its.all (seqSafeItem e.table) = true → Fwd e (parseItems fuel ctx its)
  tagged : ∀ ctx arms pib ch cm, Fwd e (parseTagged fuel ctx arms pib ch cm)
  type : ∀ ty ctx off, Fwd e (parseType fuel ty ctx off)

theorem allFwd_zero : AllFwd e 0 := by
  constructor
  · intro ctx it _; rw [parseItem]; exact Fwd.outOfFuel
  · intro ctx of n _; rw [parseArr]; exact Fwd.outOfFuel
  · intro ctx of stop acc _; rw [parseSeq]; exact Fwd.outOfFuel
  · intro ctx its _; rw [parseItems]; exact Fwd.outOfFuel
  · intro ctx arms pib ch cm; rw [parseTagged]; exact Fwd.outOfFuel
  · intro ty ctx off; rw [parseType]; exact Fwd.outOfFuel

theorem Fwd.scalar {α} {m : PM α} {g : α → Nat → Val} (h : Fwd e m) :
    Fwd e (m >>= fun v => A2l.Tree.getLineOffset >>= fun off => Pure.pure (g v off)) :=
  Fwd.bind h (fun _ => Fwd.bind (Fwd.of_indep Indep.getLineOffset) (fun _ => Fwd.pure _))

theorem parseItem_fwd {fuel : Nat} (ih : AllFwd e fuel) (ctx : Ctx) (it : ItemTy)
    (hit : seqSafeItem e.table it = true) : Fwd e (parseItem (fuel + 1) ctx it) := by
  cases it with
  | ident => rw [parseItem]; exact Fwd.scalar (getIdentifier_fwd ctx)
  | string => rw [parseItem]; exact Fwd.scalar (getString_fwd ctx)
  | double => exact Fwd.of_indep (scalarItem_indep (.inr (.inl rfl)) _ _)
  | float => exact Fwd.of_indep (scalarItem_indep (.inr (.inr rfl)) _ _)
  | int w => exact Fwd.of_indep (scalarItem_indep (.inl ⟨_, rfl⟩) _ _)
  | strMax n =>
    rw [parseItem]
    exact Fwd.bind (getStringMaxlen_fwd ctx n) (fun _ => Fwd.pure _)
  | enumRef ty =>
    rw [parseItem]
    refine Fwd.getEnv_bind rfl rfl ?_
    split
    · exact Fwd.scalar (parseEnum_fwd _ ctx)
    · exact Fwd.panic
  | structRef ty => rw [parseItem]; exact ih.type ty ctx 0
  | arr of dim => rw [parseItem]; exact Fwd.bind (ih.arr ctx of dim hit) (fun _ => Fwd.pure _)
  | seq of stop => rw [parseItem]; exact Fwd.bind (ih.seq ctx of stop [] hit) (fun _ => Fwd.pure _)

theorem parseArr_fwd {fuel : Nat} (ih : AllFwd e fuel) (ctx : Ctx) (of : ItemTy) (n : Nat)
    (hit : seqSafeItem e.table of = true) : Fwd e (parseArr (fuel + 1) ctx of n) := by
  cases n with
  | zero => rw [parseArr]; exact Fwd.pure _
  | succ n =>
    rw [parseArr]
    exact Fwd.bind (ih.item ctx of hit) (fun _ => Fwd.bind (ih.arr ctx of n hit) (fun _ => Fwd.pure _))

theorem parseItems_fwd {fuel : Nat} (ih : AllFwd e fuel) (ctx : Ctx) (its : List ItemTy)
    (hit : its.all (seqSafeItem e.table) = true) : Fwd e (parseItems (fuel + 1) ctx its) := by
  cases its with
  | nil => rw [parseItems]; exact Fwd.pure _
  | cons it its =>
    rw [parseItems]
    simp only [List.all_cons, Bool.and_eq_true] at hit
    exact Fwd.bind (ih.item ctx it hit.1) (fun _ => Fwd.bind (ih.items ctx its hit.2) (fun _ => Fwd.pure _))

theorem parseSeq_fwd {fuel : Nat} (ih : AllFwd e fuel) (ctx : Ctx) (of : ItemTy) (stop : List Nat) (acc : List Val)
    (hq : quietItem e.table e.table.length of = true) : Fwd e (parseSeq (fuel + 1) ctx of stop acc) := by
  rw [parseSeq]
  refine Fwd.getTokenpos_bind (fun cur => ?_)
  refine Fwd.bind (Fwd.of_indep (Indep.attempt (quiet_indep _ _ hq fuel ctx))) (fun r => ?_)
  split
  · exact Fwd.bind (Fwd.of_indep (Indep.setTokenpos _)) (fun _ => Fwd.pure _)
  · refine Fwd.getEnv_bind rfl rfl ?_
    refine Fwd.getState_bind (fun s0 => ?_)
    dsimp only
    refine Fwd.ite ?_ ?_
    · exact Fwd.bind (Fwd.of_indep (Indep.setTokenpos _)) (fun _ => Fwd.pure _)
    · exact ih.seq ctx of stop _ hq

theorem parseTagged_fwd {fuel : Nat} (ih : AllFwd e fuel) (ctx : Ctx) (arms : List Arm) (pib : Bool)
    (ch : List (List Val)) (cm : List Cmt) : Fwd e (parseTagged (fuel + 1) ctx arms pib ch cm) := by
  rw [parseTagged]
  refine Fwd.bind (Fwd.of_indep (getNextTagOrComment_indep ctx)) (fun bc => ?_)
  cases bc with
  | comment tok off =>
    dsimp only
    refine Fwd.ite ?_ ?_
    · exact Fwd.bind (Fwd.of_indep Indep.getNextId) (fun _ => ih.tagged _ _ _ _ _)
    · exact ih.tagged _ _ _ _ _
  | none => exact Fwd.pure _
  | block tok isB off =>
    dsimp only
    generalize List.findIdx? (fun x => x.tag == tok.sym) arms = oi
    cases oi with
    | none =>
      dsimp only
      refine Fwd.ite ?_ ?_
      · exact Fwd.bind (handleUnknown_fwd ctx _ _ _) (fun _ => ih.tagged _ _ _ _ _)
      · refine Fwd.ite ?_ ?_
        · exact Fwd.bind (Fwd.of_indep Indep.undoGetToken) (fun _ =>
            Fwd.bind (Fwd.of_indep Indep.undoGetToken) (fun _ => Fwd.pure _))
        · exact Fwd.bind (Fwd.of_indep Indep.undoGetToken) (fun _ => Fwd.pure _)
    | some i =>
      dsimp only
      generalize arms[i]? = oarm
      cases oarm with
      | none => exact Fwd.panic
      | some arm =>
        dsimp only
        refine Fwd.condF ?_
        refine Fwd.condF ?_
        refine Fwd.getState_bind (fun s0 => ?_)
        refine Fwd.condE ?_
        refine Fwd.getState_bind (fun s1 => ?_)
        refine Fwd.condW ?_
        refine Fwd.bind (ih.type _ _ _) (fun v => ?_)
        refine Fwd.ite ?_ ?_
        · exact ih.tagged _ _ _ _ _
        · exact Fwd.condE (ih.tagged _ _ _ _ _)

theorem foldlM_fwd {X : Type} (F : Unit → X → PM Unit) (hF : ∀ u x, Fwd e (F u x)) :
    ∀ (l : List X) (u : Unit), Fwd e (List.foldlM F u l)
  | [], u => by rw [List.foldlM_nil]; exact Fwd.pure _
  | x :: l, u => by
    rw [List.foldlM_cons]
    exact Fwd.bind (hF u x) (fun u' => foldlM_fwd F hF l u')

theorem special_fwd (hsp : SpecialSim e) (ty : Nat) (ctx : Ctx) (off : Nat) :
    Fwd e (fun e s => e.special ty ctx off e.toks e.strict s) := by
  intro s v s' hr
  exact (hsp ty ctx off s).2.1 v s' hr

theorem parseType_fwd (hsafe : seqSafeDeep e.table = true) (hsp : SpecialSim e) {fuel : Nat} (ih : AllFwd e fuel)
    (ty : Nat) (ctx : Ctx) (off : Nat) : Fwd e (parseType (fuel + 1) ty ctx off) := by
  rw [parseType]
  refine Fwd.getEnv_bind rfl rfl ?_
  split
  · rename_i isB items arms hT hlk
    refine Fwd.bind (Fwd.of_indep Indep.getNextId) (fun uid => ?_)
    refine Fwd.bind (ih.items ctx items (lookup_seqSafe hsafe hlk)) (fun fields => ?_)
    refine Fwd.ite_bind ?_
    refine Fwd.bind (Fwd.ite (ih.tagged _ _ _ _ _) (Fwd.pure _)) (fun x => ?_)
    obtain ⟨children, comments⟩ := x
    dsimp only
    refine Fwd.bind (foldlM_fwd _ ?_ _ _) (fun _ => ?_)
    · intro u ac
      exact Fwd.ite (Fwd.ite Fwd.eol (Fwd.fail _)) (Fwd.pure _)
    · refine Fwd.ite ?_ (Fwd.pure _)
      refine Fwd.bind (Fwd.of_indep (expectToken_indep ctx 2)) (fun _ => ?_)
      refine Fwd.bind (Fwd.of_indep Indep.getLineOffset) (fun endOff => ?_)
      refine Fwd.bind (getIdentifier_fwd ctx) (fun ident => ?_)
      exact Fwd.condE (Fwd.pure _)
  · exact special_fwd hsp ty ctx off
  · exact Fwd.panic

theorem allFwd (hsafe : seqSafeDeep e.table = true) (hsp : SpecialSim e) : ∀ fuel, AllFwd e fuel
  | 0 => allFwd_zero
  | fuel + 1 =>
    have ih := allFwd hsafe hsp fuel
    ⟨parseItem_fwd ih, parseArr_fwd ih, parseSeq_fwd ih, parseItems_fwd ih, parseTagged_fwd ih,
     parseType_fwd hsafe hsp ih⟩

end A2l.Tree
