import A2lVerif.Lemmas.Scalars
/-!
# Scalar codecs: strings and integers (used by C01 — save/reload stability, and C02 — content preservation)

Property theorems only; model in Model/Scalars.lean. Quantification: every string over all of Unicode; every integer
type, every in-range value, both notations; every literal text.
-/
namespace A2l.Sc

/-- **C01.1** a string value survives write + read: `unescape_string(add_quoted_string(s)) = s`, all of Unicode -/
theorem unescape_escape (s : List Char) : unescape (escape s) = .ok s := by
  obtain ⟨r, hr, h1, h2⟩ := unescape_okL (escape s)
  rw [hr]
  cases h : (escape s).any (fun c => c = '\\' ∨ c = '"') with
  | true => rw [h1 h, unescapeL_escape]
  | false => rw [h2 h, escape_eq_self_of_not_any s h]

/-- **C03** `unescape_string` never indexes out of range, whatever the token text -/
theorem unescape_no_panic (s : List Char) : unescape s ≠ .panic := by
  obtain ⟨r, hr, _⟩ := unescape_okL s
  rw [hr]; intro h; cases h

/-- the escaped text contains no bare quote: every `"` is preceded by a backslash that is not itself escaped — stated
    as: the escaped text is a concatenation of units, each either one character other than `"` and `\\`, or a
    backslash followed by one character -/
theorem escape_units (s : List Char) :
    ∃ units : List (List Char), escape s = units.flatten ∧
      ∀ u ∈ units, (∃ c, u = [c] ∧ c ≠ '"' ∧ c ≠ '\\') ∨ (∃ d, u = ['\\', d]) := by
  refine ⟨s.map escChar, ?_, ?_⟩
  · simp [escape, List.flatMap_def]
  · intro u hu
    obtain ⟨c, _, rfl⟩ := List.mem_map.1 hu
    rcases escChar_cases c with ⟨d, hd, _, _⟩ | ⟨hp, hd⟩
    · exact Or.inr ⟨d, hd⟩
    · exact Or.inl ⟨c, hd, hp.2.1, hp.2.2.1⟩

/-- **C01.2 / C02** an in-range value survives write + read in either notation, for all eight integer types;
    the notation flag survives too -/
theorem int_roundtrip (t : IntTy) (v : Int) (hex : Bool) (h : t.inRange v) :
    parseInt t (printInt t v hex) = some (v, hex) := by
  cases hex with
  | true =>
    obtain ⟨n, hp, hn, hw⟩ := printInt_hex_n t v h
    rw [hp, parseInt_hex_spec t 'x' _ (Or.inl rfl) (natToDigits_ne_nil _ _ (by omega) _),
      hexBody_eq_self_of_hexDigits (hexDigits_natToDigits n), hexDigits_natToDigits]
    dsimp only
    rw [if_pos hn, hw]
  | false =>
    unfold IntTy.inRange at h
    simp only [printInt, Bool.false_eq_true, if_false, showDec]
    split
    · rename_i hv
      have hs : t.signed = true := by
        cases hs : t.signed with
        | true => rfl
        | false => have := t.min_eq_zero_of_unsigned hs; omega
      rw [parseInt_neg t (decDigits_natToDigits _) hs (by omega)]
      congr 2; omega
    · rename_i hv
      rw [parseInt_of_decDigits t (decDigits_natToDigits _), if_pos (by omega)]
      congr 2; omega

/-- **C02** decimal literals: the stored value is the literal's value, and it is in range -/
theorem int_faithful_dec (t : IntTy) (cs : List Char) (v : Int) (h : parseInt t cs = some (v, false)) :
    literalValue cs = some v ∧ t.inRange v := by
  by_cases hh : IsHexLit cs
  · obtain ⟨x, rest, rfl, hx, hr⟩ := (isHexLit_iff cs).1 hh
    rw [parseInt_hex_spec t x rest hx hr] at h
    split at h
    · split at h <;> cases h
    · cases h
  · rw [parseInt_nonhex t cs hh] at h
    rw [literalValue_nonhex cs hh]
    cases hd : parseDec t cs with
    | none => rw [hd] at h; cases h
    | some w =>
      rw [hd] at h
      cases h
      exact parseDec_some hd

/-- **C02** hex literals: the literal's magnitude fits the field width and the stored value is that magnitude read as
    two's complement; for unsigned fields it is the magnitude itself -/
theorem int_faithful_hex (t : IntTy) (cs : List Char) (v : Int) (h : parseInt t cs = some (v, true)) :
    ∃ n : Nat, literalValue cs = some (n : Int) ∧ n < 2 ^ t.bits ∧ v = wrapTo t n ∧ t.inRange v ∧
      (t.signed = false → v = n) := by
  by_cases hh : IsHexLit cs
  · obtain ⟨x, rest, rfl, hx, hr⟩ := (isHexLit_iff cs).1 hh
    rw [parseInt_hex_spec t x rest hx hr] at h
    rw [literalValue_hex x rest hx hr]
    cases hd : hexDigits (hexBody rest) with
    | none => rw [hd] at h; cases h
    | some n =>
      rw [hd] at h
      dsimp only at h
      by_cases hn : n < 2 ^ t.bits
      · rw [if_pos hn] at h
        cases h
        obtain ⟨h1, h2⟩ := wrapTo_spec t n hn
        exact ⟨n, rfl, hn, rfl, h1, h2⟩
      · rw [if_neg hn] at h; cases h
  · rw [parseInt_nonhex t cs hh] at h
    cases hd : parseDec t cs with
    | none => rw [hd] at h; cases h
    | some w => rw [hd] at h; cases h

/-- **C02** "a numeric literal that does not fit its field must be diagnosed, never silently changed":
    a decimal literal outside the range of the type, or a hex literal wider than the field, is rejected -/
theorem int_overflow_diagnosed (t : IntTy) (cs : List Char) (n : Int) (hv : literalValue cs = some n)
    (hbad : n < t.min ∨ (2 ^ t.bits : Nat) ≤ n ∨
            ((match cs with | '0' :: x :: r => ¬ ((x = 'x' ∨ x = 'X') ∧ r ≠ []) | _ => True) ∧ t.max < n)) :
    parseInt t cs = none := by
  have hmin := t.min_nonpos
  have hmax := t.max_lt_pow
  by_cases hh : IsHexLit cs
  · obtain ⟨x, rest, rfl, hx, hr⟩ := (isHexLit_iff cs).1 hh
    rw [literalValue_hex x rest hx hr] at hv
    rw [parseInt_hex_spec t x rest hx hr]
    cases hd : hexDigits (hexBody rest) with
    | none => rfl
    | some m =>
      rw [hd] at hv
      have hv' : (m : Int) = n := Option.some.inj hv
      subst hv'
      have hge : 2 ^ t.bits ≤ m := by
        rcases hbad with hb | hb | ⟨hb, _⟩
        · omega
        · exact Int.ofNat_le.1 hb
        · exact absurd ⟨hx, hr⟩ hb
      dsimp only
      rw [if_neg (by omega)]
  · rw [parseInt_nonhex t cs hh]
    rw [literalValue_nonhex cs hh] at hv
    rw [parseDec_none hv]
    · rfl
    · rcases hbad with hb | hb | ⟨_, hb⟩
      · exact Or.inl hb
      · exact Or.inr (by omega)
      · exact Or.inr hb

/-- everything `parseInt` accepts yields an in-range value -/
theorem parseInt_inRange (t : IntTy) (cs : List Char) (v : Int) (hx : Bool) (h : parseInt t cs = some (v, hx)) :
    t.inRange v := by
  cases hx with
  | false => exact (int_faithful_dec t cs v h).2
  | true =>
    obtain ⟨n, _, _, _, hr, _⟩ := int_faithful_hex t cs v h
    exact hr

/-! ## non-vacuity and the defect repaired by the `fix:` commit (hex truncation) -/
example : parseInt .i16 "0xFFFF".toList = some (-1, true) := by decide
example : parseInt .u32 "0x1FFFFFFFF".toList = none := by decide
example : unescape "a\\\"b\"\"c\\n".toList = .ok "a\"b\"c\n".toList := by
  obtain ⟨r, hr, h1, _⟩ := unescape_okL "a\\\"b\"\"c\\n".toList
  rw [hr, h1 (by decide)]
  decide

/-- the pinned code read `0x1FFFFFFFF` into a 32-bit field as `0xFFFFFFFF` without any diagnostic -/
theorem parseIntUnfixed_truncates :
    parseIntUnfixed .u32 "0x1FFFFFFFF".toList = some (4294967295, true) ∧
    literalValue "0x1FFFFFFFF".toList = some 8589934591 := by decide

end A2l.Sc
