import A2lVerif.Lemmas.TreeSkip
/-!
# C07 — non-strict recovery is local: unknown elements are skipped, nothing else changes

Property theorems only; model in Model/Tree.lean (`handleUnknownTaggedstructTag`, `skipUnknownLoop`, which mirror
`parser.rs` `handle_unknown_taggedstruct_tag`). Quantification: every token array, every position of the unknown
element in it, every payload of the stated shape, every stop list (= tag list of the enclosing block).
-/
namespace A2l.Tree

/-! `depth` and `NoDipFrom` are defined in `Lemmas/TreeSkip.lean` (the helper lemmas are stated with them);
    restated here, checked by `rfl`:
    * `depth` — nesting depth change of a token list (`/begin` = +1, `/end` = -1)
    * `NoDipFrom d` — no prefix closes more blocks than it opened, starting at depth `d` -/
example : depth [] = 0 := rfl
example (t : PTok) (ts : List PTok) :
    depth (t :: ts) = (if t.ty = 1 then 1 else if t.ty = 2 then -1 else 0) + depth ts := rfl
example (d : Int) : NoDipFrom d [] = True := rfl
example (d : Int) (t : PTok) (ts : List PTok) :
    NoDipFrom d (t :: ts) =
      (if t.ty = 1 then NoDipFrom (d + 1) ts
       else if t.ty = 2 then 0 ≤ d - 1 ∧ NoDipFrom (d - 1) ts
       else NoDipFrom d ts) := rfl

/-- **unknown block** `/begin TAG body /end TAG`: when the cursor stands behind `/begin TAG`, the skipper consumes
    exactly `body /end TAG` — whatever the body contains (nested unknown blocks, keywords, strings, numbers, comments,
    even tags of the enclosing block) as long as it is balanced — logs exactly one `UnknownSubBlock` (non-strict) and
    leaves everything else of the state unchanged except `lastLine`. -/
theorem skip_block (e : Env) (hns : e.strict = false) (ctx : Ctx) (s : PState)
    (pre body post : List PTok) (endTok tagTok : PTok) (tag : List Char) (stop : List Nat)
    (htoks : e.toks.toList = pre ++ body ++ endTok :: tagTok :: post)
    (hpos : s.pos = pre.length)
    (hbal : depth body = 0) (hnodip : NoDipFrom 0 body)
    (hend : endTok.ty = 2) (htag : tagTok.ty = 0 ∧ tagTok.text = tag) :
    ∃ s', handleUnknownTaggedstructTag ctx tag true stop e s = .ok () s' ∧
      s'.pos = pre.length + body.length + 2 ∧
      s'.log = ⟨.unknownSubBlock, s.lastLine⟩ :: s.log ∧
      s'.seqId = s.seqId ∧ s'.ver = s.ver := by
  have hsize : e.toks.size = pre.length + body.length + (post.length + 2) := by
    rw [← Array.length_toList, htoks]
    simp only [List.length_append, List.length_cons]
  obtain ⟨t0, ht0⟩ := getElem?_of_ne_nil (l := body ++ endTok :: tagTok :: post)
    (by simpa using htoks) hpos (by simp)
  have hpos0 : ({ s with log := ⟨.unknownSubBlock, s.lastLine⟩ :: s.log, lastLine := t0.line } : PState).pos
      = pre.length := hpos
  rw [handleUnknown_nonstrict ctx tag true stop e s t0 hns ht0]
  simp only [↓reduceIte]
  rw [skipUnknownLoop_body ctx tag true stop e body pre (endTok :: tagTok :: post) _ 1 (e.toks.size + 1) htoks hpos0
    (by simp) (by simpa using hnodip) (by simp) (by omega)]
  obtain ⟨f, hf⟩ : ∃ f, e.toks.size + 1 - body.length = f + 2 := ⟨pre.length + post.length + 1, by omega⟩
  rw [hf, hbal]
  rw [skipUnknownLoop_some _ _ _ _ _ _ _ _ endTok (getElem?_of_split (pre := pre ++ body) (rest := tagTok :: post)
    (by simpa using htoks) (by simp))]
  rw [skipStep_end hend, if_neg (by omega)]
  rw [skipUnknownLoop_some _ _ _ _ _ _ _ _ tagTok (getElem?_of_split (pre := pre ++ body ++ [endTok]) (rest := post)
    (by simpa using htoks) (by simp <;> omega))]
  rw [skipStep_ident_block htag.1, if_pos (by omega), if_pos htag.2]
  exact ⟨_, rfl, rfl, rfl, rfl, rfl⟩

/-- **unknown keyword** `TAG args` (no `/begin`): when the cursor stands behind `TAG`, the skipper consumes exactly the
    arguments and stops in front of whatever follows — the `/end` of the enclosing block, the next known keyword of
    the enclosing block, or the `/begin` of the next known block — provided the arguments are balanced and do not
    reuse a tag of the enclosing block (the property's own exclusion). One `UnknownSubBlock` is logged. -/
theorem skip_keyword (e : Env) (hns : e.strict = false) (ctx : Ctx) (s : PState)
    (pre args post : List PTok) (tag : List Char) (stop : List Nat)
    (htoks : e.toks.toList = pre ++ args ++ post)
    (hpos : s.pos = pre.length)
    (hbal : depth args = 0) (hnodip : NoDipFrom 0 args)
    (hnostop : ∀ t ∈ args, t.ty = 0 → ¬ stop.contains t.sym = true)
    (hfollow : match post with
      | t :: _ => t.ty = 2 ∨ (t.ty = 0 ∧ stop.contains t.sym = true)
      | [] => False) :
    ∃ s', handleUnknownTaggedstructTag ctx tag false stop e s = .ok () s' ∧
      s'.pos = pre.length + args.length ∧
      s'.log = ⟨.unknownSubBlock, s.lastLine⟩ :: s.log ∧
      s'.seqId = s.seqId ∧ s'.ver = s.ver := by
  cases post with
  | nil => exact absurd hfollow id
  | cons t post' =>
    simp only at hfollow
    have hsize : e.toks.size = pre.length + args.length + (post'.length + 1) := by
      rw [← Array.length_toList, htoks]
      simp only [List.length_append, List.length_cons]
    obtain ⟨t0, ht0⟩ := getElem?_of_ne_nil (l := args ++ t :: post')
      (by simpa using htoks) hpos (by simp)
    have hpos0 : ({ s with log := ⟨.unknownSubBlock, s.lastLine⟩ :: s.log, lastLine := t0.line } : PState).pos
        = pre.length := hpos
    rw [handleUnknown_nonstrict ctx tag false stop e s t0 hns ht0]
    simp only [Bool.false_eq_true, ↓reduceIte]
    rw [skipUnknownLoop_body ctx tag false stop e args pre (t :: post') _ 0 (e.toks.size + 1) htoks hpos0
      (by simp) (by simpa using hnodip) (fun _ => hnostop) (by omega)]
    obtain ⟨f, hf⟩ : ∃ f, e.toks.size + 1 - args.length = f + 1 := ⟨pre.length + post'.length + 1, by omega⟩
    rw [hf, hbal]
    rw [skipUnknownLoop_some _ _ _ _ _ _ _ _ t (getElem?_of_split (pre := pre ++ args) (rest := post')
      (by simpa using htoks) (by simp))]
    rcases hfollow with h2 | ⟨h0, hstop⟩
    · rw [skipStep_end h2, if_pos (by omega), undoGetToken_succ _ _ (pre.length + args.length) rfl]
      exact ⟨_, rfl, rfl, rfl, rfl, rfl⟩
    · rw [skipStep_ident_keyword h0, if_pos ⟨Or.inl (by omega), hstop⟩, bind_def,
        undoGetToken_succ _ _ (pre.length + args.length) rfl]
      simp only
      rw [if_neg (by omega)]
      exact ⟨_, rfl, rfl, rfl, rfl, rfl⟩

/-- the same when the next known element is a block: the skipper backs up over its `/begin` as well -/
theorem skip_keyword_before_block (e : Env) (hns : e.strict = false) (ctx : Ctx) (s : PState)
    (pre args post : List PTok) (b t : PTok) (tag : List Char) (stop : List Nat)
    (htoks : e.toks.toList = pre ++ args ++ b :: t :: post)
    (hpos : s.pos = pre.length)
    (hbal : depth args = 0) (hnodip : NoDipFrom 0 args)
    (hnostop : ∀ t ∈ args, t.ty = 0 → ¬ stop.contains t.sym = true)
    (hb : b.ty = 1) (ht : t.ty = 0 ∧ stop.contains t.sym = true) :
    ∃ s', handleUnknownTaggedstructTag ctx tag false stop e s = .ok () s' ∧
      s'.pos = pre.length + args.length ∧
      s'.log = ⟨.unknownSubBlock, s.lastLine⟩ :: s.log ∧
      s'.seqId = s.seqId ∧ s'.ver = s.ver := by
  have hsize : e.toks.size = pre.length + args.length + (post.length + 2) := by
    rw [← Array.length_toList, htoks]
    simp only [List.length_append, List.length_cons]
  obtain ⟨t0, ht0⟩ := getElem?_of_ne_nil (l := args ++ b :: t :: post)
    (by simpa using htoks) hpos (by simp)
  have hpos0 : ({ s with log := ⟨.unknownSubBlock, s.lastLine⟩ :: s.log, lastLine := t0.line } : PState).pos
      = pre.length := hpos
  rw [handleUnknown_nonstrict ctx tag false stop e s t0 hns ht0]
  simp only [Bool.false_eq_true, ↓reduceIte]
  rw [skipUnknownLoop_body ctx tag false stop e args pre (b :: t :: post) _ 0 (e.toks.size + 1) htoks hpos0
    (by simp) (by simpa using hnodip) (fun _ => hnostop) (by omega)]
  obtain ⟨f, hf⟩ : ∃ f, e.toks.size + 1 - args.length = f + 2 := ⟨pre.length + post.length + 1, by omega⟩
  rw [hf, hbal]
  rw [skipUnknownLoop_some _ _ _ _ _ _ _ _ b (getElem?_of_split (pre := pre ++ args) (rest := t :: post)
    (by simpa using htoks) (by simp))]
  rw [skipStep_begin hb]
  rw [skipUnknownLoop_some _ _ _ _ _ _ _ _ t (getElem?_of_split (pre := pre ++ args ++ [b]) (rest := post)
    (by simpa using htoks) (by simp <;> omega))]
  rw [skipStep_ident_keyword ht.1, if_pos ⟨Or.inr (by omega), ht.2⟩, bind_def,
    undoGetToken_succ _ _ (pre.length + args.length + 1) rfl]
  simp only
  rw [if_pos (by omega), undoGetToken_succ _ _ (pre.length + args.length) rfl]
  exact ⟨_, rfl, rfl, rfl, rfl, rfl⟩

/-- **strict mode**: the same input is rejected with an error naming the unknown element's class, at the line of the
    unknown tag, before anything is skipped -/
theorem strict_rejects (e : Env) (hs : e.strict = true) (ctx : Ctx) (s : PState) (tag : List Char) (isBlock : Bool)
    (stop : List Nat) :
    handleUnknownTaggedstructTag ctx tag isBlock stop e s = .err ⟨.unknownSubBlock, s.lastLine⟩ s :=
  handleUnknown_strict ctx tag isBlock stop e s hs

/-- an unknown block that is never closed is an error in both modes (no silent partial result) -/
theorem skip_block_eof (e : Env) (hns : e.strict = false) (ctx : Ctx) (s : PState)
    (pre body : List PTok) (tag : List Char) (stop : List Nat)
    (htoks : e.toks.toList = pre ++ body) (hpos : s.pos = pre.length) (hbody : body ≠ [])
    (hnodip : NoDipFrom 0 body) :
    ∃ s', handleUnknownTaggedstructTag ctx tag true stop e s = .err ⟨.unexpectedEOF, s'.lastLine⟩ s' := by
  have hsize : e.toks.size = pre.length + body.length := by
    rw [← Array.length_toList, htoks]
    simp only [List.length_append]
  obtain ⟨t0, ht0⟩ := getElem?_of_ne_nil htoks hpos hbody
  have hpos0 : ({ s with log := ⟨.unknownSubBlock, s.lastLine⟩ :: s.log, lastLine := t0.line } : PState).pos
      = pre.length := hpos
  rw [handleUnknown_nonstrict ctx tag true stop e s t0 hns ht0]
  simp only [↓reduceIte]
  rw [skipUnknownLoop_body ctx tag true stop e body pre [] _ 1 (e.toks.size + 1) (by simpa using htoks) hpos0
    (by simp) (by simpa using hnodip) (by simp) (by omega)]
  obtain ⟨f, hf⟩ : ∃ f, e.toks.size + 1 - body.length = f + 1 := ⟨pre.length, by omega⟩
  rw [hf, skipUnknownLoop_none _ _ _ _ _ _ _ _ (getElem?_of_end (pre := pre ++ body) htoks (by simp))]
  exact ⟨_, rfl⟩

/-! ## non-vacuity: a concrete unknown block with a nested block, a keyword of the parent inside, a comment -/
example :
    let mk (ty : Nat) (s : String) (sym : Nat) : PTok := { ty := ty, text := s.toList, line := 1, sym := sym }
    let body := [mk 0 "X" 7, mk 5 "1" noSym, mk 1 "/begin" noSym, mk 0 "INNER" noSym, mk 6 "/* c */" noSym,
                 mk 2 "/end" noSym, mk 0 "INNER" noSym]
    depth body = 0 ∧ NoDipFrom 0 body := by
  simp [depth, NoDipFrom]

end A2l.Tree
