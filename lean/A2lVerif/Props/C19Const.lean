import A2lVerif.Props.C19
import A2lVerif.Lemmas.A2mlDepth
/-!
# C19, the text constant: `renderSpec` (model of `generate_a2ml_constant` for specifications without named types)

NOT PROVED in general: `parseA2ml (renderSpec S) = .ok S'` with `S'` = `S` up to the parser's normalisations (members
of a tagged type and enum items in reverse order of the text, `insert` semantics for repeated names). What is
checked:
* here, in the kernel: the rendering of a small tree is the expected text; the constant of the `RootStruct`
  specification of the harness (`ROOTSTRUCT_TEXT`, as recorded in the `aml` request) parses, its tree renders to a
  text that parses again, and the two trees have the same `dump_spec` text;
* by the driver (`amlrt`, model-only): the same round trip for all six recorded constants and for all 813 other
  definitions that occur in the recorded `typ` requests: 819 x `ok`.
Since the A2ML parser limits the nesting depth (`MAX_NESTING_DEPTH = 100`, Props/C18.lean 5a'), the round trip can
only hold for specifications of at most 100 levels: `renderSpec_roundtrip_needs_depth` (for a deeper `S` no text at
all parses to `S`, whatever `renderSpec` prints). The specifications that the macro generates from Rust types are a
few levels deep (`rootStruct_depth`).
That the constant is accepted by the library's parser and describes the structure of the typed code is tied by the
recorded requests themselves: the `aml` lines (the library's parser and the model's parser print the same structure
for the constant, and the harness compares it with the specification) and the `typ` lines, whose typed decoding in
the model uses `S = parseA2ml constant`: a typed type that differed from the constant's structure would show up as
a difference there.
-/
namespace A2l.Typed
open A2l.Aml

/-- parse, render, parse: accepted and the same structure -/
def renderRoundTrip (text : String) : Bool :=
  match parseA2ml text.toList with
  | .ok S => dumpOf (parseA2ml (renderSpec S)) == some (dumpSpec S)
  | _ => false

example : renderSpec exSpec =
    "block \"IF_DATA\" taggedunion { \"X\" struct { uint; char[10]; float; }; block \"B\" taggedstruct { (\"T\" uchar)*; \"N\" ; }; };".toList := by
  decide +kernel

/-- `ROOTSTRUCT_TEXT` -/
def rootStructText : String := "      block \"IF_DATA\" struct {\n        uint;\n        char[10];\n        taggedstruct {\n          \"T1\" uint;\n          (\"T2\" char[5])*;\n          block \"SEQUENCE\" (char[12])*;\n        };\n      };"

theorem renderSpec_roundtrip_rootStruct : renderRoundTrip rootStructText = true := by decide +kernel

/-- `SAMENAME_TEXT`: one identifier for a struct, a tagged struct and an enum (A2ML keeps one name space per kind of type;
    seeded change C19-8 merged them) -/
def sameNameText : String := "      struct Timing {\n        uint;\n        uchar;\n      };\n\n      taggedstruct Timing {\n        \"T\" uint;\n        (\"R\" int)*;\n      };\n\n      enum Timing {\n        \"FAST\" = 1,\n        \"SLOW\" = 2\n      };\n\n      block \"IF_DATA\" taggedunion {\n        \"S\" struct Timing;\n        \"TS\" taggedstruct Timing;\n        \"E\" enum Timing;\n      };"

/-- the model's parser accepts it and resolves each reference in the name space of its own kind (the same dump as the
    library prints for the constant: `aml` tie) -/
theorem sameName_constant_accepted : dumpOf (parseA2ml sameNameText.toList) =
    some "tu{(\"E\" 0 0 enum{\"FAST\"=Some(1) \"SLOW\"=Some(2) })(\"S\" 0 0 struct{uint uchar })(\"TS\" 0 0 ts{(\"R\" 0 1 int)(\"T\" 0 0 uint)})}".toList := by
  decide +kernel

/-- the depth of what `parse_a2ml` returns for a text (`none` if it is rejected) -/
def depthOf (text : String) : Option Nat :=
  match parseA2ml text.toList with
  | .ok S => some (specDepth S)
  | _ => none

/-- the `RootStruct` specification is 5 levels deep (struct, tagged struct, `( )*`, `[12]`, `char`) -/
theorem rootStruct_depth : depthOf rootStructText = some 5 := by decide +kernel

/-- **the round trip needs `specDepth S ≤ 100`**: a specification of more than 100 levels is not the result of
    parsing any text, in particular not of its own rendering -/
theorem renderSpec_roundtrip_needs_depth (S : Spec) (h : 100 < specDepth S) (cs : List Char) : parseA2ml cs ≠ .ok S := by
  intro hp
  have := parseA2ml_depth cs S hp
  omega

/-- such specifications exist (100 structs around `int`), and the bound is sharp (99 structs are parsed) -/
example : 100 < specDepth (nestSpec 100) := by rw [specDepth_nestSpec]; decide
example : specDepth (nestSpec 99) ≤ 100 ∧ parseA2ml (nestDeclText 99) = .ok (nestSpec 99) := by
  rw [specDepth_nestSpec, parseA2ml_nest]
  exact ⟨by decide, rfl⟩

end A2l.Typed
