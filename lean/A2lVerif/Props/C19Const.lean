import A2lVerif.Props.C19
/-!
# C19, the text constant: `renderSpec` (model of `generate_a2ml_constant` for specifications without named types)

NOT PROVED in general: `parseA2ml (renderSpec S) = .ok S'` with `S'` = `S` up to the parser's normalisations (members
of a tagged type and enum items in reverse order of the text, `insert` semantics for repeated names). What is
checked:
* here, in the kernel: the rendering of a small tree is the expected text; the constant of the `RootStruct`
  specification of the harness (`ROOTSTRUCT_TEXT`, as recorded in the `aml` request) parses, its tree renders to a
  text that parses again, and the two trees have the same `dump_spec` text;
* by the driver (`amlrt`, model-only): the same round trip for all six recorded constants and for all 813 other
  definitions that occur in the recorded `typ` requests: 819 x `ok`.
That the constant is accepted by the library's parser and describes the structure of the typed code is tied by the
recorded requests themselves: the `aml` lines (the library's parser and the model's parser print the same structure
for the constant, and the harness compares it with the specification) and the `typ` lines, whose typed decoding in
the model uses `S = parseA2ml constant`: a typed type that differed from the constant's structure would show up as
a difference there.
-/
namespace A2l.Typed
open A2l.Aml

/-- parse, render, parse: accepted and the same structure -/
def renderRoundTrip (text : String) : Bool :=
  match parseA2ml text.toList with
  | .ok S => dumpOf (parseA2ml (renderSpec S)) == some (dumpSpec S)
  | _ => false

example : renderSpec exSpec =
    "block \"IF_DATA\" taggedunion { \"X\" struct { uint; char[10]; float; }; block \"B\" taggedstruct { (\"T\" uchar)*; \"N\" ; }; };".toList := by
  decide +kernel

/-- `ROOTSTRUCT_TEXT` -/
def rootStructText : String := "      block \"IF_DATA\" struct {\n        uint;\n        char[10];\n        taggedstruct {\n          \"T1\" uint;\n          (\"T2\" char[5])*;\n          block \"SEQUENCE\" (char[12])*;\n        };\n      };"

theorem renderSpec_roundtrip_rootStruct : renderRoundTrip rootStructText = true := by decide +kernel

end A2l.Typed
